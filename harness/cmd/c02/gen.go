package main

// Seeded generator of module graphs for C02: abstract graph -> file tree.
// Every module body pushes probe events to the global log $L, reads its
// imported bindings at evaluation time (only when that is free of
// temporal-dead-zone effects) and again in a late phase after the whole graph
// has been evaluated (live bindings after updates).

import (
	"fmt"
	"os"
	"sort"
	"strings"

	. "github.com/evanw/esbuild/verifharness/hlib"
)

const (
	modESM = iota
	modCJS
	modJSON
)

var namePool = []string{"x", "y", "z", "w"}

type localExport struct {
	name string // exported name
	decl string // var | function | let | const | class
}

type gimport struct {
	target int
	form   string // named | default | ns | side
	name   string // imported name (named)
	local  string
}

type greexp struct {
	target int
	name   string // imported name; "*" for export * as
	as     string
}

// one statement-level item of an ES module, in source order
type gitem struct {
	kind string // import | reexp | star
	idx  int
}

type gmod struct {
	id            int
	path          string // relative to the root, forward slashes
	kind          int
	locals        []localExport
	hasDef        bool
	defFn         bool // export default function
	imports       []gimport
	reexps        []greexp
	stars         []int
	items         []gitem // source order of import/export-from statements (ESM)
	dyn           []int   // import() targets (queued on $Q)
	requires      []int   // require() targets (CJS files only)
	cjsAssign     bool    // module.exports = {...} instead of exports.x =
	cjsEsm        bool    // exports.__esModule = true; exports.default = ...
	cjsEsmDefine  bool    // ... the marker set with Object.defineProperty (not enumerable)
	throws        bool
	json          string
	aliasTwo      bool // export {v as p, v as q}: one binding under two names
	keepOrder     bool // the import statements keep their order (no shuffle)
	unusedImports bool // fixed scenario only: leave imported bindings unreferenced
}

type ggraph struct {
	hasThrow     bool
	nestedAmb    bool
	problemKnown bool
	indirectHit  bool // set by resolve: the resolve-set check fired in a call made from an indirect export
	mods         []*gmod
	entry        int
	rootType     string // "module" | "commonjs" | ""
	subType      string
	shape        string
	allowKnown   bool // fixed scenario of a recorded finding: do not repair it away
	invalid      bool // deliberately contains an unresolvable or ambiguous import
}

func (g *ggraph) isESM(i int) bool { return g.mods[i].kind == modESM }

// ---- ECMA-262 resolution on the abstract graph (generator-side validity) ----

type gres struct {
	state int // 0 null, 1 found, 2 ambiguous
	mod   int
	bind  string
	via   int // the ES module whose import record targets the CommonJS/JSON file that defines the binding (-1: none)
}

// export * targets in the order of the statements (the order ResolveExport visits them)
func (md *gmod) starsInSourceOrder() []int {
	var out []int
	for _, it := range md.items {
		if it.kind == "star" {
			out = append(out, md.stars[it.idx])
		}
	}
	if len(out) != len(md.stars) {
		return md.stars
	}
	return out
}

func (g *ggraph) cjsNames(m *gmod) []string {
	var out []string
	if m.cjsAssign {
		return out
	}
	for _, l := range m.locals {
		out = append(out, l.name)
	}
	return out
}

func (g *ggraph) resolve(m int, name string, set map[string]bool) gres {
	return g.resolveFrom(m, name, set, false)
}

func (g *ggraph) resolveFrom(m int, name string, set map[string]bool, fromIndirect bool) gres {
	key := fmt.Sprintf("%d:%s", m, name)
	md := g.mods[m]
	if set[key] {
		if set["stack:"+key] {
			// a genuinely circular request (the pair is on the current path)
			isIndirect := false
			for _, r := range md.reexps {
				if r.as == name && r.name != "*" {
					isIndirect = true
				}
			}
			if fromIndirect || isIndirect {
				g.indirectHit = true
			}
		}
		return gres{}
	}
	set[key] = true
	set["stack:"+key] = true
	defer delete(set, "stack:"+key)
	if md.kind == modJSON {
		if name == "default" {
			return gres{1, m, "default", -1}
		}
		return gres{}
	}
	if md.kind == modCJS {
		if name == "default" {
			return gres{1, m, "default", -1}
		}
		for _, n := range g.cjsNames(md) {
			if n == name {
				return gres{1, m, "cjs:" + n, -1}
			}
		}
		return gres{}
	}
	if name == "default" && md.hasDef {
		return gres{1, m, "*default*", -1}
	}
	for _, l := range md.locals {
		if l.name == name {
			return gres{1, m, "l:" + l.name, -1}
		}
	}
	if md.aliasTwo && (name == "p2" || name == "q2") && len(md.locals) > 0 {
		return gres{1, m, "l:" + md.locals[0].name, -1}
	}
	for _, r := range md.reexps {
		if r.as == name {
			if r.name == "*" {
				return gres{1, r.target, "*namespace*", -1}
			}
			rr := g.resolveFrom(r.target, r.name, set, true)
			if rr.state == 1 && g.mods[r.target].kind != modESM {
				rr.via = m
			}
			return rr
		}
	}
	if name == "default" {
		return gres{}
	}
	star := gres{}
	for _, t := range md.starsInSourceOrder() {
		r := g.resolveFrom(t, name, set, false)
		if r.state == 2 {
			if len(md.stars) > 1 {
				// V8 does not propagate a nested ambiguity the way ECMA-262 step 9.c says
				// (it goes on with the next star): native Node is not a usable oracle here
				g.nestedAmb = true
			}
			return r
		}
		if r.state == 1 && g.mods[t].kind != modESM {
			r.via = m // read through this module's run-time re-export
		}
		if r.state == 1 {
			if star.state == 0 {
				star = r
			} else if star.mod != r.mod || star.bind != r.bind {
				return gres{state: 2}
			}
		}
	}
	return star
}

func (g *ggraph) exportedNames(m int, seen map[int]bool) []string {
	if seen[m] {
		return nil
	}
	seen[m] = true
	md := g.mods[m]
	var out []string
	add := func(n string) {
		for _, o := range out {
			if o == n {
				return
			}
		}
		out = append(out, n)
	}
	switch md.kind {
	case modJSON:
		return []string{"default"}
	case modCJS:
		out = append(out, "default")
		for _, n := range g.cjsNames(md) {
			add(n)
		}
		return out
	}
	if md.hasDef {
		add("default")
	}
	for _, l := range md.locals {
		add(l.name)
	}
	if md.aliasTwo && len(md.locals) > 0 {
		add("p2")
		add("q2")
	}
	for _, r := range md.reexps {
		add(r.as)
	}
	for _, t := range md.stars {
		for _, n := range g.exportedNames(t, seen) {
			if n != "default" {
				add(n)
			}
		}
	}
	return out
}

// names of module m that resolve to a binding (what a namespace object shows)
func (g *ggraph) resolvable(m int) []string {
	var out []string
	for _, n := range g.exportedNames(m, map[int]bool{}) {
		if g.resolve(m, n, map[string]bool{}).state == 1 {
			out = append(out, n)
		}
	}
	sort.Strings(out)
	return out
}

func (g *ggraph) ownExportNames(md *gmod) map[string]bool {
	out := map[string]bool{}
	if md.hasDef {
		out["default"] = true
	}
	for _, l := range md.locals {
		out[l.name] = true
	}
	if md.aliasTwo {
		out["p2"] = true
		out["q2"] = true
	}
	for _, r := range md.reexps {
		out[r.as] = true
	}
	return out
}

// static import edges of ES modules (source order)
func (g *ggraph) staticDeps(m int) []int {
	md := g.mods[m]
	var out []int
	for _, it := range md.items {
		switch it.kind {
		case "import":
			out = append(out, md.imports[it.idx].target)
		case "reexp":
			out = append(out, md.reexps[it.idx].target)
		case "star":
			out = append(out, md.stars[it.idx])
		}
	}
	return out
}

func (g *ggraph) reachesStatic(from, to int) bool {
	seen := map[int]bool{}
	var walk func(int) bool
	walk = func(x int) bool {
		if x == to {
			return true
		}
		if seen[x] {
			return false
		}
		seen[x] = true
		for _, d := range g.staticDeps(x) {
			if walk(d) {
				return true
			}
		}
		return false
	}
	for _, d := range g.staticDeps(from) {
		if walk(d) {
			return true
		}
	}
	return false
}

// evalBefore: module d has certainly finished evaluating when the body of module a
// runs: there is a static import path a -> n1 -> ... -> d none of whose nodes
// (d included) reaches a again (such nodes cannot be ancestors still in progress)
func (g *ggraph) evalBefore(d, a int) bool {
	if d == a {
		return false
	}
	seen := map[int]bool{}
	var walk func(int) bool
	walk = func(x int) bool {
		for _, n := range g.staticDeps(x) {
			if n == a || seen[n] {
				continue
			}
			seen[n] = true
			if g.mods[n].kind == modESM && g.reachesStatic(n, a) {
				continue
			}
			if n == d || walk(n) {
				return true
			}
		}
		return false
	}
	return walk(a)
}

// validate: every import and indirect export resolves; returns a description of the first problem
func (g *ggraph) firstLinkProblem() (int, string, int) {
	g.problemKnown = false
	for _, md := range g.mods {
		if md.kind != modESM {
			continue
		}
		for i, im := range md.imports {
			if im.form == "named" || im.form == "default" {
				n := im.name
				if im.form == "default" {
					n = "default"
				}
				g.indirectHit = false
				if g.resolve(im.target, n, map[string]bool{}).state != 1 {
					return md.id, "import", i
				}
				if g.indirectHit && !g.allowKnown {
					g.problemKnown = true
					return md.id, "import", i // found, but through the recorded star/indirect-cycle shape
				}
			}
		}
		for i, r := range md.reexps {
			g.indirectHit = false
			if r.name != "*" {
				st := g.resolve(md.id, r.as, map[string]bool{}).state
				if st == 1 && g.indirectHit && !g.allowKnown {
					g.problemKnown = true
					return md.id, "reexp", i
				}
				if st != 1 {
					return md.id, "reexp", i
				}
			}
		}
	}
	return -1, "", 0
}

func (g *ggraph) rebuildItems(md *gmod, r *Rng) {
	md.items = md.items[:0]
	for i := range md.imports {
		md.items = append(md.items, gitem{"import", i})
	}
	for i := range md.reexps {
		md.items = append(md.items, gitem{"reexp", i})
	}
	for i := range md.stars {
		md.items = append(md.items, gitem{"star", i})
	}
	if md.keepOrder {
		return
	}
	// seeded shuffle: the order of import/export-from statements is the order of module requests
	for i := len(md.items) - 1; i > 0; i-- {
		j := r.Intn(i + 1)
		md.items[i], md.items[j] = md.items[j], md.items[i]
	}
}

type genOpts struct {
	allESM   bool // only ES modules and static imports (in scope of the ECMA-262 spec side)
	maxMods  int
	allowBad bool
}

var shapes = []string{"chain", "diamond", "cycle", "self", "starconflict", "random", "random", "mixed", "mixed", "starcycle", "starcycle", "starchain", "starchain", "stardiamond", "stardiamond"}

func genGraph(r *Rng, o genOpts) *ggraph {
	for {
		g := genGraph1(r, o)
		g.nestedAmb = false
		anyAmb := false
		ambBelowStar := false // an ambiguous name in a module that another module star-exports
		for _, md := range g.mods {
			if md.kind == modESM {
				for _, n := range g.exportedNames(md.id, map[int]bool{}) {
					if g.resolve(md.id, n, map[string]bool{}).state == 2 {
						anyAmb = true
						for _, p := range g.mods {
							for _, t := range p.stars {
								if t == md.id {
									ambBelowStar = true
								}
							}
						}
					}
				}
			}
		}
		// V8 memoises star resolutions while instantiating a cycle of "export *" edges and then
		// reports a name that ECMA-262 makes ambiguous as found: no usable native oracle there
		// ... and it keeps going after a conflict below another star.  Ambiguous names are therefore
		// only generated in graphs without chains of export stars (the fixed graphs cover chains)
		// a name that conflicts with a CommonJS star export is ambiguous natively but statically
		// bound by the linker (the run-time copy never overwrites): no ambiguity next to CommonJS stars;
		// and the run-time copies of "export *" must happen in evaluation order (recorded finding E)
		// (a conflict at the top of a chain of export stars, in a module nobody star-exports, is
		// reported by V8 as ECMA-262 says: diamonds with a shadow on one path are generated)
		if !g.nestedAmb && !(anyAmb && (g.hasStarCycle() || (g.hasStarChain() && ambBelowStar) || g.hasCJSStar())) &&
			(g.allowKnown || g.cjsStarCopiesInOrder()) {
			return g
		}
	}
}

// an entry point that star-exports a CommonJS file has exports that only exist at run time; an
// ESM-format bundle cannot declare them (inherent to static ES module exports): for such a graph
// the entry's exports are compared for the cjs and iife bundles only (flag in describe())
func (g *ggraph) entryStarsCJS() bool {
	if g.mods[g.entry].kind != modESM {
		return false
	}
	for _, c := range g.mods {
		if c.kind != modESM && g.starReaches(g.entry, c.id, map[int]bool{}) {
			return true
		}
	}
	return false
}

// Some ES module without any export statement is the target of a named import or of an
// indirect export.  The linker treats such a file as possibly CommonJS and only warns
// (known finding C02-C), natively the graph does not link: such a graph is never kept as a
// deliberately unlinkable one (the repairs can create the shape by removing a file's last export)
func (g *ggraph) namedTargetExportless() bool {
	bare := func(t int) bool {
		md := g.mods[t]
		return md.kind == modESM && len(g.ownExportNames(md))+len(md.stars) == 0
	}
	for _, md := range g.mods {
		if md.kind != modESM {
			continue
		}
		for _, im := range md.imports {
			if im.form == "named" && bare(im.target) {
				return true
			}
		}
		for _, re := range md.reexps {
			if re.name != "*" && bare(re.target) {
				return true
			}
		}
	}
	return false
}

func permOf(r *Rng, n int) []int {
	out := make([]int, n)
	for i := range out {
		out[i] = i
	}
	for i := n - 1; i > 0; i-- {
		j := r.Intn(i + 1)
		out[i], out[j] = out[j], out[i]
	}
	return out
}

func (g *ggraph) hasCJSStar() bool {
	for _, md := range g.mods {
		for _, t := range md.stars {
			if g.mods[t].kind != modESM {
				return true
			}
		}
	}
	return false
}

// native evaluation position of the ES modules statically reachable from the entry
func (g *ggraph) evalOrder() map[int]int {
	pos := map[int]int{}
	seen := map[int]bool{}
	var visit func(int)
	visit = func(x int) {
		if seen[x] || g.mods[x].kind != modESM {
			return
		}
		seen[x] = true
		for _, d := range g.staticDeps(x) {
			visit(d)
		}
		pos[x] = len(pos)
	}
	visit(g.entry)
	return pos
}

// In a bundle the names an "export *" takes from a CommonJS file are copied at run time
// (__reExport) when the re-exporting module's body runs, and copied again by every module
// that star-exports that module when ITS body runs.  A module P shows such a name only if
// along some star path P -> ... -> S -> cjs every module is evaluated after the next one.
func (g *ggraph) cjsStarCopiesInOrder() bool {
	if !g.hasCJSStar() {
		return true
	}
	pos := g.evalOrder()
	// provides[m] = set of CommonJS files whose names m receives in order
	var ok func(p int, c int, seen map[int]bool) bool
	ok = func(p int, c int, seen map[int]bool) bool {
		if seen[p] {
			return false
		}
		seen[p] = true
		pp, has := pos[p]
		if !has {
			return false
		}
		for _, t := range g.mods[p].stars {
			if t == c {
				return true
			}
			if g.mods[t].kind != modESM {
				continue
			}
			if tp, has := pos[t]; has && tp < pp && ok(t, c, seen) {
				return true
			}
		}
		return false
	}
	// every module that can reach a CommonJS star along star edges must receive it in order
	for _, md := range g.mods {
		if md.kind != modESM {
			continue
		}
		for _, c := range g.mods {
			if c.kind == modESM {
				continue
			}
			if g.starReaches(md.id, c.id, map[int]bool{}) && !ok(md.id, c.id, map[int]bool{}) {
				return false
			}
		}
	}
	return true
}

func (g *ggraph) starReaches(p, c int, seen map[int]bool) bool {
	if seen[p] {
		return false
	}
	seen[p] = true
	for _, t := range g.mods[p].stars {
		if t == c || (g.mods[t].kind == modESM && g.starReaches(t, c, seen)) {
			return true
		}
	}
	return false
}

func (g *ggraph) hasStarChain() bool {
	for _, md := range g.mods {
		for _, t := range md.stars {
			if len(g.mods[t].stars) > 0 {
				return true
			}
		}
	}
	return false
}

func (g *ggraph) hasStarCycle() bool {
	for _, md := range g.mods {
		seen := map[int]bool{}
		var walk func(int) bool
		walk = func(x int) bool {
			for _, t := range g.mods[x].stars {
				if t == md.id {
					return true
				}
				if !seen[t] {
					seen[t] = true
					if walk(t) {
						return true
					}
				}
			}
			return false
		}
		if walk(md.id) {
			return true
		}
	}
	return false
}

func genGraph1(r *Rng, o genOpts) *ggraph {
	g := &ggraph{}
	g.shape = shapes[r.Intn(len(shapes))]
	if (g.shape == "starcycle" || g.shape == "starchain") && o.allESM {
		g.shape = "cycle"
	}
	chain := 0
	if g.shape == "starchain" {
		// 0 (entry) -> export * -> 1 -> ... -> chain (ES modules), then 1-2 CommonJS leaves
		chain = r.Range(1, 3)
	}
	n := r.Range(2, 5)
	cyc := 0
	if g.shape == "starcycle" {
		// 0 = importer, 1..cyc = export-star cycle, then 1-2 CommonJS files, maybe one more ES module
		cyc = r.Range(2, 3)
		n = 1 + cyc + r.Range(1, 2) + r.Intn(2)
	}
	if chain > 0 {
		n = 1 + chain + r.Range(1, 2)
	}
	// stardiamond: [importer,] lib, two branches, optional module between a branch and the join,
	// the join, 0-1 further star levels, the leaf
	sdImporter, sdMidA, sdMidB, sdLevels := false, false, false, 1
	if g.shape == "stardiamond" {
		sdImporter, sdMidA, sdMidB, sdLevels = r.Chance(65), r.Chance(35), r.Chance(25), r.Range(1, 2)
		n = 5 + sdLevels - 1
		if sdImporter {
			n++
		}
		if sdMidA {
			n++
		}
		if sdMidB {
			n++
		}
	}
	if g.shape == "random" || g.shape == "mixed" {
		n = r.Range(3, o.maxMods)
	}
	if g.shape == "self" {
		n = r.Range(1, 3)
	}
	mixed := g.shape == "mixed" && !o.allESM
	g.rootType = []string{"module", "commonjs", ""}[r.Intn(3)]
	g.subType = []string{"module", "commonjs"}[r.Intn(2)]
	for i := 0; i < n; i++ {
		md := &gmod{id: i, kind: modESM}
		if mixed && i > 0 {
			switch r.Intn(6) {
			case 0, 1:
				md.kind = modCJS
			case 2:
				md.kind = modJSON
			}
		}
		if mixed && i == 0 && r.Chance(20) {
			md.kind = modCJS
		}
		if cyc > 0 && i > cyc && (i <= cyc+1 || (i == cyc+2 && r.Bool())) {
			md.kind = modCJS
		}
		if chain > 0 && i > chain {
			md.kind = modCJS
		}
		g.mods = append(g.mods, md)
	}
	// paths: extension and directory consistent with node's module kind rules
	for _, md := range g.mods {
		dir := ""
		typ := g.rootType
		if r.Chance(30) {
			dir = "sub/"
			typ = g.subType
		}
		switch md.kind {
		case modJSON:
			md.path = fmt.Sprintf("%sd%d.json", dir, md.id)
		case modESM:
			if typ == "module" && r.Chance(60) {
				md.path = fmt.Sprintf("%sm%d.js", dir, md.id)
			} else {
				md.path = fmt.Sprintf("%sm%d.mjs", dir, md.id)
			}
		case modCJS:
			if typ != "module" && r.Chance(60) {
				md.path = fmt.Sprintf("%sm%d.js", dir, md.id)
			} else {
				md.path = fmt.Sprintf("%sm%d.cjs", dir, md.id)
			}
		}
	}
	// local exports
	decls := []string{"var", "var", "function", "let", "const", "class"}
	for _, md := range g.mods {
		switch md.kind {
		case modJSON:
			md.json = genJSON(r, 2)
			continue
		case modCJS:
			md.cjsAssign = r.Chance(30) && cyc == 0 && chain == 0
			md.cjsEsmDefine = r.Bool()
			md.cjsEsm = !md.cjsAssign && r.Chance(25) && cyc == 0 && chain == 0 // a star-exported __esModule marker shows up as a key in the bundle only
		}
		for _, nm := range namePool {
			if r.Chance(40) {
				d := decls[r.Intn(len(decls))]
				if md.kind == modCJS {
					d = "var"
				}
				md.locals = append(md.locals, localExport{nm, d})
			}
		}
		if md.kind == modESM {
			md.hasDef = r.Chance(40)
			md.defFn = r.Chance(40)
			md.aliasTwo = len(md.locals) > 0 && r.Chance(8) // export {v as p2, v as q2} (finding C02-A, repaired by a7bd0a8)
			md.throws = r.Chance(3) && md.id != 0
		}
	}
	// edges
	edge := func(a, b int) {
		ma := g.mods[a]
		if ma.kind == modJSON {
			return
		}
		if ma.kind == modCJS {
			if g.mods[b].kind == modESM {
				ma.dyn = append(ma.dyn, b) // require(esm) is not loadable natively
			} else if g.mods[b].kind == modCJS && !g.mods[b].cjsEsm && !g.mods[b].cjsAssign && r.Chance(25) {
				// import() of CommonJS from a file that is not ESM-typed; a target with the __esModule
				// marker would get Babel interop there (recorded finding G), native node never does
				ma.dyn = append(ma.dyn, b)
			} else {
				ma.requires = append(ma.requires, b)
			}
			return
		}
		tk := g.mods[b].kind
		switch {
		case tk == modESM && r.Chance(25):
			ma.stars = append(ma.stars, b)
		case tk == modCJS && !g.mods[b].cjsAssign && !g.mods[b].cjsEsm && !o.allESM && r.Chance(20):
			ma.stars = append(ma.stars, b) // export * from a CommonJS file: names resolved at run time
		case tk == modESM && r.Chance(12) && !o.allESM:
			ma.dyn = append(ma.dyn, b)
		case tk == modCJS && !g.mods[b].cjsAssign && r.Chance(30) && !o.allESM: // (node's lexer does not see the names of module.exports = {...})
			// import() of CommonJS from an ESM-typed file (node mode: default is module.exports), next to
			// a static import of the same file as control
			ma.dyn = append(ma.dyn, b)
			ma.imports = append(ma.imports, gimport{target: b, form: "side"})
		default:
			ma.imports = append(ma.imports, gimport{target: b, form: "side"})
		}
	}
	switch g.shape {
	case "chain":
		for i := 0; i+1 < n; i++ {
			edge(i, i+1)
		}
	case "diamond":
		for i := 1; i < n-1; i++ {
			edge(0, i)
			edge(i, n-1)
		}
		if n == 2 {
			edge(0, 1)
		}
	case "cycle":
		for i := 0; i < n; i++ {
			edge(i, (i+1)%n)
		}
	case "self":
		edge(0, 0)
		for i := 0; i+1 < n; i++ {
			edge(i, i+1)
		}
	case "starchain":
		// multi-level export * ending in CommonJS leaves: the entry's own exports include names that
		// only exist at run time (observed by an importer, a requirer and through the global name)
		for i := 0; i < chain; i++ {
			g.mods[i].stars = append(g.mods[i].stars, i+1)
		}
		for j := chain + 1; j < n; j++ {
			k := chain
			if j > chain+1 {
				k = r.Range(0, chain) // a second leaf hangs anywhere, also directly on the entry
			}
			g.mods[k].stars = append(g.mods[k].stars, j)
		}
		if r.Chance(40) {
			g.mods[0].imports = append(g.mods[0].imports, gimport{target: r.Range(1, chain), form: "side"})
		}
	case "starcycle":
		for i := 1; i <= cyc; i++ {
			g.mods[i].stars = append(g.mods[i].stars, i%cyc+1)
		}
		sMem := r.Range(1, cyc)
		for j := cyc + 1; j < n; j++ {
			// the CommonJS files are star-exported by one cycle member (before or after its cycle
			// edge: the statement order is shuffled); a remaining ES module by any member
			if g.mods[j].kind == modCJS {
				g.mods[sMem].stars = append(g.mods[sMem].stars, j)
			} else if g.mods[j].kind == modESM {
				k := r.Range(1, cyc)
				g.mods[k].stars = append(g.mods[k].stars, j)
			}
		}
		// the importer reads through every cycle member; it enters the cycle right after sMem, so
		// that sMem is evaluated first and the run-time copies happen in order (see finding E)
		first := sMem%cyc + 1
		g.mods[0].keepOrder = true
		g.mods[0].imports = append(g.mods[0].imports, gimport{target: first, form: "side"})
		for _, i := range permOf(r, cyc) {
			if i+1 != first {
				g.mods[0].imports = append(g.mods[0].imports, gimport{target: i + 1, form: "side"})
			}
		}
	case "stardiamond":
		// a diamond of export stars whose shared descendant (the join) lies at least two star levels
		// below lib and whose leaf lies below the join; a contested name of the leaf is shadowed by a
		// module on exactly one of the two paths, so it is ambiguous in lib (and only there)
		next := 0
		take := func() *gmod { m := g.mods[next]; next++; return m }
		if sdImporter {
			take()
		}
		lib, a, b := take(), take(), take()
		lastA, lastB := a, b
		if sdMidA {
			m := take()
			a.stars = append(a.stars, m.id)
			lastA = m
		}
		if sdMidB {
			m := take()
			b.stars = append(b.stars, m.id)
			lastB = m
		}
		join := take()
		lastA.stars = append(lastA.stars, join.id)
		lastB.stars = append(lastB.stars, join.id)
		cur := join
		for i := 1; i < sdLevels; i++ {
			m := take()
			cur.stars = append(cur.stars, m.id)
			cur = m
		}
		leaf := take()
		cur.stars = append(cur.stars, leaf.id)
		lib.stars = append(lib.stars, a.id, b.id) // the statement order is shuffled
		pathA := []*gmod{a}
		if lastA != a {
			pathA = append(pathA, lastA)
		}
		nm := namePool[r.Intn(len(namePool))]
		shadow := pathA[r.Intn(len(pathA))]
		has := func(m *gmod) bool {
			for _, l := range m.locals {
				if l.name == nm {
					return true
				}
			}
			return false
		}
		for _, m := range g.mods {
			m.aliasTwo, m.throws = false, false
			if m == shadow || m == leaf {
				if !has(m) {
					m.locals = append(m.locals, localExport{nm, "var"})
				}
				continue
			}
			var keep []localExport
			for _, l := range m.locals {
				if l.name != nm {
					keep = append(keep, l)
				}
			}
			m.locals = keep
		}
		if sdImporter {
			imp := g.mods[0]
			imp.imports = append(imp.imports, gimport{target: lib.id, form: "ns", local: "i0_lib"},
				gimport{target: lib.id, form: "side"}, gimport{target: a.id, form: "side"}, gimport{target: b.id, form: "side"})
		}
	case "starconflict":
		for i := 1; i < n; i++ {
			g.mods[0].stars = append(g.mods[0].stars, i)
			if i+1 < n && r.Chance(50) {
				g.mods[i].stars = append(g.mods[i].stars, i+1)
			}
		}
	default:
		for i := 0; i < n; i++ {
			k := r.Range(0, 3)
			if i == 0 {
				k = r.Range(1, 3)
			}
			for j := 0; j < k; j++ {
				t := r.Intn(n)
				if r.Chance(70) && i+1 < n {
					t = r.Range(i+1, n-1) // mostly forward edges, some back edges (cycles)
				}
				edge(i, t)
			}
		}
		// keep everything reachable: chain the unreferenced ones from a predecessor
		for i := 1; i < n; i++ {
			edge(r.Intn(i), i)
		}
	}
	// export * as ns from
	for _, md := range g.mods {
		if md.kind == modESM && r.Chance(15) && n > 1 {
			t := r.Intn(n)
			if g.mods[t].kind == modESM {
				md.reexps = append(md.reexps, greexp{target: t, name: "*", as: fmt.Sprintf("ns%d_%d", t, md.id)}) // unique per exporter: V8 treats two "export * as" of one module as different bindings (ECMA-262: the same)
			}
		}
	}
	for _, md := range g.mods {
		g.rebuildItems(md, r)
	}
	// indirect exports: export {a as b} from T, chosen among names T resolves now
	for _, md := range g.mods {
		if md.kind != modESM {
			continue
		}
		cnt := 0
		if r.Chance(50) {
			cnt = r.Range(1, 2)
		}
		for c := 0; c < cnt; c++ {
			t := r.Intn(n)
			if g.mods[t].kind != modESM && !(g.mods[t].kind == modCJS && !g.mods[t].cjsAssign) {
				continue
			}
			names := g.resolvable(t)
			if len(names) == 0 {
				continue
			}
			nm := names[r.Intn(len(names))]
			as := nm
			if r.Chance(50) {
				as = namePool[r.Intn(len(namePool))]
			}
			if as == "default" || g.ownExportNames(md)[as] {
				continue
			}
			md.reexps = append(md.reexps, greexp{target: t, name: nm, as: as})
		}
	}
	// turn side-effect imports into binding imports
	lc := 0
	for _, md := range g.mods {
		if md.kind != modESM {
			continue
		}
		var extra []gimport
		for i := range md.imports {
			im := &md.imports[i]
			names := g.resolvable(im.target)
			tk := g.mods[im.target].kind
			for tries := r.Range(0, 3); tries > 0; tries-- {
				lc++
				local := fmt.Sprintf("i%d_%d", md.id, lc)
				var ni gimport
				switch r.Intn(4) {
				case 0:
					if tk == modJSON || (tk == modCJS && (g.mods[im.target].cjsAssign || (g.mods[im.target].cjsEsm && g.mods[im.target].cjsEsmDefine))) {
						continue // JSON has only a default export; node's lexer does not see the names of module.exports = {...}
					}
					ni = gimport{target: im.target, form: "ns", local: local}
				case 1:
					has := false
					for _, nm := range names {
						if nm == "default" {
							has = true
						}
					}
					if !has {
						continue
					}
					ni = gimport{target: im.target, form: "default", local: local}
				default:
					var cand []string
					for _, nm := range names {
						if nm != "default" {
							cand = append(cand, nm)
						}
					}
					if tk == modJSON {
						cand = nil
					}
					if o.allowBad && !g.hasCJSStar() && r.Chance(4) && tk == modESM && len(g.ownExportNames(g.mods[im.target]))+len(g.mods[im.target].stars) > 0 {
						// (a file without any export statement is treated as possibly CommonJS by the
						// linker and a missing import from it is only a warning: recorded finding)
						cand = append([]string{}, namePool...) // may be missing or ambiguous
					}
					if len(cand) == 0 {
						continue
					}
					ni = gimport{target: im.target, form: "named", name: cand[r.Intn(len(cand))], local: local}
				}
				if im.form == "side" && r.Chance(70) {
					*im = ni
				} else {
					extra = append(extra, ni)
				}
			}
		}
		md.imports = append(md.imports, extra...)
		g.rebuildItems(md, r)
	}
	// repair or keep link problems
	for iter := 0; iter < 50; iter++ {
		m, what, idx := g.firstLinkProblem()
		if m < 0 {
			break
		}
		if o.allowBad && !g.hasCJSStar() && !g.invalid && !g.problemKnown && !g.namedTargetExportless() && g.isESM(0) && (m == 0 || g.reachesStatic(0, m)) && r.Chance(50) {
			g.invalid = true
			break
		}
		md := g.mods[m]
		if what == "import" {
			md.imports[idx].form = "side"
		} else {
			md.reexps = append(md.reexps[:idx], md.reexps[idx+1:]...)
		}
		g.rebuildItems(md, r)
	}
	if m, _, _ := g.firstLinkProblem(); m >= 0 {
		g.invalid = true
	}
	for _, md := range g.mods {
		if md.throws {
			g.hasThrow = true
		}
	}
	if g.hasThrow && !g.allowKnown && os.Getenv("C02_KEEP_DYN_THROW") == "" {
		// a module whose evaluation threw is not re-thrown by a later import() in a bundle
		// (recorded finding), and bindings after the throw stay uninitialised natively
		for _, md := range g.mods {
			md.dyn = nil
		}
	}
	return g
}

func genJSON(r *Rng, depth int) string {
	switch r.Intn(7) {
	case 0:
		return fmt.Sprintf("%d", r.Range(-5, 1000))
	case 1:
		return []string{"true", "false", "null"}[r.Intn(3)]
	case 2:
		return []string{`"s"`, `""`, `"a\u0000b"`, `" x"`, `"café"`, `"__proto__"`, `"😀"`}[r.Intn(7)]
	case 3:
		if depth > 0 {
			var parts []string
			for i := r.Range(0, 3); i > 0; i-- {
				parts = append(parts, genJSON(r, depth-1))
			}
			return "[" + strings.Join(parts, ",") + "]"
		}
		return "1.5e3"
	default:
		if depth > 0 {
			keys := []string{"a", "b", "default", "x", "k y", "0", "__esModule", "constructor"}
			var parts []string
			used := map[string]bool{}
			for i := r.Range(0, 4); i > 0; i-- {
				k := keys[r.Intn(len(keys))]
				if used[k] {
					continue
				}
				used[k] = true
				parts = append(parts, fmt.Sprintf("%q:%s", k, genJSON(r, depth-1)))
			}
			return "{" + strings.Join(parts, ",") + "}"
		}
		return "-0.25"
	}
}

// ---- rendering ----

func relImport(from, to string) string {
	fd := ""
	if i := strings.LastIndex(from, "/"); i >= 0 {
		fd = from[:i+1]
	}
	if fd == "" {
		return "./" + to
	}
	if strings.HasPrefix(to, fd) {
		return "./" + to[len(fd):]
	}
	return "../" + to
}

const preludeJS = `globalThis.$L = []; globalThis.$late = []; globalThis.$Q = Promise.resolve();
globalThis.$D = function (v, d) {
  d = d || 0;
  if (v === undefined) return "undefined";
  if (v === null) return "null";
  var t = typeof v;
  if (t === "number") return Object.is(v, -0) ? "-0" : String(v);
  if (t === "string") return JSON.stringify(v);
  if (t === "boolean") return String(v);
  if (t === "function") { if (/^class/.test(Function.prototype.toString.call(v))) { return "class"; } return "fn"; }
  if (t === "symbol") return "symbol";
  if (d > 2) return "{..}";
  if (Array.isArray(v)) return "[" + v.map(function (x) { return $D(x, d + 1); }).join(",") + "]";
  var ks = Object.keys(v).sort(), o = [];
  for (var i = 0; i < ks.length; i++) {
    var val; try { val = $D(v[ks[i]], d + 1); } catch (e) { val = "!" + (e && e.name); }
    o.push(ks[i] + ":" + val);
  }
  return "{" + o.join(",") + "}";
};
globalThis.$NS = function (ns) {
  var ks = Object.keys(ns).filter(function (k) { return k !== "__esModule"; }).sort(), o = [];
  for (var i = 0; i < ks.length; i++) {
    var val; try { val = $D(ns[ks[i]], 1); } catch (e) { val = "!" + (e && e.name); }
    o.push(ks[i] + ":" + val);
  }
  return "{" + o.join(",") + "}";
};
globalThis.$P = function (tag, fn) {
  try { $L.push(tag + "=" + $D(fn())); } catch (e) { $L.push(tag + "!" + (e && e.name)); }
};
`

func (g *ggraph) render() map[string]string {
	files := map[string]string{}
	if g.rootType != "" {
		files["package.json"] = fmt.Sprintf(`{"type":%q}`, g.rootType)
	}
	files["sub/package.json"] = fmt.Sprintf(`{"type":%q}`, g.subType)
	for _, md := range g.mods {
		switch md.kind {
		case modJSON:
			files[md.path] = md.json
		case modCJS:
			files[md.path] = g.renderCJS(md)
		default:
			files[md.path] = g.renderESM(md)
		}
	}
	return files
}

func attrFor(g *ggraph, t int) string {
	if g.mods[t].kind == modJSON {
		return ` with { type: "json" }`
	}
	return ""
}

func (g *ggraph) renderESM(md *gmod) string {
	var sb strings.Builder
	id := md.id
	for _, it := range md.items {
		switch it.kind {
		case "import":
			im := md.imports[it.idx]
			p := relImport(md.path, g.mods[im.target].path)
			at := attrFor(g, im.target)
			switch im.form {
			case "side":
				fmt.Fprintf(&sb, "import %q%s;\n", p, at)
			case "ns":
				fmt.Fprintf(&sb, "import * as %s from %q%s;\n", im.local, p, at)
			case "default":
				fmt.Fprintf(&sb, "import %s from %q%s;\n", im.local, p, at)
			case "named":
				fmt.Fprintf(&sb, "import { %s as %s } from %q%s;\n", im.name, im.local, p, at)
			}
		case "reexp":
			re := md.reexps[it.idx]
			p := relImport(md.path, g.mods[re.target].path)
			if re.name == "*" {
				fmt.Fprintf(&sb, "export * as %s from %q;\n", re.as, p)
			} else {
				fmt.Fprintf(&sb, "export { %s as %s } from %q;\n", re.name, re.as, p)
			}
		case "star":
			fmt.Fprintf(&sb, "export * from %q;\n", relImport(md.path, g.mods[md.stars[it.idx]].path))
		}
	}
	fmt.Fprintf(&sb, "$L.push(\"%d:start\");\n", id)
	if !md.unusedImports {
		// every imported binding is referenced (in a closure that is never called): with
		// minify-syntax an UNUSED import of a missing export is silently dropped (recorded finding)
		var uses []string
		for _, im := range md.imports {
			if im.form != "side" {
				uses = append(uses, im.local)
			}
		}
		if len(uses) > 0 {
			fmt.Fprintf(&sb, "globalThis.$U%d = () => [%s];\n", id, strings.Join(uses, ", "))
		}
	}
	for _, l := range md.locals {
		v := fmt.Sprintf("%d.%s", id, l.name)
		switch l.decl {
		case "var", "let":
			fmt.Fprintf(&sb, "export %s %s = %q;\n", l.decl, l.name, v)
		case "const":
			fmt.Fprintf(&sb, "export const %s = { v: %q };\n", l.name, v)
		case "function":
			fmt.Fprintf(&sb, "export function %s() { return %q + \"/\" + $c%d; }\n", l.name, v, id)
		case "class":
			fmt.Fprintf(&sb, "export class %s { get id() { return %q; } }\n", l.name, v)
		}
	}
	fmt.Fprintf(&sb, "var $c%d = 0;\n", id)
	// a mutator that updates every var/let export (live bindings)
	fmt.Fprintf(&sb, "function $bump%d() { $c%d++;", id, id)
	for _, l := range md.locals {
		if l.decl == "var" || l.decl == "let" {
			fmt.Fprintf(&sb, " %s = %s + \"+\";", l.name, l.name)
		}
	}
	sb.WriteString(" }\n")
	if md.aliasTwo {
		fmt.Fprintf(&sb, "export { %s as p2, %s as q2 };\n", md.locals[0].name, md.locals[0].name)
	}
	if md.hasDef {
		if md.defFn {
			fmt.Fprintf(&sb, "export default function () { return \"%d.default/\" + $c%d; }\n", id, id)
		} else {
			fmt.Fprintf(&sb, "export default \"%d.default\";\n", id)
		}
	}
	// reads at evaluation time
	for _, im := range md.imports {
		tag := fmt.Sprintf("%d:%s", id, im.local)
		switch im.form {
		case "ns":
			// Object.keys on a namespace reads every binding ([[GetOwnProperty]]): TDZ applies
			if g.safeNS(md.id, im.target) {
				fmt.Fprintf(&sb, "$P(%q, () => Object.keys(%s).sort().join());\n", tag+".keys", im.local)
				fmt.Fprintf(&sb, "$P(%q, () => %s);\n", tag, g.readExpr(im.local))
			}
		case "default", "named":
			if g.safeRead(md.id, im) {
				fmt.Fprintf(&sb, "$P(%q, () => %s);\n", tag, g.readExpr(im.local))
			}
		}
	}
	if md.throws {
		fmt.Fprintf(&sb, "if ($L.length >= 0) throw new RangeError(\"boom%d\");\n", id)
	}
	fmt.Fprintf(&sb, "$bump%d();\n", id)
	for _, t := range md.dyn {
		p := relImport(md.path, g.mods[t].path)
		fmt.Fprintf(&sb, "$Q = $Q.then(() => import(%q%s)).then(ns => { $P(\"%d:dyn%d\", () => $NS(ns)); }, e => { $L.push(\"%d:dyn%d!\" + (e && e.name)); });\n", p, dynAttr(g, t), id, t, id, t)
	}
	// late phase
	fmt.Fprintf(&sb, "$late.push(() => {\n")
	for _, im := range md.imports {
		if im.form == "side" || g.hasThrow {
			continue
		}
		fmt.Fprintf(&sb, "  $P(\"%d:late:%s\", () => %s);\n", id, im.local, g.readExpr(im.local))
	}
	for _, im := range md.imports {
		if im.form != "ns" || g.hasThrow || g.mods[im.target].kind != modESM {
			continue
		}
		// static property accesses on the namespace (the linker rewrites these into bindings)
		for _, nm := range g.resolvable(im.target) {
			if nm != "default" {
				fmt.Fprintf(&sb, "  $P(\"%d:late:%s.%s\", () => $D(%s.%s));\n", id, im.local, nm, im.local, nm)
			}
		}
	}
	fmt.Fprintf(&sb, "  $bump%d();\n", id)
	for _, im := range md.imports {
		if im.form == "side" || g.hasThrow {
			continue
		}
		fmt.Fprintf(&sb, "  $P(\"%d:late2:%s\", () => %s);\n", id, im.local, g.readExpr(im.local))
	}
	sb.WriteString("});\n")
	fmt.Fprintf(&sb, "$L.push(\"%d:end\");\n", id)
	return sb.String()
}

func dynAttr(g *ggraph, t int) string {
	if g.mods[t].kind == modJSON {
		return `, { with: { type: "json" } }`
	}
	return ""
}

// describe a binding without depending on function names: call functions, instantiate classes
func (g *ggraph) readExpr(local string) string {
	return fmt.Sprintf("(typeof %s === \"function\" ? (/^class/.test(Function.prototype.toString.call(%s)) ? new %s().id : %s()) : %s)", local, local, local, local, local)
}

// is reading the imported binding at evaluation time free of TDZ effects?
func (g *ggraph) safeRead(m int, im gimport) bool { return g.safeReadD(m, im, 0) }

func (g *ggraph) safeReadD(m int, im gimport, depth int) bool {
	if depth > 3 {
		return false
	}
	n := im.name
	if im.form == "default" {
		n = "default"
	}
	r := g.resolve(im.target, n, map[string]bool{})
	if r.state != 1 {
		return false
	}
	d := g.mods[r.mod]
	if d.kind != modESM {
		// CommonJS / JSON: the value is read through the module that imports the file,
		// which must have been evaluated (the importer itself hoists it)
		return r.via < 0 || (g.evalBefore(r.via, m) && !g.mods[r.via].throws)
	}
	if r.bind == "*namespace*" {
		return g.safeNSD(m, r.mod, depth+1)
	}
	if r.bind == "*default*" {
		if d.defFn {
			return true
		}
	} else {
		for _, l := range d.locals {
			if "l:"+l.name == r.bind && (l.decl == "var" || l.decl == "function") {
				// hoisted: never in the temporal dead zone; but a function reads $c (var, hoisted) fine
				return true
			}
		}
	}
	return g.evalBefore(r.mod, m) && !d.throws
}

// reading a namespace object's property values: every binding it exposes must be initialised
func (g *ggraph) safeNS(m int, t int) bool { return g.safeNSD(m, t, 0) }

func (g *ggraph) safeNSD(m int, t int, depth int) bool {
	if g.mods[t].kind != modESM {
		return true
	}
	// in a bundle the namespace object of a module is created at that module's position: while
	// the module is still an ancestor in progress (import cycle) the object does not exist yet
	// (natively it does), so it is only read at evaluation time when t has finished evaluating
	if t != m && !g.evalBefore(t, m) {
		return false
	}
	for _, n := range g.resolvable(t) {
		if !g.safeReadD(m, gimport{target: t, form: "named", name: n}, depth) {
			return false
		}
	}
	return true
}

func (g *ggraph) renderCJS(md *gmod) string {
	var sb strings.Builder
	id := md.id
	sb.WriteString("\"use strict\";\n")
	fmt.Fprintf(&sb, "$L.push(\"%d:start\");\n", id)
	if md.cjsEsm {
		if md.cjsEsmDefine {
			sb.WriteString("Object.defineProperty(exports, \"__esModule\", { value: true });\n")
		} else {
			sb.WriteString("exports.__esModule = true;\n")
		}
		fmt.Fprintf(&sb, "exports.default = \"%d.cjsdefault\";\n", id)
	}
	half := len(md.locals) / 2
	emit := func(ls []localExport) {
		for _, l := range ls {
			fmt.Fprintf(&sb, "exports.%s = \"%d.%s\";\n", l.name, id, l.name)
		}
	}
	if !md.cjsAssign {
		emit(md.locals[:half])
	}
	for k, t := range md.requires {
		p := relImport(md.path, g.mods[t].path)
		fmt.Fprintf(&sb, "var r%d_%d = require(%q);\n", id, k, p)
		fmt.Fprintf(&sb, "$P(\"%d:req%d\", () => r%d_%d);\n", id, t, id, k)
	}
	if md.cjsAssign {
		var parts []string
		for _, l := range md.locals {
			parts = append(parts, fmt.Sprintf("%s: \"%d.%s\"", l.name, id, l.name))
		}
		switch len(md.locals) % 3 {
		case 0:
			fmt.Fprintf(&sb, "module.exports = { %s };\n", strings.Join(parts, ", "))
		case 1:
			fmt.Fprintf(&sb, "module.exports = function () { return \"%d.fn\"; };\n", id)
		default:
			fmt.Fprintf(&sb, "module.exports = \"%d.str\";\n", id)
		}
	} else {
		emit(md.locals[half:])
	}
	for _, t := range md.dyn {
		p := relImport(md.path, g.mods[t].path)
		fmt.Fprintf(&sb, "$Q = $Q.then(() => import(%q%s)).then(ns => { $P(\"%d:dyn%d\", () => $NS(ns)); }, e => { $L.push(\"%d:dyn%d!\" + (e && e.name)); });\n", p, dynAttr(g, t), id, t, id, t)
	}
	fmt.Fprintf(&sb, "$late.push(() => {\n")
	for k, t := range md.requires {
		fmt.Fprintf(&sb, "  $P(\"%d:late:req%d\", () => r%d_%d);\n", id, t, id, k)
	}
	sb.WriteString("});\n")
	fmt.Fprintf(&sb, "$L.push(\"%d:end\");\n", id)
	return sb.String()
}

func (g *ggraph) describe() map[string]interface{} {
	var paths []string
	for _, m := range g.mods {
		paths = append(paths, m.path)
	}
	d := map[string]interface{}{"shape": g.shape, "entry": g.mods[g.entry].path, "modules": paths, "rootType": g.rootType, "subType": g.subType}
	if g.entryStarsCJS() {
		d["entry_dynamic_exports"] = true
	}
	return d
}
