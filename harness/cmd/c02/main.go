package main

// C02: bundling preserves module-graph semantics.
//  - correspondence: random module graphs are scanned by the real bundler and
//    linked by the real linker phases (verif hook linker.VerifC02Link); the
//    linker's input graph and the state it computed (exports kinds, wrap
//    kinds, resolved exports, import bindings, link errors, file order) are
//    written as Coq cases that the Gallina models and the ECMA-262 spec side
//    recompute;
//  - data-URL encoder cases against helpers.EncodeStringAsPercentEscapedDataURL;
//  - glue stream: the same kind of graphs materialised on disk, run natively
//    in Node and as esbuild bundles (api.Build; esm/cjs/iife, node/neutral/
//    browser, minify on/off), probe logs and entry exports compared.

import (
	"encoding/hex"
	"encoding/json"
	"fmt"
	"os"
	"path/filepath"
	"regexp"
	"sort"
	"strings"

	"github.com/evanw/esbuild/internal/bundler"
	"github.com/evanw/esbuild/internal/cache"
	"github.com/evanw/esbuild/internal/config"
	"github.com/evanw/esbuild/internal/fs"
	"github.com/evanw/esbuild/internal/graph"
	"github.com/evanw/esbuild/internal/helpers"
	"github.com/evanw/esbuild/internal/linker"
	"github.com/evanw/esbuild/internal/logger"
	"github.com/evanw/esbuild/internal/resolver"
	. "github.com/evanw/esbuild/verifharness/hlib"
)

func main() { Main("c02", runC02) }

type linkCfg struct {
	format   config.Format
	platform config.Platform
}

// scan + link phases on an in-memory file tree; returns the hook's dump and the link-phase messages
func scanAndDump(files map[string]string, entry string, cfg linkCfg) (*linker.VerifC02Dump, []logger.Msg, []logger.Msg) {
	abs := map[string]string{}
	for p, c := range files {
		abs["/"+p] = c
	}
	opts := config.Options{
		Mode:           config.ModeBundle,
		OutputFormat:   cfg.format,
		Platform:       cfg.platform,
		AbsOutputFile:  "/out/out.js",
		AbsOutputDir:   "/out",
		TreeShaking:    true,
		ExtensionOrder: []string{".tsx", ".ts", ".jsx", ".js", ".css", ".json"},
	}
	if cfg.format == config.FormatIIFE {
		opts.GlobalName = []string{"G"}
	}
	log := logger.NewDeferLog(logger.DeferLogNoVerboseOrDebug, nil)
	mfs := fs.MockFS(abs, fs.MockUnix, "/")
	b := bundler.ScanBundle(config.BuildCall, log, mfs, cache.MakeCacheSet(), []bundler.EntryPoint{{InputPath: "/" + entry}}, opts, nil)
	scanMsgs := log.Done()
	for _, m := range scanMsgs {
		if m.Kind == logger.Error {
			return nil, scanMsgs, nil
		}
	}
	var dump *linker.VerifC02Dump
	log2 := logger.NewDeferLog(logger.DeferLogNoVerboseOrDebug, nil)
	b.Compile(log2, nil, nil, func(options *config.Options, timer *helpers.Timer, lg logger.Log, f fs.FS, res *resolver.Resolver,
		inputFiles []graph.InputFile, entryPoints []graph.EntryPoint, uniqueKeyPrefix string, reachableFiles []uint32,
		dataForSourceMaps func() []bundler.DataForSourceMap) []graph.OutputFile {
		dump = linker.VerifC02Link(options, timer, lg, f, res, inputFiles, entryPoints, uniqueKeyPrefix, reachableFiles, dataForSourceMaps)
		return nil
	})
	linkMsgs := log2.Done()
	lastOutput = ""
	if dump != nil && !dump.HasErrors {
		log3 := logger.NewDeferLog(logger.DeferLogNoVerboseOrDebug, nil)
		outs, _ := b.Compile(log3, nil, nil, linker.Link)
		log3.Done()
		for _, o := range outs {
			if strings.HasSuffix(o.AbsPath, ".js") {
				lastOutput = string(o.Contents)
			}
		}
	}
	return dump, scanMsgs, linkMsgs
}

// text of the bundle the real linker.Link produced for the last scanAndDump call (unminified)
var lastOutput string

var reCycle = regexp.MustCompile(`^Detected cycle while resolving import "(.*)"$`)
var reAmbig = regexp.MustCompile(`^Ambiguous import "(.*)" has multiple matching exports$`)
var reNoMatch = regexp.MustCompile(`^No matching export in ".*" for import "(.*)"$`)

type nameTable struct {
	ids map[string]int
}

func (t *nameTable) id(s string) int {
	if s == "default" {
		return 0
	}
	if v, ok := t.ids[s]; ok {
		return v
	}
	v := len(t.ids) + 1
	t.ids[s] = v
	return v
}

func b2(b bool) string { return CBool(b) }

// dumpToCoq renders one case: (graph, observations)
func dumpToCoq(d *linker.VerifC02Dump, msgs []logger.Msg, cfg linkCfg) (string, bool) {
	nt := &nameTable{ids: map[string]int{}}
	maxIdx := 0
	byIdx := map[uint32]*linker.VerifC02File{}
	pathIdx := map[string]uint32{}
	for i := range d.Files {
		f := &d.Files[i]
		if !f.IsJS {
			return "", false
		}
		byIdx[f.Index] = f
		pathIdx[f.Path] = f.Index
		if int(f.Index) > maxIdx {
			maxIdx = int(f.Index)
		}
	}
	var mods []string
	for i := 0; i <= maxIdx; i++ {
		f, ok := byIdx[uint32(i)]
		if !ok {
			mods = append(mods, "E")
			continue
		}
		var recs, parts, imps, exps, stars []string
		for _, r := range f.Records {
			recs = append(recs, fmt.Sprintf("R %s %d %s %s", CZi(r.Target), r.Kind, b2(r.HasStar), b2(r.HasDef)))
		}
		for _, p := range f.Parts {
			if len(p.Records) == 0 {
				continue // parts without import records do not influence any modelled phase
			}
			var idx []string
			for _, x := range p.Records {
				idx = append(idx, fmt.Sprint(x))
			}
			parts = append(parts, fmt.Sprintf("PT [%s] %s", strings.Join(idx, ";"), b2(p.Live)))
		}
		for _, im := range f.Imports {
			ns := -1
			if im.HasNS {
				ns = int(im.NSRef0)
			}
			imps = append(imps, fmt.Sprintf("I %d %d %s %d %s %s %s", im.Ref, nt.id(im.Alias), b2(im.IsStar), im.Record, CZi(ns), b2(im.Generated), b2(im.Exported)))
		}
		for _, e := range f.NamedExports {
			exps = append(exps, fmt.Sprintf("P2 %d %d", nt.id(e.Alias), e.Ref))
		}
		for _, s := range f.Stars {
			stars = append(stars, fmt.Sprint(s))
		}
		var lazyExps []string
		if f.HasLazy {
			named := map[string]bool{}
			for _, e := range f.NamedExports {
				named[e.Alias] = true
			}
			for _, e := range f.Resolved {
				if e.Src == f.Index && !named[e.Alias] {
					lazyExps = append(lazyExps, fmt.Sprintf("P2 %d %d", nt.id(e.Alias), e.Ref))
				}
			}
		}
		mods = append(mods, fmt.Sprintf("M [%s] [%s] [%s] [%s] [%s] %d %s %s %s %s %s %s %d %s [%s]",
			strings.Join(recs, "; "), strings.Join(parts, "; "), strings.Join(imps, "; "), strings.Join(exps, "; "), strings.Join(stars, ";"),
			f.ExportsKind0, b2(f.HasLazy), b2(f.UsesExports), b2(f.UsesModule), b2(f.ExportKw), b2(f.IsTS), b2(f.IsEntry), f.ExportsRef, b2(f.Live), strings.Join(lazyExps, "; ")))
	}
	zl := func(xs []uint32) string {
		var s []string
		for _, x := range xs {
			s = append(s, fmt.Sprint(x))
		}
		return "[" + strings.Join(s, ";") + "]"
	}
	var kinds, resolved, imports, events, keys []string
	for i := range d.Files {
		f := &d.Files[i]
		kinds = append(kinds, fmt.Sprintf("T3 %d %d %d", f.Index, f.ExportsKind, f.Wrap))
		if f.Index == 0 {
			continue
		}
		var rs []string
		for _, e := range f.Resolved {
			var ambs []string
			for _, a := range e.Amb {
				ambs = append(ambs, fmt.Sprintf("P2 %d %d", a[0], a[1]))
			}
			rs = append(rs, fmt.Sprintf("RX %d %d %d [%s]", nt.id(e.Alias), e.Src, e.Ref, strings.Join(ambs, ";")))
		}
		resolved = append(resolved, fmt.Sprintf("FR %d [%s]", f.Index, strings.Join(rs, "; ")))
		var is []string
		for _, im := range f.Imports {
			bs, br, ns, nr, na := -1, 0, -1, 0, -1
			if im.Bound {
				bs, br = int(im.BoundSrc), int(im.BoundRef)
			}
			if im.NSAlias {
				ns, nr, na = int(im.NSSrc), int(im.NSRef), nt.id(im.NSName)
			}
			miss := 0
			if im.Missing {
				miss = 1
			}
			is = append(is, fmt.Sprintf("IO %d %s %d %s %d %s %d", im.Ref, CZi(bs), br, CZi(ns), nr, CZi(na), miss))
		}
		imports = append(imports, fmt.Sprintf("FI %d [%s]", f.Index, strings.Join(is, "; ")))
		if f.Live {
			keys = append(keys, fmt.Sprintf("T3 %d %d %d", f.Distance, f.Stable, f.Index))
		}
	}
	for _, m := range msgs {
		if m.Kind != logger.Error {
			continue
		}
		code, alias := 0, ""
		if s := reCycle.FindStringSubmatch(m.Data.Text); s != nil {
			code, alias = 1, s[1]
		} else if s := reAmbig.FindStringSubmatch(m.Data.Text); s != nil {
			code, alias = 2, s[1]
		} else if s := reNoMatch.FindStringSubmatch(m.Data.Text); s != nil {
			code, alias = 3, s[1]
		} else {
			return "", false // some other link error: outside the modelled phases
		}
		if m.Data.Location == nil {
			return "", false
		}
		fi, ok := pathIdx[m.Data.Location.File.Rel]
		if !ok {
			return "", false
		}
		events = append(events, fmt.Sprintf("T3 %d %d %d", fi, code, nt.id(alias)))
	}
	chunk := "[]"
	if len(d.Chunks) == 1 {
		chunk = zl(d.Chunks[0])
	} else if len(d.Chunks) > 1 {
		return "", false
	}
	fmtWraps := cfg.format == config.FormatIIFE || cfg.format == config.FormatESModule
	keepESM := cfg.format == config.FormatESModule
	obs := fmt.Sprintf("mkObs %s %s %s %s [%s] [%s] [%s] [%s] %s [%s] %s",
		b2(fmtWraps), b2(keepESM), zl(d.Entries), zl(d.Reachable), strings.Join(kinds, "; "), strings.Join(resolved, "; "),
		strings.Join(imports, "; "), strings.Join(events, "; "), b2(d.HasErrors), strings.Join(keys, "; "), chunk)
	return fmt.Sprintf("([%s],\n  %s)", strings.Join(mods, ";\n   "), obs), true
}

func runC02(seed uint64, n int, tier string, outDir string) []*Stats {
	r := NewRng(seed)
	cf := NewCoqFile("From V Require Import Common.Base C02.Graph C02.EvalOrder C02.Harness.")
	st := NewStats("c02", seed)

	// ---- linker correspondence ----
	var cases []string
	var emitCases []string
	var toesmCases []string
	nCorr := n
	formats := []config.Format{config.FormatESModule, config.FormatCommonJS, config.FormatIIFE}
	platforms := []config.Platform{config.PlatformNode, config.PlatformNeutral, config.PlatformBrowser}
	forceFormat := -1
	addCase := func(g *ggraph, kind string) {
		files := g.render()
		cfg := linkCfg{formats[r.Intn(3)], platforms[r.Intn(3)]}
		if forceFormat >= 0 {
			cfg.format = formats[forceFormat]
		}
		d, scanMsgs, linkMsgs := scanAndDump(files, g.mods[g.entry].path, cfg)
		if d == nil {
			st.Note("corr:scan-error", fmt.Sprint(len(scanMsgs)), false)
			return
		}
		toesmCases = append(toesmCases, toESMCases(g, lastOutput)...)
		if ec, ok := emitCase(d, cfg, lastOutput); ok {
			emitCases = append(emitCases, ec)
			st.Note("emit:"+[]string{"", "iife", "cjs", "esm"}[int(cfg.format)%4], ec, true)
		}
		c, ok := dumpToCoq(d, linkMsgs, cfg)
		if !ok {
			st.Note("corr:out-of-model", kind, false)
			return
		}
		cases = append(cases, c)
		k := "corr:" + kind
		if d.HasErrors {
			k += ":link-error"
		}
		st.Note(k, c, len(g.mods) > 1)
		if len(cases) <= 2 {
			st.Sample(map[string]interface{}{"graph": g.describe(), "format": int(cfg.format)})
		}
	}
	for _, g := range fixedGraphs() {
		// the boundary graphs are linked in all three output formats
		for forceFormat = 0; forceFormat < 3; forceFormat++ {
			addCase(g, "fixed")
		}
	}
	forceFormat = -1
	if wp := os.Getenv("VERIF_C02_WITNESS"); wp != "" {
		// development aid: print the Coq terms of the recorded-finding graphs
		var ws []string
		for _, g := range []*ggraph{aliasTwoNamesGraph(), knownStarCycleGraph()} {
			d, _, linkMsgs := scanAndDump(g.render(), "e.mjs", linkCfg{config.FormatESModule, config.PlatformNode})
			c, _ := dumpToCoq(d, linkMsgs, linkCfg{config.FormatESModule, config.PlatformNode})
			ws = append(ws, c)
		}
		os.WriteFile(wp, []byte(strings.Join(ws, "\n\n")), 0o644)
	}
	for i := 0; i < nCorr; i++ {
		allESM := r.Chance(55)
		g := genGraph(r, genOpts{allESM: allESM, maxMods: 7, allowBad: true})
		kind := g.shape
		if allESM {
			kind += ":esm"
		}
		addCase(g, kind)
	}
	cf.AddCases("emit_cases", "emit_case", "check_emit", emitCases)
	cf.AddCases("toesm_cases", "bool * bool * bool", "check_toesm", toesmCases)
	st.Note("toesm-calls", fmt.Sprint(len(toesmCases)), len(toesmCases) > 0)
	cf.AddCases("reach_cases", "case", "check_reach", cases)
	extra := ""
	for _, chk := range []string{"classify", "resolved", "match", "order", "spec_order", "spec_resolve"} {
		extra += fmt.Sprintf("Definition R_%s_cases := Eval vm_compute in (check_%s reach_cases).\nPrint R_%s_cases.\n", chk, chk, chk)
	}

	// ---- data URL encoder ----
	var durl []string
	var durlURLs []string
	var durlTexts [][]byte
	for i := 0; i < n+len(durlGrid); i++ {
		var text []byte
		if i < len(durlGrid) {
			text = []byte(durlGrid[i])
		} else {
			text = randText(r)
		}
		mime := []string{"text/plain", "application/octet-stream", "image/svg+xml", "text/plain;charset=utf-8"}[r.Intn(4)]
		url, ok := helpers.EncodeStringAsPercentEscapedDataURL(mime, string(text))
		if ok {
			durlURLs = append(durlURLs, url)
			durlTexts = append(durlTexts, text)
		}
		short := helpers.EncodeStringAsShortestDataURL(mime, string(text))
		durlURLs = append(durlURLs, short)
		durlTexts = append(durlTexts, text)
		durl = append(durl, fmt.Sprintf("(%s, %s, %s, %s)", CBytes([]byte(mime)), CBytes(text), CBytes([]byte(url)), CBool(ok)))
		st.Note("dataurl", string(text), len(text) > 0)
	}
	durlOracle(st, durlURLs, durlTexts)
	cf.AddCases("durl_cases", "bytes * bytes * bytes * bool", "check_durl", durl)
	extra += "Definition R_durl_spec_cases := Eval vm_compute in (check_durl_spec durl_cases).\nPrint R_durl_spec_cases.\n"

	// ---- glue stream ----
	nGlue := n / 3
	if tier == "thorough" {
		nGlue = n / 2
	}
	evalCases, interopCases := glueStream(r, st, nGlue, tier)
	extra += "Definition interop_cases : list (bool * bool * bool * bool * Z * Z * Z) := " + CList(interopCases) + ".\nDefinition R_interop_cases := Eval vm_compute in (check_interop interop_cases).\nPrint R_interop_cases.\n"
	extra += "Definition evalorder_cases : list (case * bool * egraph * Z * list (Z * Z) * list (Z * Z)) := " + CList(evalCases) + ".\nDefinition R_evalorder_cases := Eval vm_compute in (check_evalorder evalorder_cases).\nPrint R_evalorder_cases.\n"

	st.Finish("seeded generator (splitmix64 from VERIF_SEED): module graphs by shape (chain, diamond, cycle, self-import, star conflict, random, mixed ESM/CJS/JSON) with named/default/namespace imports, indirect exports, export *, export * as, dynamic import, require, package.json type and .mjs/.cjs; fixed boundary graphs; data-URL texts from a boundary grid plus random bytes; glue = native Node run versus api.Build bundles (esm/cjs/iife x platform x minify). distinct_nontrivial = distinct cases with more than one module / non-empty text")
	if err := os.WriteFile(filepath.Join(outDir, "c02_cases.v"), []byte(cf.String()+extra), 0o644); err != nil {
		panic(err)
	}
	return []*Stats{st}
}

var durlGrid = []string{"", "a", " ", "  ", "a ", " a", "a\t", "\tb", "a\nb", "a\rb", "#", "a#b", "%", "%4", "%41", "a%41", "%41b", "%4g", "%g1", "%%41", "%%",
	"100%", "100% ", "%41 ", "%4\x01", "%\x001", "\x00", "a\x00", "\x00a", "\x01\x02mid\x03", "\x7f", "a\x7fb", "é", "%é", "é%41", "日本", "😀", "%😀", "a,b", "a;base64,b",
	"\xff", "a\xffb", "\xc3", "\xe2\x82", "\xed\xa0\x80", "\xf4\x90\x80\x80", "\xc0\xaf", "\xef\xbf\xbd", "\x1f", "a\x1f", "a \t ", "%2", "%a", "%aF", "%Af\x20", "\x20%41"}

func randText(r *Rng) []byte {
	alphabet := []string{"%", "%", "4", "1", "a", "F", "g", " ", "\t", "\n", "\r", "#", "\x00", "\x01", "\x1f", "\x7f", "é", "日", "😀", ",", ";", "x", "y", "/", "?", "&", "=", "\"", "<", ">", "\\"}
	var out []byte
	for k := r.Range(0, 12); k > 0; k-- {
		if r.Chance(8) {
			out = append(out, byte(r.Intn(256)))
		} else {
			out = append(out, alphabet[r.Intn(len(alphabet))]...)
		}
	}
	return out
}

// sorted keys helper
func sortedKeys(m map[string]string) []string {
	var ks []string
	for k := range m {
		ks = append(ks, k)
	}
	sort.Strings(ks)
	return ks
}

// the property's predicate for data URLs on the real encoder: Node's WHATWG
// implementation (fetch) must decode every produced URL to the original bytes
func durlOracle(st *Stats, urls []string, texts [][]byte) {
	if len(urls) == 0 {
		return
	}
	dir, err := os.MkdirTemp("", "verif-c02-durl-")
	if err != nil {
		panic(err)
	}
	defer os.RemoveAll(dir)
	data, _ := json.Marshal(urls)
	os.WriteFile(filepath.Join(dir, "in.json"), data, 0o644)
	script := `import fs from "fs";
const urls = JSON.parse(fs.readFileSync(process.argv[2], "utf8"));
const out = [];
for (const u of urls) {
  try { const b = new Uint8Array(await (await fetch(u)).arrayBuffer()); out.push(Buffer.from(b).toString("hex")); }
  catch (e) { out.push("!" + (e && e.name)); }
}
fs.writeFileSync(process.argv[3], JSON.stringify(out));
`
	os.WriteFile(filepath.Join(dir, "run.mjs"), []byte(script), 0o644)
	_, stderr, err := RunNodeModule(dir, "--no-warnings", "run.mjs", "in.json", "out.json")
	if err != nil {
		st.Note("dataurl-oracle:node-failed", stderr, false)
		return
	}
	raw, err := os.ReadFile(filepath.Join(dir, "out.json"))
	if err != nil {
		return
	}
	var got []string
	if json.Unmarshal(raw, &got) != nil || len(got) != len(urls) {
		return
	}
	for i := range urls {
		want := hex.EncodeToString(texts[i])
		st.Note("dataurl-oracle", urls[i], len(texts[i]) > 0)
		if got[i] != want {
			st.Fail("dataurl-decodes-to-different-bytes", map[string]interface{}{"text_hex": want, "url": urls[i]}, got[i], want)
		}
	}
}

var reToCJSAssign = regexp.MustCompile(`^\s*module\.exports = __toCommonJS\((\w+)\);$`)
var reToCJSReturn = regexp.MustCompile(`^\s*return __toCommonJS\((\w+)\);$`)
var reExportCall = regexp.MustCompile(`^\s*__export\((\w+), \{$`)
var reExportItem = regexp.MustCompile(`^\s+("(?:[^"\\]|\\.)*"|[\w$]+): \(\) =>`)
var reReExport = regexp.MustCompile(`^\s*__reExport\((\w+), (.*)\);$`)
var reClauseItem = regexp.MustCompile(`^\s+(?:[\w$]+ as )?("(?:[^"\\]|\\.)*"|[\w$]+),?$`)

// emitCase: the statements of the real bundle that decide the entry point's external exports
// (ES-module entry that is not wrapped), to be compared with Emit.entry_stmts
func emitCase(d *linker.VerifC02Dump, cfg linkCfg, text string) (string, bool) {
	if text == "" || len(d.Entries) != 1 {
		return "", false
	}
	var entry *linker.VerifC02File
	kindOf := map[uint32]uint8{}
	for i := range d.Files {
		kindOf[d.Files[i].Index] = d.Files[i].ExportsKind
		if d.Files[i].Index == d.Entries[0] {
			entry = &d.Files[i]
		}
	}
	if entry == nil || !entry.IsJS || entry.Wrap != 0 || entry.ExportsKind == 1 || !entry.ExportKw || entry.HasLazy {
		return "", false
	}
	ids := map[string]int{"default": 0}
	var aliases []string
	for i, a := range entry.Sorted {
		if a != "default" {
			ids[a] = i + 1
		}
		aliases = append(aliases, fmt.Sprint(ids[a]))
	}
	idOf := func(tok string) int {
		if strings.HasPrefix(tok, "\"") {
			var sdec string
			if json.Unmarshal([]byte(tok), &sdec) == nil {
				tok = sdec
			}
		}
		if v, ok := ids[tok]; ok {
			return v
		}
		return -1
	}
	ndyn := 0
	for _, ri := range entry.Stars {
		r := entry.Records[ri]
		if r.Target >= 0 && uint32(r.Target) != entry.Index && (kindOf[uint32(r.Target)] == 1 || kindOf[uint32(r.Target)] == 3) {
			ndyn++
		}
	}
	lines := strings.Split(text, "\n")
	// the entry's exports object
	E := ""
	for _, ln := range lines {
		if m := reToCJSAssign.FindStringSubmatch(ln); m != nil {
			E = m[1]
		}
		if m := reToCJSReturn.FindStringSubmatch(ln); m != nil {
			E = m[1]
		}
	}
	fz := map[config.Format]int{config.FormatESModule: 0, config.FormatCommonJS: 1, config.FormatIIFE: 2}[cfg.format]
	var obs []string
	if cfg.format == config.FormatESModule {
		// only the export clause is compared
		start := -1
		for i, ln := range lines {
			if strings.TrimSpace(ln) == "export {" {
				start = i
			}
		}
		if start >= 0 {
			var names []string
			for _, ln := range lines[start+1:] {
				if strings.HasPrefix(strings.TrimSpace(ln), "}") {
					break
				}
				if m := reClauseItem.FindStringSubmatch(ln); m != nil {
					names = append(names, CZi(idOf(m[1])))
				}
			}
			obs = append(obs, "OC ["+strings.Join(names, ";")+"]")
		}
	} else {
		if E == "" {
			return "", false
		}
		for i := 0; i < len(lines); i++ {
			ln := lines[i]
			if m := reExportCall.FindStringSubmatch(ln); m != nil && m[1] == E {
				var names []string
				for i++; i < len(lines); i++ {
					if mm := reExportItem.FindStringSubmatch(lines[i]); mm != nil {
						names = append(names, CZi(idOf(mm[1])))
					} else {
						break
					}
				}
				obs = append(obs, "OX ["+strings.Join(names, ";")+"]")
				i--
				continue
			}
			if m := reToCJSAssign.FindStringSubmatch(ln); m != nil {
				obs = append(obs, "OA")
			}
			if m := reToCJSReturn.FindStringSubmatch(ln); m != nil {
				obs = append(obs, "ORet")
			}
			if m := reReExport.FindStringSubmatch(ln); m != nil && m[1] == E {
				obs = append(obs, "OR "+CBool(strings.HasSuffix(m[2], ", module.exports")))
			}
		}
	}
	return fmt.Sprintf("(%d, %s, [%s], %d, [%s])", fz, CBool(entry.ExportKw), strings.Join(aliases, ";"), ndyn, strings.Join(obs, "; ")), true
}

var reSection = regexp.MustCompile(`^\s*// (\S+)$`)
var reToESMCall = regexp.MustCompile(`__toESM\(require_\w+\(\)(, 1)?\)`)

// toESMCases: every "__toESM(require_x()[, 1])" of the real (unminified) bundle with the importing
// file's typing (all ES-module files of the generated trees are ESM-typed: .mjs or .js under
// "type": "module"; CommonJS files are not) and whether it is the body of an import()
func toESMCases(g *ggraph, text string) []string {
	if text == "" {
		return nil
	}
	typed := map[string]bool{}
	known := map[string]bool{}
	for _, m := range g.mods {
		known[m.path] = true
		typed[m.path] = m.kind == modESM
	}
	var out []string
	cur := ""
	for _, ln := range strings.Split(text, "\n") {
		if m := reSection.FindStringSubmatch(ln); m != nil && known[m[1]] {
			cur = m[1]
			continue
		}
		if cur == "" {
			continue
		}
		for _, m := range reToESMCall.FindAllStringSubmatch(ln, -1) {
			dyn := strings.Contains(ln, "Promise.resolve().then(")
			out = append(out, fmt.Sprintf("(%s, %s, %s)", CBool(typed[cur]), CBool(dyn), CBool(m[1] != "")))
		}
	}
	return out
}
