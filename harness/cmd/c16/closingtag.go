package main

import (
	"fmt"

	"github.com/evanw/esbuild/internal/helpers"
	. "github.com/evanw/esbuild/verifharness/hlib"
)

// helpers.EscapeClosingTag: raw bytes of legal comments, package paths and printed
// comments, with the tags its callers pass ("/script", "/style", "") and a few others.
var ectTags = []string{"/script", "/style", "", "/SCRIPT", "/a", "/", "script", "/s</s"}
var ectPieces = []string{"<", "/", "</", "</script", "</SCRIPT>", "</Style", "</scrip", "</sty", "<\\/script", "</ſcript", "</Kcript", "</ſtyle",
	"\\", "script", "style", "t", ">", "a", " ", "\n", "*/", "//", "\xff", "\xC3", "\xed\xa0\x80", "é", "\x00", "<<", "<//", "</s", "</sc", "</scr", "</scri", "</st", "</styl", "</sCrIpT", "</stylE>"}

func runClosingTag(seed uint64, n int, st *Stats, cf *CoqFile) {
	r := NewRng(seed ^ 0x5ca1ab1e)
	var items []string
	for i := 0; i < n; i++ {
		tag := ectTags[0]
		var t []byte
		if i < len(ectPieces)*2 {
			tag = ectTags[i%2]
			t = []byte(ectPieces[i/2])
		} else {
			if r.Intn(4) == 0 {
				tag = ectTags[r.Intn(len(ectTags))]
			} else {
				tag = ectTags[r.Intn(2)]
			}
			for k := r.Intn(8); k > 0; k-- {
				t = append(t, ectPieces[r.Intn(len(ectPieces))]...)
			}
			if r.Intn(8) == 0 && len(t) > 0 {
				t = t[:r.Intn(len(t))] // cut anywhere, also inside a tag or a rune
			}
		}
		var out string
		status, msg := guard(func() { out = helpers.EscapeClosingTag(string(t), tag) })
		items = append(items, fmt.Sprintf("(%s,%s,%d,%s)", CBytes([]byte(tag)), CBytes(t), status, CBytes([]byte(out))))
		st.Note("closingtag", tag+"\x00"+string(t), out != string(t))
		if status != 0 {
			st.Fail("panic in helpers.EscapeClosingTag", fmt.Sprintf("%q %q", tag, t), msg, "an escaped text")
		}
	}
	cf.AddCases("closingtag_cases", "bytes * bytes * Z * bytes", "check_closingtag", items)
}
