package main

import (
	"fmt"

	"github.com/evanw/esbuild/internal/css_lexer"
	. "github.com/evanw/esbuild/verifharness/hlib"
)

var cssLexPieces = []string{"\\", "\\41", "\\41 ", "\\000041", "\\0000411", "\\0", "\\110000 ", "\\d800 ", "\\ffffff", "\\g", "\\\n", "\\\r\n", "\\\r", "\\\f", "\"", "'", "(", ")", " ", "\t", "\n", "\r", "\f",
	"a", "Z", "_", "-", "0", "9", "é", "\xC3", "\xF0\x9F\x98\x80", "\xED\xA0\x80", "\x00", "\x08", "\x7F", "\x1F", "\x0B", "url", "x", ";", "{", "/", "*", "\\)", "\\\"", " )", "  ", "\uFEFF"}

func runCSSLex(r *Rng, n int, st *Stats, cf *CoqFile) {
	var items []string
	for i := 0; i < n; i++ {
		which := i % 4
		var in []byte
		// a plausible first byte for the consumer, then hostile pieces
		switch which {
		case 0:
			in = append(in, '\\')
		case 1:
			in = append(in, "\"'"[r.Intn(2)])
		case 3:
			if r.Chance(70) {
				in = append(in, "a-_\\é"[r.Intn(4)])
			}
		}
		if r.Chance(10) {
			in = in[:0]
		}
		for k := r.Intn(7); k > 0; k-- {
			in = append(in, cssLexPieces[r.Intn(len(cssLexPieces))]...)
		}
		var rr rune
		var kind css_lexer.T
		var name string
		var cur int
		var cp rune
		var rl int32
		status, msg := guard(func() { rr, kind, name, cur, cp, rl = css_lexer.VerifConsume(which, string(in)) })
		v := int64(rr)
		if which == 1 || which == 2 {
			v = map[css_lexer.T]int64{css_lexer.TString: 1, css_lexer.TUnterminatedString: 2, css_lexer.TURL: 3, css_lexer.TBadURL: 4}[kind]
		}
		if which == 3 {
			v = 0
		}
		items = append(items, fmt.Sprintf("(%d,%s,%d,%s,%s,%d,%s,%d)", which, CBytes(in), status, CZ(v), CBytes([]byte(name)), cur, CZ(int64(cp)), rl))
		st.Note([]string{"css-escape", "css-string", "css-url", "css-name"}[which], string(in), len(in) > 1)
		if status != 0 {
			st.Fail("panic in a css_lexer consumer", map[string]interface{}{"consumer": which, "text_go_quoted": fmt.Sprintf("%q", in)}, msg, "a token")
		} else if cur < 0 || cur > len(in) {
			st.Fail("css_lexer cursor left the input", map[string]interface{}{"consumer": which, "text_go_quoted": fmt.Sprintf("%q", in)}, cur, "0 <= current <= len")
		}
	}
	cf.AddCases("csslex_cases", "Z * bytes * Z * Z * bytes * Z * Z * Z", "check_csslex", items)
}
