package main

// C16: no crash, hang or internal error on any input.
//  * correspondence: hostile bytes through the real byte-level decoders under
//    recover, compared with the checked-access Coq models (a Go panic where the
//    model says Ok is a disagreement AND a failing input of the property);
//  * supporting search (search, not proof): seeded mutation of the
//    repository's own test inputs through api.Transform / api.Build for every
//    loader x option subset, each case in a killable child process with a
//    wall-clock limit.

import (
	"fmt"
	"os"
	"path/filepath"
	"sort"
	"strings"
	"time"

	. "github.com/evanw/esbuild/verifharness/hlib"
)

func main() {
	if os.Getenv("C16_WORKER") == "1" {
		workerMain()
		return
	}
	Main("c16", runC16)
}

func repoDir() string {
	if d := os.Getenv("VERIF_REPO"); d != "" {
		return d
	}
	return "/repo"
}

func runC16(seed uint64, n int, tier string, outDir string) []*Stats {
	// every temp tree of the child processes lives under one root that is removed at the end
	// (a killed child cannot clean up after itself)
	if root, err := os.MkdirTemp("", "verif-c16-"); err == nil {
		os.Setenv("C16_TMP", root)
		defer os.RemoveAll(root)
	}
	r := NewRng(seed)
	cf := NewCoqFile("From V Require Import Common.Base C16.Checked C16.Wtf8 C16.Vlq16 C16.CssNum C16.Packet C16.Pieces C16.CssIdent C16.JsxEntities C16.CssLex C16.Globstar C16.JsLex C16.JsIdent C16.JsPragma C16.ClosingTag C16.Harness.")
	st := NewStats("c16", seed)
	corpus, err := ExtractCorpus(repoDir())
	if err != nil {
		// fail closed: without the repository's inputs the search has no seeds
		st.Fail("corpus-extraction", err.Error(), nil, "test inputs of the repository")
		st.Finish("n/a")
		return []*Stats{st}
	}
	runDecoders(r, n, st, cf, corpus)
	runDecoders2(r, n, st, cf)
	runPacketProbe(r, n/2, st, cf)
	runJSXEntities(r, n, st, cf)
	runCSSLex(r, 2*n, st, cf)
	runGlobstar(r, n, st, cf)
	runJSLex(r, 2*n, st, cf)
	runJSRoi(r, n, st, cf)
	runPragma(r, n, st, cf)
	runClosingTag(seed, n, st, cf) // own PRNG stream: the families above and the search below are unchanged
	st.Finish("distinct input bytes AND (non-ASCII / multi-unit / error path / boundary) per decoder family")
	if err := os.WriteFile(filepath.Join(outDir, "c16_cases.v"), []byte(cf.String()), 0o644); err != nil {
		panic(err)
	}
	ss := runSearch(r, n, tier, corpus)
	if tier == "thorough" {
		runDepthProbe(ss)
	}
	return []*Stats{st, ss}
}

// ------------------------------------------------------------------------
// supporting search

var loaders = []string{"js", "jsx", "ts", "tsx", "css", "local-css", "json"}

func randOpts(r *Rng, loader string) Opts {
	o := Opts{Loader: loader}
	if r.Chance(50) {
		o.MinifyWS, o.MinifyIDs, o.MinifySyn = r.Bool(), r.Bool(), r.Bool()
		if r.Chance(40) {
			o.MinifyWS, o.MinifyIDs, o.MinifySyn = true, true, true
		}
	}
	if r.Chance(55) {
		o.Target = r.Pick([]string{"es5", "es2015", "es2016", "es2017", "es2018", "es2019", "es2020", "es2021", "es2022", "esnext", "es5", "esnext"})
	} else if r.Chance(30) {
		o.Engine = r.Pick([]string{"chrome50", "safari11", "firefox60", "node8", "ie11"})
	}
	if r.Chance(45) {
		o.Format = r.Pick([]string{"iife", "cjs", "esm"})
	}
	if r.Chance(45) {
		o.SourceMap = r.Pick([]string{"inline", "external", "both", "inline"})
	}
	if r.Chance(20) {
		o.Platform = r.Pick([]string{"node", "neutral", "browser"})
	}
	if (loader == "jsx" || loader == "tsx") && r.Chance(50) {
		o.JSX = r.Pick([]string{"preserve", "automatic", "transform"})
	}
	if r.Chance(10) {
		o.KeepNames = true
	}
	if r.Chance(8) {
		o.MangleProps = r.Pick([]string{"_$", "^x", ".", "(", "[a-"})
	}
	if r.Chance(15) {
		o.Charset = r.Pick([]string{"ascii", "utf8"})
	}
	if r.Chance(10) {
		o.TreeShaking = true
	}
	if r.Chance(15) {
		o.LegalCmts = r.Pick([]string{"none", "inline", "eof", "external", "linked"})
	}
	if r.Chance(10) {
		o.Define = true
	}
	if r.Chance(8) {
		o.Drop = true
	}
	if r.Chance(8) {
		o.LineLimit = []int{1, 20, 80}[r.Intn(3)]
	}
	if o.Format == "iife" && r.Chance(25) {
		o.GlobalName = r.Pick([]string{"a.b.c", "a['b']", "a[", "\xC3", "a.", "1", "a.b['\\u{41}']"})
	}
	o.Sourcefile = r.Pick([]string{"", "in.js", "dir/in.ts", "é.js"})
	return o
}

type searchCase struct {
	c    *Case
	kind string
}

func genSearchCases(r *Rng, count int, corpus map[string][]Seed) []*Case {
	var cases []*Case
	id := 0
	mk := func(c *Case) {
		c.ID = id
		id++
		cases = append(cases, c)
	}
	// fixed regression inputs first (known findings must stay fixed)
	for _, sm := range []string{"inline", "external"} {
		for _, ld := range []string{"js", "css", "ts", "json"} {
			in := map[string]string{"js": "let x = 1 //\xC3", "css": "a{color:red}/*\xE2\x82", "ts": "let x: number = 1 //\xF0\x9F", "json": "[1]//\xC3"}[ld]
			mk(&Case{Kind: "transform", Input: []byte(in), Opts: Opts{Loader: ld, SourceMap: sm, Sourcefile: "a." + ld}, Desc: "regression:C16-truncated-utf8-hang"})
		}
	}
	mk(&Case{Kind: "transform", Input: []byte("let x = 1 //\xC3"), Opts: Opts{Loader: "js", SourceMap: "inline", Charset: "ascii", Sourcefile: "a.js"}, Desc: "regression:C16-truncated-utf8-hang(ascii)"})
	// finding C16-regexp-invalid-utf8 (fixed dbc750e, dfdee39): a lone surrogate reaching a compiled pattern
	for _, imp := range []string{"import('./dir/' + n + '\\uD800.js')", "require(`./dir/${n}\\uDC00`)"} {
		mk(&Case{Kind: "build", Files: map[string][]byte{"src/entry.js": []byte("let n = 'a'; " + imp), "src/dir/a.js": []byte("export let x = 1")}, Entry: []string{"src/entry.js"}, Opts: Opts{Format: "esm"}, Desc: "regression:C16-regexp-invalid-utf8(A glob import)"})
	}
	mk(&Case{Kind: "build", Files: map[string][]byte{"src/entry.js": []byte("import {x} from 'pkg'; console.log(x)"), "node_modules/pkg/package.json": []byte(`{"sideEffects": ["\ud800.js", "a\udc00*.js", "*.css"]}`), "node_modules/pkg/index.js": []byte("export let x = 1")},
		Entry: []string{"src/entry.js"}, Desc: "regression:C16-regexp-invalid-utf8(B imported package)"})
	mk(&Case{Kind: "build", Files: map[string][]byte{"src/entry.js": []byte("console.log(1)"), "package.json": []byte(`{"sideEffects": ["a\udc00*.js"]}`)},
		Entry: []string{"src/entry.js"}, Desc: "regression:C16-regexp-invalid-utf8(B root package.json: process death before the fix)"})
	// an identifier that extends to the very end of the file inside a diagnostic (css_lexer.RangeOfIdentifier)
	for _, in := range []string{".foo { composes: bar from x", ".foo { composes: bar from glob", ".a{composes:b from \\41"} {
		mk(&Case{Kind: "transform", Input: []byte(in), Opts: Opts{Loader: "local-css"}, Desc: "regression:C16-css-identifier-range-hang"})
	}
	// boundary grid: every hostile tail at the very end of the input (lookahead guards at EOF),
	// deterministically for each loader family
	grid := func(tails []string, lds []string) {
		for _, t := range tails {
			for _, ld := range lds {
				seeds := corpus[ld]
				if len(seeds) == 0 {
					seeds = corpus["css"]
				}
				s := seeds[r.Intn(len(seeds))]
				in := s.Text
				if len(in) > 300 || r.Chance(35) {
					in = ""
				}
				o := Opts{Loader: ld}
				if r.Chance(30) {
					o = randOpts(r, ld)
				}
				mk(&Case{Kind: "transform", Input: []byte(in + t), Opts: o, Desc: s.From + fmt.Sprintf(" grid-tail(%q)", t)})
			}
		}
	}
	grid(jsTails, []string{"js", "tsx"})
	grid(cssTails, []string{"css", "local-css"})
	grid(jsonTails, []string{"json"})
	atomGrid(r, corpus, mk)
	configFieldCases(r, 150+count/3, corpus, mk)
	inputSourceMapCases(r, count/4, mk)
	for i := 0; i < count; i++ {
		mode := r.Intn(100)
		switch {
		case mode < 62: // transform of a mutated test input under its own loader (sometimes another)
			ld := loaders[r.Intn(len(loaders))]
			seeds := corpus[ld]
			if ld == "local-css" && (len(seeds) == 0 || r.Bool()) {
				seeds = corpus["css"]
			}
			s := seeds[r.Intn(len(seeds))]
			in, desc := MutateFor(r, []byte(s.Text), seeds, ld)
			if r.Chance(12) {
				ld = loaders[r.Intn(len(loaders))]
			}
			o := randOpts(r, ld)
			if r.Chance(12) { // malformed tsconfig through TsconfigRaw
				ts := corpus["tsconfig"]
				m, _ := MutateFor(r, []byte(ts[r.Intn(len(ts))].Text), ts, "tsconfig")
				o.TsconfigRaw = string(m)
				desc += "+tsconfigRaw"
			}
			mk(&Case{Kind: "transform", Input: in, Opts: o, Desc: s.From + " " + desc})
		case mode < 78: // malformed source map reached through sourceMappingURL
			ld := r.Pick([]string{"js", "ts", "css", "jsx"})
			seeds := corpus[ld]
			s := seeds[r.Intn(len(seeds))]
			in := []byte(s.Text)
			if r.Chance(20) {
				in, _ = MutateFor(r, in, seeds, ld)
			}
			if r.Chance(40) { // several lines of generated code so that lookups fall before, inside and after the mappings
				in = append([]byte("let a0 = 1;\nlet b0 = a0 + 2;\n"), in...)
			}
			m := randSourceMapJSON(r, corpus["srcmap"])
			in = append(in, sourceMappingComment(r, m, ld == "css")...)
			o := randOpts(r, ld)
			o.SourceMap = r.Pick([]string{"inline", "external", "both"})
			mk(&Case{Kind: "transform", Input: clipBytes(in), Opts: o, Desc: s.From + " +sourceMappingURL(" + clip(string(m), 300) + ")"})
		default: // bundle with malformed package.json / tsconfig.json and a mutated module
			files := map[string][]byte{}
			ld := r.Pick([]string{"js", "ts", "jsx", "tsx", "css", "json"})
			seeds := corpus[ld]
			s := seeds[r.Intn(len(seeds))]
			mod, desc := MutateFor(r, []byte(s.Text), seeds, ld)
			ext := map[string]string{"js": ".js", "ts": ".ts", "jsx": ".jsx", "tsx": ".tsx", "css": ".css", "json": ".json"}[ld]
			files["src/m"+ext] = mod
			pk := corpus["pkgjson"]
			pj, d2 := MutateFor(r, []byte(pk[r.Intn(len(pk))].Text), pk, "pkgjson")
			tc := corpus["tsconfig"]
			tj, d3 := MutateFor(r, []byte(tc[r.Intn(len(tc))].Text), tc, "tsconfig")
			if r.Chance(70) {
				files["node_modules/pkg/package.json"] = pj
				files["node_modules/pkg/index.js"] = []byte("module.exports = 1")
				files["node_modules/pkg/lib/main.js"] = []byte("export default 2")
			}
			if r.Chance(40) {
				files["package.json"] = pj
			}
			if r.Chance(70) {
				files["tsconfig.json"] = tj
			}
			if r.Chance(15) {
				files["src/tsconfig.json"] = []byte(`{"extends":"../tsconfig.json"}`)
			}
			entry := "src/entry.ts"
			imp := "./m" + ext
			if ld == "css" {
				files[entry] = []byte("import " + fmt.Sprintf("%q", imp) + "; import p from 'pkg'; import q from 'pkg/sub'; console.log(p, q)")
			} else {
				files[entry] = []byte("import * as m from " + fmt.Sprintf("%q", imp) + "; import p from 'pkg'; import q from 'pkg/sub'; import '#internal'; console.log(m, p, q)")
			}
			entries := []string{entry}
			if r.Chance(30) {
				entries = append(entries, "src/m"+ext)
			}
			o := randOpts(r, "")
			o.Loader = ""
			if r.Chance(30) {
				o.Metafile = true
			}
			if o.Format == "esm" && r.Chance(40) {
				o.Splitting = true
			}
			mk(&Case{Kind: "build", Files: files, Entry: entries, Opts: o, Desc: s.From + " " + desc + " | package.json: " + d2 + " | tsconfig.json: " + d3})
		}
	}
	return cases
}

func caseSize(c *Case) int {
	n := len(c.Input)
	for _, f := range c.Files {
		n += len(f)
	}
	return n
}

func describeCase(c *Case) map[string]interface{} {
	m := map[string]interface{}{"kind": c.Kind, "opts": c.Opts, "derived_from": c.Desc}
	if ext := extQuoted(&c.Opts); len(ext) > 0 {
		m["opts_compiled_values_go_quoted"] = ext
	}
	if c.Kind == "build" {
		fs := map[string]string{}
		for k, v := range c.Files {
			fs[k] = fmt.Sprintf("%q", clip(string(v), 6000))
		}
		m["files_go_quoted"] = fs
		m["entry"] = c.Entry
	} else {
		m["input_go_quoted"] = fmt.Sprintf("%q", clip(string(c.Input), 12000))
		m["input_len"] = len(c.Input)
	}
	return m
}

func runSearch(r *Rng, n int, tier string, corpus map[string][]Seed) *Stats {
	st := NewStats("c16-search", r.U64())
	count := 3 * n // the search is cheap (about 70 cases/s on 8 workers): three cases per unit of n
	cases := genSearchCases(r, count, corpus)
	limit := 8 * time.Second // of the child's CPU time
	t0 := time.Now()
	outs := RunPool(cases, poolSize(), limit)
	elapsed := time.Since(t0)
	slowest := int64(0)
	nerr := 0
	for i, o := range outs {
		c := cases[i]
		kind := c.Kind + "/" + c.Opts.Loader
		if c.Kind == "build" {
			kind = "build"
		}
		st.Note(kind, fmt.Sprintf("%d:%x", len(c.Input), hashBytes(c)), o.NErrors > 0 || o.OutLen > 0)
		if o.NErrors > 0 {
			nerr++
		}
		if o.Millis > slowest {
			slowest = o.Millis
			st.Extra["slowest_case"] = map[string]interface{}{"ms": o.Millis, "bytes": caseSize(c), "kind": c.Kind, "opts": c.Opts, "derived_from": c.Desc}
		}
		switch {
		case o.Status == "skipped":
			st.Histogram["skipped-after-failures"]++
		case o.Status == "timeout":
			st.Fail("hang: the build consumed more CPU time than the limit without a result (confirmed by a re-run alone)", describeCase(c), fmt.Sprintf("no result after %d ms of CPU (%d ms wall) for %d input bytes", o.CPUMillis, o.Millis, caseSize(c)), "terminates within seconds")
		case o.Status == "blocked":
			st.Fail("deadlock: no result and no CPU progress (confirmed by a re-run alone)", describeCase(c), fmt.Sprintf("no result after %d ms wall with only %d ms of CPU for %d input bytes", o.Millis, o.CPUMillis, caseSize(c)), "terminates within seconds")
		case o.Status == "starved":
			st.Histogram["inconclusive-starved-by-machine-load"]++
		case o.Status == "died":
			st.Fail("crash: the process died while building this input", describeCase(c), clip(o.Stderr, 2500), "ordinary diagnostics or output")
		case o.Status == "panic":
			st.Fail("panic escaped the public API", describeCase(c), o.Panic, "ordinary diagnostics or output")
		case len(o.Flagged) > 0:
			st.Fail("internal error / recovered panic reported as a diagnostic", describeCase(c), o.Flagged, "ordinary diagnostics or output")
		}
		if i < 3 {
			st.Sample(map[string]interface{}{"case": describeCase(c), "status": o.Status, "errors": o.NErrors, "out_len": o.OutLen})
		}
	}
	// the process must remain usable after the batch
	fin := RunPool([]*Case{{Kind: "final"}}, 1, 30*time.Second)
	if fin[0].Status != "ok" || len(fin[0].Flagged) > 0 {
		st.Fail("process unusable for subsequent builds", "final plain build after the batch", fin[0], "succeeds")
	}
	st.Note("final-usability", "final", true)
	st.Extra["search_wall_s"] = elapsed.Seconds()
	st.Extra["slowest_case_ms"] = slowest
	st.Extra["cases_with_ordinary_errors"] = nerr
	st.Extra["workers"] = poolSize()
	sizes := map[string]int{}
	for k, v := range corpus {
		sizes[k] = len(v)
	}
	st.Extra["seed_corpus_sizes"] = sizes
	st.Extra["label"] = "SUPPORTING SEARCH (not proof): seeded mutation of the repository's test inputs through api.Transform/api.Build in killable child processes"
	st.Finish("search: a case counts as distinct-nontrivial when its (input, options) hash is new and esbuild produced output or at least one ordinary diagnostic")
	return st
}

func hashBytes(c *Case) uint64 {
	h := uint64(1469598103934665603)
	mix := func(b []byte) {
		for _, x := range b {
			h ^= uint64(x)
			h *= 1099511628211
		}
	}
	mix(c.Input)
	mix([]byte(fmt.Sprintf("%+v", c.Opts)))
	keys := make([]string, 0, len(c.Files))
	for k := range c.Files {
		keys = append(keys, k)
	}
	sort.Strings(keys)
	for _, k := range keys {
		mix([]byte(k))
		mix(c.Files[k])
	}
	return h
}

// runDepthProbe (thorough tier): esbuild has no recursion-depth limit; nesting far BEYOND the
// property's bound (about 1,000,000 levels, a 2 MB file) exhausts the Go stack, which is fatal and
// not recoverable by parseFile's recover. Recorded as known finding C16-unbounded-recursion-depth;
// the probe keeps it reproducible (and notices when a depth limit is introduced).
func runDepthProbe(st *Stats) {
	depth := 1500000
	in := []byte(strings.Repeat("[", depth) + strings.Repeat("]", depth))
	outs := RunPool([]*Case{{Kind: "transform", Input: in, Opts: Opts{Loader: "json"}, Desc: "depth-probe"}}, 1, 120*time.Second)
	o := outs[0]
	st.Note("depth-probe", "json-array-1500000", true)
	switch {
	case o.Status == "died" && strings.Contains(o.Stderr, "stack exceeds"):
		st.Fail("process death by stack exhaustion on nesting beyond the property's bound (no recursion-depth limit)",
			map[string]interface{}{"loader": "json", "input": "'[' x 1500000 + ']' x 1500000 (3 MB)", "depth": depth}, clip(o.Stderr, 300), "a diagnostic (nesting too deep)")
	case o.Status == "ok":
		st.Extra["depth_probe"] = fmt.Sprintf("survived depth %d: errors=%d out=%d", depth, o.NErrors, o.OutLen)
	default:
		st.Extra["depth_probe"] = "inconclusive: " + o.Status + " " + clip(o.Stderr, 200)
	}
}

// extQuoted: the compiled option values of a case, Go-quoted (they may hold invalid UTF-8)
func extQuoted(o *Opts) map[string]string {
	out := map[string]string{}
	put := func(k string, v interface{}, empty bool) {
		if !empty {
			out[k] = fmt.Sprintf("%+q", v)
		}
	}
	put("define", o.DefineKV, len(o.DefineKV) == 0)
	put("pure", o.Pure, len(o.Pure) == 0)
	put("mangle_props", o.MangleProps, o.MangleProps == "")
	put("reserve_props", o.ReserveProps, o.ReserveProps == "")
	put("alias", o.Alias, len(o.Alias) == 0)
	put("external", o.External, len(o.External) == 0)
	put("loader", o.LoaderMap, len(o.LoaderMap) == 0)
	put("out_extension", o.OutExtension, len(o.OutExtension) == 0)
	put("banner", o.Banner, len(o.Banner) == 0)
	put("footer", o.Footer, len(o.Footer) == 0)
	put("entry_names", o.EntryNames, o.EntryNames == "")
	put("chunk_names", o.ChunkNames, o.ChunkNames == "")
	put("asset_names", o.AssetNames, o.AssetNames == "")
	put("jsx_factory", o.JSXFactory, o.JSXFactory == "")
	put("jsx_fragment", o.JSXFragment, o.JSXFragment == "")
	put("jsx_import_source", o.JSXImportSource, o.JSXImportSource == "")
	put("conditions", o.Conditions, len(o.Conditions) == 0)
	put("main_fields", o.MainFields, len(o.MainFields) == 0)
	put("resolve_extensions", o.ResolveExtensions, len(o.ResolveExtensions) == 0)
	put("drop_labels", o.DropLabels, len(o.DropLabels) == 0)
	put("inject", o.Inject, len(o.Inject) == 0)
	put("public_path", o.PublicPath, o.PublicPath == "")
	put("source_root", o.SourceRoot, o.SourceRoot == "")
	put("supported", o.Supported, len(o.Supported) == 0)
	put("log_override", o.LogOverride, len(o.LogOverride) == 0)
	put("mangle_cache", o.MangleCacheJSON, o.MangleCacheJSON == "")
	return out
}
