package main

// Seed corpus extracted from the repository's own tests (go/parser scan of the
// *_test.go files of the checked-out tree) and the mutation operators of the
// supporting search.

import (
	"encoding/base64"
	"fmt"
	"go/ast"
	"go/parser"
	"go/token"
	"os"
	"path/filepath"
	"sort"
	"strconv"
	"strings"

	. "github.com/evanw/esbuild/verifharness/hlib"
)

type Seed struct {
	Loader string // js jsx ts tsx css local-css json | pkgjson tsconfig srcmap
	Text   string
	From   string
}

func litString(e ast.Expr) (string, bool) {
	switch v := e.(type) {
	case *ast.BasicLit:
		if v.Kind == token.STRING {
			s, err := strconv.Unquote(v.Value)
			return s, err == nil
		}
	case *ast.BinaryExpr:
		if v.Op == token.ADD {
			a, ok1 := litString(v.X)
			b, ok2 := litString(v.Y)
			return a + b, ok1 && ok2
		}
	case *ast.ParenExpr:
		return litString(v.X)
	}
	return "", false
}

func loaderForHelper(file, fn string) string {
	base := filepath.Base(file)
	switch {
	case strings.HasPrefix(base, "css_"):
		if strings.Contains(fn, "Local") {
			return "local-css"
		}
		return "css"
	case strings.HasPrefix(base, "json_"):
		return "json"
	case strings.Contains(fn, "TSX"):
		return "tsx"
	case strings.Contains(fn, "TS"):
		return "ts"
	case strings.Contains(fn, "JSX"):
		return "jsx"
	}
	return "js"
}

func loaderForPath(p string) string {
	b := filepath.Base(p)
	switch {
	case b == "package.json":
		return "pkgjson"
	case strings.HasPrefix(b, "tsconfig") && strings.HasSuffix(b, ".json"), b == "jsconfig.json":
		return "tsconfig"
	case strings.HasSuffix(b, ".map"):
		return "srcmap"
	}
	switch filepath.Ext(b) {
	case ".js", ".mjs", ".cjs":
		return "js"
	case ".jsx":
		return "jsx"
	case ".ts", ".mts", ".cts":
		return "ts"
	case ".tsx":
		return "tsx"
	case ".css":
		return "css"
	case ".json":
		return "json"
	}
	return ""
}

// ExtractCorpus scans the test files of the checked-out repository.
func ExtractCorpus(repo string) (map[string][]Seed, error) {
	out := map[string][]Seed{}
	seen := map[string]bool{}
	add := func(loader, text, from string) {
		if loader == "" || len(text) == 0 || len(text) > 20000 {
			return
		}
		k := loader + "\x00" + text
		if seen[k] {
			return
		}
		seen[k] = true
		out[loader] = append(out[loader], Seed{loader, text, from})
	}
	var files []string
	for _, pat := range []string{"internal/js_parser/*_test.go", "internal/css_parser/*_test.go", "internal/bundler_tests/*_test.go", "internal/js_lexer/*_test.go", "internal/css_lexer/*_test.go", "internal/resolver/*_test.go"} {
		m, _ := filepath.Glob(filepath.Join(repo, pat))
		sort.Strings(m)
		files = append(files, m...)
	}
	if len(files) < 8 {
		return nil, fmt.Errorf("test files of the repository not found under %s", repo)
	}
	fset := token.NewFileSet()
	for _, f := range files {
		af, err := parser.ParseFile(fset, f, nil, 0)
		if err != nil {
			return nil, err
		}
		rel, _ := filepath.Rel(repo, f)
		ast.Inspect(af, func(n ast.Node) bool {
			switch v := n.(type) {
			case *ast.CallExpr:
				name := ""
				if id, ok := v.Fun.(*ast.Ident); ok {
					name = id.Name
				}
				if (strings.HasPrefix(name, "expectPrinted") || strings.HasPrefix(name, "expectParseError") || strings.HasPrefix(name, "expectLexerError") || strings.HasPrefix(name, "expectString") || strings.HasPrefix(name, "expectNumber")) && len(v.Args) >= 2 {
					for _, a := range v.Args[1:] {
						if s, ok := litString(a); ok {
							add(loaderForHelper(f, name), s, rel+":"+name)
							break // the first string argument is the input
						}
					}
				}
			case *ast.KeyValueExpr:
				k, ok1 := litString(v.Key)
				s, ok2 := litString(v.Value)
				if ok1 && ok2 && strings.HasPrefix(k, "/") {
					add(loaderForPath(k), s, rel+":"+filepath.Base(k))
					if strings.Contains(s, "\"mappings\"") {
						add("srcmap", s, rel+":"+filepath.Base(k))
					}
				}
			}
			return true
		})
	}
	for _, need := range []string{"js", "ts", "jsx", "css", "json", "pkgjson", "tsconfig"} {
		if len(out[need]) < 5 {
			return nil, fmt.Errorf("corpus for %s too small (%d): test helpers renamed?", need, len(out[need]))
		}
	}
	return out, nil
}

// ---- mutation operators ----

var nasty = [][]byte{
	{0}, {0xFF}, {0xFE}, {0xC3}, {0xE2, 0x80}, {0xF0, 0x9F, 0x98}, {0xED, 0xA0, 0x80}, {0xED, 0xB0, 0x80}, {0xC0, 0x80}, {0xF8, 0x88, 0x80, 0x80, 0x80},
	{0xEF, 0xBB, 0xBF}, {0xE2, 0x80, 0xA8}, {0xE2, 0x80, 0xA9}, {'\\'}, {'\\', 'u'}, {'\\', 'u', '{'}, {'\\', 'x'}, {'\\', '0'}, {'\r'}, {'\n'}, {'`'}, {'$', '{'}, {'"'}, {'\''},
	{'/', '*'}, {'*', '/'}, {'/', '/'}, {'<', '!', '-', '-'}, {'-', '-', '>'}, {'#', '!'}, {'#'}, {'@'}, {'<'}, {'>'}, {'?', '.'}, {'=', '>'}, {'.', '.', '.'},
}

var hugeTokens = []string{
	"1e99999", "1e-99999", "0x" + strings.Repeat("f", 400), "0b" + strings.Repeat("1", 700), "0o" + strings.Repeat("7", 300), strings.Repeat("9", 500), "." + strings.Repeat("0", 400) + "1",
	strings.Repeat("9", 400) + "n", "1" + strings.Repeat("_0", 200), "\\u{" + strings.Repeat("0", 300) + "41}", "\\u{10FFFFFFFFFF}", "\\u{110000}", "\"\\u{D800}\\u{DC00}\"", "\\uD83D", "\\x", "\\u12",
	"'" + strings.Repeat("\\\n", 200) + "'", "/" + strings.Repeat("[", 100) + "/", "/(?<" + strings.Repeat("a", 200) + ">.)/u", "`${`${`${1}`}`}`", "#" + strings.Repeat("f", 9), "1e3px", "-0.000e-0%", "U+0-10FFFFFF", "url(" + strings.Repeat("\\", 99) + ")",
	"4294967296", "2147483648", "-2147483649", "9007199254740993", "0.1e-400", "1e400",
}

var openers = []string{"(", "[", "{", "<", "${", "`${", "(function(){", "(()=>", "[...", "{a:", "a?.(", "a?b:", "!", "-", "typeof ", "await ", "yield ", "new ", "a=>", "async()=>", "class{static{", "if(1)", "for(;;)", "x:", "<a>", "<a b={", "<>", "a<", "A<B<", "(a:", "[a,", "{a,", "a as ", "a!", "@a ", ":is(", ":not(", "calc(", "var(--a,", "@media (", "a{&", "@supports (", "@layer a{", "url(", "[a=", "{\"a\":", "[[", "/*", "\"", "'"}
var closers = map[string]string{"(": ")", "[": "]", "{": "}", "<": ">", "${": "}", "`${": "}`", "(function(){": "})", "(()=>": ")", "[...": "]", "{a:": "}", "a?.(": ")", "a?b:": "c", "(a:": ")", "[a,": "]", "{a,": "}", "<a>": "</a>", "<a b={": "}/>", "<>": "</>", "class{static{": "}}", ":is(": ")", ":not(": ")", "calc(": ")", "var(--a,": ")", "@media (": ")", "a{&": "}", "@supports (": ")", "@layer a{": "}", "url(": ")", "[a=": "]", "{\"a\":": "}", "[[": "]]", "/*": "*/", "\"": "\"", "'": "'"}

var eofTails = []string{".", "..", " ..", "1.", "1e", "1e+", "1e-", "1E+", " 1e+", ":1e-", "\\", "/", "/*", "/* *", "<", "<!-", "<!--", "'", "\"", "`", "${", "`${", "0x", "0b", "0o", "1_", ".e", "#", "#!", "@", "url(", "url( ", "\\u", "\\u{", "\\u{1", "\\x", "\\x4", "a.", "a?.", "a?", "a=", "a=>", "a<", "a<b>", "class", "class A extends", "import(", "import ", "import.", "export", "export {", "export *", "async", "for(", "-", "--", "->", "+", "u+", "U+1", "U+1-", "!", "!i", "&", "&&=", "??", "@media", "calc(", "var(", ":is(", "::", "[a", "[a=", "[a='", "{\"a\":", "[1,", "1e309", "</", "<a", "<a b", "<a b=", "<a>", "{", "(", "[", "a:", "a ? b :", "=>", "\r", "\n//", "//#", "//# sourceMappingURL=", "/*# sourceMappingURL=", "@import", "@import '", "!important", "--x:", "x:;", "0/", "/=", "/[", "/[/", "/a/", "/a/g", "#a", "#a in", "a.#", "new.", "new.t", "super.", "0.", "0..", "1n", "0n.", ".5.", "09", "08.", "1__", "\\0", "'\\", "\"\\", "`\\"}

var jsTails = []string{".", "..", " ..", "a..", "1.", "1e", "1e+", "1e-", "1E+", "0x", "0b", "0o", "0X", "1_", "1__", ".e", ".5.", "09", "08.", "0.", "0..", "1n", "0n.", "1e309", "\\", "\\u", "\\u{", "\\u{1", "\\u{110000}", "\\x", "a\\", "a\\u", "a\\u{", "a\\u00", "/", "/*", "/* *", "/**/ /", "//", "//#", "//# sourceMappingURL=", "//# sourceURL=", "//! legal", "/[", "/[/", "/a/", "/a/g", "/=", "a/", "<", "<!-", "<!--", "-->", "'", "\"", "`", "${", "`${", "`${a", "'\\", "\"\\", "`\\", "'\\u", "'\\x4", "#", "#!", "#a", "#a in", "a.#", "@", "@a", "a.", "a?.", "a?", "a ? b :", "a=", "a=>", "=>", "a<", "a<b>", "a<b>(", "<a", "<a b", "<a b=", "<a>", "</", "<a></", "<>", "<a b={", "<a {...", "class", "class A extends", "class A {", "class A { static", "class A { #", "class A { get", "import(", "import ", "import.", "import a from", "import {", "import * as", "export", "export {", "export *", "export default", "async", "async (", "for(", "for await", "-", "--", "+", "++", "!", "~", "&", "&&=", "??", "?.", "**", ">>>=", "...", "{", "(", "[", "a:", "new.", "new.t", "super.", "yield", "await", "let", "let [", "using", "a as", "a satisfies", "enum", "enum A {", "declare", "abstract class", "type A =", "type A<", "interface A", "namespace", "function", "function*", "function f(", "function f<", "x = function", "@dec class", "if(", "else", "do", "while(", "switch(a){case", "try{", "try{}catch", "throw", "return", "break a", "a\r", "a\u2028", "\uFEFF"}
var cssTails = []string{".", "..", "1.", "1e", "1e+", "1e-", "1E+", " 1e+", "a{b:1e-", "a{b:1e", "a{b:+", "a{b:-", "a{b:+.", "a{b:-.", "a{b:.", "a{b:#", "a{b:#12345", "a{b:1%", "a{b:1e3px", "\\", "a\\", "a\\41", "a\\ ", "\\\n", "/", "/*", "/* *", "<", "<!-", "<!--", "-", "--", "-->", "-\\", "'", "\"", "'\\", "\"\\", "'\\\n", "#", "#a", "#\\", "@", "@a", "@\\", "@media", "@media (", "@import", "@import '", "@import url(", "@charset \"", "@font-face{", "@keyframes a{", "@keyframes a{0%", "@supports (", "@layer", "@container a (", "@property --a{", "url(", "url( ", "url('", "url(a", "url(a ", "url(\\", "url(a\\", "u+", "U+1", "U+1-", "U+?", "u+1?-", "!", "!i", "!important", "a{b:c!", "&", "&&", "a{&", "a{&:hover", ":", "::", ":is(", ":not(", ":global", ":local(", ":global(.a", ":nth-child(", ":nth-child(2n+", ":nth-child(2n -", "[a", "[a=", "[a='", "[a=b i", "[a|", "a|", "*|", "a>", "a+", "a~", "a,", "a{", "a{b", "a{b:", "a{b:c", "a{b:c;", "a{--x:", "a{--x:{", "a{b:calc(", "a{b:calc(1+", "a{b:var(", "a{b:var(--a,", "a{b:rgb(", "a{b:rgb(1 2 3 /", "a{color:#ff", "a{b:1/", "a{composes:", "a{composes:b from", "a{composes:b from x", "a{composes:b from '", "a{composes:b from global", "a{animation:x", "a{b:c}}", "}", "{", "(", "[", "a{b:(", "a{b:[", "a{b:{", "0", "00", "-0", "+0", ".0", "a{b:0.", "a{b:-0.0e-0", "a{margin:0 0 0", "a{b:1 1 1 1 1", "\r", "\f", "\x00", "\uFEFF"}
var jsonTails = []string{"", "{", "[", "{\"a\"", "{\"a\":", "{\"a\":1,", "[1,", "\"", "\"\\", "\"\\u", "\"\\u12", "-", "1.", "1e", "1e+", "0x", "01", "t", "tru", "nul", "/", "/*", "//", "1 /", "[1]/", "\uFEFF", "\x00", "NaN", "-Infinity", "{\"__proto__\":", "[[[[[[[[", "{\"a\":{\"a\":{\"a\":"}

const maxInput = 40000 // the property's bound: inputs of tens of kilobytes

func clipBytes(b []byte) []byte {
	if len(b) > maxInput {
		return b[:maxInput]
	}
	return b
}

// Mutate applies 1..4 operators; returns the bytes and a description.
func Mutate(r *Rng, in []byte, others []Seed) ([]byte, string) {
	b := append([]byte{}, in...)
	var desc []string
	k := 1 + r.Intn(3)
	if r.Chance(10) {
		k = 0 // the unmodified test input
	}
	for ; k > 0; k-- {
		pos := 0
		if len(b) > 0 {
			pos = r.Intn(len(b) + 1)
		}
		op := r.Intn(16)
		switch op {
		case 0: // bit flip
			if len(b) > 0 {
				i := r.Intn(len(b))
				b[i] ^= 1 << uint(r.Intn(8))
				desc = append(desc, fmt.Sprintf("bitflip@%d", i))
			}
		case 1, 14: // truncate; half of the time right after a punctuation/operator byte (lookahead at EOF)
			if r.Bool() && len(b) > 0 {
				start := r.Intn(len(b))
				for k := 0; k < len(b); k++ {
					i := (start + k) % len(b)
					if strings.IndexByte(".+-eE\\/*<>='\"`${([#@!?&|:_0xXbBuU%,~^", b[i]) >= 0 {
						pos = i + 1
						break
					}
				}
			}
			b = b[:pos]
			desc = append(desc, fmt.Sprintf("truncate@%d", pos))
		case 15: // a hostile tail: lookahead guards at the end of the input
			t := eofTails[r.Intn(len(eofTails))]
			b = append(b, t...)
			desc = append(desc, fmt.Sprintf("tail(%q)", t))
		case 2: // insert a nasty byte sequence
			ins := nasty[r.Intn(len(nasty))]
			b = append(b[:pos:pos], append(append([]byte{}, ins...), b[pos:]...)...)
			desc = append(desc, fmt.Sprintf("insert%x@%d", ins, pos))
		case 3: // overwrite with a nasty byte sequence
			ins := nasty[r.Intn(len(nasty))]
			for j := 0; j < len(ins) && pos+j < len(b); j++ {
				b[pos+j] = ins[j]
			}
			desc = append(desc, fmt.Sprintf("overwrite%x@%d", ins, pos))
		case 4: // splice with another test input
			if len(others) > 0 {
				o := []byte(others[r.Intn(len(others))].Text)
				cut := 0
				if len(o) > 0 {
					cut = r.Intn(len(o) + 1)
				}
				if r.Bool() {
					b = append(b[:pos:pos], o[cut:]...)
				} else {
					b = append(append([]byte{}, o[:cut]...), b[pos:]...)
				}
				desc = append(desc, "splice")
			}
		case 5: // nesting amplification: an opener repeated, optionally closed
			op := openers[r.Intn(len(openers))]
			depth := []int{8, 40, 150, 600, 2000}[r.Intn(5)]
			if depth*len(op) > 12000 {
				depth = 12000 / len(op)
			}
			ins := strings.Repeat(op, depth)
			tail := ""
			if cl, ok := closers[op]; ok && r.Chance(60) {
				tail = strings.Repeat(cl, depth-r.Intn(2))
			}
			mid := "x"
			if r.Chance(30) {
				mid = ""
			}
			b = append(b[:pos:pos], append([]byte(ins+mid+tail), b[pos:]...)...)
			desc = append(desc, fmt.Sprintf("nest(%q x%d)@%d", op, depth, pos))
		case 6: // huge numeric / escape form
			t := hugeTokens[r.Intn(len(hugeTokens))]
			b = append(b[:pos:pos], append([]byte(t), b[pos:]...)...)
			desc = append(desc, fmt.Sprintf("huge(%s)@%d", clip(t, 12), pos))
		case 7: // duplicate a region several times
			if len(b) > 1 {
				i := r.Intn(len(b))
				j := i + 1 + r.Intn(minInt(len(b)-i, 40))
				reps := []int{2, 5, 30, 200}[r.Intn(4)]
				if (j-i)*reps > 10000 {
					reps = 10000 / (j - i)
				}
				seg := []byte(strings.Repeat(string(b[i:j]), reps))
				b = append(b[:j:j], append(seg, b[j:]...)...)
				desc = append(desc, fmt.Sprintf("dup[%d:%d]x%d", i, j, reps))
			}
		case 8: // delete a region
			if len(b) > 1 {
				i := r.Intn(len(b))
				j := i + 1 + r.Intn(minInt(len(b)-i, 12))
				b = append(b[:i:i], b[j:]...)
				desc = append(desc, fmt.Sprintf("delete[%d:%d]", i, j))
			}
		case 9: // random byte
			if len(b) > 0 {
				i := r.Intn(len(b))
				b[i] = byte(r.Intn(256))
				desc = append(desc, fmt.Sprintf("randbyte@%d", i))
			}
		case 10: // swap two regions' delimiters: replace one bracket by another
			br := []byte("()[]{}<>,;:=.\"'`/*+-!?&|@#")
			for i := range b {
				if strings.IndexByte(string(br), b[i]) >= 0 && r.Chance(15) {
					b[i] = br[r.Intn(len(br))]
				}
			}
			desc = append(desc, "punct-shuffle")
		case 11: // end in a truncated UTF-8 sequence (regression input of finding C16-truncated-utf8-hang)
			t := [][]byte{{0xC3}, {0xE2, 0x82}, {0xF0, 0x9F}, {0xF0, 0x9F, 0x98}, {0xE2}}[r.Intn(5)]
			b = append(b, t...)
			desc = append(desc, fmt.Sprintf("append-truncated-utf8(%x)", t))
		case 12: // insert a keyword-ish token
			kw := []string{"await", "yield", "async", "let", "static", "get", "set", "of", "in", "enum", "declare", "abstract", "accessor", "using", "satisfies", "infer", "keyof", "unique", "asserts", "is", "import.meta", "new.target", "super", "export default", "import(", "require(", "@import", "@charset", "!important", ":global", ":local", "composes:", "from", "@nest", "&", "__proto__", "constructor", "#x in", "</", "/>", "{...", "<!--", "//# sourceMappingURL=", "/* @__PURE__ */", "//! legal", "\"use strict\";", "with(", "label:", "debugger"}
			t := " " + kw[r.Intn(len(kw))] + " "
			b = append(b[:pos:pos], append([]byte(t), b[pos:]...)...)
			desc = append(desc, "kw("+strings.TrimSpace(t)+")")
		case 13: // a run of one byte
			c := []byte{0, ' ', '\n', '\\', '(', '/', '*', '0', '.', 0xFF, 0x80, '-', '+', '{', '<', '"'}[r.Intn(16)]
			nrep := []int{3, 50, 1000, 9000}[r.Intn(4)]
			if (c == '{' || c == '(' || c == '<') && nrep > 2500 {
				// unbalanced openers: the pretty-printed output is quadratic in the depth (indentation);
				// 9000 levels are 160 MB of output - stay inside the property's bound
				nrep = 2500
			}
			b = append(b[:pos:pos], append([]byte(strings.Repeat(string([]byte{c}), nrep)), b[pos:]...)...)
			desc = append(desc, fmt.Sprintf("run(%#x x%d)@%d", c, nrep, pos))
		}
		b = clipBytes(b)
	}
	return b, strings.Join(desc, ",")
}

func minInt(a, b int) int {
	if a < b {
		return a
	}
	return b
}

// ---- malformed source maps reached through sourceMappingURL ----

const b64 = "ABCDEFGHIJKLMNOPQRSTUVWXYZabcdefghijklmnopqrstuvwxyz0123456789+/"

func randMappings(r *Rng) string {
	var sb strings.Builder
	n := r.Intn(40)
	for i := 0; i < n; i++ {
		switch r.Intn(12) {
		case 0:
			sb.WriteByte(';')
		case 1:
			sb.WriteByte(',')
		case 2:
			sb.WriteString(strings.Repeat(string(b64[32+r.Intn(32)]), r.Intn(12))) // long continuation runs
			sb.WriteByte(b64[r.Intn(32)])
		case 3:
			sb.WriteString([]string{"!", " ", "\\u0041", "é", "\\\\", "=", "\\uD800"}[r.Intn(7)])
		case 4:
			sb.WriteString("AAAA")
		case 5:
			sb.WriteString([]string{"AACA", "AAAAA", "CAAC", "DAAA", "AADA", "AAAD", "ADAA", "gggggggggB", "/////////B", "+/////D", "AAgggggggggB"}[r.Intn(11)])
		default:
			sb.WriteByte(b64[r.Intn(64)])
		}
	}
	return sb.String()
}

func unitsToJSON(u []uint16) string {
	var sb strings.Builder
	for _, c := range u {
		if c >= 0x20 && c < 0x7F && c != '"' && c != '\\' {
			sb.WriteByte(byte(c))
		} else {
			fmt.Fprintf(&sb, "\\u%04X", c)
		}
	}
	return sb.String()
}

// a well-formed version-3 map whose mappings are mostly valid (so that it is accepted and USED by
// the printer/linker: Find, line-offset composition), with boundary values
func validishSourceMapJSON(r *Rng) []byte {
	sl, nl := 1+r.Intn(3), r.Intn(3)
	var srcs, names, cont []string
	for i := 0; i < sl; i++ {
		srcs = append(srcs, fmt.Sprintf("\"orig%d.js\"", i))
		cont = append(cont, "\"let a = 1\\nlet b = 2\\n\"")
	}
	for i := 0; i < nl; i++ {
		names = append(names, fmt.Sprintf("\"n%d\"", i))
	}
	var u []uint16
	for k := 1 + r.Intn(3); k > 0; k-- {
		u = append(u, structuredMappings(r, sl, nl)...)
		u = append(u, ';')
	}
	doc := fmt.Sprintf(`{"version":3,"sources":[%s],"names":[%s],"mappings":"%s"`, strings.Join(srcs, ","), strings.Join(names, ","), unitsToJSON(u))
	if r.Bool() {
		doc += `,"sourcesContent":[` + strings.Join(cont[:1+r.Intn(len(cont))], ",") + `]`
	}
	return []byte(doc + "}")
}

// a strictly valid map (accepted, then used by the printer for every position lookup)
func validSourceMapJSON(r *Rng) []byte {
	sl, nl := 1+r.Intn(3), r.Intn(3)
	var srcs, names []string
	for i := 0; i < sl; i++ {
		srcs = append(srcs, fmt.Sprintf("\"orig%d.js\"", i))
	}
	for i := 0; i < nl; i++ {
		names = append(names, fmt.Sprintf("\"n%d\"", i))
	}
	var u []uint16
	src, name := 0, 0
	for line := r.Intn(4); line >= 0; line-- {
		for k := r.Intn(4); k > 0; k-- {
			u = append(u, vlqUnits(int64(r.Intn(6)))...)
			ns := r.Intn(sl)
			u = append(u, vlqUnits(int64(ns-src))...)
			src = ns
			u = append(u, vlqUnits(int64(r.Intn(3)))...)
			u = append(u, vlqUnits(int64(r.Intn(4)))...)
			if nl > 0 && r.Chance(40) {
				nn := r.Intn(nl)
				u = append(u, vlqUnits(int64(nn-name))...)
				name = nn
			}
			if k > 1 {
				u = append(u, ',')
			}
		}
		if line > 0 {
			u = append(u, ';')
		}
	}
	return []byte(fmt.Sprintf(`{"version":3,"sources":[%s],"names":[%s],"mappings":"%s"}`, strings.Join(srcs, ","), strings.Join(names, ","), unitsToJSON(u)))
}

func randSourceMapJSON(r *Rng, seeds []Seed) []byte {
	if r.Chance(30) {
		return validSourceMapJSON(r)
	}
	if r.Chance(40) {
		return validishSourceMapJSON(r)
	}
	if len(seeds) > 0 && r.Chance(25) {
		m, _ := Mutate(r, []byte(seeds[r.Intn(len(seeds))].Text), seeds)
		return m
	}
	nsrc := r.Intn(4)
	var srcs, cont, names []string
	for i := 0; i < nsrc; i++ {
		srcs = append(srcs, []string{`"a.js"`, `"../b.ts"`, `"%XY"`, `"http://[::1"`, `null`, `1`, `"file:///c.js"`, `""`}[r.Intn(8)])
		cont = append(cont, []string{`"let a"`, `null`, `5`, `"\ud800"`}[r.Intn(4)])
	}
	for i := r.Intn(3); i > 0; i-- {
		names = append(names, []string{`"x"`, `1`, `null`, `"\u0000"`}[r.Intn(4)])
	}
	one := func() string {
		fields := []string{}
		if r.Chance(90) {
			fields = append(fields, `"version":`+[]string{"3", "3", "3", "2", `"3"`, "3.0", "null"}[r.Intn(7)])
		}
		if r.Chance(90) {
			fields = append(fields, `"sources":[`+strings.Join(srcs, ",")+`]`)
		}
		if r.Chance(50) {
			fields = append(fields, `"sourcesContent":[`+strings.Join(cont, ",")+`]`)
		}
		if r.Chance(60) {
			fields = append(fields, `"names":[`+strings.Join(names, ",")+`]`)
		}
		if r.Chance(30) {
			fields = append(fields, `"sourceRoot":`+[]string{`"src"`, `"a/b/"`, `"%"`, `1`}[r.Intn(4)])
		}
		if r.Chance(95) {
			fields = append(fields, `"mappings":"`+randMappings(r)+`"`)
		}
		r2 := r.Intn(len(fields) + 1)
		fields = append(fields[r2:], fields[:r2]...)
		return "{" + strings.Join(fields, ",") + "}"
	}
	if r.Chance(25) {
		var secs []string
		for i := r.Intn(4); i > 0; i-- {
			off := fmt.Sprintf(`{"line":%s,"column":%s}`, []string{"0", "1", "-1", "1e99", "4294967296", "\"1\"", "2147483648"}[r.Intn(7)], []string{"0", "5", "-7", "1e10", "0.5"}[r.Intn(5)])
			if r.Chance(10) {
				off = "3"
			}
			m := one()
			if r.Chance(10) {
				m = "[]"
			}
			secs = append(secs, `{"offset":`+off+`,"map":`+m+`}`)
		}
		return []byte(`{"version":3,"sections":[` + strings.Join(secs, ",") + `]}`)
	}
	return []byte(one())
}

func sourceMappingComment(r *Rng, m []byte, css bool) []byte {
	url := "data:application/json;base64," + base64.StdEncoding.EncodeToString(m)
	switch r.Intn(6) {
	case 0:
		url = "data:application/json," + strings.NewReplacer("%", "%25", "\n", "%0A", " ", "%20", "#", "%23").Replace(string(m))
	case 1:
		enc := base64.StdEncoding.EncodeToString(m)
		url = "data:application/json;base64," + enc[:r.Intn(minInt(len(enc), 8)+1)] // truncated base64
	case 2:
		url = "data:application/json;charset=utf-8;base64," + base64.StdEncoding.EncodeToString(m) + "="
	}
	if css {
		return []byte("\n/*# sourceMappingURL=" + url + " */\n")
	}
	return []byte("\n//# sourceMappingURL=" + url + "\n")
}

func sourceMappingCommentWith(m []byte, css bool) []byte {
	url := "data:application/json;base64," + base64.StdEncoding.EncodeToString(m)
	if css {
		return []byte("\n/*# sourceMappingURL=" + url + " */\n")
	}
	return []byte("\n//# sourceMappingURL=" + url + "\n")
}

func readFileOr(p string) []byte { b, _ := os.ReadFile(p); return b }
