package main

// Correspondence streams: hostile bytes through the real decoders (under
// recover / in a killable child process) with the outcome recorded for the
// checked-access Coq models.

import (
	"fmt"
	"time"
	"unicode/utf8"

	"github.com/evanw/esbuild/internal/helpers"
	. "github.com/evanw/esbuild/verifharness/hlib"
)

// guard runs f under recover; status 0 = returned, 1 = Go panic.
func guard(f func()) (status int, msg string) {
	defer func() {
		if r := recover(); r != nil {
			status, msg = 1, fmt.Sprint(r)
		}
	}()
	f()
	return 0, ""
}

var utf8Pieces = [][]byte{
	{0x41}, {0x7F}, {0x00}, {0x22}, {0x27}, {0x5C}, {0x08}, {0x0C}, {0x0A}, {0x0D}, {0x09}, {0x1F}, {0x20}, {0x7E},
	{0xC2, 0x80}, {0xDF, 0xBF}, {0xC0, 0x80}, {0xC1, 0xBF}, {0xE0, 0xA0, 0x80}, {0xE0, 0x80, 0x80}, {0xEF, 0xBF, 0xBF}, {0xEF, 0xBB, 0xBF},
	{0xED, 0x9F, 0xBF}, {0xED, 0xA0, 0x80}, {0xED, 0xAF, 0xBF}, {0xED, 0xB0, 0x80}, {0xED, 0xBF, 0xBF}, {0xEE, 0x80, 0x80},
	{0xF0, 0x90, 0x80, 0x80}, {0xF0, 0x80, 0x80, 0x80}, {0xF4, 0x8F, 0xBF, 0xBF}, {0xF4, 0x90, 0x80, 0x80}, {0xF7, 0xBF, 0xBF, 0xBF}, {0xF0, 0x9F, 0x98, 0x80},
	{0xC3}, {0xE2}, {0xE2, 0x82}, {0xF0}, {0xF0, 0x9F}, {0xF0, 0x9F, 0x98}, {0x80}, {0xBF}, {0xF8}, {0xFF}, {0xFE}, {0xC3, 0x41}, {0xE2, 0x82, 0x41}, {0xF0, 0x9F, 0x41, 0x80},
	{0xE2, 0x80, 0xA8}, {0xE2, 0x80, 0xA9},
}

func randBytes(r *Rng, maxPieces int) []byte {
	var b []byte
	for k := r.Intn(maxPieces + 1); k > 0; k-- {
		if r.Chance(75) {
			b = append(b, utf8Pieces[r.Intn(len(utf8Pieces))]...)
		} else {
			b = append(b, byte(r.Intn(256)))
		}
	}
	return b
}

func runDecoders(r *Rng, n int, st *Stats, cf *CoqFile, corpus map[string][]Seed) {
	// --- DecodeWTF8Rune: every piece of the boundary grid, then random
	var items []string
	var ins [][]byte
	for _, p := range utf8Pieces {
		ins = append(ins, p)
	}
	ins = append(ins, []byte{})
	for i := 0; i < n; i++ {
		ins = append(ins, randBytes(r, 3))
	}
	for _, in := range ins {
		var c rune
		var w int
		status, msg := guard(func() { c, w = helpers.DecodeWTF8Rune(string(in)) })
		items = append(items, fmt.Sprintf("(%s,%d,%s,%d)", CBytes(in), status, CZ(int64(c)), w))
		st.Note("wtf8", string(in), len(in) > 0 && in[0] >= 0x80)
		if status != 0 {
			st.Fail("panic in helpers.DecodeWTF8Rune", fmt.Sprintf("%q", in), msg, "a rune and a width")
		} else if len(in) > 0 && (w < 1 || w > len(in)) {
			// the property's predicate for a decoder used in consuming loops: progress
			st.Fail("helpers.DecodeWTF8Rune makes no progress (width outside 1..len) - the quoting loops cannot terminate", fmt.Sprintf("%q", in), w, "1 <= width <= len")
		}
		if len(in) > 1 {
			st.Sample(map[string]interface{}{"DecodeWTF8Rune": fmt.Sprintf("%q", in), "rune": c, "width": w})
		}
	}
	cf.AddCases("wtf8_cases", "bytes * Z * Z * Z", "check_wtf8", items)

	// --- internalQuote through QuoteForJSON / QuoteSingle, in a killable child
	var qcases []*Case
	for i := 0; i < n/2+len(utf8Pieces); i++ {
		var in []byte
		if i < len(utf8Pieces) {
			in = append([]byte("ab"), utf8Pieces[i]...) // every grid piece at the END of the text (truncation)
		} else {
			in = randBytes(r, 12)
		}
		q := byte('"')
		if r.Chance(30) {
			q = '\''
		}
		qcases = append(qcases, &Case{ID: i, Kind: "quote", Input: in, Ascii: r.Bool(), Quote: q})
	}
	outs := RunPool(qcases, 2, 5*time.Second)
	items = nil
	for i, o := range outs {
		c := qcases[i]
		if o.Status == "skipped" || o.Status == "starved" {
			continue
		}
		status := map[string]int{"ok": 0, "panic": 1, "timeout": 2, "blocked": 2, "died": 1}[o.Status]
		items = append(items, fmt.Sprintf("(%s,%s,%d,%d,%s)", CBytes(c.Input), CBool(c.Ascii), c.Quote, status, CBytes(o.Out)))
		st.Note("quote", fmt.Sprintf("%q%v%d", c.Input, c.Ascii, c.Quote), !utf8.Valid(c.Input) || len(o.Out) != len(c.Input)+2)
		if o.Status != "ok" {
			st.Fail("helpers.internalQuote "+o.Status, map[string]interface{}{"text_go_quoted": fmt.Sprintf("%q", c.Input), "asciiOnly": c.Ascii, "quote": string(c.Quote)}, o.Status+" "+o.Panic+o.Stderr, "a quoted string")
		}
	}
	cf.AddCases("quote_cases", "bytes * bool * Z * Z * bytes", "check_quote", items)

	// --- css_lexer.RangeOfIdentifier (range of an identifier for a diagnostic), in a killable child
	var rcases []*Case
	identPieces := []string{"a", "Z", "_", "-", "0", "9", "\\", "\\41", "\\41 ", "\\000041", "\\0000411", "\\g", "\\\n", " ", "\t", "\n", "\x00", "\xc3\xa9", "\xc3", "\xf0\x9f\x98\x80", "\xed\xa0\x80", "{", ";", "\\ ", "\\f", "\\F ", "\\10FFFF", "\\110000 x"}
	for i := 0; i < n/2; i++ {
		var in []byte
		for k := 1 + r.Intn(5); k > 0; k-- {
			in = append(in, identPieces[r.Intn(len(identPieces))]...)
		}
		if r.Chance(50) {
			in = append(in, " {}"...) // otherwise the identifier extends to the end of the text
		}
		rcases = append(rcases, &Case{ID: i, Kind: "roi", Input: in})
	}
	outs = RunPool(rcases, 2, 5*time.Second)
	items = nil
	for i, o := range outs {
		c := rcases[i]
		if o.Status == "skipped" || o.Status == "starved" {
			continue
		}
		status := map[string]int{"ok": 0, "panic": 1, "timeout": 2, "blocked": 2, "died": 1}[o.Status]
		items = append(items, fmt.Sprintf("(%s,%d,%d)", CBytes(c.Input), status, o.OutLen))
		st.Note("roi", string(c.Input), len(c.Input) > 1)
		if o.Status != "ok" {
			st.Fail("css_lexer.RangeOfIdentifier "+o.Status, map[string]interface{}{"text_go_quoted": fmt.Sprintf("%q", c.Input)}, o.Status+" "+o.Panic+o.Stderr, "a range")
		}
	}
	cf.AddCases("roi_cases", "bytes * Z * Z", "check_roi", items)
}
