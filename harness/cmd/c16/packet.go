package main

// Correspondence for cmd/esbuild/stdio_protocol.go (package main, cannot be
// imported): the CURRENT source file of the checked-out tree is copied next to
// a small driver and compiled; packets are decoded by the real decodePacket
// under recover in that child process.

import (
	"bufio"
	"bytes"
	"encoding/hex"
	"fmt"
	"os"
	"os/exec"
	"path/filepath"
	"strings"

	. "github.com/evanw/esbuild/verifharness/hlib"
)

const probeMain = `package main

import (
	"bufio"
	"encoding/hex"
	"fmt"
	"os"
)

func one(b []byte) (status int, ok bool, id uint32, isRequest bool) {
	defer func() {
		if r := recover(); r != nil {
			status = 1
		}
	}()
	p, ok := decodePacket(b)
	return 0, ok, p.id, p.isRequest
}

func main() {
	sc := bufio.NewScanner(os.Stdin)
	sc.Buffer(make([]byte, 1<<20), 1<<20)
	w := bufio.NewWriter(os.Stdout)
	defer w.Flush()
	for sc.Scan() {
		b, _ := hex.DecodeString(sc.Text())
		st, ok, id, rq := one(b)
		fmt.Fprintf(w, "%d %v %d %v\n", st, ok, id, rq)
	}
	_ = encodePacket
}
`

type pktBuilder struct {
	b     []byte
	kinds []int // offsets of kind bytes
}

func (p *pktBuilder) u32(v uint32) { p.b = append(p.b, byte(v), byte(v>>8), byte(v>>16), byte(v>>24)) }
func (p *pktBuilder) value(r *Rng, depth int) {
	k := r.Intn(7)
	if depth <= 0 && k >= 5 {
		k = r.Intn(5)
	}
	p.kinds = append(p.kinds, len(p.b))
	p.b = append(p.b, byte(k))
	switch k {
	case 1:
		p.b = append(p.b, byte(r.Intn(3)))
	case 2:
		p.u32(uint32(r.U64()))
	case 3, 4:
		n := r.Intn(6)
		p.u32(uint32(n))
		for i := 0; i < n; i++ {
			p.b = append(p.b, byte(r.Intn(256)))
		}
	case 5:
		n := r.Intn(4)
		p.u32(uint32(n))
		for i := 0; i < n; i++ {
			p.value(r, depth-1)
		}
	case 6:
		n := r.Intn(3)
		p.u32(uint32(n))
		for i := 0; i < n; i++ {
			kl := r.Intn(3)
			p.u32(uint32(kl))
			for j := 0; j < kl; j++ {
				p.b = append(p.b, byte('a'+r.Intn(3)))
			}
			p.value(r, depth-1)
		}
	}
}

func runPacketProbe(r *Rng, n int, st *Stats, cf *CoqFile) {
	fail := func(why string) {
		// the tie to the source is lost: a case that can never match makes the correspondence report it
		st.Histogram["packet-probe-unavailable"]++
		cf.AddCases("packet_cases", "bytes * Z * bool * Z * bool", "check_packet", []string{"([],9,false,0,false)"})
		st.Extra["packet_probe_error"] = why
	}
	dir, err := os.MkdirTemp("", "verif-c16-probe-")
	if err != nil {
		fail(err.Error())
		return
	}
	defer os.RemoveAll(dir)
	src, err := os.ReadFile(filepath.Join(repoDir(), "cmd", "esbuild", "stdio_protocol.go"))
	if err != nil {
		fail(err.Error())
		return
	}
	os.WriteFile(filepath.Join(dir, "stdio_protocol.go"), src, 0o644)
	os.WriteFile(filepath.Join(dir, "main.go"), []byte(probeMain), 0o644)
	os.WriteFile(filepath.Join(dir, "go.mod"), []byte("module probe\n\ngo 1.13\n"), 0o644)
	build := exec.Command("go", "build", "-o", "probe", ".")
	build.Dir = dir
	if out, err := build.CombinedOutput(); err != nil {
		fail("go build: " + string(out))
		return
	}
	var pkts [][]byte
	for i := 0; i < n; i++ {
		p := &pktBuilder{}
		p.u32(uint32(r.Intn(1 << 20)))
		p.value(r, 2)
		b := p.b
		switch r.Intn(6) {
		case 0: // truncate anywhere (also inside the id)
			b = b[:r.Intn(len(b)+1)]
		case 1: // unknown kind byte
			b = append([]byte{}, b...)
			b[p.kinds[r.Intn(len(p.kinds))]] = byte(7 + r.Intn(249))
		case 2: // trailing garbage
			b = append(append([]byte{}, b...), byte(r.Intn(7)))
		case 3: // drop the last byte
			b = b[:len(b)-1]
		}
		pkts = append(pkts, b)
	}
	var in bytes.Buffer
	for _, b := range pkts {
		in.WriteString(hex.EncodeToString(b) + "\n")
	}
	run := exec.Command(filepath.Join(dir, "probe"))
	run.Stdin = &in
	out, err := run.Output()
	if err != nil {
		fail("probe run: " + err.Error())
		return
	}
	sc := bufio.NewScanner(bytes.NewReader(out))
	var items []string
	i := 0
	crashes := 0
	for sc.Scan() && i < len(pkts) {
		f := strings.Fields(sc.Text())
		if len(f) != 4 {
			fail("probe output: " + sc.Text())
			return
		}
		items = append(items, fmt.Sprintf("(%s,%s,%s,%s,%s)", CBytes(pkts[i]), f[0], f[1], f[2], f[3]))
		if f[0] == "1" {
			crashes++
		}
		st.Note("packet", hex.EncodeToString(pkts[i]), f[1] == "true" || f[0] == "1")
		i++
	}
	if i != len(pkts) {
		fail("probe output short")
		return
	}
	// panics of decodePacket on malformed packets are recorded, not failures of C16 (see C20)
	st.Extra["decodePacket_panics_on_malformed_packets"] = crashes
	cf.AddCases("packet_cases", "bytes * Z * bool * Z * bool", "check_packet", items)
}
