package main

// STRUCTURED hostile values of config fields that feed secondary parsers and
// compilers: package.json (sideEffects globs, exports/imports, browser map,
// main/module, name), tsconfig.json (paths, baseUrl, extends chains/cycles, jsx
// factories, target/module), and API options that are compiled (define, pure,
// mangle-props/reserve-props regexps, alias, external patterns, loader and
// out-extension maps, banner/footer, path templates, glob entry points).

import (
	"fmt"
	"strings"

	. "github.com/evanw/esbuild/verifharness/hlib"
)

// fragments of a JSON string body (already JSON-escaped)
var metaFrags = []string{"{", "}", "(", ")", "[", "]", "*", "**", "**/", "?", "+", "|", `\\`, "^", "$", ".", ",", "/", "-", "!", "#", "@", ":", ";", "'", `\"`, " ", "%", "~", "=", "&",
	"{a,b}", "{a,{b,c}}", "*.{css,scss", "{,}", "{}", "(?", "(?:", "(?P<", "[^", "[]", "[a-", `\\Q`, `\\p{`, `\\E`, `\\x{`, "{1,", "{999999}", "x{2,1}", "a", "b.js", "src/", "../", "./", "lib/*.js", "*.css",
	`\ud800`, `\udc00`, `😀`, `\u0000`, ` `, "é", `\ufeff`, "%2e%2e", "%2F", "node_modules", "//", "C:", "file://", "http://x/", "data:,x", "<", ">"}

func metaString(r *Rng) string {
	var sb strings.Builder
	for k := 1 + r.Intn(5); k > 0; k-- {
		sb.WriteString(metaFrags[r.Intn(len(metaFrags))])
	}
	return sb.String()
}

func jstr(body string) string { return `"` + body + `"` }

var nonStringJSON = []string{"null", "1", "true", "false", "{}", "[]", "[1]", "{\"a\":1}", "-0", "1e999", "\"\""}

func hostileValue(r *Rng) string {
	if r.Chance(70) {
		return jstr(metaString(r))
	}
	return nonStringJSON[r.Intn(len(nonStringJSON))]
}

func jsonArray(r *Rng, n int, f func() string) string {
	var xs []string
	for i := 0; i < n; i++ {
		xs = append(xs, f())
	}
	return "[" + strings.Join(xs, ",") + "]"
}

// a conditional exports/imports target tree
func pjTarget(r *Rng, depth int) string {
	switch r.Intn(7) {
	case 0:
		return "null"
	case 1:
		if depth > 0 {
			return jsonArray(r, r.Intn(4), func() string { return pjTarget(r, depth-1) })
		}
	case 2:
		if depth > 0 {
			var fs []string
			for i := r.Intn(4); i > 0; i-- {
				fs = append(fs, jstr(r.Pick([]string{"import", "require", "default", "node", "browser", "types", "./x", metaString(r), ""}))+":"+pjTarget(r, depth-1))
			}
			return "{" + strings.Join(fs, ",") + "}"
		}
	case 3:
		return nonStringJSON[r.Intn(len(nonStringJSON))]
	case 4:
		return jstr("./" + metaString(r))
	}
	return jstr(r.Pick([]string{"./index.js", "./lib/*.js", "./*", "./lib/*/x*.js", "../x.js", "./node_modules/x.js", "lib/x.js", "./a/../b.js", "./%2e%2e/x.js", "./lib//x.js", "#internal", "pkg2", ".", "./", "/abs.js"}))
}

func pjMapField(r *Rng) string {
	var fs []string
	for i := r.Intn(5); i > 0; i-- {
		key := r.Pick([]string{".", "./sub", "./*", "./a*b*", "./*/", "#internal", "#*", "#", "#/", "import", "default", "./" + metaString(r), metaString(r), ""})
		fs = append(fs, jstr(key)+":"+pjTarget(r, 2))
	}
	return "{" + strings.Join(fs, ",") + "}"
}

func hostilePackageJSON(r *Rng) (string, []string) {
	var fs, what []string
	add := func(name, v string) { fs = append(fs, jstr(name)+":"+v); what = append(what, name) }
	if r.Chance(70) {
		switch r.Intn(4) {
		case 0:
			add("sideEffects", hostileValue(r))
		default:
			add("sideEffects", jsonArray(r, 1+r.Intn(4), func() string { return hostileValue(r) }))
		}
	}
	if r.Chance(45) {
		add("exports", r.Pick([]string{pjMapField(r), pjTarget(r, 2), pjMapField(r)}))
	}
	if r.Chance(30) {
		add("imports", pjMapField(r))
	}
	if r.Chance(35) {
		var bs []string
		for i := r.Intn(5); i > 0; i-- {
			bs = append(bs, jstr(r.Pick([]string{"./index.js", "./lib/main.js", "pkg2", "fs", "./", ".", metaString(r)}))+":"+r.Pick([]string{"false", "true", "1", "null", jstr("./lib/main.js"), hostileValue(r)}))
		}
		add("browser", r.Pick([]string{"{" + strings.Join(bs, ",") + "}", hostileValue(r)}))
	}
	for _, f := range []string{"main", "module", "name", "type", "version", "types"} {
		if r.Chance(25) {
			add(f, hostileValue(r))
		}
	}
	if r.Chance(10) {
		add("typesVersions", "{"+jstr(metaString(r))+":{"+jstr("*")+":["+hostileValue(r)+"]}}")
	}
	return "{" + strings.Join(fs, ",") + "}", what
}

func hostileTsconfig(r *Rng) (string, []string) {
	var co, top, what []string
	addc := func(name, v string) { co = append(co, jstr(name)+":"+v); what = append(what, name) }
	if r.Chance(55) {
		var ps []string
		for i := 1 + r.Intn(4); i > 0; i-- {
			key := r.Pick([]string{"*", "a/*", "*a*", "**", "@x/*", "", "pkg", metaString(r), "*/" + metaString(r)})
			ps = append(ps, jstr(key)+":"+r.Pick([]string{jsonArray(r, r.Intn(3), func() string {
				return r.Pick([]string{jstr("./src/*"), jstr("*"), jstr("**"), jstr("../*/*"), jstr("/abs/*"), hostileValue(r)})
			}), hostileValue(r)}))
		}
		addc("paths", "{"+strings.Join(ps, ",")+"}")
	}
	if r.Chance(40) {
		addc("baseUrl", r.Pick([]string{jstr("."), jstr("./src"), jstr("../.."), jstr("/"), hostileValue(r)}))
	}
	for _, f := range []string{"jsxFactory", "jsxFragmentFactory", "jsxImportSource", "jsx", "target", "module", "moduleSuffixes", "importsNotUsedAsValues", "useDefineForClassFields", "experimentalDecorators", "alwaysStrict", "strict", "verbatimModuleSyntax", "preserveValueImports", "rootDirs"} {
		if r.Chance(18) {
			v := hostileValue(r)
			if f == "jsxFactory" || f == "jsxFragmentFactory" {
				v = r.Pick([]string{jstr("a.b.c"), jstr("a..b"), jstr("1a"), jstr("a["), jstr("h."), jstr(""), jstr(`\ud800`), jstr("a.#b"), jstr("this"), jstr("a-b"), v})
			}
			addc(f, v)
		}
	}
	if len(co) > 0 || r.Chance(50) {
		top = append(top, jstr("compilerOptions")+":"+r.Pick([]string{"{" + strings.Join(co, ",") + "}", "{" + strings.Join(co, ",") + "}", hostileValue(r)}))
	}
	if r.Chance(45) {
		e := r.Pick([]string{jstr("./base.json"), jstr("./cycle-a.json"), jstr("./tsconfig.json"), jstr("pkg/tsconfig.json"), jstr("./missing"), jstr("."), jstr(".."), jsonArray(r, 1+r.Intn(3), func() string {
			return r.Pick([]string{jstr("./base.json"), jstr("./cycle-a.json"), hostileValue(r)})
		}), hostileValue(r)})
		top = append(top, jstr("extends")+":"+e)
		what = append(what, "extends")
	}
	for _, f := range []string{"include", "files", "references"} {
		if r.Chance(10) {
			top = append(top, jstr(f)+":"+hostileValue(r))
		}
	}
	return "{" + strings.Join(top, ",") + "}", what
}

// Go-string fragments for API options (raw bytes, incl. invalid UTF-8)
var optFrags = []string{"{", "}", "(", ")", "[", "]", "*", "**", "?", "+", "|", "\\", "^", "$", ".", ",", "/", "-", "!", "#", "@", ":", "=", "'", "\"", " ", "%", "a", "b", "_", "0", "x.y", "process.env.X", "(?", "(?:", "[^", "[a-", "\\p{", "{1,", "x{2,1}", "a{99999}",
	"\xed\xa0\x80", "\xC3", "\x00", " ", "é", "\uFEFF", "node:", "./", "../", "[name]", "[hash]", "[dir]", "[ext]", "[", "[]", "[x]", "//", "true", "null", "1e999", "`", "${", "/*", "<", ">"}

func optString(r *Rng) string {
	var sb strings.Builder
	for k := 1 + r.Intn(4); k > 0; k-- {
		sb.WriteString(optFrags[r.Intn(len(optFrags))])
	}
	return sb.String()
}

func hostileAPIOptions(r *Rng, o *Opts) []string {
	var what []string
	pick := func(name string, p int) bool {
		if r.Chance(p) {
			what = append(what, name)
			return true
		}
		return false
	}
	if pick("define", 35) {
		o.DefineKV = map[string]string{}
		for i := 1 + r.Intn(3); i > 0; i-- {
			o.DefineKV[r.Pick([]string{"X", "a.b", "process.env.NODE_ENV", "import.meta.x", "a..b", "1a", "", "a.#b", "this", "typeof x", optString(r)})] = r.Pick([]string{"1", "\"s\"", "a.b", "null", "undefined", "{}", "[1]", "x y", "", "'", "1n", "/re/", "`t`", "a?.b", "function(){}", "{\"a\":1}", "-1", "NaN", optString(r)})
		}
	}
	if pick("pure", 20) {
		for i := 1 + r.Intn(3); i > 0; i-- {
			o.Pure = append(o.Pure, r.Pick([]string{"a", "a.b.c", "a..b", "", "1", "a[", "a.#b", optString(r)}))
		}
	}
	if pick("mangle-props", 25) {
		o.MangleProps = r.Pick([]string{"_$", "^x", ".", "(", "[a-", "(?", "a{99999}", "x{2,1}", "\\p{", "\xed\xa0\x80", "(?i)a", "\\", "*", "+?", "a**", optString(r)})
	}
	if pick("reserve-props", 15) {
		o.ReserveProps = r.Pick([]string{"^__", "(", "[", "\\", "\xC3", "*", optString(r)})
	}
	if pick("alias", 25) {
		o.Alias = map[string]string{}
		for i := 1 + r.Intn(2); i > 0; i-- {
			o.Alias[r.Pick([]string{"pkg", "pkg/sub", "./rel", "/abs", "", "a*", "@x/y", "node:fs", optString(r)})] = r.Pick([]string{"./src/m.js", "pkg2", "", "/abs", "../x", optString(r)})
		}
	}
	if pick("external", 30) {
		for i := 1 + r.Intn(3); i > 0; i-- {
			o.External = append(o.External, r.Pick([]string{"pkg", "*", "**", "a*b*c", "*.png", "/abs/*", "./rel*", "", "*/*/*", "pkg/*", "@x/*", optString(r)}))
		}
	}
	if pick("loader-map", 20) {
		o.LoaderMap = map[string]string{}
		for i := 1 + r.Intn(2); i > 0; i-- {
			o.LoaderMap[r.Pick([]string{".js", "js", "", ".", ".a.b", "..", ".js ", optString(r)})] = r.Pick([]string{"js", "ts", "css", "json", "text", "file", "dataurl", "binary", "copy", "empty", "base64", "local-css"})
		}
	}
	if pick("out-extension", 15) {
		o.OutExtension = map[string]string{r.Pick([]string{".js", ".css", "js", "", ".x", optString(r)}): r.Pick([]string{".mjs", "mjs", "", ".", "./x", optString(r)})}
	}
	if pick("banner-footer", 20) {
		o.Banner = map[string]string{r.Pick([]string{"js", "css", "x", ""}): r.Pick([]string{"/* b */", "*/", "//", "\xC3", "`", "</script>", optString(r)})}
		o.Footer = map[string]string{r.Pick([]string{"js", "css"}): r.Pick([]string{"//", "/*", "\x00", optString(r)})}
	}
	if pick("path-templates", 20) {
		o.EntryNames = r.Pick([]string{"[dir]/[name]-[hash]", "[", "[]", "[x]", "[name", "../[name]", "/abs/[name]", "", "[hash][hash]", "[ext]", optString(r)})
		o.ChunkNames = r.Pick([]string{"", "chunks/[name]-[hash]", "[", "[dir]", optString(r)})
		o.AssetNames = r.Pick([]string{"", "[name]", "[ext]", "]", optString(r)})
	}
	if pick("jsx-strings", 20) {
		o.JSXFactory = r.Pick([]string{"h", "a.b.c", "a..b", "1a", "a[", "", "this", "a.#b", "\xed\xa0\x80", optString(r)})
		o.JSXFragment = r.Pick([]string{"Fragment", "a..b", "\"x\"", "1", "null", optString(r)})
		o.JSXImportSource = r.Pick([]string{"", "react", "../x", "@a/b", optString(r)})
	}
	if pick("misc-lists", 20) {
		o.Conditions = []string{r.Pick([]string{"", "import", optString(r)})}
		o.MainFields = []string{r.Pick([]string{"", "main", "browser", optString(r)})}
		o.ResolveExtensions = []string{r.Pick([]string{".js", "js", "", ".", optString(r)}), ".ts"}
		o.DropLabels = []string{r.Pick([]string{"DEV", "", "1", "a-b", optString(r)})}
		o.Inject = []string{r.Pick([]string{"./src/m.js", "./missing.js", "", "*", optString(r)})}
		o.PublicPath = r.Pick([]string{"", "/", "https://x/", "\xC3", "..", optString(r)})
		o.SourceRoot = optString(r)
	}
	if pick("supported", 10) {
		o.Supported = map[string]bool{r.Pick([]string{"arrow", "bigint", "", "x", "nesting", optString(r)}): r.Bool()}
	}
	if pick("log-override", 8) {
		o.LogOverride = map[string]string{r.Pick([]string{"unsupported-regexp", "", "x", optString(r)}): r.Pick([]string{"silent", "error", "warning", "info"})}
	}
	if pick("mangle-cache", 8) {
		o.MangleProps = "_$"
		o.MangleCacheJSON = r.Pick([]string{`{"a_":"b"}`, `{"a_":false}`, `{"a_":1}`, `{"":""}`, `{"a_":"1x"}`, `{"a_":"a_","b_":"a_"}`})
	}
	return what
}

// configFieldCases: count cases over the three groups; glob entry points ride along
func configFieldCases(r *Rng, count int, corpus map[string][]Seed, mk func(c *Case)) {
	baseFiles := func() map[string][]byte {
		return map[string][]byte{
			"src/entry.ts": []byte("import * as m from './m.js'; import p from 'pkg'; import q from 'pkg/sub'; import i from '#internal'; import './a.css'; import r from './rel'; import x from '@x/y'; console.log(m, p, q, i, r, x, <div/> as any)"),
			"src/entry.tsx": []byte("import p from 'pkg'; import q from 'pkg/lib/main.js'; const n = 'm'; " + r.Pick([]string{
				"import('./' + n + '.js')", "import('./' + n + '\\uD800.js')", "require(`./${n}\\uDC00`)", "import('./**/' + n)", "import('./' + n + '{a,b}.js')", "import('./(' + n + ')')",
				"import('./[' + n)", "require('./' + n + '$^.js')", "import(`./${n}/**/${n}.js`)", "import('./' + n + '\\\\.js')", "import('../' + n)", "import('./' + n + '\\0')", "import('./' + n + '?' + n + '#' + n)",
			}) + "; console.log(p, q, <><a b='c'/></>)"),
			"src/m.js":                       []byte("export let m = 1; export default m"),
			"src/rel.ts":                     []byte("export default 2"),
			"src/a.css":                      []byte("@import 'pkg/a.css'; a{color:red}"),
			"node_modules/pkg/index.js":      []byte("module.exports = 1"),
			"node_modules/pkg/lib/main.js":   []byte("export default 2"),
			"node_modules/pkg/lib/sub.js":    []byte("export default 3"),
			"node_modules/pkg/a.css":         []byte("b{color:blue}"),
			"node_modules/pkg/tsconfig.json": []byte(`{"compilerOptions":{"jsxFactory":"h"}}`),
			"node_modules/pkg2/index.js":     []byte("exports.x = 2"),
			"node_modules/@x/y/index.js":     []byte("exports.y = 3"),
			"base.json":                      []byte(`{"compilerOptions":{"baseUrl":".","paths":{"*":["./src/*"]}}}`),
			"cycle-a.json":                   []byte(`{"extends":"./cycle-b.json"}`),
			"cycle-b.json":                   []byte(`{"extends":["./cycle-a.json","./base.json"]}`),
		}
	}
	for i := 0; i < count; i++ {
		files := baseFiles()
		o := Opts{Format: r.Pick([]string{"", "esm", "cjs", "iife"})}
		if r.Chance(30) {
			o.SourceMap = "linked"
		}
		if r.Chance(25) {
			o.Metafile = true
		}
		if o.Format == "esm" && r.Chance(30) {
			o.Splitting = true
		}
		var desc []string
		group := i % 3
		if group == 0 || r.Chance(25) {
			pj, what := hostilePackageJSON(r)
			files["node_modules/pkg/package.json"] = []byte(pj)
			desc = append(desc, "package.json{"+strings.Join(what, ",")+"}="+clip(pj, 500))
			if r.Chance(40) {
				rj, what2 := hostilePackageJSON(r)
				files["package.json"] = []byte(rj)
				desc = append(desc, "root package.json{"+strings.Join(what2, ",")+"}="+clip(rj, 300))
			}
		}
		if group == 1 || r.Chance(25) {
			tj, what := hostileTsconfig(r)
			if r.Chance(25) {
				o.TsconfigRaw = tj
				desc = append(desc, "tsconfigRaw")
			} else {
				files["tsconfig.json"] = []byte(tj)
			}
			desc = append(desc, "tsconfig.json{"+strings.Join(what, ",")+"}="+clip(tj, 500))
			if r.Chance(30) {
				bj, _ := hostileTsconfig(r)
				files["base.json"] = []byte(bj)
				desc = append(desc, "base.json="+clip(bj, 300))
			}
		}
		if group == 2 || r.Chance(20) {
			what := hostileAPIOptions(r, &o)
			desc = append(desc, "options{"+strings.Join(what, ",")+"}")
		}
		entries := []string{"src/entry.ts"}
		if r.Chance(40) {
			entries = append(entries, "src/entry.tsx")
		}
		if r.Chance(12) { // glob entry points
			entries = []string{r.Pick([]string{"src/*.ts", "src/**/*.ts*", "src/*", "**/*.css", "src/{entry}.ts", "src/[e]ntry.ts", "src/**", "*", "src/\xed\xa0\x80*", "src/*.t?"})}
			o.GlobEntries = true
			desc = append(desc, "glob-entry("+entries[0]+")")
		}
		mk(&Case{Kind: "build", Files: files, Entry: entries, Opts: o, Desc: "config-fields: " + strings.Join(desc, " | ")})
		if group == 2 && r.Chance(50) { // the same compiled options through api.Transform
			ld := r.Pick([]string{"js", "ts", "jsx", "tsx", "css"})
			o2 := o
			o2.Loader = ld
			o2.Splitting, o2.Metafile = false, false
			mk(&Case{Kind: "transform", Input: []byte(smSourceText[ld]), Opts: o2, Desc: "config-fields(transform): " + strings.Join(desc, " | ")})
		}
	}
	_ = fmt.Sprint
}
