package main

// Grammar-aware hostile atoms: short byte sequences that sit on a guard of a
// sub-lexer (JSX entities, numeric/escape forms, CSS escapes/urls/unicode
// ranges, JSON numbers/escapes).  They are (1) spliced by the mutator at token
// boundaries and INSIDE strings / JSX text / templates / regexps / comments and
// at the end of the input, and (2) enumerated deterministically as an
// atom x context grid per loader family.

import (
	"fmt"
	"strings"

	. "github.com/evanw/esbuild/verifharness/hlib"
)

var jsxAtoms = []string{"&;", "&#;", "&#x;", "&#xZ;", "&#99999999999;", "&#-1;", "&#x110000;", "&#xD800;", "&#0;", "&amp", "&amp;", "&a b;", "&&;", "&", "&;&;", "&#x;;", "&nbsp", "&#1_0;", "&#+5;", "&;\n", "{", "}", "{}", "{/**/}", "{...}", "<", ">", "</", "<>", "\\", "\\u0041", "&#x41", "&\xC3;", "&#\x00;"}
var jsAtoms = []string{"0x", "0b", "0o", "0X_", "1e", "1e+", "1_", "1__2", "0_1", "09.5", "08n", "1n.", ".1n", "1.e", "\\u{", "\\u{}", "\\u{110000}", "\\u{0000000041}", "\\x", "\\x4", "\\u12", "\\u", "\\8", "\\08", "\\c", "\\k<", "\\1", "\\p{", "\\", "${", "${}", "`", "\r", "\u2028", "\uFEFF", "\x00", "</script", "<!--", "-->", "#!", "#", "@", "?.", "?.5", "??=", "**=", ">>>", "=>", "...", "0..a", "a?.[", "async", "await", "yield", "let", "static", "get", "of", "in", "new.target", "import.meta", "super", "__proto__", "constructor", "\"use strict\"", "/* @__PURE__ */", "//# sourceMappingURL=x", "[", "(?<", "(?<a>", "(?<=", "[^", "{1,", "/u", "/v", "\\-", "[\\"}
var cssAtoms = []string{"\\", "\\0", "\\110000 ", "\\ffffff", "\\d800 ", "\\\n", "\\41", "url(", "url( ", "url(\\", "url(a b)", "url()", "@", "@-", "#", "#-", "#\\", "--", "-", "-.", "+.", "<!--", "-->", "U+", "u+?", "U+0-", "u+1?-2", "U+110000", "u+??????", "1e", "1e+", "1e-", ".", "..", "1.", "-0", "1%", "1e3px", "1\\e3", "!", "!important", "! important", "&", "&&", "&-", "|", "||", "~=", "^=", "$", "*", "**", "/**/", "/*", "*/", ",", ";", "{}", "}", "(", ")", "[", "]", "\"", "'", "\r", "\f", "\x00", "\uFEFF", "calc(", "calc(1 +", "var(--", "var(,)", "env(", ":is(", "::", ":", "rgb(", "rgb(1 2", "hsl(0deg", "#12", "#12345", "#1234567", "0/0", "1 / ", "infinity", "-infinity", "NaN", "e", "1n", "n+1", "2n+", "-n-", "even", "of"}
var jsonAtoms = []string{"-", "1.", "\"\\u\"", "[,]", "-0", "01", "1e", "1e+", ".5", "+1", "0x1", "1_0", "\"\\u12\"", "\"\\x41\"", "\"\\'\"", "\"\\\n\"", "\"\t\"", "'a'", "tru", "nul", "NaN", "Infinity", "undefined", "{,}", "{\"a\"}", "{\"a\":}", "{a:1}", "[1,]", ",", ":", "//", "/*", "/**/", "\uFEFF", "\x00", "\"\\uD800\"", "\"\\uDC00\\uD800\"", "1e999", "-1e-999", "9007199254740993", "\"__proto__\""}

// contexts into which an atom is placed; %s is the atom
var jsxContexts = []string{"x = <a>%s</a>", "x = <a b=\"%s\"/>", "x = <a b='%s'/>", "x = <a>%s", "x = <a b=\"%s", "x = <a>text %s text</a>", "x = <>%s</>", "x = <a b={`%s`}/>", "x = <a {...b} c=\"%s\">{d}%s</a>"}
var jsContexts = []string{"x = %s", "%s", "x = \"%s\"", "x = '%s", "x = `%s`", "x = `${%s}`", "x = /%s/", "x = /[%s]/u", "// %s", "/* %s */", "/* %s", "x = a%s", "x = 1%s", "x.%s", "x = {%s: 1}", "class A { %s }", "a: %s", "x = `a${b}%s"}
var cssContexts = []string{"a{b:%s}", "%s", "a{b:\"%s\"}", "a{b:'%s", "a{b:url(%s)}", "/* %s */", "/* %s", ".%s{}", "#%s{}", "@%s", "@media %s{}", "a{b:%s", "a{%s:c}", "a %s b{}", "a[b=%s]{}", "a:%s{}", "a{b:1%s}", "a{b:calc(%s)}", "a{--x:%s}", "@import %s;"}
var jsonContexts = []string{"%s", "[%s]", "{\"a\":%s}", "\"%s\"", "{\"%s\":1}", "[1,%s", "{\"a\":%s"}

func atomsFor(loader string) ([]string, []string) {
	switch loader {
	case "jsx", "tsx":
		return jsxAtoms, jsxContexts
	case "js", "ts":
		return jsAtoms, jsContexts
	case "css", "local-css", "global-css":
		return cssAtoms, cssContexts
	case "json", "pkgjson", "tsconfig", "srcmap":
		return jsonAtoms, jsonContexts
	}
	return jsAtoms, jsContexts
}

// spliceAtom puts one atom of the loader's dictionary at a grammar-relevant place.
func spliceAtom(r *Rng, b []byte, loader string) ([]byte, string) {
	atoms, _ := atomsFor(loader)
	if (loader == "jsx" || loader == "tsx") && r.Chance(35) {
		atoms = jsAtoms // JSX files are JS files too
	}
	a := atoms[r.Intn(len(atoms))]
	where := "end"
	pos := len(b)
	switch r.Intn(10) {
	case 0, 1: // the LAST bytes of the input
	case 2: // anywhere
		if len(b) > 0 {
			pos = r.Intn(len(b) + 1)
		}
		where = "random"
	default: // right after a byte that opens a sub-lexer context (string, template, JSX text/attribute, regexp, comment, url, block)
		openers := "\"'`>=/*({[:,;& \n#@.\\-+"
		if len(b) > 0 {
			start := r.Intn(len(b))
			for k := 0; k < len(b); k++ {
				i := (start + k) % len(b)
				if strings.IndexByte(openers, b[i]) >= 0 {
					pos = i + 1
					where = fmt.Sprintf("after %q", b[i])
					break
				}
			}
		}
	}
	out := append(b[:pos:pos], append([]byte(a), b[pos:]...)...)
	if r.Chance(15) { // and cut the input right after the atom
		out = out[:pos+len(a)]
		where += "+cut"
	}
	return clipBytes(out), fmt.Sprintf("atom(%q %s@%d)", a, where, pos)
}

// MutateFor = Mutate, then (often) one grammar-aware atom.
func MutateFor(r *Rng, in []byte, others []Seed, loader string) ([]byte, string) {
	b, desc := Mutate(r, in, others)
	if r.Chance(45) {
		var d string
		b, d = spliceAtom(r, b, loader)
		if desc != "" {
			desc += ","
		}
		desc += d
	}
	return b, desc
}

// atomGrid enumerates atom x context for a loader family; every atom appears in
// every context once (loaders alternate), plus once as the last bytes of a test input.
func atomGrid(r *Rng, corpus map[string][]Seed, mk func(c *Case)) {
	fam := []struct {
		atomsOf string
		loaders []string
	}{{"jsx", []string{"jsx", "tsx"}}, {"js", []string{"js", "ts", "jsx", "tsx"}}, {"css", []string{"css", "local-css"}}, {"json", []string{"json"}}}
	n := 0
	for _, f := range fam {
		atoms, ctxs := atomsFor(f.atomsOf)
		for _, a := range atoms {
			for _, cx := range ctxs {
				ld := f.loaders[n%len(f.loaders)]
				n++
				in := strings.ReplaceAll(cx, "%s", a)
				o := Opts{Loader: ld}
				if n%5 == 0 {
					o = randOpts(r, ld)
				}
				mk(&Case{Kind: "transform", Input: []byte(in), Opts: o, Desc: fmt.Sprintf("atom-grid(%q in %q)", a, cx)})
			}
			ld := f.loaders[n%len(f.loaders)]
			seeds := corpus[ld]
			if len(seeds) == 0 {
				seeds = corpus["css"]
			}
			s := seeds[r.Intn(len(seeds))]
			if len(s.Text) <= 400 {
				mk(&Case{Kind: "transform", Input: []byte(s.Text + a), Opts: Opts{Loader: ld}, Desc: s.From + fmt.Sprintf(" atom-at-end(%q)", a)})
			}
		}
	}
}
