package main

// Hostile INPUT SOURCE MAPS: a structurally valid version-3 map whose mappings
// really use its last source and its last name, with field-level corruptions
// (wrong JSON types in every field, non-string entries in names/sources,
// sourcesContent of the wrong length, out-of-range indices, negative deltas,
// truncated VLQ, huge numbers, duplicate keys, sections), reached through an
// inline data: URL (api.Transform) and through an adjacent .map file
// (api.Build), for js/ts/jsx/tsx/css and every source-map output mode.

import (
	"fmt"
	"strings"

	. "github.com/evanw/esbuild/verifharness/hlib"
)

type smDoc struct {
	version, file, sourceRoot string
	sources, names, content   []string
	mappings                  string // JSON string body
	extra                     []string
	dupNames, dupMappings     string
}

func (d *smDoc) json() string {
	var f []string
	if d.version != "" {
		f = append(f, `"version":`+d.version)
	}
	if d.file != "" {
		f = append(f, `"file":`+d.file)
	}
	if d.sourceRoot != "" {
		f = append(f, `"sourceRoot":`+d.sourceRoot)
	}
	if d.sources != nil {
		f = append(f, `"sources":[`+strings.Join(d.sources, ",")+`]`)
	}
	if d.content != nil {
		f = append(f, `"sourcesContent":[`+strings.Join(d.content, ",")+`]`)
	}
	if d.dupNames != "" {
		f = append(f, `"names":`+d.dupNames)
	}
	if d.names != nil {
		f = append(f, `"names":[`+strings.Join(d.names, ",")+`]`)
	}
	if d.dupMappings != "" {
		f = append(f, `"mappings":`+d.dupMappings)
	}
	f = append(f, `"mappings":`+d.mappings)
	f = append(f, d.extra...)
	return "{" + strings.Join(f, ",") + "}"
}

// baseDoc: sl sources, nl names; every generated line maps to the LAST source and (if any) the LAST name
func baseDoc(r *Rng, sl, nl, lines int) *smDoc {
	d := &smDoc{version: "3"}
	for i := 0; i < sl; i++ {
		d.sources = append(d.sources, fmt.Sprintf("\"orig%d.js\"", i))
		d.content = append(d.content, "\"x;\\nlet y = x + 1;\\n\"")
	}
	for i := 0; i < nl; i++ {
		d.names = append(d.names, fmt.Sprintf("\"n%d\"", i))
	}
	if nl == 0 {
		d.names = []string{}
	}
	var u []uint16
	src, name := 0, 0
	for l := 0; l < lines; l++ {
		u = append(u, vlqUnits(0)...)
		u = append(u, vlqUnits(int64(sl-1-src))...)
		src = sl - 1
		u = append(u, vlqUnits(0)...)
		u = append(u, vlqUnits(0)...)
		if nl > 0 {
			u = append(u, vlqUnits(int64(nl-1-name))...)
			name = nl - 1
		}
		if r.Bool() {
			u = append(u, ',')
			u = append(u, vlqUnits(int64(1+r.Intn(3)))...)
			u = append(u, vlqUnits(0)...)
			u = append(u, vlqUnits(0)...)
			u = append(u, vlqUnits(int64(r.Intn(3)))...)
		}
		u = append(u, ';')
	}
	d.mappings = `"` + unitsToJSON(u) + `"`
	return d
}

var nonStrings = []string{"null", "1", "{}", "[]", "true", "1e999", "-0", "[\"x\"]", "{\"a\":\"x\"}"}

type smCorruption struct {
	name  string
	apply func(r *Rng, d *smDoc)
}

var smCorruptions = []smCorruption{
	{"none", func(r *Rng, d *smDoc) {}},
	{"names-entry-nonstring-first", func(r *Rng, d *smDoc) {
		if len(d.names) > 0 {
			d.names[0] = r.Pick(nonStrings)
		}
	}},
	{"names-entry-nonstring-any", func(r *Rng, d *smDoc) {
		for i := range d.names {
			if r.Bool() {
				d.names[i] = r.Pick(nonStrings)
			}
		}
	}},
	{"names-all-nonstring", func(r *Rng, d *smDoc) {
		for i := range d.names {
			d.names[i] = r.Pick(nonStrings)
		}
	}},
	{"names-nonstring-prepended", func(r *Rng, d *smDoc) { d.names = append([]string{"null"}, d.names...) }},
	{"names-missing", func(r *Rng, d *smDoc) { d.names = nil }},
	{"names-shorter", func(r *Rng, d *smDoc) {
		if len(d.names) > 0 {
			d.names = d.names[:len(d.names)-1]
		}
	}},
	{"names-not-array", func(r *Rng, d *smDoc) {
		d.names = nil
		d.dupNames = r.Pick([]string{"\"x\"", "1", "null", "{\"0\":\"x\"}"})
	}},
	{"names-duplicate-key", func(r *Rng, d *smDoc) {
		d.dupNames = r.Pick([]string{"[]", "[\"a\",\"b\",\"c\",\"d\",\"e\"]", "[null]"})
	}},
	{"sources-entry-nonstring-first", func(r *Rng, d *smDoc) {
		if len(d.sources) > 0 {
			d.sources[0] = r.Pick(nonStrings)
		}
	}},
	{"sources-entry-nonstring-last", func(r *Rng, d *smDoc) {
		if len(d.sources) > 0 {
			d.sources[len(d.sources)-1] = r.Pick(nonStrings)
		}
	}},
	{"sources-all-nonstring", func(r *Rng, d *smDoc) {
		for i := range d.sources {
			d.sources[i] = r.Pick(nonStrings)
		}
	}},
	{"sources-shorter", func(r *Rng, d *smDoc) {
		if len(d.sources) > 0 {
			d.sources = d.sources[:len(d.sources)-1]
		}
	}},
	{"sources-empty", func(r *Rng, d *smDoc) { d.sources = []string{} }},
	{"sources-missing", func(r *Rng, d *smDoc) { d.sources = nil }},
	{"sources-weird-urls", func(r *Rng, d *smDoc) {
		for i := range d.sources {
			d.sources[i] = r.Pick([]string{`"%XY"`, `"http://[::1"`, `"file:///"`, `""`, `"../../../../x"`, `"a\u0000b"`, `"\ud800"`, `"data:,x"`, `"//host/x"`, `"C:\\x"`, `"?#"`})
		}
	}},
	{"content-longer", func(r *Rng, d *smDoc) { d.content = append(d.content, "\"extra\"", "\"extra2\"") }},
	{"content-shorter", func(r *Rng, d *smDoc) {
		if len(d.content) > 0 {
			d.content = d.content[:len(d.content)-1]
		}
	}},
	{"content-empty", func(r *Rng, d *smDoc) { d.content = []string{} }},
	{"content-missing", func(r *Rng, d *smDoc) { d.content = nil }},
	{"content-entry-nonstring", func(r *Rng, d *smDoc) {
		if len(d.content) > 0 {
			d.content[r.Intn(len(d.content))] = r.Pick(nonStrings)
		}
	}},
	{"content-lone-surrogate", func(r *Rng, d *smDoc) {
		if len(d.content) > 0 {
			d.content[0] = `"\ud800x\udc00\udc00"`
		}
	}},
	{"content-not-array", func(r *Rng, d *smDoc) { d.content = nil; d.extra = append(d.extra, `"sourcesContent":"x"`) }},
	{"version-wrong", func(r *Rng, d *smDoc) { d.version = r.Pick([]string{"\"3\"", "2", "3.5", "null", "[3]", "-3", "3e0"}) }},
	{"version-missing", func(r *Rng, d *smDoc) { d.version = "" }},
	{"mappings-not-string", func(r *Rng, d *smDoc) { d.mappings = r.Pick([]string{"1", "null", "[\"AAAA\"]", "{}"}) }},
	{"mappings-empty", func(r *Rng, d *smDoc) { d.mappings = `""` }},
	{"mappings-duplicate-key", func(r *Rng, d *smDoc) { d.dupMappings = r.Pick([]string{`"AAAAAAAA"`, `1`, `";;;;"`}) }},
	{"mappings-truncated-vlq", func(r *Rng, d *smDoc) {
		if len(d.mappings) > 3 && d.mappings[0] == '"' {
			d.mappings = d.mappings[:len(d.mappings)-2] + `g"`
		}
	}},
	{"mappings-cut", func(r *Rng, d *smDoc) {
		if len(d.mappings) > 3 && d.mappings[0] == '"' {
			d.mappings = d.mappings[:1+r.Intn(len(d.mappings)-1)] + `"`
		}
	}},
	{"mappings-name-past-end", func(r *Rng, d *smDoc) { d.mappings = `"AAAA` + unitsToJSON(vlqUnits(int64(len(d.names)))) + `"` }},
	{"mappings-source-past-end", func(r *Rng, d *smDoc) { d.mappings = `"A` + unitsToJSON(vlqUnits(int64(len(d.sources)))) + `AA"` }},
	{"mappings-negative-deltas", func(r *Rng, d *smDoc) { d.mappings = `"KAAA,DAAA,FAAA;DAAA"` }},
	{"mappings-negative-line", func(r *Rng, d *smDoc) { d.mappings = `"AADA"` }},
	{"mappings-huge", func(r *Rng, d *smDoc) {
		d.mappings = `"` + r.Pick([]string{"+/////DAAA", "AAgggggggggBA", "AAAgggggggE", "gggggggggggggggggggB", "A+/////DAA"}) + `"`
	}},
	{"mappings-int32-edge", func(r *Rng, d *smDoc) { d.mappings = `"` + unitsToJSON(vlqUnits(2147483647)) + `AAA,CAAA"` }},
	{"mappings-many-lines", func(r *Rng, d *smDoc) { d.mappings = `"` + strings.Repeat(";", 3000) + `AAAA"` }},
	{"mappings-backwards-columns", func(r *Rng, d *smDoc) { d.mappings = `"UAAA,JAAA,JAAA;AACA,UAAA,TAAA"` }},
	{"mappings-escapes", func(r *Rng, d *smDoc) { d.mappings = `"\u0041AAA\u002cAAAA\u003b\u0141AAA"` }},
	{"source-root", func(r *Rng, d *smDoc) {
		d.sourceRoot = r.Pick([]string{`"src"`, `"a/b/"`, `"%"`, `1`, `null`, `"http://[::1/"`, `"/"`, `"\u0000"`})
	}},
	{"file-nonstring", func(r *Rng, d *smDoc) { d.file = r.Pick([]string{"1", "null", "[]"}) }},
	{"extra-fields", func(r *Rng, d *smDoc) {
		d.extra = append(d.extra, `"x_google_ignoreList":[0,99,-1,"a"]`, `"ignoreList":null`, `"sections":3`)
	}},
	{"huge-numbers", func(r *Rng, d *smDoc) {
		d.extra = append(d.extra, `"a":1e99999`, `"b":-1e-99999`, `"c":`+strings.Repeat("9", 400))
	}},
}

// sections variants wrap the (possibly corrupted) map
func wrapSections(r *Rng, inner string) string {
	off := func() string {
		return fmt.Sprintf(`{"line":%s,"column":%s}`, r.Pick([]string{"0", "1", "-1", "1e99", "4294967296", "\"1\"", "2147483648", "null", "0.5"}), r.Pick([]string{"0", "5", "-7", "1e10", "0.5", "{}"}))
	}
	switch r.Intn(5) {
	case 0:
		return `{"version":3,"sections":[{"offset":` + off() + `,"map":` + inner + `}]}`
	case 1:
		return `{"version":3,"sections":[{"offset":{"line":0,"column":0},"map":` + inner + `},{"offset":` + off() + `,"map":` + inner + `}]}`
	case 2:
		return `{"version":3,"sections":[{"offset":{"line":5,"column":0},"map":` + inner + `},{"offset":{"line":1,"column":0},"map":` + inner + `}]}`
	case 3:
		return `{"version":3,"sections":[{"map":` + inner + `},{"offset":3,"map":` + inner + `}]}`
	}
	return `{"version":3,"sections":` + r.Pick([]string{"{}", "[1]", "[[]]", "[{\"map\":[]}]", "[{\"offset\":{},\"map\":{}}]", "null"}) + `,"mappings":"AAAA","sources":["a"]}`
}

var smSourceText = map[string]string{
	"js":  "x;\nlet y = x + 1;\nconsole.log(y)\n",
	"jsx": "x;\nlet y = <a b={x}>{x}</a>;\nconsole.log(y)\n",
	"ts":  "x;\nlet y: number = x + 1;\nenum E { A = y }\n",
	"tsx": "x;\nlet y = <a b={x as any}>{x}</a>;\nconsole.log(y)\n",
	"css": "a{color:red}\n.b{color:blue}\n@media screen{c{d:e}}\n",
}

// inputSourceMapCases: the deterministic corruption grid plus n random combinations
func inputSourceMapCases(r *Rng, n int, mk func(c *Case)) {
	loaders := []string{"js", "ts", "jsx", "tsx", "css"}
	k := 0
	one := func(corr []smCorruption, viaFile bool, sections bool) {
		ld := loaders[k%len(loaders)]
		k++
		d := baseDoc(r, 1+r.Intn(3), r.Intn(3), 3)
		if len(corr) > 0 && strings.HasPrefix(corr[0].name, "names") && len(d.names) == 0 {
			d = baseDoc(r, 1+r.Intn(2), 1+r.Intn(2), 3)
		}
		var names []string
		for _, c := range corr {
			c.apply(r, d)
			names = append(names, c.name)
		}
		doc := d.json()
		if sections {
			doc = wrapSections(r, doc)
			names = append(names, "sections")
		}
		src := smSourceText[ld]
		o := Opts{SourceMap: r.Pick([]string{"inline", "external", "both", "linked"})}
		if r.Chance(30) {
			o.MinifyWS, o.MinifyIDs, o.MinifySyn = true, true, true
		}
		desc := "input-source-map[" + strings.Join(names, "+") + "] " + clip(doc, 400)
		if viaFile {
			ext := "." + ld
			comment := "//# sourceMappingURL=entry" + ext + ".map\n"
			if ld == "css" {
				comment = "/*# sourceMappingURL=entry" + ext + ".map */\n"
			}
			mk(&Case{Kind: "build", Files: map[string][]byte{"src/entry" + ext: []byte(src + comment), "src/entry" + ext + ".map": []byte(doc)}, Entry: []string{"src/entry" + ext}, Opts: o, Desc: desc + " (adjacent .map file)"})
		} else {
			o.Loader = ld
			o.Sourcefile = "in." + ld
			in := append([]byte(src), sourceMappingComment2([]byte(doc), ld == "css")...)
			mk(&Case{Kind: "transform", Input: in, Opts: o, Desc: desc + " (inline data URL)"})
		}
	}
	for _, c := range smCorruptions {
		one([]smCorruption{c}, false, false)
		one([]smCorruption{c}, true, false)
	}
	for i := 0; i < n; i++ {
		var cs []smCorruption
		for j := 1 + r.Intn(2); j > 0; j-- {
			cs = append(cs, smCorruptions[r.Intn(len(smCorruptions))])
		}
		one(cs, r.Chance(35), r.Chance(20))
	}
}

// always a well-formed data URL: the payload is what is hostile here
func sourceMappingComment2(m []byte, css bool) []byte {
	return sourceMappingCommentWith(m, css)
}
