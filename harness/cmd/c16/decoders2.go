package main

import (
	"fmt"
	"regexp"
	"strconv"
	"strings"

	"github.com/evanw/esbuild/internal/css_parser"
	"github.com/evanw/esbuild/internal/js_parser"
	"github.com/evanw/esbuild/internal/linker"
	"github.com/evanw/esbuild/internal/logger"
	"github.com/evanw/esbuild/internal/sourcemap"
	. "github.com/evanw/esbuild/verifharness/hlib"
)

func randUnits(r *Rng, max int) []uint16 {
	var u []uint16
	for k := r.Intn(max + 1); k > 0; k-- {
		switch r.Intn(14) {
		case 0:
			u = append(u, ';')
		case 1:
			u = append(u, ',')
		case 2: // a long run of continuation digits (shift passes 32: int32 wrap / zero shifts)
			for j := r.Intn(10); j > 0; j-- {
				u = append(u, uint16(b64[32+r.Intn(32)]))
			}
			u = append(u, uint16(b64[r.Intn(32)]))
		case 3:
			u = append(u, []uint16{'!', ' ', 0xE9, 0x141, 0x2028, '=', 0x7F, 0x100 + '/'}[r.Intn(8)])
		case 4:
			u = append(u, u16("AAAA")...)
		case 5:
			u = append(u, u16([]string{"AACA", "AAAAA", "CAAC", "DAAA", "AADA", "AAAD", "ADAA", "gggggggggB", "/////////B", "+/////D", "AAgggggggggB", "AAAAC", "AAAAD"}[r.Intn(13)])...)
		default:
			u = append(u, uint16(b64[r.Intn(64)]))
		}
	}
	return u
}

func u16(s string) []uint16 {
	var u []uint16
	for i := 0; i < len(s); i++ {
		u = append(u, uint16(s[i]))
	}
	return u
}

func cUnits(u []uint16) string { return CU16(u) }

func jsonString(u []uint16) string {
	var sb strings.Builder
	sb.WriteByte('"')
	for _, c := range u {
		if c >= 0x20 && c < 0x7F && c != '"' && c != '\\' {
			sb.WriteByte(byte(c))
		} else {
			fmt.Fprintf(&sb, "\\u%04X", c)
		}
	}
	sb.WriteByte('"')
	return sb.String()
}

func vlqUnits(v int64) []uint16 {
	var u []uint16
	var x uint64
	if v < 0 {
		x = uint64(-v)<<1 | 1
	} else {
		x = uint64(v) << 1
	}
	for {
		d := x & 31
		x >>= 5
		if x != 0 {
			d |= 32
		}
		u = append(u, uint16(b64[d]))
		if x == 0 {
			return u
		}
	}
}

// mostly-valid mappings for sl sources and nl names, with boundary values:
// indices exactly at / one past the ends, negative columns, int32 extremes
func structuredMappings(r *Rng, sl, nl int) []uint16 {
	var u []uint16
	src, name := 0, 0
	nseg := r.Intn(7)
	for k := 0; k < nseg; k++ {
		if k > 0 {
			if r.Chance(30) {
				u = append(u, ';')
			} else {
				u = append(u, ',')
			}
		}
		colDelta := int64(r.Intn(20))
		if r.Chance(4) {
			colDelta = -int64(r.Intn(6))
		}
		if r.Chance(3) {
			colDelta = []int64{2147483647, 2147483648, -2147483648, 4294967296, 1 << 40}[r.Intn(5)]
		}
		u = append(u, vlqUnits(colDelta)...)
		if r.Chance(10) {
			continue // one-field segment
		}
		ns := src
		switch r.Intn(28) {
		case 0:
			ns = sl - 1
		case 1:
			ns = sl // one past the end: must be rejected
		case 2:
			ns = -1
		case 3, 4, 5, 6, 7, 8, 9:
			if sl > 0 {
				ns = r.Intn(sl)
			}
		}
		u = append(u, vlqUnits(int64(ns-src))...)
		src = ns
		for f := 0; f < 2; f++ { // original line and column deltas
			d := int64(r.Intn(6))
			if r.Chance(6) {
				d = -int64(1 + r.Intn(3))
			}
			u = append(u, vlqUnits(d)...)
		}
		if nl > 0 && r.Chance(40) || r.Chance(3) {
			nn := name
			switch r.Intn(20) {
			case 0:
				nn = nl - 1
			case 1:
				nn = nl // one past the end
			case 2:
				nn = -1
			case 3, 4, 5, 6, 7:
				if nl > 0 {
					nn = r.Intn(nl)
				}
			}
			u = append(u, vlqUnits(int64(nn-name))...)
			name = nn
		}
		if r.Chance(4) {
			u = append(u, []uint16{'!', ' ', 0xE9, 0x141, '='}[r.Intn(5)])
		}
	}
	if r.Chance(10) && len(u) > 0 {
		u = u[:r.Intn(len(u))]
	}
	return u
}

type secSpec struct {
	lo, co, sl, nl     int
	hostileS, hostileN uint64
	raw                []uint16
}

// JSON array of n entries; entries are strings except where hostile (non-string entries must
// still count: the mapping decoder validates indices against the raw array length)
func strList(n int, p string, hostile uint64) string {
	var xs []string
	for i := 0; i < n; i++ {
		if hostile>>uint(i)&1 == 1 {
			xs = append(xs, []string{"null", "1", "{}", "[]", "true"}[(hostile>>8+uint64(i))%5])
		} else {
			xs = append(xs, fmt.Sprintf("\"%s%d\"", p, i))
		}
	}
	return "[" + strings.Join(xs, ",") + "]"
}

func (s secSpec) json() string {
	return fmt.Sprintf(`{"version":3,"sources":%s,"names":%s,"mappings":%s}`, strList(s.sl, "s", s.hostileS), strList(s.nl, "n", s.hostileN), jsonString(s.raw))
}

var badMappingsRe = regexp.MustCompile(`^Bad "mappings" data in source map at character (\d+): (.*)$`)

func classifyMappingsError(text string) (code int, value int64, ok bool) {
	table := []struct {
		prefix string
		code   int
	}{{"Missing generated column", 1}, {"Invalid generated column value: ", 2}, {"Missing source index", 3}, {"Invalid source index value: ", 4},
		{"Missing original line", 5}, {"Invalid original line value: ", 6}, {"Missing original column", 7}, {"Invalid original column value: ", 8},
		{"Invalid name index value: ", 9}, {"Invalid character after mapping: ", 10}}
	for _, e := range table {
		if strings.HasPrefix(text, e.prefix) {
			rest := text[len(e.prefix):]
			if e.code == 10 {
				s, err := strconv.Unquote(rest)
				if err != nil {
					return 0, 0, false
				}
				rs := []rune(s)
				if len(rs) != 1 {
					return 0, 0, false
				}
				return 10, int64(rs[0]), true
			}
			if strings.HasSuffix(e.prefix, ": ") {
				v, err := strconv.ParseInt(rest, 10, 64)
				return e.code, v, err == nil
			}
			return e.code, 0, true
		}
	}
	return 0, 0, false
}

func runDecoders2(r *Rng, n int, st *Stats, cf *CoqFile) {
	// --- DecodeVLQUTF16
	var items []string
	for i := 0; i < n; i++ {
		u := randUnits(r, 4)
		if i%7 == 0 { // exactly one VLQ with k continuation digits, k up to 14 (shift up to 70)
			u = nil
			for j := r.Intn(15); j > 0; j-- {
				u = append(u, uint16(b64[32+r.Intn(32)]))
			}
			u = append(u, uint16(b64[r.Intn(32)]))
		}
		var v int32
		var used int
		var ok bool
		status, msg := guard(func() { v, used, ok = sourcemap.DecodeVLQUTF16(u) })
		items = append(items, fmt.Sprintf("(%s,%d,%s,%d,%s)", cUnits(u), status, CZ(int64(v)), used, CBool(ok)))
		st.Note("vlq16", fmt.Sprint(u), len(u) > 1)
		if status != 0 {
			st.Fail("panic in sourcemap.DecodeVLQUTF16", fmt.Sprint(u), msg, "value, width, ok")
		} else if ok && (used < 1 || used > len(u)) {
			st.Fail("sourcemap.DecodeVLQUTF16 reports a width outside 1..len (the mappings loop would not advance / slice out of range)", fmt.Sprint(u), used, "1 <= width <= len")
		}
	}
	cf.AddCases("vlq16_cases", "list Z * Z * Z * Z * bool", "check_vlq16", items)

	// --- the mappings loop through js_parser.ParseSourceMap
	items = nil
	for i := 0; i < n; i++ {
		nsec := 1
		if r.Chance(30) {
			nsec = 2 + r.Intn(2)
		}
		var secs []secSpec
		for k := 0; k < nsec; k++ {
			s := secSpec{sl: 1 + r.Intn(3), nl: r.Intn(3)}
			if r.Chance(8) {
				s.sl = 0
			}
			if r.Chance(70) {
				s.raw = structuredMappings(r, s.sl, s.nl)
			} else {
				s.raw = randUnits(r, 14)
			}
			if nsec > 1 || r.Chance(20) {
				s.lo, s.co = r.Intn(3)+k, r.Intn(5)
				if r.Chance(10) {
					s.lo, s.co = 2147483647, 2147483600
				}
			}
			if r.Chance(5) {
				s.raw = nil
			}
			if r.Chance(25) {
				s.hostileN = r.U64()
			}
			if r.Chance(15) {
				s.hostileS = r.U64()
			}
			secs = append(secs, s)
		}
		var doc string
		if len(secs) == 1 && secs[0].lo == 0 && secs[0].co == 0 {
			doc = secs[0].json()
		} else {
			var parts []string
			for _, s := range secs {
				parts = append(parts, fmt.Sprintf(`{"offset":{"line":%d,"column":%d},"map":%s}`, s.lo, s.co, s.json()))
			}
			doc = `{"version":3,"sections":[` + strings.Join(parts, ",") + `]}`
		}
		var sm *sourcemap.SourceMap
		var msgs []logger.Msg
		status, msg := guard(func() {
			log := logger.NewDeferLog(logger.DeferLogAll, nil)
			sm = js_parser.ParseSourceMap(log, logger.Source{KeyPath: logger.Path{Text: "<map>"}, Contents: doc})
			msgs = log.Done()
		})
		kind, errItems, mapItems := 0, []int64{}, []string{}
		comparable := true
		if status != 0 {
			st.Fail("panic in js_parser.ParseSourceMap", doc, msg, "a source map, nil, or a warning")
		} else if sm != nil {
			kind = 2
			errItems = []int64{int64(len(sm.Sources)), int64(len(sm.Names))}
			for _, m := range sm.Mappings {
				name := int64(-1)
				if m.OriginalName.IsValid() {
					name = int64(m.OriginalName.GetIndex())
				}
				mapItems = append(mapItems, fmt.Sprintf("(%s,%s,%s,%s,%s,%s)", CZ(int64(m.GeneratedLine)), CZ(int64(m.GeneratedColumn)), CZ(int64(m.SourceIndex)), CZ(int64(m.OriginalLine)), CZ(int64(m.OriginalColumn)), CZ(name)))
				// the property's predicate on the result: indices the linker will use are in range
				if int(m.SourceIndex) < 0 || int(m.SourceIndex) >= len(sm.Sources) || (name >= 0 && int(name) >= len(sm.Names)) || m.GeneratedColumn < 0 || m.OriginalLine < 0 || m.OriginalColumn < 0 {
					st.Fail("ParseSourceMap returned a mapping whose indices are out of range (later index out of range in the linker)", doc, fmt.Sprintf("%+v sources=%d names=%d", m, len(sm.Sources), len(sm.Names)), "0 <= source < len(sources), name < len(names), non-negative positions")
				}
			}
		} else {
			for _, m := range msgs {
				if g := badMappingsRe.FindStringSubmatch(m.Data.Text); g != nil {
					cur, _ := strconv.ParseInt(g[1], 10, 64)
					code, v, ok := classifyMappingsError(g[2])
					if !ok {
						comparable = false
					}
					kind, errItems = 1, []int64{int64(code), v, cur}
				} else if m.Kind == logger.Error {
					comparable = false // a JSON-level error: not the mappings loop
				}
			}
		}
		if !comparable {
			st.Histogram["maps-not-comparable"]++
			continue
		}
		var secItems []string
		for _, s := range secs {
			secItems = append(secItems, fmt.Sprintf("(%d,%d,%d,%d,%s)", s.lo, s.co, s.sl, s.nl, cUnits(s.raw)))
		}
		items = append(items, fmt.Sprintf("([%s],%d,%d,%s,[%s])", strings.Join(secItems, ";"), status, kind, CZList(errItems), strings.Join(mapItems, ";")))
		st.Note("maps", doc, kind != 0)
		if i < 2 {
			st.Sample(map[string]interface{}{"ParseSourceMap": doc, "kind": kind, "err": errItems, "mappings": len(mapItems)})
		}
	}
	cf.AddCases("maps_cases", "list (Z * Z * Z * Z * list Z) * Z * Z * list Z * list (Z * Z * Z * Z * Z * Z)", "check_maps", items)

	// --- css parseHex
	items = nil
	hexAlpha := []rune("0123456789abcdefABCDEFgG/:@`xé\u00000")
	for i := 0; i < n; i++ {
		var rs []rune
		for k := r.Intn(11); k > 0; k-- {
			if r.Chance(85) {
				rs = append(rs, hexAlpha[r.Intn(22)])
			} else {
				rs = append(rs, hexAlpha[r.Intn(len(hexAlpha))])
			}
		}
		text := string(rs)
		if r.Chance(5) {
			text += "\xC3" // invalid UTF-8: range yields RuneError
		}
		var v uint32
		var ok bool
		status, msg := guard(func() { v, ok = css_parser.VerifParseHex(text) })
		var zs []int64
		for _, c := range text { // the same rune decoding as the range loop in parseHex
			zs = append(zs, int64(c))
		}
		items = append(items, fmt.Sprintf("(%s,%d,%d,%s)", CZList(zs), status, v, CBool(ok)))
		st.Note("hex", text, len(rs) > 0)
		if status != 0 {
			st.Fail("panic in css_parser.parseHex", fmt.Sprintf("%q", text), msg, "value, ok")
		}
	}
	cf.AddCases("hex_cases", "list Z * Z * Z * bool", "check_hex", items)

	// --- css mangleNumber / shiftDot
	var mItems, sItems []string
	numAlpha := []byte("0000.+-123456789eE0.0 x\x00")
	for i := 0; i < n; i++ {
		var b []byte
		if r.Chance(50) {
			b = append(b, "+-"[r.Intn(2)])
			if r.Chance(50) {
				b = b[:0]
			}
		}
		for k := r.Intn(9); k > 0; k-- {
			if r.Chance(92) {
				b = append(b, numAlpha[r.Intn(17)])
			} else {
				b = append(b, numAlpha[r.Intn(len(numAlpha))])
			}
		}
		var out string
		var ch bool
		status, msg := guard(func() { out, ch = css_parser.VerifMangleNumber(string(b)) })
		mItems = append(mItems, fmt.Sprintf("(%s,%d,%s,%s)", CBytes(b), status, CBytes([]byte(out)), CBool(ch)))
		st.Note("mangleNumber", string(b), ch)
		if status != 0 {
			st.Fail("panic in css_parser.mangleNumber", fmt.Sprintf("%q", b), msg, "text, changed")
		}
		off := []int{3, -3, 3, -3, 0, 1, -1, 7, -12}[r.Intn(9)]
		var ok bool
		status, msg = guard(func() { out, ok = css_parser.VerifShiftDot(string(b), off) })
		sItems = append(sItems, fmt.Sprintf("(%s,%s,%d,%s,%s)", CBytes(b), CZi(off), status, CBytes([]byte(out)), CBool(ok)))
		st.Note("shiftDot", fmt.Sprint(string(b), off), ok)
		if status != 0 {
			st.Fail("panic in css_parser.shiftDot", map[string]interface{}{"text": fmt.Sprintf("%q", b), "dotOffset": off}, msg, "text, ok")
		}
	}
	cf.AddCases("mangle_cases", "bytes * Z * bytes * bool", "check_mangle", mItems)
	cf.AddCases("shift_cases", "bytes * Z * Z * bytes * bool", "check_shift", sItems)

	// --- linker breakOutputIntoPieces on hostile chunk bytes
	items = nil
	for i := 0; i < n/2; i++ {
		prefix := []string{"PFX1", "Ab3dEf9h", "", "x", "KEYKEY"}[r.Intn(5)]
		if r.Chance(70) {
			prefix = "Ab3dEf9h"
		}
		nfiles, nchunks := r.Intn(4), r.Intn(4)
		var out []byte
		for k := r.Intn(7); k > 0; k-- {
			switch r.Intn(9) {
			case 0, 1:
				out = append(out, fmt.Sprintf("%s%c%08d", prefix, "AC"[r.Intn(2)], r.Intn(5))...)
			case 2:
				out = append(out, fmt.Sprintf("%s%c%07d", prefix, "ACXa"[r.Intn(4)], r.Intn(5))...) // one digit short
			case 3:
				out = append(out, fmt.Sprintf("%s%c%04dx%03d", prefix, "AC"[r.Intn(2)], r.Intn(5), r.Intn(5))...)
			case 4:
				out = append(out, prefix...)
			case 5:
				out = append(out, fmt.Sprintf("%sC99999999", prefix)...)
			case 6:
				if len(prefix) > 1 {
					out = append(out, prefix[:len(prefix)-1]...)
				}
			default:
				out = append(out, randBytes(r, 3)...)
			}
		}
		if r.Chance(25) && len(out) > 0 {
			out = out[:r.Intn(len(out))]
		}
		files := make([]linker.VerifFile, nfiles)
		chunks := make([]linker.VerifChunk, nchunks)
		var has bool
		var ps []linker.VerifPiece
		status, msg := guard(func() {
			l := linker.VerifNewLinker(nil, "/out", "", prefix, files, chunks)
			has, ps = l.BreakOutputIntoPieces(out)
		})
		var pItems []string
		for _, p := range ps {
			pItems = append(pItems, fmt.Sprintf("(%s,%d,%d)", CBytes(p.Data), p.Index, p.Kind))
		}
		_ = has
		items = append(items, fmt.Sprintf("(%s,%s,%d,%d,%d,[%s])", CBytes(out), CBytes([]byte(prefix)), nfiles, nchunks, status, strings.Join(pItems, ";")))
		st.Note("pieces", string(out)+prefix, len(ps) > 1)
		if status != 0 {
			st.Fail("panic in linker.breakOutputIntoPieces", map[string]interface{}{"output": fmt.Sprintf("%q", out), "prefix": prefix, "files": nfiles, "chunks": nchunks}, msg, "pieces")
		}
	}
	cf.AddCases("pieces_cases", "bytes * bytes * Z * Z * Z * list (bytes * Z * Z)", "check_pieces", items)
}
