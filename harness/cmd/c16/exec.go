package main

// Worker-side execution of one case through the public API (api.Transform /
// api.Build) or an exported decoder, under recover.

import (
	"bytes"
	"encoding/json"
	"fmt"
	"os"
	"path/filepath"
	"runtime/debug"
	"time"

	"github.com/evanw/esbuild/internal/css_lexer"
	"github.com/evanw/esbuild/internal/helpers"
	"github.com/evanw/esbuild/internal/logger"
	"github.com/evanw/esbuild/pkg/api"
)

func loaderOf(s string) api.Loader {
	switch s {
	case "js":
		return api.LoaderJS
	case "jsx":
		return api.LoaderJSX
	case "ts":
		return api.LoaderTS
	case "tsx":
		return api.LoaderTSX
	case "css":
		return api.LoaderCSS
	case "local-css":
		return api.LoaderLocalCSS
	case "global-css":
		return api.LoaderGlobalCSS
	case "json":
		return api.LoaderJSON
	case "text":
		return api.LoaderText
	}
	return api.LoaderJS
}

func targetOf(s string) api.Target {
	switch s {
	case "es5":
		return api.ES5
	case "es2015":
		return api.ES2015
	case "es2016":
		return api.ES2016
	case "es2017":
		return api.ES2017
	case "es2018":
		return api.ES2018
	case "es2019":
		return api.ES2019
	case "es2020":
		return api.ES2020
	case "es2021":
		return api.ES2021
	case "es2022":
		return api.ES2022
	case "esnext":
		return api.ESNext
	}
	return api.DefaultTarget
}

func enginesOf(s string) []api.Engine {
	switch s {
	case "chrome50":
		return []api.Engine{{Name: api.EngineChrome, Version: "50"}}
	case "safari11":
		return []api.Engine{{Name: api.EngineSafari, Version: "11"}}
	case "firefox60":
		return []api.Engine{{Name: api.EngineFirefox, Version: "60"}}
	case "node8":
		return []api.Engine{{Name: api.EngineNode, Version: "8.0"}}
	case "ie11":
		return []api.Engine{{Name: api.EngineIE, Version: "11"}}
	}
	return nil
}

func formatOf(s string) api.Format {
	switch s {
	case "iife":
		return api.FormatIIFE
	case "cjs":
		return api.FormatCommonJS
	case "esm":
		return api.FormatESModule
	}
	return api.FormatDefault
}

func sourcemapOf(s string) api.SourceMap {
	switch s {
	case "inline":
		return api.SourceMapInline
	case "external":
		return api.SourceMapExternal
	case "linked":
		return api.SourceMapLinked
	case "both":
		return api.SourceMapInlineAndExternal
	}
	return api.SourceMapNone
}

func platformOf(s string) api.Platform {
	switch s {
	case "node":
		return api.PlatformNode
	case "neutral":
		return api.PlatformNeutral
	case "browser":
		return api.PlatformBrowser
	}
	return api.PlatformDefault
}

func jsxOf(s string) api.JSX {
	switch s {
	case "preserve":
		return api.JSXPreserve
	case "automatic":
		return api.JSXAutomatic
	}
	return api.JSXTransform
}

func charsetOf(s string) api.Charset {
	switch s {
	case "ascii":
		return api.CharsetASCII
	case "utf8":
		return api.CharsetUTF8
	}
	return api.CharsetDefault
}

func legalOf(s string) api.LegalComments {
	switch s {
	case "none":
		return api.LegalCommentsNone
	case "inline":
		return api.LegalCommentsInline
	case "eof":
		return api.LegalCommentsEndOfFile
	case "linked":
		return api.LegalCommentsLinked
	case "external":
		return api.LegalCommentsExternal
	}
	return api.LegalCommentsDefault
}

func treeOf(b bool) api.TreeShaking {
	if b {
		return api.TreeShakingTrue
	}
	return api.TreeShakingDefault
}

func defines(on bool) map[string]string {
	if !on {
		return nil
	}
	return map[string]string{"process.env.NODE_ENV": "\"production\"", "DEBUG": "false", "a.b": "c.d", "x": "1"}
}

func drops(on bool) api.Drop {
	if on {
		return api.DropConsole | api.DropDebugger
	}
	return 0
}

func scanMessages(o *Outcome, input []byte, msgs []api.Message, isErr bool) {
	for _, m := range msgs {
		texts := []string{m.Text}
		for _, n := range m.Notes {
			texts = append(texts, n.Text)
		}
		if isErr && o.FirstErr == "" {
			o.FirstErr = clip(m.Text, 200)
		}
		for _, t := range texts {
			for _, b := range badTexts {
				if bytes.Contains([]byte(t), []byte(b)) && !bytes.Contains(input, []byte(b)) {
					o.Flagged = append(o.Flagged, clip(t, 600))
					break
				}
			}
		}
	}
}

func clip(s string, n int) string {
	if len(s) > n {
		return s[:n] + "..."
	}
	return s
}

func execCase(c *Case) (o Outcome) {
	o.ID = c.ID
	o.Status = "ok"
	t0 := time.Now()
	defer func() {
		if r := recover(); r != nil {
			o.Status = "panic"
			o.Panic = clip(fmt.Sprintf("%v\n%s", r, debug.Stack()), 3000)
		}
		o.Millis = time.Since(t0).Milliseconds()
	}()
	switch c.Kind {
	case "quote":
		var out []byte
		if c.Quote == '\'' {
			out = helpers.QuoteSingle(string(c.Input), c.Ascii)
		} else {
			out = helpers.QuoteForJSON(string(c.Input), c.Ascii)
		}
		o.Out = out
		o.OutLen = len(out)
	case "roi":
		rg := css_lexer.RangeOfIdentifier(logger.Source{Contents: string(c.Input)}, logger.Loc{Start: 0})
		o.OutLen = int(rg.Len)
	case "transform":
		res := api.Transform(string(c.Input), transformOptions(&c.Opts))
		o.NErrors, o.NWarn, o.OutLen = len(res.Errors), len(res.Warnings), len(res.Code)
		scanMessages(&o, c.Input, res.Errors, true)
		scanMessages(&o, c.Input, res.Warnings, false)
	case "build":
		execBuild(c, &o)
	case "final":
		// the process must still be usable: a plain build and a plain transform succeed
		res := api.Transform("export let answer = 6 * 7", api.TransformOptions{MinifySyntax: true, LogLevel: api.LogLevelSilent})
		if len(res.Errors) != 0 || !bytes.Contains(res.Code, []byte("42")) {
			o.Flagged = append(o.Flagged, "process unusable: plain transform failed after the batch: "+string(res.Code))
		}
		fc := &Case{Kind: "build", Files: map[string][]byte{"entry.js": []byte("import {x} from './m.js'; console.log(x)"), "m.js": []byte("export let x = 'usable'")},
			Entry: []string{"entry.js"}, Opts: Opts{Format: "esm"}}
		var fo Outcome
		execBuild(fc, &fo)
		if fo.NErrors != 0 || fo.OutLen == 0 || len(fo.Flagged) != 0 {
			o.Flagged = append(o.Flagged, fmt.Sprintf("process unusable: plain build failed after the batch: %+v", fo))
		}
	}
	return
}

func transformOptions(p *Opts) api.TransformOptions {
	return api.TransformOptions{
		LogLevel: api.LogLevelSilent, LogLimit: 20,
		Sourcemap: sourcemapOf(p.SourceMap), Target: targetOf(p.Target), Engines: enginesOf(p.Engine),
		Platform: platformOf(p.Platform), Format: formatOf(p.Format), GlobalName: p.GlobalName,
		MangleProps: p.MangleProps, Drop: drops(p.Drop),
		MinifyWhitespace: p.MinifyWS, MinifyIdentifiers: p.MinifyIDs, MinifySyntax: p.MinifySyn,
		LineLimit: p.LineLimit, Charset: charsetOf(p.Charset), TreeShaking: treeOf(p.TreeShaking),
		LegalComments: legalOf(p.LegalCmts), JSX: jsxOf(p.JSX), TsconfigRaw: p.TsconfigRaw,
		Define: defineOf(p), KeepNames: p.KeepNames, Sourcefile: p.Sourcefile, Loader: loaderOf(p.Loader),
		Pure: p.Pure, ReserveProps: p.ReserveProps, JSXFactory: p.JSXFactory, JSXFragment: p.JSXFragment, JSXImportSource: p.JSXImportSource,
		DropLabels: p.DropLabels, SourceRoot: p.SourceRoot, Supported: p.Supported, LogOverride: logOverrideOf(p.LogOverride),
		MangleCache: mangleCacheOf(p.MangleCacheJSON), Banner: oneOf(p.Banner), Footer: oneOf(p.Footer),
	}
}

func oneOf(m map[string]string) string {
	for _, v := range m {
		return v
	}
	return ""
}

func defineOf(p *Opts) map[string]string {
	if p.DefineKV != nil {
		return p.DefineKV
	}
	return defines(p.Define)
}

func logOverrideOf(m map[string]string) map[string]api.LogLevel {
	if m == nil {
		return nil
	}
	out := map[string]api.LogLevel{}
	for k, v := range m {
		out[k] = map[string]api.LogLevel{"silent": api.LogLevelSilent, "error": api.LogLevelError, "warning": api.LogLevelWarning, "info": api.LogLevelInfo}[v]
	}
	return out
}

func mangleCacheOf(s string) map[string]interface{} {
	if s == "" {
		return nil
	}
	var m map[string]interface{}
	if json.Unmarshal([]byte(s), &m) != nil {
		return nil
	}
	return m
}

func loaderMapOf(m map[string]string) map[string]api.Loader {
	out := map[string]api.Loader{".txt": api.LoaderText, ".data": api.LoaderBinary, ".png": api.LoaderDataURL, ".file": api.LoaderFile, ".lcss": api.LoaderLocalCSS}
	for k, v := range m {
		switch v {
		case "file":
			out[k] = api.LoaderFile
		case "dataurl":
			out[k] = api.LoaderDataURL
		case "binary":
			out[k] = api.LoaderBinary
		case "copy":
			out[k] = api.LoaderCopy
		case "empty":
			out[k] = api.LoaderEmpty
		case "base64":
			out[k] = api.LoaderBase64
		default:
			out[k] = loaderOf(v)
		}
	}
	return out
}

func execBuild(c *Case, o *Outcome) {
	dir, err := os.MkdirTemp(os.Getenv("C16_TMP"), "verif-c16-")
	if err != nil {
		o.Status = "died"
		o.Stderr = err.Error()
		return
	}
	defer os.RemoveAll(dir)
	var all []byte
	for rel, data := range c.Files {
		p := filepath.Join(dir, filepath.FromSlash(rel))
		os.MkdirAll(filepath.Dir(p), 0o755)
		os.WriteFile(p, data, 0o644)
		all = append(all, data...)
	}
	p := &c.Opts
	var entries []string
	for _, e := range c.Entry {
		if p.GlobEntries {
			entries = append(entries, e) // relative glob, resolved against AbsWorkingDir
		} else {
			entries = append(entries, filepath.Join(dir, filepath.FromSlash(e)))
		}
	}
	opts := api.BuildOptions{
		LogLevel: api.LogLevelSilent, LogLimit: 20, AbsWorkingDir: dir, EntryPoints: entries, Bundle: true, Write: false,
		Outdir:    filepath.Join(dir, "out"),
		Sourcemap: sourcemapOf(p.SourceMap), Target: targetOf(p.Target), Engines: enginesOf(p.Engine),
		Platform: platformOf(p.Platform), Format: formatOf(p.Format), GlobalName: p.GlobalName,
		MangleProps: p.MangleProps, Drop: drops(p.Drop),
		MinifyWhitespace: p.MinifyWS, MinifyIdentifiers: p.MinifyIDs, MinifySyntax: p.MinifySyn,
		LineLimit: p.LineLimit, Charset: charsetOf(p.Charset), TreeShaking: treeOf(p.TreeShaking),
		LegalComments: legalOf(p.LegalCmts), JSX: jsxOf(p.JSX), TsconfigRaw: p.TsconfigRaw,
		Define: defineOf(p), KeepNames: p.KeepNames, Metafile: p.Metafile, Splitting: p.Splitting,
		Loader: loaderMapOf(p.LoaderMap),
		Pure:   p.Pure, ReserveProps: p.ReserveProps, JSXFactory: p.JSXFactory, JSXFragment: p.JSXFragment, JSXImportSource: p.JSXImportSource,
		DropLabels: p.DropLabels, SourceRoot: p.SourceRoot, Supported: p.Supported, LogOverride: logOverrideOf(p.LogOverride),
		MangleCache: mangleCacheOf(p.MangleCacheJSON), Banner: p.Banner, Footer: p.Footer,
		Alias: p.Alias, External: p.External, OutExtension: p.OutExtension, EntryNames: p.EntryNames, ChunkNames: p.ChunkNames, AssetNames: p.AssetNames,
		Conditions: p.Conditions, MainFields: p.MainFields, ResolveExtensions: p.ResolveExtensions, Inject: p.Inject, PublicPath: p.PublicPath,
	}
	res := api.Build(opts)
	o.NErrors, o.NWarn = len(res.Errors), len(res.Warnings)
	for _, f := range res.OutputFiles {
		o.OutLen += len(f.Contents)
	}
	scanMessages(o, all, res.Errors, true)
	scanMessages(o, all, res.Warnings, false)
}
