package main

import (
	"fmt"

	"github.com/evanw/esbuild/internal/js_lexer"
	. "github.com/evanw/esbuild/verifharness/hlib"
)

// guardLexer: 0 returned, 1 Go panic, 3 the typed LexerPanic (an ordinary syntax error)
func guardLexer(f func()) (status int, msg string) {
	defer func() {
		if r := recover(); r != nil {
			if js_lexer.VerifIsLexerPanic(r) {
				status = 3
			} else {
				status, msg = 1, fmt.Sprint(r)
			}
		}
	}()
	f()
	return 0, ""
}

var jsStrPieces = []string{"\\", "\\\r\n", "\\\r", "\\\n", "\r", "\n", "\r\n", "$", "${", "$$", "{", "}", "'", "\"", "`", "a", "b", " ", "\\'", "\\\"", "\\`", "\\u0041", "\\x4", "\\u{", "é", "\xC3", "\xF0\x9F\x98\x80", "\xed\xa0\x80", "\x00", " ", "\\ ", "\\$", "$\\{", "/*", "//"}
var jsRePieces = []string{"/", "[", "]", "\\", "\\/", "\\]", "\\[", "[/]", "[\\]]", "[^", "a", "b", "(", ")", "*", "+", "?", ".", "{1,}", "|", "^", "$", "\r", "\n", " ", " ", "é", "\xC3", "\xF0\x9F\x98\x80", " ", "\\\n", "\\\\", "\\é"}
var jsReFlags = []string{"", "g", "gi", "gimsuyd", "v", "gg", "igi", "x", "g1", "gé", "g‌", "gA", "d ", "y y", "u\xC3", "gmg", "_", "$"}

func runJSLex(r *Rng, n int, st *Stats, cf *CoqFile) {
	strKind := map[js_lexer.T]int{js_lexer.TStringLiteral: 1, js_lexer.TNoSubstitutionTemplateLiteral: 2, js_lexer.TTemplateHead: 3}
	var items []string
	for i := 0; i < n; i++ {
		if i%2 == 0 {
			in := []byte{"'\"`"[r.Intn(3)]}
			for k := r.Intn(7); k > 0; k-- {
				in = append(in, jsStrPieces[r.Intn(len(jsStrPieces))]...)
			}
			var tok js_lexer.T
			var end, textLen int
			status, msg := guardLexer(func() { tok, end, _, _, textLen = js_lexer.VerifFirstToken(string(in)) })
			items = append(items, fmt.Sprintf("(0,%s,%d,%d,%d,%d)", CBytes(in), status, strKind[tok], end, textLen))
			st.Note("js-string", string(in), status == 0)
			if status == 1 {
				st.Fail("panic in the js_lexer string/template scan", fmt.Sprintf("%q", in), msg, "a token or a syntax error")
			}
		} else {
			in := []byte("/")
			in = append(in, []string{"a", "[", "\\", "(", ".", "é", " ", "]"}[r.Intn(8)]...) // not '/', '*', '=': those are other tokens
			for k := r.Intn(7); k > 0; k-- {
				in = append(in, jsRePieces[r.Intn(len(jsRePieces))]...)
			}
			if r.Chance(70) {
				in = append(in, '/')
				in = append(in, jsReFlags[r.Intn(len(jsReFlags))]...)
			}
			var end, cur int
			var cp rune
			status, msg := guardLexer(func() { _, end, cur, cp = js_lexer.VerifScanRegExp(string(in)) })
			items = append(items, fmt.Sprintf("(1,%s,%d,%d,%d,%s)", CBytes(in), status, end, cur, CZ(int64(cp))))
			st.Note("js-regexp", string(in), status == 0)
			if status == 1 {
				st.Fail("panic in js_lexer.ScanRegExp", fmt.Sprintf("%q", in), msg, "a token or a syntax error")
			}
		}
	}
	cf.AddCases("jslex_cases", "Z * bytes * Z * Z * Z * Z", "check_jslex", items)
}
