package main

import (
	"fmt"

	"github.com/evanw/esbuild/internal/js_lexer"
	"github.com/evanw/esbuild/internal/logger"
	. "github.com/evanw/esbuild/verifharness/hlib"
)

// guardLexer: 0 returned, 1 Go panic, 3 the typed LexerPanic (an ordinary syntax error)
func guardLexer(f func()) (status int, msg string) {
	defer func() {
		if r := recover(); r != nil {
			if js_lexer.VerifIsLexerPanic(r) {
				status = 3
			} else {
				status, msg = 1, fmt.Sprint(r)
			}
		}
	}()
	f()
	return 0, ""
}

var jsStrPieces = []string{"\\", "\\\r\n", "\\\r", "\\\n", "\r", "\n", "\r\n", "$", "${", "$$", "{", "}", "'", "\"", "`", "a", "b", " ", "\\'", "\\\"", "\\`", "\\u0041", "\\x4", "\\u{", "é", "\xC3", "\xF0\x9F\x98\x80", "\xed\xa0\x80", "\x00", " ", "\\ ", "\\$", "$\\{", "/*", "//"}
var jsRePieces = []string{"/", "[", "]", "\\", "\\/", "\\]", "\\[", "[/]", "[\\]]", "[^", "a", "b", "(", ")", "*", "+", "?", ".", "{1,}", "|", "^", "$", "\r", "\n", " ", " ", "é", "\xC3", "\xF0\x9F\x98\x80", " ", "\\\n", "\\\\", "\\é"}
var jsReFlags = []string{"", "g", "gi", "gimsuyd", "v", "gg", "igi", "x", "g1", "gé", "g‌", "gA", "d ", "y y", "u\xC3", "gmg", "_", "$"}

func runJSLex(r *Rng, n int, st *Stats, cf *CoqFile) {
	strKind := map[js_lexer.T]int{js_lexer.TStringLiteral: 1, js_lexer.TNoSubstitutionTemplateLiteral: 2, js_lexer.TTemplateHead: 3}
	var items []string
	for i := 0; i < n; i++ {
		if i%5 == 4 {
			in := []byte("}")
			for k := r.Intn(7); k > 0; k-- {
				in = append(in, jsStrPieces[r.Intn(len(jsStrPieces))]...)
			}
			var tok js_lexer.T
			var end, textLen int
			status, msg := guardLexer(func() { tok, end, textLen = js_lexer.VerifRescanTemplate(string(in)) })
			items = append(items, fmt.Sprintf("(2,%s,%d,%d,%d,%d)", CBytes(in), status, map[js_lexer.T]int{js_lexer.TTemplateTail: 4, js_lexer.TTemplateMiddle: 5}[tok], end, textLen))
			st.Note("js-template-rescan", string(in), status == 0)
			if status == 1 {
				st.Fail("panic in js_lexer.RescanCloseBraceAsTemplateToken", fmt.Sprintf("%q", in), msg, "a token or a syntax error")
			}
		} else if i%2 == 0 {
			in := []byte{"'\"`"[r.Intn(3)]}
			for k := r.Intn(7); k > 0; k-- {
				in = append(in, jsStrPieces[r.Intn(len(jsStrPieces))]...)
			}
			var tok js_lexer.T
			var end, textLen int
			status, msg := guardLexer(func() { tok, end, _, _, textLen = js_lexer.VerifFirstToken(string(in)) })
			items = append(items, fmt.Sprintf("(0,%s,%d,%d,%d,%d)", CBytes(in), status, strKind[tok], end, textLen))
			st.Note("js-string", string(in), status == 0)
			if status == 1 {
				st.Fail("panic in the js_lexer string/template scan", fmt.Sprintf("%q", in), msg, "a token or a syntax error")
			}
		} else {
			in := []byte("/")
			in = append(in, []string{"a", "[", "\\", "(", ".", "é", " ", "]"}[r.Intn(8)]...) // not '/', '*', '=': those are other tokens
			for k := r.Intn(7); k > 0; k-- {
				in = append(in, jsRePieces[r.Intn(len(jsRePieces))]...)
			}
			if r.Chance(70) {
				in = append(in, '/')
				in = append(in, jsReFlags[r.Intn(len(jsReFlags))]...)
			}
			var end, cur int
			var cp rune
			status, msg := guardLexer(func() { _, end, cur, cp = js_lexer.VerifScanRegExp(string(in)) })
			items = append(items, fmt.Sprintf("(1,%s,%d,%d,%d,%s)", CBytes(in), status, end, cur, CZ(int64(cp))))
			st.Note("js-regexp", string(in), status == 0)
			if status == 1 {
				st.Fail("panic in js_lexer.ScanRegExp", fmt.Sprintf("%q", in), msg, "a token or a syntax error")
			}
		}
	}
	cf.AddCases("jslex_cases", "Z * bytes * Z * Z * Z * Z", "check_jslex", items)
}

var jsIdPieces = []string{"a", "Z", "_", "$", "0", "9", "#", "\\", "\\u0041", "\\u{41}", "\\u{", "\\u{41", "\\u", "u{", "}", "{", " ", "=", ".", "é", "‌", "‍", " ", "\xF0\x9F\x98\x80", "\xC3", "'", "\"", "`", "\\'", "${", "$", "a'", "\\\\"}

func runJSRoi(r *Rng, n int, st *Stats, cf *CoqFile) {
	var items []string
	for i := 0; i < n; i++ {
		var in []byte
		for k := r.Intn(7); k > 0; k-- {
			in = append(in, jsIdPieces[r.Intn(len(jsIdPieces))]...)
		}
		var l int32
		status, msg := guard(func() {
			l = js_lexer.RangeOfIdentifier(logger.Source{Contents: string(in)}, logger.Loc{Start: 0}).Len
		})
		items = append(items, fmt.Sprintf("(%s,%d,%d)", CBytes(in), status, l))
		st.Note("js-roi", string(in), l > 0)
		if status != 0 {
			st.Fail("panic in js_lexer.RangeOfIdentifier", fmt.Sprintf("%q", in), msg, "a range")
		}
	}
	cf.AddCases("jsroi_cases", "bytes * Z * Z", "check_jsroi", items)
}

var pragmaPieces = []string{" ", "\t", "\n", "\v", "\f", " ", " ", "\uFEFF", " ", "a", "h.x", "=", "data:x", "é", "\xC3", "\xF0\x9F\x98\x80", "*/", "\r", " ", " "}

func runPragma(r *Rng, n int, st *Stats, cf *CoqFile) {
	var items []string
	for i := 0; i < n; i++ {
		pragma := []string{"@jsx", "# sourceMappingURL=", "", "@jsxImportSource", "x"}[r.Intn(5)]
		in := []byte(pragma)
		for k := r.Intn(6); k > 0; k-- {
			in = append(in, pragmaPieces[r.Intn(len(pragmaPieces))]...)
		}
		kind := uint8(r.Intn(2))
		start := r.Intn(50)
		var text string
		var s0, ln int32
		var ok bool
		status, msg := guard(func() { text, s0, ln, ok = js_lexer.VerifScanForPragmaArg(kind, start, pragma, string(in)) })
		items = append(items, fmt.Sprintf("(%s,%d,%d,%s,%d,%s,%s,%d,%d)", CBool(kind == 1), start, len(pragma), CBytes(in), status, CBool(ok), CBytes([]byte(text)), s0, ln))
		st.Note("js-pragma", string(in), ok)
		if status != 0 {
			st.Fail("panic in js_lexer.scanForPragmaArg", fmt.Sprintf("%q", in), msg, "a span")
		}
	}
	cf.AddCases("pragma_cases", "bool * Z * Z * bytes * Z * bool * bytes * Z * Z", "check_pragma", items)
}
