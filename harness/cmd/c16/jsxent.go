package main

import (
	"fmt"

	"github.com/evanw/esbuild/internal/js_lexer"
	. "github.com/evanw/esbuild/verifharness/hlib"
)

var modelEntities = map[string]rune{"amp": 38, "lt": 60, "gt": 62, "quot": 34, "nbsp": 160, "copy": 169}

// pieces of JSX text around the entity guards
var jsxPieces = []string{"&", ";", "&;", "&#;", "&#x;", "&#xZ;", "&#99999999999;", "&#2147483647;", "&#2147483648;", "&#-1;", "&#-2147483648;", "&#+65;", "&#x110000;", "&#xD800;", "&#x1F600;", "&#0;", "&#65;", "&#x41;", "&#X41;", "&#x;", "&#xx41;", "&#1_0;", "&# 65;",
	"&amp;", "&amp", "&lt;", "&gt;", "&quot;", "&nbsp;", "&copy;", "&zz;", "&a b;", "&&;", "&AMP;", "&amp;;", "a", " ", "\n", "\xC3\xA9", "\xC3", "\xF0\x9F\x98\x80", "#", "x", "1", "<", "{"}

func runJSXEntities(r *Rng, n int, st *Stats, cf *CoqFile) {
	var items []string
	// the six table entries the model knows must agree with the real table
	for name, v := range modelEntities {
		if got, ok := js_lexer.VerifJSXEntity(name); !ok || got != v {
			items = append(items, "([],9,[])") // can never match: the tie to the table is lost
		}
	}
	for i := 0; i < n; i++ {
		var in []byte
		if i < len(jsxPieces) {
			in = []byte(jsxPieces[i])
		} else {
			for k := 1 + r.Intn(5); k > 0; k-- {
				in = append(in, jsxPieces[r.Intn(len(jsxPieces))]...)
			}
		}
		// skip texts containing a real entity name the small model table does not have
		skip := false
		for a := 0; a < len(in); a++ {
			if in[a] != '&' {
				continue
			}
			for b := a + 1; b < len(in); b++ {
				if in[b] == ';' {
					name := string(in[a+1 : b])
					if _, ok := js_lexer.VerifJSXEntity(name); ok {
						if _, known := modelEntities[name]; !known {
							skip = true
						}
					}
					break
				}
			}
		}
		if skip {
			st.Histogram["jsxent-skipped-unknown-entity"]++
			continue
		}
		var out []uint16
		status, msg := guard(func() { out = js_lexer.VerifDecodeJSXEntities(string(in)) })
		items = append(items, fmt.Sprintf("(%s,%d,%s)", CBytes(in), status, CU16(out)))
		st.Note("jsxent", string(in), len(out) != len(in))
		if status != 0 {
			st.Fail("panic in js_lexer.decodeJSXEntities", fmt.Sprintf("%q", in), msg, "decoded UTF-16 units")
		}
	}
	cf.AddCases("jsxent_cases", "bytes * Z * list Z", "check_jsxent", items)
}
