package main

import (
	"fmt"

	"github.com/evanw/esbuild/internal/resolver"
	. "github.com/evanw/esbuild/verifharness/hlib"
)

var globPieces = []string{"*", "**", "***", "**/", "/**", "/", "?", ".", "\\", "^", "$", "+", "|", "(", ")", "[", "]", "{", "}", ",", "-", "a", "b.js", "src", "*.css", "{a,b}", "{a,{b,c}}", "é", "\xed\xa0\x80", "\xC3", "\x00", " ", "**/**", "a**b", "/*/", "!", "#"}

func runGlobstar(r *Rng, n int, st *Stats, cf *CoqFile) {
	var items []string
	for i := 0; i < n; i++ {
		var g []byte
		if i < len(globPieces) {
			g = []byte(globPieces[i])
		} else {
			for k := 1 + r.Intn(6); k > 0; k-- {
				g = append(g, globPieces[r.Intn(len(globPieces))]...)
			}
		}
		var pat string
		var had bool
		status, msg := guard(func() { pat, had = resolver.VerifGlobstarToEscapedRegexp(string(g)) })
		items = append(items, fmt.Sprintf("(%s,%d,%s,%s)", CBytes(g), status, CBytes([]byte(pat)), CBool(had)))
		st.Note("globstar", string(g), had)
		if status != 0 {
			st.Fail("panic in resolver.globstarToEscapedRegexp", fmt.Sprintf("%q", g), msg, "a pattern")
		}
	}
	cf.AddCases("globstar_cases", "bytes * Z * bytes * bool", "check_globstar", items)
}
