package main

// Worker pool: every case that may hang or crash the process is executed in a
// child process (this same binary with C16_WORKER=1) so that a hang can be
// killed and an unrecoverable runtime failure (stack overflow, out of memory,
// concurrent map write) is observed instead of taking the harness down.

import (
	"bufio"
	"bytes"
	"encoding/gob"
	"encoding/json"
	"fmt"
	"io"
	"os"
	"os/exec"
	"runtime"
	"strings"
	"sync"
	"time"
)

type Opts struct {
	Loader      string `json:"loader,omitempty"`
	MinifyWS    bool   `json:"minify_ws,omitempty"`
	MinifyIDs   bool   `json:"minify_ids,omitempty"`
	MinifySyn   bool   `json:"minify_syntax,omitempty"`
	Target      string `json:"target,omitempty"`
	Engine      string `json:"engine,omitempty"`
	Format      string `json:"format,omitempty"`
	SourceMap   string `json:"sourcemap,omitempty"`
	Platform    string `json:"platform,omitempty"`
	JSX         string `json:"jsx,omitempty"`
	TsconfigRaw string `json:"tsconfig_raw,omitempty"`
	GlobalName  string `json:"global_name,omitempty"`
	KeepNames   bool   `json:"keep_names,omitempty"`
	MangleProps string `json:"mangle_props,omitempty"`
	Charset     string `json:"charset,omitempty"`
	TreeShaking bool   `json:"tree_shaking,omitempty"`
	Metafile    bool   `json:"metafile,omitempty"`
	Splitting   bool   `json:"splitting,omitempty"`
	LegalCmts   string `json:"legal_comments,omitempty"`
	Sourcefile  string `json:"sourcefile,omitempty"`
	Define      bool   `json:"define,omitempty"`
	Drop        bool   `json:"drop,omitempty"`
	LineLimit   int    `json:"line_limit,omitempty"`
	// compiled / validated option values (config-field stream); []byte-safe: Go strings may hold invalid UTF-8,
	// so they travel base64-encoded inside B64 maps/lists
	DefineKV          map[string]string `json:"-"`
	Pure              []string          `json:"-"`
	ReserveProps      string            `json:"-"`
	Alias             map[string]string `json:"-"`
	External          []string          `json:"-"`
	LoaderMap         map[string]string `json:"-"`
	OutExtension      map[string]string `json:"-"`
	Banner            map[string]string `json:"-"`
	Footer            map[string]string `json:"-"`
	EntryNames        string            `json:"-"`
	ChunkNames        string            `json:"-"`
	AssetNames        string            `json:"-"`
	JSXFactory        string            `json:"-"`
	JSXFragment       string            `json:"-"`
	JSXImportSource   string            `json:"-"`
	Conditions        []string          `json:"-"`
	MainFields        []string          `json:"-"`
	ResolveExtensions []string          `json:"-"`
	DropLabels        []string          `json:"-"`
	Inject            []string          `json:"-"`
	PublicPath        string            `json:"-"`
	SourceRoot        string            `json:"-"`
	Supported         map[string]bool   `json:"-"`
	LogOverride       map[string]string `json:"-"`
	MangleCacheJSON   string            `json:"-"`
	GlobEntries       bool              `json:"glob_entries,omitempty"`
	Ext               []byte            `json:"ext,omitempty"` // gob encoding of the fields above
}

type optsExt struct {
	DefineKV, Alias, LoaderMap, OutExtension, Banner, Footer, LogOverride                                                                                                                 map[string]string
	Pure, External, Conditions, MainFields, ResolveExtensions, DropLabels, Inject                                                                                                         []string
	ReserveProps, EntryNames, ChunkNames, AssetNames, JSXFactory, JSXFragment, JSXImportSource, PublicPath, SourceRoot, MangleCacheJSON, MangleProps, GlobalName, Sourcefile, TsconfigRaw string
	Supported                                                                                                                                                                             map[string]bool
}

// packExt / unpackExt carry arbitrary byte strings (invalid UTF-8 included) across the JSON pipe
func (o *Opts) packExt() {
	e := optsExt{o.DefineKV, o.Alias, o.LoaderMap, o.OutExtension, o.Banner, o.Footer, o.LogOverride,
		o.Pure, o.External, o.Conditions, o.MainFields, o.ResolveExtensions, o.DropLabels, o.Inject,
		o.ReserveProps, o.EntryNames, o.ChunkNames, o.AssetNames, o.JSXFactory, o.JSXFragment, o.JSXImportSource, o.PublicPath, o.SourceRoot, o.MangleCacheJSON, o.MangleProps, o.GlobalName, o.Sourcefile, o.TsconfigRaw,
		o.Supported}
	var buf bytes.Buffer
	gob.NewEncoder(&buf).Encode(e)
	o.Ext = buf.Bytes()
}

func (o *Opts) unpackExt() {
	if len(o.Ext) == 0 {
		return
	}
	var e optsExt
	if gob.NewDecoder(bytes.NewReader(o.Ext)).Decode(&e) != nil {
		return
	}
	o.DefineKV, o.Alias, o.LoaderMap, o.OutExtension, o.Banner, o.Footer, o.LogOverride = e.DefineKV, e.Alias, e.LoaderMap, e.OutExtension, e.Banner, e.Footer, e.LogOverride
	o.Pure, o.External, o.Conditions, o.MainFields, o.ResolveExtensions, o.DropLabels, o.Inject = e.Pure, e.External, e.Conditions, e.MainFields, e.ResolveExtensions, e.DropLabels, e.Inject
	o.ReserveProps, o.EntryNames, o.ChunkNames, o.AssetNames, o.JSXFactory, o.JSXFragment, o.JSXImportSource, o.PublicPath, o.SourceRoot, o.MangleCacheJSON = e.ReserveProps, e.EntryNames, e.ChunkNames, e.AssetNames, e.JSXFactory, e.JSXFragment, e.JSXImportSource, e.PublicPath, e.SourceRoot, e.MangleCacheJSON
	o.MangleProps, o.GlobalName, o.Sourcefile, o.TsconfigRaw = e.MangleProps, e.GlobalName, e.Sourcefile, e.TsconfigRaw
	o.Supported = e.Supported
}

type Case struct {
	ID    int               `json:"id"`
	Kind  string            `json:"kind"` // transform | build | quote | srcmap | final
	Input []byte            `json:"input,omitempty"`
	Files map[string][]byte `json:"files,omitempty"` // build: relative path -> contents
	Entry []string          `json:"entry,omitempty"`
	Opts  Opts              `json:"opts"`
	Ascii bool              `json:"ascii,omitempty"` // quote
	Quote byte              `json:"quote,omitempty"` // quote
	Desc  string            `json:"desc,omitempty"`  // provenance (corpus item + mutations)
}

type Outcome struct {
	ID        int      `json:"id"`
	Status    string   `json:"status"` // ok | panic | timeout | died
	Flagged   []string `json:"flagged,omitempty"`
	Panic     string   `json:"panic,omitempty"`
	NErrors   int      `json:"n_errors"`
	NWarn     int      `json:"n_warnings"`
	OutLen    int      `json:"out_len"`
	Out       []byte   `json:"out,omitempty"`
	FirstErr  string   `json:"first_error,omitempty"`
	Millis    int64    `json:"ms"`
	CPUMillis int64    `json:"cpu_ms,omitempty"`
	Stderr    string   `json:"stderr,omitempty"`
}

type worker struct {
	cmd    *exec.Cmd
	in     io.WriteCloser
	out    *bufio.Reader
	stderr *tailBuf
}

type tailBuf struct {
	mu  sync.Mutex
	buf []byte
}

func (t *tailBuf) Write(p []byte) (int, error) {
	t.mu.Lock()
	t.buf = append(t.buf, p...)
	if len(t.buf) > 6000 {
		t.buf = append([]byte{}, t.buf[:3000]...) // keep the head: the first panic lines matter
	}
	t.mu.Unlock()
	return len(p), nil
}
func (t *tailBuf) String() string { t.mu.Lock(); defer t.mu.Unlock(); return string(t.buf) }

func startWorker() (*worker, error) {
	exe, err := os.Executable()
	if err != nil {
		return nil, err
	}
	cmd := exec.Command(exe)
	cmd.Env = append(os.Environ(), "C16_WORKER=1", "GOMAXPROCS=2", "GOMEMLIMIT=1500MiB")
	in, _ := cmd.StdinPipe()
	out, _ := cmd.StdoutPipe()
	tb := &tailBuf{}
	cmd.Stderr = tb
	if err := cmd.Start(); err != nil {
		return nil, err
	}
	w := &worker{cmd, in, bufio.NewReaderSize(out, 1<<20), tb}
	// handshake: process start-up (slow on a loaded machine) must not count against a case's limit
	ready := make(chan error, 1)
	go func() {
		line, err := w.out.ReadString('\n')
		if err == nil && strings.TrimSpace(line) != "READY" {
			err = fmt.Errorf("unexpected worker greeting %q", line)
		}
		ready <- err
	}()
	select {
	case err := <-ready:
		if err != nil {
			w.kill()
			return nil, err
		}
	case <-time.After(120 * time.Second):
		w.kill()
		return nil, fmt.Errorf("worker did not start within 120 s")
	}
	return w, nil
}

func (w *worker) kill() {
	if w == nil {
		return
	}
	w.in.Close()
	w.cmd.Process.Kill()
	w.cmd.Wait()
}

// procCPU: user+system CPU time consumed so far by process pid (Linux /proc, clock ticks of 10 ms).
func procCPU(pid int) (time.Duration, bool) {
	data, err := os.ReadFile(fmt.Sprintf("/proc/%d/stat", pid))
	if err != nil {
		return 0, false
	}
	s := string(data)
	k := strings.LastIndexByte(s, ')') // the command name may contain spaces
	if k < 0 {
		return 0, false
	}
	f := strings.Fields(s[k+1:])
	if len(f) < 13 {
		return 0, false
	}
	var ut, stt int64
	fmt.Sscan(f[11], &ut)
	fmt.Sscan(f[12], &stt)
	return time.Duration(ut+stt) * 10 * time.Millisecond, true
}

// runOne sends one case and waits for its outcome.  The hang oracle is the
// CHILD'S CPU TIME, not the wall clock (on a loaded machine a 20 ms build can
// take many seconds of wall time):
//   - "timeout" (busy): the child consumed at least `limit` of CPU on this case;
//   - "blocked": no result after 8 x limit of wall time while the child consumed
//     less than a second of CPU (a deadlock, not load: a runnable process gets CPU);
//   - "starved": no result after maxWall although the child neither burned `limit`
//     of CPU nor was idle - inconclusive, never reported as a failure.
func (w *worker) runOne(c *Case, limit time.Duration, maxWall time.Duration) (Outcome, bool) {
	c.Opts.packExt()
	data, _ := json.Marshal(c)
	data = append(data, '\n')
	type rd struct {
		line []byte
		err  error
	}
	ch := make(chan rd, 1)
	t0 := time.Now()
	cpu0, haveCPU := procCPU(w.cmd.Process.Pid)
	if _, err := w.in.Write(data); err != nil {
		return Outcome{ID: c.ID, Status: "died", Stderr: w.stderr.String()}, false
	}
	go func() {
		line, err := w.out.ReadBytes('\n')
		ch <- rd{line, err}
	}()
	tick := time.NewTicker(100 * time.Millisecond)
	defer tick.Stop()
	for {
		select {
		case r := <-ch:
			if r.err != nil {
				time.Sleep(50 * time.Millisecond)
				return Outcome{ID: c.ID, Status: "died", Stderr: w.stderr.String(), Millis: time.Since(t0).Milliseconds()}, false
			}
			var o Outcome
			if err := json.Unmarshal(r.line, &o); err != nil {
				return Outcome{ID: c.ID, Status: "died", Stderr: "bad worker line: " + string(r.line) + w.stderr.String()}, false
			}
			return o, true
		case <-tick.C:
			wall := time.Since(t0)
			used := wall // without /proc fall back to the wall clock
			if haveCPU {
				if cpu, ok := procCPU(w.cmd.Process.Pid); ok {
					used = cpu - cpu0
				}
			}
			switch {
			case used >= limit:
				return Outcome{ID: c.ID, Status: "timeout", Millis: wall.Milliseconds(), CPUMillis: used.Milliseconds()}, false
			case wall >= 8*limit && used < time.Second:
				return Outcome{ID: c.ID, Status: "blocked", Millis: wall.Milliseconds(), CPUMillis: used.Milliseconds()}, false
			case wall >= maxWall:
				return Outcome{ID: c.ID, Status: "starved", Millis: wall.Milliseconds(), CPUMillis: used.Milliseconds()}, false
			}
		}
	}
}

// RunPool executes all cases on nWorkers child processes. A case that exceeds
// the CPU limit, blocks, starves or kills its worker is re-run once, alone on a
// fresh worker, before its outcome is final; EVERY such case is re-run.
func RunPool(cases []*Case, nWorkers int, limit time.Duration) []Outcome {
	outs := make([]Outcome, len(cases))
	var next int
	var mu sync.Mutex
	var wg sync.WaitGroup
	var retry []int
	for k := 0; k < nWorkers; k++ {
		wg.Add(1)
		go func() {
			defer wg.Done()
			var w *worker
			defer func() { w.kill() }()
			for {
				mu.Lock()
				i := next
				next++
				mu.Unlock()
				if i >= len(cases) {
					return
				}
				mu.Lock()
				tooMany := len(retry) >= maxBad
				mu.Unlock()
				if tooMany {
					// enough failing inputs: do not burn minutes of wall-clock limits
					outs[i] = Outcome{ID: cases[i].ID, Status: "skipped"}
					continue
				}
				if w == nil {
					var err error
					if w, err = startWorker(); err != nil {
						outs[i] = Outcome{ID: cases[i].ID, Status: "died", Stderr: "cannot start worker: " + err.Error()}
						continue
					}
				}
				o, alive := w.runOne(cases[i], limit, 12*limit)
				outs[i] = o
				if !alive {
					w.kill()
					w = nil
					mu.Lock()
					retry = append(retry, i)
					mu.Unlock()
				}
			}
		}()
	}
	wg.Wait()
	for _, i := range retry {
		w, err := startWorker()
		if err != nil {
			outs[i] = Outcome{ID: cases[i].ID, Status: "starved", Stderr: "retry worker did not start: " + err.Error()}
			continue
		}
		first := outs[i].Status
		o, _ := w.runOne(cases[i], limit, 30*limit)
		w.kill()
		if o.Status == "ok" && len(o.Flagged) == 0 {
			o.Stderr = "first attempt: " + first
		}
		outs[i] = o
	}
	return outs
}

const maxBad = 5

func poolSize() int {
	n := runtime.NumCPU() / 2
	if n > 8 {
		n = 8
	}
	if n < 2 {
		n = 2
	}
	return n
}

// ---- worker side ----

func workerMain() {
	rd := bufio.NewReaderSize(os.Stdin, 1<<20)
	wr := bufio.NewWriter(os.Stdout)
	wr.WriteString("READY\n")
	wr.Flush()
	// memory watchdog: a run-away allocation is reported as a death with a reason
	go func() {
		var ms runtime.MemStats
		for {
			time.Sleep(200 * time.Millisecond)
			runtime.ReadMemStats(&ms)
			if ms.HeapAlloc > 3<<30 {
				fmt.Fprintln(os.Stderr, "C16-WORKER: heap exceeded 3 GiB (run-away allocation)")
				os.Exit(3)
			}
		}
	}()
	for {
		line, err := rd.ReadBytes('\n')
		if err != nil {
			return
		}
		var c Case
		if err := json.Unmarshal(line, &c); err != nil {
			fmt.Fprintln(os.Stderr, "C16-WORKER: bad case:", err)
			os.Exit(4)
		}
		c.Opts.unpackExt()
		o := execCase(&c)
		data, _ := json.Marshal(o)
		wr.Write(data)
		wr.WriteByte('\n')
		wr.Flush()
	}
}

var badTexts = []string{"panic:", "Internal error", "internal error", "runtime error", "goroutine ", "nil pointer", "index out of range", "slice bounds out of range"}

func flagText(t string) bool {
	for _, b := range badTexts {
		if strings.Contains(t, b) {
			return true
		}
	}
	return false
}
