package main

// C19: the metafile is an exact account of the build.
//  * correspondence: per-input byte attribution (accurateFinalByteCount over the
//    slices of a chunk) and generateMetadataJSON's output listing
//  * glue: BuildResult.Metafile compared exactly with OutputFiles, with the
//    imports/exports parsed from the emitted code and with the input tree

import (
	"fmt"
	"os"
	"regexp"
	"strconv"
	"strings"

	"github.com/evanw/esbuild/internal/bundler"
	"github.com/evanw/esbuild/internal/config"
	"github.com/evanw/esbuild/internal/fs"
	"github.com/evanw/esbuild/internal/graph"
	"github.com/evanw/esbuild/internal/linker"
	. "github.com/evanw/esbuild/verifharness/hlib"
)

func main() { Main("c19", runC19) }

var mockFS = fs.MockFS(map[string]string{}, fs.MockUnix, "/")

func runC19(seed uint64, n int, tier string, outDir string) []*Stats {
	r := NewRng(seed)
	cf := NewCoqFile("From V Require Import Common.Base C18.Pieces C18.Harness C19.Metafile C19.Json C19.Layout C19.Doc C19.Scan C19.Harness.")
	st := NewStats("c19", seed)

	docLimit = 8
	if tier != "quick" {
		docLimit = 120
	}
	corpusKnown(st)
	corpusInject(st)
	corpusNames(st)
	targetedMetafile(st)
	oddNameBuilds(st)
	dualPackageBuilds(r, 10+n/25, cf, st)
	metaCases(r, n/2, cf, st)
	outsCases(r, n/2, cf, st)
	quoteCases(r, n/2, cf, st)
	genCases(r, n/4, cf, st)
	glueMetafile(r, n, st)
	flushDocs(cf)

	st.Finish("distinct case key AND (a key is substituted in an attributed slice / a path is listed twice / a build with >1 output or >1 input)")
	if err := os.WriteFile(outDir+"/c19_cases.v", []byte(cf.String()), 0o644); err != nil {
		panic(err)
	}
	return []*Stats{st}
}

func piecesOf(v *linker.VerifLinker, b []byte) []linker.VerifPiece {
	_, ps := v.BreakOutputIntoPieces(b)
	return ps
}

func metaCases(r *Rng, n int, cf *CoqFile, st *Stats) {
	relNames := []string{"a.js", "chunks/x-ABCDEFGH.js", "../up/y.js", "deep/er/z-12345678.js", "s.css", "chunks/q\"x\ty\\z-ABCD1234.js"}
	assetNames := []string{"/out/img-AAAA1111.png", "/out/assets/b-BBBB2222.png", "/elsewhere/c.bin", "/out/assets/i\"m\x01g-CCCC3333.png"}
	var items []string
	for i := 0; i < n; i++ {
		prefix := "Pq" + string("ABCDEFGHIJKLMNOPQRSTUVWXYZabcdef"[r.Intn(32)]) + "x"
		if r.Chance(50) {
			prefix = "PREFIXPREFIX" + fmt.Sprintf("%04d", r.Intn(10000))
		}
		nf, nc := r.Range(1, 3), r.Range(1, 4)
		files := make([]linker.VerifFile, nf)
		for k := range files {
			files[k].AdditionalAbsPath = assetNames[r.Intn(len(assetNames))]
		}
		chunks := make([]linker.VerifChunk, nc)
		for k := range chunks {
			chunks[k].FinalRelPath = relNames[r.Intn(len(relNames))]
		}
		public := []string{"", "", "https://cdn.example.com/a/long/base/", "/s"}[r.Intn(4)]
		v := linker.VerifNewLinker(mockFS, "/out", public, prefix, files, chunks)
		dir := []string{".", "chunks", "deep/er"}[r.Intn(3)]
		// segments
		nseg := r.Range(1, 7)
		type seg struct {
			owner int
			data  []byte
		}
		var segs []seg
		var whole []byte
		keys := 0
		for s := 0; s < nseg; s++ {
			owner := -1
			if r.Chance(65) {
				owner = r.Intn(4)
			}
			var sb strings.Builder
			for q := r.Intn(4); q > 0; q-- {
				sb.WriteString([]string{"var a = 1;\n", "x", "", "import(\"", "\");\n", "/* c */"}[r.Intn(6)])
				if r.Chance(45) {
					if r.Bool() {
						fmt.Fprintf(&sb, "%sA%08d", prefix, r.Intn(nf))
					} else {
						fmt.Fprintf(&sb, "%sC%08d", prefix, r.Intn(nc))
					}
					keys++
				}
			}
			if r.Chance(10) {
				sb.Reset()
			}
			segs = append(segs, seg{owner, []byte(sb.String())})
			whole = append(whole, sb.String()...)
		}
		trailer := []byte([]string{"", "", "//# sourceMappingURL=a.js.map\n"}[r.Intn(3)])
		// the callback's computation on the real code
		var order []int
		counts := map[int]int{}
		for _, s := range segs {
			if s.owner < 0 {
				continue
			}
			if _, ok := counts[s.owner]; !ok {
				order = append(order, s.owner)
			}
			sp := piecesOf(v, s.data)
			cnt := v.AccurateFinalByteCount(true, sp, nil, dir)
			counts[s.owner] += cnt
			// the property's predicate on one slice: the count is the length of what substitution produces
			if sub, _ := v.SubstituteFinalPaths(true, sp, nil, dir); cnt != len(sub) {
				st.Fail("byte-count-differs-from-substituted-length", map[string]interface{}{"scenario": "accurateFinalByteCount-slice", "slice": string(s.data), "dir": dir, "publicPath": public, "assets": fmt.Sprint(files), "chunks": fmt.Sprint(chunks)}, cnt, len(sub))
			}
		}
		has, ps := v.BreakJoinerIntoPieces(whole)
		final, _ := v.SubstituteFinalPaths(has, ps, whole, dir)
		total := len(final) + len(trailer)
		// path table
		var tab []string
		for k := 0; k < nf; k++ {
			rel, _ := mockFS.Rel("/out", files[k].AdditionalAbsPath)
			tab = append(tab, fmt.Sprintf("(1,%d,%s)", k, CBytes([]byte(v.PathBetweenChunks(dir, rel)))))
		}
		for k := 0; k < nc; k++ {
			tab = append(tab, fmt.Sprintf("(2,%d,%s)", k, CBytes([]byte(v.PathBetweenChunks(dir, chunks[k].FinalRelPath)))))
		}
		var segItems, cntItems []string
		sum := 0
		for _, s := range segs {
			segItems = append(segItems, fmt.Sprintf("(%s,%s)", CZi(s.owner), CBytes(s.data)))
		}
		for _, o := range order {
			cntItems = append(cntItems, fmt.Sprintf("(%d,%d)", o, counts[o]))
			sum += counts[o]
		}
		items = append(items, fmt.Sprintf("(%s,%d,%d,[%s],[%s],%s,[%s],%d)", CBytes([]byte(prefix)), nf, nc, strings.Join(tab, ";"), strings.Join(segItems, ";"), CBytes(trailer), strings.Join(cntItems, ";"), total))
		st.Note("attribution", string(whole)+dir+public, keys > 0)
		if sum > total {
			st.Fail("attributed-bytes-exceed-file-size", map[string]interface{}{"scenario": "accurateFinalByteCount-sum", "segments": fmt.Sprint(segs), "dir": dir, "publicPath": public}, sum, total)
		}
		if i < 2 {
			st.Sample(map[string]interface{}{"segments": len(segs), "keys": keys, "sum": sum, "total": total})
		}
	}
	cf.AddCases("meta_cases", "bytes * Z * Z * list (Z * Z * bytes) * list (Z * bytes) * bytes * list (Z * Z) * Z", "check_meta", items)
}

var reOutLine = regexp.MustCompile(`^    ("(?:[^"\\]|\\.)*"): (.*?),?$`)

func outsCases(r *Rng, n int, cf *CoqFile, st *Stats) {
	var items []string
	for i := 0; i < n; i++ {
		k := r.Range(0, 7)
		var results []graph.OutputFile
		var rs []string
		dups := false
		seen := map[string]bool{}
		for j := 0; j < k; j++ {
			p := []string{"/out/a.js", "/out/b.js", "/out/img-X.png", "/out/a.js.map", "/other/c.css", "/out/sub/a.js"}[r.Intn(6)]
			chunk := fmt.Sprintf("{\"id\":%d}", j)
			if r.Chance(20) {
				chunk = ""
			}
			if seen[p] && chunk != "" {
				dups = true
			}
			if chunk != "" {
				seen[p] = true
			}
			results = append(results, graph.OutputFile{AbsPath: p, JSONMetadataChunk: chunk})
			rs = append(rs, fmt.Sprintf("(%s,%s)", CBytes([]byte(p[1:])), CBytes([]byte(chunk))))
		}
		opts := &config.Options{}
		text := bundler.VerifGenerateMetadataJSON(mockFS, results, opts)
		var listed []string
		inOutputs := false
		keys := map[string]int{}
		for _, line := range strings.Split(text, "\n") {
			if strings.HasPrefix(line, "  \"outputs\": {") {
				inOutputs = true
				continue
			}
			if !inOutputs {
				continue
			}
			if m := reOutLine.FindStringSubmatch(line); m != nil {
				p, _ := strconv.Unquote(m[1])
				listed = append(listed, fmt.Sprintf("(%s,%s)", CBytes([]byte(p)), CBytes([]byte(m[2]))))
				keys[p]++
			}
		}
		items = append(items, fmt.Sprintf("([%s],[%s])", strings.Join(rs, ";"), strings.Join(listed, ";")))
		st.Note("outputs-listing", fmt.Sprint(results), dups)
		for p, c := range keys {
			if c > 1 {
				st.Fail("metafile-output-listed-twice", map[string]interface{}{"scenario": "generateMetadataJSON", "results": fmt.Sprint(results)}, p, "once")
			}
		}
	}
	cf.AddCases("outs_cases", "list (bytes * bytes) * list (bytes * bytes)", "check_outs", items)
}
