package main

// C19, inputs section: which file an import is said to resolve to.
//  * checkInputsClosure: for every metafile the harness looks at - each listed
//    import that is not external is a key of inputs, and inputs is exactly the
//    closure of the listed imports from the entry points
//  * dualPackageBuilds: packages with "main" and "module" reached by import
//    and/or require (processScannedFiles re-points the record to the "main"
//    file when both happen): expected targets, emitted code, and the Coq model
//    Scan.import_of on the records of every importer

import (
	"fmt"
	"path/filepath"
	"sort"
	"strings"

	. "github.com/evanw/esbuild/verifharness/hlib"
	"github.com/evanw/esbuild/pkg/api"
)

// starts: keys of inputs the build starts from (entry points, injected files)
func checkInputsClosure(fail func(what, scenario string, got, want interface{}), root *jnode, starts []string) {
	ins := root.get("inputs")
	if ins == nil {
		return
	}
	reached := map[string]bool{}
	var visit func(k string)
	visit = func(k string) {
		if reached[k] {
			return
		}
		n := ins.get(k)
		if n == nil {
			return
		}
		reached[k] = true
		if im := n.get("imports"); im != nil {
			for _, it := range im.items {
				if it.get("external") == nil {
					visit(it.get("path").str)
				}
			}
		}
	}
	for i, k := range ins.keys {
		if im := ins.vals[i].get("imports"); im != nil {
			for _, it := range im.items {
				if it.get("external") != nil {
					continue
				}
				if p := it.get("path").str; ins.get(p) == nil {
					fail("metafile-input-import-is-not-an-input", "input-imports-resolve", map[string]interface{}{"input": k, "import": p, "kind": it.get("kind").str}, "a key of inputs")
				}
			}
		}
	}
	for _, s := range starts {
		visit(s)
	}
	var unreached []string
	for _, k := range ins.keys {
		if !reached[k] {
			unreached = append(unreached, k)
		}
	}
	if len(unreached) > 0 {
		sort.Strings(unreached)
		fail("metafile-inputs-not-the-closure-of-listed-imports", "inputs-closure", unreached, "every input reachable from "+strings.Join(starts, ", ")+" through the listed imports")
	}
}

func entryPointsOf(root *jnode) []string {
	var eps []string
	if outs := root.get("outputs"); outs != nil {
		for _, v := range outs.vals {
			if ep := v.get("entryPoint"); ep != nil {
				eps = append(eps, ep.str)
			}
		}
	}
	return eps
}

type dualUse struct {
	file string // importer
	pkg  int
	req  bool // require() instead of import
}

func dualPackageBuilds(r *Rng, n int, cf *CoqFile, st *Stats) {
	var items []string
	for c := 0; c < n; c++ {
		npk := r.Range(1, 3)
		files := map[string]string{}
		for k := 0; k < npk; k++ {
			files[fmt.Sprintf("node_modules/dual%d/package.json", k)] = `{"name": "dual` + fmt.Sprint(k) + `", "main": "./main.js", "module": "./module.js"}`
			files[fmt.Sprintf("node_modules/dual%d/main.js", k)] = fmt.Sprintf("module.exports = { which: 'MARKER_MAIN_%d' }\n", k)
			files[fmt.Sprintf("node_modules/dual%d/module.js", k)] = fmt.Sprintf("export const which = 'MARKER_MODULE_%d'\n", k)
		}
		importers := []string{"entry.js", "other.js", "third.js"}[:r.Range(1, 3)]
		var uses []dualUse
		// the fixed grid first: import+require in different files, in the same file, import only, require only
		switch c {
		case 0:
			importers = []string{"entry.js", "other.js"}
			uses = []dualUse{{"entry.js", 0, false}, {"other.js", 0, true}}
		case 1:
			importers = []string{"entry.js"}
			uses = []dualUse{{"entry.js", 0, false}, {"entry.js", 0, true}}
		case 2:
			uses = []dualUse{{"entry.js", 0, false}}
		case 3:
			uses = []dualUse{{"entry.js", 0, true}}
		default:
			for _, f := range importers {
				for k := 0; k < npk; k++ {
					if r.Chance(60) {
						uses = append(uses, dualUse{f, k, false})
					}
					if r.Chance(40) {
						uses = append(uses, dualUse{f, k, true})
					}
				}
			}
		}
		body := map[string]*strings.Builder{}
		for _, f := range importers {
			body[f] = &strings.Builder{}
		}
		for i, f := range importers {
			if i+1 < len(importers) {
				fmt.Fprintf(body[f], "import './%s'\n", importers[i+1])
			}
		}
		imported, required := map[int]bool{}, map[int]bool{}
		for i, u := range uses {
			if _, ok := body[u.file]; !ok {
				continue
			}
			if u.req {
				fmt.Fprintf(body[u.file], "const q%d = require('dual%d'); console.log(q%d.which)\n", i, u.pkg, i)
				required[u.pkg] = true
			} else {
				fmt.Fprintf(body[u.file], "import * as p%d from 'dual%d'; console.log(p%d.which)\n", i, u.pkg, i)
				imported[u.pkg] = true
			}
		}
		for f, sb := range body {
			files[f] = sb.String() + fmt.Sprintf("console.log(%q)\n", f)
		}
		label := fmt.Sprintf("dual-package-%d", c)
		res, dir := namedBuild(st, label, files, []string{"entry.js"}, false, false, nil)
		if len(res.Errors) > 0 {
			st.Note("dual-build-error", label+res.Errors[0].Text, false)
			continue
		}
		in := map[string]interface{}{"scenario": "dual-package-import-and-require", "label": label, "files": files}
		fail := func(what, scenario string, got, want interface{}) { st.Fail(what, in, got, want) }
		root, _, err := parseJSON(res.Metafile)
		if err != nil {
			fail("metafile-is-not-json", "", err.Error(), "valid JSON")
			continue
		}
		checkInputsClosure(fail, root, entryPointsOf(root))
		code := ""
		for _, f := range res.OutputFiles {
			code += string(f.Contents)
		}
		ins := root.get("inputs")
		// what Node-style resolution with the hazard rule gives
		target := func(k int, req bool) string {
			if req || required[k] {
				return fmt.Sprintf("node_modules/dual%d/main.js", k)
			}
			return fmt.Sprintf("node_modules/dual%d/module.js", k)
		}
		for k := 0; k < npk; k++ {
			for _, which := range []string{"main", "module"} {
				key := fmt.Sprintf("node_modules/dual%d/%s.js", k, which)
				want := (which == "main" && required[k]) || (which == "module" && imported[k] && !required[k])
				marker := fmt.Sprintf("MARKER_%s_%d", strings.ToUpper(which), k)
				if (ins.get(key) != nil) != want {
					fail("metafile-inputs-differ-from-files-read", "", map[string]interface{}{"input": key, "listed": ins.get(key) != nil}, want)
				}
				if strings.Contains(code, marker) != want {
					fail("emitted-code-differs-from-expected-package-file", "", map[string]interface{}{"marker": marker, "present": !want}, want)
				}
			}
		}
		// the listed imports of every importer, and the Coq model on its records
		idx := map[string]int{}
		var tab []string
		for i, k := range ins.keys {
			idx[k] = i
			tab = append(tab, CBytes([]byte(k)))
		}
		// files that exist but were not read get an index past the inputs (the stale target of a re-pointed record)
		extra := func(key string) int {
			if i, ok := idx[key]; ok {
				return i
			}
			idx[key] = len(tab)
			tab = append(tab, CBytes([]byte(key)))
			return idx[key]
		}
		var visited []string
		for _, k := range ins.keys {
			visited = append(visited, fmt.Sprintf("(%s,%d)", CBytes([]byte(filepath.Join(dir, k))), idx[k]))
		}
		hazard := false
		for _, f := range importers {
			node := ins.get(f)
			if node == nil {
				fail("metafile-inputs-differ-from-files-read", "", f, "listed")
				continue
			}
			var want, got, recs, gterms []string
			if i := indexOf(importers, f); i+1 < len(importers) {
				want = append(want, importers[i+1]+"|import-statement|./"+importers[i+1])
				recs = append(recs, fmt.Sprintf("mkRec (Some %d) true None %s %s []", extra(importers[i+1]), CBytes([]byte("./"+importers[i+1])), CBytes([]byte("import-statement"))))
			}
			// import records: the import statements of the file first (parse order), then its require calls
			var ordered []dualUse
			for _, req := range []bool{false, true} {
				for _, u := range uses {
					if u.file == f && u.req == req {
						ordered = append(ordered, u)
					}
				}
			}
			for _, u := range ordered {
				kind := "import-statement"
				if u.req {
					kind = "require-call"
				}
				want = append(want, fmt.Sprintf("%s|%s|dual%d", target(u.pkg, u.req), kind, u.pkg))
				// the record as the scan left it: an import resolves to module.js with main.js as secondary path
				primary, secondary := fmt.Sprintf("node_modules/dual%d/module.js", u.pkg), fmt.Sprintf("(Some %s)", CBytes([]byte(filepath.Join(dir, fmt.Sprintf("node_modules/dual%d/main.js", u.pkg)))))
				if u.req {
					primary, secondary = fmt.Sprintf("node_modules/dual%d/main.js", u.pkg), "None"
				} else if required[u.pkg] {
					hazard = true
				}
				recs = append(recs, fmt.Sprintf("mkRec (Some %d) true %s %s %s []", extra(primary), secondary, CBytes([]byte(fmt.Sprintf("dual%d", u.pkg))), CBytes([]byte(kind))))
			}
			if im := node.get("imports"); im != nil {
				for _, it := range im.items {
					orig := ""
					if o := it.get("original"); o != nil {
						orig = o.str
					}
					got = append(got, fmt.Sprintf("%s|%s|%s", it.get("path").str, it.get("kind").str, orig))
					gterms = append(gterms, fmt.Sprintf("mkIImp %s %s %s %s %s", CBytes([]byte(it.get("path").str)), CBytes([]byte(it.get("kind").str)),
						CBool(it.get("external") != nil), cOptBytes(it.get("original")), cWith(it.get("with"))))
					if it.get("external") == nil {
						if o := root.get("outputs").get("out/entry.js"); o == nil || o.get("inputs").get(it.get("path").str) == nil {
							fail("metafile-import-target-has-no-bytes-in-output", "", map[string]interface{}{"input": f, "import": it.get("path").str}, "listed in outputs[out/entry.js].inputs")
						}
					}
				}
			}
			if strings.Join(got, "\n") != strings.Join(want, "\n") {
				fail("metafile-input-imports-differ", "", map[string]interface{}{"input": f, "imports": got}, want)
			}
			items = append(items, fmt.Sprintf("([%s],[%s],[%s],[%s])", strings.Join(tab, ";"), strings.Join(visited, ";"), strings.Join(recs, ";"), strings.Join(gterms, ";")))
		}
		st.Note("dual-package", fmt.Sprint(uses, importers, npk), hazard)
	}
	cf.AddCases("scan_cases", "list bytes * list (bytes * Z) * list irec * list iimp", "check_scan", items)
}

func indexOf(xs []string, x string) int {
	for i, y := range xs {
		if y == x {
			return i
		}
	}
	return -1
}

var _ = api.FormatDefault
