package main

import (
	"bytes"
	"encoding/json"
	"fmt"
	"os"
	"path"
	"regexp"
	"sort"
	"strings"

	L "github.com/evanw/esbuild/verifharness/c18lib"
	. "github.com/evanw/esbuild/verifharness/hlib"
)

// ---- JSON with ordered keys and duplicate detection

type jnode struct {
	kind  byte // o a s n b 0
	keys  []string
	vals  []*jnode
	str   string
	num   float64
	items []*jnode
}

func (n *jnode) get(k string) *jnode {
	if n == nil {
		return nil
	}
	for i, kk := range n.keys {
		if kk == k {
			return n.vals[i]
		}
	}
	return nil
}

func parseJSON(text string) (*jnode, []string, error) {
	dec := json.NewDecoder(strings.NewReader(text))
	var dups []string
	var parse func(where string) (*jnode, error)
	parse = func(where string) (*jnode, error) {
		tok, err := dec.Token()
		if err != nil {
			return nil, err
		}
		switch t := tok.(type) {
		case json.Delim:
			if t == '{' {
				n := &jnode{kind: 'o'}
				seen := map[string]bool{}
				for dec.More() {
					kt, err := dec.Token()
					if err != nil {
						return nil, err
					}
					k := kt.(string)
					if seen[k] {
						dups = append(dups, where+"/"+k)
					}
					seen[k] = true
					v, err := parse(where + "/" + k)
					if err != nil {
						return nil, err
					}
					n.keys = append(n.keys, k)
					n.vals = append(n.vals, v)
				}
				_, err := dec.Token()
				return n, err
			}
			n := &jnode{kind: 'a'}
			for dec.More() {
				v, err := parse(where + "[]")
				if err != nil {
					return nil, err
				}
				n.items = append(n.items, v)
			}
			_, err := dec.Token()
			return n, err
		case string:
			return &jnode{kind: 's', str: t}, nil
		case float64:
			return &jnode{kind: 'n', num: t}, nil
		case bool:
			return &jnode{kind: 'b'}, nil
		default:
			return &jnode{kind: '0'}, nil
		}
	}
	n, err := parse("")
	return n, dups, err
}

// ---- expectations derived from the project

type expImport struct {
	Path     string `json:"path"`
	Kind     string `json:"kind"`
	External bool   `json:"external"`
}

func (p expImport) String() string { return fmt.Sprintf("%s|%s|%v", p.Path, p.Kind, p.External) }

type expectation struct {
	inputs    map[string]int         // pretty path -> size
	imports   map[string][]expImport // per input, in order
	dynTarget map[string]bool
}

func expect(p *L.Project, files map[string]string) *expectation {
	e := &expectation{inputs: map[string]int{}, imports: map[string][]expImport{}, dynTarget: map[string]bool{}}
	cssIdx := map[string]int{}
	for i := range p.CSS {
		cssIdx[p.CSS[i].Name] = i
	}
	modIdx := map[string]int{}
	for i := range p.Mods {
		modIdx[p.Mods[i].Name] = i
	}
	var visit func(name string)
	visit = func(name string) {
		if _, ok := e.inputs[name]; ok {
			return
		}
		e.inputs[name] = len(files[name])
		if i, ok := modIdx[name]; ok {
			m := &p.Mods[i]
			var imps []expImport
			if m.CJS {
				for _, s := range m.Static {
					imps = append(imps, expImport{p.Mods[s].Name, "require-call", false})
				}
			} else {
				for _, s := range m.Static {
					imps = append(imps, expImport{p.Mods[s].Name, "import-statement", false})
				}
				for _, a := range m.Assets {
					imps = append(imps, expImport{a, "import-statement", false})
				}
				for _, a := range m.Copies {
					imps = append(imps, expImport{a, "import-statement", false})
				}
				for _, c := range m.CSS {
					imps = append(imps, expImport{c, "import-statement", false})
				}
				for _, x := range m.Ext {
					imps = append(imps, expImport{x, "import-statement", true})
				}
				if m.PureImport {
					imps = append(imps, expImport{"pure0.js", "import-statement", false})
				}
				for _, d := range m.Dynamic {
					imps = append(imps, expImport{p.Mods[d].Name, "dynamic-import", false})
					e.dynTarget[p.Mods[d].Name] = true
				}
			}
			e.imports[name] = imps
			for _, im := range imps {
				if !im.External {
					visit(im.Path)
				}
			}
			return
		}
		if i, ok := cssIdx[name]; ok {
			c := &p.CSS[i]
			var imps []expImport
			for _, s := range c.Imports {
				imps = append(imps, expImport{p.CSS[s].Name, "import-rule", false})
			}
			for _, u := range c.URLs {
				imps = append(imps, expImport{u, "url-token", false})
			}
			if c.ExtURL != "" {
				imps = append(imps, expImport{c.ExtURL, "url-token", true})
			}
			e.imports[name] = imps
			for _, im := range imps {
				if !im.External {
					visit(im.Path)
				}
			}
			return
		}
		e.imports[name] = nil
	}
	for _, en := range p.Opt.Entries {
		visit(en)
	}
	for _, in := range p.Opt.Inject {
		visit(in)
	}
	return e
}

var (
	reExportList = regexp.MustCompile(`(?s)\bexport\s*\{([^}]*)\}`)
	reFromJS     = regexp.MustCompile(`\bfrom\s*["']([^"'\n]+)["']`)
	reImportBare = regexp.MustCompile(`(?m)(?:^|[;}\n])\s*import\s*["']([^"'\n]+)["']`)
	reDyn        = regexp.MustCompile(`\bimport\(\s*["']([^"'\n]+)["']\s*\)`)
	reReq        = regexp.MustCompile(`(?:\b|_)require\(\s*["']([^"'\n]+)["']\s*\)`)
	reCSSImp     = regexp.MustCompile(`@import\s*["']([^"']+)["']`)
	reCSSURL     = regexp.MustCompile(`url\(\s*["']?([^"')\s]+)["']?\s*\)`)
)

func isJSPath(p string) bool { return strings.HasSuffix(p, ".js") || strings.HasSuffix(p, ".mjs") }

// codeImports parses the import statements out of an emitted file and resolves them to metafile keys
func codeImports(rel string, data []byte, publicPath string, outKey func(string) string, emitted map[string][]byte) []expImport {
	text := string(data)
	var out []expImport
	add := func(re *regexp.Regexp, kind string) {
		for _, m := range re.FindAllStringSubmatch(text, -1) {
			spec := m[1]
			if strings.HasPrefix(spec, "data:") {
				continue
			}
			ref := L.Ref{Kind: kind, Spec: spec, From: rel}
			if kind == "url-token" {
				ref.Kind = "url"
			}
			t, internal := L.ResolveRef(ref, publicPath)
			if internal {
				if _, ok := emitted[t]; ok {
					out = append(out, expImport{outKey(t), kind, false})
					continue
				}
			}
			out = append(out, expImport{spec, kind, true})
		}
	}
	if isJSPath(rel) {
		add(reFromJS, "import-statement")
		add(reImportBare, "import-statement")
		add(reDyn, "dynamic-import")
		add(reReq, "require-call")
	} else if strings.HasSuffix(rel, ".css") {
		add(reCSSImp, "import-rule")
		add(reCSSURL, "url-token")
	}
	return out
}

func sortedStrings(xs []expImport) []string {
	var s []string
	for _, x := range xs {
		s = append(s, x.String())
	}
	sort.Strings(s)
	return s
}

func codeExports(data []byte) []string {
	var names []string
	for _, m := range reExportList.FindAllStringSubmatch(string(data), -1) {
		for _, it := range strings.Split(m[1], ",") {
			it = strings.TrimSpace(it)
			if it == "" {
				continue
			}
			if i := strings.LastIndex(it, " as "); i >= 0 {
				it = strings.TrimSpace(it[i+4:])
			}
			names = append(names, it)
		}
	}
	if regexp.MustCompile(`\bexport default\b`).Match(data) {
		names = append(names, "default")
	}
	sort.Strings(names)
	return names
}

var failedOnce = map[string]bool{}
var sectionChecks int

func checkMetafile(st *Stats, label string, p *L.Project) bool {
	dir, err := os.MkdirTemp("", "verif-c19-")
	if err != nil {
		panic(err)
	}
	defer os.RemoveAll(dir)
	files := p.Render()
	if err := L.WriteTree(dir, nil, files); err != nil {
		panic(err)
	}
	b := L.Build(dir, &p.Opt)
	if len(b.Errors) > 0 {
		st.Note("glue-build-error", label+p.JSON(), false)
		return false
	}
	fail := func(what, scenario string, got, want interface{}) {
		key := what + "/" + scenario
		if failedOnce[key] && scenario != "" && strings.HasPrefix(scenario, "known:") {
			return
		}
		failedOnce[key] = true
		st.Fail(what, map[string]interface{}{"scenario": strings.TrimPrefix(scenario, "known:"), "label": label, "project": p}, got, want)
	}
	root, dups, err := parseJSON(b.Metafile)
	if err != nil {
		fail("metafile-is-not-json", "parse", err.Error(), "valid JSON")
		return true
	}
	if !strings.HasPrefix(label, "targeted") || strings.HasSuffix(label, "/2") {
		collectDoc(st, label, strings.Replace(b.Metafile, dir+"/", "/W/", -1), true)
	}
	abs := p.Opt.MetafileStyle == "abs"
	inKey := func(rel string) string {
		if abs {
			return dir + "/" + rel
		}
		return rel
	}
	outKey := func(rel string) string { return inKey("out/" + rel) }
	for _, d := range dups {
		scenario := "duplicate-key"
		if strings.Contains(d, "/outputs/") && strings.Contains(d, "/inputs/") && strings.HasSuffix(d, ".css") {
			scenario = "css-file-imported-more-than-once-in-one-output"
		}
		fail("metafile-has-duplicate-key", scenario, strings.Replace(d, dir, "<dir>", -1), "every key once")
	}
	outs := root.get("outputs")
	ins := root.get("inputs")
	if outs == nil || ins == nil {
		fail("metafile-shape", "missing-sections", b.Metafile, "inputs and outputs")
		return true
	}
	// outputs: exactly the emitted files with exact sizes
	var wantOut []string
	for _, rel := range b.Paths() {
		wantOut = append(wantOut, outKey(rel))
	}
	gotOut := append([]string{}, outs.keys...)
	sort.Strings(gotOut)
	sort.Strings(wantOut)
	if strings.Join(gotOut, "\n") != strings.Join(wantOut, "\n") {
		fail("metafile-outputs-differ-from-emitted-files", "outputs-set", gotOut, wantOut)
	}
	exp := expect(p, files)
	if p.Opt.Stdin != "" {
		exp.inputs["stdin-entry.js"] = len(p.Opt.Stdin)
	}
	entryPoints := map[string]int{}
	for i, k := range outs.keys {
		o := outs.vals[i]
		rel := strings.TrimPrefix(k, outKey(""))
		data, ok := b.Outputs[rel]
		if !ok {
			continue
		}
		if n := o.get("bytes"); n == nil || int(n.num) != len(data) {
			fail("metafile-output-bytes-wrong", "bytes", n, len(data))
		}
		if ep := o.get("entryPoint"); ep != nil {
			entryPoints[ep.str]++
		}
		// imports listed = imports in the code
		var listed []expImport
		var fileLoader []expImport
		if im := o.get("imports"); im != nil {
			for _, it := range im.items {
				e := expImport{it.get("path").str, it.get("kind").str, it.get("external") != nil}
				if e.Kind == "file-loader" || (e.Kind == "url-token" && !e.External) {
					fileLoader = append(fileLoader, e)
				} else {
					listed = append(listed, e)
				}
			}
		}
		if isJSPath(rel) || strings.HasSuffix(rel, ".css") {
			var fromCode, assetRefs []expImport
			for _, ci := range codeImports(rel, data, p.Opt.PublicPath, outKey, b.Outputs) {
				if ci.Kind == "url-token" && !ci.External {
					assetRefs = append(assetRefs, ci)
				} else if strings.HasSuffix(ci.Path, ".bin") && !ci.External && ci.Kind == "import-statement" {
					// an import of a copied file
					fromCode = append(fromCode, ci)
				} else {
					fromCode = append(fromCode, ci)
				}
			}
			listedAll := append([]expImport{}, listed...)
			if p.Opt.MinifyI {
				// the require shim is renamed: calls to it cannot be recognised in the code
				listed, fromCode = dropKind(listed, "require-call"), dropKind(fromCode, "require-call")
			}
			a, c := sortedStrings(dedupe(listed)), sortedStrings(dedupe(fromCode))
			if strings.Join(a, "\n") != strings.Join(c, "\n") {
				fail("metafile-output-imports-differ-from-code", "output-imports", a, c)
			}
			// file-loader / url-token entries must name emitted files referenced by the code
			for _, fl := range fileLoader {
				frel := strings.TrimPrefix(fl.Path, outKey(""))
				if _, ok := b.Outputs[frel]; !ok {
					fail("metafile-output-import-names-no-emitted-file", "file-loader-path", fl.Path, wantOut)
				} else if !bytes.Contains(data, []byte(path.Base(frel))) {
					fail("metafile-output-import-not-in-code", "file-loader-not-referenced", fl.Path, "referenced in "+rel)
				}
			}
			// every emitted asset whose name is written in this file's code must be listed as an import
			for q := range b.Outputs {
				if isJSPath(q) || strings.HasSuffix(q, ".css") || strings.HasSuffix(q, ".map") || strings.HasSuffix(q, ".LEGAL.txt") {
					continue
				}
				if !strings.Contains(path.Base(q), "-") || !bytes.Contains(data, []byte(path.Base(q))) {
					continue // (names without a hash, e.g. img0.png, also occur in path comments)
				}
				found := false
				for _, e := range append(listedAll, fileLoader...) {
					if e.Path == outKey(q) {
						found = true
					}
				}
				if !found {
					fail("metafile-output-misses-asset-import", "asset-reference-not-listed", outKey(q), "listed in outputs["+rel+"].imports")
				}
			}
			for _, ar := range assetRefs {
				found := false
				for _, fl := range fileLoader {
					if fl.Path == ar.Path {
						found = true
					}
				}
				if !found {
					fail("metafile-output-misses-url-import", "url-token-missing", ar.Path, fileLoader)
				}
			}
		}
		// exports
		if isJSPath(rel) && p.Opt.Format == "esm" && !p.Opt.NoBundle {
			var listedEx []string
			if ex := o.get("exports"); ex != nil {
				for _, it := range ex.items {
					listedEx = append(listedEx, it.str)
				}
			}
			sort.Strings(listedEx)
			ce := codeExports(data)
			if strings.Join(listedEx, ",") != strings.Join(ce, ",") {
				fail("metafile-exports-differ-from-code", "exports", listedEx, ce)
			}
		}
		// attribution
		if oin := o.get("inputs"); oin != nil {
			sum := 0
			for j, ik := range oin.keys {
				bio := int(oin.vals[j].get("bytesInOutput").num)
				sum += bio
				if bio < 0 {
					fail("metafile-negative-bytes", "bytesInOutput", bio, ">= 0")
				}
				if _, ok := exp.inputs[strings.TrimPrefix(ik, inKey(""))]; !ok {
					fail("metafile-output-input-not-an-input", "output-inputs-key", ik, "a key of inputs")
				}
			}
			if sum > len(data) && len(dups) == 0 {
				fail("metafile-attributed-bytes-exceed-file-size", "sum-bytesInOutput", sum, len(data))
			}
			if isJSPath(rel) {
				for mi := range p.Mods {
					name := p.Mods[mi].Name
					marker := []byte("log(\"" + name + "\"")
					present := bytes.Contains(data, marker)
					node := oin.get(inKey(name))
					bio := 0
					if node != nil {
						bio = int(node.get("bytesInOutput").num)
					}
					if present != (bio > 0) {
						fail("metafile-contribution-disagrees-with-code", "marker-vs-bytesInOutput", map[string]interface{}{"input": name, "output": rel, "bytesInOutput": bio}, map[string]interface{}{"code-present": present})
					}
				}
				// a module without side effects imported only for its side effects: unless it had to be
				// wrapped (then its wrapper is in the output) it is tree-shaken and contributes nothing
				if node := oin.get(inKey("pure0.js")); node != nil && int(node.get("bytesInOutput").num) != 0 && !bytes.Contains(data, []byte("pure0")) && !p.Opt.MinifyI && !p.Opt.MinifyW {
					fail("metafile-tree-shaken-input-has-bytes", "pure-module", int(node.get("bytesInOutput").num), 0)
				}
			}
			if !p.Opt.MinifyW && !p.Opt.NoBundle && (p.Opt.Format == "esm" || p.Opt.Format == "cjs") && len(dups) == 0 {
				checkSections(fail, rel, data, oin, inKey)
			}
		}
	}
	if bytes.Contains(allOutputs(b), []byte("PUREMARK")) {
		fail("tree-shaken-code-present", "pure-module-code", "PUREMARK present", "absent")
	}
	// entry points
	wantEP := map[string]bool{}
	for _, e := range p.Opt.Entries {
		wantEP[inKey(e)] = true
	}
	if p.Opt.Stdin != "" {
		wantEP[inKey("stdin-entry.js")] = true
	}
	if p.Opt.Splitting {
		for d := range exp.dynTarget {
			if _, ok := exp.inputs[d]; ok {
				wantEP[inKey(d)] = true
			}
		}
	}
	var gotEP, wEP []string
	for k, c := range entryPoints {
		gotEP = append(gotEP, k)
		if c > 1 && !strings.HasSuffix(k, ".css") && !hasCSSBundle(p) {
			fail("metafile-entry-point-listed-for-several-outputs", "entryPoint", k, "one output")
		}
	}
	for k := range wantEP {
		wEP = append(wEP, k)
	}
	sort.Strings(gotEP)
	sort.Strings(wEP)
	if strings.Join(gotEP, "\n") != strings.Join(wEP, "\n") {
		fail("metafile-entry-points-differ", "entryPoint-set", gotEP, wEP)
	}
	// inputs: every listed import resolves to an input, and inputs is the closure from the entry points
	{
		starts := entryPointsOf(root)
		for _, in := range p.Opt.Inject {
			starts = append(starts, inKey(in))
		}
		checkInputsClosure(fail, root, starts)
	}
	// inputs: exactly the files read, with exact sizes and their resolved imports
	var gotIn, wantIn []string
	for _, k := range ins.keys {
		gotIn = append(gotIn, k)
	}
	for k := range exp.inputs {
		wantIn = append(wantIn, inKey(k))
	}
	sort.Strings(gotIn)
	sort.Strings(wantIn)
	if strings.Join(gotIn, "\n") != strings.Join(wantIn, "\n") {
		fail("metafile-inputs-differ-from-files-read", "inputs-set", gotIn, wantIn)
	}
	for i, k := range ins.keys {
		name := strings.TrimPrefix(k, inKey(""))
		size, ok := exp.inputs[name]
		if !ok {
			continue
		}
		if n := ins.vals[i].get("bytes"); n == nil || int(n.num) != size {
			fail("metafile-input-bytes-wrong", "input-bytes", map[string]interface{}{"input": name, "bytes": n}, size)
		}
		if name == "stdin-entry.js" {
			continue
		}
		var got []string
		if im := ins.vals[i].get("imports"); im != nil {
			for _, it := range im.items {
				e := expImport{it.get("path").str, it.get("kind").str, it.get("external") != nil}
				if !e.External {
					e.Path = strings.TrimPrefix(e.Path, inKey(""))
				}
				if strings.HasSuffix(e.Path, "inject0.js") {
					// imports of the injected file are implicit: not part of the expectation
					if e.External {
						fail("metafile-input-lists-injected-file-as-external-import", "inject-file-listed-as-external-absolute-import",
							map[string]interface{}{"input": name, "import": strings.Replace(e.String(), dir, "<dir>", -1)}, "no import, or the bundled file inject0.js (not external)")
					}
					if !e.External && e.Path != "inject0.js" {
						fail("metafile-input-lists-injected-file-under-wrong-path", "inject-file-path", map[string]interface{}{"input": name, "import": strings.Replace(e.String(), dir, "<dir>", -1)}, "inject0.js")
					}
					continue
				}
				got = append(got, e.String())
			}
		}
		var want []string
		for _, e := range exp.imports[name] {
			want = append(want, e.String())
		}
		if strings.Join(got, "\n") != strings.Join(want, "\n") {
			fail("metafile-input-imports-differ", "input-imports", map[string]interface{}{"input": name, "imports": got}, want)
		}
	}
	return true
}

func dropKind(xs []expImport, kind string) []expImport {
	var out []expImport
	for _, x := range xs {
		if x.Kind != kind {
			out = append(out, x)
		}
	}
	return out
}

func hasCSSBundle(p *L.Project) bool { return len(p.CSS) > 0 }

func dedupe(xs []expImport) []expImport {
	seen := map[string]bool{}
	var out []expImport
	for _, x := range xs {
		if !seen[x.String()] {
			seen[x.String()] = true
			out = append(out, x)
		}
	}
	return out
}

func allOutputs(b *L.Built) []byte {
	var all []byte
	for _, k := range b.Paths() {
		if isJSPath(k) || strings.HasSuffix(k, ".css") {
			all = append(all, b.Outputs[k]...)
		}
	}
	return all
}

// checkSections: in unminified bundles every file's code follows a "// path"
// (CSS: "/* path */") comment line; the code of a file that is not the last
// one in the output is exactly the text up to the blank line before the next
// comment, so its bytesInOutput must be that length
func checkSections(fail func(what, scenario string, got, want interface{}), rel string, data []byte, oin *jnode, inKey func(string) string) {
	text := string(data)
	type mark struct {
		start, end int // of the comment line (end after its newline)
		key        string
	}
	var marks []mark
	css := strings.HasSuffix(rel, ".css")
	off := 0
	for _, line := range strings.SplitAfter(text, "\n") {
		l := strings.TrimSuffix(line, "\n")
		var name string
		if css && strings.HasPrefix(l, "/* ") && strings.HasSuffix(l, " */") {
			name = l[3 : len(l)-3]
		} else if !css && strings.HasPrefix(l, "// ") {
			name = l[3:]
		}
		if name != "" && oin.get(name) != nil {
			marks = append(marks, mark{off, off + len(line), name})
		}
		off += len(line)
	}
	if len(marks) < 2 {
		return
	}
	sums := map[string]int{}
	last := marks[len(marks)-1].key
	for i := 0; i+1 < len(marks); i++ {
		sums[marks[i].key] += marks[i+1].start - marks[i].end - 1
	}
	for k, v := range sums {
		if k == last {
			continue
		}
		got := int(oin.get(k).get("bytesInOutput").num)
		sectionChecks++
		if got != v {
			fail("metafile-bytesInOutput-differs-from-emitted-code-length", "section-length", map[string]interface{}{"output": rel, "input": k, "bytesInOutput": got}, v)
		}
	}
}

func corpusKnown(st *Stats) {
	p := &L.Project{Extra: map[string]string{
		"e.css": "@import \"./a.css\" screen;\n@import \"./a.css\" print;\n.e{color:red}\n",
		"a.css": ".a{color:blue}\n",
	}, Opt: L.Opt{Entries: []string{"e.css"}, EntryNames: "[name]"}}
	// the expectations about inputs do not know the Extra css files: check only the duplicate keys here
	dir, err := os.MkdirTemp("", "verif-c19-")
	if err != nil {
		panic(err)
	}
	defer os.RemoveAll(dir)
	L.WriteTree(dir, nil, p.Render())
	b := L.Build(dir, &p.Opt)
	// (H, fixed by ea1db64, must pass) one entry for a.css covering both copies
	root, dups, _ := parseJSON(b.Metafile)
	st.Note("corpus", "css-imported-twice", true)
	in := map[string]interface{}{"scenario": "css-file-imported-more-than-once-in-one-output", "label": "corpus", "files": p.Extra, "metafile": b.Metafile}
	for _, d := range dups {
		st.Fail("metafile-has-duplicate-key", in, d, "every key once")
		return
	}
	if root != nil {
		if a := root.get("outputs").get("out/e.css").get("inputs").get("a.css"); a == nil || int(a.get("bytesInOutput").num) != 91 {
			st.Fail("metafile-css-input-bytes-wrong", in, a, "a.css: bytesInOutput 91 (46 + 45)")
		}
	}
	collectDoc(st, "corpus-css-twice", b.Metafile, true)
}

func corpusInject(st *Stats) {
	p := &L.Project{Mods: []L.Module{{Name: "m0.js", Lit: "a", Static: []int{1}}, {Name: "m1.js", Lit: "b"}},
		Assets: map[string]string{},
		Extra:  map[string]string{"inject0.js": "export let injected = 'inj';\n", "uses-inject.js": "console.log(injected);\n"},
		Opt:    L.Opt{Entries: []string{"m0.js", "uses-inject.js"}, Format: "esm", Inject: []string{"inject0.js"}}}
	ok := checkMetafile(st, "corpus-inject", p)
	st.Note("corpus", "inject", ok)
}

// Fixed projects evaluated on every run: one module whose code refers both to a
// copied file (asset piece, keyed by SOURCE index) and to several dynamically
// imported chunks (chunk pieces, keyed by CHUNK index), with paths of different
// lengths, so that small source and chunk indices coincide inside one slice.
func targetedMetafile(st *Stats) {
	for nd := 2; nd <= 5; nd++ {
		for variant := 0; variant < 3; variant++ {
			p := &L.Project{Assets: map[string]string{"data0.bin": "BINARY", "img0.png": "PNG"}, Extra: map[string]string{}}
			a := L.Module{Name: "a.js", Lit: "a", Copies: []string{"data0.bin"}}
			p.Mods = append(p.Mods, a)
			for k := 1; k <= nd; k++ {
				p.Mods = append(p.Mods, L.Module{Name: fmt.Sprintf("d%d.js", k), Lit: fmt.Sprintf("d%d", k)})
				p.Mods[0].Dynamic = append(p.Mods[0].Dynamic, k)
			}
			p.Opt = L.Opt{Entries: []string{"a.js"}, Splitting: true, Format: "esm", EntryNames: "[name]-[hash]", ChunkNames: "c/[name]-[hash]",
				AssetNames: "assets/a/rather/long/directory/[name]-[hash]"}
			switch variant {
			case 1:
				p.Mods[0].Assets = []string{"img0.png"}
				p.Opt.PublicPath = "https://cdn.example.com/p/"
			case 2:
				p.Mods = append(p.Mods, L.Module{Name: "z.js", Lit: "z", Copies: []string{"data0.bin"}, Dynamic: []int{1, 2}})
				p.Opt.Entries = append(p.Opt.Entries, "z.js")
			}
			ok := checkMetafile(st, fmt.Sprintf("targeted-copy+%d-dynamic-imports/%d", nd, variant), p)
			st.Note("targeted", fmt.Sprintf("%d/%d", nd, variant), ok)
		}
	}
}

func glueMetafile(r *Rng, n int, st *Stats) {
	defer func() { st.Extra["exact_section_length_checks"] = sectionChecks }()
	for i := 0; i < n; i++ {
		p := L.GenProject(r, L.GenCfg{Hashed: r.Chance(50), CSS: r.Chance(60), Rich: true})
		label := fmt.Sprintf("glue-%d", i)
		if checkMetafile(st, label, p) {
			st.Note("glue-metafile", p.JSON(), len(p.Mods) > 1)
			if i < 3 {
				st.Sample(map[string]interface{}{"glue": label, "entries": p.Opt.Entries, "splitting": p.Opt.Splitting, "format": p.Opt.Format})
			}
		}
	}
}
