package main

// C19, JSON / structure layers:
//  * quoteCases: helpers.QuoteForJSON against the model and the RFC 8259 string parser
//  * docTerm / docCases: a whole BuildResult.Metafile re-rendered by the Coq model
//    (chunk_pre -> break_joiner -> substitute_out -> metafile_bytes) from the
//    descriptions an independent JSON reader extracts from it
//  * genCases: generateMetadataJSON on arbitrary chunks, minified and not
//  * corpusNames: replays of the findings about file names

import (
	"encoding/json"
	"fmt"
	"os"
	"path/filepath"
	"sort"
	"strings"
	"unicode/utf8"

	"github.com/evanw/esbuild/internal/bundler"
	"github.com/evanw/esbuild/internal/config"
	"github.com/evanw/esbuild/internal/graph"
	"github.com/evanw/esbuild/internal/helpers"
	. "github.com/evanw/esbuild/verifharness/hlib"
	"github.com/evanw/esbuild/pkg/api"
)

var quoteGrid = []string{
	"", "a", "plain/path.js", "sp ace", "q\"uote", "back\\slash", "\x00", "\x01\x1f", "\b\f\n\r\t", "\x7f", "\u0080", "\u00e9", "\u07ff\u0800",
	"\u2028\u2029", "\ufeff", "\ufffd", "\uffff", "\U0001F600", "\U00010000\U0010ffff", "a\xffb", "\xc0\x80", "\xe0\x80\x80", "\xed\xa0\x80", "\xed\xb0\x80",
	"\xed\xa0\xbd\xed\xb8\x80", "\xf4\x90\x80\x80", "\xf0\x9f", "\xe2\x80", "\xc3", "'single'", "</script>", "\u65e5\u672c\u8a9e/\u30d5\u30a1\u30a4\u30eb.ts", "\xf8\x88\x80\x80\x80",
}

func randText(r *Rng) string {
	var sb strings.Builder
	for k := r.Intn(8); k > 0; k-- {
		switch r.Intn(9) {
		case 0:
			sb.WriteString(quoteGrid[r.Intn(len(quoteGrid))])
		case 1:
			sb.WriteByte(byte(r.Intn(256)))
		case 2:
			sb.WriteRune(rune(r.Intn(0x20)))
		case 3:
			sb.WriteRune(rune(0x80 + r.Intn(0x800)))
		case 4:
			sb.WriteRune(rune(0x10000 + r.Intn(0x100000)))
		case 5:
			sb.WriteString([]string{"\"", "\\", "/", "\u2028", "\ufeff"}[r.Intn(5)])
		case 6: // a WTF-8 surrogate
			c := 0xD800 + r.Intn(0x800)
			sb.Write([]byte{0xED, byte(0x80 | (c>>6)&0x3F), byte(0x80 | c&0x3F)})
		default:
			sb.WriteString([]string{"a", "src/", "x.js", "-", "0"}[r.Intn(5)])
		}
	}
	return sb.String()
}

func quoteCases(r *Rng, n int, cf *CoqFile, st *Stats) {
	var items []string
	one := func(s string, ascii bool) {
		out := helpers.QuoteForJSON(s, ascii)
		items = append(items, fmt.Sprintf("(%s,%s,%s)", CBool(ascii), CBytes([]byte(s)), CBytes(out)))
		special := strings.ContainsAny(s, "\"\\\n\u2028") || !utf8.ValidString(s)
		st.Note("quote-for-json", fmt.Sprintf("%v|%q", ascii, s), special)
		// the property's predicate with Go's own reader as oracle: a JSON string that reads back as the text
		if ascii || utf8.ValidString(s) {
			var back string
			if err := json.Unmarshal(out, &back); err != nil {
				st.Fail("quoted-string-is-not-json", map[string]interface{}{"scenario": "QuoteForJSON", "text": fmt.Sprintf("%q", s), "asciiOnly": ascii}, string(out), "a JSON string")
			} else if utf8.ValidString(s) && back != s {
				st.Fail("quoted-string-reads-back-differently", map[string]interface{}{"scenario": "QuoteForJSON", "text": fmt.Sprintf("%q", s), "asciiOnly": ascii}, back, s)
			}
		}
	}
	for _, s := range quoteGrid {
		one(s, true)
		one(s, false)
	}
	for i := 0; i < n; i++ {
		one(randText(r), r.Bool())
	}
	cf.AddCases("quote_cases", "bool * bytes * bytes", "check_quote", items)
}

// ---- a metafile as a Coq description

func cOptBytes(n *jnode) string {
	if n == nil {
		return "None"
	}
	return "(Some " + CBytes([]byte(n.str)) + ")"
}

func cWith(n *jnode) string {
	var xs []string
	if n != nil {
		for i, k := range n.keys {
			xs = append(xs, fmt.Sprintf("(%s,%s)", CBytes([]byte(k)), CBytes([]byte(n.vals[i].str))))
		}
	}
	return "[" + strings.Join(xs, ";") + "]"
}

var docFailures int

// docTerm returns the Coq case of a metafile text; reportMissing is called for
// an import without "external" whose path is not a key of outputs (property d)
func docTerm(meta string, ascii bool, reportMissing func(output, path string)) (string, bool) {
	root, _, err := parseJSON(meta)
	if err != nil || !utf8.ValidString(meta) {
		return "", false
	}
	outs, ins := root.get("outputs"), root.get("inputs")
	if outs == nil || ins == nil {
		return "", false
	}
	index := map[string]int{}
	var tab []string
	for j, k := range outs.keys {
		if _, dup := index[k]; !dup {
			index[k] = j
		}
		tab = append(tab, CBytes([]byte(k)))
	}
	// the text of each output, for the whitespace before the closing brace of an empty inputs object
	segs := []string{}
	if i := strings.Index(meta, "\n  \"outputs\": {"); i >= 0 {
		segs = strings.Split(meta[i:], "\n    \"")[1:]
	}
	var inTerms []string
	for i, k := range ins.keys {
		v := ins.vals[i]
		var imps []string
		if im := v.get("imports"); im != nil {
			for _, it := range im.items {
				imps = append(imps, fmt.Sprintf("mkIImp %s %s %s %s %s", CBytes([]byte(it.get("path").str)), CBytes([]byte(it.get("kind").str)),
					CBool(it.get("external") != nil), cOptBytes(it.get("original")), cWith(it.get("with"))))
			}
		}
		inTerms = append(inTerms, fmt.Sprintf("mkInput %s %d [%s] %s %s", CBytes([]byte(k)), int(v.get("bytes").num), strings.Join(imps, ";"),
			cOptBytes(v.get("format")), cWith(v.get("with"))))
	}
	var outTerms []string
	for j, k := range outs.keys {
		v := outs.vals[j]
		var imps, exps, inps []string
		if im := v.get("imports"); im != nil {
			for _, it := range im.items {
				p := it.get("path").str
				ext := it.get("external") != nil
				pref := "(PLit " + CBytes([]byte(p)) + ")"
				if !ext {
					if idx, ok := index[p]; ok {
						pref = fmt.Sprintf("(PRef 2 %d)", idx)
					} else if reportMissing != nil {
						reportMissing(k, p)
					}
				}
				imps = append(imps, fmt.Sprintf("mkImp %s %s %s", pref, CBytes([]byte(it.get("kind").str)), CBool(ext)))
			}
		}
		ex := v.get("exports")
		if ex != nil {
			for _, it := range ex.items {
				exps = append(exps, CBytes([]byte(it.str)))
			}
		}
		css := "None"
		if cb := v.get("cssBundle"); cb != nil {
			if idx, ok := index[cb.str]; ok {
				css = fmt.Sprintf("(Some (PRef 2 %d))", idx)
			} else {
				css = "(Some (PLit " + CBytes([]byte(cb.str)) + "))"
				if reportMissing != nil {
					reportMissing(k, cb.str)
				}
			}
		}
		if oi := v.get("inputs"); oi != nil {
			for q, ik := range oi.keys {
				inps = append(inps, fmt.Sprintf("(%s,%d)", CBytes([]byte(ik)), int(oi.vals[q].get("bytesInOutput").num)))
			}
		}
		pad := len(inps) > 0
		if j < len(segs) && !pad {
			pad = !strings.Contains(segs[j], "\"inputs\": {}")
		}
		outTerms = append(outTerms, fmt.Sprintf("(%s, mkChunk %s [%s] [%s] %s %s [%s] %s %d)", CBytes([]byte(k)), CBool(ex != nil),
			strings.Join(imps, ";"), strings.Join(exps, ";"), cOptBytes(v.get("entryPoint")), css, strings.Join(inps, ";"), CBool(pad), int(v.get("bytes").num)))
	}
	return fmt.Sprintf("(%s,[%s],[%s],[%s],%s)", CBool(ascii), strings.Join(tab, ";"), strings.Join(inTerms, ";\n "), strings.Join(outTerms, ";\n "), CBytes([]byte(meta))), true
}

var docItems []string
var docLimit int

// collectDoc is called for metafiles of the glue builds (default charset: asciiOnly)
func collectDoc(st *Stats, label string, meta string, ascii bool) {
	if len(docItems) >= docLimit || len(meta) > 6000 {
		return
	}
	item, ok := docTerm(meta, ascii, func(output, p string) {
		st.Fail("metafile-output-import-is-not-an-output", map[string]interface{}{"scenario": "imports-resolve", "label": label, "output": output}, p, "a key of outputs")
	})
	if ok {
		docItems = append(docItems, item)
		st.Note("doc-correspondence", meta, strings.Count(meta, "\"kind\"") > 0)
	}
}

func flushDocs(cf *CoqFile) {
	cf.AddCases("doc_cases", "bool * list bytes * list input * list (bytes * chunk) * bytes", "check_doc", docItems)
}

// builds whose file names need escaping, both charsets
func namedBuild(st *Stats, label string, files map[string]string, entries []string, utf8cs bool, splitting bool, external []string) (api.BuildResult, string) {
	dir, err := os.MkdirTemp("", "verif-c19-")
	if err != nil {
		panic(err)
	}
	defer os.RemoveAll(dir)
	for k, v := range files {
		fp := filepath.Join(dir, k)
		os.MkdirAll(filepath.Dir(fp), 0o755)
		if err := os.WriteFile(fp, []byte(v), 0o644); err != nil {
			panic(err)
		}
	}
	o := api.BuildOptions{AbsWorkingDir: dir, Outdir: filepath.Join(dir, "out"), Bundle: true, Write: false, LogLevel: api.LogLevelSilent, Metafile: true,
		EntryPoints: entries, Splitting: splitting, External: external, ChunkNames: "c/[name]-[hash]", AssetNames: "a/[name]-[hash]",
		Loader: map[string]api.Loader{".png": api.LoaderFile}}
	if splitting {
		o.Format = api.FormatESModule
	}
	if utf8cs {
		o.Charset = api.CharsetUTF8
	}
	return api.Build(o), dir
}

func oddNameBuilds(st *Stats) {
	names := []string{"sp ace.js", "uni-\u00e9.js", "\u65e5\u672c.js", "emoji-\U0001F600.js", "quo\"te.js", "tab\there.js", "ctl\x01x.js", "line\u2028sep.js", "bom\ufeffx.js", "apos'x.js", "del\x7fx.js"}
	for _, cs := range []bool{false, true} {
		for variant := 0; variant < 3; variant++ {
			files := map[string]string{"plain.js": "export let p = 1; console.log('plain')\n", "dyn.js": "export let d = 2; console.log('dyn')\n", "pic \u00e9.png": "PNG",
				"dy\"n\tq\u00e9.js": "export let e = 3; console.log('dyn2')\n", "pi\"c.png": "PNG2"}
			var main strings.Builder
			for i, nm := range names {
				files[nm] = fmt.Sprintf("import {p} from './plain.js'; export let v%d = p + %d; console.log(%q)\n", i, i, nm)
				fmt.Fprintf(&main, "import {v%d} from %q; console.log(v%d);\n", i, "./"+nm, i)
			}
			main.WriteString("import 'ext-\u00e9\"q\\\\z'; import pic from './pic \u00e9.png'; console.log(pic); import('./dyn.js').then(x => console.log(x)); import('./dy\"n\\tq\u00e9.js').then(x => console.log(x)); import pic2 from './pi\"c.png'; console.log(pic2);\n")
			files["main.js"] = main.String()
			entries := []string{"main.js"}
			if variant >= 1 {
				entries = append(entries, "quo\"te.js", "uni-\u00e9.js")
			}
			res, dir := namedBuild(st, "odd-names", files, entries, cs, variant == 2, []string{"ext-*"})
			label := fmt.Sprintf("odd-names/%v/%d", cs, variant)
			if len(res.Errors) > 0 {
				st.Note("odd-names-build-error", label+res.Errors[0].Text, false)
				continue
			}
			// the property's predicate: the metafile is JSON and names exactly the emitted files
			root, _, err := parseJSON(res.Metafile)
			if err != nil {
				st.Fail("metafile-is-not-json", map[string]interface{}{"scenario": "odd-file-names", "label": label}, err.Error(), "valid JSON")
				continue
			}
			var want, got []string
			for _, f := range res.OutputFiles {
				rel, _ := filepath.Rel(dir, f.Path)
				want = append(want, filepath.ToSlash(rel))
			}
			got = append(got, root.get("outputs").keys...)
			sort.Strings(want)
			sort.Strings(got)
			if strings.Join(want, "\n") != strings.Join(got, "\n") {
				st.Fail("metafile-outputs-differ-from-emitted-files", map[string]interface{}{"scenario": "odd-file-names", "label": label}, got, want)
			}
			for i, k := range root.get("outputs").keys {
				for _, f := range res.OutputFiles {
					if rel, _ := filepath.Rel(dir, f.Path); filepath.ToSlash(rel) == k {
						if int(root.get("outputs").vals[i].get("bytes").num) != len(f.Contents) {
							st.Fail("metafile-output-bytes-wrong", map[string]interface{}{"scenario": "odd-file-names", "label": label, "output": k}, root.get("outputs").vals[i].get("bytes").num, len(f.Contents))
						}
					}
				}
			}
			checkInputsClosure(func(what, scenario string, got, want interface{}) {
				st.Fail(what, map[string]interface{}{"scenario": scenario, "label": label}, got, want)
			}, root, entryPointsOf(root))
			docLimit++
			collectDoc(st, label, res.Metafile, !cs)
			st.Note("odd-names", label, true)
		}
	}
}

// generateMetadataJSON on arbitrary chunks
func genCases(r *Rng, n int, cf *CoqFile, st *Stats) {
	var items []string
	paths := []string{"/out/a.js", "/out/b.js", "/out/q\"x.js", "/out/\u00e9.css", "/out/a.js.map", "/out/s p.js", "/out/\x01.js", "/out/\xff.js", "/out/\U0001F600.js"}
	for i := 0; i < n; i++ {
		k := r.Range(0, 6)
		var results []graph.OutputFile
		var rs []string
		for j := 0; j < k; j++ {
			p := paths[r.Intn(len(paths))]
			chunk := fmt.Sprintf("{\"id\": %d}", j)
			if r.Chance(20) {
				chunk = ""
			}
			results = append(results, graph.OutputFile{AbsPath: p, JSONMetadataChunk: chunk})
			rs = append(rs, fmt.Sprintf("(%s,%s)", CBytes([]byte(p[1:])), CBytes([]byte(chunk))))
		}
		mini, ascii := r.Bool(), r.Bool()
		opts := &config.Options{ASCIIOnly: ascii}
		if mini {
			opts.MetafileFormat = config.MinifiedMetafile
		}
		text := bundler.VerifGenerateMetadataJSON(mockFS, results, opts)
		items = append(items, fmt.Sprintf("(%s,%s,[%s],%s)", CBool(mini), CBool(ascii), strings.Join(rs, ";"), CBytes([]byte(text))))
		st.Note("generate-metadata-json", fmt.Sprint(mini, ascii, results), k > 1)
	}
	cf.AddCases("gen_cases", "bool * bool * list (bytes * bytes) * bytes", "check_gen", items)
}

// ---- replays of the findings about file names

func corpusNames(st *Stats) {
	// J (fixed by b608b91, must pass): the final path of a chunk is escaped when it is substituted for its
	// unique key inside a JSON string and a JS string
	{
		files := map[string]string{"a.js": "import(\"./d\\\"q.js\").then(x => console.log(x))\n", "d\"q.js": "export let v = 1\n"}
		res, _ := namedBuild(st, "corpus-J", files, []string{"a.js"}, false, true, nil)
		if len(res.Errors) == 0 {
			in := map[string]interface{}{"scenario": "final-path-with-quotation-mark-substituted-raw-into-json-string", "label": "corpus", "files": files}
			root, _, err := parseJSON(res.Metafile)
			st.Note("corpus", "quote-in-chunk-name", true)
			if err != nil {
				st.Fail("metafile-is-not-json", in, err.Error(), "valid JSON")
			} else {
				a := root.get("outputs").get("out/a.js")
				ok := false
				if a != nil && a.get("imports") != nil && len(a.get("imports").items) == 1 {
					p := a.get("imports").items[0].get("path").str
					ok = strings.HasPrefix(p, "out/c/d\"q-") && root.get("outputs").get(p) != nil
				}
				if !ok {
					st.Fail("metafile-output-import-is-not-an-output", in, res.Metafile, "outputs[out/a.js].imports[0].path is the key of the chunk d\"q-HASH.js")
				}
			}
			for _, f := range res.OutputFiles {
				if strings.HasSuffix(f.Path, "/a.js") && !strings.Contains(string(f.Contents), "import(\"./c/d\\\"q-") {
					st.Fail("emitted-import-path-not-escaped", in, string(f.Contents), "import(\"./c/d\\\"q-HASH.js\")")
				}
			}
		}
	}
	// K: a backslash in a file name (Unix) becomes a slash in the metafile key, which then names no emitted file
	{
		files := map[string]string{"a.js": "import(\"./d\\\\q.js\").then(x => console.log(x))\n", "d\\q.js": "export let v = 1\n"}
		res, dir := namedBuild(st, "corpus-K", files, []string{"a.js"}, false, true, nil)
		if len(res.Errors) == 0 {
			root, _, err := parseJSON(res.Metafile)
			if err == nil {
				emitted := map[string]bool{}
				for _, f := range res.OutputFiles {
					rel, _ := filepath.Rel(dir, f.Path)
					emitted[rel] = true
				}
				bad := ""
				for _, k := range root.get("outputs").keys {
					if !emitted[k] {
						bad = k
					}
				}
				st.Note("corpus", "backslash-in-chunk-name", bad != "")
				if bad != "" {
					st.Fail("metafile-outputs-differ-from-emitted-files", map[string]interface{}{"scenario": "backslash-in-file-name-becomes-slash-in-metafile-key", "label": "corpus", "files": files}, bad, "the path of an emitted file")
				}
			}
		}
	}
	// L (fixed by 6fea80b, must pass): charset=utf8 writes an invalid byte of a file name as an escaped U+FFFD
	{
		files := map[string]string{"a\xffb.js": "console.log(1)\n"}
		res, _ := namedBuild(st, "corpus-L", files, []string{"a\xffb.js"}, true, false, nil)
		if len(res.Errors) == 0 {
			st.Note("corpus", "invalid-utf8-file-name", true)
			in := map[string]interface{}{"scenario": "invalid-byte-of-file-name-copied-with-charset-utf8", "label": "corpus", "file": "a\\xffb.js"}
			if !utf8.ValidString(res.Metafile) {
				st.Fail("metafile-is-not-utf8", in, "metafile contains the byte 0xFF", "UTF-8 (RFC 8259 section 8.1)")
			} else if root, _, err := parseJSON(res.Metafile); err != nil || root.get("inputs").get("a\ufffdb.js") == nil {
				st.Fail("metafile-input-key-wrong", in, res.Metafile, "inputs has the key a<U+FFFD>b.js")
			}
		}
	}
}
