package main

// C17: builds never clobber inputs; failed builds write nothing.
//
//  1. compile cases: bundler.ScanBundle on a mock file system + Bundle.Compile
//     driven with a stub linker that returns arbitrary output files; the
//     returned files and the error flag are compared with the model's
//     [compile] (overwrite check, duplicate-path rule, canonical paths).
//  2. histories: real temporary directories, api.Build / api.Context+Rebuild /
//     the CLI entry point; before and after every step the directory tree is
//     snapshotted; the model predicts the tree and the set of rewritten files
//     (check_hist), the specification predicates are evaluated on the observed
//     trees in Coq (check_spec) and, independently, here (oracle -> st.Fail
//     with the concrete scenario).

import (
	"bytes"
	"encoding/json"
	"fmt"
	"os"
	"os/exec"
	"path/filepath"
	"regexp"
	"sort"
	"strings"
	"time"

	"github.com/evanw/esbuild/internal/bundler"
	"github.com/evanw/esbuild/internal/cache"
	"github.com/evanw/esbuild/internal/config"
	"github.com/evanw/esbuild/internal/fs"
	"github.com/evanw/esbuild/internal/graph"
	"github.com/evanw/esbuild/internal/helpers"
	"github.com/evanw/esbuild/internal/logger"
	"github.com/evanw/esbuild/internal/resolver"
	"github.com/evanw/esbuild/pkg/api"
	"github.com/evanw/esbuild/pkg/cli"
	. "github.com/evanw/esbuild/verifharness/hlib"
)

func main() { Main("c17", runC17) }

// ---------------------------------------------------------------- encoding

type encoder struct {
	contents map[string]int
	hashes   map[string]int
}

func newEncoder() *encoder { return &encoder{map[string]int{}, map[string]int{}} }

// contents are interned injectively: the model only compares contents for equality
func (e *encoder) content(b []byte) string {
	id, ok := e.contents[string(b)]
	if !ok {
		id = len(e.contents) + 1
		e.contents[string(b)] = id
	}
	return fmt.Sprintf("[%d]", id)
}
func (e *encoder) hash(h string) string {
	id, ok := e.hashes[h]
	if !ok {
		id = len(e.hashes) + 1
		e.hashes[h] = id
	}
	return fmt.Sprintf("%d", id)
}
func cpath(p string) string { return CBytes([]byte(p)) }
func cpaths(ps []string) string {
	items := make([]string, len(ps))
	for i, p := range ps {
		items[i] = cpath(p)
	}
	return "[" + strings.Join(items, ";") + "]"
}
func (e *encoder) tree(files map[string][]byte) string {
	keys := sortedKeys(files)
	items := make([]string, len(keys))
	for i, k := range keys {
		items[i] = "(" + cpath(k) + "," + e.content(files[k]) + ")"
	}
	return "[" + strings.Join(items, ";") + "]"
}
func sortedKeys(m map[string][]byte) []string {
	keys := make([]string, 0, len(m))
	for k := range m {
		keys = append(keys, k)
	}
	sort.Strings(keys)
	return keys
}

// ---------------------------------------------------------------- snapshots

type snap struct {
	files map[string][]byte // regular files, path relative to the root with a leading slash
	dirs  map[string]bool
	links map[string]string
	mtime map[string]time.Time
}

func takeSnap(root string) *snap {
	s := &snap{map[string][]byte{}, map[string]bool{}, map[string]string{}, map[string]time.Time{}}
	filepath.Walk(root, func(p string, info os.FileInfo, err error) error {
		if err != nil || p == root {
			return nil
		}
		rel := strings.TrimPrefix(p, root)
		switch {
		case info.Mode()&os.ModeSymlink != 0:
			t, _ := os.Readlink(p)
			s.links[rel] = t
		case info.IsDir():
			s.dirs[rel] = true
		default:
			b, _ := os.ReadFile(p)
			s.files[rel] = b
			s.mtime[rel] = info.ModTime()
		}
		return nil
	})
	return s
}

func setSentinel(root string, s *snap, t time.Time) {
	for rel := range s.files {
		os.Chtimes(root+rel, t, t)
	}
}

// the file a path denotes (symbolic links resolved); the path need not exist
func physPath(p string) string {
	if r, err := filepath.EvalSymlinks(p); err == nil {
		return r
	}
	if d, err := filepath.EvalSymlinks(filepath.Dir(p)); err == nil {
		return filepath.Join(d, filepath.Base(p))
	}
	return p
}

// ---------------------------------------------------------------- scenarios

type edit struct {
	path    string // relative, leading slash
	content *string
}

type stepSpec struct {
	label    string
	mkdirs   []string // directories the user creates before the step (relative, leading slash)
	edits    []edit
	onEndErr bool
	cancel   bool
	cancelLate bool // Cancel() is called while the on-end callbacks run (after rebuildImpl's only check)
}

type scenario struct {
	kind       string
	files      map[string]string
	symlinks   [][2]string // (link path relative to root, target as given to symlink(2))
	dirLinks   [][2]string // for the model: (link dir, target dir) relative with leading slash
	fileLinks  bool        // a final-component symlink is involved: oracle only, no model case
	opts       func(root string) api.BuildOptions
	steps      []stepSpec
	useCtx     bool
	dotdot     bool     // a name template contains a parent-directory segment
	configIns  []string // files read as configuration (tsconfig.json ...)
	viaCLI     []string // run through the CLI entry point with these arguments
	desc       string
	importsOut map[int][]string // step -> relative paths of previous outputs that are inputs of that step
}

func sp(s string) *string { return &s }

func describe(sc *scenario, root string, upto int, tag string) map[string]interface{} {
	steps := []interface{}{}
	for i, s := range sc.steps {
		if i > upto {
			break
		}
		ed := []string{}
		for _, e := range s.edits {
			if e.content == nil {
				ed = append(ed, "rm "+e.path)
			} else {
				ed = append(ed, fmt.Sprintf("write %s %q", e.path, *e.content))
			}
		}
		steps = append(steps, map[string]interface{}{"label": s.label, "edits": ed, "onEndError": s.onEndErr, "cancel": s.cancel})
	}
	if tag == "" {
		tag = "none"
	}
	m := map[string]interface{}{"scenario": tag, "generator": sc.kind, "options": sc.desc, "files": sc.files, "symlinks": sc.symlinks, "steps": steps, "failing_step": upto, "context": sc.useCtx}
	if sc.viaCLI != nil {
		m["cli_args"] = sc.viaCLI
	}
	return m
}

type stepObs struct {
	wfail       []string // reported output paths (relative) whose directory creation or write failed
	failedEarly bool
	onEnd       bool
	outs        []api.OutputFile
	ins         []string
	rewritten   []string
	before      *snap // after the edits
	after       *snap
	edits       []edit
}

var assetRef = regexp.MustCompile(`"(\./[A-Za-z0-9_./-]+\.txt)"`)
var devNull *os.File
var failedWrites map[string]bool // per scenario: output paths whose write failed in an earlier step

func isIOError(text string) bool {
	return strings.HasPrefix(text, "Failed to write to output file: ") || strings.HasPrefix(text, "Failed to create output directory: ")
}

// "Failed to write to output file: open <path>: ..." / "Failed to create output directory: mkdir <dir>: ..."
func ioErrorPath(text string) (string, bool, bool) {
	for _, pf := range []struct {
		prefix string
		dir    bool
	}{{"Failed to write to output file: open ", false}, {"Failed to create output directory: mkdir ", true}} {
		if strings.HasPrefix(text, pf.prefix) {
			rest := text[len(pf.prefix):]
			if i := strings.Index(rest, ": "); i >= 0 {
				return rest[:i], pf.dir, true
			}
		}
	}
	return "", false, false
}

var cliBinary string // thorough tier: cmd/esbuild built from the tree under test
var knownSeen = map[string]int{}

func failKnown2(st *Stats, fk func(string, interface{}, interface{}, interface{}), kind string, input, got, expect interface{}) {
	if kind == "input-overwritten" {
		st.Fail(kind, input, got, expect)
	} else {
		fk(kind, input, got, expect)
	}
}

// runs one scenario on a real directory; returns the Coq hist_case (or "")
func runScenario(sc *scenario, st *Stats, enc *encoder) string {
	tmp, err := os.MkdirTemp("", "verif-c17-")
	if err != nil {
		panic(err)
	}
	defer os.RemoveAll(tmp)
	root, _ := filepath.EvalSymlinks(tmp)
	for rel, c := range sc.files {
		os.MkdirAll(filepath.Dir(root+rel), 0o755)
		os.WriteFile(root+rel, []byte(c), 0o644)
	}
	for _, l := range sc.symlinks {
		os.MkdirAll(filepath.Dir(root+l[0]), 0o755)
		if err := os.Symlink(l[1], root+l[0]); err != nil {
			panic(err)
		}
	}
	initial := takeSnap(root)

	cur := 0
	errsAtEnd := 0
	var ctx api.BuildContext
	o := sc.opts(root)
	o.AbsWorkingDir = root
	o.LogLevel = api.LogLevelSilent
	o.Metafile = true
	hasCancel := false
	for _, s := range sc.steps {
		hasCancel = hasCancel || s.cancel
	}
	o.Plugins = append(o.Plugins, api.Plugin{Name: "verif", Setup: func(b api.PluginBuild) {
		b.OnEnd(func(r *api.BuildResult) (api.OnEndResult, error) {
			errsAtEnd = 0
			for _, e := range r.Errors {
				if !isIOError(e.Text) {
					errsAtEnd++ // errors present when the write phase started
				}
			}
			if sc.steps[cur].cancelLate && ctx != nil {
				go ctx.Cancel() // returns only when this build has ended
				time.Sleep(30 * time.Millisecond)
			}
			if sc.steps[cur].onEndErr {
				return api.OnEndResult{Errors: []api.Message{{Text: "on-end failure"}}}, nil
			}
			return api.OnEndResult{}, nil
		})
		if hasCancel {
			b.OnLoad(api.OnLoadOptions{Filter: ".*"}, func(api.OnLoadArgs) (api.OnLoadResult, error) {
				if sc.steps[cur].cancel && ctx != nil {
					go ctx.Cancel()
					time.Sleep(40 * time.Millisecond)
				}
				return api.OnLoadResult{}, nil
			})
		}
	}})
	write := o.Write
	allow := o.AllowOverwrite
	stdout := o.Outdir == "" && o.Outfile == ""
	outdirAbs := ""
	if o.Outdir != "" {
		outdirAbs = filepath.Join(root, o.Outdir)
	} else if o.Outfile != "" {
		outdirAbs = filepath.Dir(filepath.Join(root, o.Outfile))
	}

	var ctxErr *api.ContextError
	if sc.useCtx {
		ctx, ctxErr = api.Context(o)
		if ctxErr == nil {
			defer ctx.Dispose()
		}
	}

	own := map[string]bool{}
	failedWrites = map[string]bool{}
	prevFiles := initial.files
	var obs []stepObs
	base := time.Date(2001, 1, 1, 0, 0, 0, 0, time.UTC)
	for i := range sc.steps {
		cur = i
		stp := sc.steps[i]
		for _, d := range stp.mkdirs {
			os.MkdirAll(root+d, 0o755)
		}
		for _, e := range stp.edits {
			if e.content == nil {
				os.Remove(root + e.path)
			} else {
				os.MkdirAll(filepath.Dir(root+e.path), 0o755)
				os.WriteFile(root+e.path, []byte(*e.content), 0o644)
			}
		}
		sentinel := base.Add(time.Duration(i) * time.Hour)
		setSentinel(root, takeSnap(root), sentinel)
		before := takeSnap(root)
		errsAtEnd = -1
		var res api.BuildResult
		saved := os.Stdout
		os.Stdout = devNull
		var capture *os.File
		if stdout {
			capture, _ = os.CreateTemp("", "verif-c17-stdout-")
			os.Stdout = capture
		}
		switch {
		case sc.viaCLI != nil:
			res = runCLI(sc, root, o, &errsAtEnd)
		case sc.useCtx && ctxErr != nil:
			res = api.BuildResult{Errors: ctxErr.Errors}
		case sc.useCtx:
			res = ctx.Rebuild()
		default:
			res = api.Build(o)
		}
		os.Stdout = saved
		after := takeSnap(root)
		var printed []byte
		if capture != nil {
			capture.Close()
			printed, _ = os.ReadFile(capture.Name())
			os.Remove(capture.Name())
		}

		failedEarly := errsAtEnd != 0
		if errsAtEnd < 0 { // validation error: the build never started
			failedEarly = true
		}
		ob := stepObs{failedEarly: failedEarly, onEnd: stp.onEndErr && errsAtEnd == 0, outs: res.OutputFiles, before: before, after: after, edits: stp.edits}
		if sc.viaCLI != nil {
			ob.onEnd = false
		}
		// failures during the write phase, from the messages rebuildImpl logs
		for _, e := range res.Errors {
			if p, isDir, ok := ioErrorPath(e.Text); ok {
				for _, f := range res.OutputFiles {
					if (!isDir && f.Path == p) || (isDir && under(p, filepath.Dir(f.Path))) {
						rel := strings.TrimPrefix(f.Path, root)
						dup := false
						for _, x := range ob.wfail {
							dup = dup || x == rel
						}
						if !dup {
							ob.wfail = append(ob.wfail, rel)
							failedWrites[rel] = true
						}
					}
				}
			}
		}
		// inputs of a successful build, from the metafile
		if !failedEarly && res.Metafile != "" {
			var mf struct {
				Inputs map[string]json.RawMessage `json:"inputs"`
			}
			if json.Unmarshal([]byte(res.Metafile), &mf) == nil {
				for k := range mf.Inputs {
					p := filepath.Join(root, k)
					if _, err := os.Lstat(p); err == nil || before.files[strings.TrimPrefix(physPath(p), root)] != nil {
						ob.ins = append(ob.ins, strings.TrimPrefix(physPath(p), root))
					}
				}
				sort.Strings(ob.ins)
			}
		}
		// files created or rewritten (mtime differs from the sentinel)
		for rel := range after.files {
			if _, ok := before.files[rel]; !ok || !after.mtime[rel].Equal(sentinel) {
				ob.rewritten = append(ob.rewritten, rel)
			}
		}
		sort.Strings(ob.rewritten)

		// a file the user creates where none was is the user's, whatever an earlier build wrote there
		for _, e := range stp.edits {
			pp := strings.TrimPrefix(physPath(root+e.path), root)
			if _, existed := prevFiles[pp]; !existed && e.content != nil {
				delete(own, pp)
			}
		}
		if stdout {
			// stdout mode: the one reported output is what is printed, and only when the build succeeded and writes
			want := []byte{}
			if !failedEarly && write && len(res.OutputFiles) == 1 {
				want = res.OutputFiles[0].Contents
			}
			if !bytes.Equal(printed, want) {
				st.Fail("stdout-differs-from-reported-output", describe(sc, root, i, ""), string(printed), string(want))
			}
		}
		oracle(sc, root, i, &ob, st, write, allow, stdout, outdirAbs, own)
		for _, p := range ob.rewritten {
			own[p] = true
		}
		for p := range before.files {
			if _, ok := after.files[p]; !ok {
				delete(own, p) // deleted: the context no longer has a file there
			}
		}
		prevFiles = after.files
		obs = append(obs, ob)
		label := stp.label
		if failedEarly {
			label += "/failed"
		} else if ob.onEnd {
			label += "/onend-failed"
		} else {
			label += "/ok"
		}
		st.Note(sc.kind+":"+label, fmt.Sprintf("%s|%d|%v", sc.desc, i, before.files), len(ob.rewritten) > 0 || failedEarly)
	}

	if sc.fileLinks {
		return ""
	}
	// Coq case
	var steps []string
	for _, ob := range obs {
		var eds []string
		for _, e := range ob.edits {
			pp := strings.TrimPrefix(physPath(root+e.path), root)
			if e.content == nil {
				eds = append(eds, "("+cpath(pp)+",None)")
			} else {
				eds = append(eds, "("+cpath(pp)+",Some "+enc.content([]byte(*e.content))+")")
			}
		}
		var outs []string
		for _, f := range ob.outs {
			outs = append(outs, "("+cpath(strings.TrimPrefix(f.Path, root))+","+enc.content(f.Contents)+","+enc.hash(f.Hash)+")")
		}
		steps = append(steps, fmt.Sprintf("([%s],(%s,%s),[%s],%s,%s,%s,%s)", strings.Join(eds, ";"), CBool(ob.failedEarly), CBool(ob.onEnd),
			strings.Join(outs, ";"), cpaths(ob.ins), cpaths(ob.rewritten), enc.tree(ob.after.files), cpaths(ob.wfail)))
	}
	var links []string
	for _, l := range sc.dirLinks {
		links = append(links, "("+cpath(l[0])+","+cpath(l[1])+")")
	}
	return fmt.Sprintf("((%s,%s,%s),[%s],%s,[%s])", CBool(write), CBool(allow), CBool(stdout), strings.Join(links, ";"), enc.tree(initial.files), strings.Join(steps, ";\n   "))
}

// the CLI entry point, in process: cli.Run with the working directory set to
// the project.  What the build reports is obtained from the same arguments
// through cli.ParseBuildOptions + api.Build with writing disabled (on a tree
// that the CLI run has not touched yet).
func runCLI(sc *scenario, root string, _ api.BuildOptions, errsAtEnd *int) api.BuildResult {
	args := append([]string{}, sc.viaCLI...)
	args = append(args, "--log-level=silent")
	// flags that only the CLI understands are not part of the API options
	var apiArgs []string
	for _, a := range args {
		if !strings.HasPrefix(a, "--metafile=") && !strings.HasPrefix(a, "--mangle-cache=") {
			apiArgs = append(apiArgs, a)
		}
	}
	po, err := cli.ParseBuildOptions(apiArgs)
	if err != nil {
		panic("c17: cannot parse CLI arguments: " + err.Error())
	}
	po.AbsWorkingDir = root
	po.Write = false
	po.Metafile = true
	dry := api.Build(po)
	code := 0
	if cliBinary != "" {
		// the real executable built from the tree under test
		cmd := exec.Command(cliBinary, args...)
		cmd.Dir = root
		cmd.Stdout = os.Stdout
		if err := cmd.Run(); err != nil {
			code = 1
		}
	} else {
		wd, _ := os.Getwd()
		os.Chdir(root)
		code = cli.Run(args)
		os.Chdir(wd)
	}
	if code != 0 {
		// the CLI's own verdict: the build failed
		*errsAtEnd = 1
		return api.BuildResult{Errors: append(dry.Errors, api.Message{Text: "esbuild exited with a non-zero status"})}
	}
	if len(dry.Errors) > 0 {
		// the CLI succeeded where the dry run failed: nothing is known to be
		// reported, so that every write is flagged
		*errsAtEnd = 0
		return api.BuildResult{}
	}
	*errsAtEnd = 0
	// the CLI also writes the metafile when asked to; that is a reported output of the CLI
	for _, a := range args {
		if strings.HasPrefix(a, "--metafile=") {
			dry.OutputFiles = append(dry.OutputFiles, api.OutputFile{Path: filepath.Join(root, a[len("--metafile="):]), Contents: []byte(dry.Metafile), Hash: "metafile"})
		}
		if strings.HasPrefix(a, "--mangle-cache=") {
			// also written by the CLI itself; its contents are whatever the CLI serialised
			mp := filepath.Join(root, a[len("--mangle-cache="):])
			b, _ := os.ReadFile(mp)
			dry.OutputFiles = append(dry.OutputFiles, api.OutputFile{Path: mp, Contents: b, Hash: "metafile"})
		}
	}
	return dry
}

func under(dir, p string) bool {
	return p == dir || strings.HasPrefix(p, strings.TrimSuffix(dir, "/")+"/")
}

// the property's own predicate, evaluated on the observed trees
func oracle(sc *scenario, root string, i int, ob *stepObs, st *Stats, write, allow, stdout bool, outdirAbs string, own map[string]bool) {
	before, after := ob.before, ob.after
	var created, modified, deleted []string
	for rel, b := range after.files {
		if a, ok := before.files[rel]; !ok {
			created = append(created, rel)
		} else if !bytes.Equal(a, b) {
			modified = append(modified, rel)
		}
	}
	for rel := range before.files {
		if _, ok := after.files[rel]; !ok {
			deleted = append(deleted, rel)
		}
	}
	if os.Getenv("C17_DEBUG") != "" && sc.viaCLI != nil {
		fmt.Fprintln(os.Stderr, "DEBUG", sc.viaCLI, "failedEarly", ob.failedEarly, "created", created, "write", write, "stdout", stdout)
	}
	sort.Strings(created)
	sort.Strings(modified)
	sort.Strings(deleted)
	var newDirs, goneDirs, linkDiff []string
	for d := range after.dirs {
		if !before.dirs[d] {
			newDirs = append(newDirs, d)
		}
	}
	for d := range before.dirs {
		if !after.dirs[d] {
			goneDirs = append(goneDirs, d)
		}
	}
	for l, t := range before.links {
		if after.links[l] != t {
			linkDiff = append(linkDiff, l)
		}
	}
	for l := range after.links {
		if _, ok := before.links[l]; !ok {
			linkDiff = append(linkDiff, l)
		}
	}
	diff := map[string]interface{}{"created": created, "modified": modified, "deleted": deleted, "new_dirs": newDirs, "removed_dirs": goneDirs, "links_changed": linkDiff}
	in := func() map[string]interface{} { return describe(sc, root, i, "") }
	tagged := func(tag string) map[string]interface{} { return describe(sc, root, i, tag) }
	// recorded findings: keep the failure list free for anything else (the
	// histogram still counts every occurrence)
	failKnown := func(what string, input, got, expect interface{}) {
		knownSeen[what]++
		if knownSeen[what] <= 2 {
			st.Fail(what, input, got, expect)
		} else {
			st.Histogram["FAIL:"+what]++
		}
	}

	if len(goneDirs) > 0 || len(linkDiff) > 0 {
		neverWritten := len(linkDiff) == 0
		for _, d := range goneDirs {
			neverWritten = neverWritten && failedWrites[d]
		}
		if neverWritten {
			// finding J2, repaired by /repo commit b32af0b: must not come back
			st.Fail("rebuild-removed-directory-it-never-wrote", tagged("failed-write-path-stays-in-hash-table"), diff, "a rebuild only deletes files an earlier build of the context wrote")
		} else {
			st.Fail("directory-or-link-removed", in(), diff, "a build never removes directories or touches symbolic links")
		}
	}
	reported := map[string][]byte{}
	for _, f := range ob.outs {
		pp := strings.TrimPrefix(physPath(f.Path), root)
		if prev, ok := reported[pp]; ok && !bytes.Equal(prev, f.Contents) {
			st.Fail("two-outputs-one-path", in(), f.Path, "two reported outputs denote one file with different contents")
		}
		reported[pp] = f.Contents
	}

	if ob.failedEarly || !write || stdout {
		// must not create or modify anything
		if len(created)+len(modified)+len(newDirs) > 0 {
			st.Fail("failed-or-nonwriting-build-wrote-files", in(), diff, "no file created or modified by a build that reports errors, is cancelled, or has writing disabled")
		} else if len(deleted) > 0 {
			ownOnly := true
			for _, d := range deleted {
				ownOnly = ownOnly && own[d]
			}
			if ob.failedEarly && write && !stdout && ownOnly {
				// DESIGN §7-F, repaired by /repo commit d19e8cb: must not come back
				st.Fail("failed-rebuild-deleted-files", tagged("failed-rebuild-deletes-previous-outputs"), diff, "a build that reports errors leaves the tree unchanged")
			} else {
				st.Fail("failed-or-nonwriting-build-deleted-foreign-files", in(), diff, "no file deleted")
			}
		}
		return
	}

	// successful (up to on-end) writing build
	isWFail := map[string]bool{}
	for _, p := range ob.wfail {
		isWFail[p] = true
	}
	if len(ob.wfail) > 0 && len(created)+len(modified) > 0 {
		// known, unavoidable without a rollback: the error arises while the other files are being written
		failKnown("write-error-build-wrote-files", tagged("write-error-after-partial-write"), diff, "a build that reports errors creates or modifies no file")
	}
	for pp, c := range reported {
		if isWFail[pp] {
			if _, ok := after.files[pp]; ok && before.files[pp] == nil {
				st.Fail("failed-write-left-a-file", in(), pp, "nothing at the path of a failed write")
			}
			continue
		}
		if got, ok := after.files[pp]; !ok || !bytes.Equal(got, c) {
			st.Fail("reported-output-not-on-disk", in(), map[string]interface{}{"path": pp, "on_disk": string(got), "exists": ok}, string(c))
		}
	}
	// every file-loader asset a reported script refers to was written
	if write {
		for _, f := range ob.outs {
			if !strings.HasSuffix(f.Path, "js") {
				continue
			}
			for _, m := range assetRef.FindAllStringSubmatch(string(f.Contents), -1) {
				target := strings.TrimPrefix(physPath(filepath.Join(filepath.Dir(f.Path), m[1])), root)
				_, ok := after.files[target]
				// only a reference whose target was replaced by a case variant among the reported
				// outputs is esbuild's doing (finding K, repaired by /repo commit 11ec04b); a missing
				// target alone can be a string of a source file (an earlier output that the entry
				// glob picked up as an input)
				variantKept := false
				for pp := range reported {
					variantKept = variantKept || (pp != target && strings.EqualFold(pp, target))
				}
				if !ok && variantKept {
					st.Fail("asset-reference-dangling", in(), map[string]interface{}{"script": strings.TrimPrefix(f.Path, root), "refers_to": m[1]}, "the asset exists")
				}
			}
		}
	}
	for _, p := range append(append([]string{}, created...), modified...) {
		if _, ok := reported[p]; !ok {
			st.Fail("unreported-write", in(), diff, "every created or modified file is a reported output")
		}
	}
	for _, p := range deleted {
		if _, isOut := reported[p]; !own[p] || isOut {
			st.Fail("deleted-foreign-file", in(), diff, "a rebuild only deletes files an earlier build of the context wrote and that are not current outputs")
		}
	}
	for _, d := range newDirs {
		ok := false
		for pp := range reported {
			ok = ok || under(d, pp)
		}
		if !ok {
			st.Fail("unrelated-directory-created", in(), diff, "only ancestors of outputs are created")
		}
	}
	if !sc.dotdot && outdirAbs != "" {
		for _, f := range ob.outs {
			if !under(outdirAbs, f.Path) && f.Hash != "metafile" {
				st.Fail("output-outside-outdir", in(), f.Path, "inside "+outdirAbs)
			}
		}
	}
	if !allow {
		inputs := append(append([]string{}, ob.ins...), sc.configIns...)
		for _, p := range inputs {
			b, okb := before.files[p]
			a, oka := after.files[p]
			if okb && (!oka || !bytes.Equal(a, b)) {
				kind, tag := "input-overwritten", ""
				if !oka && own[p] {
					// a stale output of the previous build that is an input of this build
					kind, tag = "input-deleted-by-successful-rebuild", "stale-output-that-is-an-input-deleted"
				}
				if len(sc.symlinks) > 0 {
					kind, tag = "input-overwritten-via-symlink", "symlink-aliases-input-file" // known finding G
				}
				for _, c := range sc.configIns {
					if c == p {
						kind, tag = "config-input-overwritten", "out-extension-maps-onto-tsconfig-json" // known finding H
					}
				}
				failKnown2(st, failKnown, kind, tagged(tag), map[string]interface{}{"input": p, "before": string(b), "after": string(a), "exists_after": oka}, "inputs are never overwritten or deleted unless AllowOverwrite")
			}
		}
	}
	if sc.steps[i].cancelLate && len(created)+len(modified) > 0 {
		// known: the cancel flag is not read after the check that follows Compile
		failKnown("cancel-during-build-but-files-written", tagged("cancel-lands-after-the-check"), diff, "a build during which Cancel() was called writes nothing")
	}
	if ob.onEnd && len(created)+len(modified) > 0 {
		// known, by design upstream: on-end callbacks run after the write phase
		failKnown("onend-error-build-wrote-files", tagged("on-end-plugin-error-after-write"), diff, "a build that reports errors creates or modifies no file")
	}
}

// ---------------------------------------------------------------- generators

func jsBody(tag string, v int) string { return fmt.Sprintf("console.log(%q, %d)\n", tag, v) }

type entryState struct {
	name     string
	version  int
	mode     int // 0 ok, 1 syntax error, 2 missing import, 3 link error (missing export), 4 imports a previous output
	asset    bool
	impOut   string
	dynamic  bool
	deleted  bool
}

func aliveEntries(ents []*entryState) int {
	n := 0
	for _, e := range ents {
		if !e.deleted {
			n++
		}
	}
	return n
}

// random rebuild history over one context (family A)
func genHistory(r *Rng, idx int) *scenario {
	sc := &scenario{kind: "history", files: map[string]string{}, useCtx: true}
	nEntries := r.Range(1, 3)
	glob := r.Chance(50)
	bundle := r.Chance(70)
	splitting := bundle && r.Chance(25)
	outdir := r.Pick([]string{"out", "out", "src/out", "dist/deep", "src"})
	entryNames := r.Pick([]string{"", "", "[name]", "[dir]/[name]", "[name]-[hash]", "sub/[name]"})
	assetNames := r.Pick([]string{"", "[name]", "[name]-[hash]", "assets/[name]"})
	outExt := ""
	if outdir == "src" {
		outExt = r.Pick([]string{".mjs", ".out.js", ".mjs", ""})
	}
	write := !r.Chance(12)
	allow := r.Chance(20)
	ents := make([]*entryState, nEntries)
	for i := range ents {
		ents[i] = &entryState{name: fmt.Sprintf("e%d", i), asset: bundle && r.Chance(30), dynamic: splitting && r.Chance(50)}
	}
	render := func(e *entryState) string {
		var sb strings.Builder
		if bundle {
			sb.WriteString("import { lib } from './lib.js'\n")
			if e.asset {
				sb.WriteString("import url from './data.txt'\nconsole.log(url)\n")
			}
			if e.dynamic {
				sb.WriteString("import('./dyn.js')\n")
			}
			switch e.mode {
			case 2:
				sb.WriteString("import './missing-file.js'\n")
			case 3:
				sb.WriteString("import { nope } from './lib.js'\nconsole.log(nope)\n")
			case 4:
				sb.WriteString("import '" + e.impOut + "'\n")
			}
			sb.WriteString("console.log(lib)\n")
		}
		sb.WriteString(jsBody(e.name, e.version))
		if e.mode == 1 {
			sb.WriteString("let = = ;\n")
		}
		return sb.String()
	}
	sc.files["/src/lib.js"] = "export const lib = 'lib0'\n"
	sc.files["/src/dyn.js"] = "export const dyn = 'dyn0'\n"
	sc.files["/src/data.txt"] = "asset-0"
	sc.files["/out/keep.txt"] = "foreign file in the output directory"
	sc.files["/notes.md"] = "unrelated"
	var entryArgs []string
	for _, e := range ents {
		sc.files["/src/"+e.name+".js"] = render(e)
		entryArgs = append(entryArgs, "src/"+e.name+".js")
	}
	if glob {
		entryArgs = []string{"src/e*.js"}
	}
	sc.desc = fmt.Sprintf("ctx entries=%v outdir=%s bundle=%v splitting=%v entryNames=%q assetNames=%q outExt=%q write=%v allowOverwrite=%v", entryArgs, outdir, bundle, splitting, entryNames, assetNames, outExt, write, allow)
	sc.opts = func(root string) api.BuildOptions {
		o := api.BuildOptions{EntryPoints: entryArgs, Outdir: outdir, Bundle: bundle, Splitting: splitting, Format: api.FormatESModule,
			EntryNames: entryNames, AssetNames: assetNames, Write: write, AllowOverwrite: allow,
			Loader: map[string]api.Loader{".txt": api.LoaderFile}}
		if outExt != "" {
			o.OutExtension = map[string]string{".js": outExt}
		}
		return o
	}
	// where an entry's output lands (only used to build an import of a previous output)
	outRel := func(e *entryState) string {
		ext := ".js"
		if outExt != "" {
			ext = outExt
		}
		switch entryNames {
		case "sub/[name]":
			return "/" + outdir + "/sub/" + e.name + ext
		case "[name]-[hash]":
			return ""
		}
		return "/" + outdir + "/" + e.name + ext
	}
	nSteps := r.Range(2, 5)
	libV, assetV := 0, 0
	var removedOuts []string
	for s := 0; s < nSteps; s++ {
		stp := stepSpec{label: "rebuild"}
		if s > 0 {
			nm := r.Range(1, 2)
			for m := 0; m < nm; m++ {
				e := ents[r.Intn(len(ents))]
				switch k := r.Intn(14); {
				case k < 3:
					e.version++
					e.mode = 0
					stp.label = "edit"
				case k == 3:
					e.mode = 1
					stp.label = "syntax-error"
				case k == 4 && bundle:
					e.mode = 2
					stp.label = "missing-import"
				case k == 5 && bundle:
					e.mode = 3
					stp.label = "link-error"
				case k == 6 && bundle && outRel(ents[0]) != "":
					// an output of the previous build becomes an input (DESIGN §7-F)
					other := ents[r.Intn(len(ents))]
					rel, _ := filepath.Rel("/src", outRel(other))
					if !strings.HasPrefix(rel, ".") {
						rel = "./" + rel
					}
					e.mode = 4
					e.impOut = rel
					stp.label = "import-previous-output"
				case k == 7 && glob:
					ne := &entryState{name: fmt.Sprintf("e%d", len(ents)+3), asset: bundle && r.Bool()}
					ents = append(ents, ne)
					stp.label = "add-entry"
				case k == 8 && glob && !e.deleted && aliveEntries(ents) > 1:
					e.deleted = true
					stp.label = "remove-entry"
					if o := outRel(e); o != "" {
						removedOuts = append(removedOuts, o)
					}
				case k == 9:
					e.asset = bundle && !e.asset
					assetV++
					stp.label = "toggle-asset"
				case k == 10:
					libV++
					stp.label = "edit-lib"
				case k == 11:
					stp.onEndErr = true
					stp.label = "onend-error"
				case k == 12:
					stp.cancel = true
					stp.label = "cancel"
				default:
					for _, x := range ents {
						x.mode = 0
					}
					stp.label = "fix-all"
				}
			}
			// the user puts a file of their own where a removed entry's output used to be
			if len(removedOuts) > 0 && stp.label != "remove-entry" && r.Chance(60) {
				stp.edits = append(stp.edits, edit{removedOuts[0], sp("// the user's own file\n")})
				removedOuts = removedOuts[1:]
				stp.label += "+foreign-file-at-old-output"
			}
			// tamper with what is on disk in the output directory
			if r.Chance(25) {
				tgt := outRel(ents[r.Intn(len(ents))])
				if tgt != "" && !strings.HasPrefix(tgt, "/src/e") {
					if r.Bool() {
						stp.edits = append(stp.edits, edit{tgt, sp("// tampered by the user\n")})
					} else {
						stp.edits = append(stp.edits, edit{tgt, nil})
					}
					stp.label += "+tamper"
				}
			}
		}
		// materialise the sources
		want := map[string]string{"/src/lib.js": fmt.Sprintf("export const lib = 'lib%d'\n", libV), "/src/data.txt": fmt.Sprintf("asset-%d", assetV)}
		alive := ents[:0:0]
		for _, e := range ents {
			if e.deleted {
				stp.edits = append(stp.edits, edit{"/src/" + e.name + ".js", nil})
				continue
			}
			alive = append(alive, e)
			want["/src/"+e.name+".js"] = render(e)
		}
		ents = alive
		if s > 0 {
			keys := make([]string, 0, len(want))
			for k := range want {
				keys = append(keys, k)
			}
			sort.Strings(keys)
			for _, k := range keys {
				stp.edits = append(stp.edits, edit{k, sp(want[k])})
			}
		}
		sc.steps = append(sc.steps, stp)
	}
	return sc
}

// single builds in which output locations coincide with inputs (family B)
func genCollision(r *Rng, idx int) *scenario {
	sc := &scenario{kind: "collision", files: map[string]string{}}
	write := !r.Chance(15)
	allow := r.Chance(30)
	sc.steps = []stepSpec{{label: "build"}}
	if r.Chance(30) {
		sc.useCtx = true
		sc.steps = append(sc.steps, stepSpec{label: "rebuild"})
	}
	if r.Chance(10) {
		sc.steps[0].onEndErr = true
	}
	k := idx % 16
	var o api.BuildOptions
	switch k {
	case 0: // outdir equal to the source directory, same extension
		sc.files["/src/a.js"] = jsBody("a", 1)
		sc.files["/src/b.js"] = jsBody("b", 1)
		o = api.BuildOptions{EntryPoints: []string{"src/a.js", "src/b.js"}, Outdir: "src"}
		sc.desc = "entries src/a.js src/b.js outdir=src"
	case 1: // out-extension equal to the input extension
		sc.files["/src/a.mjs"] = jsBody("a", 1)
		o = api.BuildOptions{EntryPoints: []string{"src/a.mjs"}, Outdir: "src", OutExtension: map[string]string{".js": ".mjs"}}
		sc.desc = "entry src/a.mjs outdir=src out-extension .js=.mjs"
	case 2: // ts next to its js: a.js is imported (an input) and is the output path
		sc.files["/src/a.ts"] = "import './a.js'\nexport let x: number = 1\n"
		sc.files["/src/a.js"] = jsBody("side", 1)
		bundle := r.Bool()
		o = api.BuildOptions{EntryPoints: []string{"src/a.ts"}, Outdir: "src", Bundle: bundle}
		sc.desc = fmt.Sprintf("entry src/a.ts (imports ./a.js) outdir=src bundle=%v", bundle)
	case 3: // file loader asset whose hash-less output name equals its source name
		sc.files["/src/a.js"] = "import u from './data.txt'\nconsole.log(u)\n"
		sc.files["/src/data.txt"] = "payload"
		o = api.BuildOptions{EntryPoints: []string{"src/a.js"}, Outdir: "src", OutExtension: map[string]string{".js": ".mjs"}, Bundle: true,
			AssetNames: "[name]", Loader: map[string]api.Loader{".txt": api.LoaderFile}}
		sc.desc = "entry src/a.js imports ./data.txt (file loader) asset-names=[name] outdir=src"
	case 4: // copy loader entry onto itself
		sc.files["/src/data.txt"] = "payload"
		sc.files["/src/a.js"] = jsBody("a", 1)
		o = api.BuildOptions{EntryPoints: []string{"src/data.txt", "src/a.js"}, Outdir: "src", OutExtension: map[string]string{".js": ".mjs"},
			Loader: map[string]api.Loader{".txt": api.LoaderCopy}}
		sc.desc = "entries src/data.txt (copy loader) src/a.js outdir=src"
	case 5: // outbase/outdir pair that maps an entry onto itself
		sc.files["/src/deep/a.js"] = jsBody("a", 1)
		o = api.BuildOptions{EntryPoints: []string{"src/deep/a.js"}, Outdir: "src", Outbase: "src"}
		sc.desc = "entry src/deep/a.js outbase=src outdir=src"
	case 6: // two assets with the same hash-less name
		same := r.Bool()
		sc.files["/src/a.js"] = "import u from './x/d.txt'\nimport v from './y/d.txt'\nconsole.log(u, v)\n"
		sc.files["/src/x/d.txt"] = "payload"
		sc.files["/src/y/d.txt"] = "payload"
		if !same {
			sc.files["/src/y/d.txt"] = "other payload"
		}
		o = api.BuildOptions{EntryPoints: []string{"src/a.js"}, Outdir: "out", Bundle: true, AssetNames: "[name]", Loader: map[string]api.Loader{".txt": api.LoaderFile}}
		sc.desc = fmt.Sprintf("two file-loader assets x/d.txt y/d.txt asset-names=[name] same-contents=%v", same)
	case 7: // two entries with the same hash-less name
		sc.files["/src/x/i.js"] = jsBody("i", 1)
		sc.files["/src/y/i.js"] = jsBody("i", 1)
		o = api.BuildOptions{EntryPoints: []string{"src/x/i.js", "src/y/i.js"}, Outdir: "out", EntryNames: "[name]"}
		sc.desc = "entries src/x/i.js src/y/i.js entry-names=[name]"
	case 8: // case variants
		sc.files["/src/A.js"] = jsBody("A", 1)
		o = api.BuildOptions{EntryPoints: []string{"src/A.js"}, Outfile: "src/a.js"}
		sc.desc = "entry src/A.js outfile=src/a.js"
	case 9:
		sc.files["/src/x.js"] = jsBody("x", 1)
		sc.files["/src/X.js"] = jsBody("X", 1)
		o = api.BuildOptions{EntryPoints: []string{"src/x.js", "src/X.js"}, Outdir: "out"}
		sc.desc = "entries src/x.js src/X.js outdir=out"
	case 10: // parent-directory segment in a template: outputs may leave outdir
		sc.files["/src/a.js"] = jsBody("a", 1)
		sc.dotdot = true
		o = api.BuildOptions{EntryPoints: []string{"src/a.js"}, Outdir: "out/deep", EntryNames: "../esc/[name]"}
		sc.desc = "entry src/a.js outdir=out/deep entry-names=../esc/[name]"
	case 11: // outfile equal to the entry
		sc.files["/src/a.js"] = jsBody("a", 1)
		o = api.BuildOptions{EntryPoints: []string{"src/a.js"}, Outfile: "src/a.js"}
		sc.desc = "entry src/a.js outfile=src/a.js"
	case 12: // nested templates, outdir inside the source directory, outputs with source maps
		sc.files["/src/a.js"] = jsBody("a", 1)
		sc.files["/src/b/c.js"] = jsBody("c", 1)
		o = api.BuildOptions{EntryPoints: []string{"src/a.js", "src/b/c.js"}, Outdir: "src/out", EntryNames: "[dir]/x-[name]", Sourcemap: api.SourceMapLinked}
		sc.desc = "entries src/a.js src/b/c.js outdir=src/out entry-names=[dir]/x-[name] sourcemap"
	case 13: // stdin entry and an outfile onto an imported file
		sc.files["/src/dep.js"] = jsBody("dep", 1)
		o = api.BuildOptions{Stdin: &api.StdinOptions{Contents: "import './dep.js'\n", ResolveDir: "src", Sourcefile: "in.js"}, Outfile: "src/dep.js", Bundle: true}
		sc.desc = "stdin imports ./dep.js outfile=src/dep.js bundle"
	case 15: // stdout mode: neither outfile nor outdir
		sc.files["/src/a.js"] = "import './b.js'\n" + jsBody("a", 1)
		sc.files["/src/b.js"] = jsBody("b", 1)
		bundle := r.Bool()
		eps := []string{"src/a.js"}
		if !bundle && r.Chance(30) {
			eps = append(eps, "src/b.js") // two entries without outdir: a validation error
		}
		o = api.BuildOptions{EntryPoints: eps, Bundle: bundle}
		sc.desc = fmt.Sprintf("entries %v no outfile/outdir (stdout mode) bundle=%v", eps, bundle)
	case 14: // an entry outside outbase: its output must stay inside outdir
		sc.files["/src/a.js"] = jsBody("a", 1)
		sc.files["/other/b.js"] = jsBody("b", 1)
		sc.files["/c.js"] = jsBody("c", 1)
		o = api.BuildOptions{EntryPoints: []string{"src/a.js", "other/b.js", "c.js"}, Outdir: "out", Outbase: "src"}
		sc.desc = "entries src/a.js other/b.js c.js outbase=src outdir=out"
	}
	o.Write = write
	o.AllowOverwrite = allow
	sc.desc += fmt.Sprintf(" write=%v allowOverwrite=%v ctx=%v", write, allow, sc.useCtx)
	absify := func(root string) api.BuildOptions {
		oo := o
		if oo.Stdin != nil {
			s := *oo.Stdin
			s.ResolveDir = filepath.Join(root, s.ResolveDir)
			oo.Stdin = &s
		}
		return oo
	}
	sc.opts = absify
	return sc
}

// deterministic scenarios for the findings and for the CLI
func fixedScenarios() []*scenario {
	var out []*scenario
	// DESIGN §7-F (repaired by d19e8cb): the witness histories stay in the corpus and must pass
	f := &scenario{kind: "fixed-F-corpus", useCtx: true, files: map[string]string{"/src/a.js": "console.log(1)\n", "/src/old.js": "console.log(2)\n"},
		desc: "ctx entries src/a.js src/old.js outdir=out bundle write=true"}
	f.opts = func(string) api.BuildOptions {
		return api.BuildOptions{EntryPoints: []string{"src/a.js", "src/old.js"}, Outdir: "out", Bundle: true, Write: true}
	}
	f.steps = []stepSpec{{label: "build"}, {label: "import-previous-output", edits: []edit{{"/src/a.js", sp("import '../out/old.js'\n")}}},
		{label: "fix-all", edits: []edit{{"/src/a.js", sp("console.log(3)\n")}}}}
	out = append(out, f)
	f2 := &scenario{kind: "fixed-F-corpus", useCtx: true, files: map[string]string{"/src/a.js": "console.log(1)\n"},
		desc: "ctx entry src/a.js outdir=out write=true"}
	f2.opts = func(string) api.BuildOptions {
		return api.BuildOptions{EntryPoints: []string{"src/a.js"}, Outdir: "out", Write: true}
	}
	f2.steps = []stepSpec{{label: "build"}, {label: "syntax-error", edits: []edit{{"/src/a.js", sp("let = = ;\n")}}}}
	out = append(out, f2)
	f3 := &scenario{kind: "finding-F2", useCtx: true, files: map[string]string{"/src/a.js": "console.log(1)\n", "/src/old.js": "console.log(2)\n"},
		desc: "ctx entries src/*.js outdir=out bundle write=true"}
	f3.opts = func(string) api.BuildOptions {
		return api.BuildOptions{EntryPoints: []string{"src/*.js"}, Outdir: "out", Bundle: true, Write: true}
	}
	f3.steps = []stepSpec{{label: "build"}, {label: "remove-entry+import-previous-output", edits: []edit{{"/src/old.js", nil}, {"/src/a.js", sp("import '../out/old.js'\n")}}}}
	out = append(out, f3)
	// I: on-end failure after the write phase
	oe := &scenario{kind: "finding-I", files: map[string]string{"/src/a.js": "console.log(1)\n"}, desc: "entry src/a.js outdir=out write=true, on-end plugin returns an error"}
	oe.opts = func(string) api.BuildOptions {
		return api.BuildOptions{EntryPoints: []string{"src/a.js"}, Outdir: "out", Write: true}
	}
	oe.steps = []stepSpec{{label: "build", onEndErr: true}}
	out = append(out, oe)
	// J: a failure during the write phase
	j1 := &scenario{kind: "finding-J", useCtx: true, files: map[string]string{"/src/a.js": "console.log(1)\n", "/src/b.js": "console.log(2)\n"},
		desc: "ctx entries src/*.js outdir=out write=true; out/a.js is an empty directory of the user's"}
	j1.opts = func(string) api.BuildOptions {
		return api.BuildOptions{EntryPoints: []string{"src/*.js"}, Outdir: "out", Write: true}
	}
	j1.steps = []stepSpec{{label: "build-with-write-error", mkdirs: []string{"/out/a.js"}}, {label: "remove-entry", edits: []edit{{"/src/a.js", nil}}}}
	out = append(out, j1)
	j2 := &scenario{kind: "finding-J", files: map[string]string{"/src/a.js": "console.log(1)\n", "/src/sub/b.js": "console.log(2)\n", "/out/sub": "a regular file where a directory is needed"},
		desc: "entries src/a.js src/sub/b.js outbase=src outdir=out write=true; out/sub is a regular file"}
	j2.opts = func(string) api.BuildOptions {
		return api.BuildOptions{EntryPoints: []string{"src/a.js", "src/sub/b.js"}, Outbase: "src", Outdir: "out", Write: true}
	}
	j2.steps = []stepSpec{{label: "build-with-mkdir-error"}}
	out = append(out, j2)
	// K (repaired by 11ec04b, must pass): two file-loader assets whose hash-less names differ only in case, identical contents
	k := &scenario{kind: "fixed-K-corpus", files: map[string]string{"/src/a.js": "import u from './x/A.txt'\nimport v from './y/a.txt'\nconsole.log(u, v)\n", "/src/x/A.txt": "same", "/src/y/a.txt": "same"},
		desc: "entry src/a.js imports x/A.txt and y/a.txt (file loader, identical contents) asset-names=[name] outdir=out bundle"}
	k.opts = func(string) api.BuildOptions {
		return api.BuildOptions{EntryPoints: []string{"src/a.js"}, Outdir: "out", Bundle: true, Format: api.FormatESModule, AssetNames: "[name]", Loader: map[string]api.Loader{".txt": api.LoaderFile}, Write: true}
	}
	k.steps = []stepSpec{{label: "build"}}
	out = append(out, k)
	// M: Cancel() lands after the only check that follows Compile
	m := &scenario{kind: "finding-M", useCtx: true, files: map[string]string{"/src/a.js": "console.log(1)\n"}, desc: "ctx entry src/a.js outdir=out write=true; Cancel() called while the on-end callbacks run"}
	m.opts = func(string) api.BuildOptions {
		return api.BuildOptions{EntryPoints: []string{"src/a.js"}, Outdir: "out", Write: true}
	}
	m.steps = []stepSpec{{label: "build-cancelled-late", cancelLate: true}}
	out = append(out, m)
	// side files are outputs too: the external source map / legal comments of out = src/a.js
	// would land on the inputs src/a.js.map and src/a.js.LEGAL.txt (must be refused)
	sf := &scenario{kind: "side-file-on-input", files: map[string]string{"/src/a.ts": "import m from './a.js.map'\nimport l from './a.js.LEGAL.txt'\nconsole.log(m, l)\n/*! legal */\n", "/src/a.js.map": "{\"user\":\"data\"}", "/src/a.js.LEGAL.txt": "user legal"},
		desc: "entry src/a.ts imports ./a.js.map and ./a.js.LEGAL.txt (file loader) outdir=src bundle sourcemap=external legal-comments=external write=true"}
	sf.opts = func(string) api.BuildOptions {
		return api.BuildOptions{EntryPoints: []string{"src/a.ts"}, Outdir: "src", Bundle: true, Sourcemap: api.SourceMapExternal, LegalComments: api.LegalCommentsExternal,
			Loader: map[string]api.Loader{".map": api.LoaderFile, ".txt": api.LoaderFile}, Write: true}
	}
	sf.steps = []stepSpec{{label: "build"}}
	out = append(out, sf)
	// G: symbolic links
	g := &scenario{kind: "finding-G", files: map[string]string{"/src/a.js": "export let a = 1 // ORIGINAL\n"},
		symlinks: [][2]string{{"/out", "src"}}, dirLinks: [][2]string{{"/out", "/src"}}, desc: "entry src/a.js outdir=out where out -> src (symlink)"}
	g.opts = func(string) api.BuildOptions {
		return api.BuildOptions{EntryPoints: []string{"src/a.js"}, Outdir: "out", Write: true}
	}
	g.steps = []stepSpec{{label: "build"}}
	out = append(out, g)
	g2 := &scenario{kind: "finding-G", files: map[string]string{"/real/a.js": "export let a = 1 // ORIGINAL\n"}, fileLinks: true,
		symlinks: [][2]string{{"/src/a.js", "../real/a.js"}}, desc: "entry src/a.js -> ../real/a.js (symlink) outdir=src"}
	g2.opts = func(string) api.BuildOptions {
		return api.BuildOptions{EntryPoints: []string{"src/a.js"}, Outdir: "src", Write: true}
	}
	g2.steps = []stepSpec{{label: "build"}}
	out = append(out, g2)
	// H: configuration inputs
	h := &scenario{kind: "finding-H", files: map[string]string{"/tsconfig.ts": "export let x: number = 1\n", "/tsconfig.json": "{\"compilerOptions\":{\"useDefineForClassFields\":false}}\n"},
		configIns: []string{"/tsconfig.json"}, desc: "entry tsconfig.ts outdir=. out-extension .js=.json"}
	h.opts = func(string) api.BuildOptions {
		return api.BuildOptions{EntryPoints: []string{"tsconfig.ts"}, Outdir: ".", OutExtension: map[string]string{".js": ".json"}, Write: true}
	}
	h.steps = []stepSpec{{label: "build"}}
	out = append(out, h)
	// the CLI entry point
	cliCases := [][]string{
		{"src/a.js", "--outdir=out", "--bundle"},
		{"src/a.js", "src/b.js", "--outdir=out", "--metafile=meta.json"},
		{"src/a.js", "--outfile=src/a.js"},
		{"src/a.js", "--outfile=src/a.js", "--allow-overwrite"},
		{"src/a.js", "--bundle"},
		{"src/bad.js", "--outdir=out", "--metafile=meta.json"},
		{"src/a.js", "src/b.js", "--outdir=src"},
		{"src/a.js", "--outdir=src", "--out-extension:.js=.mjs", "--mangle-props=_$", "--mangle-cache=cache.json"},
		{"src/bad.js", "--outdir=out", "--mangle-props=_$", "--mangle-cache=cache.json", "--metafile=meta.json"},
	}
	for _, args := range cliCases {
		args := args
		c := &scenario{kind: "cli", viaCLI: args, desc: "esbuild " + strings.Join(args, " "),
			files: map[string]string{"/src/a.js": "import './b.js'\nconsole.log('a', {x_: 1})\n", "/src/b.js": "console.log('b')\n", "/src/bad.js": "let = = ;\n", "/out/keep.txt": "keep", "/cache.json": "{}"}}
		for _, a := range args {
			if a == "--allow-overwrite" {
				c.desc += " (allow)"
			}
		}
		c.opts = func(string) api.BuildOptions {
			var apiArgs []string
			for _, a := range args {
				if !strings.HasPrefix(a, "--metafile=") && !strings.HasPrefix(a, "--mangle-cache=") {
					apiArgs = append(apiArgs, a)
				}
			}
			o, err := cli.ParseBuildOptions(apiArgs)
			if err != nil {
				panic("c17: cannot parse CLI arguments: " + err.Error())
			}
			o.Write = true
			return o
		}
		c.steps = []stepSpec{{label: "run"}}
		out = append(out, c)
	}
	return out
}

// ---------------------------------------------------------------- Compile with a stub linker

func compileCase(r *Rng, st *Stats, enc *encoder) string {
	win := r.Chance(35)
	sep, rootp := "/", "/"
	kind := fs.MockUnix
	if win {
		sep, rootp, kind = "\\", "C:\\", fs.MockWindows
	}
	P := func(parts ...string) string { return rootp + strings.Join(parts, sep) }
	files := map[string]string{
		P("src", "a.js"):        "import './b.js'\nconsole.log('a')\n",
		P("src", "b.js"):        "console.log('b')\n",
		P("src", "Sub", "c.js"): "console.log('c')\n",
		P("src", "d.js"):        "console.log('d')\n",
	}
	var entries []bundler.EntryPoint
	inputs := map[string]bool{}
	if r.Chance(80) {
		entries = append(entries, bundler.EntryPoint{InputPath: P("src", "a.js")})
		inputs[P("src", "a.js")] = true
		inputs[P("src", "b.js")] = true
	}
	if r.Chance(50) || len(entries) == 0 {
		entries = append(entries, bundler.EntryPoint{InputPath: P("src", "Sub", "c.js")})
		inputs[P("src", "Sub", "c.js")] = true
	}
	if r.Chance(30) {
		entries = append(entries, bundler.EntryPoint{InputPath: P("src", "d.js")})
		inputs[P("src", "d.js")] = true
	}
	write, allow, stdout := !r.Chance(20), r.Chance(30), r.Chance(10)
	// candidate output paths: inputs and their case/slash variants, fresh paths
	var inList []string
	for p := range inputs {
		inList = append(inList, p)
	}
	sort.Strings(inList)
	variant := func(p string) string {
		switch r.Intn(5) {
		case 0:
			return strings.ToUpper(p)
		case 1:
			return strings.ToLower(p)
		case 2:
			return strings.ReplaceAll(p, "\\", "/")
		case 3:
			return strings.ReplaceAll(p, "/", "\\")
		}
		return p
	}
	fresh := []string{P("out", "a.js"), P("out", "b.js"), P("out", "A.js"), P("out", "chunk.js"), P("src", "e.js"), P("out", "asset.txt"), P("src", "sub", "C.js"), P("src", "d.jsx"), P("src", "a.js.map")}
	n := r.Range(1, 6)
	var linked []graph.OutputFile
	for i := 0; i < n; i++ {
		var p string
		switch k := r.Intn(10); {
		case k < 2:
			p = variant(inList[r.Intn(len(inList))])
		case k < 4 && len(linked) > 0:
			p = linked[r.Intn(len(linked))].AbsPath
			if r.Chance(40) {
				p = variant(p)
			}
		default:
			p = fresh[r.Intn(len(fresh))]
			if r.Chance(15) {
				p = variant(p)
			}
		}
		c := []byte(fmt.Sprintf("content-%d", r.Intn(3)))
		linked = append(linked, graph.OutputFile{AbsPath: p, Contents: c, CanBeMerged: r.Chance(60)})
	}
	log := logger.NewDeferLog(logger.DeferLogNoVerboseOrDebug, nil)
	opts := config.Options{Mode: config.ModeBundle, OutputFormat: config.FormatESModule, CodeSplitting: true, AbsOutputDir: P("out"),
		AllowOverwrite: allow || !write, WriteToStdout: stdout, OmitRuntimeForTests: true}
	mock := fs.MockFS(files, kind, rootp)
	bundle := bundler.ScanBundle(config.BuildCall, log, mock, cache.MakeCacheSet(), entries, opts, nil)
	if log.HasErrors() {
		panic(fmt.Sprintf("c17: unexpected scan error: %v", log.Done()))
	}
	stub := func(*config.Options, *helpers.Timer, logger.Log, fs.FS, *resolver.Resolver, []graph.InputFile, []graph.EntryPoint, string, []uint32, func() []bundler.DataForSourceMap) []graph.OutputFile {
		return append([]graph.OutputFile{}, linked...)
	}
	results, _ := bundle.Compile(log, nil, nil, stub)
	gerr := log.HasErrors()

	// the property's predicate on what Compile lets through
	if !gerr && !stdout {
		seen := map[string][]byte{}
		for _, f := range results {
			key := strings.ReplaceAll(strings.ToLower(f.AbsPath), "\\", "/")
			if prev, ok := seen[key]; ok && !bytes.Equal(prev, f.Contents) {
				st.Fail("two-outputs-one-path", map[string]interface{}{"linked": fmtOut(linked)}, fmtOut(results), "Compile reports an error")
			}
			seen[key] = f.Contents
			if !(allow || !write) {
				for _, ip := range inList {
					if strings.ReplaceAll(strings.ToLower(ip), "\\", "/") == key {
						st.Fail("input-overwritten", map[string]interface{}{"inputs": inList, "linked": fmtOut(linked)}, f.AbsPath, "Compile refuses to overwrite an input")
					}
				}
			}
		}
		// nothing the linker produced is dropped unless an identical mergeable file is kept
		for _, f := range linked {
			key := strings.ReplaceAll(strings.ToLower(f.AbsPath), "\\", "/")
			if prev, ok := seen[key]; !ok || !bytes.Equal(prev, f.Contents) {
				st.Fail("linked-output-dropped", map[string]interface{}{"linked": fmtOut(linked)}, fmtOut(results), "every linked file is represented in the result")
			}
		}
	}
	var lk, got []string
	for _, f := range linked {
		lk = append(lk, "("+cpath(f.AbsPath)+","+enc.content(f.Contents)+","+CBool(f.CanBeMerged)+")")
	}
	for _, f := range results {
		got = append(got, "("+cpath(f.AbsPath)+","+enc.content(f.Contents)+")")
	}
	dup := len(results) != len(linked)
	st.Note(fmt.Sprintf("compile:win=%v,err=%v,dropped=%v", win, gerr, dup), fmt.Sprint(fmtOut(linked), inList, write, allow, stdout), gerr || dup)
	return fmt.Sprintf("((%s,%s,%s),%s,[%s],([%s],%s))", CBool(write), CBool(allow), CBool(stdout), cpaths(inList), strings.Join(lk, ";"), strings.Join(got, ";"), CBool(gerr))
}

func fmtOut(fs []graph.OutputFile) []string {
	var out []string
	for _, f := range fs {
		out = append(out, fmt.Sprintf("%s=%s merge=%v", f.AbsPath, f.Contents, f.CanBeMerged))
	}
	return out
}

// validateBuildOptions through the public API in every mode: is an output on
// an input refused?  Modes: 0 api.Build, 1 Context+Rebuild, 2 Context+Serve+Rebuild,
// 3 Context+Watch+Rebuild, 4 the CLI entry point (which always writes).
func allowCases(st *Stats) []string {
	var items []string
	for mode := 0; mode <= 4; mode++ {
		for _, write := range []bool{false, true} {
			for _, allow := range []bool{false, true} {
				tmp, err := os.MkdirTemp("", "verif-c17-")
				if err != nil {
					panic(err)
				}
				root, _ := filepath.EvalSymlinks(tmp)
				os.MkdirAll(root+"/src", 0o755)
				os.WriteFile(root+"/src/a.js", []byte("console.log(1)\n"), 0o644)
				o := api.BuildOptions{AbsWorkingDir: root, EntryPoints: []string{"src/a.js"}, Outdir: "src", Write: write, AllowOverwrite: allow, LogLevel: api.LogLevelSilent}
				var res api.BuildResult
				refused := false
				skipped := false
				switch mode {
				case 0:
					res = api.Build(o)
				case 4:
					args := []string{"src/a.js", "--outdir=src", "--log-level=silent"}
					if allow {
						args = append(args, "--allow-overwrite")
					}
					wd, _ := os.Getwd()
					os.Chdir(root)
					code := cli.Run(args)
					os.Chdir(wd)
					refused = code != 0
				default:
					ctx, cerr := api.Context(o)
					if cerr != nil {
						panic(cerr.Error())
					}
					if mode == 2 {
						if _, err := ctx.Serve(api.ServeOptions{Host: "127.0.0.1"}); err != nil {
							skipped = true // no free port: the case is not evaluated
						}
					}
					if mode == 3 {
						if err := ctx.Watch(api.WatchOptions{}); err != nil {
							skipped = true
						}
					}
					if !skipped {
						res = ctx.Rebuild()
					}
					ctx.Dispose()
				}
				for _, e := range res.Errors {
					refused = refused || strings.Contains(e.Text, "Refusing to overwrite input file")
				}
				b, _ := os.ReadFile(root + "/src/a.js")
				changed := string(b) != "console.log(1)\n"
				desc := map[string]interface{}{"scenario": "none", "options": fmt.Sprintf("entry src/a.js outdir=src write=%v allowOverwrite=%v mode=%d", write, allow, mode)}
				if !allow && changed {
					st.Fail("input-overwritten", desc, string(b), "src/a.js unchanged")
				}
				if mode != 4 && !write && changed {
					st.Fail("failed-or-nonwriting-build-wrote-files", desc, string(b), "src/a.js unchanged")
				}
				os.RemoveAll(tmp)
				if skipped {
					st.Note("allow-matrix-skipped", fmt.Sprint(mode, write, allow), false)
					continue
				}
				st.Note(fmt.Sprintf("allow-matrix:mode%d", mode), fmt.Sprint(mode, write, allow), true)
				items = append(items, fmt.Sprintf("(%d,%s,%s,%s)", mode, CBool(write), CBool(allow), CBool(refused)))
			}
		}
	}
	return items
}

// Cancel() racing with a build: whatever the timing, either the build reports
// the cancellation and the tree is unchanged, or it does not and every reported
// output is on disk.
func cancelRace(r *Rng, st *Stats, trials int) {
	for t := 0; t < trials; t++ {
		tmp, err := os.MkdirTemp("", "verif-c17-")
		if err != nil {
			panic(err)
		}
		root, _ := filepath.EvalSymlinks(tmp)
		os.MkdirAll(root+"/src", 0o755)
		var eps []string
		for i := 0; i < 40; i++ {
			os.WriteFile(fmt.Sprintf("%s/src/e%d.js", root, i), []byte(fmt.Sprintf("import './lib.js'\nconsole.log(%d)\n", i)), 0o644)
			eps = append(eps, fmt.Sprintf("src/e%d.js", i))
		}
		os.WriteFile(root+"/src/lib.js", []byte(strings.Repeat("console.log('lib')\n", 200)), 0o644)
		before := takeSnap(root)
		ctx, cerr := api.Context(api.BuildOptions{AbsWorkingDir: root, EntryPoints: eps, Outdir: "out", Bundle: true, Write: true, LogLevel: api.LogLevelSilent})
		if cerr != nil {
			panic(cerr.Error())
		}
		done := make(chan api.BuildResult)
		go func() { done <- ctx.Rebuild() }()
		time.Sleep(time.Duration(r.Intn(6000)) * time.Microsecond)
		ctx.Cancel()
		res := <-done
		ctx.Dispose()
		after := takeSnap(root)
		canceled := false
		for _, e := range res.Errors {
			canceled = canceled || strings.Contains(e.Text, "The build was canceled")
		}
		changed := len(after.files) != len(before.files) || len(after.dirs) != len(before.dirs)
		missing := 0
		for _, f := range res.OutputFiles {
			if got, ok := after.files[strings.TrimPrefix(f.Path, root)]; !ok || !bytes.Equal(got, f.Contents) {
				missing++
			}
		}
		in := map[string]interface{}{"scenario": "none", "options": "ctx 40 entries outdir=out bundle write=true; Cancel() after a random delay", "trial": t}
		switch {
		case canceled && changed:
			st.Fail("cancelled-build-wrote-files", in, fmt.Sprintf("%d files after, %d before", len(after.files), len(before.files)), "tree unchanged")
		case !canceled && len(res.Errors) == 0 && missing > 0:
			st.Fail("reported-output-not-on-disk", in, fmt.Sprintf("%d of %d reported outputs missing", missing, len(res.OutputFiles)), "all written")
		}
		st.Note(fmt.Sprintf("cancel-race:canceled=%v,wrote=%v", canceled, changed), fmt.Sprint(t), true)
		os.RemoveAll(tmp)
	}
}

// ---------------------------------------------------------------- the path layer

var pathSegs = []string{"", ".", "..", "a", "b.js", "Sub", "index.js", "index", "...js", "..js", ".hidden", "x.y.z", "_.._", "src", "out", "c.d", "e"}

func randPath(r *Rng, abs bool, maxSegs int) string {
	n := r.Range(0, maxSegs)
	var parts []string
	for i := 0; i < n; i++ {
		parts = append(parts, pathSegs[r.Intn(len(pathSegs))])
	}
	p := strings.Join(parts, "/")
	if abs {
		p = "/" + p
	}
	if r.Chance(10) {
		p += "/"
	}
	return p
}

var templatePieces = []string{"[dir]", "[name]", "[hash]", "[ext]", "-", "/", "..", "x[", "[", "a", "\\", ".", "sub/", "[nam", "]"}

func randTemplate(r *Rng) string {
	if r.Chance(5) {
		return ""
	}
	n := r.Range(1, 5)
	var sb strings.Builder
	for i := 0; i < n; i++ {
		sb.WriteString(templatePieces[r.Intn(len(templatePieces))])
	}
	return sb.String()
}

func pathCases(r *Rng, n int, st *Stats, cf *CoqFile) {
	realFS, err := fs.RealFS(fs.RealFSOptions{AbsWorkingDir: "/"})
	if err != nil {
		panic(err)
	}
	var joins, rels, dbes, prtos, renders []string
	for i := 0; i < n; i++ {
		a, b := randPath(r, r.Chance(70), 4), randPath(r, r.Chance(15), 4)
		joins = append(joins, "("+cpath(a)+","+cpath(b)+","+cpath(realFS.Join(a, b))+")")
		st.Note("path:join", a+"|"+b, strings.Contains(a+"/"+b, ".."))

		base, target := randPath(r, true, 4), randPath(r, true, 5)
		if rp, ok := realFS.Rel(base, target); ok {
			rels = append(rels, "("+cpath(base)+","+cpath(target)+","+cpath(rp)+")")
			st.Note("path:rel", base+"|"+target, strings.HasPrefix(rp, ".."))
		}
		p := randPath(r, r.Bool(), 4)
		dbes = append(dbes, "("+cpath(p)+","+cpath(realFS.Dir(p))+","+cpath(realFS.Base(p))+","+cpath(realFS.Ext(p))+")")
		st.Note("path:dir-base-ext", p, p != "")

		outbase := realFS.Join(randPath(r, true, 3))
		entry := realFS.Join(randPath(r, true, 4), []string{"a.js", "index.js", "...js", "..js", "noext", "x.y.ts", ".hidden"}[r.Intn(7)])
		if r.Chance(50) {
			entry = realFS.Join(outbase, randPath(r, false, 2), "e.js")
		}
		avoid := r.Chance(30)
		custom := ""
		if r.Chance(30) {
			custom = []string{"x/y", "../../esc", "../up", "z", "/abs/q", "a/../b", "./k"}[r.Intn(7)]
		}
		dir, bn := bundler.PathRelativeToOutbase(&graph.InputFile{Source: logger.Source{KeyPath: logger.Path{Text: entry, Namespace: "file"}}},
			&config.Options{AbsOutputBase: outbase}, realFS, avoid, custom)
		prtos = append(prtos, fmt.Sprintf("(%s,%s,%s,%s,%s,%s)", cpath(outbase), cpath(entry), CBool(avoid), cpath(custom), cpath(dir), cpath(bn)))
		st.Note("path:relative-to-outbase", outbase+"|"+entry+"|"+custom+fmt.Sprint(avoid), strings.Contains(dir, "_.._") || custom != "")
		// what the rewrite is for: the directory part never contains a parent-directory segment
		for _, seg := range strings.Split(dir, "/") {
			if seg == ".." {
				st.Fail("relative-dir-has-dotdot", map[string]interface{}{"scenario": "none", "outbase": outbase, "entry": entry, "custom": custom}, dir, "no .. segment")
			}
		}

		t := randTemplate(r)
		d, nm, h, e := []string{"/", "/sub", "/_.._/x", "/a/b"}[r.Intn(4)], []string{"a", "index", "..", ".", "x.y"}[r.Intn(5)], []string{"ABCD2345", "", "H"}[r.Intn(3)], []string{"js", "css", "mjs"}[r.Intn(3)]
		parts := api.VerifValidatePathTemplate(t)
		s1 := config.SubstituteTemplate(parts, config.PathPlaceholders{Dir: &d, Name: &nm, Ext: &e})
		s2 := config.SubstituteTemplate(s1, config.PathPlaceholders{Hash: &h})
		renders = append(renders, fmt.Sprintf("(%s,%s,%s,%s,%s,%s)", cpath(t), cpath(d), cpath(nm), cpath(h), cpath(e), cpath(config.TemplateToString(s2))))
		st.Note("path:template", t, strings.Contains(t, "["))
	}
	cf.AddCases("join_cases", "path * path * path", "check_join", joins)
	cf.AddCases("rel_cases", "path * path * path", "check_rel", rels)
	cf.AddCases("dbe_cases", "path * path * path * path", "check_dbe", dbes)
	cf.AddCases("prto_cases", "path * path * bool * path * path * path", "check_prto", prtos)
	cf.AddCases("render_cases", "path * path * path * path * path * path", "check_render", renders)

	// end to end through api.Build: where does the output of an entry point land?
	tmp, err := os.MkdirTemp("", "verif-c17-")
	if err != nil {
		panic(err)
	}
	defer os.RemoveAll(tmp)
	root, _ := filepath.EvalSymlinks(tmp)
	entries := []string{"src/a.js", "src/sub/b.js", "other/c.js", "src/...js", "src/index.js", "src/sub/x.y.ts", "d.js"}
	for _, e := range entries {
		os.MkdirAll(filepath.Dir(filepath.Join(root, e)), 0o755)
		os.WriteFile(filepath.Join(root, e), []byte("console.log(1)\n"), 0o644)
	}
	var outs []string
	e2eTemplates := []string{"[dir]/[name]", "[name]", "x/[name]-y", "[ext]/[name]", "../up/[name]", "[name]/x", "", "[dir]/../[name]", "a\\[name]", "[dir]/[name]x[", "./[name]"}
	ne := n / 4
	if ne < 24 {
		ne = 24
	}
	for i := 0; i < ne; i++ {
		entry := entries[r.Intn(len(entries))]
		outdir := []string{"out", "src", "out/deep", "."}[r.Intn(4)]
		outbase := []string{"src", "src/sub", "other", ".", "src/nonexistent/deeper"}[r.Intn(5)]
		t := e2eTemplates[r.Intn(len(e2eTemplates))]
		ext := ".js"
		o := api.BuildOptions{AbsWorkingDir: root, EntryPoints: []string{entry}, Outdir: outdir, Outbase: outbase, EntryNames: t, LogLevel: api.LogLevelSilent, Write: false}
		if r.Chance(30) {
			ext = ".mjs"
			o.OutExtension = map[string]string{".js": ".mjs"}
		}
		res := api.Build(o)
		if len(res.Errors) > 0 || len(res.OutputFiles) != 1 {
			continue
		}
		got := res.OutputFiles[0].Path
		outs = append(outs, fmt.Sprintf("(%s,%s,%s,%s,[],%s,%s)", cpath(t), cpath(filepath.Join(root, outdir)), cpath(filepath.Join(root, outbase)), cpath(filepath.Join(root, entry)), cpath(ext), cpath(got)))
		inside := under(filepath.Join(root, outdir), got)
		st.Note("path:entry-output", fmt.Sprint(entry, outdir, outbase, t, ext), !inside || strings.Contains(got, "_.._"))
		// the property's predicate: inside outdir unless the template has a parent-directory segment
		hasDotDot := false
		for _, seg := range strings.Split(strings.ReplaceAll(t, "\\", "/"), "/") {
			hasDotDot = hasDotDot || seg == ".."
		}
		if !inside && !hasDotDot {
			in := map[string]interface{}{"scenario": "none", "entry": entry, "outdir": outdir, "outbase": outbase, "entryNames": t}
			if strings.HasSuffix(entry, "/...js") {
				// known: the file name "...js" minus its extension is ".." and becomes a path element of its own
				in["scenario"] = "entry-named-dotdot-escapes-outdir"
				knownSeen["output-outside-outdir"]++
				if knownSeen["output-outside-outdir"] <= 2 {
					st.Fail("output-outside-outdir", in, got, "inside "+filepath.Join(root, outdir))
				}
			} else {
				st.Fail("output-outside-outdir", in, got, "inside "+filepath.Join(root, outdir))
			}
		}
	}
	// N: a directory whose NAME contains backslashes: PathRelativeToOutbase turns them into
	// slashes (also on Unix) after Rel, which creates parent-directory segments in the middle
	{
		bsEntry := "src/a\\..\\..\\..\\b/e.js"
		os.MkdirAll(filepath.Dir(filepath.Join(root, bsEntry)), 0o755)
		os.WriteFile(filepath.Join(root, bsEntry), []byte("console.log(1)\n"), 0o644)
		res := api.Build(api.BuildOptions{AbsWorkingDir: root, EntryPoints: []string{bsEntry}, Outdir: "out/deep", Outbase: "src", EntryNames: "[dir]/[name]", LogLevel: api.LogLevelSilent, Write: false})
		if len(res.Errors) == 0 && len(res.OutputFiles) == 1 {
			got := res.OutputFiles[0].Path
			outs = append(outs, fmt.Sprintf("(%s,%s,%s,%s,[],%s,%s)", cpath("[dir]/[name]"), cpath(filepath.Join(root, "out/deep")), cpath(filepath.Join(root, "src")), cpath(filepath.Join(root, bsEntry)), cpath(".js"), cpath(got)))
			st.Note("path:entry-output-backslash-name", bsEntry, true)
			if !under(filepath.Join(root, "out/deep"), got) {
				st.Fail("output-outside-outdir", map[string]interface{}{"scenario": "backslash-in-directory-name-escapes-outdir", "entry": bsEntry, "outdir": "out/deep", "outbase": "src", "entryNames": "[dir]/[name]"}, got, "inside "+filepath.Join(root, "out/deep"))
			}
		}
	}
	// L: fixed replay (entry named "...js")
	{
		res := api.Build(api.BuildOptions{AbsWorkingDir: root, EntryPoints: []string{"src/...js"}, Outdir: "out", Outbase: "src", EntryNames: "[name]/x", LogLevel: api.LogLevelSilent, Write: false})
		if len(res.Errors) == 0 && len(res.OutputFiles) == 1 {
			got := res.OutputFiles[0].Path
			outs = append(outs, fmt.Sprintf("(%s,%s,%s,%s,[],%s,%s)", cpath("[name]/x"), cpath(filepath.Join(root, "out")), cpath(filepath.Join(root, "src")), cpath(filepath.Join(root, "src/...js")), cpath(".js"), cpath(got)))
			if !under(filepath.Join(root, "out"), got) {
				knownSeen["output-outside-outdir"]++
				if knownSeen["output-outside-outdir"] <= 2 {
					st.Fail("output-outside-outdir", map[string]interface{}{"scenario": "entry-named-dotdot-escapes-outdir", "entry": "src/...js", "outdir": "out", "outbase": "src", "entryNames": "[name]/x"}, got, "inside "+filepath.Join(root, "out"))
				}
			}
		}
	}
	// explicit output paths of entry points ({in, out})
	customs := []string{"x/y", "../../esc", "a.b", filepath.Join(root, "out/deep/q"), filepath.Join(root, "elsewhere/z"), "./k", "sub/../w"}
	for i := 0; i < ne/2; i++ {
		entry := entries[r.Intn(len(entries))]
		outdir := []string{"out", "src", "out/deep", "."}[r.Intn(4)]
		outbase := []string{"src", "other", "."}[r.Intn(3)]
		t := e2eTemplates[r.Intn(len(e2eTemplates))]
		cu := customs[r.Intn(len(customs))]
		o := api.BuildOptions{AbsWorkingDir: root, EntryPointsAdvanced: []api.EntryPoint{{InputPath: entry, OutputPath: cu}}, Outdir: outdir, Outbase: outbase, EntryNames: t, LogLevel: api.LogLevelSilent, Write: false}
		res := api.Build(o)
		if len(res.Errors) > 0 || len(res.OutputFiles) != 1 {
			continue
		}
		got := res.OutputFiles[0].Path
		outs = append(outs, fmt.Sprintf("(%s,%s,%s,%s,%s,%s,%s)", cpath(t), cpath(filepath.Join(root, outdir)), cpath(filepath.Join(root, outbase)), cpath(filepath.Join(root, entry)), cpath(cu), cpath(".js"), cpath(got)))
		st.Note("path:entry-output-explicit", fmt.Sprint(entry, outdir, outbase, t, cu), true)
		hasDotDot := false
		for _, seg := range strings.Split(strings.ReplaceAll(t, "\\", "/"), "/") {
			hasDotDot = hasDotDot || seg == ".."
		}
		if !under(filepath.Join(root, outdir), got) && !hasDotDot {
			st.Fail("output-outside-outdir", map[string]interface{}{"scenario": "none", "entry": entry, "out": cu, "outdir": outdir, "outbase": outbase, "entryNames": t}, got, "inside "+filepath.Join(root, outdir))
		}
	}
	cf.AddCases("outpath_cases", "path * path * path * path * path * path * path", "check_outpath", outs)

	// side files (external source map, external legal comments) and outfile mode
	hashRe := regexp.MustCompile(`[A-Z2-7]{8}`)
	var sideItems, outfileItems []string
	os.WriteFile(filepath.Join(root, "src/legal.js"), []byte("/*! a legal comment */\nconsole.log(1)\n"), 0o644)
	for i := 0; i < ne/3; i++ {
		outdir := []string{"out", "src", "out/deep"}[r.Intn(3)]
		outbase := []string{"src", "other", "."}[r.Intn(3)]
		t := e2eTemplates[r.Intn(len(e2eTemplates))]
		o := api.BuildOptions{AbsWorkingDir: root, EntryPoints: []string{"src/legal.js"}, Outdir: outdir, Outbase: outbase, EntryNames: t, Sourcemap: api.SourceMapExternal, LegalComments: api.LegalCommentsExternal, LogLevel: api.LogLevelSilent, Write: false}
		res := api.Build(o)
		if len(res.Errors) > 0 {
			continue
		}
		for _, f := range res.OutputFiles {
			for _, suf := range []string{".map", ".LEGAL.txt"} {
				if strings.HasSuffix(f.Path, ".js"+suf) {
					sideItems = append(sideItems, fmt.Sprintf("(%s,%s,%s,%s,%s,%s,%s)", cpath(t), cpath(filepath.Join(root, outdir)), cpath(filepath.Join(root, outbase)), cpath(filepath.Join(root, "src/legal.js")), cpath(".js"), cpath(suf), cpath(f.Path)))
					st.Note("path:side-file", fmt.Sprint(outdir, outbase, t, suf), true)
					hasDotDot := false
					for _, seg := range strings.Split(strings.ReplaceAll(t, "\\", "/"), "/") {
						hasDotDot = hasDotDot || seg == ".."
					}
					if !under(filepath.Join(root, outdir), f.Path) && !hasDotDot {
						st.Fail("output-outside-outdir", map[string]interface{}{"scenario": "none", "side_file": suf, "outdir": outdir, "outbase": outbase, "entryNames": t}, f.Path, "inside "+filepath.Join(root, outdir))
					}
				}
			}
		}
		// outfile mode
		of := []string{"out/x.js", "out/x.y.js", "out/sub/../z", "out/.hidden", "out/q.mjs", "src/legal.out.js"}[r.Intn(6)]
		ot := []string{"", "", "[name]", "sub/[name]-[hash]", "[dir]/[name]"}[r.Intn(5)]
		o2 := api.BuildOptions{AbsWorkingDir: root, EntryPoints: []string{"src/legal.js"}, Outfile: of, EntryNames: ot, Sourcemap: api.SourceMapExternal, LogLevel: api.LogLevelSilent, Write: false}
		res2 := api.Build(o2)
		if len(res2.Errors) > 0 || len(res2.OutputFiles) != 2 {
			continue
		}
		mainP, mapP := res2.OutputFiles[1].Path, res2.OutputFiles[0].Path
		if strings.HasSuffix(mainP, ".map") {
			mainP, mapP = mapP, mainP
		}
		h := ""
		if strings.Contains(ot, "[hash]") {
			h = hashRe.FindString(filepath.Base(mainP))
		}
		outfileItems = append(outfileItems, fmt.Sprintf("(%s,%s,%s,%s,%s)", cpath(ot), cpath(filepath.Join(root, of)), cpath(h), cpath(mainP), cpath(mapP)))
		st.Note("path:outfile", fmt.Sprint(of, ot), true)
	}
	cf.AddCases("sidepath_cases", "path * path * path * path * path * path * path", "check_sidepath", sideItems)
	cf.AddCases("outfile_cases", "path * path * path * path * path", "check_outfile", outfileItems)

	// file-loader assets and shared chunks
	assets := []string{"src/data.txt", "src/sub/pic.x.png", "other/d.txt", "src/sub/style.module.css", "src/noext"}
	for _, a := range assets {
		os.MkdirAll(filepath.Dir(filepath.Join(root, a)), 0o755)
		os.WriteFile(filepath.Join(root, a), []byte("asset "+a), 0o644)
	}
	os.WriteFile(filepath.Join(root, "src/dyn1.js"), []byte("import './shared.js'\nexport let a = 1\n"), 0o644)
	os.WriteFile(filepath.Join(root, "src/dyn2.js"), []byte("import './shared.js'\nexport let b = 2\n"), 0o644)
	os.WriteFile(filepath.Join(root, "src/shared.js"), []byte("console.log('shared')\n"), 0o644)
	os.WriteFile(filepath.Join(root, "src/split.js"), []byte("import('./dyn1.js'); import('./dyn2.js')\n"), 0o644)
	assetTemplates := []string{"", "[name]-[hash]", "[dir]/[name]", "assets/[name].[hash]", "[ext]/[name]", "[dir]/[name]-[hash]", "../up/[name]", "[hash]"}
	var assetItems, chunkItems []string
	for i := 0; i < ne/2; i++ {
		a := assets[r.Intn(len(assets))]
		outdir := []string{"out", "src", "out/deep"}[r.Intn(3)]
		outbase := []string{"src", "other", ".", "src/sub"}[r.Intn(4)]
		t := assetTemplates[r.Intn(len(assetTemplates))]
		rel, _ := filepath.Rel(filepath.Join(root, "src"), filepath.Join(root, a))
		os.WriteFile(filepath.Join(root, "src/useasset.js"), []byte("import u from './"+rel+"'\nconsole.log(u)\n"), 0o644)
		o := api.BuildOptions{AbsWorkingDir: root, EntryPoints: []string{"src/useasset.js"}, Outdir: outdir, Outbase: outbase, AssetNames: t, Bundle: true, LogLevel: api.LogLevelSilent, Write: false,
			Loader: map[string]api.Loader{".txt": api.LoaderFile, ".png": api.LoaderFile, ".css": api.LoaderFile, ".module.css": api.LoaderFile, "": api.LoaderFile}}
		res := api.Build(o)
		if len(res.Errors) > 0 {
			continue
		}
		for _, f := range res.OutputFiles {
			if string(f.Contents) == "asset "+a {
				h := hashRe.FindString(filepath.Base(f.Path))
				if !strings.Contains(t, "[hash]") && t != "" {
					h = ""
				}
				assetItems = append(assetItems, fmt.Sprintf("(%s,%s,%s,%s,%s,%s)", cpath(t), cpath(filepath.Join(root, outdir)), cpath(filepath.Join(root, outbase)), cpath(filepath.Join(root, a)), cpath(h), cpath(f.Path)))
				st.Note("path:asset-output", fmt.Sprint(a, outdir, outbase, t), true)
				if !under(filepath.Join(root, outdir), f.Path) && !strings.Contains(t, "..") {
					st.Fail("output-outside-outdir", map[string]interface{}{"scenario": "none", "asset": a, "outdir": outdir, "outbase": outbase, "assetNames": t}, f.Path, "inside "+filepath.Join(root, outdir))
				}
			}
		}
		// shared chunk of a code-splitting build
		ct := assetTemplates[r.Intn(len(assetTemplates))]
		if !strings.Contains(ct, "[hash]") && ct != "" {
			continue // two chunks would collide
		}
		o2 := api.BuildOptions{AbsWorkingDir: root, EntryPoints: []string{"src/split.js"}, Outdir: outdir, ChunkNames: ct, Bundle: true, Splitting: true, Format: api.FormatESModule, LogLevel: api.LogLevelSilent, Write: false}
		res2 := api.Build(o2)
		if len(res2.Errors) > 0 {
			continue
		}
		for _, f := range res2.OutputFiles {
			if strings.Contains(string(f.Contents), "console.log(\"shared\")") && !strings.Contains(filepath.Base(f.Path), "split") {
				h := hashRe.FindString(filepath.Base(f.Path))
				chunkItems = append(chunkItems, fmt.Sprintf("(%s,%s,%s,%s,%s)", cpath(ct), cpath(filepath.Join(root, outdir)), cpath(h), cpath(".js"), cpath(f.Path)))
				st.Note("path:chunk-output", fmt.Sprint(outdir, ct), true)
			}
		}
	}
	cf.AddCases("assetpath_cases", "path * path * path * path * path * path", "check_assetpath", assetItems)
	cf.AddCases("chunkpath_cases", "path * path * path * path * path", "check_chunkpath", chunkItems)
}

// ---------------------------------------------------------------- main

func runC17(seed uint64, n int, tier string, outDir string) []*Stats {
	devNull, _ = os.OpenFile(os.DevNull, os.O_WRONLY, 0)
	r := NewRng(seed)
	st := NewStats("c17", seed)
	enc := newEncoder()
	cf := NewCoqFile("From V Require Import Common.Base C17.WriteSM C17.Spec C17.PathModel C17.Modes C17.Harness.")

	var comp []string
	for i := 0; i < n; i++ {
		comp = append(comp, compileCase(r, st, enc))
	}
	cf.AddCases("compile_cases", "compile_case", "check_compile", comp)
	cf.AddCases("allow_cases", "Z * bool * bool * bool", "check_allow", allowCases(st))
	pathCases(r, n, st, cf)
	cancelRace(r, st, 4+n/20)

	var hist []string
	add := func(sc *scenario) {
		if c := runScenario(sc, st, enc); c != "" {
			hist = append(hist, c)
		}
	}
	for _, sc := range fixedScenarios() {
		add(sc)
	}
	if tier == "thorough" {
		// the same CLI scenarios through the executable built from the tree under test
		repo := os.Getenv("VERIF_REPO")
		if repo == "" {
			repo = "/repo"
		}
		bin := filepath.Join(outDir, "esbuild-under-test")
		cmd := exec.Command("go", "build", "-o", bin, "./cmd/esbuild")
		cmd.Dir = repo
		if outb, err := cmd.CombinedOutput(); err != nil {
			panic("c17: cannot build cmd/esbuild: " + string(outb))
		}
		cliBinary = bin
		for _, sc := range fixedScenarios() {
			if sc.viaCLI != nil {
				sc.kind = "cli-binary"
				add(sc)
			}
		}
		cliBinary = ""
		os.Remove(bin)
	}
	nh := n / 4
	for i := 0; i < nh; i++ {
		add(genHistory(r, i))
	}
	for i := 0; i < nh; i++ {
		add(genCollision(r, i))
	}
	cf.AddCases("hist_cases", "hist_case", "check_hist", hist)
	cf.AddCases("spec_cases", "list hist_case", "check_spec", []string{"hist_cases"})
	st.Sample(map[string]interface{}{"compile_case": comp[0]})
	st.Finish("seeded generator (splitmix64 from VERIF_SEED): Compile with a stub linker on mock Unix/Windows file systems (outputs drawn from inputs, their case/slash variants, duplicates with equal/different contents and CanBeMerged flags); rebuild histories of one context on real directories (edits, syntax/resolve/link errors, imports of previous outputs, added/removed glob entries, tampered outputs, on-end failures, cancellation) over outdir/out-extension/template/write/allow-overwrite options; single builds whose outputs coincide with inputs; the CLI entry point. distinct_nontrivial = distinct (scenario, step, tree) with a file operation or an error")
	if err := os.WriteFile(filepath.Join(outDir, "c17_cases.v"), []byte(cf.String()), 0o644); err != nil {
		panic(err)
	}
	return []*Stats{st}
}
