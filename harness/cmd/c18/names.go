package main

import (
	"bytes"
	"fmt"
	"os"
	"regexp"
	"strconv"
	"strings"

	"github.com/evanw/esbuild/pkg/api"
	L "github.com/evanw/esbuild/verifharness/c18lib"
	. "github.com/evanw/esbuild/verifharness/hlib"
)

// parseErrors: the emitted file must be JavaScript / CSS (esbuild's own parser as oracle)
func parseErrors(rel string, data []byte) []string { return parseProblems(rel, data, false) }

// with warnings: esbuild's CSS parser recovers from broken tokens with a warning
func parseProblems(rel string, data []byte, warnings bool) []string {
	var loader api.Loader
	switch {
	case strings.HasSuffix(rel, ".js") || strings.HasSuffix(rel, ".mjs"):
		loader = api.LoaderJS
	case strings.HasSuffix(rel, ".css"):
		loader = api.LoaderCSS
	default:
		return nil
	}
	r := api.Transform(string(data), api.TransformOptions{Loader: loader, LogLevel: api.LogLevelSilent})
	var out []string
	for _, e := range r.Errors {
		out = append(out, e.Text)
	}
	if warnings {
		for _, e := range r.Warnings {
			out = append(out, "warning: "+e.Text)
		}
	}
	return out
}

var reQuotedAfterRef = regexp.MustCompile(`(?:\bfrom\s*|\bimport\s*\(?\s*|\burl\(\s*|=\s*)("(?:[^"\\\n]|\\.)*")`)

// decodedSpecs: the double-quoted strings that follow import / from / url( / "=" in the file,
// read as string contents of the file's language (unescapeString, pieces.go)
func decodedSpecs(rel string, data []byte) []string {
	var out []string
	css := strings.HasSuffix(rel, ".css")
	for _, m := range reQuotedAfterRef.FindAllSubmatch(data, -1) {
		if s, ok := unescapeString(string(m[1][1:len(m[1])-1]), css); ok {
			out = append(out, s)
		} else {
			out = append(out, "<undecodable>"+string(m[1]))
		}
	}
	return out
}

func cssString(s string) string {
	var sb strings.Builder
	sb.WriteByte('"')
	for _, c := range []byte(s) {
		switch {
		case c == '"' || c == '\\':
			sb.WriteByte('\\')
			sb.WriteByte(c)
		case c < 0x20:
			fmt.Fprintf(&sb, "\\%x ", c)
		default:
			sb.WriteByte(c)
		}
	}
	sb.WriteByte('"')
	return sb.String()
}

// File names with characters that need escaping inside a JS string, a CSS
// url() or that are path separators elsewhere, in the three places where a
// final path is substituted for a unique key: the name of a dynamically
// imported chunk, of a file-loader asset referenced from JS, and of an asset
// referenced from CSS url().  Every run, fixed product.
func glueSpecialNames(st *Stats) {
	type special struct {
		tag, ch string
		known   string // scenario of the recorded finding, "" = must work
	}
	chars := []special{
		{"space", " ", ""}, {"apostrophe", "'", ""}, {"paren", ")", ""}, {"percent", "%", ""}, {"unicode", "é", ""},
		// repaired by b608b91 (escapeFinalPath): must work; a revert is a violation with these inputs
		{"quotation-mark", "\"", ""},
		{"newline", "\n", ""},
		{"tab-and-soh", "\t\x01", ""},
		{"backslash", "\\", "raw-substitution/backslash-in-file-name"},
	}
	for _, sp := range chars {
		for _, where := range []string{"dynamic-import-chunk", "js-asset", "css-url-asset"} {
			files := map[string]string{}
			var special string
			switch where {
			case "dynamic-import-chunk":
				special = "d" + sp.ch + "q.js"
				files["a.js"] = fmt.Sprintf("import(%s).then(x => console.log(x));\n", strconv.Quote("./"+special))
				files[special] = "export const v = 1;\n"
			case "js-asset":
				special = "i" + sp.ch + "m.png"
				files["a.js"] = fmt.Sprintf("import u from %s;\nconsole.log(u);\n", strconv.Quote("./"+special))
				files[special] = "PNG"
			case "css-url-asset":
				special = "i" + sp.ch + "m.png"
				files["a.js"] = "import './s.css';\nconsole.log(1);\n"
				files["s.css"] = fmt.Sprintf(".k { background: url(%s) }\n", cssString("./"+special))
				files[special] = "PNG"
			}
			p := &L.Project{Extra: files, Assets: map[string]string{}, Opt: L.Opt{Entries: []string{"a.js"}, Splitting: true, Format: "esm", ChunkNames: "[name]-[hash]", AssetNames: "[name]-[hash]"}}
			dir, err := os.MkdirTemp("", "verif-c18-")
			if err != nil {
				panic(err)
			}
			if err := L.WriteTree(dir, nil, files); err != nil {
				os.RemoveAll(dir)
				st.Note("special-name-unwritable", sp.tag+where, false)
				continue
			}
			b := L.Build(dir, &p.Opt)
			os.RemoveAll(dir)
			if len(b.Errors) > 0 {
				st.Note("special-name-build-error", sp.tag+where+strings.Join(b.Errors, ";"), false)
				continue
			}
			st.Note("special-name:"+sp.tag, where, true)
			fail := func(what string, in map[string]interface{}, got, want interface{}) {
				// a recorded finding is reported once per scenario (three places show it): the
				// failure list is short and must keep room for anything else
				if sp.known != "" {
					if reportedClass[sp.known] {
						st.Note("known-class-again:"+sp.known, where, false)
						return
					}
					reportedClass[sp.known] = true
				}
				st.Fail(what, in, got, want)
			}
			scenario := func(kind string) string {
				if sp.known != "" {
					return sp.known
				}
				return "special-file-name/" + sp.tag + "/" + kind
			}
			input := func(kind string) map[string]interface{} {
				return map[string]interface{}{"scenario": scenario(kind), "where": where, "character": sp.tag, "files": files, "emitted": b.Paths()}
			}
			// the emitted file that carries the special name
			var target string
			stem := strings.TrimSuffix(strings.TrimSuffix(special, ".js"), ".png")
			for _, k := range b.Paths() {
				if strings.HasPrefix(k, stem+"-") {
					target = k
				}
			}
			if target == "" {
				fail("reference-does-not-name-an-emitted-file", input("no-emitted-file-keeps-the-name"), b.Paths(), "an emitted file named "+stem+"-<hash>")
				continue
			}
			bad := false
			for _, k := range b.Paths() {
				if errs := parseProblems(k, b.Outputs[k], strings.HasSuffix(k, ".css")); len(errs) > 0 {
					fail("emitted-file-does-not-parse", input("syntax"), map[string]interface{}{"file": k, "errors": errs, "contents": clip(string(b.Outputs[k]), 300)}, "valid "+k[strings.LastIndex(k, ".")+1:])
					bad = true
				}
			}
			if bad {
				continue
			}
			// some reference, decoded, must be exactly "./<target>"
			found := false
			var seen []string
			for _, k := range b.Paths() {
				if k == target || !(strings.HasSuffix(k, ".js") || strings.HasSuffix(k, ".css")) {
					continue
				}
				for _, s := range decodedSpecs(k, b.Outputs[k]) {
					seen = append(seen, s)
					if s == "./"+target {
						found = true
					}
				}
				// CSS escapes are not Go escapes: accept the undecoded form when it has none
				if sp.known == "" && !strings.ContainsAny(sp.ch, "\"\\\n\t\x01") && bytes.Contains(b.Outputs[k], []byte("./"+target)) {
					found = true
				}
			}
			if !found {
				fail("reference-does-not-name-an-emitted-file", input("dangling"), seen, "./"+target)
			}
		}
	}
}
