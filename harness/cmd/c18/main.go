package main

// C18: hashed names identify content; references resolve; no placeholder survives.
//  * correspondence cases for breakOutputIntoPieces / substituteFinalPaths /
//    accurateFinalByteCount / generateIsolatedHash / appendIsolatedHashesForImportedChunks /
//    xxhash (hook: internal/linker/export_verif_c18.go)
//  * fixed corpus: the known findings (same name, different bytes)
//  * glue stream: pairs of api.Build runs under single-point edits

import (
	"fmt"
	"os"

	. "github.com/evanw/esbuild/verifharness/hlib"
)

func main() { Main("c18", runC18) }

func runC18(seed uint64, n int, tier string, outDir string) []*Stats {
	r := NewRng(seed)
	cf := NewCoqFile("From V Require Import Common.Base C18.Pieces C18.Hash C18.XXHash C18.Harness.")
	st := NewStats("c18", seed)

	corpusKnownFindings(st)
	// Coq evaluates a case list at roughly 0.2 ms per byte literal: keep the
	// correspondence volume moderate and spend the time on the glue stream
	piecesCases(r, n/2, cf, st)
	hashCases(r, n/2, cf, st)
	pathCases(r, n/2, cf, st)
	nGlue := n
	if nGlue < 40 {
		nGlue = 40
	}
	glueTargeted(st)
	glueSpecialNames(st)
	gluePairs(r, nGlue, st)

	st.Finish("distinct case key AND exercises a non-identity path (a key is recognised/substituted, a hash stream has >1 item, a build pair with an effective edit)")
	if err := os.WriteFile(outDir+"/c18_cases.v", []byte(cf.String()), 0o644); err != nil {
		panic(err)
	}
	return []*Stats{st}
}

func clip(s string, n int) string {
	if len(s) > n {
		return s[:n] + fmt.Sprintf("...(%d bytes)", len(s))
	}
	return s
}
