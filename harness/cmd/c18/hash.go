package main

import (
	"fmt"
	"strings"

	"github.com/evanw/esbuild/internal/bundler"
	"github.com/evanw/esbuild/internal/config"
	"github.com/evanw/esbuild/internal/linker"
	"github.com/evanw/esbuild/internal/xxhash"
	. "github.com/evanw/esbuild/verifharness/hlib"
)

// recorder implements hash.Hash and keeps what was written
type recorder struct{ buf []byte }

func (r *recorder) Write(p []byte) (int, error) { r.buf = append(r.buf, p...); return len(p), nil }
func (r *recorder) Sum(b []byte) []byte         { return append(b, r.buf...) }
func (r *recorder) Reset()                      { r.buf = nil }
func (r *recorder) Size() int                   { return 8 }
func (r *recorder) BlockSize() int              { return 32 }

func randBytes(r *Rng, max int) []byte {
	n := r.Intn(max + 1)
	b := make([]byte, n)
	for i := range b {
		switch r.Intn(4) {
		case 0:
			b[i] = byte(r.Intn(256))
		case 1:
			b[i] = 0
		default:
			b[i] = "abc/.-_[]"[r.Intn(9)]
		}
	}
	return b
}

func tmplCoq(t []config.PathTemplate) string {
	items := make([]string, len(t))
	for i, p := range t {
		items[i] = fmt.Sprintf("(%s,%d)", CBytes([]byte(p.Data)), p.Placeholder)
	}
	return "[" + strings.Join(items, ";") + "]"
}

type hfile struct {
	ns, key, pretty string
}

func chunkCoq(ch *linker.VerifChunk, files []linker.VerifFile) string {
	var parts []string
	for _, p := range ch.Parts {
		f := files[p.SourceIndex]
		parts = append(parts, fmt.Sprintf("(%s,%s,%s,%d,%d)", CBytes([]byte(f.Namespace)), CBytes([]byte(f.KeyText)), CBytes([]byte(f.PrettyRel)), p.Begin, p.End))
	}
	var imps []string
	for _, i := range ch.Imports {
		imps = append(imps, fmt.Sprint(i))
	}
	return fmt.Sprintf("(%s,[%s],%s,%s,%s,%s,(%s,%s,%s),[%s])", CBool(!ch.IsCSS), strings.Join(parts, ";"), tmplCoq(ch.Template),
		CBool(ch.HasPieces), piecesCoq(ch.Pieces), CBytes(ch.JoinerBytes), CBytes(ch.SMPrefix), CBytes(ch.SMMappings), CBytes(ch.SMSuffix), strings.Join(imps, ";"))
}

func randTemplate(r *Rng, withHash bool) []config.PathTemplate {
	var t []config.PathTemplate
	k := r.Range(1, 3)
	hashAt := -1
	if withHash {
		hashAt = r.Intn(k)
	}
	for i := 0; i < k; i++ {
		p := config.PathTemplate{Data: []string{"", "x", "chunks/", "a-", ".", "ab", "b"}[r.Intn(7)]}
		if i == hashAt {
			p.Placeholder = config.HashPlaceholder
		} else if r.Chance(15) {
			p.Placeholder = []config.PathPlaceholder{config.DirPlaceholder, config.NamePlaceholder, config.ExtPlaceholder}[r.Intn(3)]
		}
		t = append(t, p)
	}
	return t
}

func hashCases(r *Rng, n int, cf *CoqFile, st *Stats) {
	// ---- xxhash: streams written in several pieces, all residues of the 32-byte block size
	var items []string
	nx := n / 2
	for i := 0; i < nx; i++ {
		k := r.Range(0, 4)
		h := xxhash.New()
		var ws []string
		total := 0
		for j := 0; j < k; j++ {
			var b []byte
			switch r.Intn(4) {
			case 0:
				b = randBytes(r, 3)
			case 1:
				b = randBytes(r, 40)
			case 2:
				b = make([]byte, []int{0, 1, 3, 4, 7, 8, 31, 32, 33, 63, 64, 65}[r.Intn(12)])
				for q := range b {
					b[q] = byte(r.Intn(256))
				}
			default:
				b = randBytes(r, 100)
			}
			h.Write(b)
			total += len(b)
			ws = append(ws, CBytes(b))
		}
		items = append(items, fmt.Sprintf("([%s],%s)", strings.Join(ws, ";"), CBytes(h.Sum(nil))))
		st.Note("xxhash", strings.Join(ws, "|"), total > 0)
	}
	cf.AddCases("xx_cases", "list bytes * bytes", "check_xx", items)

	// ---- generateIsolatedHash and the final-hash loop on synthetic chunk graphs
	var isoItems, finItems, nameItems []string
	ng := n / 3
	for i := 0; i < ng; i++ {
		prefix := randPrefix(r)
		nf, nc := r.Range(1, 4), r.Range(1, 5)
		files := make([]linker.VerifFile, nf)
		var atab []string
		for k := range files {
			ns := []string{"file", "file", "dataurl", "", "plugin-ns"}[r.Intn(5)]
			files[k] = linker.VerifFile{Namespace: ns, KeyText: "/abs/" + string(randBytes(r, 6)), PrettyRel: "src/" + string(randBytes(r, 6)),
				AdditionalAbsPath: []string{"/out/img-AAAA1111.png", "/out/assets/b-BBBB2222.png", "/elsewhere/c.bin", "/out/a"}[r.Intn(4)]}
			rel, _ := mockFS.Rel("/out", files[k].AdditionalAbsPath)
			atab = append(atab, fmt.Sprintf("(%d,%s)", k, CBytes([]byte(rel))))
		}
		public := []string{"", "", "https://cdn.example.com/base/", "/p"}[r.Intn(4)]
		chunks := make([]linker.VerifChunk, nc)
		for k := range chunks {
			ch := &chunks[k]
			ch.IsCSS = r.Chance(25)
			for q := r.Intn(3); q > 0; q-- {
				b := uint32(r.Intn(5))
				ch.Parts = append(ch.Parts, linker.VerifPart{SourceIndex: uint32(r.Intn(nf)), Begin: b, End: b + uint32(r.Intn(300))})
			}
			ch.Template = randTemplate(r, r.Chance(80))
			ch.HasPieces = r.Chance(75)
			if ch.HasPieces {
				q := r.Range(1, 4)
				for j := 0; j < q; j++ {
					p := linker.VerifPiece{Data: randBytes(r, 12)}
					if j < q-1 {
						if r.Chance(40) {
							p.Kind, p.Index = 1, uint32(r.Intn(nf))
						} else {
							p.Kind, p.Index = 2, uint32(r.Intn(nc))
						}
					}
					ch.Pieces = append(ch.Pieces, p)
				}
			} else {
				ch.JoinerBytes = randBytes(r, 20)
			}
			if r.Chance(70) {
				ch.SMPrefix, ch.SMMappings, ch.SMSuffix = randBytes(r, 10), randBytes(r, 16), randBytes(r, 6)
			}
			// import graph: arbitrary, cycles and self-loops and duplicates included
			for q := r.Intn(4); q > 0; q-- {
				ch.Imports = append(ch.Imports, uint32(r.Intn(nc)))
			}
		}
		// the isolated hash must not depend on the source-map mode: every mode is drawn
		smMode := []config.SourceMap{config.SourceMapNone, config.SourceMapInline, config.SourceMapLinkedWithComment,
			config.SourceMapExternalWithoutComment, config.SourceMapInlineAndExternal}[i%5]
		v := linker.VerifNewLinker(mockFS, "/out", public, prefix, files, chunks)
		v.SetSourceMapMode(smMode)
		for k := range chunks {
			iso := v.GenerateIsolatedHash(uint32(k))
			chunks[k].IsoHash = iso
			isoItems = append(isoItems, fmt.Sprintf("(%s,%s,%s)", CBytes([]byte(public)), chunkCoq(&chunks[k], files), CBytes(iso)))
			st.Note(fmt.Sprintf("isolated-hash/sourcemap-mode-%d", smMode), fmt.Sprint(chunks[k]), true)
		}
		// the loop of generateChunksInParallel: one visited array, stamp ^chunkIndex
		v = linker.VerifNewLinker(mockFS, "/out", public, prefix, files, chunks)
		v.SetSourceMapMode(smMode)
		visited := make([]uint32, nc)
		var streams []string
		var ccoq []string
		edges := 0
		for k := range chunks {
			ccoq = append(ccoq, chunkCoq(&chunks[k], files))
			edges += len(chunks[k].Imports)
			if config.HasPlaceholder(chunks[k].Template, config.HashPlaceholder) {
				rec := &recorder{}
				v.AppendIsolatedHashesForImportedChunks(rec, uint32(k), visited, ^uint32(k))
				streams = append(streams, "Some "+CBytes(rec.buf))
				// final name as the linker computes it
				hx := xxhash.New()
				hx.Write(rec.buf)
				hs := bundler.HashForFileName(hx.Sum(nil))
				name := config.TemplateToString(config.SubstituteTemplate(chunks[k].Template, config.PathPlaceholders{Hash: &hs}))
				nameItems = append(nameItems, fmt.Sprintf("(%s,Some %s,%s)", tmplCoq(chunks[k].Template), CBytes([]byte(hs)), CBytes([]byte(name))))
			} else {
				streams = append(streams, "None")
				name := config.TemplateToString(config.SubstituteTemplate(chunks[k].Template, config.PathPlaceholders{}))
				nameItems = append(nameItems, fmt.Sprintf("(%s,None,%s)", tmplCoq(chunks[k].Template), CBytes([]byte(name))))
			}
		}
		finItems = append(finItems, fmt.Sprintf("(%s,[%s],[%s],[%s])", CBytes([]byte(public)), strings.Join(atab, ";"), strings.Join(ccoq, ";\n  "), strings.Join(streams, ";")))
		st.Note("final-hash-loop", fmt.Sprint(chunks), edges > 0)
	}
	cf.AddCases("iso_cases", "bytes * rawchunk * bytes", "check_iso", isoItems)
	cf.AddCases("final_cases", "bytes * list (Z * bytes) * list rawchunk * list (option bytes)", "check_final", finItems)
	cf.AddCases("name_cases", "list (bytes * Z) * option bytes * bytes", "check_name", nameItems)
}
