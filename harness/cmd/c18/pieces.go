package main

import (
	"fmt"
	"strings"

	"github.com/evanw/esbuild/internal/fs"
	"github.com/evanw/esbuild/internal/linker"
	. "github.com/evanw/esbuild/verifharness/hlib"
)

const keyAlphabet = "ABCDEFGHIJKLMNOPQRSTUVWXYZabcdefghijklmnopqrstuvwxyz0123456789-_"

func randPrefix(r *Rng) string {
	switch r.Intn(6) {
	case 0: // short, self-overlapping prefixes stress bytes.Index
		return []string{"aa", "aab", "abab", "xyx", "q"}[r.Intn(5)]
	case 1:
		return "PREFIXPREFIXPREF"
	case 2: // 16 characters, self-overlapping (first = last): about 1 build in 64 has such a prefix
		var sb strings.Builder
		for i := 0; i < 15; i++ {
			sb.WriteByte(keyAlphabet[r.Intn(len(keyAlphabet))])
		}
		s := sb.String()
		return s + s[:1]
	default:
		var sb strings.Builder
		for i := 0; i < 16; i++ {
			sb.WriteByte(keyAlphabet[r.Intn(len(keyAlphabet))])
		}
		return sb.String()
	}
}

func randText(r *Rng, prefix string) string {
	var sb strings.Builder
	k := r.Intn(12)
	for i := 0; i < k; i++ {
		switch r.Intn(8) {
		case 0: // a proper prefix of the prefix
			sb.WriteString(prefix[:r.Intn(len(prefix))])
		case 1:
			sb.WriteString("import \"")
		case 2:
			sb.WriteString("\";\n")
		case 3:
			sb.WriteByte(prefix[r.Intn(len(prefix))])
		case 4:
			sb.WriteString("C00000001")
		default:
			sb.WriteByte("abxyq01 ;(){}\n/*"[r.Intn(16)])
		}
	}
	return sb.String()
}

func piecesCoq(ps []linker.VerifPiece) string {
	items := make([]string, len(ps))
	for i, p := range ps {
		items[i] = fmt.Sprintf("(%s,%d,%d)", CBytes(p.Data), p.Index, p.Kind)
	}
	return "[" + strings.Join(items, ";") + "]"
}

// random intermediate output: text, valid keys, keys with an index out of
// range, malformed keys (wrong kind letter, a non-digit, truncated)
func randOutput(r *Rng, prefix string, nf, nc int) (string, int, bool) {
	clean := len(prefix) >= 16 && prefix != "PREFIXPREFIXPREF"
	var keyPos []int
	var sb strings.Builder
	valid := 0
	segs := r.Range(0, 6)
	for i := 0; i < segs; i++ {
		sb.WriteString(randText(r, prefix))
		switch c := r.Intn(20); {
		case c < 11: // valid key
			if r.Bool() && nf > 0 {
				keyPos = append(keyPos, sb.Len())
				fmt.Fprintf(&sb, "%sA%08d", prefix, r.Intn(nf))
				valid++
			} else if nc > 0 {
				keyPos = append(keyPos, sb.Len())
				fmt.Fprintf(&sb, "%sC%08d", prefix, r.Intn(nc))
				valid++
			}
		case c < 13: // index out of range (first invalid one ends the scan)
			clean = false
			if r.Bool() {
				fmt.Fprintf(&sb, "%sA%08d", prefix, nf+r.Intn(3))
			} else {
				fmt.Fprintf(&sb, "%sC%08d", prefix, nc+r.Intn(3))
			}
		case c == 13:
			clean = false
			fmt.Fprintf(&sb, "%s%c%08d", prefix, "BDac0"[r.Intn(5)], r.Intn(3))
		case c == 14:
			clean = false
			d := fmt.Sprintf("%08d", r.Intn(3))
			pos := r.Intn(8)
			d = d[:pos] + string(" x/:"[r.Intn(4)]) + d[pos+1:]
			fmt.Fprintf(&sb, "%sC%s", prefix, d)
		case c == 15: // truncated at the very end
			key := fmt.Sprintf("%sC%08d", prefix, r.Intn(nc+1))
			sb.WriteString(key[:len(prefix)+r.Intn(9)])
			return sb.String(), valid, false
		case c == 16: // prefix twice
			clean = false
			sb.WriteString(prefix)
		case c == 18 && nc > 0: // all but the last character of the prefix directly before a real key
			sb.WriteString(prefix[:len(prefix)-1])
			keyPos = append(keyPos, sb.Len())
			fmt.Fprintf(&sb, "%sC%08d", prefix, r.Intn(nc))
			valid++
		case c == 17:
			clean = false
			fmt.Fprintf(&sb, "%sC%09d", prefix, r.Intn(nc+1))
		}
	}
	if r.Chance(70) {
		sb.WriteString(randText(r, prefix))
	}
	// DECISION (see lib/propcfg/C18.json): the theorems about recognising keys assume a CLEAN
	// text - the prefix occurs exactly at the placed keys (coq: C19.SubstProofs.clean,
	// C18 Properties.clean_text_is_split_at_its_keys). Random text can assemble the prefix by
	// itself, also OVERLAPPING a placed key when the prefix is self-overlapping (first char =
	// last char and the 15 other characters right before a key). Such texts need knowledge of the
	// build's random prefix and are outside the property's promise; they stay in the
	// correspondence cases (model = code on them) but are not "clean" for the predicate.
	out := sb.String()
	if clean {
		var occ []int
		for i := 0; i+len(prefix) <= len(out); i++ { // every occurrence, overlapping ones included
			if out[i:i+len(prefix)] == prefix {
				occ = append(occ, i)
			}
		}
		if len(occ) != len(keyPos) {
			clean = false
		} else {
			for i := range occ {
				if occ[i] != keyPos[i] {
					clean = false
				}
			}
		}
	}
	return out, valid, clean
}

var mockFS = fs.MockFS(map[string]string{}, fs.MockUnix, "/")

func piecesCases(r *Rng, n int, cf *CoqFile, st *Stats) {
	// ---- breakOutputIntoPieces / breakJoinerIntoPieces
	var items []string
	for i := 0; i < n; i++ {
		prefix := randPrefix(r)
		nf, nc := r.Intn(5), r.Intn(5)
		out, valid, clean := randOutput(r, prefix, nf, nc)
		files := make([]linker.VerifFile, nf)
		chunks := make([]linker.VerifChunk, nc)
		v := linker.VerifNewLinker(mockFS, "/out", "", prefix, files, chunks)
		viaJoiner := r.Chance(30)
		var has bool
		var ps []linker.VerifPiece
		if viaJoiner {
			has, ps = v.BreakJoinerIntoPieces([]byte(out))
		} else {
			has, ps = v.BreakOutputIntoPieces([]byte(out))
		}
		items = append(items, fmt.Sprintf("(%s,%d,%d,%s,%s,%s,%s)", CBytes([]byte(prefix)), nf, nc, CBytes([]byte(out)), CBool(viaJoiner), CBool(has), piecesCoq(ps)))
		st.Note("break", prefix+"|"+out, valid > 0)
		if i < 2 {
			st.Sample(map[string]interface{}{"break": out, "prefix": prefix, "pieces": len(ps)})
		}
		if !has && clean && valid > 0 {
			st.Fail("placeholder-survives-substitution", map[string]interface{}{"scenario": "joiner-kept-although-keys-present", "prefix": prefix, "output": out}, "joiner kept", "pieces")
		}
		// property predicate on the real code: re-inserting the keys gives the output back
		if has {
			var sb strings.Builder
			for _, p := range ps {
				sb.Write(p.Data)
				switch p.Kind {
				case 1:
					fmt.Fprintf(&sb, "%sA%08d", prefix, p.Index)
				case 2:
					fmt.Fprintf(&sb, "%sC%08d", prefix, p.Index)
				}
			}
			// every key of an output that contains only well-formed keys must be recognised
			if clean && valid > 0 {
				for _, p := range ps {
					if strings.Contains(string(p.Data), prefix) {
						st.Fail("placeholder-survives-substitution", map[string]interface{}{"scenario": "well-formed-key-not-recognised", "prefix": prefix, "nfiles": nf, "nchunks": nc, "output": out}, string(p.Data), "no data piece contains the prefix")
						break
					}
				}
			}
			if sb.String() != out {
				st.Fail("pieces-not-lossless", map[string]interface{}{"scenario": "breakOutputIntoPieces", "prefix": prefix, "nfiles": nf, "nchunks": nc, "output": out}, sb.String(), out)
			}
		}
	}
	cf.AddCases("break_cases", "bytes * Z * Z * bytes * bool * bool * list rawpiece", "check_break", items)

	// ---- substituteFinalPaths + accurateFinalByteCount
	items = nil
	// names with characters that escapeFinalPath must escape (quotation mark, backslash, control
	// characters) next to ordinary ones
	relNames := []string{"a.js", "chunks/x-ABCDEFGH.js", "../up/y.js", "deep/er/z-12345678.js", "s.css", "e/n.HASH1234.js",
		"d\"q-ABCDEFGH.js", "chunks/d\nq\t-1.js", "b\\s-2.js", "\x01\x1f\"\\.js", "é \x7f'.js"}
	assetNames := []string{"/out/img-AAAA1111.png", "/out/assets/b-BBBB2222.png", "/elsewhere/c.bin", "/out/media/QQQQ3333.svg",
		"/out/i\"m-CCCC3333.png", "/out/assets/i\nm\x0b.png"}
	for i := 0; i < n; i++ {
		prefix := randPrefix(r)
		for len(prefix) < 4 {
			prefix = randPrefix(r)
		}
		nf, nc := r.Range(1, 4), r.Range(1, 4)
		files := make([]linker.VerifFile, nf)
		for k := range files {
			files[k].AdditionalAbsPath = assetNames[r.Intn(len(assetNames))]
			files[k].UniqueKey = fmt.Sprintf("%sA%08d", prefix, k)
		}
		chunks := make([]linker.VerifChunk, nc)
		for k := range chunks {
			chunks[k].FinalRelPath = relNames[r.Intn(len(relNames))]
			chunks[k].UniqueKey = fmt.Sprintf("%sC%08d", prefix, k)
		}
		public := []string{"", "", "https://cdn.example.com/base/", "/static", "."}[r.Intn(5)]
		v := linker.VerifNewLinker(mockFS, "/out", public, prefix, files, chunks)
		fromDir := []string{".", "chunks", "deep/er", "e"}[r.Intn(4)]
		has := r.Chance(85)
		var ps []linker.VerifPiece
		var joiner []byte
		refs := 0
		if has {
			// pieces as the linker makes them (from a real break) or arbitrary piece lists
			if r.Bool() {
				out, _, _ := randOutput(r, prefix, nf, nc)
				_, ps = v.BreakOutputIntoPieces([]byte(out))
			} else {
				k := r.Range(1, 5)
				for j := 0; j < k; j++ {
					p := linker.VerifPiece{Data: []byte(randText(r, prefix))}
					if j < k-1 || r.Chance(10) {
						if r.Bool() {
							p.Kind, p.Index = 1, uint32(r.Intn(nf))
						} else {
							p.Kind, p.Index = 2, uint32(r.Intn(nc))
						}
					}
					ps = append(ps, p)
				}
			}
		} else {
			joiner = []byte(randText(r, prefix))
		}
		// the paths, obtained independently through pathBetweenChunks
		seen := map[string]bool{}
		var tab []string
		for _, p := range ps {
			key := fmt.Sprintf("%d/%d", p.Kind, p.Index)
			if p.Kind == 0 || seen[key] {
				continue
			}
			seen[key] = true
			refs++
			var rel string
			if p.Kind == 1 {
				rel, _ = mockFS.Rel("/out", files[p.Index].AdditionalAbsPath)
			} else {
				rel = chunks[p.Index].FinalRelPath
			}
			tab = append(tab, fmt.Sprintf("(%d,%d,%s)", p.Kind, p.Index, CBytes([]byte(v.PathBetweenChunks(fromDir, rel)))))
		}
		isCSS := r.Chance(40)
		gout, _ := v.SubstituteFinalPathsKind(has, ps, joiner, fromDir, isCSS)
		gcount := v.AccurateFinalByteCountKind(has, ps, joiner, fromDir, isCSS)
		items = append(items, fmt.Sprintf("(%s,%s,%s,%s,[%s],%s,%d)", CBool(isCSS), CBool(has), piecesCoq(ps), CBytes(joiner), strings.Join(tab, ";"), CBytes(gout), gcount))
		st.Note(fmt.Sprintf("subst/css=%v", isCSS), fmt.Sprint(ps)+public+fromDir, refs > 0)
		// the property's predicate on the real code: what stands for each reference reads back,
		// as string contents of the output's language, as the path of the file it denotes
		if has {
			for _, p := range ps {
				if p.Kind == 0 {
					continue
				}
				var rel string
				if p.Kind == 1 {
					rel, _ = mockFS.Rel("/out", files[p.Index].AdditionalAbsPath)
				} else {
					rel = chunks[p.Index].FinalRelPath
				}
				want := v.PathBetweenChunks(fromDir, rel)
				one, _ := v.SubstituteFinalPathsKind(true, []linker.VerifPiece{{Kind: p.Kind, Index: p.Index}, {}}, nil, fromDir, isCSS)
				if got, ok := unescapeString(string(one), isCSS); !ok || got != want {
					st.Fail("substituted-path-does-not-read-back", map[string]interface{}{"scenario": "escapeFinalPath", "isCSS": isCSS, "path": want, "publicPath": public}, string(one), want)
				}
			}
		}
		if has && gcount != len(gout) {
			st.Fail("byte-count-differs-from-substituted-length", map[string]interface{}{"scenario": "accurateFinalByteCount", "pieces": fmt.Sprint(ps), "publicPath": public, "fromDir": fromDir}, gcount, len(gout))
		}
		// (no_placeholder_survives: an occurrence of the prefix in the result can only overlap a
		// substituted path; a data piece that ends with a beginning of the prefix, or starts with an
		// end of it, can complete it with path bytes - such texts need knowledge of the random
		// prefix and are excluded, like the non-clean texts above)
		if len(prefix) >= 16 && !straddleRisk(ps, prefix) && strings.Contains(string(gout), prefix) && !strings.Contains(piecesData(ps)+string(joiner), prefix) {
			st.Fail("placeholder-survives-substitution", map[string]interface{}{"scenario": "substituteFinalPaths", "pieces": fmt.Sprint(ps), "prefix": prefix}, string(gout), "no occurrence of the prefix")
		}
	}
	cf.AddCases("subst_cases", "bool * bool * list rawpiece * bytes * list (Z * Z * bytes) * bytes * Z", "check_subst", items)
}

func piecesData(ps []linker.VerifPiece) string {
	var sb strings.Builder
	for _, p := range ps {
		sb.Write(p.Data)
		sb.WriteByte(0)
	}
	return sb.String()
}

func straddleRisk(ps []linker.VerifPiece, prefix string) bool {
	for _, p := range ps {
		d := string(p.Data)
		for k := 1; k < len(prefix); k++ {
			if strings.HasSuffix(d, prefix[:k]) || strings.HasPrefix(d, prefix[len(prefix)-k:]) {
				return true
			}
		}
	}
	return false
}

// unescapeString: independent reading of the contents of a double-quoted
// string (JavaScript/JSON: \" \\ \uXXXX; CSS: \" \\ \<hex digits><space>);
// a bare quotation mark, backslash or control character is an error
func unescapeString(s string, isCSS bool) (string, bool) {
	var out []byte
	hexv := func(c byte) int {
		switch {
		case c >= '0' && c <= '9':
			return int(c - '0')
		case c >= 'a' && c <= 'f':
			return int(c-'a') + 10
		case c >= 'A' && c <= 'F':
			return int(c-'A') + 10
		}
		return -1
	}
	for i := 0; i < len(s); i++ {
		c := s[i]
		if c == '"' || c < 0x20 {
			return "", false
		}
		if c != '\\' {
			out = append(out, c)
			continue
		}
		i++
		if i >= len(s) {
			return "", false
		}
		e := s[i]
		switch {
		case e == '"' || e == '\\':
			out = append(out, e)
		case isCSS && hexv(e) >= 0:
			v := 0
			n := 0
			for i < len(s) && hexv(s[i]) >= 0 && n < 6 {
				v = v*16 + hexv(s[i])
				i++
				n++
			}
			if i >= len(s) || s[i] != ' ' || v > 255 {
				return "", false
			}
			out = append(out, byte(v))
		case !isCSS && e == 'u' && i+4 < len(s)+0 && i+4 <= len(s)-1+0:
			v := 0
			for k := 1; k <= 4; k++ {
				h := hexv(s[i+k])
				if h < 0 {
					return "", false
				}
				v = v*16 + h
			}
			if v > 255 {
				return "", false
			}
			out = append(out, byte(v))
			i += 4
		default:
			return "", false
		}
	}
	return string(out), true
}
