package main

import (
	"fmt"
	"strings"

	"github.com/evanw/esbuild/internal/fs"
	"github.com/evanw/esbuild/internal/linker"
	. "github.com/evanw/esbuild/verifharness/hlib"
)

// pathBetweenChunks / joinWithPublicPath / fs.Dir / fs.Join on fs.RealFS against
// the path model (coq/C18/Paths.v over coq/C17/PathModel.v), and the property's
// predicate at path level: the printed relative path, joined with the
// importing file's directory, is the imported file's path.
func pathCases(r *Rng, n int, cf *CoqFile, st *Stats) {
	realFS, err := fs.RealFS(fs.RealFSOptions{AbsWorkingDir: "/", DoNotCache: true})
	if err != nil {
		panic(err)
	}
	segs := []string{"a", "chunks", "deep", "er", "x-ABCDEFGH.js", "s.css", "d q", "é", "d\"q.js", "i\nm.png", "..b", "b..", "...", "d\\q.js"}
	randRel := func(odd bool) string {
		k := r.Range(1, 4)
		var parts []string
		for i := 0; i < k; i++ {
			s := segs[r.Intn(len(segs))]
			if odd {
				switch r.Intn(8) {
				case 0:
					s = "."
				case 1:
					s = ""
				case 2:
					s = ".."
				}
			}
			parts = append(parts, s)
		}
		return strings.Join(parts, "/")
	}
	var items []string
	for i := 0; i < n; i++ {
		odd := r.Chance(35)
		to := randRel(odd)
		from := randRel(odd)
		if r.Chance(15) {
			to = "./" + to
		}
		if to == "" || from == "" || strings.HasPrefix(to, "/") || strings.HasPrefix(from, "/") {
			continue
		}
		// domain of the model: a target that cleans to "." is outside (goFilepath.rel keeps the
		// cleaned target text "." as if it were an element: Rel("a", ".") = "../."; C17's rel
		// works on element lists and gives ".."; no chunk or asset has the final path ".")
		if realFS.Join(to) == "." {
			st.Note("paths-outside-domain", to, false)
			continue
		}
		// domain of the model, second restriction: filepath.Rel FAILS when the directory of the
		// importing chunk is above the output directory (it cleans to ".." or "../x": reachable with
		// --entry-names=../[name]); pathBetweenChunks then logs "Cannot traverse from directory .. to
		// chunk .." and the build fails without output (fixed witness in glueTargeted), so no
		// reference is printed at all.  The model's rel has no error case; such pairs are skipped.
		if _, ok := realFS.Rel(realFS.Dir(from), to); !ok {
			st.Note("paths-rel-fails", from+"|"+to, false)
			continue
		}
		public := []string{"", "", "", "https://cdn.example.com/base/", "/static", ".", "//h/p/"}[r.Intn(7)]
		v := linker.VerifNewLinker(realFS, "/out", public, "PREFIXPREFIXPREF", nil, nil)
		dir := realFS.Dir(from)
		g := v.PathBetweenChunks(dir, to)
		gj := linker.VerifJoinWithPublicPath(public, to)
		gdir := realFS.Dir(to)
		gjoin := ""
		if public == "" {
			gjoin = realFS.Join(dir, g)
		}
		items = append(items, fmt.Sprintf("(%s,%s,%s,%s,%s,%s,%s)", CBytes([]byte(public)), CBytes([]byte(dir)), CBytes([]byte(to)), CBytes([]byte(g)), CBytes([]byte(gj)), CBytes([]byte(gdir)), CBytes([]byte(gjoin))))
		st.Note("paths", public+"|"+dir+"|"+to, dir != "." || strings.Contains(to, "/"))
		// the predicate on the real code (names without a backslash: K3 is recorded)
		if public == "" && !strings.Contains(to, "\\") && !strings.Contains(from, "\\") {
			if want := realFS.Join(to); gjoin != want {
				st.Fail("import-path-does-not-resolve", map[string]interface{}{"scenario": "pathBetweenChunks", "fromDir": dir, "to": to}, map[string]string{"printed": g, "resolved": gjoin}, want)
			}
		}
	}
	cf.AddCases("path_cases", "bytes * bytes * bytes * bytes * bytes * bytes * bytes", "check_path", items)
}
