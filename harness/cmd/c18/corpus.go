package main

import (
	L "github.com/evanw/esbuild/verifharness/c18lib"
	. "github.com/evanw/esbuild/verifharness/hlib"
)

func baseOpt(entries ...string) L.Opt {
	return L.Opt{Entries: entries, Splitting: true, Format: "esm", EntryNames: "[name]-[hash]"}
}

// The known findings (DESIGN §7-E and its siblings), replayed on every run
// from fixed inputs: each is a pair of builds that emit a file under the same
// path with different bytes.
func corpusKnownFindings(st *Stats) {
	// E: the hash does not record which chunk each placeholder denotes
	{
		pa := &L.Project{Mods: []L.Module{{Name: "a.js", Lit: "a", Dynamic: []int{1, 2}}, {Name: "x.js", Lit: "x"}, {Name: "y.js", Lit: "y"}}, Opt: baseOpt("a.js", "x.js", "y.js")}
		pb := pa.Clone()
		pb.Mods[0].Dynamic = []int{2, 1}
		ch, ok := checkPair(st, "corpus:dynamic-import-order", pa, pb, true)
		st.Note("corpus", "E", ch && ok)
	}
	// the external legal-comments file is not part of any hash
	{
		pa := &L.Project{Mods: []L.Module{{Name: "a.js", Lit: "a", Legal: "license A"}}, Opt: baseOpt("a.js")}
		pa.Opt.Legal = "external"
		pb := pa.Clone()
		pb.Mods[0].Legal = "license B"
		ch, ok := checkPair(st, "corpus:legal-comment-text", pa, pb, true)
		st.Note("corpus", "legal-text", ch && ok)
	}
	// the legal-comments mode (linked adds a trailing comment after hashing) is not part of the hash
	{
		pa := &L.Project{Mods: []L.Module{{Name: "a.js", Lit: "a", Legal: "license A"}}, Opt: baseOpt("a.js")}
		pa.Opt.Legal = "linked"
		pb := pa.Clone()
		pb.Opt.Legal = "external"
		ch, ok := checkPair(st, "corpus:opt-legal-comments", pa, pb, true)
		st.Note("corpus", "legal-option", ch && ok)
	}
	// the source-map mode (the sourceMappingURL comment is appended after hashing) is not part of the hash
	{
		pa := &L.Project{Mods: []L.Module{{Name: "a.js", Lit: "a"}}, Opt: baseOpt("a.js")}
		pa.Opt.Sourcemap = "linked"
		pb := pa.Clone()
		pb.Opt.Sourcemap = "external"
		ch, ok := checkPair(st, "corpus:opt-sourcemap", pa, pb, true)
		st.Note("corpus", "sourcemap-option", ch && ok)
	}
}

func glueTargeted(st *Stats) {}
