package main

import (
	"fmt"
	L "github.com/evanw/esbuild/verifharness/c18lib"
	. "github.com/evanw/esbuild/verifharness/hlib"
	"os"
	"strings"
)

func baseOpt(entries ...string) L.Opt {
	return L.Opt{Entries: entries, Splitting: true, Format: "esm", EntryNames: "[name]-[hash]"}
}

// The known findings (DESIGN §7-E and its siblings), replayed on every run
// from fixed inputs: each is a pair of builds that emit a file under the same
// path with different bytes.
func corpusKnownFindings(st *Stats) {
	// E: the hash does not record which chunk each placeholder denotes
	{
		pa := &L.Project{Mods: []L.Module{{Name: "a.js", Lit: "a", Dynamic: []int{1, 2}}, {Name: "x.js", Lit: "x"}, {Name: "y.js", Lit: "y"}}, Opt: baseOpt("a.js", "x.js", "y.js")}
		pb := pa.Clone()
		pb.Mods[0].Dynamic = []int{2, 1}
		ch, ok := checkPair(st, "corpus:dynamic-import-order", pa, pb, true)
		st.Note("corpus", "E", ch && ok)
	}
	// the external legal-comments file is not part of any hash
	{
		pa := &L.Project{Mods: []L.Module{{Name: "a.js", Lit: "a", Legal: "license A"}}, Opt: baseOpt("a.js")}
		pa.Opt.Legal = "external"
		pb := pa.Clone()
		pb.Mods[0].Legal = "license B"
		ch, ok := checkPair(st, "corpus:legal-comment-text", pa, pb, true)
		st.Note("corpus", "legal-text", ch && ok)
	}
	// the legal-comments mode (linked adds a trailing comment after hashing) is not part of the hash
	{
		pa := &L.Project{Mods: []L.Module{{Name: "a.js", Lit: "a", Legal: "license A"}}, Opt: baseOpt("a.js")}
		pa.Opt.Legal = "linked"
		pb := pa.Clone()
		pb.Opt.Legal = "external"
		ch, ok := checkPair(st, "corpus:opt-legal-comments", pa, pb, true)
		st.Note("corpus", "legal-option", ch && ok)
	}
	// the source-map mode (the sourceMappingURL comment is appended after hashing) is not part of the hash
	{
		pa := &L.Project{Mods: []L.Module{{Name: "a.js", Lit: "a"}}, Opt: baseOpt("a.js")}
		pa.Opt.Sourcemap = "linked"
		pb := pa.Clone()
		pb.Opt.Sourcemap = "external"
		ch, ok := checkPair(st, "corpus:opt-sourcemap", pa, pb, true)
		st.Note("corpus", "sourcemap-option", ch && ok)
	}
}

// Fixed pairs that every run evaluates (each must satisfy all predicates):
// the edits the property names explicitly.
func glueTargeted(st *Stats) {
	run := func(name string, pa *L.Project, edit func(p *L.Project)) {
		pb := pa.Clone()
		edit(pb)
		ch, ok := checkPair(st, "targeted:"+name, pa, pb, true)
		st.Note("targeted", name, ch && ok)
	}
	// source-map-only change: a comment line added, sourcesContent excluded
	{
		pa := &L.Project{Mods: []L.Module{{Name: "a.js", Lit: "a", Comment: "one"}}, Opt: baseOpt("a.js")}
		pa.Opt.Sourcemap, pa.Opt.NoSrcContent = "external", true
		run("sourcemap-only", pa, func(p *L.Project) { p.Mods[0].Comment = "one\n// two" })
	}
	// dynamic-import cycle between chunks: editing b must rename a (and b)
	{
		pa := &L.Project{Mods: []L.Module{{Name: "a.js", Lit: "a", Dynamic: []int{1}}, {Name: "b.js", Lit: "b", Dynamic: []int{0}, Static: []int{2}}, {Name: "c.js", Lit: "c"}}, Opt: baseOpt("a.js")}
		run("cycle-content", pa, func(p *L.Project) { p.Mods[2].Lit = "c2" })
	}
	// an asset referenced from CSS url() and from JS: editing its bytes renames everything that refers to it
	{
		pa := &L.Project{Mods: []L.Module{{Name: "a.js", Lit: "a", Assets: []string{"i.png"}, CSS: []string{"s.css"}}},
			CSS:    []L.CSSFile{{Name: "s.css", Color: "red", URLs: []string{"i.png"}}},
			Assets: map[string]string{"i.png": "PNG1"}, Opt: baseOpt("a.js")}
		pa.Opt.PublicPath = "https://cdn.example.com/x/"
		run("asset-bytes", pa, func(p *L.Project) { p.Assets["i.png"] = "PNG2" })
		run("public-path", pa, func(p *L.Project) { p.Opt.PublicPath = "https://cdn.example.com/y/" })
		run("asset-names", pa, func(p *L.Project) { p.Opt.AssetNames = "media/[name]-[hash]" })
	}
	// source-map mode x edits that reach the source map but not the code, on a
	// splitting project with a shared chunk, a dynamic import and CSS, every
	// name template hashed: whatever the mode, a path emitted by both builds
	// carries the same bytes
	for _, mode := range []string{"", "linked", "external", "inline", "both"} {
		mk := func() *L.Project {
			p := &L.Project{
				Mods: []L.Module{
					{Name: "a.js", Lit: "a", Static: []int{2}, Dynamic: []int{3}, CSS: []string{"s.css"}, Comment: "note a1"},
					{Name: "b.js", Lit: "b", Static: []int{2}, Comment: "note b1"},
					{Name: "shared.js", Lit: "s", Comment: "note s1"},
					{Name: "dyn.js", Lit: "d", Comment: "note d1"}},
				CSS:    []L.CSSFile{{Name: "s.css", Color: "red", Comment: "css note 1"}, {Name: "t.css", Color: "blue", Comment: "css note 2"}},
				Assets: map[string]string{}, Opt: baseOpt("a.js", "b.js", "t.css")}
			p.Opt.ChunkNames = "chunks/[name]-[hash]"
			p.Opt.Sourcemap = mode
			return p
		}
		tag := "sourcemap=" + mode + "/"
		for mi := 0; mi < 4; mi++ {
			mi := mi
			run(tag+"comment-same-length-js-"+fmt.Sprint(mi), mk(), func(p *L.Project) {
				c := []byte(p.Mods[mi].Comment)
				c[len(c)-1] = '2'
				p.Mods[mi].Comment = string(c)
			})
		}
		for ci := 0; ci < 2; ci++ {
			ci := ci
			run(tag+"comment-same-length-css-"+fmt.Sprint(ci), mk(), func(p *L.Project) {
				c := []byte(p.CSS[ci].Comment)
				c[len(c)-1] = '7'
				p.CSS[ci].Comment = string(c)
			})
		}
		run(tag+"comment-added-line", mk(), func(p *L.Project) { p.Mods[2].Comment += "\n// one more line" })
		run(tag+"sources-content-toggle", mk(), func(p *L.Project) { p.Opt.NoSrcContent = true })
		run(tag+"source-root", mk(), func(p *L.Project) { p.Opt.SourceRoot = "https://root.example/src/" })
		pm := mk()
		pm.Opt.NoSrcContent = true
		run(tag+"mappings-only", pm, func(p *L.Project) { p.Mods[0].Comment += "\n// shifts the lines" })
	}
	// a chunk ABOVE the output directory (--entry-names=../[name]-[hash]) that must import chunks
	// inside it: filepath.Rel cannot express the path, the build has to fail ("Cannot traverse from
	// directory ..") and emit nothing - never a reference that does not resolve
	{
		p := &L.Project{Mods: []L.Module{{Name: "a.js", Lit: "a", Static: []int{2}, Dynamic: []int{3}}, {Name: "b.js", Lit: "b", Static: []int{2}}, {Name: "shared.js", Lit: "s"}, {Name: "dyn.js", Lit: "d"}},
			Assets: map[string]string{}, Opt: baseOpt("a.js", "b.js")}
		p.Opt.EntryNames = "../[name]-[hash]"
		dir, err := os.MkdirTemp("", "verif-c18-")
		if err != nil {
			panic(err)
		}
		L.WriteTree(dir, nil, p.Render())
		b := L.Build(dir, &p.Opt)
		os.RemoveAll(dir)
		refused := len(b.Outputs) == 0 && strings.Contains(strings.Join(b.Errors, "\n"), "Cannot traverse from directory")
		st.Note("targeted", "chunk-above-outdir-refused", refused)
		if !refused {
			st.Fail("reference-does-not-name-an-emitted-file", map[string]interface{}{"scenario": "chunk-above-outdir-not-refused", "project": p, "errors": b.Errors}, b.Paths(), "a failed build without output")
		}
	}
	// placeholder-like text in the inputs next to real references
	{
		pa := &L.Project{Mods: []L.Module{{Name: "a.js", Lit: "a", Dynamic: []int{1}, Planted: "AAAAAAAAAAAAAAAAC00000001"}, {Name: "b.js", Lit: "b", Planted: "abcdefghijklmnopA00000000"}}, Opt: baseOpt("a.js")}
		run("planted", pa, func(p *L.Project) { p.Mods[1].Planted = "abcdefghijklmnopC00000000" })
	}
}
