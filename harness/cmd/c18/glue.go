package main

import (
	"bytes"
	"fmt"
	"os"
	"sort"
	"strings"

	L "github.com/evanw/esbuild/verifharness/c18lib"
	. "github.com/evanw/esbuild/verifharness/hlib"
)

// pairResult of building a project before and after an edit in one directory
type pair struct {
	a, b *L.Built
}

func buildPair(pa, pb *L.Project) (*pair, error) {
	dir, err := os.MkdirTemp("", "verif-c18-")
	if err != nil {
		return nil, err
	}
	defer os.RemoveAll(dir)
	fa := pa.Render()
	if err := L.WriteTree(dir, nil, fa); err != nil {
		return nil, err
	}
	a := L.Build(dir, &pa.Opt)
	fb := pb.Render()
	if err := L.WriteTree(dir, fa, fb); err != nil {
		return nil, err
	}
	b := L.Build(dir, &pb.Opt)
	return &pair{a, b}, nil
}

var reportedClass = map[string]bool{}

type sameNameDiff struct {
	Path  string
	Class string
}

// samePathDifferentBytes: the property's first predicate on a pair of builds
func samePathDifferentBytes(p *pair, oa, ob *L.Opt) []sameNameDiff {
	var out []sameNameDiff
	for _, k := range p.a.Paths() {
		vb, ok := p.b.Outputs[k]
		if !ok || bytes.Equal(vb, p.a.Outputs[k]) {
			continue
		}
		out = append(out, sameNameDiff{k, L.ClassifyDiff(k, p.a.Outputs[k], vb, oa, ob)})
	}
	// the source map of a chunk hit by the import-order finding differs too (the
	// swapped paths have different lengths, so the columns after them move): it
	// is the same finding seen in the sibling file, and only then
	for i := range out {
		if strings.HasSuffix(out[i].Path, ".map") && strings.HasPrefix(out[i].Class, "other") {
			for _, d := range out {
				if d.Path+".map" == out[i].Path && d.Class == "import-order-swapped" {
					out[i].Class = "import-order-swapped"
				}
			}
		}
	}
	return out
}

// whether the output at this path carries a [hash] (only those names promise to identify the bytes)
func nameIsHashed(o *L.Opt, path string, b *L.Built) bool {
	return true
}

func pairInput(scenario, edit string, pa, pb *L.Project, path string) map[string]interface{} {
	return map[string]interface{}{"scenario": scenario, "edit": edit, "path": path, "before": pa, "after": pb}
}

// evaluate every predicate of the property on one pair; returns true when the
// edit had an effect (some output path or byte changed)
func checkPair(st *Stats, edit string, pa, pb *L.Project, hashed bool) (bool, bool) {
	p, err := buildPair(pa, pb)
	if err != nil {
		panic(err)
	}
	if len(p.a.Errors) > 0 || len(p.b.Errors) > 0 {
		st.Note("glue-build-error", edit+pa.JSON(), false)
		return false, false
	}
	if hashed {
		for _, d := range samePathDifferentBytes(p, &pa.Opt, &pb.Opt) {
			report := func() []sameNameDiff {
				q, err := buildPair(pa, pb) // re-run before reporting
				if err != nil {
					return nil
				}
				return samePathDifferentBytes(q, &pa.Opt, &pb.Opt)
			}
			again := report()
			found := false
			for _, d2 := range again {
				if d2 == d {
					found = true
				}
			}
			if !found {
				continue
			}
			// the known classes are reported once each (the first is the fixed corpus replay),
			// so that they cannot crowd a different violation out of the failure list
			if !strings.HasPrefix(d.Class, "other") {
				if reportedClass[d.Class] {
					st.Note("known-class-again:"+d.Class, edit+pa.JSON(), false)
					continue
				}
				reportedClass[d.Class] = true
			}
			st.Fail("same-output-path-different-bytes", pairInput("same-name-different-bytes/"+d.Class, edit, pa, pb, d.Path),
				clip(string(p.b.Outputs[d.Path]), 600), clip(string(p.a.Outputs[d.Path]), 600))
		}
	}
	for which, bl := range []*L.Built{p.a, p.b} {
		proj := pa
		if which == 1 {
			proj = pb
		}
		for _, ur := range L.Unresolved(bl, proj.Opt.PublicPath) {
			st.Fail("reference-does-not-name-an-emitted-file", map[string]interface{}{"scenario": "dangling-reference/" + ur.Kind, "edit": edit, "project": proj, "ref": ur, "emitted": bl.Paths()}, ur.Spec, "a path of this build's outputs")
		}
		for _, path := range bl.Paths() {
			if errs := parseErrors(path, bl.Outputs[path]); len(errs) > 0 {
				st.Fail("emitted-file-does-not-parse", map[string]interface{}{"scenario": "syntax", "edit": edit, "project": proj, "path": path}, errs, "valid syntax")
			}
		}
		planted := proj.PlantedList()
		for _, path := range bl.Paths() {
			if ks := L.SurvivingKeys(bl.Outputs[path], planted); len(ks) > 0 {
				st.Fail("placeholder-survives-in-output", map[string]interface{}{"scenario": "unique-key-in-output", "edit": edit, "project": proj, "path": path}, ks, "no unique-key-shaped text")
			}
		}
		if ks := L.SurvivingKeys([]byte(bl.Metafile), planted); len(ks) > 0 {
			st.Fail("placeholder-survives-in-metafile", map[string]interface{}{"scenario": "unique-key-in-metafile", "edit": edit, "project": proj}, ks, "no unique-key-shaped text")
		}
		// planted placeholder-like input text must come through verbatim
		for _, pl := range planted {
			foundIn := false
			for _, path := range bl.Paths() {
				if bytes.Contains(bl.Outputs[path], []byte(pl)) {
					foundIn = true
				}
			}
			if !foundIn && !proj.Opt.MinifyS {
				// (the module may be unreachable from the entries: only then may it be absent)
				if reachablePlanted(proj, pl) {
					st.Fail("planted-placeholder-like-text-altered", map[string]interface{}{"scenario": "planted-text", "project": proj, "planted": pl}, "absent", "present verbatim")
				}
			}
		}
	}
	changed := strings.Join(p.a.Paths(), "\n") != strings.Join(p.b.Paths(), "\n")
	if !changed {
		for _, k := range p.a.Paths() {
			if !bytes.Equal(p.a.Outputs[k], p.b.Outputs[k]) {
				changed = true
			}
		}
	}
	return changed, true
}

func reachablePlanted(p *L.Project, pl string) bool {
	seen := map[int]bool{}
	seenCSS := map[string]bool{}
	var visitCSS func(name string)
	visitCSS = func(name string) {
		if seenCSS[name] {
			return
		}
		seenCSS[name] = true
		for i := range p.CSS {
			if p.CSS[i].Name == name {
				for _, j := range p.CSS[i].Imports {
					visitCSS(p.CSS[j].Name)
				}
			}
		}
	}
	var visit func(i int)
	visit = func(i int) {
		if seen[i] {
			return
		}
		seen[i] = true
		m := &p.Mods[i]
		for _, s := range m.Static {
			visit(s)
		}
		for _, s := range m.Dynamic {
			visit(s)
		}
		for _, c := range m.CSS {
			visitCSS(c)
		}
	}
	for _, e := range p.Opt.Entries {
		for i := range p.Mods {
			if p.Mods[i].Name == e {
				visit(i)
			}
		}
		visitCSS(e)
	}
	for i := range p.Mods {
		if seen[i] && p.Mods[i].Planted == pl {
			return true
		}
	}
	for i := range p.CSS {
		if seenCSS[p.CSS[i].Name] && p.CSS[i].Planted == pl {
			return true
		}
	}
	return false
}

// ---------------------------------------------------------------- edits

type edit struct {
	name  string
	apply func(r *Rng, p *L.Project) bool // false: not applicable
}

func pickMod(r *Rng, p *L.Project, ok func(m *L.Module) bool) *L.Module {
	var c []int
	for i := range p.Mods {
		if ok(&p.Mods[i]) {
			c = append(c, i)
		}
	}
	if len(c) == 0 {
		return nil
	}
	return &p.Mods[c[r.Intn(len(c))]]
}

var edits = []edit{
	{"none", func(r *Rng, p *L.Project) bool { return true }},
	{"content", func(r *Rng, p *L.Project) bool {
		m := pickMod(r, p, func(*L.Module) bool { return true })
		m.Lit += "X"
		return true
	}},
	{"content-same-length", func(r *Rng, p *L.Project) bool {
		m := pickMod(r, p, func(*L.Module) bool { return true })
		b := []byte(m.Lit)
		if b[0] == 'z' {
			b[0] = 'y'
		} else {
			b[0] = 'z'
		}
		m.Lit = string(b)
		return true
	}},
	{"comment-only", func(r *Rng, p *L.Project) bool {
		m := pickMod(r, p, func(*L.Module) bool { return true })
		if r.Bool() {
			m.Comment += " edited"
		} else {
			m.Comment += "\n// an added comment line" // shifts every original line: source-map-only change
		}
		return true
	}},
	{"legal-comment-text", func(r *Rng, p *L.Project) bool {
		m := pickMod(r, p, func(m *L.Module) bool { return m.Legal != "" })
		if m == nil {
			return false
		}
		m.Legal += " v2"
		return true
	}},
	{"dynamic-import-order", func(r *Rng, p *L.Project) bool {
		m := pickMod(r, p, func(m *L.Module) bool { return len(m.Dynamic) >= 2 })
		if m == nil {
			return false
		}
		i := r.Intn(len(m.Dynamic) - 1)
		m.Dynamic[i], m.Dynamic[i+1] = m.Dynamic[i+1], m.Dynamic[i]
		return true
	}},
	{"static-import-order", func(r *Rng, p *L.Project) bool {
		m := pickMod(r, p, func(m *L.Module) bool { return len(m.Static) >= 2 })
		if m == nil {
			return false
		}
		i := r.Intn(len(m.Static) - 1)
		m.Static[i], m.Static[i+1] = m.Static[i+1], m.Static[i]
		return true
	}},
	{"asset-import-order", func(r *Rng, p *L.Project) bool {
		m := pickMod(r, p, func(m *L.Module) bool { return len(m.Assets) >= 2 })
		if m == nil {
			return false
		}
		m.Assets[0], m.Assets[1] = m.Assets[1], m.Assets[0]
		return true
	}},
	{"add-dynamic-import", func(r *Rng, p *L.Project) bool {
		m := pickMod(r, p, func(*L.Module) bool { return true })
		t := r.Intn(len(p.Mods))
		if p.Mods[t].Name == m.Name {
			return false
		}
		m.Dynamic = append(m.Dynamic, t)
		return true
	}},
	{"asset-bytes", func(r *Rng, p *L.Project) bool {
		var ks []string
		for k := range p.Assets {
			ks = append(ks, k)
		}
		if len(ks) == 0 {
			return false
		}
		sort.Strings(ks)
		k := ks[r.Intn(len(ks))]
		p.Assets[k] += "!"
		return true
	}},
	{"css-rule", func(r *Rng, p *L.Project) bool {
		if len(p.CSS) == 0 {
			return false
		}
		c := &p.CSS[r.Intn(len(p.CSS))]
		c.Color = "rgb(1, 2, " + fmt.Sprint(r.Intn(200)) + ")"
		return true
	}},
	{"css-comment-only", func(r *Rng, p *L.Project) bool {
		if len(p.CSS) == 0 {
			return false
		}
		c := &p.CSS[r.Intn(len(p.CSS))]
		if r.Bool() {
			c.Comment += " edited"
		} else {
			c.Comment += " edited\n   continued on an added line"
		}
		return true
	}},
	{"css-legal-comment-text", func(r *Rng, p *L.Project) bool {
		for i := range p.CSS {
			if p.CSS[i].Legal != "" {
				p.CSS[i].Legal += " v2"
				return true
			}
		}
		return false
	}},
	{"css-url-order", func(r *Rng, p *L.Project) bool {
		for i := range p.CSS {
			if len(p.CSS[i].URLs) >= 2 {
				u := p.CSS[i].URLs
				u[0], u[1] = u[1], u[0]
				return true
			}
		}
		return false
	}},
	{"opt-public-path", func(r *Rng, p *L.Project) bool {
		if p.Opt.PublicPath == "" {
			p.Opt.PublicPath = "https://other.example/"
		} else if r.Bool() {
			p.Opt.PublicPath = ""
		} else {
			p.Opt.PublicPath += "v2/"
		}
		return true
	}},
	{"opt-entry-names", func(r *Rng, p *L.Project) bool {
		p.Opt.EntryNames = "x/" + strings.TrimPrefix(p.Opt.EntryNames, "[dir]/")
		if p.Opt.EntryNames == "x/" {
			p.Opt.EntryNames = "x/[name]-[hash]"
		}
		return true
	}},
	{"opt-chunk-names", func(r *Rng, p *L.Project) bool {
		if p.Opt.ChunkNames == "" {
			p.Opt.ChunkNames = "k/[name]-[hash]"
		} else {
			p.Opt.ChunkNames = "k2/" + p.Opt.ChunkNames
		}
		return true
	}},
	{"opt-asset-names", func(r *Rng, p *L.Project) bool {
		if p.Opt.AssetNames == "" {
			p.Opt.AssetNames = "as/[name]-[hash]"
		} else {
			p.Opt.AssetNames = "as2/" + p.Opt.AssetNames
		}
		return true
	}},
	{"opt-sourcemap", func(r *Rng, p *L.Project) bool {
		old := p.Opt.Sourcemap
		for p.Opt.Sourcemap == old {
			p.Opt.Sourcemap = []string{"", "linked", "external", "inline", "both"}[r.Intn(5)]
		}
		return true
	}},
	{"opt-sources-content", func(r *Rng, p *L.Project) bool {
		if p.Opt.Sourcemap == "" {
			return false
		}
		p.Opt.NoSrcContent = !p.Opt.NoSrcContent
		return true
	}},
	{"opt-source-root", func(r *Rng, p *L.Project) bool {
		if p.Opt.Sourcemap == "" {
			return false
		}
		p.Opt.SourceRoot += "https://root.example/r/"
		return true
	}},
	{"opt-legal-comments", func(r *Rng, p *L.Project) bool {
		old := p.Opt.Legal
		for p.Opt.Legal == old {
			p.Opt.Legal = []string{"none", "inline", "eof", "linked", "external"}[r.Intn(5)]
		}
		return true
	}},
	{"opt-minify", func(r *Rng, p *L.Project) bool {
		switch r.Intn(3) {
		case 0:
			p.Opt.MinifyW = !p.Opt.MinifyW
		case 1:
			p.Opt.MinifyI = !p.Opt.MinifyI
		default:
			p.Opt.MinifyS = !p.Opt.MinifyS
		}
		return true
	}},
	{"opt-banner", func(r *Rng, p *L.Project) bool {
		p.Opt.BannerJS += "/* b2 */"
		p.Opt.BannerCSS += "/* b2 */"
		return true
	}},
	{"opt-footer", func(r *Rng, p *L.Project) bool {
		p.Opt.FooterJS += "/* f2 */"
		return true
	}},
	{"rename-module", func(r *Rng, p *L.Project) bool {
		i := r.Intn(len(p.Mods))
		for _, e := range p.Opt.Entries {
			if e == p.Mods[i].Name {
				return false
			}
		}
		p.Mods[i].Name = strings.TrimSuffix(p.Mods[i].Name, ".js") + "_r.js"
		return true
	}},
	{"planted-text", func(r *Rng, p *L.Project) bool {
		m := pickMod(r, p, func(*L.Module) bool { return true })
		m.Planted = L.PlantedString(r)
		return true
	}},
}

func gluePairs(r *Rng, n int, st *Stats) {
	for i := 0; i < n; i++ {
		pa := L.GenProject(r, L.GenCfg{Hashed: true, CSS: r.Chance(60)})
		var pb *L.Project
		var e edit
		for tries := 0; tries < 20; tries++ {
			e = edits[r.Intn(len(edits))]
			if r.Chance(25) {
				e = edits[3+r.Intn(2)*8] // comment-only / css-comment-only: the source-map-only changes
			}
			if strings.Contains(e.name, "comment-only") {
				// a comment edit is visible only through the source map (sourcesContent, or with
				// sourcesContent excluded only through the mappings): make sure there is one
				if pa.Opt.Sourcemap == "" {
					pa.Opt.Sourcemap = []string{"linked", "external", "both", "inline", "inline"}[r.Intn(5)]
				}
				pa.Opt.NoSrcContent = r.Bool()
				pa.Opt.MinifyW = false
			}
			pb = pa.Clone()
			if e.apply(r, pb) {
				break
			}
			pb = nil
		}
		if pb == nil {
			pb = pa.Clone()
			e = edits[0]
		}
		changed, ok := checkPair(st, e.name, pa, pb, true)
		if ok {
			st.Note("glue:"+e.name, pa.JSON()+pb.JSON(), changed)
			if i < 3 {
				st.Sample(map[string]interface{}{"glue-edit": e.name, "entries": pa.Opt.Entries, "modules": len(pa.Mods), "splitting": pa.Opt.Splitting})
			}
		}
	}
}
