package main

// Per-build plugin callback traces: Go-side check (port of the Coq checker
// Plugin.build_trace_ok) and Coq case printing.

import (
	"fmt"
	"sort"
	"strings"
)

func splitByBuild(pt []pev) map[int][]pev {
	out := map[int][]pev{}
	for _, e := range pt {
		out[e.B] = append(out[e.B], e)
	}
	return out
}

// checkBuildTrace mirrors Plugin.build_trace_ok
func checkBuildTrace(tr []pev, nS, nE int) string {
	sb := map[int]int{}
	se := map[int]int{}
	nse := 0
	loaded := map[string]bool{}
	resolved := map[string]bool{}
	endNext := 0     // index of the next on-end callback expected to begin
	endOpen := false // an on-end callback has begun and not ended
	endStopped := false
	endSeen := false
	for _, e := range tr {
		switch e.Kind {
		case "sb":
			if e.I >= nS || sb[e.I] > 0 || endSeen {
				return fmt.Sprintf("on-start callback %d ran twice (or after on-end)", e.I)
			}
			sb[e.I]++
		case "se":
			if sb[e.I] != 1 || se[e.I] > 0 {
				return fmt.Sprintf("on-start callback %d ended without having begun once", e.I)
			}
			se[e.I]++
			nse++
		case "res", "load":
			if nse != nS {
				return fmt.Sprintf("%s callback ran before all on-start callbacks finished (%d of %d)", e.Kind, nse, nS)
			}
			if endSeen {
				return fmt.Sprintf("%s callback ran after on-end callbacks began", e.Kind)
			}
			if e.Kind == "res" && e.Imp != "" {
				if !loaded[e.Imp] {
					return fmt.Sprintf("import %q of file %q was resolved before that file was loaded", e.Key, e.Imp)
				}
				if resolved[e.Imp+"\x00"+e.Key] {
					return fmt.Sprintf("on-resolve ran twice for the same import %q of file %q (per-file resolver cache)", e.Key, e.Imp)
				}
				resolved[e.Imp+"\x00"+e.Key] = true
			}
			if e.Kind == "load" {
				if loaded[e.Mod] {
					return fmt.Sprintf("module identity %q loaded twice in one build", e.Mod)
				}
				loaded[e.Mod] = true
			}
		case "eb":
			if nse != nS {
				return "on-end callback ran before all on-start callbacks finished"
			}
			if endOpen || endStopped || e.I != endNext || e.I >= nE {
				return fmt.Sprintf("on-end callback %d out of order, repeated, or run after an earlier one failed", e.I)
			}
			if e.Written == 0 {
				return "on-end callback ran before the output file of this build was written"
			}
			endOpen = true
			endSeen = true
		case "ee":
			if !endOpen || e.I != endNext {
				return fmt.Sprintf("on-end callback %d ended without having begun", e.I)
			}
			endOpen = false
			endNext++
			if e.Fail {
				endStopped = true
			}
		}
	}
	if endSeen && !endOpen && !endStopped && endNext != nE {
		return fmt.Sprintf("only %d of %d on-end callbacks ran although none failed", endNext, nE)
	}
	return ""
}

func checkPluginTrace(pt []pev, nS, nE int) []string {
	var out []string
	byB := splitByBuild(pt)
	ids := make([]int, 0, len(byB))
	for b := range byB {
		ids = append(ids, b)
	}
	sort.Ints(ids)
	for _, b := range ids {
		if msg := checkBuildTrace(byB[b], nS, nE); msg != "" {
			out = append(out, fmt.Sprintf("build %d: %s", b, msg))
		}
	}
	return out
}

// Coq cases: (nS, nE, complete?, trace) per build; module identities numbered
func coqTraces(pt []pev, nS, nE int) []string {
	var out []string
	byB := splitByBuild(pt)
	ids := make([]int, 0, len(byB))
	for b := range byB {
		ids = append(ids, b)
	}
	sort.Ints(ids)
	for _, b := range ids {
		num := map[string]int{}
		keys := map[string]int{}
		var items []string
		for _, e := range byB[b] {
			switch e.Kind {
			case "sb":
				items = append(items, fmt.Sprintf("PSB %d", e.I))
			case "se":
				items = append(items, fmt.Sprintf("PSE %d", e.I))
			case "res":
				if e.Imp == "" {
					items = append(items, "PRes")
				} else {
					if _, ok := num[e.Imp]; !ok {
						num[e.Imp] = len(num) // never loaded: the Coq checker rejects it
					}
					k := e.Imp + "\x00" + e.Key
					if _, ok := keys[k]; !ok {
						keys[k] = len(keys)
					}
					items = append(items, fmt.Sprintf("PResK %d %d", num[e.Imp], keys[k]))
				}
			case "load":
				if _, ok := num[e.Mod]; !ok {
					num[e.Mod] = len(num)
				}
				items = append(items, fmt.Sprintf("PLoad %d", num[e.Mod]))
			case "eb":
				w := "true"
				if e.Written == 0 {
					w = "false"
				}
				items = append(items, fmt.Sprintf("PEB %d %s", e.I, w))
			case "ee":
				f := "false"
				if e.Fail {
					f = "true"
				}
				items = append(items, fmt.Sprintf("PEE %d %s", e.I, f))
			}
		}
		if len(items) > 120 {
			continue
		}
		out = append(out, fmt.Sprintf("(%d%%nat, %d%%nat, [%s])", nS, nE, strings.Join(items, "; ")))
	}
	return out
}
