package main

// Harness-side implementation of the stdio packet codec, written from the
// protocol description (not copied from esbuild), used to talk to the real
// `esbuild --service` child.  Every packet that crosses the pipe in either
// direction becomes a correspondence case for the Coq model (Protocol.v):
// the model must decode the bytes to the same value and re-encode the value
// to the same bytes.

import (
	"encoding/binary"
	"fmt"
	"sort"
	"strings"

	. "github.com/evanw/esbuild/verifharness/hlib"
)

type pkt struct {
	id    uint32
	isReq bool
	value interface{}
}

func put32(b []byte, v uint32) []byte {
	var t [4]byte
	binary.LittleEndian.PutUint32(t[:], v)
	return append(b, t[:]...)
}

func encValue(b []byte, v interface{}) []byte {
	switch x := v.(type) {
	case nil:
		return append(b, 0)
	case bool:
		if x {
			return append(b, 1, 1)
		}
		return append(b, 1, 0)
	case int:
		return put32(append(b, 2), uint32(x))
	case string:
		return append(put32(append(b, 3), uint32(len(x))), x...)
	case []byte:
		return append(put32(append(b, 4), uint32(len(x))), x...)
	case []interface{}:
		b = put32(append(b, 5), uint32(len(x)))
		for _, it := range x {
			b = encValue(b, it)
		}
		return b
	case map[string]interface{}:
		keys := make([]string, 0, len(x))
		for k := range x {
			keys = append(keys, k)
		}
		sort.Strings(keys)
		b = put32(append(b, 6), uint32(len(keys)))
		for _, k := range keys {
			b = append(put32(b, uint32(len(k))), k...)
			b = encValue(b, x[k])
		}
		return b
	}
	panic(fmt.Sprintf("encValue: unsupported %T", v))
}

// body only (without the length prefix)
func encBody(p pkt) []byte {
	h := p.id << 1
	if !p.isReq {
		h |= 1
	}
	return encValue(put32(nil, h), p.value)
}

func frame(body []byte) []byte { return append(put32(nil, uint32(len(body))), body...) }

type decoder struct {
	b   []byte
	bad bool
}

func (d *decoder) u32() uint32 {
	if len(d.b) < 4 {
		d.bad = true
		return 0
	}
	v := binary.LittleEndian.Uint32(d.b)
	d.b = d.b[4:]
	return v
}
func (d *decoder) slice() []byte {
	n := d.u32()
	if d.bad || uint64(len(d.b)) < uint64(n) {
		d.bad = true
		return nil
	}
	s := d.b[:n]
	d.b = d.b[n:]
	return s
}
func (d *decoder) value(depth int) interface{} {
	if d.bad || len(d.b) == 0 || depth > 200 {
		d.bad = true
		return nil
	}
	k := d.b[0]
	d.b = d.b[1:]
	switch k {
	case 0:
		return nil
	case 1:
		if len(d.b) == 0 {
			d.bad = true
			return nil
		}
		v := d.b[0] != 0
		d.b = d.b[1:]
		return v
	case 2:
		return int(d.u32())
	case 3:
		return string(d.slice())
	case 4:
		return append([]byte{}, d.slice()...)
	case 5:
		n := d.u32()
		out := []interface{}{}
		for i := uint32(0); i < n && !d.bad; i++ {
			out = append(out, d.value(depth+1))
		}
		return out
	case 6:
		n := d.u32()
		out := map[string]interface{}{}
		for i := uint32(0); i < n && !d.bad; i++ {
			key := string(d.slice())
			out[key] = d.value(depth + 1)
		}
		return out
	}
	d.bad = true
	return nil
}

func decBody(body []byte) (pkt, bool) {
	d := &decoder{b: body}
	h := d.u32()
	v := d.value(0)
	if d.bad || len(d.b) != 0 {
		return pkt{}, false
	}
	return pkt{id: h >> 1, isReq: h&1 == 0, value: v}, true
}

// ---- Coq printing of values (maps printed with keys sorted) ----

func coqStr(s string) string { return CBytes([]byte(s)) }

func coqValue(sb *strings.Builder, v interface{}) {
	switch x := v.(type) {
	case nil:
		sb.WriteString("VNull")
	case bool:
		sb.WriteString("(VBool " + CBool(x) + ")")
	case int:
		sb.WriteString("(VInt " + CZ(int64(x)) + ")")
	case string:
		sb.WriteString("(VStr " + coqStr(x) + ")")
	case []byte:
		sb.WriteString("(VBytes " + CBytes(x) + ")")
	case []interface{}:
		sb.WriteString("(VArr [")
		for i, it := range x {
			if i > 0 {
				sb.WriteString(";")
			}
			coqValue(sb, it)
		}
		sb.WriteString("])")
	case map[string]interface{}:
		keys := make([]string, 0, len(x))
		for k := range x {
			keys = append(keys, k)
		}
		sort.Strings(keys)
		sb.WriteString("(VMap [")
		for i, k := range keys {
			if i > 0 {
				sb.WriteString(";")
			}
			sb.WriteString("(" + coqStr(k) + ",")
			coqValue(sb, x[k])
			sb.WriteString(")")
		}
		sb.WriteString("])")
	default:
		panic(fmt.Sprintf("coqValue: %T", v))
	}
}

// (body bytes, id, isRequest, value)
func coqPktCase(body []byte, p pkt) string {
	var sb strings.Builder
	sb.WriteString("(" + CBytes(body) + "," + CZ(int64(p.id)) + "," + CBool(p.isReq) + ",")
	coqValue(&sb, p.value)
	sb.WriteString(")")
	return sb.String()
}

// random value trees for the codec-only cases (echoed through the service
// inside requests whose unknown fields are ignored)
func randValue(r *Rng, depth int) interface{} {
	k := r.Intn(7)
	if depth <= 0 && k >= 5 {
		k = r.Intn(5)
	}
	switch k {
	case 0:
		return nil
	case 1:
		return r.Bool()
	case 2:
		switch r.Intn(4) {
		case 0:
			return r.Intn(300)
		case 1:
			return []int{0, 1, 255, 256, 65535, 65536, 1<<24 - 1, 1 << 24, 1<<31 - 1, 1 << 31, 1<<32 - 1}[r.Intn(11)]
		default:
			return int(r.U64() % (1 << 32))
		}
	case 3:
		return randStr(r, r.Intn(12))
	case 4:
		b := make([]byte, r.Intn(10))
		for i := range b {
			b[i] = byte(r.Intn(256))
		}
		return b
	case 5:
		n := r.Intn(4)
		out := make([]interface{}, n)
		for i := range out {
			out[i] = randValue(r, depth-1)
		}
		return out
	default:
		n := r.Intn(4)
		out := map[string]interface{}{}
		for i := 0; i < n; i++ {
			out[randStr(r, r.Intn(5))] = randValue(r, depth-1)
		}
		return out
	}
}

func randStr(r *Rng, n int) string {
	b := make([]byte, n)
	for i := range b {
		switch r.Intn(6) {
		case 0:
			b[i] = byte(r.Intn(256))
		case 1:
			b[i] = "aAzZ09_-"[r.Intn(8)]
		default:
			b[i] = byte('a' + r.Intn(26))
		}
	}
	return string(b)
}
