package main

// Scenarios against the real service process.

import (
	"fmt"
	"os"
	"strings"
	"sync"
	"time"

	. "github.com/evanw/esbuild/verifharness/hlib"
)

type svcEnv struct {
	exe     string
	version string
	tmp     string
	st      *Stats
	pktOut  []string // Coq cases: packets written by the real service
	pktIn   []string // Coq cases: packets written by the harness and accepted by the service
	streams []string
	svcTr   []string // Coq cases: packet transcripts (list sev)
	mu      sync.Mutex
	idMu    sync.Mutex
	used    map[uint32]bool
	seqID   uint32
}

func (e *svcEnv) freshID(r *Rng) uint32 {
	e.idMu.Lock()
	defer e.idMu.Unlock()
	for {
		var id uint32
		switch r.Intn(4) {
		case 0:
			id = uint32(r.U64() % (1 << 31))
		case 1:
			id = []uint32{0, 1, 127, 128, 255, 256, 65535, 65536, 1<<24 - 1, 1 << 24, 1<<30 - 1, 1 << 30, 1<<31 - 1}[r.Intn(13)]
		default:
			id = e.seqID
			e.seqID++
		}
		if !e.used[id] {
			e.used[id] = true
			return id
		}
	}
}

type reqSpec struct {
	kind  string
	value map[string]interface{}
	check func(resp interface{}) string // "" = ok
}

func asMap(v interface{}) map[string]interface{} {
	m, _ := v.(map[string]interface{})
	return m
}
func arrLen(v interface{}) int {
	a, ok := v.([]interface{})
	if !ok {
		return -1
	}
	return len(a)
}

func expectError(text string) func(interface{}) string {
	return func(resp interface{}) string {
		m := asMap(resp)
		if m == nil || m["error"] != text {
			return fmt.Sprintf("expected error %q, got %v", text, clipv(resp))
		}
		return ""
	}
}
func expectEmpty(resp interface{}) string {
	m := asMap(resp)
	if m == nil || len(m) != 0 {
		return fmt.Sprintf("expected {}, got %v", clipv(resp))
	}
	return ""
}

func clipv(v interface{}) string {
	s := fmt.Sprintf("%v", v)
	if len(s) > 300 {
		s = s[:300] + "..."
	}
	return s
}

func genOneShot(r *Rng, e *svcEnv, n int) reqSpec {
	marker := fmt.Sprintf("mk%d_%d", n, r.Intn(1000000))
	var spec reqSpec
	switch r.Intn(12) {
	case 0, 1, 2:
		bad := r.Chance(15)
		src := fmt.Sprintf("let %s = %d;\nconsole.log(%s, %q)", marker, r.Intn(1000), marker, randStr(r, r.Intn(8)))
		if bad {
			src = "let " + marker + " = ;"
		}
		flags := []interface{}{"--log-level=silent"}
		if r.Bool() {
			flags = append(flags, "--minify-whitespace")
		}
		if r.Chance(30) {
			flags = append(flags, "--loader=ts")
		}
		spec = reqSpec{kind: "transform", value: map[string]interface{}{"command": "transform", "flags": flags, "input": []byte(src), "inputFS": false},
			check: func(resp interface{}) string {
				m := asMap(resp)
				if m == nil {
					return "transform: response is not a map: " + clipv(resp)
				}
				code, _ := m["code"].(string)
				ne := arrLen(m["errors"])
				if bad {
					if ne < 1 {
						return "transform of a syntax error reported no error: " + clipv(resp)
					}
					return ""
				}
				if ne != 0 || !strings.Contains(code, marker) {
					return "transform: result does not belong to this request (marker " + marker + "): " + clipv(resp)
				}
				return ""
			}}
	case 3:
		spec = reqSpec{kind: "format-msgs", value: map[string]interface{}{"command": "format-msgs", "isWarning": r.Bool(),
			"messages": []interface{}{map[string]interface{}{"id": "", "pluginName": "", "text": marker, "location": nil, "notes": []interface{}{}, "detail": r.Intn(5)}}},
			check: func(resp interface{}) string {
				m := asMap(resp)
				a, _ := m["messages"].([]interface{})
				if len(a) != 1 {
					return "format-msgs: " + clipv(resp)
				}
				if s, _ := a[0].(string); !strings.Contains(s, marker) {
					return "format-msgs: foreign result: " + clipv(resp)
				}
				return ""
			}}
	case 4:
		spec = reqSpec{kind: "analyze-metafile", value: map[string]interface{}{"command": "analyze-metafile", "color": false,
			"metafile": `{"inputs":{"` + marker + `.js":{"bytes":10,"imports":[]}},"outputs":{"out/` + marker + `.js":{"bytes":10,"inputs":{"` + marker + `.js":{"bytesInOutput":10}},"imports":[],"exports":[]}}}`},
			check: func(resp interface{}) string {
				m := asMap(resp)
				if s, _ := m["result"].(string); !strings.Contains(s, marker) {
					return "analyze-metafile: foreign result: " + clipv(resp)
				}
				return ""
			}}
	case 5:
		cmd := "bogus-" + marker
		spec = reqSpec{kind: "invalid", value: map[string]interface{}{"command": cmd}, check: expectError("Invalid command: " + cmd)}
	case 6:
		spec = reqSpec{kind: "resolve-inactive", value: map[string]interface{}{"command": "resolve", "key": 900000 + r.Intn(1000), "path": "./x"},
			check: expectError("Cannot call \"resolve\" on an inactive build")}
	case 7:
		spec = reqSpec{kind: "rebuild-inactive", value: map[string]interface{}{"command": "rebuild", "key": 900000 + r.Intn(1000)}, check: expectError("Cannot rebuild")}
	case 8:
		if r.Bool() {
			spec = reqSpec{kind: "watch-inactive", value: map[string]interface{}{"command": "watch", "key": 900000 + r.Intn(1000)}, check: expectError("Cannot watch")}
		} else {
			spec = reqSpec{kind: "serve-inactive", value: map[string]interface{}{"command": "serve", "key": 900000 + r.Intn(1000), "onRequest": false}, check: expectError("Cannot serve")}
		}
	case 9:
		c := "cancel"
		if r.Bool() {
			c = "dispose"
		}
		spec = reqSpec{kind: c + "-inactive", value: map[string]interface{}{"command": c, "key": 900000 + r.Intn(1000)}, check: expectEmpty}
	default:
		src := fmt.Sprintf("export let %s = %d; console.log(%s)", marker, r.Intn(1000), marker)
		flags := []interface{}{"--log-level=silent"}
		if r.Bool() {
			flags = append(flags, "--bundle")
		}
		e.idMu.Lock()
		key := int(e.seqID) + 5000 + r.Intn(1000)*7919
		e.seqID++
		e.idMu.Unlock()
		spec = reqSpec{kind: "build", value: map[string]interface{}{"command": "build", "key": key, "entries": []interface{}{}, "flags": flags, "write": false,
			"stdinContents": []byte(src), "stdinResolveDir": nil, "absWorkingDir": e.tmp, "nodePaths": []interface{}{}, "context": false},
			check: func(resp interface{}) string {
				m := asMap(resp)
				files, _ := m["outputFiles"].([]interface{})
				if m == nil || arrLen(m["errors"]) != 0 || len(files) != 1 {
					return "build: " + clipv(resp)
				}
				c, _ := asMap(files[0])["contents"].([]byte)
				if !strings.Contains(string(c), marker) {
					return "build: foreign result: " + clipv(resp)
				}
				return ""
			}}
	}
	if r.Chance(35) {
		spec.value["x-junk"] = randValue(r, 2) // unknown fields are ignored by the service; exercises the codec
	}
	return spec
}

// collect the packets of a finished process as Coq cases (bounded)
func (e *svcEnv) collect(s *svcProc, maxEach int) {
	e.mu.Lock()
	defer e.mu.Unlock()
	s.mu.Lock()
	defer s.mu.Unlock()
	for i, b := range s.outBody {
		if i >= maxEach {
			break
		}
		if len(b) <= 1500 {
			e.pktOut = append(e.pktOut, coqPktCase(b, s.outPkt[i]))
			e.st.Note("pkt-from-service", string(b), true)
		}
	}
	for i, b := range s.inBody {
		if i >= maxEach {
			break
		}
		if len(b) <= 1500 {
			e.pktIn = append(e.pktIn, coqPktCase(b, s.inPkt[i]))
			e.st.Note("pkt-to-service", string(b), true)
		}
	}
}

type sentReq struct {
	id   uint32
	kind string
	sent bool
	got  bool
	err  string
}

// Scenario A: k clients issue callback-free requests concurrently; stdin is
// closed at a seeded byte offset (possibly in the middle of a packet) or after
// the last response.  Every completely written request must get exactly one
// response with its id, the results must belong to the request, and the
// process must exit.
func scenOneShot(seed uint64, e *svcEnv, idx int) {
	r := NewRng(seed)
	s, err := startSvc(e.exe, e.version, []string{fmt.Sprintf("GOMAXPROCS=%d", 1+r.Intn(8))}, func(p pkt) (interface{}, bool) {
		return map[string]interface{}{}, true
	})
	if err != nil {
		e.st.Fail("service-start", seed, err.Error(), "service starts and prints its version")
		return
	}
	if s.version != e.version {
		e.st.Fail("service-version", seed, s.version, e.version)
	}
	k := r.Range(1, 4)
	m := r.Range(2, 6)
	cut := r.Chance(50)
	if cut {
		s.cutAt = r.Intn(k*m*150 + 1)
	}
	var wg sync.WaitGroup
	results := make([][]*sentReq, k)
	var streamMu sync.Mutex
	for c := 0; c < k; c++ {
		wg.Add(1)
		cr := NewRng(r.U64())
		go func(c int, cr *Rng) {
			defer wg.Done()
			for j := 0; j < m; j++ {
				spec := genOneShot(cr, e, idx*100+c*10+j)
				id := e.freshID(cr)
				sr := &sentReq{id: id, kind: spec.kind}
				streamMu.Lock()
				results[c] = append(results[c], sr)
				streamMu.Unlock()
				resp, sent, got := s.request(id, spec.value, 20*time.Second)
				sr.sent, sr.got = sent, got
				if !sent {
					return
				}
				if got {
					sr.err = spec.check(resp)
				}
				if cr.Chance(20) {
					time.Sleep(time.Duration(cr.Intn(3)) * time.Millisecond)
				}
			}
		}(c, cr)
	}
	wg.Wait()
	s.closeStdin()
	exited := s.waitExit(15 * time.Second)
	tr := s.transcript()
	desc := map[string]interface{}{"scenario": "oneshot", "seed": seed, "clients": k, "requests_each": m, "cut_at_byte": s.cutAt, "transcript": trString(tr)}
	if !exited {
		e.st.Fail("service-did-not-exit-after-stdin-closed", desc, "still running after 15s", "process exits once every response is written")
	}
	if s.badFrame != "" {
		e.st.Fail("service-wrote-malformed-stream", desc, s.badFrame, "well-formed packets")
	}
	if ct := s.crashText(); ct != "" {
		e.st.Fail("service-process-crashed", desc, ct, "the service never panics")
	}
	s.mu.Lock()
	nsent := 0
	for _, rs := range results {
		for _, sr := range rs {
			if !sr.sent {
				continue
			}
			nsent++
			n := s.respN[sr.id]
			e.st.Note("svc-"+sr.kind, fmt.Sprint(seed, sr.id), true)
			if n != 1 {
				e.st.Fail("request-did-not-get-exactly-one-response", desc, fmt.Sprintf("request id %d (%s) got %d responses", sr.id, sr.kind, n), "exactly one response carrying its id")
			} else if sr.err != "" {
				e.st.Fail("response-does-not-belong-to-request", desc, fmt.Sprintf("id %d: %s", sr.id, sr.err), "the result of this request")
			}
		}
	}
	sentIDs := map[uint32]bool{}
	for _, ev := range tr {
		if ev.Kind == "creq" {
			sentIDs[ev.ID] = true
		}
	}
	for id, n := range s.respN {
		if !sentIDs[id] {
			e.st.Fail("response-with-unknown-id", desc, fmt.Sprintf("id %d x%d", id, n), "responses only for ids of requests")
		}
	}
	s.mu.Unlock()
	if cut {
		e.st.Note("svc-stdin-cut", fmt.Sprint(seed), true)
	}
	s.hwg.Wait()
	e.addTranscript(s.transcript(), exited)
	e.collect(s, 12)
	e.st.Sample(map[string]interface{}{"service_scenario": "oneshot", "clients": k, "sent": nsent, "cut_at": s.cutAt})
}

// coqSev prints a transcript as a Coq term of type list sev
func coqSev(tr []svcEvent, exited bool) string {
	var items []string
	for _, ev := range tr {
		switch ev.Kind {
		case "creq":
			items = append(items, fmt.Sprintf("ECReq %d", ev.ID))
		case "sresp":
			items = append(items, fmt.Sprintf("ESResp %d", ev.ID))
		case "sreq":
			items = append(items, fmt.Sprintf("ESReq %d", ev.ID))
		case "cresp":
			items = append(items, fmt.Sprintf("ECResp %d", ev.ID))
		case "close":
			items = append(items, "EClose")
		}
	}
	if exited {
		items = append(items, "EExit")
	}
	return "[" + strings.Join(items, "; ") + "]"
}

func (e *svcEnv) addTranscript(tr []svcEvent, exited bool) {
	if len(tr) <= 400 {
		e.mu.Lock()
		e.svcTr = append(e.svcTr, coqSev(tr, exited))
		e.mu.Unlock()
	}
}

func trString(tr []svcEvent) string {
	var sb strings.Builder
	for i, ev := range tr {
		if i > 0 {
			sb.WriteString(" ")
		}
		if i > 400 {
			sb.WriteString("...")
			break
		}
		switch ev.Kind {
		case "close":
			sb.WriteString("CLOSE")
		case "creq", "sreq":
			fmt.Fprintf(&sb, "%s#%d(%s", ev.Kind, ev.ID, ev.Cmd)
			if ev.Key >= 0 {
				fmt.Fprintf(&sb, ",key=%d", ev.Key)
			}
			sb.WriteString(")")
		default:
			fmt.Fprintf(&sb, "%s#%d", ev.Kind, ev.ID)
		}
	}
	return sb.String()
}

func mustTemp() string {
	d, err := os.MkdirTemp("", "verif-c20-")
	if err != nil {
		panic(err)
	}
	return d
}
