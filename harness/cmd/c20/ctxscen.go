package main

// Scenarios on real api.BuildContext objects: seeded random concurrent
// clients, and directed scenarios (join, cancel, dispose, sequential edits).

import (
	"fmt"
	"os"
	"path/filepath"
	"runtime"
	"sort"
	"strings"
	"sync"
	"sync/atomic"
	"time"

	"github.com/evanw/esbuild/pkg/api"
	. "github.com/evanw/esbuild/verifharness/hlib"
)

type ctxEnv struct {
	st       *Stats
	tmp      string
	histCase []string
	traceCase []string
	n        int
}

const callTimeout = 20 * time.Second

func (e *ctxEnv) finish(c *ctxRec, desc map[string]interface{}, kind string) {
	c.mu.Lock()
	h := append([]hev{}, c.hist...)
	pt := append([]pev{}, c.ptrace...)
	fails := append([]string{}, c.fails...)
	c.mu.Unlock()
	desc["history"] = histString(h)
	desc["modules"] = fmt.Sprint(c.edges)
	desc["on_start_callbacks"] = c.nStartCB
	desc["on_end_callbacks"] = c.nEndCB
	desc["inject"] = fmt.Sprint(c.options().Inject)
	desc["stdin"] = c.useStdin
	desc["css_entry"] = c.cssEntry
	for _, f := range fails {
		e.st.Fail("plugin-callback-order-violated", desc, f, "on-start callbacks finish before any resolve/load; each module identity loaded once per build")
	}
	if i, rule := checkHistory(h); i >= 0 {
		d2 := map[string]interface{}{}
		for k, v := range desc {
			d2[k] = v
		}
		d2["rejected_event_index"] = i
		d2["rejected_event"] = histString(h[i : i+1])
		e.st.Fail("history-violates-context-specification", d2, rule, "every recorded history of a context satisfies rules S1-S9 (CtxSpec.history_ok)")
	}
	for _, f := range checkPluginTrace(pt, c.nStartCB, c.nEndCB) {
		e.st.Fail("plugin-callback-order-violated", desc, f, "start callbacks before resolve/load, identities loaded once, end callbacks after write, in order, once")
	}
	if i, msg := watchHistoryOK(h); i >= 0 {
		d2 := map[string]interface{}{}
		for k, v := range desc {
			d2[k] = v
		}
		d2["rejected_event_index"] = i
		e.st.Fail("watcher-built-without-a-change", d2, msg, "the watcher starts a build only for a change it has not built yet (WatchServe.wtrace_ok)")
	}
	if len(h) <= 400 {
		e.histCase = append(e.histCase, coqHist(h))
	}
	if len(pt) <= 500 {
		e.traceCase = append(e.traceCase, coqTraces(pt, c.nStartCB, c.nEndCB)...)
	}
	nb := 0
	for _, ev := range h {
		if ev.Kind == "start" {
			nb++
		}
	}
	e.st.Note("ctx-"+kind, histString(h), nb > 0)
}

func mkDesc(kind string, seed uint64) map[string]interface{} {
	return map[string]interface{}{"scenario": kind, "seed": seed}
}

// random concurrent clients on one shared context
func scenRandomCtx(seed uint64, e *ctxEnv, idx int) {
	r := NewRng(seed)
	procs := []int{1, 2, 4, 8, 16}[r.Intn(5)]
	old := runtime.GOMAXPROCS(procs)
	defer runtime.GOMAXPROCS(old)
	c := newCtxRec(r, e.tmp, idx)
	useWatch := r.Chance(25)
	if useWatch {
		c.trigger = filepath.Join(filepath.Dir(c.outfile), "trigger.txt")
		os.WriteFile(c.trigger, []byte("x"), 0o644)
	}
	ctx, cerr := api.Context(c.options())
	desc := mkDesc("random-clients", seed)
	desc["gomaxprocs"] = procs
	if cerr != nil {
		e.st.Fail("context-creation-failed", desc, cerr.Error(), "context is created")
		return
	}
	k := r.Range(1, 5)
	desc["clients"] = k
	var wg sync.WaitGroup
	var fmu sync.Mutex
	hung := false
	for g := 0; g < k; g++ {
		wg.Add(1)
		gr := NewRng(r.U64())
		go func(gr *Rng) {
			defer wg.Done()
			m := gr.Range(2, 8)
			for j := 0; j < m; j++ {
				x := gr.Intn(100)
				op := ""
				switch {
				case x < 45:
					op = "rebuild"
				case x < 65:
					op = "cancel"
				case x < 85:
					op = "edit"
				case x < 92:
					if useWatch {
						op = "watch"
					} else {
						op = "rebuild"
					}
				case x < 97:
					op = "dispose"
				default:
					op = "cancel"
				}
				if op == "dispose" && j < m/2 {
					op = "rebuild"
				}
				if op == "edit" {
					c.edit()
				} else {
					out := c.doCall(ctx, op, callTimeout)
					fmu.Lock()
					if !out.returned {
						hung = true
						e.st.Fail("call-did-not-return", desc, fmt.Sprintf("%s did not return within %v; history so far: %s", op, callTimeout, func() string { c.mu.Lock(); defer c.mu.Unlock(); return histString(c.hist) }()), "every call terminates")
					}
					for _, msg := range out.errs {
						d2 := map[string]interface{}{"scenario": "random-clients", "seed": seed, "history": func() string { c.mu.Lock(); defer c.mu.Unlock(); return histString(c.hist) }()}
						e.st.Fail("rebuild-result-not-one-complete-build", d2, msg, "the complete, internally consistent result of exactly one build")
					}
					fmu.Unlock()
					if !out.returned {
						return
					}
				}
				switch gr.Intn(4) {
				case 0:
					time.Sleep(time.Duration(gr.Intn(1500)) * time.Microsecond)
				case 1:
					runtime.Gosched()
				}
			}
		}(gr)
	}
	wg.Wait()
	if hung {
		e.finish(c, desc, "random")
		return
	}
	// watch mode: an edit must be picked up by a watch build (when enabled and not disposed)
	c.mu.Lock()
	watchOn, disposedCalled := false, false
	for _, ev := range c.hist {
		if ev.Kind == "ret" && ev.Op == "watch" && ev.Rv.Kind == "unit" {
			watchOn = true
		}
		if ev.Kind == "call" && ev.Op == "dispose" {
			disposedCalled = true
		}
	}
	nStartsBefore := c.startBegins
	c.mu.Unlock()
	if watchOn && !disposedCalled && r.Chance(60) {
		time.Sleep(130 * time.Millisecond)
		c.edit()
		deadline := time.Now().Add(4 * time.Second)
		for time.Now().Before(deadline) {
			c.mu.Lock()
			ok := c.startBegins > nStartsBefore
			c.mu.Unlock()
			if ok {
				break
			}
			time.Sleep(10 * time.Millisecond)
		}
		e.st.Note("ctx-watch-edit", fmt.Sprint(seed), true)
	}
	// the last call is a Dispose; afterwards the context must stay silent
	out := c.doCall(ctx, "dispose", callTimeout)
	if !out.returned {
		e.st.Fail("call-did-not-return", desc, "final Dispose did not return", "every call terminates")
		e.finish(c, desc, "random")
		return
	}
	c.mu.Lock()
	n0 := len(c.hist)
	p0 := len(c.ptrace)
	c.mu.Unlock()
	if useWatch {
		time.Sleep(140 * time.Millisecond)
	} else {
		time.Sleep(2 * time.Millisecond)
	}
	out2 := c.doCall(ctx, "rebuild", callTimeout)
	c.mu.Lock()
	extraH := len(c.hist) - n0 - 2
	extraP := len(c.ptrace) - p0
	c.mu.Unlock()
	if extraH != 0 || extraP != 0 || !out2.returned || out2.rv.Kind != "empty" {
		e.st.Fail("disposed-context-did-further-work", desc, fmt.Sprintf("%d history events, %d callbacks after the final Dispose returned; Rebuild after Dispose returned %s", extraH, extraP, rvString(out2.rv)), "a disposed context does no further work")
	}
	e.finish(c, desc, "random")
	e.st.Sample(map[string]interface{}{"context_history": clip(histString(c.hist), 600), "clients": k, "gomaxprocs": procs})
}

func clip(s string, n int) string {
	if len(s) > n {
		return s[:n] + "..."
	}
	return s
}

// waitRet polls whether call id c has returned in the history
func (c *ctxRec) hasReturned(id int) bool {
	c.mu.Lock()
	defer c.mu.Unlock()
	for _, ev := range c.hist {
		if ev.Kind == "ret" && ev.C == id {
			return true
		}
	}
	return false
}

func (c *ctxRec) buildRunning() (bool, int) {
	c.mu.Lock()
	defer c.mu.Unlock()
	run := -1
	for _, ev := range c.hist {
		if ev.Kind == "start" {
			run = ev.B
		}
		if ev.Kind == "end" {
			run = -1
		}
	}
	return run >= 0, run
}

type asyncCall struct {
	id   int
	done chan callOutcome
}

func (c *ctxRec) async(ctx api.BuildContext, op string) *asyncCall {
	a := &asyncCall{done: make(chan callOutcome, 1)}
	c.mu.Lock()
	a.id = c.ncalls // the id doCall is going to take (calls are issued one at a time in directed scenarios)
	c.mu.Unlock()
	started := make(chan struct{})
	go func() {
		close(started)
		a.done <- c.doCall(ctx, op, callTimeout)
	}()
	<-started
	// wait until the call event is logged
	for i := 0; i < 2000; i++ {
		c.mu.Lock()
		ok := c.ncalls > a.id
		c.mu.Unlock()
		if ok {
			break
		}
		time.Sleep(100 * time.Microsecond)
	}
	return a
}

func (a *asyncCall) wait() callOutcome { return <-a.done }

// Directed scenarios.  The build is held inside an on-load callback (gate) so
// that "a build is running" is a fact, not a matter of timing.
// settleScale stretches the waiting times of the directed scenarios; the one
// timing-sensitive verdict (a cancelled build must report cancellation) is
// retried with longer waits before it is reported
func scenDirected(seed uint64, e *ctxEnv, idx int, which string) {
	for _, scale := range []int{1, 8, 40} {
		if !scenDirectedOnce(seed, e, idx, which, scale, scale == 40) {
			return
		}
	}
}

func scenDirectedOnce(seed uint64, e *ctxEnv, idx int, which string, scale int, last bool) (retry bool) {
	r := NewRng(seed)
	c := newCtxRec(r, e.tmp, idx)
	c.failLoadPct, c.failEndPct, c.failStartPct = 0, 0, 0
	desc := mkDesc(which, seed)
	gated := which != "sequential-edits"
	if which == "watch-during-build" {
		c.trigger = filepath.Join(filepath.Dir(c.outfile), "trigger.txt")
		os.WriteFile(c.trigger, []byte("x"), 0o644)
	}
	if gated {
		c.gate = make(chan struct{})
		c.gateMod = "m0"
	}
	ctx, cerr := api.Context(c.options())
	if cerr != nil {
		e.st.Fail("context-creation-failed", desc, cerr.Error(), "context is created")
		return false
	}
	released := false
	release := func() {
		if gated && !released {
			released = true
			close(c.gate)
			c.mu.Lock()
			c.gate = nil
			c.mu.Unlock()
		}
	}
	defer func() {
		release()
		done := make(chan struct{})
		go func() { ctx.Dispose(); close(done) }()
		select {
		case <-done:
		case <-time.After(callTimeout):
			e.st.Fail("call-did-not-return", desc, "Dispose at the end of the scenario did not return within "+callTimeout.String(), "every call terminates")
		}
	}()
	reportErrs := func(out callOutcome) {
		for _, msg := range out.errs {
			e.st.Fail("rebuild-result-not-one-complete-build", desc, msg, "the complete, internally consistent result of exactly one build")
		}
	}
	hold := func() *asyncCall { // start a build and wait until it sits in the gate
		a := c.async(ctx, "rebuild")
		select {
		case <-c.gateHit:
		case <-time.After(callTimeout):
			e.st.Fail("call-did-not-return", desc, "build never reached its on-load callback", "builds make progress")
		}
		return a
	}
	settle := func() { time.Sleep(time.Duration((15+r.Intn(25))*scale) * time.Millisecond) }

	switch which {
	case "sequential-edits":
		n := r.Range(2, 5)
		for i := 0; i < n; i++ {
			if r.Chance(70) {
				c.edit()
			}
			out := c.doCall(ctx, "rebuild", callTimeout)
			reportErrs(out)
			c.mu.Lock()
			v := c.version
			c.mu.Unlock()
			if !out.returned || out.rv.Kind != "build" || !out.rv.HasVer || out.rv.Ver != v {
				e.st.Fail("sequential-rebuild-misses-edits", desc, rvString(out.rv), fmt.Sprintf("a fresh build at version %d", v))
			}
		}
	case "join":
		a := hold()
		b := c.async(ctx, "rebuild")
		settle()
		if c.hasReturned(b.id) {
			e.st.Fail("rebuild-returned-before-build-ended", desc, "second Rebuild returned while the only build is still held in on-load", "joins the build in progress")
		}
		c.edit()
		release()
		oa, ob := a.wait(), b.wait()
		reportErrs(oa)
		reportErrs(ob)
		if oa.rv.Kind != "build" || ob.rv.Kind != "build" || oa.rv.B != ob.rv.B {
			e.st.Fail("late-caller-did-not-join-the-running-build", desc, rvString(oa.rv)+" / "+rvString(ob.rv), "both calls return the one build that was in progress")
		}
		// afterwards a new call starts a new build that sees the edit
		oc := c.doCall(ctx, "rebuild", callTimeout)
		reportErrs(oc)
		c.mu.Lock()
		v := c.version
		c.mu.Unlock()
		if oc.rv.Kind != "build" || oc.rv.B == oa.rv.B || !oc.rv.HasVer || oc.rv.Ver != v {
			e.st.Fail("sequential-rebuild-misses-edits", desc, rvString(oc.rv), fmt.Sprintf("a new build at version %d", v))
		}
	case "cancel":
		a := hold()
		k := c.async(ctx, "cancel")
		settle()
		if c.hasReturned(k.id) {
			e.st.Fail("cancel-returned-while-build-running", desc, "Cancel returned while the build is still held in on-load", "Cancel returns only after the running build has ended")
		}
		release()
		oa := a.wait()
		ok := k.wait()
		reportErrs(oa)
		if !ok.returned || !oa.returned {
			e.st.Fail("call-did-not-return", desc, "Cancel/Rebuild did not return", "every call terminates")
		} else if oa.rv.Kind != "build" || !oa.rv.Canc {
			if !last {
				release()
				return true // maybe the Cancel goroutine was not scheduled in time: retry with longer waits
			}
			e.st.Fail("cancelled-build-not-reported-as-cancelled", desc, rvString(oa.rv), "a cancellation error (Cancel was called and had not returned when the build was released)")
		}
		// the next rebuild is a fresh, uncancelled build
		oc := c.doCall(ctx, "rebuild", callTimeout)
		reportErrs(oc)
		if oc.rv.Kind != "build" || oc.rv.Canc || oc.rv.B == oa.rv.B {
			e.st.Fail("rebuild-after-cancel-not-fresh", desc, rvString(oc.rv), "a new complete build")
		}
	case "watch-during-build":
		// Watch() is called while a Rebuild is still in flight (held in on-load).
		// The first watch-mode build must run AFTER that build (it is the one that
		// records the watch data); afterwards an edit made while nothing builds
		// must be picked up by a watcher-started build that contains the edit.
		a := hold()
		ow := c.doCall(ctx, "watch", callTimeout)
		if !ow.returned || ow.rv.Kind != "unit" {
			e.st.Fail("watch-failed", desc, rvString(ow.rv), "Watch succeeds on a live context")
		}
		settle()
		release()
		oa := a.wait()
		reportErrs(oa)
		// let the first watch-mode build run
		deadline := time.Now().Add(3 * time.Second)
		for time.Now().Before(deadline) {
			c.mu.Lock()
			n := len(c.ended)
			c.mu.Unlock()
			running, _ := c.buildRunning()
			if n >= 2 && !running {
				break
			}
			time.Sleep(5 * time.Millisecond)
		}
		c.edit()
		c.mu.Lock()
		want := c.version
		c.mu.Unlock()
		seen := false
		deadline = time.Now().Add(10 * time.Second)
		for time.Now().Before(deadline) && !seen {
			c.mu.Lock()
			for _, ev := range c.hist {
				if ev.Kind == "load" && ev.Ver >= want {
					seen = true
				}
			}
			c.mu.Unlock()
			if !seen {
				time.Sleep(10 * time.Millisecond)
			}
		}
		if !seen {
			desc["scenario"] = "watch-during-build"
			c.mu.Lock()
			desc["history_so_far"] = histString(c.hist)
			c.mu.Unlock()
			e.st.Fail("watch-mode-missed-an-edit", desc, fmt.Sprintf("Watch() returned nil while a Rebuild was in flight; after that build ended the inputs were edited (version %d) while nothing was building, and no build read the new version within 10s", want), "a watcher-started build that contains the edit (watch_change_is_noticed)")
		}
	case "overlapping-cancels":
		// two or more Cancel calls overlap on one held build: none of them may
		// return before the build has ended; a Rebuild made after a Cancel
		// returned gets a fresh build with the edit
		a := hold()
		nc := r.Range(2, 4)
		var ks []*asyncCall
		for i := 0; i < nc; i++ {
			ks = append(ks, c.async(ctx, "cancel"))
			settle()
		}
		early := false
		for i, k := range ks {
			if c.hasReturned(k.id) {
				running, b := c.buildRunning()
				desc["scenario"] = "overlapping-cancels"
				e.st.Fail("cancel-returned-while-build-running", desc, fmt.Sprintf("Cancel call number %d of %d overlapping ones returned while build %d is still held in on-load (running=%v)", i+1, nc, b, running), "Cancel returns only after every build started before the call has ended")
				early = true
				break
			}
		}
		c.edit()
		var rb *asyncCall
		if early {
			rb = c.async(ctx, "rebuild") // issued after a Cancel returned: must not be handed the cancelled build
			settle()
		}
		release()
		oa := a.wait()
		reportErrs(oa)
		for _, k := range ks {
			k.wait()
		}
		if rb != nil {
			ob := rb.wait()
			if ob.rv.Kind == "build" && ob.rv.B == oa.rv.B {
				e.st.Fail("rebuild-returned-a-build-that-ended-before-the-call", desc, "Rebuild issued after Cancel returned was handed the cancelled build "+rvString(ob.rv), "a fresh build that contains the edit")
			}
		}
		oc := c.doCall(ctx, "rebuild", callTimeout)
		reportErrs(oc)
		c.mu.Lock()
		v := c.version
		c.mu.Unlock()
		if oc.rv.Kind != "build" || oc.rv.Canc || oc.rv.B == oa.rv.B || !oc.rv.HasVer || oc.rv.Ver != v {
			e.st.Fail("rebuild-after-cancel-not-fresh", desc, rvString(oc.rv), fmt.Sprintf("a new complete build at version %d", v))
		}
	case "dispose":
		a := hold()
		d := c.async(ctx, "dispose")
		settle()
		if c.hasReturned(d.id) {
			e.st.Fail("dispose-returned-while-build-running", desc, "Dispose returned while the build is still held in on-load", "Dispose returns only after the running build has ended")
		}
		release()
		a.wait()
		d.wait()
		o2 := c.doCall(ctx, "rebuild", callTimeout)
		o3 := c.doCall(ctx, "watch", callTimeout)
		if o2.rv.Kind != "empty" || o3.rv.Kind != "err" {
			e.st.Fail("disposed-context-did-further-work", desc, rvString(o2.rv)+" / "+rvString(o3.rv), "Rebuild yields nothing and Watch fails after Dispose")
		}
	case "cancel-during-dispose":
		// replay of a former finding (fixed in /repo by "fix: Cancel and a second
		// Dispose must wait for the running build"): Cancel used to return at
		// once when a Dispose was in progress
		a := hold()
		d := c.async(ctx, "dispose")
		settle()
		k := c.async(ctx, "cancel")
		settle()
		running, b := c.buildRunning()
		if running && c.hasReturned(k.id) {
			desc["scenario"] = "cancel-after-dispose-started"
			e.st.Fail("cancel-returned-while-build-running", desc, fmt.Sprintf("Cancel returned while build %d is still running (a Dispose call is waiting for it)", b), "Cancel returns only after the running build has ended")
		}
		release()
		a.wait()
		d.wait()
		k.wait()
	case "second-dispose":
		a := hold()
		d := c.async(ctx, "dispose")
		settle()
		d2 := c.async(ctx, "dispose")
		settle()
		running, b := c.buildRunning()
		if running && c.hasReturned(d2.id) {
			desc["scenario"] = "second-dispose-while-first-waits"
			e.st.Fail("dispose-returned-while-build-running", desc, fmt.Sprintf("the second Dispose returned while build %d is still running (the first Dispose is waiting for it)", b), "Dispose returns only after the running build has ended")
		}
		release()
		a.wait()
		d.wait()
		d2.wait()
	}
	release()
	e.finish(c, desc, which)
	return false
}

// Burst of joiners that re-issue Rebuild the moment their first call returns.
// The owner's build is held inside an on-load callback, `joiners` goroutines
// join it, the inputs are edited, the build is released; every joiner calls
// Rebuild() again immediately.  The second result must come from a strictly
// later build and contain the edit.  The joiners log nothing between their two
// calls: they take stamps from the context's atomic clock and their events are
// merged into the history afterwards (sorted by stamp), so that the window
// between "waiters released" and "activeBuild cleared" is actually hit.
func scenBurstRejoin(seed uint64, e *ctxEnv, idx int, joiners int, export bool) bool {
	t0 := time.Now()
	defer func() {
		if os.Getenv("C20_TIMING") != "" {
			fmt.Fprintf(os.Stderr, "burst %d joiners: %v\n", joiners, time.Since(t0))
		}
	}()
	r := NewRng(seed)
	old := runtime.GOMAXPROCS([]int{4, 8, 16, 32}[r.Intn(4)])
	defer runtime.GOMAXPROCS(old)
	c := newCtxRec(r, e.tmp, idx)
	c.failLoadPct, c.failEndPct, c.failStartPct, c.reenterPct = 0, 0, 0, 0
	c.nInj, c.fsInj, c.useStdin, c.cssEntry, c.fsMarks, c.startMinUS = 0, false, false, false, nil, 0
	c.write = false
	c.gate = make(chan struct{})
	c.gateMod = "m0"
	desc := mkDesc("burst-rejoin", seed)
	desc["joiners"] = joiners
	ctx, cerr := api.Context(c.options())
	if cerr != nil {
		e.st.Fail("context-creation-failed", desc, cerr.Error(), "context is created")
		return false
	}
	owner := c.async(ctx, "rebuild")
	select {
	case <-c.gateHit:
	case <-time.After(callTimeout):
		e.st.Fail("call-did-not-return", desc, "build never reached its on-load callback", "builds make progress")
		return false
	}
	type jr struct {
		s1, s2, s3, s4 int64
		r1, r2         api.BuildResult
	}
	res := make([]jr, joiners)
	var started, done sync.WaitGroup
	started.Add(joiners)
	done.Add(joiners)
	for j := 0; j < joiners; j++ {
		go func(j int) {
			defer done.Done()
			x := &res[j]
			x.s1 = atomic.AddInt64(&c.clock, 1)
			started.Done()
			x.r1 = ctx.Rebuild()
			x.s2 = atomic.AddInt64(&c.clock, 1)
			x.s3 = atomic.AddInt64(&c.clock, 1)
			x.r2 = ctx.Rebuild()
			x.s4 = atomic.AddInt64(&c.clock, 1)
		}(j)
	}
	started.Wait()
	time.Sleep(time.Duration(2+r.Intn(6)) * time.Millisecond) // let the joiners reach the wait
	c.edit()
	// release the held build; later builds run freely
	c.mu.Lock()
	g := c.gate
	c.gate = nil
	c.mu.Unlock()
	close(g)
	fin := make(chan struct{})
	go func() { done.Wait(); close(fin) }()
	select {
	case <-fin:
	case <-time.After(callTimeout):
		e.st.Fail("call-did-not-return", desc, "burst joiners did not return", "every call terminates")
		return false
	}
	owner.wait()
	c.mu.Lock()
	ver := c.version
	c.mu.Unlock()
	// merge the joiners' events into the history
	bad := false
	violJ, violMsg := -1, ""
	var extra []hev
	for j := range res {
		x := &res[j]
		rv1, e1 := c.decodeResult(x.r1)
		rv2, e2 := c.decodeResult(x.r2)
		for _, msg := range append(e1, e2...) {
			e.st.Fail("rebuild-result-not-one-complete-build", desc, msg, "the complete, internally consistent result of exactly one build")
			bad = true
		}
		id1, id2 := 1000000+2*j, 1000001+2*j
		extra = append(extra,
			hev{Kind: "call", C: id1, Op: "rebuild", Stamp: x.s1}, hev{Kind: "ret", C: id1, Op: "rebuild", Rv: rv1, Stamp: x.s2},
			hev{Kind: "call", C: id2, Op: "rebuild", Stamp: x.s3}, hev{Kind: "ret", C: id2, Op: "rebuild", Rv: rv2, Stamp: x.s4})
		if violJ < 0 && rv1.Kind == "build" && (rv2.Kind != "build" || rv2.B <= rv1.B || !rv2.HasVer || rv2.Ver != ver) {
			violJ = j
			violMsg = fmt.Sprintf("first call returned %s; the second call, made after the first returned, returned %s (inputs are at version %d)", rvString(rv1), rvString(rv2), ver)
		}
	}
	c.mu.Lock()
	all := append(append([]hev{}, c.hist...), extra...)
	sort.SliceStable(all, func(a, b int) bool { return all[a].Stamp < all[b].Stamp })
	// call ids = ordinal of the call events
	remap := map[int]int{}
	n := 0
	for i := range all {
		if all[i].Kind == "call" {
			remap[all[i].C] = n
			all[i].C = n
			n++
		} else if all[i].Kind == "ret" {
			all[i].C = remap[all[i].C]
		}
	}
	c.hist = all
	c.ncalls = n
	c.mu.Unlock()
	if violJ >= 0 {
		// the failing history: the build events and the two calls of that joiner
		var ex []hev
		for _, ev := range all {
			if (ev.Kind != "call" && ev.Kind != "ret") || ev.C == remap[1000000+2*violJ] || ev.C == remap[1000001+2*violJ] {
				ex = append(ex, ev)
			}
		}
		d2 := map[string]interface{}{"scenario": "burst-rejoin", "seed": seed, "joiners": joiners, "joiner": violJ,
			"history_excerpt": histString(ex), "events_in_full_history": len(all)}
		e.st.Fail("rebuild-returned-a-build-that-ended-before-the-call", d2, violMsg,
			"a strictly later build that contains the edit made before the release (rule S2: the returned build had not been returned to anybody when the call was made)")
		bad = true
		if len(all) <= 1300 {
			e.histCase = append(e.histCase, coqHist(all)) // the Coq checker must reject it too
		}
	}
	out := c.doCall(ctx, "dispose", callTimeout)
	if !out.returned {
		e.st.Fail("call-did-not-return", desc, "final Dispose did not return", "every call terminates")
	}
	if !export {
		// too long for the Coq run: Go monitor only
		c.mu.Lock()
		h := append([]hev{}, c.hist...)
		c.mu.Unlock()
		if i, rule := checkHistory(h); i >= 0 {
			lo := i - 12
			if lo < 0 {
				lo = 0
			}
			desc["rejected_event"] = histString(h[i : i+1])
			desc["history_around_rejected_event"] = histString(h[lo : i+1])
			e.st.Fail("history-violates-context-specification", desc, rule, "every recorded history of a context satisfies rules S1-S9 (CtxSpec.history_ok)")
			bad = true
		}
		e.st.Note("ctx-burst-rejoin", fmt.Sprint(seed), true)
		return bad
	}
	nf := len(e.st.Failures)
	e.finish(c, desc, "burst-rejoin")
	return bad || len(e.st.Failures) > nf
}

// one-shot api.Build with the same plugins: only the callback trace and the
// result are checked (there is no context history)
func scenOneShotBuild(seed uint64, e *ctxEnv, idx int) {
	r := NewRng(seed)
	forceEntryOptions = r.Chance(70)
	c := newCtxRec(r, e.tmp, idx)
	forceEntryOptions = false
	c.failLoadPct, c.failEndPct, c.failStartPct = 0, 0, 0
	desc := mkDesc("one-shot-build", seed)
	desc["inject"] = fmt.Sprint(c.options().Inject)
	desc["stdin"] = c.useStdin
	desc["css_entry"] = c.cssEntry
	res := api.Build(c.options())
	_, errs := c.decodeResult(res)
	for _, msg := range errs {
		e.st.Fail("rebuild-result-not-one-complete-build", desc, msg, "the complete, internally consistent result of exactly one build")
	}
	if len(res.Errors) != 0 {
		e.st.Fail("rebuild-result-not-one-complete-build", desc, fmt.Sprint(res.Errors), "a successful build")
	}
	c.mu.Lock()
	pt := append([]pev{}, c.ptrace...)
	fails := append([]string{}, c.fails...)
	c.mu.Unlock()
	for _, f := range fails {
		e.st.Fail("plugin-callback-order-violated", desc, f, "on-start callbacks finish before any resolve/load; each module identity loaded once per build")
	}
	for _, f := range checkPluginTrace(pt, c.nStartCB, c.nEndCB) {
		e.st.Fail("plugin-callback-order-violated", desc, f, "start callbacks before resolve/load, identities loaded once, end callbacks after write, in order, once")
	}
	if len(pt) <= 500 {
		e.traceCase = append(e.traceCase, coqTraces(pt, c.nStartCB, c.nEndCB)...)
	}
	e.st.Note("build-oneshot", fmt.Sprint(seed), true)
}

func runContexts(r *Rng, e *ctxEnv, n int, tier string) {
	// option-driven entry points into resolve/load (inject, alias, glob, stdin, CSS): one-shot builds,
	// sequential rebuilds and concurrent rebuilds joining one build
	for i := 0; i < 4+n/20; i++ {
		scenOneShotBuild(r.U64(), e, 3000+i)
	}
	forceEntryOptions = true
	scenDirected(r.U64(), e, 1100, "sequential-edits")
	scenDirected(r.U64(), e, 1101, "join")
	forceEntryOptions = false
	// bursts of joiners re-issuing Rebuild (stop at the first violating burst)
	for i := 0; i < 3; i++ {
		if scenBurstRejoin(r.U64(), e, 4000+i, 48, true) {
			break
		}
	}
	for i := 0; i < 36+n/5; i++ {
		if scenBurstRejoin(r.U64(), e, 4100+i, []int{64, 128, 256}[r.Intn(3)], false) {
			break
		}
	}
	// fixed corpus first: directed scenarios (including the replays of known findings)
	for i, w := range []string{"sequential-edits", "join", "cancel", "overlapping-cancels", "overlapping-cancels", "watch-during-build", "dispose", "cancel-during-dispose", "second-dispose"} {
		scenDirected(r.U64(), e, 1000+i, w)
	}
	extra := n / 20
	for i := 0; i < extra; i++ {
		w := []string{"sequential-edits", "join", "cancel", "dispose", "overlapping-cancels", "watch-during-build"}[r.Intn(6)]
		scenDirected(r.U64(), e, 2000+i, w)
	}
	for i := 0; i < n; i++ {
		scenRandomCtx(r.U64(), e, i)
	}
	_ = strings.Join
}
