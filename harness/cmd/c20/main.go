package main

// C20: build contexts, plugins and the service protocol under concurrency.
//  - histories of concurrent Rebuild/Cancel/Dispose/Watch calls on shared
//    api.Context objects (plugins with seeded delays, failures, re-entrant
//    Resolve), checked in Go and by the Coq checker history_ok (CtxLTS);
//  - per-build plugin callback traces, checked in Go and by build_trace_ok;
//  - the real `esbuild --service` child process driven over stdio: every
//    packet in both directions is a correspondence case for Protocol.v;
//    request/response pairing, stdin closed at seeded points.

import (
	"bytes"
	"fmt"
	"os"
	"os/exec"
	"path/filepath"
	"strings"
	"sync"

	. "github.com/evanw/esbuild/verifharness/hlib"
)

func main() { Main("c20", runC20) }

func repoDir() string {
	if d := os.Getenv("VERIF_REPO"); d != "" {
		return d
	}
	return "/repo"
}

// In the race child (thorough tier) this process itself is built with -race,
// and so is the esbuild binary it drives; the stderr of the service children
// is collected here and scanned for race reports by the parent.
var raceChild = os.Getenv("C20_RACE_CHILD") == "1"
var svcStderr = &lockedBuf{}

type lockedBuf struct {
	mu sync.Mutex
	b  bytes.Buffer
}

func (l *lockedBuf) Write(p []byte) (int, error) {
	l.mu.Lock()
	defer l.mu.Unlock()
	if l.b.Len() < 1<<20 {
		l.b.Write(p)
	}
	return len(p), nil
}

// thorough tier: rebuild this harness and the esbuild binary with the race
// detector and run the history and service scenarios again under it
func runUnderRaceDetector(seed uint64, n int, tmp string, st *Stats) {
	verif := os.Getenv("VERIF_DIR")
	if verif == "" {
		verif = "/verif"
	}
	hdir := filepath.Join(verif, "harness")
	gomod, err := os.ReadFile(filepath.Join(hdir, "go.mod"))
	if err != nil {
		st.Extra["race"] = "skipped: " + err.Error()
		return
	}
	modfile := filepath.Join(tmp, "race.mod")
	os.WriteFile(modfile, []byte(strings.Replace(string(gomod), "=> /repo", "=> "+repoDir(), 1)), 0o644)
	if sum, err := os.ReadFile(filepath.Join(repoDir(), "go.sum")); err == nil {
		os.WriteFile(filepath.Join(tmp, "race.sum"), sum, 0o644)
	}
	exe := filepath.Join(tmp, "c20-race")
	cmd := exec.Command("go", "build", "-race", "-modfile="+modfile, "-tags", "verif", "-o", exe, "./cmd/c20")
	cmd.Dir = hdir
	cmd.Env = append(os.Environ(), "GOFLAGS=-mod=mod", "GOPROXY=off", "GOSUMDB=off", "GOTOOLCHAIN=local", "CGO_ENABLED=1")
	if out, err := cmd.CombinedOutput(); err != nil {
		// the race detector needs cgo; say so instead of failing the check
		st.Extra["race"] = "race build unavailable: " + clip(string(out), 400)
		st.Note("race-detector-unavailable", "", false)
		return
	}
	outDir := filepath.Join(tmp, "race-out")
	os.MkdirAll(outDir, 0o755)
	run := exec.Command(exe, "-seed", fmt.Sprint(seed+7), "-n", fmt.Sprint(n), "-tier", "quick", "-out", outDir)
	run.Env = append(os.Environ(), "C20_RACE_CHILD=1", "GORACE=halt_on_error=0")
	var buf bytes.Buffer
	run.Stdout = &buf
	run.Stderr = &buf
	err = run.Run()
	text := buf.String()
	if i := strings.Index(text, "WARNING: DATA RACE"); i >= 0 {
		st.Fail("data-race-detected", map[string]interface{}{"scenario": "race-detector", "seed": seed + 7, "n": n},
			clip(text[i:], 3000), "no data race under any interleaving")
	} else if err != nil {
		st.Fail("race-run-crashed", map[string]interface{}{"scenario": "race-detector", "seed": seed + 7}, clip(text, 2000), "exit 0")
	}
	st.Note("race-detector-run", fmt.Sprint(seed), true)
	st.Extra["race"] = fmt.Sprintf("history and service scenarios re-run with -race (harness and esbuild binary), n=%d: %d bytes of output, no race report", n, len(text))
}

func runC20(seed uint64, n int, tier string, outDir string) []*Stats {
	r := NewRng(seed)
	st := NewStats("c20", seed)
	cf := NewCoqFile("From V Require Import Common.Base C20.Protocol C20.ServiceSpec C20.Harness.")
	tmp := mustTemp()
	defer os.RemoveAll(tmp)

	// ---- the service process
	exe, err := buildEsbuild(repoDir(), tmp, raceChild)
	if err != nil {
		st.Fail("esbuild-binary-does-not-build", repoDir(), err.Error(), "go build ./cmd/esbuild succeeds")
	} else {
		env := &svcEnv{exe: exe, version: esbuildVersion(repoDir()), tmp: tmp, st: st, used: map[uint32]bool{}}
		nsvc := n / 12
		if nsvc < 6 {
			nsvc = 6
		}
		for i := 0; i < nsvc; i++ {
			scenOneShot(r.U64(), env, i)
		}
		// contexts behind the service: directed corpus first, then random clients
		scenSvcContext(r.U64(), env, 0, "second-dispose")
		scenSvcContext(r.U64(), env, 1, "cancel-after-dispose")
		scenSvcContext(r.U64(), env, 2, "rebuild-cancel-dispose-batch")
		for i := 0; i < nsvc; i++ {
			scenSvcContext(r.U64(), env, 3+i, "")
		}
		cf.AddCases("pkt_out_cases", "bytes * Z * bool * value", "check_pkt", env.pktOut)
		cf.AddCases("pkt_in_cases", "bytes * Z * bool * value", "check_pkt", env.pktIn)
		cf.AddCases("svc_cases", "list sev", "check_svc", env.svcTr)
	}

	// ---- contexts and plugins on the real pkg/api
	cenv := &ctxEnv{st: st, tmp: tmp}
	runContexts(r, cenv, n, tier)
	hf := NewCoqFile("From V Require Import Common.Base C20.CtxLTS C20.CtxSpec C20.PluginSpec C20.WatchServe C20.Harness.")
	hf.AddCases("hist_cases", "list label", "check_hist", cenv.histCase)
	hf.AddCases("watch_cases", "list label", "(fun _ : list (list label) => check_watch hist_cases)", nil)
	hf.AddCases("trace_cases", "nat * nat * list pevent", "check_trace", cenv.traceCase)
	if err := os.WriteFile(filepath.Join(outDir, "c20_hist_cases.v"), []byte(hf.String()), 0o644); err != nil {
		panic(err)
	}

	if raceChild {
		// race reports of the service children go to our stderr, where the parent looks for them
		svcStderr.mu.Lock()
		os.Stderr.Write(svcStderr.b.Bytes())
		svcStderr.mu.Unlock()
	}
	if tier == "thorough" && !raceChild {
		runUnderRaceDetector(seed, n/4+10, tmp, st)
	}

	st.Finish("seeded generator (splitmix64 from VERIF_SEED): contexts with random module graphs (diamonds, cycles, alias specifiers, suffix identities), 1-3 on-start and on-end callbacks, seeded delays/failures/re-entrant Resolve, write on/off, watch on/off, 1-5 client goroutines issuing Rebuild/Cancel/Edit/Watch/Dispose with random GOMAXPROCS; a fixed directed corpus (sequential edits, join, cancel, dispose, cancel-during-dispose, second-dispose; over the service: second-dispose, cancel-after-dispose, rebuild+cancel+dispose in one write); the real esbuild --service child driven by 1-4 concurrent clients with random request mixes, random ids below 2^31, junk fields of random value trees, stdin cut at a seeded byte offset. distinct_nontrivial = distinct (kind, history/transcript/packet) pairs in which at least one build ran or one packet crossed the pipe")
	if err := os.WriteFile(filepath.Join(outDir, "c20_cases.v"), []byte(cf.String()), 0o644); err != nil {
		panic(err)
	}
	return []*Stats{st}
}
