package main

// C20: build contexts, plugins and the service protocol under concurrency.
//  - histories of concurrent Rebuild/Cancel/Dispose/Watch calls on shared
//    api.Context objects (plugins with seeded delays, failures, re-entrant
//    Resolve), checked in Go and by the Coq checker history_ok (CtxLTS);
//  - per-build plugin callback traces, checked in Go and by build_trace_ok;
//  - the real `esbuild --service` child process driven over stdio: every
//    packet in both directions is a correspondence case for Protocol.v;
//    request/response pairing, stdin closed at seeded points.

import (
	"os"
	"path/filepath"

	. "github.com/evanw/esbuild/verifharness/hlib"
)

func main() { Main("c20", runC20) }

func repoDir() string {
	if d := os.Getenv("VERIF_REPO"); d != "" {
		return d
	}
	return "/repo"
}

func runC20(seed uint64, n int, tier string, outDir string) []*Stats {
	r := NewRng(seed)
	st := NewStats("c20", seed)
	cf := NewCoqFile("From V Require Import Common.Base C20.Protocol C20.Harness.")
	tmp := mustTemp()
	defer os.RemoveAll(tmp)

	// ---- the service process
	exe, err := buildEsbuild(repoDir(), tmp, false)
	if err != nil {
		st.Fail("esbuild-binary-does-not-build", repoDir(), err.Error(), "go build ./cmd/esbuild succeeds")
	} else {
		env := &svcEnv{exe: exe, version: esbuildVersion(repoDir()), tmp: tmp, st: st, used: map[uint32]bool{}}
		nsvc := n / 12
		if nsvc < 6 {
			nsvc = 6
		}
		for i := 0; i < nsvc; i++ {
			scenOneShot(r.U64(), env, i)
		}
		// contexts behind the service: directed corpus first, then random clients
		scenSvcContext(r.U64(), env, 0, "second-dispose")
		scenSvcContext(r.U64(), env, 1, "cancel-after-dispose")
		for i := 0; i < nsvc; i++ {
			scenSvcContext(r.U64(), env, 2+i, "")
		}
		cf.AddCases("pkt_out_cases", "bytes * Z * bool * value", "check_pkt", env.pktOut)
		cf.AddCases("pkt_in_cases", "bytes * Z * bool * value", "check_pkt", env.pktIn)
	}

	// ---- contexts and plugins on the real pkg/api
	cenv := &ctxEnv{st: st, tmp: tmp}
	runContexts(r, cenv, n, tier)
	hf := NewCoqFile("From V Require Import Common.Base C20.CtxLTS C20.CtxSpec C20.PluginSpec C20.Harness.")
	hf.AddCases("hist_cases", "list label", "check_hist", cenv.histCase)
	hf.AddCases("trace_cases", "nat * nat * list pevent", "check_trace", cenv.traceCase)
	if err := os.WriteFile(filepath.Join(outDir, "c20_hist_cases.v"), []byte(hf.String()), 0o644); err != nil {
		panic(err)
	}

	st.Finish("seeded scenarios (splitmix64 from VERIF_SEED); distinct_nontrivial = distinct (kind, input) pairs")
	if err := os.WriteFile(filepath.Join(outDir, "c20_cases.v"), []byte(cf.String()), 0o644); err != nil {
		panic(err)
	}
	return []*Stats{st}
}
