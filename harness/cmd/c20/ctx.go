package main

// Recorded histories of concurrent calls on one real api.BuildContext.
// Every event is appended to one log under one mutex, so the log order is a
// total order consistent with real time: a call event is logged before the
// API function is entered, a return event after it returned, callback events
// inside the callbacks.

import (
	"fmt"
	"os"
	"path/filepath"
	"regexp"
	"runtime"
	"sort"
	"strconv"
	"strings"
	"sync"
	"sync/atomic"
	"time"

	"github.com/evanw/esbuild/pkg/api"
	. "github.com/evanw/esbuild/verifharness/hlib"
)

type rvT struct {
	Kind   string // empty | build | unit | err
	B      int
	Canc   bool
	HasVer bool
	Ver    int
}

type hev struct {
	Kind string // call | ret | start | load | end | edit
	C    int
	Op   string // rebuild | cancel | dispose | watch
	Rv   rvT
	B    int
	Ver  int
	Canc bool
	// Stamp orders all events of one context: taken from one atomic counter at
	// the moment the event happens (call: before entering the API; return:
	// after it returned; callbacks: inside the callback), so sorting by it is a
	// linearisation consistent with real time even for events that are logged
	// without the recorder mutex (burst clients)
	Stamp int64
}

// plugin callback trace event (per context, attributed to a build)
type pev struct {
	B       int
	Kind    string // sb se (on-start begin/end) res (on-resolve) load eb ee (on-end begin/end)
	I       int    // callback index (sb se eb ee)
	Mod     string // module identity (load) / specifier (res)
	Nested  bool   // resolve issued through build.Resolve from inside a callback
	Fail    bool   // this callback reports an error
	Written int    // eb: 1 the output file of THIS build is on disk, 0 it is not, -1 not applicable
	Imp     string // res: identity of the importing file (from the plugin data its on-load returned); "" = unkeyed
	Key     string // res: kind|specifier|attributes of the import
}

type ctxRec struct {
	mu          sync.Mutex
	clock       int64 // atomic: event stamps
	hist        []hev
	ptrace      []pev
	ncalls      int
	version     int
	nStartCB    int
	nEndCB      int
	startBegins int
	startEnds   int
	firstLoad   map[int]int       // build -> version at its first load
	loadVer     map[string]int    // "b/mod" -> version given to that module
	ended       map[int]bool      // build -> cancelled
	endBegins   map[int]int       // build -> number of on-end callbacks begun
	rng         *Rng              // delays and failures (guarded by mu)
	gate        chan struct{}     // when non-nil, on-load of gateMod blocks until closed
	gateMod     string
	gateHit     chan struct{}     // closed when a callback reached the gate
	gateOnce    sync.Once
	fails       []string          // violations detected inside callbacks
	nmods       int
	edges       [][]string        // module i imports these specifiers
	write       bool
	outfile     string
	trigger     string            // real file watched by watch mode
	failLoadPct int
	failEndPct  int
	failStartPct int
	reenterPct  int
	resolve     func(string, api.ResolveOptions) api.ResolveResult
	tmp         string
	// option-driven ways into resolve/load that bypass the ordinary import scan
	nInj       int      // Inject paths resolved by the plugin: v:m100, w:m101
	fsInj      bool     // an Inject path resolved by the file system (with an alias import, a glob import and a plain import)
	useStdin   bool     // the entry point comes from Stdin and imports v:m0
	cssEntry   bool     // a second entry point: a CSS file with an @import
	dir        string   // directory of the real files
	startMinUS int      // on-start callbacks last at least this long
	fsMarks    []string // markers of the real files that a successful build must contain exactly once
}

// app appends an event with the next stamp (call with mu held)
func (c *ctxRec) app(ev hev) []hev {
	ev.Stamp = atomic.AddInt64(&c.clock, 1)
	return append(c.hist, ev)
}

func (c *ctxRec) curBuild() int { // call with mu held
	if c.startBegins == 0 {
		return -1
	}
	return (c.startBegins - 1) / c.nStartCB
}

func (c *ctxRec) delay() {
	c.mu.Lock()
	k := c.rng.Intn(100)
	us := 0
	switch {
	case k < 50:
	case k < 85:
		us = c.rng.Intn(300)
	case k < 97:
		us = 300 + c.rng.Intn(1500)
	default:
		us = 2000 + c.rng.Intn(3000)
	}
	c.mu.Unlock()
	if us == 0 {
		if k%2 == 0 {
			runtime.Gosched()
		}
		return
	}
	time.Sleep(time.Duration(us) * time.Microsecond)
}

func (c *ctxRec) chance(p int) bool {
	c.mu.Lock()
	defer c.mu.Unlock()
	return c.rng.Intn(100) < p
}

func (c *ctxRec) failf(format string, a ...interface{}) { // mu held
	if len(c.fails) < 10 {
		c.fails = append(c.fails, fmt.Sprintf(format, a...))
	}
}

var tagRe = regexp.MustCompile(`@B(\d+)M(\d+)V(\d+)@`)

func modIdentity(path, ns, suffix string, with map[string]string) string {
	keys := make([]string, 0, len(with))
	for k := range with {
		keys = append(keys, k)
	}
	sort.Strings(keys)
	s := ns + ":" + path + suffix
	for _, k := range keys {
		s += "|" + k + "=" + with[k]
	}
	return s
}

func (c *ctxRec) plugins() []api.Plugin {
	mkStart := func(i int) func() (api.OnStartResult, error) {
		return func() (api.OnStartResult, error) {
			c.mu.Lock()
			c.startBegins++
			b := c.curBuild()
			if (c.startBegins-1)%c.nStartCB == 0 {
				// first on-start callback of a new build
				if c.startEnds != c.startBegins-1 {
					c.failf("build %d starts while on-start callbacks of the previous build are still running", b)
				}
				c.hist = c.app(hev{Kind: "start", B: b})
			}
			c.ptrace = append(c.ptrace, pev{B: b, Kind: "sb", I: i})
			fail := c.rng.Intn(100) < c.failStartPct
			minUS := c.startMinUS
			c.mu.Unlock()
			if minUS > 0 {
				time.Sleep(time.Duration(minUS) * time.Microsecond)
			}
			c.delay()
			c.mu.Lock()
			c.startEnds++
			c.ptrace = append(c.ptrace, pev{B: b, Kind: "se", I: i, Fail: fail})
			c.mu.Unlock()
			if fail {
				return api.OnStartResult{}, fmt.Errorf("injected on-start failure")
			}
			return api.OnStartResult{}, nil
		}
	}
	mkEnd := func(i int) func(*api.BuildResult) (api.OnEndResult, error) {
		return func(res *api.BuildResult) (api.OnEndResult, error) {
			canc := false
			nerr := len(res.Errors)
			for _, m := range res.Errors {
				if m.Text == "The build was canceled" {
					canc = true
				}
			}
			written := -1
			c.mu.Lock()
			b := c.curBuild()
			c.mu.Unlock()
			if c.write && nerr == 0 {
				// outputs must be on disk before on-end callbacks run
				written = 0
				if data, err := os.ReadFile(c.outfile); err == nil && strings.Contains(string(data), fmt.Sprintf("@B%dM0V", b)) {
					written = 1
				}
			}
			c.mu.Lock()
			if c.endBegins[b] == 0 {
				c.hist = c.app(hev{Kind: "end", B: b, Canc: canc})
				c.ended[b] = canc
			}
			c.endBegins[b]++
			c.ptrace = append(c.ptrace, pev{B: b, Kind: "eb", I: i, Written: written})
			fail := c.rng.Intn(100) < c.failEndPct
			c.mu.Unlock()
			c.delay()
			c.mu.Lock()
			c.ptrace = append(c.ptrace, pev{B: b, Kind: "ee", I: i, Fail: fail})
			c.mu.Unlock()
			r := api.OnEndResult{Warnings: []api.Message{{Text: fmt.Sprintf("end:%d:%d", b, i)}}}
			if fail {
				r.Errors = []api.Message{{Text: fmt.Sprintf("injected on-end failure %d", i)}}
			}
			return r, nil
		}
	}
	p0 := api.Plugin{Name: "vfs", Setup: func(build api.PluginBuild) {
		c.resolve = build.Resolve
		build.OnStart(mkStart(0))
		build.OnResolve(api.OnResolveOptions{Filter: `^[vw]:`}, func(a api.OnResolveArgs) (api.OnResolveResult, error) {
			nested := a.PluginData == "nested"
			c.mu.Lock()
			b := c.curBuild()
			if b < 0 || c.startEnds != (b+1)*c.nStartCB {
				c.failf("on-resolve of %q in build %d ran before all on-start callbacks finished (%d of %d ended)", a.Path, b, c.startEnds-b*c.nStartCB, c.nStartCB)
			}
			ev := pev{B: b, Kind: "res", Mod: a.Path, Nested: nested}
			if imp, ok := a.PluginData.(string); ok && !nested && strings.HasPrefix(imp, "id:") {
				ev.Imp = imp[3:]
				ev.Key = fmt.Sprintf("%d|%s|%s", a.Kind, a.Path, modIdentity("", "", "", a.With))
			}
			c.ptrace = append(c.ptrace, ev)
			re := !nested && c.rng.Intn(100) < c.reenterPct/2
			k := c.rng.Intn(c.nmods)
			c.mu.Unlock()
			c.delay()
			if re {
				c.reenter(k)
			}
			path := a.Path[2:]
			suffix := ""
			if i := strings.IndexByte(path, '?'); i >= 0 {
				path, suffix = path[:i], path[i:]
			}
			return api.OnResolveResult{Path: path, Namespace: "v", Suffix: suffix}, nil
		})
		build.OnLoad(api.OnLoadOptions{Filter: `.*`, Namespace: "v"}, func(a api.OnLoadArgs) (api.OnLoadResult, error) {
			id := modIdentity(a.Path, a.Namespace, a.Suffix, a.With)
			c.mu.Lock()
			b := c.curBuild()
			if b < 0 || c.startEnds != (b+1)*c.nStartCB {
				c.failf("on-load of %q in build %d ran before all on-start callbacks finished (%d of %d ended)", id, b, c.startEnds-b*c.nStartCB, c.nStartCB)
			}
			ver := c.version
			if _, ok := c.firstLoad[b]; !ok {
				c.firstLoad[b] = ver
				c.hist = c.app(hev{Kind: "load", B: b, Ver: ver})
			}
			key := fmt.Sprintf("%d/%s", b, id)
			if _, dup := c.loadVer[key]; dup {
				c.failf("module identity %q was loaded twice in build %d", id, b)
			}
			c.loadVer[key] = ver
			fail := c.rng.Intn(100) < c.failLoadPct
			c.ptrace = append(c.ptrace, pev{B: b, Kind: "load", Mod: id, Fail: fail})
			re := c.rng.Intn(100) < c.reenterPct
			k := c.rng.Intn(c.nmods)
			gate := c.gate
			isGate := gate != nil && a.Path == c.gateMod
			c.mu.Unlock()
			if isGate {
				c.gateOnce.Do(func() { close(c.gateHit) })
				<-gate
			}
			c.delay()
			if re {
				c.reenter(k)
			}
			if fail {
				return api.OnLoadResult{}, fmt.Errorf("injected on-load failure")
			}
			idx, _ := strconv.Atoi(strings.TrimPrefix(a.Path, "m"))
			var sb strings.Builder
			if idx >= 0 && idx < len(c.edges) {
				for _, spec := range c.edges[idx] {
					fmt.Fprintf(&sb, "import %q;\n", spec)
				}
			}
			fmt.Fprintf(&sb, "console.log(\"@B%dM%dV%d@\");\n", b, idx, ver)
			contents := sb.String()
			r := api.OnLoadResult{Contents: &contents, Loader: api.LoaderJS, PluginData: "id:" + id}
			if c.trigger != "" {
				r.WatchFiles = []string{c.trigger}
			}
			return r, nil
		})
		build.OnEnd(mkEnd(0))
	}}
	p1 := api.Plugin{Name: "extra", Setup: func(build api.PluginBuild) {
		for i := 1; i < c.nStartCB; i++ {
			build.OnStart(mkStart(i))
		}
		// observers for everything the first plugin does not claim (paths resolved
		// and loaded by the file system: inject, alias, glob imports, CSS): they
		// record the callback, check the on-start barrier and pass
		build.OnResolve(api.OnResolveOptions{Filter: `.*`}, func(a api.OnResolveArgs) (api.OnResolveResult, error) {
			c.mu.Lock()
			b := c.curBuild()
			if b < 0 || c.startEnds != (b+1)*c.nStartCB {
				c.failf("on-resolve of %q (kind %d) ran while on-start callbacks of the build were still running or had not begun (%d begun, %d ended, %d per build)", a.Path, a.Kind, c.startBegins, c.startEnds, c.nStartCB)
			}
			c.ptrace = append(c.ptrace, pev{B: b, Kind: "res", Mod: a.Path, Nested: a.PluginData == "nested"})
			c.mu.Unlock()
			c.delay()
			return api.OnResolveResult{}, nil
		})
		build.OnLoad(api.OnLoadOptions{Filter: `.*`, Namespace: "file"}, func(a api.OnLoadArgs) (api.OnLoadResult, error) {
			id := modIdentity(a.Path, a.Namespace, a.Suffix, a.With)
			c.mu.Lock()
			b := c.curBuild()
			if b < 0 || c.startEnds != (b+1)*c.nStartCB {
				c.failf("on-load of %q in build %d ran before all on-start callbacks finished (%d of %d ended)", id, b, c.startEnds-b*c.nStartCB, c.nStartCB)
			}
			key := fmt.Sprintf("%d/%s", b, id)
			if _, dup := c.loadVer[key]; dup {
				c.failf("module identity %q was loaded twice in build %d", id, b)
			}
			c.loadVer[key] = c.version
			c.ptrace = append(c.ptrace, pev{B: b, Kind: "load", Mod: id})
			c.mu.Unlock()
			c.delay()
			return api.OnLoadResult{}, nil
		})
		for i := 1; i < c.nEndCB; i++ {
			build.OnEnd(mkEnd(i))
		}
	}}
	return []api.Plugin{p0, p1}
}

// re-enter the API from inside a callback: build.Resolve
func (c *ctxRec) reenter(k int) {
	want := fmt.Sprintf("m%d", k)
	res := c.resolve("v:"+want, api.ResolveOptions{Kind: api.ResolveJSImportStatement, Namespace: "v", Importer: "m0", ResolveDir: c.tmp, PluginData: "nested"})
	if len(res.Errors) != 0 || res.Path != want || res.Namespace != "v" {
		c.mu.Lock()
		c.failf("re-entrant build.Resolve(v:%s) returned path=%q namespace=%q errors=%v", want, res.Path, res.Namespace, res.Errors)
		c.mu.Unlock()
	}
}

// reachable module indices from m0 (suffix variants count as the same index)
func (c *ctxRec) reachable() map[int]int {
	cnt := map[string]bool{}
	var visit func(id string, idx int)
	out := map[int]int{}
	visit = func(id string, idx int) {
		if cnt[id] {
			return
		}
		cnt[id] = true
		out[idx]++
		for _, spec := range c.edges[idx] {
			p := spec[2:]
			j, _ := strconv.Atoi(strings.TrimPrefix(strings.SplitN(p, "?", 2)[0], "m"))
			visit(p, j)
		}
	}
	visit("m0", 0)
	for i := 0; i < c.nInj; i++ {
		out[100+i]++
	}
	return out
}

// forceEntryOptions makes every new context use Inject paths (plugin- and
// file-system-resolved), an alias and a glob import (directed corpus)
var forceEntryOptions = false

func newCtxRec(r *Rng, tmp string, idx int) *ctxRec {
	c := &ctxRec{firstLoad: map[int]int{}, loadVer: map[string]int{}, ended: map[int]bool{}, endBegins: map[int]int{},
		rng: NewRng(r.U64()), gateHit: make(chan struct{}), tmp: tmp}
	c.nStartCB = r.Range(1, 3)
	c.nEndCB = r.Range(1, 3)
	c.nmods = r.Range(1, 5)
	c.edges = make([][]string, c.nmods)
	for i := 0; i < c.nmods; i++ {
		ne := r.Intn(3)
		if i == 0 && c.nmods > 1 {
			ne = r.Range(1, 3)
		}
		for e := 0; e < ne; e++ {
			j := r.Intn(c.nmods)
			pre := "v:"
			if r.Chance(30) {
				pre = "w:" // a second specifier for the same identity
			}
			spec := fmt.Sprintf("%sm%d", pre, j)
			if r.Chance(10) {
				spec += "?s" // a suffix makes a different identity
			}
			c.edges[i] = append(c.edges[i], spec)
		}
	}
	if r.Chance(25) {
		c.failLoadPct = 6
	}
	if r.Chance(25) {
		c.failEndPct = 12
	}
	if r.Chance(15) {
		c.failStartPct = 10
	}
	c.reenterPct = []int{0, 20, 50}[r.Intn(3)]
	c.write = r.Chance(40)
	dir := filepath.Join(tmp, fmt.Sprintf("ctx%d", idx))
	os.MkdirAll(dir, 0o755)
	c.dir = dir
	c.outfile = filepath.Join(dir, "out.js")
	if r.Chance(45) || forceEntryOptions {
		c.nInj = r.Range(1, 2)
	}
	c.fsInj = r.Chance(35) || forceEntryOptions
	c.useStdin = r.Chance(20)
	c.cssEntry = r.Chance(15)
	if c.nInj > 0 || c.fsInj || c.useStdin || c.cssEntry {
		c.startMinUS = 400 + r.Intn(2500)
	}
	if c.cssEntry {
		c.write = false // several entry points: outdir instead of outfile
		os.WriteFile(filepath.Join(dir, "style.css"), []byte("@import \"./other.css\";\n.a { color: red }\n"), 0o644)
		os.WriteFile(filepath.Join(dir, "other.css"), []byte(".b { color: blue }\n"), 0o644)
	}
	if c.fsInj {
		os.MkdirAll(filepath.Join(dir, "globdir"), 0o755)
		os.WriteFile(filepath.Join(dir, "fsinj.js"), []byte("import \"./fsdep.js\";\nimport \"aliased-pkg\";\nconst k = globalThis.K || \"a\";\nimport(\"./globdir/\" + k + \".js\");\nconsole.log(\"FSMARK_inj\");\n"), 0o644)
		os.WriteFile(filepath.Join(dir, "fsdep.js"), []byte("console.log(\"FSMARK_dep\");\n"), 0o644)
		os.WriteFile(filepath.Join(dir, "alias-target.js"), []byte("console.log(\"FSMARK_alias\");\n"), 0o644)
		os.WriteFile(filepath.Join(dir, "globdir", "a.js"), []byte("console.log(\"FSMARK_ga\");\n"), 0o644)
		os.WriteFile(filepath.Join(dir, "globdir", "b.js"), []byte("console.log(\"FSMARK_gb\");\n"), 0o644)
		c.fsMarks = []string{"FSMARK_inj", "FSMARK_dep", "FSMARK_alias", "FSMARK_ga", "FSMARK_gb"}
	}
	return c
}

func (c *ctxRec) options() api.BuildOptions {
	o := api.BuildOptions{
		EntryPoints: []string{"v:m0"}, Bundle: true, Format: api.FormatESModule, Outfile: c.outfile, Write: c.write,
		LogLevel: api.LogLevelSilent, AbsWorkingDir: c.dir, Plugins: c.plugins(),
	}
	for i := 0; i < c.nInj; i++ {
		o.Inject = append(o.Inject, fmt.Sprintf("%sm%d", []string{"v:", "w:"}[i%2], 100+i))
	}
	if c.fsInj {
		o.Inject = append(o.Inject, filepath.Join(c.dir, "fsinj.js"))
		o.Alias = map[string]string{"aliased-pkg": filepath.Join(c.dir, "alias-target.js")}
	}
	if c.useStdin {
		o.EntryPoints = nil
		o.Stdin = &api.StdinOptions{Contents: "import \"v:m0\";\n", ResolveDir: c.dir, Sourcefile: "stdin.js"}
	}
	if c.cssEntry {
		o.Outfile = ""
		o.Outdir = filepath.Join(c.dir, "outdir")
		if c.useStdin {
			o.EntryPoints = []string{filepath.Join(c.dir, "style.css")}
		} else {
			o.EntryPoints = append(o.EntryPoints, filepath.Join(c.dir, "style.css"))
		}
	}
	return o
}

// ---- calls ----

func (c *ctxRec) logCall(op string) int {
	c.mu.Lock()
	defer c.mu.Unlock()
	id := c.ncalls
	c.ncalls++
	c.hist = c.app(hev{Kind: "call", C: id, Op: op})
	return id
}

func (c *ctxRec) edit() {
	c.mu.Lock()
	c.version++
	v := c.version
	c.hist = c.app(hev{Kind: "edit"})
	c.mu.Unlock()
	if c.trigger != "" {
		os.WriteFile(c.trigger, []byte(strings.Repeat("x", v%97+1)), 0o644)
	}
}

// decode what Rebuild returned; consistency failures are reported in errs
func (c *ctxRec) decodeResult(res api.BuildResult) (rvT, []string) {
	var errs []string
	b := -1
	var endIdx []int
	for _, w := range res.Warnings {
		if strings.HasPrefix(w.Text, "end:") {
			parts := strings.Split(w.Text, ":")
			bb, _ := strconv.Atoi(parts[1])
			ii, _ := strconv.Atoi(parts[2])
			if b >= 0 && bb != b {
				errs = append(errs, fmt.Sprintf("result mixes on-end output of builds %d and %d", b, bb))
			}
			b = bb
			endIdx = append(endIdx, ii)
		}
	}
	if b < 0 {
		if len(res.Errors) == 0 && len(res.Warnings) == 0 && len(res.OutputFiles) == 0 {
			return rvT{Kind: "empty"}, nil
		}
		errs = append(errs, fmt.Sprintf("result without on-end marker: errors=%v outputs=%d", res.Errors, len(res.OutputFiles)))
		return rvT{Kind: "empty"}, errs
	}
	rv := rvT{Kind: "build", B: b}
	onEndFailed := false
	for _, m := range res.Errors {
		if m.Text == "The build was canceled" {
			rv.Canc = true
		}
		if strings.HasPrefix(m.Text, "injected on-end failure") {
			onEndFailed = true
		}
	}
	// on-end callbacks: in registration order, all unless one failed
	for k, ii := range endIdx {
		if ii != k {
			errs = append(errs, fmt.Sprintf("on-end callbacks out of order or repeated: %v", endIdx))
			break
		}
	}
	if !onEndFailed && len(endIdx) != c.nEndCB {
		errs = append(errs, fmt.Sprintf("%d of %d on-end callbacks ran although none failed", len(endIdx), c.nEndCB))
	}
	c.mu.Lock()
	defer c.mu.Unlock()
	if len(res.OutputFiles) > 0 {
		text := ""
		for _, f := range res.OutputFiles {
			text += string(f.Contents)
		}
		seen := map[int]int{}
		minVer := -1
		for _, m := range tagRe.FindAllStringSubmatch(text, -1) {
			bb, _ := strconv.Atoi(m[1])
			mi, _ := strconv.Atoi(m[2])
			vv, _ := strconv.Atoi(m[3])
			if bb != b {
				errs = append(errs, fmt.Sprintf("output of build %d contains module m%d produced by build %d (mixture of two builds)", b, mi, bb))
			}
			seen[mi]++
			if minVer < 0 || vv < minVer {
				minVer = vv
			}
		}
		want := c.reachable()
		for mi, n := range want {
			if seen[mi] != n {
				errs = append(errs, fmt.Sprintf("incomplete or duplicated result: module m%d appears %d times in the output of build %d, expected %d", mi, seen[mi], b, n))
			}
		}
		for _, mk := range c.fsMarks {
			if n := strings.Count(text, mk); n != 1 {
				errs = append(errs, fmt.Sprintf("incomplete or duplicated result: file-system module %s appears %d times in the output of build %d", mk, n, b))
			}
		}
		for mi := range seen {
			if want[mi] == 0 {
				errs = append(errs, fmt.Sprintf("unreachable module m%d in output", mi))
			}
		}
		if len(res.Errors) != 0 && !onEndFailed {
			errs = append(errs, fmt.Sprintf("result has both errors %v and output files", res.Errors))
		}
		if minVer >= 0 {
			rv.HasVer, rv.Ver = true, minVer
		}
	} else {
		if len(res.Errors) == 0 {
			errs = append(errs, fmt.Sprintf("build %d returned neither errors nor output files", b))
		}
		// the version is not observable in the result: take the recorded one
		if v, ok := c.firstLoad[b]; ok {
			rv.HasVer, rv.Ver = true, v
		}
	}
	return rv, errs
}

type callOutcome struct {
	returned bool
	rv       rvT
	errs     []string
}

// doCall performs one API call with call/return events; it gives up waiting
// after the timeout (the call keeps running in its goroutine)
func (c *ctxRec) doCall(ctx api.BuildContext, op string, timeout time.Duration) callOutcome {
	id := c.logCall(op)
	done := make(chan callOutcome, 1)
	go func() {
		var out callOutcome
		switch op {
		case "rebuild":
			res := ctx.Rebuild()
			out.rv, out.errs = c.decodeResult(res)
		case "cancel":
			ctx.Cancel()
			out.rv = rvT{Kind: "unit"}
		case "dispose":
			ctx.Dispose()
			out.rv = rvT{Kind: "unit"}
		case "watch":
			if err := ctx.Watch(api.WatchOptions{}); err != nil {
				out.rv = rvT{Kind: "err"}
			} else {
				out.rv = rvT{Kind: "unit"}
			}
		}
		c.mu.Lock()
		c.hist = c.app(hev{Kind: "ret", C: id, Op: op, Rv: out.rv})
		c.mu.Unlock()
		out.returned = true
		done <- out
	}()
	select {
	case o := <-done:
		return o
	case <-time.After(timeout):
		return callOutcome{}
	}
}

// ---- printing ----

func histString(h []hev) string {
	var sb strings.Builder
	for i, e := range h {
		if i > 0 {
			sb.WriteString(" ")
		}
		switch e.Kind {
		case "call":
			fmt.Fprintf(&sb, "call%d(%s)", e.C, e.Op)
		case "ret":
			fmt.Fprintf(&sb, "ret%d(%s)=%s", e.C, e.Op, rvString(e.Rv))
		case "start":
			fmt.Fprintf(&sb, "START%d", e.B)
		case "load":
			fmt.Fprintf(&sb, "LOAD%d@v%d", e.B, e.Ver)
		case "end":
			fmt.Fprintf(&sb, "END%d", e.B)
			if e.Canc {
				sb.WriteString("[canceled]")
			}
		case "edit":
			sb.WriteString("EDIT")
		}
	}
	return sb.String()
}

func rvString(r rvT) string {
	switch r.Kind {
	case "build":
		s := fmt.Sprintf("build%d", r.B)
		if r.Canc {
			s += "[canceled]"
		}
		if r.HasVer {
			s += fmt.Sprintf("@v%d", r.Ver)
		}
		return s
	}
	return r.Kind
}

func coqOp(op string) string {
	switch op {
	case "rebuild":
		return "OpRebuild"
	case "cancel":
		return "OpCancel"
	case "dispose":
		return "OpDispose"
	}
	return "OpWatch"
}

func coqRv(r rvT) string {
	switch r.Kind {
	case "empty":
		return "RvEmpty"
	case "unit":
		return "RvUnit"
	case "err":
		return "RvErr"
	}
	v := "None"
	if r.HasVer {
		v = fmt.Sprintf("(Some %d%%nat)", r.Ver)
	}
	return fmt.Sprintf("(RvBuild %d %s %s)", r.B, CBool(r.Canc), v)
}

func coqHist(h []hev) string {
	items := make([]string, len(h))
	for i, e := range h {
		switch e.Kind {
		case "call":
			items[i] = fmt.Sprintf("LCall %d %s", e.C, coqOp(e.Op))
		case "ret":
			items[i] = fmt.Sprintf("LRet %d %s %s", e.C, coqOp(e.Op), coqRv(e.Rv))
		case "start":
			items[i] = fmt.Sprintf("LStart %d", e.B)
		case "load":
			items[i] = fmt.Sprintf("LLoad %d %d", e.B, e.Ver)
		case "end":
			items[i] = fmt.Sprintf("LEnd %d %s", e.B, CBool(e.Canc))
		case "edit":
			items[i] = "LEdit"
		}
	}
	return "[" + strings.Join(items, "; ") + "]"
}
