package main

// Driver for the real `esbuild --service=<version>` child process over
// stdin/stdout, with a transcript of every packet in both directions.

import (
	"bufio"
	"encoding/binary"
	"fmt"
	"io"
	"os"
	"os/exec"
	"path/filepath"
	"regexp"
	"strings"
	"sync"
	"time"
)

type svcEvent struct {
	Kind string // creq | sresp | sreq | cresp | close
	ID   uint32
	Cmd  string // command of a request ("" for responses)
	Key  int    // build key if any, else -1
}

type svcProc struct {
	cmd     *exec.Cmd
	in      io.WriteCloser
	wmu     sync.Mutex // serialises writes to stdin; also orders the transcript of sent packets
	closed  bool
	written int // bytes written so far
	cutAt   int // close stdin after this many bytes (<0: never)

	mu       sync.Mutex
	events   []svcEvent
	waiters  map[uint32]chan interface{}
	respN    map[uint32]int
	outBody  [][]byte // bodies received from the service (raw)
	outPkt   []pkt
	inBody   [][]byte // bodies sent by the harness
	inPkt    []pkt
	badFrame string
	version  string

	// reply to a request originated by the service; ok=false: do not reply
	onRequest func(p pkt) (interface{}, bool)
	hwg       sync.WaitGroup
	done      chan struct{} // closed when stdout reached EOF
	exited    chan struct{}
	exitErr   error
	stderr    *lockedBuf
}

// crashText returns the panic message of the service process, if it crashed
func (s *svcProc) crashText() string {
	s.stderr.mu.Lock()
	defer s.stderr.mu.Unlock()
	t := s.stderr.b.String()
	for _, marker := range []string{"panic:", "fatal error:"} {
		if i := strings.Index(t, marker); i >= 0 {
			t = t[i:]
			if len(t) > 1200 {
				t = t[:1200]
			}
			return t
		}
	}
	return ""
}

func esbuildVersion(repo string) string {
	data, err := os.ReadFile(filepath.Join(repo, "cmd", "esbuild", "version.go"))
	if err != nil {
		panic(err)
	}
	m := regexp.MustCompile(`esbuildVersion = "([^"]+)"`).FindSubmatch(data)
	if m == nil {
		panic("cannot find esbuildVersion")
	}
	return string(m[1])
}

// build the real binary from the tree under test
func buildEsbuild(repo, dir string, race bool) (string, error) {
	exe := filepath.Join(dir, "esbuild-under-test")
	args := []string{"build"}
	env := append(os.Environ(), "GOFLAGS=-mod=mod", "GOPROXY=off", "GOSUMDB=off", "GOTOOLCHAIN=local")
	if race {
		args = append(args, "-race")
		exe += "-race"
		env = append(env, "CGO_ENABLED=1")
	} else {
		env = append(env, "CGO_ENABLED=0")
	}
	args = append(args, "-o", exe, "./cmd/esbuild")
	c := exec.Command("go", args...)
	c.Dir = repo
	c.Env = env
	out, err := c.CombinedOutput()
	if err != nil {
		return "", fmt.Errorf("go build ./cmd/esbuild failed: %v\n%s", err, out)
	}
	return exe, nil
}

func startSvc(exe, version string, extraEnv []string, onRequest func(p pkt) (interface{}, bool)) (*svcProc, error) {
	s := &svcProc{waiters: map[uint32]chan interface{}{}, respN: map[uint32]int{}, cutAt: -1,
		onRequest: onRequest, done: make(chan struct{}), exited: make(chan struct{})}
	s.cmd = exec.Command(exe, "--service="+version)
	s.cmd.Env = append(os.Environ(), extraEnv...)
	s.stderr = &lockedBuf{}
	s.cmd.Stderr = s.stderr
	if raceChild {
		s.cmd.Stderr = io.MultiWriter(s.stderr, svcStderr)
	}
	in, err := s.cmd.StdinPipe()
	if err != nil {
		return nil, err
	}
	out, err := s.cmd.StdoutPipe()
	if err != nil {
		return nil, err
	}
	s.in = in
	if err := s.cmd.Start(); err != nil {
		return nil, err
	}
	rd := bufio.NewReaderSize(out, 1<<16)
	// the protocol starts with the version
	var l [4]byte
	if _, err := io.ReadFull(rd, l[:]); err != nil {
		return nil, fmt.Errorf("no version from service: %v", err)
	}
	vb := make([]byte, binary.LittleEndian.Uint32(l[:]))
	if _, err := io.ReadFull(rd, vb); err != nil {
		return nil, err
	}
	s.version = string(vb)
	go s.readLoop(rd)
	go func() {
		<-s.done
		s.exitErr = s.cmd.Wait()
		close(s.exited)
	}()
	return s, nil
}

func keyOf(v interface{}) int {
	if m, ok := v.(map[string]interface{}); ok {
		if k, ok := m["key"].(int); ok {
			return k
		}
	}
	return -1
}
func cmdOf(v interface{}) string {
	if m, ok := v.(map[string]interface{}); ok {
		if k, ok := m["command"].(string); ok {
			return k
		}
	}
	return ""
}

func (s *svcProc) readLoop(rd *bufio.Reader) {
	defer close(s.done)
	for {
		var l [4]byte
		if _, err := io.ReadFull(rd, l[:]); err != nil {
			if err != io.EOF {
				s.mu.Lock()
				s.badFrame = "truncated length prefix at end of stdout"
				s.mu.Unlock()
			}
			return
		}
		n := binary.LittleEndian.Uint32(l[:])
		if n > 1<<28 {
			s.mu.Lock()
			s.badFrame = fmt.Sprintf("absurd frame length %d", n)
			s.mu.Unlock()
			return
		}
		body := make([]byte, n)
		if _, err := io.ReadFull(rd, body); err != nil {
			s.mu.Lock()
			s.badFrame = "truncated frame at end of stdout"
			s.mu.Unlock()
			return
		}
		p, ok := decBody(body)
		s.mu.Lock()
		if !ok {
			s.badFrame = fmt.Sprintf("undecodable packet from the service: %x", body)
			s.mu.Unlock()
			return
		}
		s.outBody = append(s.outBody, body)
		s.outPkt = append(s.outPkt, p)
		if p.isReq {
			s.events = append(s.events, svcEvent{"sreq", p.id, cmdOf(p.value), keyOf(p.value)})
			s.mu.Unlock()
			s.hwg.Add(1)
			go func() {
				defer s.hwg.Done()
				if s.onRequest == nil {
					return
				}
				if v, ok := s.onRequest(p); ok {
					s.send(pkt{id: p.id, isReq: false, value: v}, "cresp", "", -1)
				}
			}()
		} else {
			s.events = append(s.events, svcEvent{"sresp", p.id, "", -1})
			s.respN[p.id]++
			ch := s.waiters[p.id]
			delete(s.waiters, p.id)
			s.mu.Unlock()
			if ch != nil {
				ch <- p.value
			}
		}
	}
}

// send writes one packet; returns whether it was written completely
func (s *svcProc) send(p pkt, kind, cmd string, key int) bool {
	body := encBody(p)
	fr := frame(body)
	s.wmu.Lock()
	defer s.wmu.Unlock()
	if s.closed {
		return false
	}
	if s.cutAt >= 0 && s.written+len(fr) > s.cutAt {
		// stdin is closed in the middle of (or just before) this packet
		part := fr[:s.cutAt-s.written]
		if len(part) > 0 {
			s.in.Write(part)
		}
		s.written += len(part)
		s.closeLocked()
		return false
	}
	s.mu.Lock()
	s.events = append(s.events, svcEvent{kind, p.id, cmd, key})
	s.inBody = append(s.inBody, body)
	s.inPkt = append(s.inPkt, p)
	s.mu.Unlock()
	if _, err := s.in.Write(fr); err != nil {
		return false
	}
	s.written += len(fr)
	if s.cutAt >= 0 && s.written == s.cutAt {
		s.closeLocked()
	}
	return true
}

// sendBatch writes several request packets with ONE write, so that the
// service finds all of them in its stdin buffer at once
func (s *svcProc) sendBatch(ps []pkt) bool {
	var all []byte
	s.wmu.Lock()
	defer s.wmu.Unlock()
	if s.closed {
		return false
	}
	s.mu.Lock()
	for _, p := range ps {
		body := encBody(p)
		all = append(all, frame(body)...)
		s.events = append(s.events, svcEvent{"creq", p.id, cmdOf(p.value), keyOf(p.value)})
		s.inBody = append(s.inBody, body)
		s.inPkt = append(s.inPkt, p)
	}
	s.mu.Unlock()
	_, err := s.in.Write(all)
	s.written += len(all)
	return err == nil
}

func (s *svcProc) closeLocked() {
	if !s.closed {
		s.closed = true
		s.mu.Lock()
		s.events = append(s.events, svcEvent{"close", 0, "", -1})
		s.mu.Unlock()
		s.in.Close()
	}
}

func (s *svcProc) closeStdin() {
	s.wmu.Lock()
	s.closeLocked()
	s.wmu.Unlock()
}

// request sends a request and waits for its response (nil,false on timeout
// or when the packet could not be written)
func (s *svcProc) request(id uint32, value map[string]interface{}, timeout time.Duration) (interface{}, bool, bool) {
	ch := make(chan interface{}, 4)
	s.mu.Lock()
	s.waiters[id] = ch
	s.mu.Unlock()
	if !s.send(pkt{id: id, isReq: true, value: value}, "creq", cmdOf(value), keyOf(value)) {
		return nil, false, false
	}
	select {
	case v := <-ch:
		return v, true, true
	case <-time.After(timeout):
		return nil, true, false
	case <-s.done:
		// stdout closed: a response may have raced with EOF
		select {
		case v := <-ch:
			return v, true, true
		default:
		}
		return nil, true, false
	}
}

// waitExit waits for the process to exit after stdin was closed
func (s *svcProc) waitExit(timeout time.Duration) bool {
	select {
	case <-s.exited:
		return true
	case <-time.After(timeout):
		s.cmd.Process.Kill()
		<-s.exited
		return false
	}
}

func (s *svcProc) kill() {
	s.cmd.Process.Kill()
	<-s.exited
}

func (s *svcProc) transcript() []svcEvent {
	s.mu.Lock()
	defer s.mu.Unlock()
	return append([]svcEvent{}, s.events...)
}
