package main

// Go port of the Coq monitor CtxSpec.mon_step (kept line by line in step with
// it; the Coq function is the one evaluated on the same histories by
// vm_compute, this copy exists so that a violation is reported immediately
// with the history as the failing input).

import "fmt"

type pinfo struct {
	cid     int
	op      string
	edits   int
	next    int
	quiet   bool
	ret     map[int]bool
	dispRet bool
}

type monT struct {
	ncalls       int
	next         int
	run          int // -1 = none
	loaded       bool
	load         map[int]int
	end          map[int]bool
	ret          map[int]bool
	pend         []*pinfo
	dispCalled   bool
	dispRet      bool
	watchCalled  bool
	watchOk      bool
	cancelCalled bool
	edits        int
}

func newMon() *monT {
	return &monT{run: -1, load: map[int]int{}, end: map[int]bool{}, ret: map[int]bool{}}
}

func (m *monT) rebuildPending() bool {
	for _, p := range m.pend {
		if p.op == "rebuild" {
			return true
		}
	}
	return false
}

// step returns "" when the event is allowed, else the violated rule
func (m *monT) step(e hev) string {
	switch e.Kind {
	case "edit":
		m.edits++
	case "call":
		if e.C != m.ncalls {
			return "call ids are not consecutive"
		}
		p := &pinfo{cid: e.C, op: e.Op, edits: m.edits, next: m.next, quiet: !m.rebuildPending() && !m.watchCalled,
			ret: map[int]bool{}, dispRet: m.dispRet}
		for b := range m.ret {
			p.ret[b] = true
		}
		if e.Op == "dispose" {
			m.dispCalled = true
		}
		if e.Op == "watch" {
			m.watchCalled = true
		}
		if e.Op == "cancel" {
			m.cancelCalled = true
		}
		m.pend = append([]*pinfo{p}, m.pend...)
		m.ncalls++
	case "start":
		if e.B != m.next || m.run != -1 {
			return "S1: a build started while another one was running (or build numbers are not consecutive)"
		}
		if m.dispRet {
			return "S5: a build started after Dispose returned"
		}
		if !m.rebuildPending() && !m.watchCalled {
			return "S8: a build started although no Rebuild was pending and Watch was never called"
		}
		m.next = e.B + 1
		m.run = e.B
		m.loaded = false
	case "load":
		if m.run != e.B || m.loaded {
			return "S1: load event outside its build"
		}
		if e.Ver != m.edits {
			return "S1: load saw a stale version"
		}
		m.loaded = true
		m.load[e.B] = e.Ver
	case "end":
		if m.run != e.B {
			return "S1: end event of a build that is not running (after Dispose returned?)"
		}
		if e.Canc && !m.cancelCalled {
			return "S7: build reported as canceled although Cancel was never called"
		}
		m.run = -1
		m.loaded = false
		m.end[e.B] = e.Canc
	case "ret":
		var p *pinfo
		idx := -1
		for i, q := range m.pend {
			if q.cid == e.C {
				p, idx = q, i
				break
			}
		}
		if p == nil || p.op != e.Op {
			return "return without a pending call"
		}
		m.pend = append(append([]*pinfo{}, m.pend[:idx]...), m.pend[idx+1:]...)
		switch {
		case e.Op == "rebuild" && e.Rv.Kind == "empty":
			if !m.dispCalled {
				return "S2: Rebuild returned the empty result although Dispose was never called"
			}
		case e.Op == "rebuild" && e.Rv.Kind == "build":
			b := e.Rv.B
			c, ended := m.end[b]
			if !ended {
				return fmt.Sprintf("S2: Rebuild returned build %d before that build ended", b)
			}
			if c != e.Rv.Canc {
				return fmt.Sprintf("S2: the returned cancellation outcome is not that of build %d", b)
			}
			lv, hasLoad := m.load[b]
			if hasLoad != e.Rv.HasVer || (hasLoad && lv != e.Rv.Ver) {
				return fmt.Sprintf("S2: the returned contents (version) are not those build %d read", b)
			}
			if p.ret[b] {
				return fmt.Sprintf("S2: Rebuild returned build %d, which had already been returned before this call was made (stale result)", b)
			}
			if p.dispRet {
				return "S6: Rebuild called after Dispose returned yields a build result"
			}
			if p.quiet {
				if b < p.next {
					return fmt.Sprintf("S3: no other build was in progress at the call, yet the returned build %d had started before the call", b)
				}
				if e.Rv.HasVer && e.Rv.Ver < p.edits {
					return fmt.Sprintf("S3: sequential Rebuild does not reflect earlier edits (version %d < %d)", e.Rv.Ver, p.edits)
				}
			}
			m.ret[b] = true
		case e.Op == "cancel" && e.Rv.Kind == "unit":
			if !(m.run == -1 || p.next <= m.run) {
				return fmt.Sprintf("S4: Cancel returned while build %d, started before the call, is still running", m.run)
			}
		case e.Op == "dispose" && e.Rv.Kind == "unit":
			if m.run != -1 {
				return fmt.Sprintf("S5: Dispose returned while build %d is still running", m.run)
			}
			m.dispRet = true
		case e.Op == "watch" && e.Rv.Kind == "unit":
			if p.dispRet {
				return "S6: Watch called after Dispose returned succeeded"
			}
			if m.watchOk {
				return "S9: Watch succeeded twice"
			}
			m.watchOk = true
		case e.Op == "watch" && e.Rv.Kind == "err":
			otherWatch := false
			for _, q := range m.pend { // m.pend no longer contains this call
				if q.op == "watch" {
					otherWatch = true
				}
			}
			if !(m.dispCalled || m.watchOk || otherWatch) {
				return "S9: Watch failed although Dispose was not called, no Watch had succeeded and no other Watch call was pending"
			}
		default:
			return "ill-typed return value"
		}
	}
	return ""
}

// checkHistory returns (index, rule) of the first rejected event, or (-1,"")
func checkHistory(h []hev) (int, string) {
	m := newMon()
	for i, e := range h {
		if r := m.step(e); r != "" {
			return i, r
		}
	}
	return -1, ""
}

// watchHistoryOK mirrors Harness.watch_hist_ok: builds that start while no
// client Rebuild is pending (watcher goroutine / Watch's first build) number at
// most 1 + the edits so far, in every prefix.
func watchHistoryOK(h []hev) (int, string) {
	pending, builds, edits := 0, 0, 0
	for i, e := range h {
		switch {
		case e.Kind == "edit":
			edits++
		case e.Kind == "call" && e.Op == "rebuild":
			pending++
		case e.Kind == "ret" && e.Op == "rebuild":
			if pending > 0 {
				pending--
			}
		case e.Kind == "start" && pending == 0:
			builds++
			if builds > 1+edits {
				return i, fmt.Sprintf("build %d was started by the watcher although every change had already been built (%d watcher-started builds, %d edits)", e.B, builds, edits)
			}
		}
	}
	return -1, ""
}
