package main

// Scenario B: a build context behind the real service process.  The client
// registers plugin callbacks (on-start/on-resolve/on-load/on-end are requests
// the service sends to the client) and issues rebuild/cancel/dispose requests
// from several goroutines.

import (
	"fmt"
	"strings"
	"sync"
	"time"

	. "github.com/evanw/esbuild/verifharness/hlib"
)

type svcCtxClient struct {
	mu       sync.Mutex
	rng      *Rng
	gate     chan struct{} // on-load of m0 waits for it when non-nil
	gateHit  chan struct{}
	gateOnce sync.Once
	nmods     int
	loads     int
	builds    int
	startOpen int      // on-start requests received whose reply has not been produced yet
	barrier   []string // resolve/load requests that arrived while an on-start was open
}

func (c *svcCtxClient) delay() {
	c.mu.Lock()
	us := 0
	if c.rng.Intn(100) < 40 {
		us = c.rng.Intn(1200)
	}
	c.mu.Unlock()
	if us > 0 {
		time.Sleep(time.Duration(us) * time.Microsecond)
	}
}

func (c *svcCtxClient) handle(p pkt) (interface{}, bool) {
	req := asMap(p.value)
	switch cmdOf(p.value) {
	case "ping":
		return map[string]interface{}{}, true
	case "on-start":
		c.mu.Lock()
		c.builds++
		c.startOpen++
		us := 1500 + c.rng.Intn(2500)
		c.mu.Unlock()
		time.Sleep(time.Duration(us) * time.Microsecond)
		c.mu.Lock()
		c.startOpen--
		c.mu.Unlock()
		return map[string]interface{}{"errors": []interface{}{}, "warnings": []interface{}{}}, true
	case "on-resolve":
		ids, _ := req["ids"].([]interface{})
		path, _ := req["path"].(string)
		c.mu.Lock()
		if c.startOpen > 0 && len(c.barrier) < 5 {
			c.barrier = append(c.barrier, fmt.Sprintf("on-resolve request for %q (service request id %d) arrived while the reply to on-start was still outstanding", path, p.id))
		}
		c.mu.Unlock()
		c.delay()
		resp := map[string]interface{}{"path": strings.TrimPrefix(strings.TrimPrefix(path, "v:"), "w:"), "namespace": "v"}
		if len(ids) > 0 {
			resp["id"] = ids[0]
		}
		return resp, true
	case "on-load":
		ids, _ := req["ids"].([]interface{})
		path, _ := req["path"].(string)
		c.mu.Lock()
		c.loads++
		if c.startOpen > 0 && len(c.barrier) < 5 {
			c.barrier = append(c.barrier, fmt.Sprintf("on-load request for %q (service request id %d) arrived while the reply to on-start was still outstanding", path, p.id))
		}
		gate := c.gate
		b := c.builds
		c.mu.Unlock()
		if gate != nil && path == "m0" {
			c.gateOnce.Do(func() { close(c.gateHit) })
			<-gate
		}
		c.delay()
		var sb strings.Builder
		idx := 0
		fmt.Sscanf(path, "m%d", &idx)
		if idx+1 < c.nmods {
			fmt.Fprintf(&sb, "import \"v:m%d\";\n", idx+1)
		}
		fmt.Fprintf(&sb, "console.log(\"@B%dM%d@\");\n", b, idx)
		resp := map[string]interface{}{"contents": []byte(sb.String()), "loader": "js"}
		if len(ids) > 0 {
			resp["id"] = ids[0]
		}
		return resp, true
	case "on-end":
		c.delay()
		return map[string]interface{}{"errors": []interface{}{}, "warnings": []interface{}{}}, true
	}
	return map[string]interface{}{}, true
}

func ctxBuildRequest(key int, tmp string) map[string]interface{} {
	return map[string]interface{}{"command": "build", "key": key, "entries": []interface{}{[]interface{}{"", "v:m0"}},
		"flags": []interface{}{"--bundle", "--format=esm", "--log-level=silent", "--outfile=out.js", "--inject:v:m7"}, "write": false,
		"stdinContents": nil, "stdinResolveDir": nil, "absWorkingDir": tmp, "nodePaths": []interface{}{}, "context": true,
		"plugins": []interface{}{map[string]interface{}{"name": "vfs", "onStart": true, "onEnd": true,
			"onResolve": []interface{}{map[string]interface{}{"id": 1, "filter": "^[vw]:", "namespace": ""}},
			"onLoad":    []interface{}{map[string]interface{}{"id": 2, "filter": ".*", "namespace": "v"}}}}}
}

// analysis of the transcript of one context key
func checkSvcCtxTranscript(tr []svcEvent, key int, reqKinds map[uint32]string) []string {
	var out []string
	type iv struct{ start, end int }
	var builds []iv
	open := -1
	firstDisposeReq, firstDisposeResp := -1, -1
	for i, ev := range tr {
		if ev.Kind == "sreq" && ev.Key == key {
			switch ev.Cmd {
			case "on-start":
				if open >= 0 {
					out = append(out, fmt.Sprintf("event %d: on-start of a new build while the previous build has not reached on-end (two builds at once)", i))
				}
				open = len(builds)
				builds = append(builds, iv{i, -1})
			case "on-end":
				if open < 0 {
					out = append(out, fmt.Sprintf("event %d: on-end without a running build", i))
				} else {
					builds[open].end = i
					open = -1
				}
			case "on-load", "on-resolve":
				if open < 0 {
					out = append(out, fmt.Sprintf("event %d: %s outside a build", i, ev.Cmd))
				}
			}
		}
		if ev.Kind == "creq" && ev.Cmd == "dispose" && ev.Key == key && firstDisposeReq < 0 {
			firstDisposeReq = i
		}
	}
	// responses
	reqAt := map[uint32]int{}
	for i, ev := range tr {
		if ev.Kind == "creq" {
			reqAt[ev.ID] = i
		}
	}
	for i, ev := range tr {
		if ev.Kind != "sresp" {
			continue
		}
		kind := reqKinds[ev.ID]
		at, ok := reqAt[ev.ID]
		if !ok {
			continue
		}
		switch kind {
		case "dispose":
			if at == firstDisposeReq {
				firstDisposeResp = i
			}
			{
				// every dispose (also a second one, answered through respondAfterDispose)
				for _, b := range builds {
					if b.start < i && (b.end < 0 || b.end > i) {
						out = append(out, fmt.Sprintf("event %d: the dispose response arrived while the build started at event %d had not reached on-end", i, b.start))
					}
				}
			}
		case "cancel":
			for _, b := range builds {
				if b.start < at && (b.end < 0 || b.end > i) {
					out = append(out, fmt.Sprintf("event %d: the cancel response arrived while the build started at event %d (before the cancel request at event %d) had not reached on-end", i, b.start, at))
				}
			}
		}
	}
	if firstDisposeResp >= 0 {
		for i := firstDisposeResp + 1; i < len(tr); i++ {
			if tr[i].Kind == "sreq" && tr[i].Key == key {
				out = append(out, fmt.Sprintf("event %d: %s request for the context after its dispose response (event %d): a disposed context did further work", i, tr[i].Cmd, firstDisposeResp))
				break
			}
		}
	}
	return out
}

func scenSvcContext(seed uint64, e *svcEnv, idx int, directed string) {
	r := NewRng(seed)
	cl := &svcCtxClient{rng: NewRng(r.U64()), gateHit: make(chan struct{}), nmods: r.Range(1, 3)}
	if directed != "" {
		cl.gate = make(chan struct{})
	}
	procs := 1 + r.Intn(8)
	if directed == "rebuild-cancel-dispose-batch" {
		procs = 1
		cl.gate = nil
	}
	s, err := startSvc(e.exe, e.version, []string{fmt.Sprintf("GOMAXPROCS=%d", procs)}, cl.handle)
	if err != nil {
		e.st.Fail("service-start", seed, err.Error(), "service starts")
		return
	}
	key := 100 + idx
	kinds := map[uint32]string{}
	var kmu sync.Mutex
	desc := map[string]interface{}{"scenario": "service-context", "seed": seed}
	if directed != "" {
		desc["scenario"] = "service-context-" + directed
	}
	call := func(rr *Rng, cmd string) (interface{}, bool) {
		id := e.freshID(rr)
		kmu.Lock()
		kinds[id] = cmd
		kmu.Unlock()
		resp, _, got := s.request(id, map[string]interface{}{"command": cmd, "key": key}, 25*time.Second)
		return resp, got
	}
	id0 := e.freshID(r)
	kinds[id0] = "build"
	resp, _, got := s.request(id0, ctxBuildRequest(key, e.tmp), 25*time.Second)
	if !got || arrLen(asMap(resp)["errors"]) != 0 {
		e.st.Fail("service-context-creation-failed", desc, clipv(resp), "context is created")
		s.kill()
		return
	}
	released := false
	release := func() {
		if cl.gate != nil && !released {
			released = true
			close(cl.gate)
		}
	}
	checkRebuild := func(resp interface{}, afterDispose bool) {
		m := asMap(resp)
		if m == nil {
			e.st.Fail("response-does-not-belong-to-request", desc, clipv(resp), "a rebuild response")
			return
		}
		if _, isErr := m["error"]; isErr {
			if !afterDispose {
				e.st.Fail("response-does-not-belong-to-request", desc, "rebuild refused although dispose was never requested: "+clipv(resp), "a build result")
			}
			return
		}
		if arrLen(m["errors"]) < 0 {
			e.st.Fail("response-does-not-belong-to-request", desc, clipv(resp), "a rebuild response with errors/warnings")
		}
	}
	if directed == "rebuild-cancel-dispose-batch" {
		// rebuild, cancel and dispose arrive together: the service decodes all
		// three before the rebuild goroutine has started its build
		ids := []uint32{e.freshID(r), e.freshID(r), e.freshID(r)}
		cmds := []string{"rebuild", "cancel", "dispose"}
		var ps []pkt
		chs := make([]chan interface{}, 3)
		for i := range ids {
			kinds[ids[i]] = cmds[i]
			chs[i] = make(chan interface{}, 4)
			s.mu.Lock()
			s.waiters[ids[i]] = chs[i]
			s.mu.Unlock()
			ps = append(ps, pkt{id: ids[i], isReq: true, value: map[string]interface{}{"command": cmds[i], "key": key}})
		}
		s.sendBatch(ps)
		for i := range chs {
			select {
			case <-chs[i]:
			case <-s.done:
			case <-time.After(20 * time.Second):
			}
		}
	} else if directed == "" {
		k := r.Range(1, 4)
		var wg sync.WaitGroup
		var dmu sync.Mutex
		disposeSent := false
		for g := 0; g < k; g++ {
			wg.Add(1)
			gr := NewRng(r.U64())
			go func(gr *Rng) {
				defer wg.Done()
				m := gr.Range(2, 6)
				for j := 0; j < m; j++ {
					x := gr.Intn(100)
					switch {
					case x < 55:
						dmu.Lock()
						ad := disposeSent
						dmu.Unlock()
						resp, got := call(gr, "rebuild")
						dmu.Lock()
						ad = ad || disposeSent
						dmu.Unlock()
						if got {
							checkRebuild(resp, ad)
						}
					case x < 85:
						call(gr, "cancel")
					case x < 92 && j >= m/2:
						dmu.Lock()
						disposeSent = true
						dmu.Unlock()
						call(gr, "dispose")
					default:
						time.Sleep(time.Duration(gr.Intn(800)) * time.Microsecond)
					}
				}
			}(gr)
		}
		wg.Wait()
	} else {
		// hold a build inside on-load (the client does not answer), then
		// dispose twice / cancel after dispose
		type res struct {
			resp interface{}
			got  bool
		}
		rb := make(chan res, 1)
		go func() { x, g := call(NewRng(seed+1), "rebuild"); rb <- res{x, g} }()
		select {
		case <-cl.gateHit:
		case <-time.After(20 * time.Second):
			e.st.Fail("request-did-not-get-exactly-one-response", desc, "the rebuild never reached on-load", "builds make progress")
		}
		d1 := make(chan res, 1)
		go func() { x, g := call(NewRng(seed+2), "dispose"); d1 <- res{x, g} }()
		time.Sleep(30 * time.Millisecond)
		second := "dispose"
		if directed == "cancel-after-dispose" {
			second = "cancel"
		}
		d2 := make(chan res, 1)
		go func() { x, g := call(NewRng(seed+3), second); d2 <- res{x, g} }()
		select {
		case <-d2:
			// answered although the build is still held in on-load
			desc["scenario"] = "service-" + second + "-answered-at-once-after-dispose-request"
			e.st.Fail("service-"+second+"-answered-while-build-running", desc,
				"the "+second+" response arrived while the build is still running (held in on-load) and the first dispose is pending; transcript: "+trString(s.transcript()),
				"Cancel and Dispose return only after the running build has ended")
			d2 <- res{}
		case <-time.After(150 * time.Millisecond):
		}
		select {
		case <-d1:
			e.st.Fail("dispose-returned-while-build-running", desc, "the first dispose response arrived while the build is still held in on-load; transcript: "+trString(s.transcript()), "Dispose returns only after the running build has ended")
			d1 <- res{}
		default:
		}
		release()
		<-rb
		<-d1
		<-d2
	}
	release()
	// make sure the context is disposed, then the process must exit by itself
	call(r, "dispose")
	time.Sleep(3 * time.Millisecond)
	s.closeStdin()
	exitedOK := s.waitExit(15 * time.Second)
	if !exitedOK {
		e.st.Fail("service-did-not-exit-after-stdin-closed", desc, "still running 15s after dispose and stdin close; transcript: "+trString(s.transcript()), "process exits")
	}
	s.hwg.Wait()
	if s.crashText() == "" {
		e.addTranscript(s.transcript(), exitedOK)
	}
	tr := s.transcript()
	desc["transcript"] = trString(tr)
	if ct := s.crashText(); ct != "" {
		// everything else that went wrong in this scenario is a consequence
		d2 := map[string]interface{}{"scenario": "service-process-crash", "seed": seed, "transcript": trString(tr)}
		e.st.Fail("service-process-crashed", d2, ct, "the service never panics; every request receives exactly one response")
		e.st.Note("svc-context-crash", fmt.Sprint(seed), true)
		return
	}
	if s.badFrame != "" {
		e.st.Fail("service-wrote-malformed-stream", desc, s.badFrame, "well-formed packets")
	}
	s.mu.Lock()
	for id, kind := range kinds {
		if n := s.respN[id]; n != 1 {
			sent := false
			for _, ev := range tr {
				if ev.Kind == "creq" && ev.ID == id {
					sent = true
				}
			}
			if sent {
				e.st.Fail("request-did-not-get-exactly-one-response", desc, fmt.Sprintf("%s request id %d got %d responses", kind, id, n), "exactly one response carrying its id")
			}
		}
	}
	// requests sent by the service carry pairwise distinct ids 0..n-1 (allocated
	// under the service mutex; concurrent callbacks may reach the pipe in any order)
	seenReq := map[uint32]bool{}
	nreq := 0
	for _, ev := range tr {
		if ev.Kind == "sreq" {
			if seenReq[ev.ID] {
				e.st.Fail("service-request-id-reused", desc, fmt.Sprintf("service request id %d used twice", ev.ID), "distinct ids so that responses pair up")
			}
			seenReq[ev.ID] = true
			nreq++
		}
	}
	for id := range seenReq {
		if int(id) >= nreq {
			e.st.Fail("service-request-id-reused", desc, fmt.Sprintf("service request id %d with only %d requests sent", id, nreq), "ids 0..n-1")
			break
		}
	}
	s.mu.Unlock()
	cl.mu.Lock()
	for _, msg := range cl.barrier {
		e.st.Fail("plugin-callback-order-violated", desc, msg, "start callbacks finish before any resolve or load callback (inject path v:m7 is resolved and loaded through the plugin)")
	}
	cl.mu.Unlock()
	for _, msg := range checkSvcCtxTranscript(tr, key, kinds) {
		e.st.Fail("service-context-order-violated", desc, msg, "cancel/dispose answered after the running build ended; nothing after dispose; one build at a time")
	}
	e.collect(s, 6)
	e.st.Note("svc-context", fmt.Sprint(seed), true)
}
