package main

// C07: source maps. Correspondence cases for the sourcemap package and the
// glue stream through api.Build with marker programs.

import (
	"encoding/base64"
	"encoding/json"
	"fmt"
	"os"
	"path/filepath"
	"regexp"
	"strings"
	"unicode/utf8"

	"github.com/evanw/esbuild/internal/ast"
	"github.com/evanw/esbuild/internal/bundler"
	"github.com/evanw/esbuild/internal/fs"
	"github.com/evanw/esbuild/internal/linker"
	"github.com/evanw/esbuild/internal/helpers"
	"github.com/evanw/esbuild/internal/js_parser"
	"github.com/evanw/esbuild/internal/logger"
	"github.com/evanw/esbuild/internal/sourcemap"
	"github.com/evanw/esbuild/pkg/api"
	. "github.com/evanw/esbuild/verifharness/hlib"
)

func main() { Main("c07", runC07) }

var vlqGrid = []int64{0, 1, -1, 2, -2, 15, -15, 16, -16, 31, -31, 32, -32, 511, -511, 512, -512, 1023, 1024, -1024,
	16383, 16384, -16384, 524287, 524288, -524288, 1 << 24, -(1 << 24), 1<<31 - 1, -(1 << 31), 1 << 31, 1 << 40, -(1 << 40), 1<<53 - 1, -(1<<53 - 1), 1<<61 + 12345, -(1<<61 + 12345)}

const b64chars = "ABCDEFGHIJKLMNOPQRSTUVWXYZabcdefghijklmnopqrstuvwxyz0123456789+/"

func randVLQValue(r *Rng) int64 {
	switch r.Intn(6) {
	case 0:
		return vlqGrid[r.Intn(len(vlqGrid))]
	case 1:
		return int64(r.Intn(64)) - 32
	case 2:
		return int64(r.Intn(4096)) - 2048
	case 3:
		return int64(r.U64()%(1<<32)) - (1 << 31)
	case 4:
		k := uint(r.Intn(61))
		v := int64(1)<<k + int64(r.Intn(3)) - 1
		if r.Bool() {
			v = -v
		}
		return v
	default:
		return int64(r.U64()%(1<<50)) - (1 << 49)
	}
}

type segAbs struct {
	gl, gc   int
	hasSrc   bool
	s, ol, c int
	hasName  bool
	n        int
}

func (a segAbs) coq() string {
	if !a.hasSrc {
		return fmt.Sprintf("[%d;%d]", a.gl, a.gc)
	}
	if !a.hasName {
		return fmt.Sprintf("[%d;%d;%s;%s;%s]", a.gl, a.gc, CZi(a.s), CZi(a.ol), CZi(a.c))
	}
	return fmt.Sprintf("[%d;%d;%s;%s;%s;%s]", a.gl, a.gc, CZi(a.s), CZi(a.ol), CZi(a.c), CZi(a.n))
}

// Independent decoder of a v3 mappings string (harness side; validated
// against the Coq specification decoder on every case by check_map).
func decodeMappings(m []byte) ([]segAbs, bool) {
	var out []segAbs
	gl, gc, s, ol, oc, nm := 0, 0, 0, 0, 0, 0
	i := 0
	for i <= len(m) {
		// read one segment up to , ; or end
		var fields []int
		for i < len(m) && m[i] != ',' && m[i] != ';' {
			shift := uint(0)
			v := 0
			for {
				if i >= len(m) {
					return nil, false
				}
				d := strings.IndexByte(b64chars, m[i])
				if d < 0 {
					return nil, false
				}
				i++
				v |= (d & 31) << shift
				shift += 5
				if d&32 == 0 {
					break
				}
			}
			if v&1 != 0 {
				v = -(v >> 1)
			} else {
				v >>= 1
			}
			fields = append(fields, v)
		}
		switch len(fields) {
		case 0:
		case 1:
			gc += fields[0]
			out = append(out, segAbs{gl: gl, gc: gc})
		case 4:
			gc += fields[0]
			s += fields[1]
			ol += fields[2]
			oc += fields[3]
			out = append(out, segAbs{gl: gl, gc: gc, hasSrc: true, s: s, ol: ol, c: oc})
		case 5:
			gc += fields[0]
			s += fields[1]
			ol += fields[2]
			oc += fields[3]
			nm += fields[4]
			out = append(out, segAbs{gl: gl, gc: gc, hasSrc: true, s: s, ol: ol, c: oc, hasName: true, n: nm})
		default:
			return nil, false
		}
		if i < len(m) && m[i] == ';' {
			gl++
			gc = 0
		}
		i++
	}
	return out, true
}

func stateFields(s sourcemap.SourceMapState) string {
	return fmt.Sprintf("[%s;%s;%s;%s;%s;%s]", CZi(s.GeneratedLine), CZi(s.GeneratedColumn), CZi(s.SourceIndex), CZi(s.OriginalLine), CZi(s.OriginalColumn), CZi(s.OriginalName))
}

func randState(r *Rng, small bool) sourcemap.SourceMapState {
	f := func() int {
		if small {
			return r.Intn(40)
		}
		return int(randVLQValue(r) % (1 << 40))
	}
	return sourcemap.SourceMapState{GeneratedLine: r.Intn(5), GeneratedColumn: f(), SourceIndex: f(), OriginalLine: f(), OriginalColumn: f(), OriginalName: f(), HasOriginalName: r.Bool()}
}

// builds a random chunk with the real ChunkBuilder. Returns chunk, generated text
type builtChunk struct {
	chunk sourcemap.Chunk
	text  []byte
	src   string
}

func randIdent(r *Rng) string {
	return fmt.Sprintf("mk%d", r.Intn(100000))
}

func buildRandomChunk(r *Rng, nonASCII bool) builtChunk {
	// original source: a few lines of tokens
	var src strings.Builder
	var tokOffsets []int
	var tokNames []string
	lines := r.Range(1, 6)
	for l := 0; l < lines; l++ {
		nt := r.Range(0, 5)
		for t := 0; t < nt; t++ {
			if r.Chance(30) {
				src.WriteString(strings.Repeat(" ", r.Intn(4)))
			}
			if nonASCII && r.Chance(25) {
				src.WriteString([]string{"é", "😀", " ", "ü", "\t"}[r.Intn(5)])
			}
			tokOffsets = append(tokOffsets, src.Len())
			id := randIdent(r)
			tokNames = append(tokNames, id)
			src.WriteString(id)
			src.WriteString(" ")
		}
		if l+1 < lines {
			src.WriteString([]string{"\n", "\r\n", "\n", "\r"}[r.Intn(4)])
		}
	}
	contents := src.String()
	tables := sourcemap.GenerateLineOffsetTables(contents, int32(lines))
	b := sourcemap.MakeChunkBuilder(nil, tables, false)
	var out []byte
	// leading newlines sometimes
	for r.Chance(20) {
		out = append(out, '\n')
	}
	if len(tokOffsets) == 0 || r.Chance(85) {
		// the printer always maps the start of the file
		b.AddSourceMapping(logger.Loc{Start: 0}, "", out)
	}
	for i, off := range tokOffsets {
		if r.Chance(15) {
			continue
		}
		name := ""
		if r.Chance(40) {
			name = tokNames[i]
		}
		b.AddSourceMapping(logger.Loc{Start: int32(off)}, name, out)
		out = append(out, tokNames[i]...)
		switch r.Intn(6) {
		case 0:
			out = append(out, '\n')
		case 1:
			out = append(out, ";\n\n"...)
		case 2:
			if nonASCII {
				out = append(out, " é😀 "...)
			} else {
				out = append(out, "  "...)
			}
		case 3:
			out = append(out, "\r\n"...)
		default:
			out = append(out, ' ')
		}
	}
	return builtChunk{b.GenerateChunk(out), out, contents}
}

func fnoOf(i ast.Index32) int64 {
	if i.IsValid() {
		return int64(i.GetIndex())
	}
	return -1
}

func runC07(seed uint64, n int, tier string, outDir string) []*Stats {
	r := NewRng(seed)
	cf := NewCoqFile("From V Require Import Common.Base C07.Vlq C07.SpecMap C07.Mappings C07.Shift C07.Harness C07.HarnessParse C07.HarnessJson.")
	st := NewStats("c07", seed)
	note := st.Note

	// --- vlq encode/decode
	var items []string
	vals := append([]int64{}, vlqGrid...)
	for i := 0; i < n; i++ {
		vals = append(vals, randVLQValue(r))
	}
	for _, v := range vals {
		enc := sourcemap.VerifEncodeVLQ(nil, int(v))
		junk := []byte{}
		for k := r.Intn(4); k > 0; k-- {
			junk = append(junk, []byte(",;AgZ9\"")[r.Intn(7)])
		}
		junk = append(junk, ',') // sentinel: DecodeVLQ indexes past the end otherwise
		all := append(append([]byte{}, enc...), junk...)
		dv, dn := sourcemap.DecodeVLQ(all, 0)
		items = append(items, fmt.Sprintf("(%s,%s,%s,%s,%d)", CZ(v), CBytes(enc), CBytes(junk), CZ(int64(dv)), dn))
		note("vlq", fmt.Sprint(v), v != 0)
		if dv != int(v) {
			st.Fail("vlq-roundtrip", v, dv, v)
		}
		st.Sample(map[string]interface{}{"vlq": v, "enc": string(enc)})
	}
	cf.AddCases("vlq_cases", "Z * bytes * bytes * Z * Z", "check_vlq", items)

	// --- raw decode of arbitrary digit strings (up to 9 digits: fits 64-bit)
	items = nil
	for i := 0; i < n; i++ {
		k := r.Range(0, 8)
		var b []byte
		for j := 0; j < k; j++ {
			b = append(b, b64chars[32+r.Intn(32)])
		}
		b = append(b, b64chars[r.Intn(32)])
		if r.Chance(10) {
			b = []byte{}
		}
		for k := r.Intn(3); k > 0; k-- {
			b = append(b, b64chars[r.Intn(64)])
		}
		b = append(b, ";,\""[r.Intn(3)])
		dv, dn := sourcemap.DecodeVLQ(b, 0)
		items = append(items, fmt.Sprintf("(%s,%s,%d)", CBytes(b), CZ(int64(dv)), dn))
		note("dec", string(b), len(b) > 2)
	}
	cf.AddCases("dec_cases", "bytes * Z * Z", "check_dec", items)

	// --- appendMappingToBuffer
	items = nil
	for i := 0; i < n; i++ {
		prev := randState(r, r.Bool())
		cur := randState(r, r.Bool())
		lb := []byte{0, ';', '"', ',', 'A', 'z', '/'}[r.Intn(7)]
		omit := r.Chance(20)
		buf, off := sourcemap.VerifAppendMappingToBuffer(nil, lb, prev, cur, omit)
		items = append(items, fmt.Sprintf("(%d,%s,%s,%s,%s,%s,%s,%s)", lb, stateFields(prev), CBool(prev.HasOriginalName), stateFields(cur), CBool(cur.HasOriginalName), CBool(omit), CBytes(buf), CZ(fnoOf(off))))
		note("append", string(buf), true)
	}
	cf.AddCases("app_cases", "Z * list Z * bool * list Z * bool * bool * bytes * Z", "check_app", items)

	// --- chunks built by the real ChunkBuilder, joined as the linker does
	var joinItems, mapItems []string
	nj := n / 5
	if nj < 20 {
		nj = 20
	}
	for i := 0; i < nj; i++ {
		nonASCII := r.Chance(40)
		k := r.Range(1, 5)
		var j helpers.Joiner
		j.AddString("\"")
		prevEnd := sourcemap.SourceMapState{}
		prevColumnOffset := 0
		totalNames := 0
		var expect []segAbs
		var full []byte
		ok := true
		for c := 0; c < k; c++ {
			bc := buildRandomChunk(r, nonASCII)
			ch := bc.chunk
			if ch.ShouldIgnore || len(ch.Buffer.Data) == 0 {
				continue
			}
			gap := []string{"", "\n", "// x\n", "  ", "/* é */ ", "\n\n// 😀\n"}[r.Intn(6)]
			if !nonASCII {
				gap = []string{"", "\n", "// x\n", "  ", "\r\n", "\n\n// y\n"}[r.Intn(6)]
			}
			var genOffset sourcemap.LineColumnOffset
			genOffset.AdvanceString(gap)
			full = append(full, gap...)
			startByte := len(full)
			full = append(full, bc.text...)
			sourcesIndex := c
			start := sourcemap.SourceMapState{SourceIndex: sourcesIndex, GeneratedLine: genOffset.Lines, GeneratedColumn: genOffset.Columns, OriginalName: totalNames}
			if genOffset.Lines == 0 {
				start.GeneratedColumn += prevColumnOffset
			}
			before := j.Length()
			jl := j.LastByte()
			sourcemap.AppendSourceMapChunk(&j, prevEnd, start, ch.Buffer)
			all := j.Done()
			added := append([]byte{}, all[before:]...)
			joinItems = append(joinItems, fmt.Sprintf("(%d,%s,%s,%s,%s,%s)", jl, stateFields(prevEnd), stateFields(start), CBytes(ch.Buffer.Data), CZ(fnoOf(ch.Buffer.FirstNameOffset)), CBytes(added)))
			note("join", string(ch.Buffer.Data), len(ch.Buffer.Data) > 4)
			// expected absolute mappings of this chunk: rebased to the true
			// position of the chunk's text inside the whole generated file
			dec, dok := decodeMappings(ch.Buffer.Data)
			if !dok {
				ok = false
			}
			sl, sc := lineColOf(full, startByte)
			for _, a := range dec {
				b := a
				if a.gl == 0 {
					b.gc += sc
				}
				b.gl += sl
				b.s += sourcesIndex
				if a.hasName {
					b.n += totalNames
				}
				expect = append(expect, b)
			}
			// the linker's bookkeeping (generateSourceMapForChunk)
			prevOriginalName := prevEnd.OriginalName
			prevEnd = ch.EndState
			prevEnd.SourceIndex += sourcesIndex
			if ch.Buffer.FirstNameOffset.IsValid() {
				prevEnd.OriginalName += totalNames
			} else {
				prevEnd.OriginalName = prevOriginalName
			}
			prevColumnOffset = ch.FinalGeneratedColumn
			totalNames += len(ch.QuotedNames)
			if prevEnd.GeneratedLine == 0 {
				prevEnd.GeneratedColumn += start.GeneratedColumn
				prevColumnOffset += start.GeneratedColumn
			}
		}
		if !ok || len(expect) == 0 {
			continue
		}
		joined := append([]byte{}, j.Done()[1:]...)
		got, gok := decodeMappings(joined)
		if !gok || !sameAbs(got, expect) {
			st.Fail("join-positions", map[string]interface{}{"joined": string(joined), "text": string(full)}, fmt.Sprint(got), fmt.Sprint(expect))
		}
		var dl []string
		for _, a := range expect {
			dl = append(dl, a.coq())
		}
		mapItems = append(mapItems, fmt.Sprintf("(%s,%d,%d,%s)", CBytes(joined), k, totalNames+1, "["+strings.Join(dl, ";")+"]"))
		note("joined-map", string(joined), len(got) > 1)
		st.Sample(map[string]interface{}{"joined_mappings": string(joined), "chunks": k})
	}
	cf.AddCases("join_cases", "Z * list Z * list Z * bytes * Z * bytes", "check_join", joinItems)

	// --- the real joining loop (linker.generateSourceMapForChunk on a synthetic
	// linker context) on chunks built by the real ChunkBuilder, vs JoinAll.v
	var jaItems []string
	for i := 0; i < nj; i++ {
		it, mapIt := genJoinAllCase(r, st)
		if it != "" {
			jaItems = append(jaItems, it)
		}
		if mapIt != "" {
			mapItems = append(mapItems, mapIt)
		}
	}
	cf.AddCases("joinall_cases", "list (bytes * Z * Z * list Z * bool * Z * bool * (Z * Z) * Z * bool) * bytes", "check_joinall", jaItems)

	// --- Finalize with shifts built the way substituteFinalPaths builds them
	var finItems []string
	nf := n / 4
	for i := 0; i < nf; i++ {
		fc := genFinalizeCase(r)
		if fc == nil {
			continue
		}
		finItems = append(finItems, fc.coq)
		note("finalize", fc.key, fc.nshifts > 1)
		if fc.bad != "" {
			st.Fail("finalize-position", fc.key, fc.bad, "mapping column = true position of the same byte after substitution")
		}
		if len(fc.dec) > 0 {
			mapItems = append(mapItems, fc.mapcoq)
		}
	}
	cf.AddCases("fin_cases", "list (list Z) * bytes * bytes", "check_fin", finItems)

	// --- Find
	var findItems []string
	for i := 0; i < n/2; i++ {
		k := r.Intn(12)
		var ms []sourcemap.Mapping
		gl, gc := 0, 0
		for q := 0; q < k; q++ {
			if r.Chance(30) {
				gl += r.Range(1, 2)
				gc = 0
			}
			gc += r.Intn(4)
			m := sourcemap.Mapping{GeneratedLine: int32(gl), GeneratedColumn: int32(gc), SourceIndex: int32(r.Intn(3)), OriginalLine: int32(r.Intn(50)), OriginalColumn: int32(r.Intn(50))}
			if r.Bool() {
				m.OriginalName = ast.MakeIndex32(uint32(r.Intn(9)))
			}
			ms = append(ms, m)
		}
		sm := sourcemap.SourceMap{Mappings: ms}
		line, col := int32(r.Intn(gl+2)), int32(r.Intn(gc+3))
		res := sm.Find(line, col)
		var ml []string
		for _, m := range ms {
			ml = append(ml, mappingCoq(m))
		}
		rs := "[]"
		if res != nil {
			rs = mappingCoq(*res)
		}
		findItems = append(findItems, fmt.Sprintf("([%s],%d,%d,%s)", strings.Join(ml, ";"), line, col, rs))
		note("find", fmt.Sprint(ms, line, col), k > 1)
	}
	cf.AddCases("find_cases", "list (list Z) * Z * Z * list Z", "check_find", findItems)

	// --- line offset tables, LineColumnOffset.Advance*, table lookup vs direct scan
	var lcItems []string
	for i := 0; i < n/3; i++ {
		text := randText(r)
		tables := sourcemap.GenerateLineOffsetTables(text, int32(strings.Count(text, "\n")+1))
		dump := sourcemap.VerifDumpLineOffsetTables(tables)
		var tl []string
		for _, t := range dump {
			has := 0
			if t.ColumnsForNonASCII != nil {
				has = 1
			}
			cols := make([]int64, len(t.ColumnsForNonASCII))
			for k, c := range t.ColumnsForNonASCII {
				cols[k] = int64(c)
			}
			tl = append(tl, fmt.Sprintf("([%d;%d;%d],%s)", t.ByteOffsetToStartOfLine, t.ByteOffsetToFirstNonASCII, has, CZList(cols)))
		}
		start := sourcemap.LineColumnOffset{Lines: r.Intn(3), Columns: r.Intn(10)}
		adv := start
		if r.Bool() {
			adv.AdvanceBytes([]byte(text))
		} else {
			adv.AdvanceString(text)
		}
		lcItems = append(lcItems, fmt.Sprintf("(%s,[%s],(%d,%d),(%d,%d))", CBytes([]byte(text)), strings.Join(tl, ";"), start.Lines, start.Columns, adv.Lines, adv.Columns))
		note("linecol", text, len(text) > 2)
		// property predicate on the implementation: every rune boundary maps to the true UTF-16 line/column
		if bad := checkTablesAgainstScan(text); bad != "" {
			st.Fail("lineoffset-table-wrong", text, bad, "table lookup = direct UTF-16 scan")
		}
	}
	cf.AddCases("linecol_cases", "bytes * list (list Z * list Z) * (Z * Z) * (Z * Z)", "check_linecol", lcItems)

	// --- the real ChunkBuilder driven by recorded events vs the Builder.v model
	var bItems []string
	for i := 0; i < n/4; i++ {
		text := randText(r)
		lines := strings.Count(text, "\n") + 1
		tables := sourcemap.GenerateLineOffsetTables(text, int32(lines))
		b := sourcemap.MakeChunkBuilder(nil, tables, false)
		// valid locs: rune boundaries
		var locs []int
		for off := range text {
			locs = append(locs, off)
		}
		locs = append(locs, len(text))
		names := []string{"", "alpha", "beta", "gamma", "alpha2"}
		var out []byte
		var evs []string
		var pending []byte
		nev := r.Range(0, 10)
		prevLoc := -1
		for e := 0; e < nev; e++ {
			// text printed since the previous call
			delta := []byte(randOutputChunk(r))
			if e == 0 && r.Chance(50) {
				delta = nil
			}
			out = append(out, delta...)
			pending = append(pending, delta...)
			loc := locs[r.Intn(len(locs))]
			if r.Chance(15) && prevLoc >= 0 {
				loc = prevLoc // exercise duplicate suppression
			}
			prevLoc = loc
			nameID := 0
			if r.Chance(45) {
				nameID = r.Range(1, len(names)-1)
			}
			b.AddSourceMapping(logger.Loc{Start: int32(loc)}, names[nameID], out)
			evs = append(evs, fmt.Sprintf("(%d,%d,%s)", loc, nameID, CBytes(pending)))
			pending = nil
		}
		fin := []byte(randOutputChunk(r))
		out = append(out, fin...)
		ch := b.GenerateChunk(out)
		var nameIDs []int64
		for _, q := range ch.QuotedNames {
			for id, nm := range names {
				if string(q) == "\""+nm+"\"" {
					nameIDs = append(nameIDs, int64(id))
				}
			}
		}
		es := ch.EndState
		bItems = append(bItems, fmt.Sprintf("(%s,[%s],%s,%s,%s,%s,%s,%s,%d,%s)", CBytes([]byte(text)), strings.Join(evs, ";"), CBytes(fin),
			CBytes(ch.Buffer.Data), CZ(fnoOf(ch.Buffer.FirstNameOffset)), CZList(nameIDs), stateFields(es), CBool(es.HasOriginalName), ch.FinalGeneratedColumn, CBool(ch.ShouldIgnore)))
		note("builder", text+strings.Join(evs, ""), nev > 1)
	}
	cf.AddCases("builder_cases", "bytes * list (Z * Z * bytes) * bytes * bytes * Z * list Z * list Z * bool * Z * bool", "check_builder", bItems)

	// --- the real ChunkBuilder with a non-nil input source map vs BuilderIn.v
	var biItems []string
	for i := 0; i < n/6; i++ {
		biItems = append(biItems, genBuilderInCase(r, st))
	}
	cf.AddCases("builderin_cases", "bytes * list (list Z) * list Z * list (Z * Z * bytes) * bytes * bytes * Z * list Z * list Z * bool * Z * bool", "check_builderin", biItems)

	// --- js_parser.ParseSourceMap: order of the returned mappings (needSort) vs ParseMap.v
	var pmItems []string
	for i := 0; i < n/3; i++ {
		if it := genParseMapCase(r, st); it != "" {
			pmItems = append(pmItems, it)
		}
	}
	cf.AddCases("parsemap_cases", "list (Z * Z * Z * Z * list Z) * Z * Z * Z * list (Z * Z * Z * Z * Z * Z)", "check_parsemap", pmItems)

	// --- fixed corpus of known findings, then real builds with marker programs
	glueKnownFindings(st)
	cutProbes(st)
	glueN := n / 25
	if glueN < 8 {
		glueN = 8
	}
	for i := 0; i < glueN; i++ {
		g := glueSourceMap(r, st)
		for _, m := range g {
			mapItems = append(mapItems, m)
		}
	}
	cf.AddCases("map_cases", "bytes * Z * Z * list (list Z)", "check_map", mapItems)
	smTextProbes(st)
	cf.AddCases("smtext_cases", "bool * list bytes * option bytes * option (list bytes) * bytes * list bytes * bytes", "check_smtext", smTextItems)

	st.Finish("seeded generator (splitmix64 from VERIF_SEED): VLQ boundary grid + random values; random SourceMapState pairs; chunks produced by the real ChunkBuilder from random token layouts (CR/LF/CRLF/U+2028, astral and 2-byte characters) joined with the linker's bookkeeping; Finalize with shift lists built like substituteFinalPaths; sorted mapping lists for Find; api.Build marker programs for the glue stream. distinct_nontrivial = distinct (family,input) pairs excluding zero/empty inputs")
	if err := os.WriteFile(filepath.Join(outDir, "c07_cases.v"), []byte(cf.String()), 0o644); err != nil {
		panic(err)
	}
	return []*Stats{st}
}

func mappingCoq(m sourcemap.Mapping) string {
	n := int64(-1)
	if m.OriginalName.IsValid() {
		n = int64(m.OriginalName.GetIndex())
	}
	return fmt.Sprintf("[%d;%d;%d;%d;%d;%s]", m.GeneratedLine, m.GeneratedColumn, m.SourceIndex, m.OriginalLine, m.OriginalColumn, CZ(n))
}

// ---------------------------------------------------------------------------
// Finalize

type finCase struct {
	coq, mapcoq, key, bad string
	nshifts               int
	dec                   []segAbs
}

// independent UTF-16 line/column of a byte offset (esbuild's newline convention)
func lineColOf(text []byte, off int) (int, int) {
	line, col := 0, 0
	i := 0
	for i < off && i < len(text) {
		c, w := utf8.DecodeRune(text[i:])
		switch {
		case c == '\r' && i+1 < len(text) && text[i+1] == '\n':
			col++
		case c == '\r' || c == '\n' || c == ' ' || c == ' ':
			line++
			col = 0
		case c > 0xFFFF:
			col += 2
		default:
			col++
		}
		i += w
	}
	return line, col
}

func sameAbs(a, b []segAbs) bool {
	if len(a) != len(b) {
		return false
	}
	for i := range a {
		if a[i] != b[i] {
			return false
		}
	}
	return true
}

// byte offset of a (line, UTF-16 column) position
func offsetOfLineCol(text []byte, line, col int) int {
	l, c := 0, 0
	i := 0
	for i < len(text) {
		if l == line && c >= col {
			return i
		}
		r, w := utf8.DecodeRune(text[i:])
		switch {
		case r == '\r' && i+1 < len(text) && text[i+1] == '\n':
			c++
		case r == '\r' || r == '\n' || r == '\u2028' || r == '\u2029':
			if l == line {
				return i
			}
			l++
			c = 0
		case r > 0xFFFF:
			c += 2
		default:
			c++
		}
		i += w
	}
	return len(text)
}

func genFinalizeCase(r *Rng) *finCase {
	const key = "PLACEHOLDERKEY00000001"
	npieces := r.Range(1, 5)
	src := "a\nb\nc\nd\ne\nf\ng\nh\ni\nj\nk\nl\nm\nn\no\np\n"
	tables := sourcemap.GenerateLineOffsetTables(src, 17)
	b := sourcemap.MakeChunkBuilder(nil, tables, false)
	var inter []byte
	type pc struct {
		data []byte
		path string
	}
	var pieces []pc
	tokenNo := 0
	pieceStart := 0
	addTok := func(text string) {
		tokenNo++
		b.AddSourceMapping(logger.Loc{Start: int32((tokenNo % 16) * 2)}, "", inter)
		inter = append(inter, text...)
	}
	b.AddSourceMapping(logger.Loc{Start: 0}, "", inter)
	for p := 0; p < npieces; p++ {
		if p > 0 {
			inter = append(inter, '"') // closing quote of the previous import path
			if r.Chance(50) {
				inter = append(inter, ")"...)
			}
		}
		for t := r.Range(0, 4); t > 0; t-- {
			addTok(fmt.Sprintf("t%d", tokenNo))
			switch r.Intn(6) {
			case 0:
				inter = append(inter, '\n')
			case 1:
				inter = append(inter, " é😀 "...)
			case 2:
				inter = append(inter, ";\n\n"...)
			default:
				inter = append(inter, ' ')
			}
		}
		path := ""
		if p+1 < npieces {
			addTok("\"") // mapping at the opening quote of the import path
			path = "./" + strings.Repeat("x", r.Intn(40)) + []string{"", "é", "😀"}[r.Intn(3)] + ".js"
		}
		pieces = append(pieces, pc{append([]byte{}, inter[pieceStart:]...), path})
		if path != "" {
			inter = append(inter, key...)
		}
		pieceStart = len(inter)
	}
	chunk := b.GenerateChunk(inter)
	if chunk.ShouldIgnore {
		return nil
	}
	// shifts exactly as substituteFinalPaths computes them
	var shift sourcemap.SourceMapShift
	shifts := []sourcemap.SourceMapShift{shift}
	var final []byte
	type sub struct{ interEnd, delta int }
	var subs []sub
	interPos := 0
	for _, p := range pieces {
		var off sourcemap.LineColumnOffset
		off.AdvanceBytes(p.data)
		shift.Before.Add(off)
		shift.After.Add(off)
		final = append(final, p.data...)
		interPos += len(p.data)
		if p.path != "" {
			final = append(final, p.path...)
			shift.Before.AdvanceString(key)
			shift.After.AdvanceString(p.path)
			shifts = append(shifts, shift)
			interPos += len(key)
			subs = append(subs, sub{interPos, len(p.path) - len(key)})
		}
	}
	if len(pieces) == 1 {
		shifts = []sourcemap.SourceMapShift{{}}
	}
	data := append([]byte{}, chunk.Buffer.Data...)
	res := sourcemap.SourceMapPieces{Mappings: data}.Finalize(shifts)
	var sl []string
	for _, s := range shifts {
		sl = append(sl, fmt.Sprintf("[%d;%d;%d;%d]", s.Before.Lines, s.Before.Columns, s.After.Lines, s.After.Columns))
	}
	fc := &finCase{nshifts: len(shifts), key: string(data) + fmt.Sprint(shifts)}
	fc.coq = fmt.Sprintf("([%s],%s,%s)", strings.Join(sl, ";"), CBytes(data), CBytes(res))
	// oracle: every mapping must now sit at the true position of the same byte
	before, ok1 := decodeMappings(data)
	after, ok2 := decodeMappings(res)
	if !ok1 || !ok2 || len(before) != len(after) {
		fc.bad = "undecodable or count changed"
		return fc
	}
	var expect []segAbs
	for i, a := range before {
		off := offsetOfLineCol(inter, a.gl, a.gc)
		foff := off
		for _, s := range subs {
			if s.interEnd <= off {
				foff += s.delta
			}
		}
		l, c := lineColOf(final, foff)
		e := a
		e.gl, e.gc = l, c
		expect = append(expect, e)
		if after[i] != e && fc.bad == "" {
			fc.bad = fmt.Sprintf("mapping %d: got %v want %v (final text %q)", i, after[i], e, string(final))
		}
	}
	fc.dec = expect
	var dl []string
	for _, a := range expect {
		dl = append(dl, a.coq())
	}
	fc.mapcoq = fmt.Sprintf("(%s,%d,%d,%s)", CBytes(res), 1, 1, "["+strings.Join(dl, ";")+"]")
	return fc
}

// ---------------------------------------------------------------------------
// Glue stream: real builds of marker programs through the public API.

var markerRe = regexp.MustCompile(`^["'` + "`" + `]?(mk[0-9]+|9[0-9]{6})`)
var identRe = regexp.MustCompile(`^[A-Za-z_$][A-Za-z0-9_$]*`)
var generatedSymbolRe = regexp.MustCompile(`(_exports|_default)$|^(init_|require_|import_|__)`)
var reportedGeneratedName bool

type startImage struct {
	base      string
	line, col int
}

type smJSON struct {
	Version        int       `json:"version"`
	Sources        []string  `json:"sources"`
	SourcesContent []*string `json:"sourcesContent"`
	SourceRoot     *string   `json:"sourceRoot"`
	Mappings       string    `json:"mappings"`
	Names          []string  `json:"names"`
}

func genMarkerFile(r *Rng, idx, nfiles int, counter *int, style int) string {
	nl := []string{"\n", "\r\n", "\n", "\n"}[style%4]
	mk := func() string { *counter++; return fmt.Sprintf("mk%d", *counter) }
	num := func() string { *counter++; return fmt.Sprintf("9%06d", *counter) }
	pad := func() string {
		switch r.Intn(8) {
		case 0:
			return "  "
		case 1:
			return "\t"
		case 2:
			return " /* é😀ü */ "
		case 3:
			return nl + "   "
		case 4:
			return " /* \u2028 */ "
		}
		return " "
	}
	var sb strings.Builder
	if idx+1 < nfiles {
		fmt.Fprintf(&sb, "import {%sfn%d%s} from%s\"./f%d.js\";%s", pad(), idx+1, pad(), pad(), idx+1, nl)
	}
	if idx == 0 && nfiles > 2 && r.Bool() {
		fmt.Fprintf(&sb, "import(\"./f%d.js\").then(%s => console.log(%s));%s", nfiles-1, "mkdyn", "mkdyn", nl)
	}
	nst := r.Range(1, 4)
	for s := 0; s < nst; s++ {
		a, b2, c := mk(), mk(), mk()
		switch r.Intn(4) {
		case 0:
			fmt.Fprintf(&sb, "export function %s(%s,%s%s)%s{%sreturn %s%s+%s\"%s\"%s*%s%s;%s}%s", a, b2, pad(), c, pad(), pad(), b2, pad(), pad(), mk(), pad(), pad(), num(), nl, nl)
		case 1:
			fmt.Fprintf(&sb, "export const %s%s=%s[%s\"%s\",%s%s,%s'%s'];%s", a, pad(), pad(), pad(), b2, pad(), num(), pad(), c, nl)
		case 2:
			fmt.Fprintf(&sb, "export let %s = {%s%s:%s%s,%s\"é%s\":%s\"%s\"%s};%s", a, pad(), b2, pad(), num(), pad(), c, pad(), mk(), pad(), nl)
		default:
			fmt.Fprintf(&sb, "export class %s {%s%s(%s)%s{%sconsole.log(%s,%s\"%s\");%s}%s}%s", a, pad(), b2, c, pad(), pad(), c, pad(), mk(), pad(), nl, nl)
		}
	}
	if idx+1 < nfiles {
		fmt.Fprintf(&sb, "export const fn%d = () =>%sfn%d(%s);%s", idx, pad(), idx+1, num(), nl)
	} else {
		fmt.Fprintf(&sb, "export const fn%d = () =>%s\"%s\";%s", idx, pad(), mk(), nl)
	}
	return sb.String()
}

func splitLinesSM(text string) []string {
	// esbuild's newline convention for source maps: \r\n, \r, \n, U+2028, U+2029
	var lines []string
	start := 0
	i := 0
	for i < len(text) {
		c, w := utf8.DecodeRuneInString(text[i:])
		if c == '\r' && i+1 < len(text) && text[i+1] == '\n' {
			i += w
			continue
		}
		if c == '\r' || c == '\n' || c == '\u2028' || c == '\u2029' {
			lines = append(lines, text[start:i+w])
			start = i + w
		}
		i += w
	}
	lines = append(lines, text[start:])
	return lines
}

// text starting at UTF-16 column col of a line ("" and false if out of range)
func atCol(line string, col int) (string, bool) {
	c := 0
	for i, r := range line {
		if c == col {
			return line[i:], true
		}
		if c > col {
			return "", false
		}
		if r > 0xFFFF {
			c += 2
		} else {
			c++
		}
	}
	if c == col {
		return "", true
	}
	return "", false
}

func glueSourceMap(r *Rng, st *Stats) []string {
	dir, err := os.MkdirTemp("", "verif-c07-")
	if err != nil {
		panic(err)
	}
	defer os.RemoveAll(dir)
	nfiles := r.Range(1, 4)
	counter := 0
	files := map[string]string{}
	for i := 0; i < nfiles; i++ {
		name := fmt.Sprintf("f%d.js", i)
		files[name] = genMarkerFile(r, i, nfiles, &counter, r.Intn(4))
		if err := os.WriteFile(filepath.Join(dir, name), []byte(files[name]), 0o644); err != nil {
			panic(err)
		}
	}
	// Composition through an input source map: a library of 2-3 marker files is
	// bundled first (stage 1) into lib.js + lib.js.map (several sources); the
	// main build imports ./lib.js, so its map must point through lib.js.map at
	// the library's ORIGINAL files. The import is placed first or last in f0.js
	// so that the multi-source file comes before or after other files.
	withLib := r.Chance(40)
	libDesc := ""
	var libStart *startImage
	if withLib {
		nlib := r.Range(2, 3)
		for i := 0; i < nlib; i++ {
			name := fmt.Sprintf("l%d.js", i)
			text := genMarkerFile(r, i, nlib, &counter, r.Intn(4))
			text = strings.ReplaceAll(text, "./f", "./l")
			text = regexp.MustCompile(`\bfn(\d)`).ReplaceAllString(text, "ln$1")
			files[name] = text
			if err := os.WriteFile(filepath.Join(dir, name), []byte(text), 0o644); err != nil {
				panic(err)
			}
		}
		lo := api.BuildOptions{AbsWorkingDir: dir, Outfile: filepath.Join(dir, "lib.js"), Write: true, Bundle: true, Format: api.FormatESModule,
			LogLevel: api.LogLevelSilent, EntryPoints: []string{"l0.js"}, Sourcemap: api.SourceMapLinked,
			MinifyWhitespace: r.Chance(40), MinifyIdentifiers: r.Chance(30), MinifySyntax: r.Chance(30)}
		lres := api.Build(lo)
		if len(lres.Errors) > 0 {
			st.Fail("glue-build-error", map[string]interface{}{"files": files, "stage": "library"}, lres.Errors[0].Text, "no error")
			return nil
		}
		libText, _ := os.ReadFile(filepath.Join(dir, "lib.js"))
		files["lib.js"] = string(libText)
		// where does the START of lib.js map to? Code the linker generates for
		// lib.js (its __export block, wrappers) is mapped to lib.js:0:0 and then
		// through lib.js.map to this position
		if mapText, err := os.ReadFile(filepath.Join(dir, "lib.js.map")); err == nil {
			var lm smJSON
			if json.Unmarshal(mapText, &lm) == nil {
				if segs, ok := decodeMappings([]byte(lm.Mappings)); ok {
					for _, sg := range segs {
						if sg.gl == 0 && sg.gc == 0 && sg.hasSrc && sg.s >= 0 && sg.s < len(lm.Sources) {
							libStart = &startImage{filepath.Base(lm.Sources[sg.s]), sg.ol, sg.c}
						}
					}
				}
			}
		}
		imp := "import * as LIB from \"./lib.js\"; console.log(LIB);\n"
		if r.Bool() {
			files["f0.js"] = imp + files["f0.js"]
		} else {
			files["f0.js"] = files["f0.js"] + imp
		}
		if err := os.WriteFile(filepath.Join(dir, "f0.js"), []byte(files["f0.js"]), 0o644); err != nil {
			panic(err)
		}
		libDesc = fmt.Sprintf(" input-map-library(files=%d minify=%v/%v/%v)", nlib, lo.MinifyWhitespace, lo.MinifyIdentifiers, lo.MinifySyntax)
		st.Histogram["glue-with-input-source-map"]++
	}
	opts := api.BuildOptions{
		AbsWorkingDir: dir,
		Outdir:        filepath.Join(dir, "out"),
		Write:         false,
		Format:        api.FormatESModule,
		LogLevel:      api.LogLevelSilent,
	}
	desc := map[string]interface{}{"files": files}
	bundle := r.Chance(70) || withLib
	opts.Bundle = bundle
	opts.EntryPoints = []string{"f0.js"}
	splitting := bundle && nfiles >= 2 && r.Chance(50)
	if splitting {
		opts.Splitting = true
		opts.EntryPoints = []string{"f0.js", fmt.Sprintf("f%d.js", nfiles-1)}
		opts.EntryNames = []string{"[name]-[hash]", "e/[name]-[hash]", "[name]"}[r.Intn(3)]
		opts.ChunkNames = []string{"chunks/[name]-[hash]", "[hash]", "c-[hash]-long-name-to-change-lengths"}[r.Intn(3)]
	}
	if !bundle {
		opts.EntryPoints = nil
		for i := 0; i < nfiles; i++ {
			opts.EntryPoints = append(opts.EntryPoints, fmt.Sprintf("f%d.js", i))
		}
	}
	opts.Sourcemap = []api.SourceMap{api.SourceMapInline, api.SourceMapLinked, api.SourceMapExternal, api.SourceMapInlineAndExternal}[r.Intn(4)]
	opts.MinifyWhitespace = r.Chance(40)
	opts.MinifyIdentifiers = r.Chance(40)
	opts.MinifySyntax = r.Chance(40)
	if r.Chance(30) {
		opts.Banner = map[string]string{"js": "/* banner é😀 */\n// second line"}
	}
	if r.Chance(20) {
		opts.Footer = map[string]string{"js": "// footer"}
	}
	if r.Chance(30) {
		opts.Charset = api.CharsetUTF8
	}
	if r.Chance(15) {
		opts.SourcesContent = api.SourcesContentExclude
	}
	if r.Chance(15) {
		opts.LineLimit = 40
	}
	if r.Chance(25) {
		opts.SourceRoot = []string{"https://example.com/src", "root \"q\" é", "/abs/"}[r.Intn(3)]
	}
	desc["options"] = fmt.Sprintf("bundle=%v splitting=%v sourcemap=%d minify=%v/%v/%v banner=%v charset=%d linelimit=%d entrynames=%q chunknames=%q", bundle, splitting, opts.Sourcemap, opts.MinifyWhitespace, opts.MinifyIdentifiers, opts.MinifySyntax, opts.Banner != nil, opts.Charset, opts.LineLimit, opts.EntryNames, opts.ChunkNames) + libDesc
	res := api.Build(opts)
	st.Evaluations++
	st.Histogram["glue-build"]++
	if len(res.Errors) > 0 {
		st.Histogram["glue-build-error"]++
		st.Fail("glue-build-error", desc, res.Errors[0].Text, "no error")
		return nil
	}
	outs := map[string][]byte{}
	for _, f := range res.OutputFiles {
		outs[f.Path] = f.Contents
	}
	var coqItems []string
	for path, js := range outs {
		if !strings.HasSuffix(path, ".js") {
			continue
		}
		var mapBytes []byte
		text := string(js)
		if m, ok := outs[path+".map"]; ok {
			mapBytes = m
		}
		if idx := strings.LastIndex(text, "//# sourceMappingURL=data:application/json;base64,"); idx >= 0 {
			enc := strings.TrimSpace(text[idx+len("//# sourceMappingURL=data:application/json;base64,"):])
			if nl := strings.IndexAny(enc, "\r\n"); nl >= 0 {
				enc = enc[:nl]
			}
			dec, err := base64.StdEncoding.DecodeString(enc)
			if err != nil {
				st.Fail("glue-inline-map-base64", desc, err.Error(), "valid base64")
				continue
			}
			if mapBytes != nil && string(mapBytes) != string(dec) {
				st.Fail("glue-inline-vs-external-differ", desc, nil, nil)
			}
			mapBytes = dec
		}
		if mapBytes == nil {
			st.Fail("glue-missing-map", desc, path, "a source map")
			continue
		}
		var sm smJSON
		if err := json.Unmarshal(mapBytes, &sm); err != nil || sm.Version != 3 {
			st.Fail("glue-map-json", desc, string(mapBytes), "version 3 JSON")
			continue
		}
		if !withLib { // with nested source maps sourcesContent is copied from the input map's own JSON text: outside SmJson.v
			recordSmText(opts.Charset != api.CharsetUTF8, sm, mapBytes, 6)
		}
		segs, ok := decodeMappings([]byte(sm.Mappings))
		if !ok {
			st.Fail("glue-map-undecodable", desc, sm.Mappings, "decodable")
			continue
		}
		genLines := splitLinesSM(text)
		// sources → original text
		var srcTexts [][]string
		for i, s := range sm.Sources {
			base := filepath.Base(s)
			orig, ok := files[base]
			if !ok {
				st.Fail("glue-unknown-source", desc, s, "one of the inputs")
				orig = ""
			}
			if opts.SourcesContent != api.SourcesContentExclude {
				if i >= len(sm.SourcesContent) || sm.SourcesContent[i] == nil || *sm.SourcesContent[i] != orig {
					st.Fail("glue-sources-content", desc, s, "sourcesContent equals the original file text")
				}
			}
			srcTexts = append(srcTexts, splitLinesSM(orig))
		}
		verified, checked := 0, 0
		var dl []string
		var prevSeg *segAbs
		for si := range segs {
			a := segs[si]
			if si > 0 {
				prevSeg = &segs[si-1]
			}
			dl = append(dl, a.coq())
			if !a.hasSrc {
				continue
			}
			checked++
			if a.gl >= len(genLines) {
				st.Fail("glue-generated-line-range", desc, a, len(genLines))
				continue
			}
			gtext, ok := atCol(genLines[a.gl], a.gc)
			if !ok {
				st.Fail("glue-generated-col-range", desc, a, genLines[a.gl])
				continue
			}
			if a.s < 0 || a.s >= len(srcTexts) || a.ol < 0 || a.ol >= len(srcTexts[a.s]) {
				st.Fail("glue-original-line-range", desc, a, nil)
				continue
			}
			otext, ok := atCol(srcTexts[a.s][a.ol], a.c)
			if !ok {
				st.Fail("glue-original-col-range", desc, a, srcTexts[a.s][a.ol])
				continue
			}
			// Code the linker generates itself (the __export(...) block and the
			// wrapper of a wrapped module, interop helpers) has no original token;
			// esbuild maps it to the start of the file it belongs to. Such mappings
			// are range-checked but exempt from token/name equality.
			// The builder replicates the previous mapping at column 0 of a line that
			// would otherwise not start with a mapping (a workaround for consumers
			// that need one); no token need start there (e.g. the continuation of a
			// string literal wrapped by --line-limit). Range-checked only.
			if a.gc == 0 && prevSeg != nil && prevSeg.hasSrc && prevSeg.s == a.s && prevSeg.ol == a.ol && prevSeg.c == a.c {
				st.Histogram["glue-cover-mapping"]++
				continue
			}
			fileStart := a.ol == 0 && a.c == 0
			if libStart != nil && a.s >= 0 && a.s < len(sm.Sources) && filepath.Base(sm.Sources[a.s]) == libStart.base && a.ol == libStart.line && a.c == libStart.col {
				fileStart = true // image of the start of the intermediate file lib.js
			}
			if fileStart {
				st.Histogram["glue-mapped-to-file-start"]++
			}
			if a.hasName && a.n >= 0 && a.n < len(sm.Names) && fileStart {
				continue
			}
			if a.hasName {
				if a.n < 0 || a.n >= len(sm.Names) {
					st.Fail("glue-name-range", desc, a, len(sm.Names))
					continue
				}
				id := identRe.FindString(otext)
				if id != sm.Names[a.n] && generatedSymbolRe.MatchString(sm.Names[a.n]) && !nameOccursInSources(sm.Names[a.n], files) {
					// esbuild records the name of a symbol it generated itself (the
					// namespace object "lib_exports" that replaces `import * as LIB`,
					// "init_x"/"require_x" wrappers) where the source has another
					// identifier or none: a recorded finding, reported once per run
					st.Histogram["glue-generated-symbol-name"]++
					if !reportedGeneratedName {
						reportedGeneratedName = true
						st.Fail("glue-name-of-generated-symbol", map[string]interface{}{"scenario": "generated-symbol-name-recorded", "options": desc["options"]},
							map[string]interface{}{"name": sm.Names[a.n], "original_at": clip(otext)}, "names[n] is the identifier at the original position")
					}
					continue
				}
				if id != sm.Names[a.n] && withLib && strings.HasPrefix(filepath.Base(sm.Sources[a.s]), "l") &&
					nameOccursInSources(sm.Names[a.n], map[string]string{"intermediate": files["lib.js"]}) {
					// composition through an input map keeps the INTERMEDIATE file's
					// identifier as the name when the input mapping carries none
					// (documented in ChunkBuilder.appendMapping)
					st.Histogram["glue-intermediate-name-kept"]++
					continue
				}
				if id != sm.Names[a.n] {
					st.Fail("glue-name-not-original-identifier", desc, map[string]interface{}{"mapping": a, "name": sm.Names[a.n], "original_at": clip(otext)}, "names[n] is the identifier at the original position")
					continue
				}
			}
			// --line-limit wraps long string literals with escaped newlines ("mk1\<LF>1"):
			// undo the continuation before reading the marker
			if strings.HasSuffix(strings.TrimRight(gtext, "\r\n"), "\\") {
				joined := gtext
				for k := a.gl + 1; k < len(genLines) && k <= a.gl+3; k++ {
					joined += genLines[k]
				}
				gtext = strings.ReplaceAll(strings.ReplaceAll(joined, "\\\r\n", ""), "\\\n", "")
			}
			gm := markerRe.FindStringSubmatch(gtext)
			if gm != nil && fileStart && !markerRe.MatchString(otext) {
				continue
			}
			if gm != nil {
				om := markerRe.FindStringSubmatch(otext)
				if om == nil || om[1] != gm[1] {
					st.Fail("glue-marker-mismatch", desc, map[string]interface{}{"mapping": a, "generated_at": clip(gtext), "original_at": clip(otext), "file": filepath.Base(path)}, "same marker token at both positions")
					continue
				}
				verified++
			}
		}
		st.Histogram["glue-mappings-checked"] += checked
		st.Histogram["glue-markers-verified"] += verified
		coqItems = append(coqItems, fmt.Sprintf("(%s,%d,%d,%s)", CBytes([]byte(sm.Mappings)), len(sm.Sources), len(sm.Names), "["+strings.Join(dl, ";")+"]"))
		if len(st.Samples) < 8 {
			st.Samples = append(st.Samples, map[string]interface{}{"glue_options": desc["options"], "output": filepath.Base(path), "mappings_prefix": clip(sm.Mappings), "markers_verified": verified})
		}
	}
	return coqItems
}

func clip(s string) string {
	if len(s) > 60 {
		return s[:60]
	}
	return s
}

func randText(r *Rng) string {
	var sb strings.Builder
	n := r.Range(0, 30)
	for i := 0; i < n; i++ {
		switch r.Intn(16) {
		case 0:
			sb.WriteString("\n")
		case 1:
			sb.WriteString("\r\n")
		case 2:
			sb.WriteString("\r")
		case 3:
			sb.WriteString("\u2028")
		case 4:
			sb.WriteString("\u2029")
		case 5:
			sb.WriteString("\u00e9")
		case 6:
			sb.WriteString("\U0001F600")
		case 7:
			sb.WriteString("\u4e2d")
		case 8:
			sb.WriteString(string([]byte{0xC3})) // truncated / invalid UTF-8
		case 9:
			sb.WriteString(string([]byte{0xE2, 0x80})) // truncated 3-byte sequence
		case 10:
			sb.WriteString(string([]byte{0xED, 0xA0, 0x80})) // encoded surrogate: invalid for Go
		default:
			sb.WriteByte("abcxyz ;(){}=\t"[r.Intn(14)])
		}
	}
	return sb.String()
}

func randOutputChunk(r *Rng) string {
	var sb strings.Builder
	for k := r.Range(0, 6); k > 0; k-- {
		switch r.Intn(10) {
		case 0:
			sb.WriteString("\n")
		case 1:
			sb.WriteString("\r\n")
		case 2:
			sb.WriteString("\u00e9")
		case 3:
			sb.WriteString("\U0001F600")
		case 4:
			sb.WriteString("\u2028")
		case 5:
			sb.WriteString("\r")
		default:
			sb.WriteString("ab ")
		}
	}
	return sb.String()
}

// independent oracle for the line offset tables: scan the text directly
func checkTablesAgainstScan(text string) string {
	tables := sourcemap.VerifDumpLineOffsetTables(sourcemap.GenerateLineOffsetTables(text, 1))
	line, col := 0, 0
	bs := []byte(text)
	i := 0
	check := func(off int) string {
		// find the table line: last table with start <= off
		tl := -1
		for k, t := range tables {
			if int(t.ByteOffsetToStartOfLine) <= off {
				tl = k
			}
		}
		if tl < 0 {
			return fmt.Sprintf("offset %d: no table line", off)
		}
		t := tables[tl]
		c := off - int(t.ByteOffsetToStartOfLine)
		if t.ColumnsForNonASCII != nil && c >= int(t.ByteOffsetToFirstNonASCII) {
			idx := c - int(t.ByteOffsetToFirstNonASCII)
			if idx >= len(t.ColumnsForNonASCII) {
				return fmt.Sprintf("offset %d: column table too short", off)
			}
			c = int(t.ColumnsForNonASCII[idx])
		}
		if tl != line || c != col {
			return fmt.Sprintf("offset %d: table says %d:%d, scan says %d:%d", off, tl, c, line, col)
		}
		return ""
	}
	for i < len(bs) {
		if bad := check(i); bad != "" {
			return bad
		}
		c, w := utf8.DecodeRune(bs[i:])
		switch {
		case c == '\r' && i+1 < len(bs) && bs[i+1] == '\n':
			col++
		case c == '\r' || c == '\n' || c == '\u2028' || c == '\u2029':
			line++
			col = 0
		case c > 0xFFFF:
			col += 2
		default:
			col++
		}
		i += w
	}
	return check(len(bs))
}

func nameOccursInSources(name string, files map[string]string) bool {
	re := regexp.MustCompile(`(^|[^A-Za-z0-9_$])` + regexp.QuoteMeta(name) + `($|[^A-Za-z0-9_$])`)
	for fname, text := range files {
		if fname == "lib.js" {
			continue // the intermediate bundle is not an original source
		}
		if re.MatchString(text) {
			return true
		}
	}
	return false
}

// fixed corpus: replay of the known finding (namespace import recorded under
// the generated exports-object name), run on every check
func glueKnownFindings(st *Stats) {
	dir, err := os.MkdirTemp("", "verif-c07-known-")
	if err != nil {
		panic(err)
	}
	defer os.RemoveAll(dir)
	files := map[string]string{
		"f0.js": "import * as LIB from \"./f2.js\";\nconsole.log(LIB);\nexport const mk1 = 9000001;\n",
		"f2.js": "export const mk40 = [\"mk41\", 9000043];\n",
	}
	for name, text := range files {
		if err := os.WriteFile(filepath.Join(dir, name), []byte(text), 0o644); err != nil {
			panic(err)
		}
	}
	res := api.Build(api.BuildOptions{AbsWorkingDir: dir, Outdir: filepath.Join(dir, "out"), Write: false, Format: api.FormatESModule,
		LogLevel: api.LogLevelSilent, Bundle: true, EntryPoints: []string{"f0.js"}, Sourcemap: api.SourceMapExternal, MinifyIdentifiers: true})
	st.Evaluations++
	st.Histogram["glue-known-replay"]++
	for _, f := range res.OutputFiles {
		if !strings.HasSuffix(f.Path, ".js.map") {
			continue
		}
		var sm smJSON
		if json.Unmarshal(f.Contents, &sm) != nil {
			continue
		}
		for _, nm := range sm.Names {
			if generatedSymbolRe.MatchString(nm) && !nameOccursInSources(nm, files) {
				reportedGeneratedName = true
				st.Fail("glue-name-of-generated-symbol", map[string]interface{}{"scenario": "generated-symbol-name-recorded", "options": "fixed corpus: `import * as LIB from './f2.js'; console.log(LIB)` bundled with minify-identifiers, external map"},
					map[string]interface{}{"name": nm}, "names[n] is the identifier at the original position")
				return
			}
		}
	}
	st.Histogram["known-finding-no-longer-reproduces:generated-symbol-name-recorded"]++
}

// ---------------------------------------------------------------------------
// generateSourceMapForChunk (the n-file joining loop)

var c07MockFS = fs.MockFS(map[string]string{}, fs.MockUnix, "/")

func jresCoq(ch sourcemap.Chunk, off sourcemap.LineColumnOffset, src uint32, null bool) string {
	es := ch.EndState
	return fmt.Sprintf("(%s,%s,%d,%s,%s,%d,%s,(%d,%d),%d,%s)", CBytes(ch.Buffer.Data), CZ(fnoOf(ch.Buffer.FirstNameOffset)), len(ch.QuotedNames),
		stateFields(es), CBool(es.HasOriginalName), ch.FinalGeneratedColumn, CBool(ch.ShouldIgnore), off.Lines, off.Columns, src, CBool(null))
}

// One case: a sequence of compiled files laid out the way generateChunkJS does
// (gap text, then the file's text; files whose chunk is empty become null
// entries), joined by the real generateSourceMapForChunk. The expectation is
// computed from the generated text alone: every mapping of a file, decoded from
// the file's own chunk, must reappear at (position of the file's text in the
// whole output) + (its position inside the file), with the "sources" index of
// the file (order of first appearance) and the names of the earlier files added.
func genJoinAllCase(r *Rng, st *Stats) (string, string) {
	nonASCII := r.Chance(40)
	k := r.Range(1, 6)
	nfiles := r.Range(1, 4)
	files := make([]linker.VerifFile, nfiles)
	data := make([]bundler.DataForSourceMap, nfiles)
	for i := range files {
		files[i] = linker.VerifFile{Namespace: "verif", KeyText: fmt.Sprintf("f%d.js", i), PrettyRel: fmt.Sprintf("f%d.js", i)}
		data[i] = bundler.DataForSourceMap{QuotedContents: [][]byte{[]byte("\"\"")}}
	}
	v := linker.VerifNewLinker(c07MockFS, "/out", "", "KEY", files, nil)
	var results []linker.VerifSourceMapResult
	var items []string
	var full []byte
	var prevOffset sourcemap.LineColumnOffset
	sourcesIndex := map[uint32]int{}
	totalNames := 0
	var expect []segAbs
	endOfPrev := 0 // byte offset in full where the previous mapped file's text ended
	for c := 0; c < k; c++ {
		gap := []string{"", "\n", "// x\n", "  ", "/* é */ ", "\n\n// 😀\n", ";", "\r\n"}[r.Intn(8)]
		if !nonASCII {
			gap = []string{"", "\n", "// x\n", "  ", "\r\n", "\n\n// y\n", ";", ""}[r.Intn(8)]
		}
		prevOffset.AdvanceString(gap)
		full = append(full, gap...)
		src := uint32(r.Intn(nfiles))
		if r.Chance(18) {
			// a file without mappings: only text, and a null entry after a mapped file
			text := []string{"var a;", "x();\n", "/* no map */", "\n"}[r.Intn(4)]
			full = append(full, text...)
			prevOffset.AdvanceString(text)
			if n := len(results); n > 0 && !results[n-1].IsNullEntry {
				results = append(results, linker.VerifSourceMapResult{SourceIndex: src, IsNullEntry: true})
				items = append(items, jresCoq(sourcemap.Chunk{}, sourcemap.LineColumnOffset{}, src, true))
				l0, c0 := lineColOf(full, endOfPrev)
				expect = append(expect, segAbs{gl: l0, gc: c0})
			}
			continue
		}
		bc := buildRandomChunk(r, nonASCII)
		if bc.chunk.ShouldIgnore || len(bc.chunk.Buffer.Data) == 0 {
			full = append(full, bc.text...)
			prevOffset.AdvanceBytes(bc.text)
			continue
		}
		startByte := len(full)
		full = append(full, bc.text...)
		results = append(results, linker.VerifSourceMapResult{Chunk: bc.chunk, Offset: prevOffset, SourceIndex: src})
		items = append(items, jresCoq(bc.chunk, prevOffset, src, false))
		prevOffset = sourcemap.LineColumnOffset{}
		endOfPrev = len(full)
		si, ok := sourcesIndex[src]
		if !ok {
			si = len(sourcesIndex)
			sourcesIndex[src] = si
		}
		dec, dok := decodeMappings(bc.chunk.Buffer.Data)
		if !dok {
			return "", ""
		}
		sl, sc := lineColOf(full, startByte)
		for _, a := range dec {
			b := a
			if a.gl == 0 {
				b.gc += sc
			}
			b.gl += sl
			b.s += si
			if a.hasName {
				b.n += totalNames
			}
			expect = append(expect, b)
		}
		totalNames += len(bc.chunk.QuotedNames)
	}
	if len(results) == 0 {
		return "", ""
	}
	pieces := v.GenerateSourceMapForChunk(results, "/out", data)
	joined := pieces.Mappings
	got, gok := decodeMappings(joined)
	input := map[string]interface{}{"scenario": "joinall", "joined": string(joined), "text": string(full), "results": items}
	if !gok || !sameAbs(got, expect) {
		st.Fail("joinall-positions", input, fmt.Sprint(got), fmt.Sprint(expect))
	}
	st.Note("joinall", string(joined)+fmt.Sprint(len(results)), len(results) > 1)
	item := fmt.Sprintf("([%s],%s)", strings.Join(items, ";"), CBytes(joined))
	var dl []string
	for _, a := range expect {
		dl = append(dl, a.coq())
	}
	nsrc := len(sourcesIndex)
	if nsrc == 0 {
		nsrc = 1
	}
	mapItem := fmt.Sprintf("(%s,%d,%d,%s)", CBytes(joined), nsrc, totalNames+1, "["+strings.Join(dl, ";")+"]")
	return item, mapItem
}

// ---------------------------------------------------------------------------
// ChunkBuilder with an input source map (composition)

func genBuilderInCase(r *Rng, st *Stats) string {
	text := randText(r)
	lines := strings.Count(text, "\n") + 1
	tables := sourcemap.GenerateLineOffsetTables(text, int32(lines))
	names := []string{"", "alpha", "beta", "gamma", "alpha2"}
	// a random input map, sorted by generated position, over the lines of text
	var ms []sourcemap.Mapping
	gl, gc := 0, 0
	for q := r.Intn(14); q > 0; q-- {
		if r.Chance(30) {
			gl += r.Range(1, 2)
			gc = 0
		}
		gc += r.Intn(5)
		m := sourcemap.Mapping{GeneratedLine: int32(gl), GeneratedColumn: int32(gc), SourceIndex: int32(r.Intn(3)), OriginalLine: int32(r.Intn(30)), OriginalColumn: int32(r.Intn(30))}
		ms = append(ms, m)
	}
	var inNames []string
	var inNameIDs []int64
	for q := r.Intn(4); q > 0; q-- {
		id := r.Intn(len(names))
		inNames = append(inNames, names[id])
		inNameIDs = append(inNameIDs, int64(id))
	}
	for i := range ms {
		if len(inNames) > 0 && r.Chance(40) {
			ms[i].OriginalName = ast.MakeIndex32(uint32(r.Intn(len(inNames))))
		}
	}
	sm := &sourcemap.SourceMap{Mappings: ms, Names: inNames}
	b := sourcemap.MakeChunkBuilder(sm, tables, false)
	var locs []int
	for off := range text {
		locs = append(locs, off)
	}
	locs = append(locs, len(text))
	var out, pending []byte
	var evs []string
	nev := r.Range(0, 10)
	prevLoc := -1
	type rec struct{ line, col int }
	for e := 0; e < nev; e++ {
		delta := []byte(randOutputChunk(r))
		if e == 0 && r.Chance(50) {
			delta = nil
		}
		out = append(out, delta...)
		pending = append(pending, delta...)
		loc := locs[r.Intn(len(locs))]
		if r.Chance(15) && prevLoc >= 0 {
			loc = prevLoc
		}
		prevLoc = loc
		nameID := 0
		if r.Chance(45) {
			nameID = r.Range(1, len(names)-1)
		}
		b.AddSourceMapping(logger.Loc{Start: int32(loc)}, names[nameID], out)
		evs = append(evs, fmt.Sprintf("(%d,%d,%s)", loc, nameID, CBytes(pending)))
		pending = nil
	}
	fin := []byte(randOutputChunk(r))
	out = append(out, fin...)
	ch := b.GenerateChunk(out)
	var nameIDs []int64
	for _, q := range ch.QuotedNames {
		for id, nm := range names {
			if string(q) == "\""+nm+"\"" {
				nameIDs = append(nameIDs, int64(id))
			}
		}
	}
	// the property's predicate on the real code: every emitted mapping's original
	// position is the target of some input mapping (composition never invents a position)
	if dec, ok := decodeMappings(ch.Buffer.Data); ok {
		for _, a := range dec {
			found := false
			for _, m := range ms {
				if a.hasSrc && int(m.SourceIndex) == a.s && int(m.OriginalLine) == a.ol && int(m.OriginalColumn) == a.c {
					found = true
				}
			}
			if !found {
				st.Fail("builder-input-map-invented-position", map[string]interface{}{"scenario": "builder-in", "text": text, "events": evs}, fmt.Sprint(a), "an original position of the input map")
			}
		}
	} else if len(ch.Buffer.Data) > 0 {
		st.Fail("builder-input-map-undecodable", map[string]interface{}{"scenario": "builder-in", "text": text, "events": evs}, string(ch.Buffer.Data), "a v3 mappings string")
	}
	var ml []string
	for _, m := range ms {
		ml = append(ml, mappingCoq(m))
	}
	es := ch.EndState
	st.Note("builder-in", text+strings.Join(evs, "")+fmt.Sprint(ms), nev > 1 && len(ms) > 1)
	return fmt.Sprintf("(%s,[%s],%s,[%s],%s,%s,%s,%s,%s,%s,%d,%s)", CBytes([]byte(text)), strings.Join(ml, ";"), CZList(inNameIDs), strings.Join(evs, ";"), CBytes(fin),
		CBytes(ch.Buffer.Data), CZ(fnoOf(ch.Buffer.FirstNameOffset)), CZList(nameIDs), stateFields(es), CBool(es.HasOriginalName), ch.FinalGeneratedColumn, CBool(ch.ShouldIgnore))
}

// ---------------------------------------------------------------------------
// Directed probes for the "clean cut" hypothesis of builder_spec_on_concatenated_output:
// the printers call AddSourceMapping with the whole buffer and the builder
// measures only the new suffix, so a mapping recorded right after a printed CR
// whose LF comes next (or inside a UTF-8 sequence) would count one line break
// too many for everything that follows. Inputs put CR / CRLF / U+2028 /
// non-ASCII text into every construct the printers copy verbatim (comments of
// all kinds, template literals, line continuations, hashbang, JSX text, CSS
// comments and strings) followed by marker identifiers; every mapping whose
// original position is a marker must land on the same marker in the output.

var cutMarkerRe = regexp.MustCompile(`^\.?mk[0-9]+`)

func cutProbes(st *Stats) {
	type probe struct {
		name   string
		loader api.Loader
		src    string
	}
	probes := []probe{
		{"js-block-comment-crlf", api.LoaderJS, "/*! a\r\nb */ mk1;\r\nmk2(mk3);"},
		{"js-block-comment-lone-cr", api.LoaderJS, "/*! legal\rcomment\r*/\rmk1(mk2);\rmk3;"},
		{"js-comment-ends-with-cr-before-star", api.LoaderJS, "mk1(/* c\r*/ mk2, /* d\r\n*/ mk3);\nmk4;"},
		{"js-template-crlf", api.LoaderJS, "mk1(`x\r\ny\r${mk2}\r\n`, mk3);\r\nmk4;"},
		{"js-tagged-template-cr", api.LoaderJS, "mk1`a\rb\r\n${mk2}\r`;\nmk3;"},
		{"js-hashbang-crlf", api.LoaderJS, "#!/usr/bin/env node\r\nmk1;mk2;\r\nmk3;"},
		{"js-line-comment-crlf", api.LoaderJS, "//! legal\r\nmk1;\r\n//! again\rmk2;"},
		{"js-line-continuation", api.LoaderJS, "mk1('a\\\r\nb', mk2);\r\nmk3('c\\\rd');mk4;"},
		{"js-import-comment", api.LoaderJS, "import(/* webpackChunkName: 'x'\r */ './a' /* t\r\n */).then(mk1);\nmk2;"},
		{"js-u2028", api.LoaderJS, "/*! a b */ mk1(`q ${mk2} `); mk3;"},
		{"js-nonascii", api.LoaderJS, "/*! é😀 */ mk1('é😀', mk2);\r\n/* ü */ mk3(`😀${mk4}é`);"},
		{"jsx-text-crlf", api.LoaderJSX, "mk1 = <div a=\"x\r\ny\">\r\n  text\r\n  {mk2}\r\n</div>;\r\nmk3;"},
		{"ts-comment-crlf", api.LoaderTS, "/*! t\r\n*/\r\nlet mk1: number = mk2 as /* c\r */ any;\r\nmk3;"},
		{"css-comment-crlf", api.LoaderCSS, "/*! legal\r\ncomment\r*/\r\n.mk1 { color: red }\r\n.mk2::after { content: 'a\\\r\nb' }\r.mk3 { background: url( 'x' ) }"},
		{"css-nonascii", api.LoaderCSS, "/*! é😀 */ .mk1 { content: 'é😀' } .mk2 { color: blue }\r\n@media (min-width: 1px) {\r\n .mk3 { color: red }\r\n}"},
	}
	for _, pr := range probes {
		for variant := 0; variant < 4; variant++ {
			opts := api.TransformOptions{Loader: pr.loader, Sourcemap: api.SourceMapExternal, Sourcefile: "in.src", LogLevel: api.LogLevelSilent,
				MinifyWhitespace: variant&1 != 0, LegalComments: api.LegalCommentsInline}
			if variant&2 != 0 {
				opts.LegalComments = api.LegalCommentsEndOfFile
				opts.Charset = api.CharsetUTF8
			}
			res := api.Transform(pr.src, opts)
			input := map[string]interface{}{"scenario": "cut-probe-" + pr.name, "source": pr.src, "variant": variant}
			if len(res.Errors) > 0 {
				st.Fail("cut-probe-error", input, res.Errors[0].Text, "no error")
				continue
			}
			var sm smJSON
			if err := json.Unmarshal(res.Map, &sm); err != nil {
				st.Fail("cut-probe-map-json", input, string(res.Map), "JSON")
				continue
			}
			segs, ok := decodeMappings([]byte(sm.Mappings))
			if !ok {
				st.Fail("cut-probe-undecodable", input, sm.Mappings, "decodable")
				continue
			}
			verified := 0
			for si, a := range segs {
				if !a.hasSrc {
					continue
				}
				if a.gc == 0 && si > 0 && segs[si-1].hasSrc && segs[si-1].ol == a.ol && segs[si-1].c == a.c && !a.hasName {
					continue // a column-0 cover copy of the previous mapping
				}
				oo := offsetOfLineCol([]byte(pr.src), a.ol, a.c)
				mk := cutMarkerRe.FindString(pr.src[oo:])
				if mk == "" {
					continue
				}
				ol2, oc2 := lineColOf([]byte(pr.src), oo)
				if ol2 != a.ol || oc2 != a.c {
					continue // the original position is past the end of its line: not a marker start
				}
				gl, gcol := lineColOf(res.Code, offsetOfLineCol(res.Code, a.gl, a.gc))
				g := offsetOfLineCol(res.Code, a.gl, a.gc)
				rest := string(res.Code[g:])
				if pr.loader == api.LoaderCSS {
					// css_printer deliberately maps the indentation in front of a nested rule to the rule
					rest = strings.TrimLeft(rest, " \t")
				}
				if gl != a.gl || gcol != a.gc || !strings.HasPrefix(rest, mk) {
					st.Fail("cut-probe-position", input, fmt.Sprintf("mapping (%d,%d)->(%d,%d) lands on %q", a.gl, a.gc, a.ol, a.c, clip(string(res.Code[g:]))), "the marker "+mk)
				}
				verified++
			}
			st.Note("cut-probe", pr.name+fmt.Sprint(variant), verified > 0)
			st.Histogram["cut-probe-markers-verified"] += verified
			if verified == 0 {
				st.Fail("cut-probe-vacuous", input, string(res.Code), "at least one marker mapping")
			}
		}
	}
}

// ---------------------------------------------------------------------------
// js_parser.ParseSourceMap: decoded mappings and their order

func genParseMapCase(r *Rng, st *Stats) string {
	type sec struct {
		lo, co, sl, nl int
		raw            string
	}
	nsec := 1
	if r.Chance(30) {
		nsec = 2 + r.Intn(2)
	}
	var secs []sec
	prevEndLine, prevEndCol := 0, 0
	for k := 0; k < nsec; k++ {
		s := sec{sl: 1 + r.Intn(3), nl: r.Intn(3)}
		if nsec > 1 || r.Chance(15) {
			s.lo, s.co = r.Intn(3)+k, r.Intn(6)
			if r.Chance(15) {
				s.lo = r.Intn(2) // may start before the previous section ended
			}
			if k > 0 && r.Chance(30) {
				// on the line where the previous section ended, at or before / after its last column
				s.lo, s.co = prevEndLine, r.Intn(prevEndCol+3)
			}
		}
		// mostly well-formed mappings; sometimes negative column deltas, repeated
		// positions, one-field segments, out-of-range indices, junk
		var b []byte
		nseg := r.Range(1, 9)
		gcol, si, ol, oc, on := s.co, 0, 0, 0, 0
		firstLine := true
		for q := 0; q < nseg; q++ {
			if q > 0 {
				if r.Chance(30) {
					b = append(b, ';')
					gcol, firstLine = 0, false
				} else {
					b = append(b, ',')
				}
			}
			d := r.Intn(5)
			if r.Chance(15) {
				d = -r.Intn(gcol + 1) // a negative delta that keeps the column valid: needSort
				if firstLine && gcol+d < s.co {
					d = 0
				}
			}
			if r.Chance(10) {
				d = 0 // repeated generated position
			}
			if r.Chance(2) {
				d = -gcol - 1 - r.Intn(2) // invalid: negative column
			}
			gcol += d
			b = sourcemap.VerifEncodeVLQ(b, d)
			if r.Chance(10) {
				continue // one-field segment
			}
			pick := func(cur, hi int) int { // a delta that lands in [0, hi), sometimes outside
				if r.Chance(2) {
					return r.Intn(2*hi+3) - hi - 1 - cur
				}
				return r.Intn(hi) - cur
			}
			d1 := pick(si, s.sl)
			si += d1
			d2 := pick(ol, 6)
			ol += d2
			d3 := pick(oc, 9)
			oc += d3
			b = sourcemap.VerifEncodeVLQ(b, d1)
			b = sourcemap.VerifEncodeVLQ(b, d2)
			b = sourcemap.VerifEncodeVLQ(b, d3)
			if s.nl > 0 && r.Chance(40) {
				d4 := pick(on, s.nl)
				on += d4
				b = sourcemap.VerifEncodeVLQ(b, d4)
			}
		}
		if r.Chance(4) {
			b = append(b, "!~ é"[r.Intn(4)])
		}
		s.raw = string(b)
		prevEndLine, prevEndCol = s.lo+strings.Count(s.raw, ";"), gcol
		secs = append(secs, s)
	}
	mapJSON := func(s sec) string {
		var src, nm []string
		for i := 0; i < s.sl; i++ {
			src = append(src, fmt.Sprintf("\"s%d.js\"", i))
		}
		for i := 0; i < s.nl; i++ {
			nm = append(nm, fmt.Sprintf("\"n%d\"", i))
		}
		q, _ := json.Marshal(s.raw)
		return fmt.Sprintf(`{"version":3,"sources":[%s],"names":[%s],"mappings":%s}`, strings.Join(src, ","), strings.Join(nm, ","), q)
	}
	var doc string
	if len(secs) == 1 && secs[0].lo == 0 && secs[0].co == 0 {
		doc = mapJSON(secs[0])
	} else {
		var parts []string
		for _, s := range secs {
			parts = append(parts, fmt.Sprintf(`{"offset":{"line":%d,"column":%d},"map":%s}`, s.lo, s.co, mapJSON(s)))
		}
		doc = `{"version":3,"sections":[` + strings.Join(parts, ",") + `]}`
	}
	log := logger.NewDeferLog(logger.DeferLogAll, nil)
	sm := js_parser.ParseSourceMap(log, logger.Source{KeyPath: logger.Path{Text: "<map>"}, Contents: doc})
	for _, m := range log.Done() {
		if m.Kind == logger.Error {
			return "" // JSON-level error: not the mappings loop
		}
	}
	kind, ns, nn := 0, 0, 0
	var mapItems []string
	if sm != nil {
		kind, ns, nn = 1, len(sm.Sources), len(sm.Names)
		for i, m := range sm.Mappings {
			name := int64(-1)
			if m.OriginalName.IsValid() {
				name = int64(m.OriginalName.GetIndex())
			}
			mapItems = append(mapItems, fmt.Sprintf("(%d,%d,%d,%d,%d,%s)", m.GeneratedLine, m.GeneratedColumn, m.SourceIndex, m.OriginalLine, m.OriginalColumn, CZ(name)))
			input := map[string]interface{}{"scenario": "parse-source-map", "doc": doc}
			// what SourceMap.Find and ChunkBuilder.appendMapping rely on
			if i > 0 {
				p := sm.Mappings[i-1]
				if p.GeneratedLine > m.GeneratedLine || (p.GeneratedLine == m.GeneratedLine && p.GeneratedColumn > m.GeneratedColumn) {
					st.Fail("parsed-map-unsorted", input, fmt.Sprint(sm.Mappings), "mappings sorted by generated position")
				}
			}
			if int(m.SourceIndex) < 0 || int(m.SourceIndex) >= ns || (name >= 0 && int(name) >= nn) {
				st.Fail("parsed-map-index-out-of-range", input, fmt.Sprintf("%+v sources=%d names=%d", m, ns, nn), "source < len(Sources), name < len(Names)")
			}
		}
	}
	var secItems []string
	for _, s := range secs {
		var units []int64
		for _, c := range s.raw { // JSON string -> UTF-16 units (all BMP here)
			units = append(units, int64(c))
		}
		secItems = append(secItems, fmt.Sprintf("(%d,%d,%d,%d,%s)", s.lo, s.co, s.sl, s.nl, CZList(units)))
	}
	st.Note("parsemap", doc, sm != nil && len(sm.Mappings) > 1)
	return fmt.Sprintf("([%s],%d,%d,%d,[%s])", strings.Join(secItems, ";"), kind, ns, nn, strings.Join(mapItems, ";"))
}

// ---------------------------------------------------------------------------
// The text of the emitted map (SmJson.v): byte-exact re-rendering of real .map
// outputs from their decoded fields.

var smTextItems []string

func coqOptBytes(p *string) string {
	if p == nil {
		return "None"
	}
	return "(Some " + CBytes([]byte(*p)) + ")"
}

func recordSmText(ascii bool, sm smJSON, mapBytes []byte, limit int, origContents ...string) {
	if len(smTextItems) >= limit || len(mapBytes) > 3000 {
		return
	}
	var srcs, names, contents []string
	for _, s := range sm.Sources {
		srcs = append(srcs, CBytes([]byte(s)))
	}
	for _, s := range sm.Names {
		names = append(names, CBytes([]byte(s)))
	}
	cs := "None"
	if sm.SourcesContent != nil {
		for i, c := range sm.SourcesContent {
			if c == nil {
				return // a null entry (nested map without content): outside the model
			}
			text := *c
			if i < len(origContents) {
				text = origContents[i] // the file's own bytes (an invalid byte cannot be recovered from the JSON)
			}
			contents = append(contents, CBytes([]byte(text)))
		}
		cs = "(Some [" + strings.Join(contents, ";") + "])"
	}
	smTextItems = append(smTextItems, fmt.Sprintf("(%s,[%s],%s,%s,%s,[%s],%s)", CBool(ascii), strings.Join(srcs, ";"), coqOptBytes(sm.SourceRoot), cs,
		CBytes([]byte(sm.Mappings)), strings.Join(names, ";"), CBytes(mapBytes)))
}

// Directed builds whose sources, contents, names and source root need every
// branch of QuoteForJSON (controls, quotes, backslashes, U+2028, astral
// characters, U+FEFF, invalid UTF-8 bytes, lone continuation bytes); the
// property's last clause is evaluated on them: sourcesContent[i] is the file's
// text (an invalid byte reads back as U+FFFD, which is all JSON can say).
func smTextProbes(st *Stats) {
	dir, err := os.MkdirTemp("", "verif-c07-smtext-")
	if err != nil {
		panic(err)
	}
	defer os.RemoveAll(dir)
	type probe struct {
		name, src, root string
		exclude         bool
		charset         api.Charset
		minify          bool
	}
	weird := "// \"q\" \\ \t \x01 \x7f é 😀   \uFEFF \x80\xff \xe2\x82 end\nexport let mk1 = \"é😀\", mk2 = `a\\b`;\nconsole.log(mk1, mk2)\n"
	probes := []probe{
		{"weird é.js", weird, "", false, api.CharsetDefault, false},
		{"weird2.js", weird, "https://x/\"r\"\\é", false, api.CharsetUTF8, false},
		{"w3 \"q\".js", weird, "", true, api.CharsetDefault, true},
		{"crlf.js", "export function mk1(mk2) {\r\n  return mk2 + 1\r\n}\r\n", "r", false, api.CharsetUTF8, true},
		{"empty.js", "export {}\n", "", false, api.CharsetDefault, false},
	}
	before := len(smTextItems)
	for _, pr := range probes {
		if err := os.WriteFile(filepath.Join(dir, pr.name), []byte(pr.src), 0o644); err != nil {
			panic(err)
		}
		opts := api.BuildOptions{AbsWorkingDir: dir, EntryPoints: []string{pr.name}, Outdir: filepath.Join(dir, "out"), Write: false, Bundle: true,
			Format: api.FormatESModule, Sourcemap: api.SourceMapExternal, SourceRoot: pr.root, Charset: pr.charset, MinifyIdentifiers: pr.minify, LogLevel: api.LogLevelSilent}
		if pr.exclude {
			opts.SourcesContent = api.SourcesContentExclude
		}
		res := api.Build(opts)
		input := map[string]interface{}{"scenario": "smtext-probe", "file": pr.name, "source": pr.src}
		if len(res.Errors) > 0 {
			st.Fail("smtext-probe-error", input, res.Errors[0].Text, "no error")
			continue
		}
		for _, f := range res.OutputFiles {
			if !strings.HasSuffix(f.Path, ".map") {
				continue
			}
			var sm smJSON
			if err := json.Unmarshal(f.Contents, &sm); err != nil || sm.Version != 3 {
				st.Fail("smtext-not-json", input, string(f.Contents), "a version 3 JSON object")
				continue
			}
			if pr.exclude != (sm.SourcesContent == nil) {
				st.Fail("smtext-sources-content-presence", input, sm.SourcesContent, pr.exclude)
			}
			if !pr.exclude {
				want := string([]rune(pr.src)) // every invalid byte is one U+FFFD
				if len(sm.SourcesContent) != len(sm.Sources) || len(sm.Sources) > 1 || (len(sm.Sources) == 1 && (sm.SourcesContent[0] == nil || *sm.SourcesContent[0] != want)) {
					st.Fail("smtext-sources-content-not-file-text", input, sm.SourcesContent, want)
				}
			}
			if (pr.root == "") != (sm.SourceRoot == nil) || (sm.SourceRoot != nil && *sm.SourceRoot != pr.root) {
				st.Fail("smtext-source-root", input, sm.SourceRoot, pr.root)
			}
			recordSmText(pr.charset != api.CharsetUTF8, sm, f.Contents, before+len(probes)+10, pr.src)
			st.Note("smtext-probe", pr.name, true)
		}
	}
}
