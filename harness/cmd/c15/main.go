package main

// C15: renaming. Correspondence cases for internal/renamer + ast.NameMinifier
// and the glue stream through api.Transform / api.Build with a Node oracle.

import (
	"fmt"
	"os"
	"path/filepath"
	"strings"

	"github.com/evanw/esbuild/internal/ast"
	. "github.com/evanw/esbuild/verifharness/hlib"
)

func main() { Main("c15", runC15) }

// a name as a Coq term: (nm "...") with the string-literal escaping of Coq
func cname(s string) string { return "(nm \"" + strings.ReplaceAll(s, "\"", "\"\"") + "\")" }

// Case lists are collected first; world symbol tables are emitted once each
// as preamble definitions (Coq spends its time parsing, not evaluating).
type caseList struct {
	name, typ, checker string
	items              []string
}

type caseSink struct {
	preamble strings.Builder
	lists    []*caseList
}

func (s *caseSink) add(name, typ, checker string, items []string) {
	s.lists = append(s.lists, &caseList{name, typ, checker, items})
}

func runC15(seed uint64, n int, tier string, outDir string) []*Stats {
	r := NewRng(seed)
	st := NewStats("c15", seed)
	sink := &caseSink{}

	genMinNames(r, n, st, sink)
	genRenamerCases(r, n, st, sink)
	genExportCases(r, n, st, sink)
	genScopeBuildCases(NewRng(seed*40503+17), n, st, sink)
	// the glue stream has its own generator state, far away from the correspondence one
	runGlue(NewRng(seed*2654435761+99991), n, tier, st)

	cf := NewCoqFile("From Coq Require Import String.\nFrom V Require Import Common.Base C15.Names C15.Renamer C15.Spec C15.ScopeBuild C15.ScopeProg C15.Harness.\n" + sink.preamble.String())
	for _, l := range sink.lists {
		cf.AddCases(l.name, l.typ, l.checker, l.items)
	}
	st.Finish("seeded generator (splitmix64 from VERIF_SEED): random multi-file scope forests (hoisted members on ancestor runs, generated symbols, labels, private names, pinned symbols, direct-eval chains, links, colliding name pool a b e t x2 x3 ...) run through the real renamers; NumberToMinifiedName on boundary grid and shuffled alphabets; ExportRenamer sequences; api.Transform/api.Build programs executed in Node before and after. distinct_nontrivial = distinct (family,input) pairs with more than a trivial tree")
	if err := os.WriteFile(filepath.Join(outDir, "c15_cases.v"), []byte(cf.String()), 0o644); err != nil {
		panic(err)
	}
	return []*Stats{st}
}

// ---- NumberToMinifiedName / ShuffleByCharFreq
func genMinNames(r *Rng, n int, st *Stats, cf *caseSink) {
	var items []string
	grid := []int{0, 1, 25, 26, 51, 52, 53, 54, 55, 107, 108, 54 + 54*64 - 1, 54 + 54*64, 54 + 54*64 + 1, 54 + 54*64 + 54*64*64 - 1, 54 + 54*64 + 54*64*64, 1 << 31, 1<<53 + 7}
	ncases := n / 10
	if ncases < 10 {
		ncases = 10
	}
	for c := 0; c < ncases; c++ {
		m := ast.DefaultNameMinifierJS
		freqS := "[]"
		if c > 0 {
			var freq ast.CharFreq
			var fl []int64
			for i := range freq {
				switch r.Intn(4) {
				case 0:
					freq[i] = 0
				case 1:
					freq[i] = int32(r.Intn(5))
				case 2:
					freq[i] = int32(r.Intn(200)) - 50
				default:
					freq[i] = int32(r.Intn(100000))
				}
				fl = append(fl, int64(freq[i]))
			}
			m = m.ShuffleByCharFreq(freq)
			freqS = CZList(fl)
		}
		var l []string
		seen := map[string]int{}
		idx := append([]int{}, grid...)
		for k := 0; k < 25; k++ {
			switch r.Intn(3) {
			case 0:
				idx = append(idx, r.Intn(200))
			case 1:
				idx = append(idx, r.Intn(300000))
			default:
				idx = append(idx, int(r.U64()%(1<<40)))
			}
		}
		for _, i := range idx {
			nm := m.NumberToMinifiedName(i)
			if j, ok := seen[nm]; ok && j != i {
				st.Fail("minified-name-collision", map[string]interface{}{"freq": freqS, "i": i, "j": j}, nm, "distinct names for distinct numbers")
			}
			seen[nm] = i
			l = append(l, fmt.Sprintf("(%d,%s)", i, cname(nm)))
			st.Note("minname", freqS+fmt.Sprint(i), i >= 54)
		}
		items = append(items, fmt.Sprintf("(%s,[%s])", freqS, strings.Join(l, ";")))
	}
	cf.add("minname_cases", "list Z * list (Z * name)", "check_minname", items)
}
