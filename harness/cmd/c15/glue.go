package main

// Glue stream of C15: generated programs go through the public API
// (api.Transform for classic scripts, api.Build for module graphs) and the
// property's predicate is evaluated by executing input and output in Node:
// every probed reference must read the same declaration, free globals must
// still be the globals, eval/with code must still find its names, top-level
// names of unwrapped scripts and export names must be unchanged, and a
// mangled property must be consistent with the returned mangle cache.

import (
	"encoding/json"
	"fmt"
	"os"
	"os/exec"
	"path/filepath"
	"sort"
	"strings"

	"github.com/evanw/esbuild/pkg/api"
	. "github.com/evanw/esbuild/verifharness/hlib"
)

type scriptCase struct {
	kind     string
	src      string
	opts     api.TransformOptions
	optDesc  string
	top      []string
	scenario string
}

func epilogue(top []string) string {
	var sb strings.Builder
	seen := map[string]bool{}
	for _, n := range top {
		if seen[n] {
			continue
		}
		seen[n] = true
		fmt.Fprintf(&sb, "$q(\"top:%s\", () => $v(%s));\n", n, n)
	}
	return sb.String()
}

func genScriptCase(r *Rng, feat map[string]int) scriptCase {
	g := &jsgen{r: r, features: feat}
	g.noEval = r.Chance(65)
	sc := scriptCase{kind: "script"}
	opts := api.TransformOptions{Loader: api.LoaderJS, LogLevel: api.LogLevelSilent}
	var desc []string
	if r.Chance(65) {
		opts.MinifyIdentifiers = true
		desc = append(desc, "minify-identifiers")
	}
	switch r.Intn(4) {
	case 0:
		opts.Format = api.FormatIIFE
		desc = append(desc, "format=iife")
	case 1:
		opts.Format = api.FormatIIFE
		opts.GlobalName = r.Pick([]string{"lib", "myLib"})
		desc = append(desc, "format=iife global-name="+opts.GlobalName)
	}
	if r.Chance(20) {
		opts.KeepNames = true
		desc = append(desc, "keep-names")
	}
	if r.Chance(20) {
		g.jsx = true
		opts.Loader = api.LoaderJSX
		opts.JSX = api.JSXPreserve
		desc = append(desc, "jsx=preserve")
	}
	if r.Chance(20) {
		g.props = true
		opts.MangleProps = "_$"
		desc = append(desc, "mangle-props=_$")
		if r.Bool() {
			opts.MangleQuoted = api.MangleQuotedTrue
			desc = append(desc, "mangle-quoted")
		}
		if r.Bool() {
			opts.MangleCache = map[string]interface{}{"foo_": "zz", "baz_": false}
			desc = append(desc, "mangle-cache={foo_:zz,baz_:false}")
		}
		if r.Chance(30) {
			opts.ReserveProps = "^x2_$"
			desc = append(desc, "reserve-props=^x2_$")
		}
	}
	// (minify-syntax is not part of this property's configuration space; one interaction found
	// with it is replayed from the fixed corpus)
	r.Chance(15)
	// `with` and sloppy function-in-block are exercised in separate programs, and `with` never
	// together with keep-names (their interactions are recorded findings, replayed from the corpus)
	g.noWith = r.Bool() || opts.KeepNames // (inside with, only names that do not pin a nested symbol are referenced: recorded findings)
	g.noFnInBlock = !g.noWith             // a sloppy block function referenced inside with: recorded finding (residue of 6412f3d)
	g.evalSibs = r.Chance(30)
	g.annexSibs = r.Chance(30)
	sc.src, sc.top = g.script(r.Range(3, 7))
	sc.opts = opts
	sc.optDesc = strings.Join(desc, " ")
	return sc
}

// the fixed corpus: inputs of findings (fixed or known), replayed on every run
func fixedScriptCorpus() []scriptCase {
	jsxOpts := api.TransformOptions{Loader: api.LoaderJSX, JSX: api.JSXPreserve, MinifyIdentifiers: true, LogLevel: api.LogLevelSilent}
	return []scriptCase{
		{kind: "script", scenario: "jsx-capital-skips-reserved",
			src:  progPrelude + globalsPrelude() + "function f(g) { let Comp = g(); return <Comp x={C}/> }\n$p(\"r\", f(() => \"dComp\"));\n",
			opts: jsxOpts, optDesc: "minify-identifiers jsx=preserve"},
		{kind: "script", scenario: "jsx-capital-skips-reserved-all-capitals",
			src: progPrelude + globalsPrelude() + "$g.$r = function (f) { try { return String(f()); } catch (e) { return \"!\"; } };\n" +
				"function f(g) { let Comp = g(); return <Comp x={[" + jsxCandidates() + "].join()}/> }\n" +
				"$p(\"r\", f(() => \"dComp\"));\n",
			opts: jsxOpts, optDesc: "minify-identifiers jsx=preserve"},
		{kind: "script", scenario: "regression-sibling-direct-eval-pinned-names-reserved",
			src:  progPrelude + globalsPrelude() + "function first(code) { return eval(code); }\nfunction second(" + allLetters(", ") + ") {\n  function helper(valueArg, extraArg) { return [valueArg, extraArg, " + allLetters(", ") + "].join(); }\n  return eval(\"helper(1,2)\");\n}\n$p(\"r\", first(\"1\"), second(" + allLetters(", ", true) + "));\n",
			opts: api.TransformOptions{Loader: api.LoaderJS, MinifyIdentifiers: true, LogLevel: api.LogLevelSilent}, optDesc: "minify-identifiers"},
		{kind: "script", scenario: "regression-annexb-function-in-block-shadows-parameter",
			src:  progPrelude + globalsPrelude() + "function fn1(t) { { function t() {} } return typeof t }\n$p(\"r\", fn1(\"s\"));\n",
			opts: api.TransformOptions{Loader: api.LoaderJS, LogLevel: api.LogLevelSilent}, optDesc: "(defaults)"},
		{kind: "script", scenario: "annexb-function-in-block-overwrites-catch-parameter",
			src:  progPrelude + globalsPrelude() + "try { throw \"p\"; } catch (y) { { function y() {} } $p(\"r\", typeof y); }\n",
			opts: api.TransformOptions{Loader: api.LoaderJS, LogLevel: api.LogLevelSilent}, optDesc: "(defaults)"},
		{kind: "script", scenario: "regression-function-in-block-referenced-in-with-declared-twice",
			src:  progPrelude + globalsPrelude() + "{\n  function r1() {}\n  with ({}) { $p(\"r\", typeof r1); }\n}\n",
			opts: api.TransformOptions{Loader: api.LoaderJS, LogLevel: api.LogLevelSilent}, optDesc: "(defaults)"},
		{kind: "script", scenario: "function-in-block-inside-with-redeclares-lexical",
			src:  progPrelude + globalsPrelude() + "class y1 {}\nwith ({}) { { function y1() {} } }\n$p(\"r\", typeof y1);\n",
			opts: api.TransformOptions{Loader: api.LoaderJS, LogLevel: api.LogLevelSilent}, optDesc: "(defaults)"},
		{kind: "script", scenario: "regression-strict-class-method-block-function-hoisted-as-sloppy",
			src:  progPrelude + globalsPrelude() + "class x1 { m() { { function t1() {} } return typeof t1; } }\n$p(\"r\", new x1().m());\n",
			opts: api.TransformOptions{Loader: api.LoaderJS, LogLevel: api.LogLevelSilent}, optDesc: "(defaults)"},
		{kind: "script", scenario: "regression-with-pinned-nested-name-captured-by-minified-name",
			src:  progPrelude + globalsPrelude() + "(function y() {\n  with ({}) { y; }\n  try { throw 1; } catch (x3) { $p(\"r\", typeof y, \"yyyyyyyyyyyyyyyyyyyyyyyyyyyyyyyyyyyyyyyyyyyyyyyyyyyyyyyyyyyyyyyyyyyyyyyyyyyyyyyyyyyyyyyyyyyyyyyyyyyyyyyyyyyyyyyy\"); }\n})();\n",
			opts: api.TransformOptions{Loader: api.LoaderJS, MinifyIdentifiers: true, LogLevel: api.LogLevelSilent}, optDesc: "minify-identifiers"},
		{kind: "script", scenario: "regression-with-pinned-nested-name-captured-by-numbered-name",
			src:  progPrelude + globalsPrelude() + "(function f1() {\n  var e2 = \"outer\";\n  with ({}) {\n    (function (e) { $p(\"r\", e2, typeof e); })(\"param\");\n  }\n})();\n",
			opts: api.TransformOptions{Loader: api.LoaderJS, Format: api.FormatIIFE, LogLevel: api.LogLevelSilent}, optDesc: "format=iife"},
		{kind: "script", scenario: "regression-var-in-with-merged-with-parameter-is-renamed",
			src:  progPrelude + globalsPrelude() + "(function (x2) { with ({ x2: 1 }) { var x2 = 2; } $p(\"r\", x2); })(\"p\");\n",
			opts: api.TransformOptions{Loader: api.LoaderJS, LogLevel: api.LogLevelSilent}, optDesc: "(defaults)"},
		{kind: "script", scenario: "regression-minify-syntax-drops-var-after-hoisted-block-function",
			src:  progPrelude + globalsPrelude() + "{ function x1() {} }\n{ { var x1 = \"d18\"; } }\n$p(\"r\", typeof x1);\n",
			opts: api.TransformOptions{Loader: api.LoaderJS, MinifySyntax: true, Format: api.FormatIIFE, LogLevel: api.LogLevelSilent}, optDesc: "minify-syntax format=iife"},
		{kind: "script", scenario: "annexb-block-function-over-parameter-redeclared-by-var",
			src:  progPrelude + globalsPrelude() + "$p(\"r\", (function (a1) { { function a1() {} } var a1; return typeof a1; })(\"p\"));\n",
			opts: api.TransformOptions{Loader: api.LoaderJS, LogLevel: api.LogLevelSilent}, optDesc: "(defaults)"},
		{kind: "script", scenario: "block-function-kept-for-with-but-hoisted-var-renamed",
			src:  progPrelude + globalsPrelude() + "{ function y1() {} with ({}) { y1; } }\n$p(\"r\", typeof y1);\nvar y1 = 1;\n",
			opts: api.TransformOptions{Loader: api.LoaderJS, MinifyIdentifiers: true, Format: api.FormatIIFE, LogLevel: api.LogLevelSilent}, optDesc: "minify-identifiers format=iife"},
		{kind: "script", scenario: "var-in-with-pin-lost-on-double-merge",
			src:  progPrelude + globalsPrelude() + "$g.$o2 = { v1: 1 };\n(function () {\n  for (let x1 = 0; x1 < 1; x1++) { with ($o2) { var v1 = 2; } var v1; }\n  var v1;\n  $p(\"r\", v1, $o2.v1);\n})();\n",
			opts: api.TransformOptions{Loader: api.LoaderJS, MinifyIdentifiers: true, LogLevel: api.LogLevelSilent}, optDesc: "minify-identifiers"},
		{kind: "script", scenario: "jsx-capital-lost-when-block-var-merges-into-parameter",
			src:  progPrelude + globalsPrelude() + "function f1(A1) { { var A1 = \"dTag\"; return <A1 x={1} />; } }\n$p(\"r\", f1(\"p\"));\n",
			opts: jsxOpts, optDesc: "minify-identifiers jsx=preserve"},
		{kind: "script", scenario: "with-object-captures-minified-keep-names-helper",
			src:  progPrelude + globalsPrelude() + "with ({ a: 1, b: 1, c: 1, d: 1, e: 1, f: 1, g: 1, h: 1, i: 1, j: 1, k: 1, l: 1, m: 1, n: 1, o: 1, p: 1, q: 1, r: 1, s: 1, t: 1, u: 1, v: 1, w: 1, x: 1, y: 1, z: 1 }) {\n  class K {}\n  $p(\"r\", typeof K);\n}\n",
			opts: api.TransformOptions{Loader: api.LoaderJS, KeepNames: true, MinifyIdentifiers: true, LogLevel: api.LogLevelSilent}, optDesc: "keep-names minify-identifiers"},
	}
}

// all one-character identifiers except $ (a free global of every program), as a parameter
// list or (quoted) as an argument list
func allLetters(sep string, quoted ...bool) string {
	var l []string
	for _, c := range "abcdefghijklmnopqrstuvwxyzABCDEFGHIJKLMNOPQRSTUVWXYZ_" {
		if len(quoted) > 0 {
			l = append(l, fmt.Sprintf("\"v%c\"", c))
		} else {
			l = append(l, string(c))
		}
	}
	return strings.Join(l, sep)
}

// every name the JSX capital-letter loop can stop at (not a-z), read as a free name
func jsxCandidates() string {
	var l []string
	for _, c := range "ABCDEFGHIJKLMNOPQRSTUVWXYZ_$" {
		l = append(l, fmt.Sprintf("$r(() => %c)", c))
	}
	return strings.Join(l, ", ")
}

// JSX output cannot run: lower it with a second, non-renaming transform
func lowerJSX(code string) (string, error) {
	res := api.Transform(code, api.TransformOptions{Loader: api.LoaderJSX, JSX: api.JSXTransform, LogLevel: api.LogLevelSilent})
	if len(res.Errors) > 0 {
		return "", fmt.Errorf("%s", res.Errors[0].Text)
	}
	return string(res.Code), nil
}

func runScriptCases(cases []scriptCase, st *Stats) {
	type pending struct {
		c        scriptCase
		in, out  string
		cacheEpi bool
	}
	var progs []string
	var pend []pending
	for _, c := range cases {
		res := api.Transform(c.src, c.opts)
		st.Evaluations++
		st.Histogram["glue-transform"]++
		if len(res.Errors) > 0 {
			st.Histogram["glue-transform-rejected"]++
			continue
		}
		in, out := c.src, string(res.Code)
		if c.opts.JSX == api.JSXPreserve {
			var err1, err2 error
			in, err1 = lowerJSX(in)
			out, err2 = lowerJSX(out)
			if err1 != nil {
				st.Histogram["glue-transform-rejected"]++
				continue
			}
			if err2 != nil {
				st.Fail("glue-output-not-parseable", map[string]interface{}{"scenario": c.scenario, "options": c.optDesc, "input": c.src, "output": string(res.Code)}, err2.Error(), "output parses")
				continue
			}
		}
		// top-level names of a script emitted without a wrapper stay what they were
		if c.opts.Format == api.FormatDefault {
			ep := epilogue(c.top)
			in += ep
			out += ep
		}
		// the returned mangle cache names the property that is really used
		if c.opts.MangleProps != "" && res.MangleCache != nil {
			var keys []string
			for k := range res.MangleCache {
				keys = append(keys, k)
			}
			sort.Strings(keys)
			for _, k := range keys {
				nk := k
				if s, ok := res.MangleCache[k].(string); ok {
					nk = s
				}
				in += fmt.Sprintf("$q(\"cache:%s\", () => $o[%q]);\n", k, k)
				out += fmt.Sprintf("$q(\"cache:%s\", () => $o[%q]);\n", k, nk)
			}
		}
		progs = append(progs, in, out)
		pend = append(pend, pending{c: c, in: in, out: out})
	}
	if len(progs) == 0 {
		return
	}
	results, err := RunNodeScripts(progs, 3000)
	if err != nil {
		panic(err)
	}
	var retry []pending
	for i, p := range pend {
		a, b := results[2*i], results[2*i+1]
		if a.Err() == "SyntaxError" && len(a.Log) == 0 {
			st.Histogram["glue-input-invalid"]++
			continue
		}
		st.Histogram["glue-script-executed"]++
		st.Histogram["glue-probes"] += len(a.Log)
		if !a.Same(b) {
			retry = append(retry, p)
		} else if len(st.Samples) < 6 {
			st.Sample(map[string]interface{}{"glue": "script", "options": p.c.optDesc, "probes": len(a.Log), "input_prefix": clipStr(p.c.src[len(progPrelude):], 200)})
		}
	}
	// re-run every disagreement once more before reporting it
	for _, p := range retry {
		res, err := RunNodeScripts([]string{p.in, p.out}, 3000)
		if err != nil {
			panic(err)
		}
		if res[0].Same(res[1]) {
			st.Histogram["glue-flaky"]++
			continue
		}
		kind := "binding-changed-by-renaming"
		if p.c.scenario != "" {
			kind = "corpus-scenario-binding-changed"
		}
		st.Fail(kind, map[string]interface{}{"scenario": p.c.scenario, "api": "Transform", "options": p.c.optDesc, "input": p.c.src, "output_program": p.out},
			firstDiff(res[0], res[1]), "the same probe log as the input program")
	}
}

func clipStr(s string, n int) string {
	if len(s) > n {
		return s[:n]
	}
	return s
}

func firstDiff(a, b NodeResult) string {
	for i := 0; i < len(a.Log) && i < len(b.Log); i++ {
		if a.Log[i] != b.Log[i] {
			return fmt.Sprintf("probe #%d: input logs %q, output logs %q", i, a.Log[i], b.Log[i])
		}
	}
	return fmt.Sprintf("input: %d probes err=%q thrown=%q; output: %d probes err=%q thrown=%q", len(a.Log), a.Err(), a.Thrown, len(b.Log), b.Err(), b.Thrown)
}

// ---------------------------------------------------------------------------
// module graphs through api.Build

const moduleRunner = `
import { createRequire } from "module";
import fs from "fs";
import { pathToFileURL } from "url";
const require = createRequire(import.meta.url);
const jobs = JSON.parse(fs.readFileSync(process.argv[2], "utf8"));
let log = [];
const fmt = (v, d) => {
  d = d || 0;
  if (v === undefined) return "undefined";
  if (v === null) return "null";
  if (typeof v === "string") return JSON.stringify(v);
  if (typeof v === "function") return "function";
  if (typeof v !== "object") return String(v);
  if (d > 1) return "{...}";
  if (Array.isArray(v)) return "[" + v.map(x => fmt(x, d + 1)).join(",") + "]";
  return "{" + Object.keys(v).sort().map(k => JSON.stringify(k) + ":" + fmt(v[k], d + 1)).join(",") + "}";
};
globalThis.$p = function () { const a = []; for (let i = 0; i < arguments.length; i++) a.push(fmt(arguments[i])); log.push(a.join(" ")); return arguments[arguments.length - 1]; };
globalThis.$v = function (x) { return typeof x === "function" ? (x.$id || "fn") : x; };
globalThis.$id = function (x) {
  if (typeof x === "function") return "fn:" + x.name;
  if (typeof x === "string") return "str:" + x;
  if (x && typeof x === "object") {
    if (typeof x.join === "function" && typeof x.sep === "string") return "path";
    if (typeof x.readFileSync === "function") return "fs";
    if (typeof x.platform === "function" && typeof x.EOL === "string") return "os";
    if (typeof x.inspect === "function") return "util";
    return "object";
  }
  return typeof x;
};
globalThis.$s = function (f, id) { try { f.$id = id; } catch (e) {} };
globalThis.$q = function (tag, f) { let v; try { v = f(); } catch (e) { v = "!" + (e && e.constructor && e.constructor.name); } return $p(tag, v); };
for (const g of jobs.globals) globalThis[g] = "g:" + g;
const out = [];
for (const job of jobs.jobs) {
  log = [];
  let error = null;
  try {
    let ns;
    if (job.kind === "cjs") ns = require(job.path);
    else ns = await import(pathToFileURL(job.path).href);
    if (job.exports) { for (const k of Object.keys(ns).sort()) if (k !== "default" || job.kind !== "cjs") $p("export:" + k, $v(ns[k])); }
  } catch (e) {
    error = (e && e.constructor && e.constructor.name) || "unknown";
    log.push("!threw " + error);
  }
  out.push({ log, error });
}
fs.writeFileSync(process.argv[3], JSON.stringify(out));
`

type modJob struct {
	Kind    string `json:"kind"`
	Path    string `json:"path"`
	Exports bool   `json:"exports"`
}

type modResult struct {
	Log   []string `json:"log"`
	Error *string  `json:"error"`
}

func sameLog(a, b modResult) bool {
	if len(a.Log) != len(b.Log) {
		return false
	}
	for i := range a.Log {
		if a.Log[i] != b.Log[i] {
			return false
		}
	}
	return true
}

func sameLogMode(a, b modResult, unordered bool) bool {
	if !unordered {
		return sameLog(a, b)
	}
	x := modResult{Log: append([]string{}, a.Log...)}
	y := modResult{Log: append([]string{}, b.Log...)}
	sort.Strings(x.Log)
	sort.Strings(y.Log)
	return sameLog(x, y)
}

type buildCase struct {
	// with code splitting the modules of a graph may be evaluated in another order than the
	// input's import order (shared chunks are imported first): that is about evaluation order,
	// not about bindings; every probe has its own tag, so the logs are compared as multisets
	unordered bool
	desc      map[string]interface{}
	inJobs    []modJob
	outJobs   []modJob
}

func runModuleJobs(dir string, jobs []modJob) []modResult {
	data, _ := json.Marshal(map[string]interface{}{"globals": jsGlobals, "jobs": jobs})
	inp, outp, run := filepath.Join(dir, "jobs.json"), filepath.Join(dir, "results.json"), filepath.Join(dir, "run.mjs")
	must(os.WriteFile(inp, data, 0o644))
	must(os.WriteFile(run, []byte(moduleRunner), 0o644))
	cmd := exec.Command("node", run, inp, outp)
	cmd.Dir = dir
	if outb, err := cmd.CombinedOutput(); err != nil {
		panic(fmt.Sprintf("node module runner failed: %v: %s", err, outb))
	}
	raw, err := os.ReadFile(outp)
	must(err)
	var res []modResult
	must(json.Unmarshal(raw, &res))
	if len(res) != len(jobs) {
		panic("module runner: result count")
	}
	return res
}

func must(err error) {
	if err != nil {
		panic(err)
	}
}

type buildSpec struct {
	stub     string // if set: the input cannot run as written (files mixing import and module.exports); this module replays the expected probe log instead
	files    []modFile
	opts     api.BuildOptions
	desc     string
	kind     string
	scenario string
}

func fixedBuildCorpus() []buildSpec {
	return []buildSpec{{
		scenario: "direct-eval-block-function-leaks-in-sloppy-bundle",
		files: []modFile{
			{name: "f0.mjs", src: "import \"./f1.mjs\";\n$q(1, () => typeof e);\n"},
			{name: "f1.mjs", src: "{\n  function e($) { return eval(\"$\"); }\n}\n"},
		},
		opts: api.BuildOptions{Format: api.FormatCommonJS, Platform: api.PlatformNode, EntryPoints: []string{"f0.mjs"}},
		desc: "format=cjs platform=node", kind: "cjs",
	}}
}

// Files that mix ESM imports of EXTERNAL modules with module.exports are wrapped in a
// __commonJS closure; with an output format that keeps import syntax their import
// statements are hoisted to the top level of the chunk, where the local names of all
// files meet: default, named and namespace imports of node built-ins under colliding local
// names in two or three wrapped files plus the (unwrapped) entry.  The expected probe log is
// known by construction ($id names the module or function a binding holds).
func genWrappedImportSpec(r *Rng, feat map[string]int) buildSpec {
	feat["wrapped-external-imports"]++
	mods := []string{"path", "fs", "os", "util"}
	named := map[string][]string{"path": {"join", "resolve", "basename"}, "fs": {"readFileSync", "existsSync"}, "os": {"EOL"}, "util": {"inspect", "format"}}
	pool := []string{"dep", "x", "ns"}
	tag := 0
	var expect []string
	genImports := func() string {
		var sb strings.Builder
		used := map[string]bool{}
		pick := func() string {
			for {
				n := pool[r.Intn(len(pool))]
				if !used[n] {
					used[n] = true
					return n
				}
			}
		}
		var probes []string
		nimp := r.Range(1, 3)
		for k := 0; k < nimp; k++ {
			m := mods[r.Intn(len(mods))]
			kind := r.Intn(3)
			if k == 0 && r.Chance(60) {
				kind = 0 // most files start with a default import: the local names of several files collide
			}
			switch kind {
			case 0:
				n := pick()
				fmt.Fprintf(&sb, "import %s from %q;\n", n, m)
				tag++
				probes = append(probes, fmt.Sprintf("$p(%d, $id(%s));\n", tag, n))
				expect = append(expect, fmt.Sprintf("$p(%d, %q);\n", tag, m))
			case 1:
				n := pick()
				f := named[m][r.Intn(len(named[m]))]
				fmt.Fprintf(&sb, "import { %s as %s } from %q;\n", f, n, m)
				tag++
				probes = append(probes, fmt.Sprintf("$p(%d, $id(%s));\n", tag, n))
				if f == "EOL" {
					expect = append(expect, fmt.Sprintf("$p(%d, %q);\n", tag, "str:\n"))
				} else {
					expect = append(expect, fmt.Sprintf("$p(%d, %q);\n", tag, "fn:"+f))
				}
			default:
				n := pick()
				fmt.Fprintf(&sb, "import * as %s from %q;\n", n, m)
				tag++
				probes = append(probes, fmt.Sprintf("$p(%d, $id(%s));\n", tag, n))
				expect = append(expect, fmt.Sprintf("$p(%d, %q);\n", tag, m))
			}
		}
		return sb.String() + strings.Join(probes, "")
	}
	nw := r.Range(2, 3)
	var files []modFile
	var entry strings.Builder
	var wrapped []modFile
	for k := 1; k <= nw; k++ {
		body := genImports()
		wrapped = append(wrapped, modFile{name: fmt.Sprintf("w%d.js", k), src: body + fmt.Sprintf("module.exports = %d;\n", k)})
		fmt.Fprintf(&entry, "import \"./w%d.js\";\n", k)
	}
	entry.WriteString(genImports())
	files = append(files, modFile{name: "f0.mjs", src: entry.String()})
	files = append(files, wrapped...)
	sp := buildSpec{files: files, kind: "esm", stub: strings.Join(expect, "")}
	opts := api.BuildOptions{EntryPoints: []string{"f0.mjs"}, Platform: api.PlatformNode, Format: api.FormatESModule}
	desc := []string{"platform=node format=esm wrapped-external-imports"}
	if r.Chance(30) {
		opts.MinifyIdentifiers = true
		desc = append(desc, "minify-identifiers")
	}
	sp.opts = opts
	sp.desc = strings.Join(desc, " ")
	return sp
}

func genBuildSpec(r *Rng, feat map[string]int) buildSpec {
	g := &jsgen{r: r, module: true, features: feat, noEval: true} // direct eval under bundling: esbuild warns, names are renamed anyway
	nfiles := r.Range(2, 4)
	sp := buildSpec{files: g.moduleFiles(nfiles), kind: "esm"}
	opts := api.BuildOptions{EntryPoints: []string{"f0.mjs"}}
	var desc []string
	if r.Chance(60) {
		opts.MinifyIdentifiers = true
		desc = append(desc, "minify-identifiers")
	}
	switch r.Intn(5) {
	case 0:
		opts.Format = api.FormatIIFE
		desc = append(desc, "format=iife")
	case 1:
		opts.Format = api.FormatCommonJS
		opts.Platform = api.PlatformNode
		sp.kind = "cjs"
		desc = append(desc, "format=cjs platform=node")
	default:
		opts.Format = api.FormatESModule
		desc = append(desc, "format=esm")
	}
	if opts.Format == api.FormatESModule && nfiles >= 3 && r.Chance(40) {
		opts.Splitting = true
		opts.EntryPoints = []string{"f0.mjs", "f1.mjs"}
		desc = append(desc, "splitting entries=f0,f1")
	}
	if r.Chance(15) {
		opts.KeepNames = true
		desc = append(desc, "keep-names")
	}
	sp.opts = opts
	sp.desc = strings.Join(desc, " ")
	return sp
}

func runBuildCases(r *Rng, n int, st *Stats, feat map[string]int) {
	dir, err := os.MkdirTemp("", "verif-c15-")
	must(err)
	defer os.RemoveAll(dir)
	var cases []buildCase
	var jobs []modJob
	specs := fixedBuildCorpus()
	for i := 0; i < n; i++ {
		specs = append(specs, genBuildSpec(r, feat))
		if i%2 == 0 {
			specs = append(specs, genWrappedImportSpec(r, feat))
		}
	}
	for i, sp := range specs {
		cdir := filepath.Join(dir, fmt.Sprintf("c%d", i))
		must(os.MkdirAll(cdir, 0o755))
		fmap := map[string]string{}
		for _, f := range sp.files {
			must(os.WriteFile(filepath.Join(cdir, f.name), []byte(f.src), 0o644))
			fmap[f.name] = f.src
		}
		opts := sp.opts
		opts.AbsWorkingDir = cdir
		opts.Bundle = true
		opts.Write = false
		opts.Outdir = filepath.Join(cdir, "out")
		opts.LogLevel = api.LogLevelSilent
		kind := sp.kind
		desc := []string{sp.desc}
		ext := ".mjs"
		if kind == "cjs" {
			ext = ".cjs"
		}
		opts.OutExtension = map[string]string{".js": ext}
		res := api.Build(opts)
		st.Evaluations++
		st.Histogram["glue-build"]++
		if len(res.Errors) > 0 {
			st.Histogram["glue-build-rejected"]++
			continue
		}
		for _, f := range res.OutputFiles {
			must(os.MkdirAll(filepath.Dir(f.Path), 0o755))
			must(os.WriteFile(f.Path, f.Contents, 0o644))
		}
		bc := buildCase{desc: map[string]interface{}{"api": "Build", "scenario": sp.scenario, "options": strings.Join(desc, " "), "files": fmap}}
		outs := map[string]string{}
		for _, f := range res.OutputFiles {
			outs[filepath.Base(f.Path)] = string(f.Contents)
		}
		bc.desc["outputs"] = outs
		for _, e := range opts.EntryPoints {
			withExports := opts.Format != api.FormatIIFE
			inPath := filepath.Join(cdir, e)
			if sp.stub != "" {
				inPath = filepath.Join(cdir, "expected-log.mjs")
				must(os.WriteFile(inPath, []byte(sp.stub), 0o644))
				bc.desc["expected_log_program"] = sp.stub
			}
			bc.inJobs = append(bc.inJobs, modJob{Kind: "esm", Path: inPath, Exports: withExports})
			bc.outJobs = append(bc.outJobs, modJob{Kind: kind, Path: filepath.Join(cdir, "out", strings.TrimSuffix(e, ".mjs")+ext), Exports: withExports})
		}
		bc.unordered = opts.Splitting
		cases = append(cases, bc)
		jobs = append(jobs, bc.inJobs...)
		jobs = append(jobs, bc.outJobs...)
	}
	if len(jobs) == 0 {
		return
	}
	results := runModuleJobs(dir, jobs)
	k := 0
	for _, bc := range cases {
		ne := len(bc.inJobs)
		ins, outs := results[k:k+ne], results[k+ne:k+2*ne]
		k += 2 * ne
		bad := ""
		probes := 0
		invalid := false
		for e := 0; e < ne; e++ {
			if ins[e].Error != nil && *ins[e].Error == "SyntaxError" {
				invalid = true
			}
			probes += len(ins[e].Log)
			if !sameLogMode(ins[e], outs[e], bc.unordered) && bad == "" {
				bad = firstDiff(NodeResult{Log: ins[e].Log, Error: ins[e].Error}, NodeResult{Log: outs[e].Log, Error: outs[e].Error})
			}
		}
		if invalid {
			st.Histogram["glue-input-invalid"]++
			continue
		}
		st.Histogram["glue-bundle-executed"]++
		st.Histogram["glue-probes"] += probes
		if bad != "" {
			// re-run this case alone before reporting
			again := runModuleJobs(dir, append(append([]modJob{}, bc.inJobs...), bc.outJobs...))
			still := false
			for e := 0; e < ne; e++ {
				if !sameLogMode(again[e], again[ne+e], bc.unordered) {
					still = true
				}
			}
			if !still {
				st.Histogram["glue-flaky"]++
				continue
			}
			what := "binding-changed-by-renaming"
			if bc.desc["scenario"] != "" {
				what = "corpus-scenario-binding-changed"
			}
			st.Fail(what, bc.desc, bad, "the same probe log and export names as the input module graph")
		} else if len(st.Samples) < 8 {
			st.Sample(map[string]interface{}{"glue": "bundle", "options": bc.desc["options"], "probes": probes})
		}
	}
}

func runGlue(r *Rng, n int, tier string, st *Stats) {
	feat := map[string]int{}
	// the fixed corpus (inputs of recorded or fixed findings) runs first
	runScriptCases(fixedScriptCorpus(), st)
	var cases []scriptCase
	ns := n / 3
	if ns < 40 {
		ns = 40
	}
	for i := 0; i < ns; i++ {
		cases = append(cases, genScriptCase(r, feat))
	}
	runScriptCases(cases, st)
	nb := n / 6
	if nb < 20 {
		nb = 20
	}
	runBuildCases(r, nb, st, feat)
	for k, v := range feat {
		st.Histogram["feature:"+k] += v
	}
}
