package main

import (
	. "github.com/evanw/esbuild/verifharness/hlib"
)

func runGlue(r *Rng, n int, tier string, st *Stats) {}
