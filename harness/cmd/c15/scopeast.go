package main

// Scope-construction correspondence: random binding-form programs are printed as
// JavaScript (strict: ES modules), parsed by the real js_parser, and the scope tree it
// builds is sent - per scope the (name, canonical symbol, pinned) of every member - next
// to the program as a Coq term; Harness.check_scopebuild numbers the model's skeleton
// for the same program and requires the two forests to be isomorphic.

import (
	"fmt"
	"sort"
	"strings"

	"github.com/evanw/esbuild/internal/ast"
	"github.com/evanw/esbuild/internal/config"
	"github.com/evanw/esbuild/internal/js_ast"
	"github.com/evanw/esbuild/internal/js_parser"
	"github.com/evanw/esbuild/internal/logger"
	. "github.com/evanw/esbuild/verifharness/hlib"
)

type bstmt struct {
	kind   string // var let ref block try for func fexpr arrow
	name   string // declared / referenced name, catch parameter, self name ("" = none)
	params []string
	body   []*bstmt
	body2  []*bstmt // catch body
}

var bPool = []string{"a", "b", "e", "x", "y", "f", "arguments", "v"}

type bscope struct {
	parent *bscope
	isFunc bool
	inWith bool // inside a with body (same function)
	lex    map[string]bool
	vars   map[string]bool // declared here or hoisted through
}

func (s *bscope) canLex(n string) bool { return !s.lex[n] && !s.vars[n] }
func (s *bscope) canVar(n string) bool {
	for c := s; c != nil; c = c.parent {
		if c.lex[n] {
			return false
		}
		if c.isFunc {
			return true
		}
	}
	return true
}
func (s *bscope) addVar(n string) {
	for c := s; c != nil; c = c.parent {
		c.vars[n] = true
		if c.isFunc {
			return
		}
	}
}
func newB(parent *bscope, isFunc bool) *bscope {
	b := &bscope{parent: parent, isFunc: isFunc, lex: map[string]bool{}, vars: map[string]bool{}}
	if parent != nil && !isFunc {
		b.inWith = parent.inWith
	}
	return b
}

type bgen struct {
	r        *Rng
	budget   int
	sloppy   bool // a classic script: with is allowed, function declarations only at function level
	withVars int
}

func (g *bgen) nm() string { return bPool[g.r.Intn(len(bPool))] }

func (g *bgen) stmts(sc *bscope, depth, n int) []*bstmt {
	var out []*bstmt
	for i := 0; i < n && g.budget > 0; i++ {
		g.budget--
		if s := g.stmt(sc, depth); s != nil {
			out = append(out, s)
		}
	}
	return out
}

func (g *bgen) fnBody(sc *bscope, params []string, depth int) []*bstmt {
	fs := newB(sc, true)
	for _, p := range params {
		fs.vars[p] = true
	}
	return g.stmts(fs, depth+1, g.r.Range(1, 4))
}

func (g *bgen) params() []string {
	var ps []string
	seen := map[string]bool{}
	for k := g.r.Intn(3); k > 0; k-- {
		n := g.nm()
		if n == "arguments" || seen[n] { // (strict mode forbids a parameter named arguments and duplicates)
			continue
		}
		seen[n] = true
		ps = append(ps, n)
	}
	return ps
}

func (g *bgen) stmt(sc *bscope, depth int) *bstmt {
	deep := depth >= 3
	for try := 0; try < 6; try++ {
		n := g.nm()
		switch g.r.Intn(12) {
		case 10:
			return &bstmt{kind: "eval"}
		case 11:
			if deep || !g.sloppy {
				continue
			}
			ws := newB(sc, false)
			ws.inWith = true
			return &bstmt{kind: "with", body: g.stmts(ws, depth+1, g.r.Range(1, 3))}
		case 0, 1:
			if sc.inWith {
				// a var in a with body whose name the function declares elsewhere too: the real
				// hoistSymbols loses the pin when it is merged into an already merged symbol
				// (recorded finding); here only fresh names are declared inside with
				g.withVars++
				n = fmt.Sprintf("w%d", g.withVars)
			}
			if n == "arguments" || !sc.canVar(n) {
				continue
			}
			sc.addVar(n)
			return &bstmt{kind: "var", name: n}
		case 2:
			if n == "arguments" || !sc.canLex(n) {
				continue
			}
			sc.lex[n] = true
			return &bstmt{kind: "let", name: n}
		case 3, 4:
			return &bstmt{kind: "ref", name: n}
		case 5:
			if deep {
				continue
			}
			return &bstmt{kind: "block", body: g.stmts(newB(sc, false), depth+1, g.r.Range(1, 3))}
		case 6:
			if deep {
				continue
			}
			b := g.stmts(newB(sc, false), depth+1, g.r.Range(0, 2))
			p := ""
			cs := newB(sc, false)
			if g.r.Chance(75) && n != "arguments" {
				p = n
				cs.lex[p] = true
			}
			// the catch body: a `var` of the parameter's name is legal (Annex B.3.4); a let is not
			bs := newB(cs, false)
			if p != "" {
				bs.lex[p] = false
			}
			var body2 []*bstmt
			for k := g.r.Range(1, 3); k > 0 && g.budget > 0; k-- {
				g.budget--
				if p != "" && !sc.inWith && g.r.Chance(25) {
					// var e inside catch (e): allowed, merges
					for c := sc; c != nil; c = c.parent {
						c.vars[p] = true
						if c.isFunc {
							break
						}
					}
					bs.vars[p] = true
					body2 = append(body2, &bstmt{kind: "var", name: p})
					continue
				}
				if s := g.stmt(bs, depth+1); s != nil {
					if s.kind == "let" && s.name == p {
						continue
					}
					body2 = append(body2, s)
				}
			}
			return &bstmt{kind: "try", name: p, body: b, body2: body2}
		case 7:
			if deep || n == "arguments" {
				continue
			}
			fs := newB(sc, false)
			fs.lex[n] = true
			return &bstmt{kind: "for", name: n, body: g.stmts(newB(fs, false), depth+1, g.r.Range(1, 2))}
		case 8:
			if deep || n == "arguments" {
				continue
			}
			if sc.isFunc {
				if !sc.canVar(n) || sc.lex[n] {
					continue
				}
				sc.addVar(n)
			} else {
				if g.sloppy {
					continue // Annex B function-in-block is outside the modelled fragment
				}
				if !sc.canLex(n) {
					continue
				}
				sc.lex[n] = true
			}
			ps := g.params()
			return &bstmt{kind: "func", name: n, params: ps, body: g.fnBody(sc, ps, depth)}
		default:
			if deep {
				continue
			}
			ps := g.params()
			if g.r.Bool() {
				return &bstmt{kind: "arrow", params: ps, body: g.fnBody(sc, ps, depth)}
			}
			self := ""
			if g.r.Bool() && n != "arguments" {
				self = n
			}
			return &bstmt{kind: "fexpr", name: self, params: ps, body: g.fnBody(sc, ps, depth)}
		}
	}
	return nil
}

func jsOf(ss []*bstmt, ind string) string {
	var sb strings.Builder
	for _, s := range ss {
		switch s.kind {
		case "var":
			fmt.Fprintf(&sb, "%svar %s;\n", ind, s.name)
		case "let":
			fmt.Fprintf(&sb, "%slet %s;\n", ind, s.name)
		case "ref":
			fmt.Fprintf(&sb, "%s%s;\n", ind, s.name)
		case "eval":
			fmt.Fprintf(&sb, "%seval(\"\");\n", ind)
		case "with":
			fmt.Fprintf(&sb, "%swith ({}) {\n%s%s}\n", ind, jsOf(s.body, ind+"  "), ind)
		case "block":
			fmt.Fprintf(&sb, "%s{\n%s%s}\n", ind, jsOf(s.body, ind+"  "), ind)
		case "try":
			c := ""
			if s.name != "" {
				c = " (" + s.name + ")"
			}
			fmt.Fprintf(&sb, "%stry {\n%s%s} catch%s {\n%s%s}\n", ind, jsOf(s.body, ind+"  "), ind, c, jsOf(s.body2, ind+"  "), ind)
		case "for":
			fmt.Fprintf(&sb, "%sfor (let %s = 0; %s < 1; %s++) {\n%s%s}\n", ind, s.name, s.name, s.name, jsOf(s.body, ind+"  "), ind)
		case "func":
			fmt.Fprintf(&sb, "%sfunction %s(%s) {\n%s%s}\n", ind, s.name, strings.Join(s.params, ", "), jsOf(s.body, ind+"  "), ind)
		case "fexpr":
			fmt.Fprintf(&sb, "%s(function %s(%s) {\n%s%s});\n", ind, s.name, strings.Join(s.params, ", "), jsOf(s.body, ind+"  "), ind)
		case "arrow":
			fmt.Fprintf(&sb, "%s((%s) => {\n%s%s});\n", ind, strings.Join(s.params, ", "), jsOf(s.body, ind+"  "), ind)
		}
	}
	return sb.String()
}

func coqStmts(ss []*bstmt) string {
	var l []string
	for _, s := range ss {
		ps := coqNames(s.params)
		switch s.kind {
		case "var":
			l = append(l, "SVar "+cname(s.name))
		case "let":
			l = append(l, "SLet "+cname(s.name))
		case "ref":
			l = append(l, "SRef "+cname(s.name))
		case "eval":
			l = append(l, "SEval")
		case "with":
			l = append(l, "SWith "+coqStmts(s.body))
		case "block":
			l = append(l, "SBlock "+coqStmts(s.body))
		case "try":
			p := "None"
			if s.name != "" {
				p = "(Some " + cname(s.name) + ")"
			}
			l = append(l, fmt.Sprintf("STry %s %s %s", coqStmts(s.body), p, coqStmts(s.body2)))
		case "for":
			l = append(l, fmt.Sprintf("SForLet %s %s", cname(s.name), coqStmts(s.body)))
		case "func":
			l = append(l, fmt.Sprintf("SFunc %s %s %s", cname(s.name), ps, coqStmts(s.body)))
		case "fexpr":
			self := "None"
			if s.name != "" {
				self = "(Some " + cname(s.name) + ")"
			}
			l = append(l, fmt.Sprintf("SFuncExpr %s %s %s", self, ps, coqStmts(s.body)))
		case "arrow":
			l = append(l, fmt.Sprintf("SArrow %s %s", ps, coqStmts(s.body)))
		}
	}
	return "[" + strings.Join(l, "; ") + "]"
}

// the real parser's scope tree in canonical form
func realForest(src string) (string, bool) {
	log := logger.NewDeferLog(logger.DeferLogNoVerboseOrDebug, nil)
	opts := js_parser.OptionsFromConfig(&config.Options{})
	tree, ok := js_parser.Parse(log, logger.Source{Index: 0, KeyPath: logger.Path{Text: "a.mjs"}, PrettyPaths: logger.PrettyPaths{Rel: "a.mjs"}, Contents: src}, opts)
	if !ok || log.HasErrors() || tree.ModuleScope == nil {
		return "", false
	}
	follow := func(r ast.Ref) uint32 {
		for tree.Symbols[r.InnerIndex].Link != ast.InvalidRef {
			r = tree.Symbols[r.InnerIndex].Link
		}
		return r.InnerIndex
	}
	var dump func(sc *js_ast.Scope) string
	dump = func(sc *js_ast.Scope) string {
		var names []string
		for k := range sc.Members {
			names = append(names, k)
		}
		sort.Strings(names)
		var ms []string
		for _, k := range names {
			c := follow(sc.Members[k].Ref)
			s := tree.Symbols[c]
			pinned := s.Kind == ast.SymbolUnbound || s.Flags.Has(ast.MustNotBeRenamed)
			ms = append(ms, fmt.Sprintf("(%s,%d,%s)", cname(k), c, CBool(pinned)))
		}
		var ch []string
		for _, c := range sc.Children {
			ch = append(ch, dump(c))
		}
		return fmt.Sprintf("(CT [%s] [%s])", strings.Join(ms, ";"), strings.Join(ch, ";"))
	}
	return dump(tree.ModuleScope), true
}

func genScopeBuildCases(r *Rng, n int, st *Stats, cf *caseSink) {
	var items []string
	want := n / 4
	if want < 40 {
		want = 40
	}
	for tries := 0; len(items) < want && tries < 6*want; tries++ {
		g := &bgen{r: r, budget: 30, sloppy: r.Chance(40)}
		prog := g.stmts(newB(nil, true), 0, r.Range(2, 6))
		src := jsOf(prog, "")
		if !g.sloppy {
			src += "export {};\n"
		}
		forest, ok := realForest(src)
		if !ok {
			st.Histogram["scopebuild-rejected"]++
			continue
		}
		items = append(items, fmt.Sprintf("(%s,%s)", coqStmts(prog), forest))
		st.Note("scopebuild", src, strings.Count(src, "\n") > 4)
		if len(st.Samples) < 10 && len(items) == 1 {
			st.Sample(map[string]interface{}{"scopebuild_program": src})
		}
	}
	cf.add("scopebuild_cases", "list stmt * ctree", "check_scopebuild", items)
}
