package main

// Generator of closed, deterministic JavaScript programs whose observable
// behaviour is "which declaration does every identifier reference read":
// every declaration holds a unique value "d<N>", every reference is probed
// through $q(tag, () => $v(name)) (errors such as TDZ/ReferenceError are
// caught and logged by class). Names come from a tiny pool that coincides
// with the minifier's first names (a b e t $ ...) and with the number
// renamer's suffixes (x2 x3), and free globals use the same pool.

import (
	"fmt"
	"sort"
	"strings"

	. "github.com/evanw/esbuild/verifharness/hlib"
)

var jsPool = []string{"a", "b", "e", "t", "x", "x2", "x3", "y", "$", "_", "C", "n", "i", "r", "A", "T", "foo", "a2", "e2"}
var jsCapPool = []string{"C", "A", "T", "Comp", "B"}
var jsGlobals = []string{"a", "b", "e", "t", "x2", "x3", "C", "A", "$", "n", "i"} // defined on globalThis in the prelude
var jsPriv = []string{"#p", "#q", "#a", "#x"}
var jsProps = []string{"foo_", "bar_", "a_", "x2_", "baz_"}

// runs inside the program (so it passes through esbuild like user code)
const progPrelude = `var $g = globalThis;
$g.$v = function (x) { return typeof x === "function" ? (x.$id || "fn") : x; };
$g.$s = function (f, id) { try { f.$id = id; } catch (e) {} };
$g.$q = function (tag, f) { var v; try { v = f(); } catch (e) { v = "!" + (e && e.constructor && e.constructor.name); } return $p(tag, v); };
$g.React = { createElement: function (t, p) { return "<" + $v(t) + " " + (p ? $v(p.x) : "") + ">"; } };
`

func globalsPrelude() string {
	var sb strings.Builder
	var refs []string
	for _, g := range jsGlobals {
		fmt.Fprintf(&sb, "$g[%q] = %q;\n", g, "g:"+g)
		refs = append(refs, "typeof "+g)
	}
	// every global is also referenced as an identifier, so that it is a free name of the program
	fmt.Fprintf(&sb, "$p(\"globals\", %s);\n", strings.Join(refs, ", "))
	return sb.String()
}

type jscope struct {
	parent       *jscope
	isFunc       bool
	lex          map[string]bool
	vars         map[string]bool
	all          []string // every name declared here, for picking references
	script       bool     // top scope of a classic script
	params       map[string]bool
	withBoundary bool            // body scope of a with statement
	blocked      map[string]bool // names referenced through a with below: must not be declared here later
	frozen       bool            // module top level after its declaration prefix: no later lexical declarations (bundling turns top-level let into var, which would change TDZ errors)
}

type jsgen struct {
	r           *Rng
	id          int
	tag         int
	module      bool // ESM (strict, no with)
	jsx         bool
	props       bool
	noEval      bool
	noWith      bool
	noFnInBlock bool
	features    map[string]int
	budget      int
	sib         int
	evalSibs    bool // put the sibling-direct-eval shape into the program
	annexSibs   bool // put the block-function-with-sibling-locals shape into the program
}

func (g *jsgen) newID() string { g.id++; return fmt.Sprintf("\"d%d\"", g.id) }
func (g *jsgen) newTag() int   { g.tag++; return g.tag }
func (g *jsgen) name() string {
	if g.r.Chance(70) {
		return jsPool[g.r.Intn(9)]
	}
	return jsPool[g.r.Intn(len(jsPool))]
}

func newScope(parent *jscope, isFunc bool) *jscope {
	return &jscope{parent: parent, isFunc: isFunc, lex: map[string]bool{}, vars: map[string]bool{}, params: map[string]bool{}, blocked: map[string]bool{}}
}

// A classic script shares the global object with the prelude that defines the
// free globals, so a top-level var/function (or an Annex-B hoisted function)
// named like one of them would be clobbered in the input but not inside an
// IIFE wrapper: such names are not declared at script top level.
var scriptTopExclude = map[string]bool{}

func init() {
	for _, g := range jsGlobals {
		scriptTopExclude[g] = true
	}
}

func (s *jscope) varTarget() *jscope {
	c := s
	for !c.isFunc && c.parent != nil {
		c = c.parent
	}
	return c
}

func (s *jscope) canLex(n string) bool {
	if s.parent == nil && s.script && scriptTopExclude[n] {
		return false
	}
	return !s.frozen && !s.lex[n] && !s.vars[n] && !s.blocked[n]
}
func (s *jscope) addLex(n string) { s.lex[n] = true; s.all = append(s.all, n) }
func (s *jscope) canVar(n string) bool {
	if t := s.varTarget(); t.parent == nil && t.script && scriptTopExclude[n] {
		return false
	}
	for c := s; c != nil; c = c.parent {
		if c.lex[n] || c.blocked[n] {
			return false
		}
		if c.isFunc {
			break
		}
	}
	return true
}

// A reference that passes through a `with` body pins the symbol it resolves to. A pinned
// symbol of a nested scope is not reserved by the renamers (recorded findings, replayed
// from the corpus), so inside `with` only names declared inside the body, at the top level,
// or nowhere (free) are referenced - and such a name may not be declared later in a scope
// between the with and the top level.
func (s *jscope) refOK(n string) bool {
	if true {
		return true // since 3eb6e21 nested pinned names are reserved: every name may be referenced inside with
	}
	passed := false
	var between []*jscope
	for c := s; c != nil; c = c.parent {
		declared := c.lex[n] || (c.isFunc && (c.vars[n] || c.params[n]))
		if declared {
			if passed && c.parent != nil {
				return false
			}
			break
		}
		if passed && c.parent != nil {
			between = append(between, c)
		}
		if c.withBoundary {
			passed = true
		}
	}
	for _, c := range between {
		c.blocked[n] = true
	}
	return true
}
func (s *jscope) addVar(n string) {
	for c := s; c != nil; c = c.parent {
		c.vars[n] = true
		if c.isFunc {
			c.all = append(c.all, n)
			break
		}
	}
}

func (s *jscope) visible() []string {
	var out []string
	for c := s; c != nil; c = c.parent {
		out = append(out, c.all...)
	}
	return out
}

type jctx struct {
	sc      *jscope
	labels  []string
	privs   []string // private names of enclosing classes, usable through `this`
	thisOK  bool
	strict  bool
	inClass bool
	inWith  bool // inside a with body (same function): no function declarations there
}

func (g *jsgen) refName(c *jctx) string {
	for try := 0; try < 12; try++ {
		n := g.name()
		vis := c.sc.visible()
		if len(vis) > 0 && g.r.Chance(70) {
			n = vis[g.r.Intn(len(vis))]
		}
		if c.sc.refOK(n) {
			return n
		}
	}
	return "undefined"
}

func (g *jsgen) probe(c *jctx, ind string) string {
	n := g.refName(c)
	switch g.r.Intn(10) {
	case 0:
		return fmt.Sprintf("%s$q(%d, () => typeof %s);\n", ind, g.newTag(), n)
	case 1:
		if !g.noEval && !c.inClass {
			if g.module {
				// bundling renames module-level names whatever eval may see (esbuild warns about
				// direct eval in bundles): only names of nested scopes are read through eval
				var nested []string
				for sc := c.sc; sc != nil && sc.parent != nil; sc = sc.parent {
					nested = append(nested, sc.all...)
				}
				if len(nested) == 0 {
					break
				}
				n = nested[g.r.Intn(len(nested))]
			}
			if !g.module {
				// only names that also occur as identifiers in the program text (a name that
				// exists in an eval string alone is invisible to any renamer)
				cand := append(append([]string{}, c.sc.visible()...), jsGlobals...)
				n = cand[g.r.Intn(len(cand))]
			}
			g.features["direct-eval"]++
			return fmt.Sprintf("%s$q(%d, () => eval(\"$v(%s)\"));\n", ind, g.newTag(), n)
		}
	case 2:
		if len(c.privs) > 0 && c.thisOK {
			g.features["private-read"]++
			return fmt.Sprintf("%s$q(%d, () => this.%s);\n", ind, g.newTag(), c.privs[g.r.Intn(len(c.privs))])
		}
	case 3:
		if g.jsx {
			g.features["jsx-tag"]++
			tag := jsCapPool[g.r.Intn(len(jsCapPool))]
			vis := c.sc.visible()
			for _, v := range vis {
				if v[0] >= 'A' && v[0] <= 'Z' && g.r.Bool() {
					tag = v
				}
			}
			if !c.sc.refOK(tag) {
				break
			}
			return fmt.Sprintf("%s$q(%d, () => <%s x={%s} />);\n", ind, g.newTag(), tag, n)
		}
	case 4:
		if g.props {
			g.features["mangle-prop"]++
			p := jsProps[g.r.Intn(len(jsProps))]
			if g.r.Bool() {
				return fmt.Sprintf("%s$q(%d, () => $o.%s);\n", ind, g.newTag(), p)
			}
			return fmt.Sprintf("%s$q(%d, () => ({ %s: %s, %s: 1 }).%s);\n", ind, g.newTag(), p, n, jsPool[g.r.Intn(5)], p)
		}
	}
	return fmt.Sprintf("%s$q(%d, () => $v(%s));\n", ind, g.newTag(), n)
}

func (g *jsgen) capOrName() string {
	if g.jsx && g.r.Chance(35) {
		return jsCapPool[g.r.Intn(len(jsCapPool))]
	}
	return g.name()
}

// body: a sequence of statements in scope c.sc
func (g *jsgen) body(c *jctx, depth int, ind string, n int) string {
	var sb strings.Builder
	for i := 0; i < n && g.budget > 0; i++ {
		g.budget--
		sb.WriteString(g.stmt(c, depth, ind))
		if g.r.Chance(60) {
			sb.WriteString(g.probe(c, ind))
		}
	}
	sb.WriteString(g.probe(c, ind))
	return sb.String()
}

func (g *jsgen) funcBody(c *jctx, params []string, depth int, ind string, thisOK bool, privs []string, inClass bool) string {
	fs := newScope(c.sc, true)
	for _, p := range params {
		fs.params[p] = true
		fs.vars[p] = true
		fs.all = append(fs.all, p)
	}
	fc := &jctx{sc: fs, thisOK: thisOK, privs: privs, strict: c.strict || inClass, inClass: inClass || c.inClass}
	return g.body(fc, depth+1, ind+"  ", g.r.Range(1, 3))
}

func (g *jsgen) params() ([]string, string, string) {
	k := g.r.Intn(3)
	var names, decl, args []string
	seen := map[string]bool{}
	for i := 0; i < k; i++ {
		n := g.capOrName()
		if seen[n] {
			continue
		}
		seen[n] = true
		names = append(names, n)
		decl = append(decl, n)
		args = append(args, g.newID())
	}
	return names, strings.Join(decl, ", "), strings.Join(args, ", ")
}

func (g *jsgen) stmt(c *jctx, depth int, ind string) string {
	deep := depth >= 3
	for try := 0; try < 8; try++ {
		switch g.r.Intn(17) {
		case 0, 1: // let / const
			n := g.capOrName()
			if !c.sc.canLex(n) {
				continue
			}
			c.sc.addLex(n)
			g.features["let-const"]++
			return fmt.Sprintf("%s%s %s = %s;\n", ind, g.r.Pick([]string{"let", "const"}), n, g.newID())
		case 2: // var (possibly inside extra blocks: hoisting through blocks)
			n := g.capOrName()
			if g.jsx && !c.sc.isFunc && n[0] >= 'A' && n[0] <= 'Z' {
				continue // a JSX tag name declared by var inside a block and merged into a parameter/var: recorded finding
			}
			if c.inWith {
				// a var in a with body whose name the function also declares elsewhere can lose its
				// pin (recorded finding, residue of bc60627): inside with only fresh names
				g.sib++
				n = fmt.Sprintf("wv%d", g.sib+100)
			}
			if !c.sc.canVar(n) {
				continue
			}
			c.sc.addVar(n)
			g.features["var"]++
			if g.r.Chance(30) && !(g.jsx && n[0] >= 'A' && n[0] <= 'Z') {
				g.features["var-hoisted-through-block"]++
				return fmt.Sprintf("%s{ { var %s = %s; } }\n", ind, n, g.newID())
			}
			return fmt.Sprintf("%svar %s = %s;\n", ind, n, g.newID())
		case 3: // function declaration + call
			if deep || (c.inWith && !c.sc.isFunc) {
				continue
			}
			if !g.module && !c.strict && !c.sc.isFunc && g.noFnInBlock {
				continue // a sloppy function declaration in a block is a function-in-block
			}
			n := g.capOrName()
			if !c.sc.canLex(n) || !c.sc.canVar(n) {
				continue
			}
			if !g.module && !c.strict && !c.sc.isFunc && c.sc.varTarget().params[n] {
				continue // block function named like a parameter that the body may also re-declare with var: recorded finding
			}
			if c.sc.isFunc {
				c.sc.addVar(n)
			} else {
				c.sc.addLex(n)
			}
			g.features["function-decl"]++
			ps, pd, args := g.params()
			id := g.newID()
			b := g.funcBody(c, ps, depth, ind, false, nil, false)
			return fmt.Sprintf("%sfunction %s(%s) {\n%s%s}\n%s$s(%s, %s);\n%s%s(%s);\n", ind, n, pd, b, ind, ind, n, id, ind, n, args)
		case 4: // named function expression (self binding)
			if deep {
				continue
			}
			n := g.capOrName()
			ps, pd, args := g.params()
			g.features["named-function-expr"]++
			inner := newScope(c.sc, false) // the scope holding the function's own name
			inner.addLex(n)
			ic := &jctx{sc: inner, strict: c.strict, inClass: c.inClass}
			b := g.funcBody(ic, ps, depth, ind, false, nil, false)
			return fmt.Sprintf("%s(function %s(%s) {\n%s  $s(%s, %s);\n%s%s})(%s);\n", ind, n, pd, ind, n, g.newID(), b, ind, args)
		case 5: // arrow with default parameter reading an outer name
			if deep {
				continue
			}
			ps, pd, args := g.params()
			g.features["arrow"]++
			if len(ps) > 0 && g.r.Bool() {
				extra := g.name()
				dup := false
				for _, p := range ps {
					if p == extra {
						dup = true
					}
				}
				if !dup {
					g.features["default-param"]++
					pd += fmt.Sprintf(", %s = $v(%s)", extra, g.refName(c))
					ps = append(ps, extra)
				}
			}
			b := g.funcBody(c, ps, depth, ind, c.thisOK, c.privs, false)
			return fmt.Sprintf("%s((%s) => {\n%s%s})(%s);\n", ind, pd, b, ind, args)
		case 6: // block
			if deep {
				continue
			}
			g.features["block"]++
			bc := &jctx{sc: newScope(c.sc, false), labels: c.labels, privs: c.privs, thisOK: c.thisOK, strict: c.strict, inClass: c.inClass, inWith: c.inWith}
			return fmt.Sprintf("%s{\n%s%s}\n", ind, g.body(bc, depth+1, ind+"  ", g.r.Range(1, 3)), ind)
		case 7: // try/catch with binding
			if deep {
				continue
			}
			n := g.name()
			g.features["catch"]++
			cs := newScope(c.sc, false)
			cs.addLex(n)
			bc := &jctx{sc: cs, labels: c.labels, privs: c.privs, thisOK: c.thisOK, strict: c.strict, inClass: c.inClass, inWith: c.inWith}
			return fmt.Sprintf("%stry { throw %s; } catch (%s) {\n%s%s}\n", ind, g.newID(), n, g.body(bc, depth+1, ind+"  ", g.r.Range(1, 2)), ind)
		case 8: // for loops with their own scope
			if deep {
				continue
			}
			n := g.name()
			g.features["for"]++
			fs := newScope(c.sc, false)
			kind := g.r.Intn(3)
			if kind == 2 && (c.inWith || (g.jsx && n[0] >= 'A' && n[0] <= 'Z')) {
				kind = 1 // (see the var case)
			}
			if kind == 2 {
				if !c.sc.canVar(n) {
					continue
				}
				c.sc.addVar(n)
			} else {
				fs.addLex(n)
			}
			bs := newScope(fs, false)
			bc := &jctx{sc: bs, labels: c.labels, privs: c.privs, thisOK: c.thisOK, strict: c.strict, inClass: c.inClass, inWith: c.inWith}
			b := g.body(bc, depth+1, ind+"  ", g.r.Range(1, 2))
			switch kind {
			case 0:
				return fmt.Sprintf("%sfor (let %s = 0; %s < 1; %s++) {\n%s%s}\n", ind, n, n, n, b, ind)
			case 1:
				return fmt.Sprintf("%sfor (const %s of [%s]) {\n%s%s}\n", ind, n, g.newID(), b, ind)
			default:
				return fmt.Sprintf("%sfor (var %s of [%s]) {\n%s%s}\n", ind, n, g.newID(), b, ind)
			}
		case 9: // class with private names, methods, static self reference
			if deep {
				continue
			}
			n := g.capOrName()
			if !c.sc.canLex(n) {
				continue
			}
			c.sc.addLex(n)
			g.features["class"]++
			p1 := jsPriv[g.r.Intn(len(jsPriv))]
			p2 := jsPriv[g.r.Intn(len(jsPriv))]
			privs := append(append([]string{}, c.privs...), p1)
			var sb strings.Builder
			fmt.Fprintf(&sb, "%sclass %s {\n%s  static $id = %s;\n%s  %s = %s;\n", ind, n, ind, g.newID(), ind, p1, g.newID())
			if p2 != p1 {
				fmt.Fprintf(&sb, "%s  static %s = %s;\n", ind, p2, g.newID())
			}
			ps, pd, args := g.params()
			cs := newScope(c.sc, false) // class body scope: the class name binding
			cs.addLex(n)
			cc := &jctx{sc: cs, strict: true, inClass: true}
			fmt.Fprintf(&sb, "%s  m(%s) {\n%s%s  }\n", ind, pd, g.funcBody(cc, ps, depth+1, ind+"  ", true, privs, true), ind)
			fmt.Fprintf(&sb, "%s}\n%snew %s().m(%s);\n", ind, ind, n, args)
			return sb.String()
		case 10: // label (may coincide with variable names)
			if deep {
				continue
			}
			n := g.name()
			dup := false
			for _, l := range c.labels {
				if l == n {
					dup = true
				}
			}
			if dup {
				continue
			}
			g.features["label"]++
			bc := &jctx{sc: newScope(c.sc, false), labels: append(append([]string{}, c.labels...), n), privs: c.privs, thisOK: c.thisOK, strict: c.strict, inClass: c.inClass, inWith: c.inWith}
			b := g.body(bc, depth+1, ind+"  ", g.r.Range(1, 2))
			return fmt.Sprintf("%s%s: {\n%s%s  if ($v(1)) break %s;\n%s  $p(\"unreachable\");\n%s}\n", ind, n, b, ind, n, ind, ind)
		case 11: // with (sloppy scripts only)
			if g.module || c.strict || c.inClass || deep || g.noWith {
				continue
			}
			n := g.name()
			if g.props && strings.HasSuffix(n, "_") {
				continue // the with-object key would be mangled, the identifier inside the body cannot be
			}
			g.features["with"]++
			ws := newScope(c.sc, false)
			ws.withBoundary = true
			bc := &jctx{sc: ws, labels: c.labels, strict: c.strict, inWith: true}
			return fmt.Sprintf("%swith ({ %s: %s }) {\n%s%s}\n", ind, n, g.newID(), g.body(bc, depth+1, ind+"  ", 1), ind)
		case 12: // destructuring declarations
			n1, n2 := g.name(), g.name()
			if n1 == n2 || !c.sc.canLex(n1) || !c.sc.canLex(n2) {
				continue
			}
			c.sc.addLex(n1)
			c.sc.addLex(n2)
			g.features["destructuring"]++
			return fmt.Sprintf("%slet { k: %s, l: [%s] } = { k: %s, l: [%s] };\n", ind, n1, n2, g.newID(), g.newID())
		case 13: // assignment through a thunk (var-declared names only: assigning a const is a compile error)
			var cand []string
			shadowed := map[string]bool{} // names whose innermost binding is lexical (const, class, function-expression name ...)
			for sc := c.sc; sc != nil; sc = sc.parent {
				if sc.isFunc {
					for n := range sc.vars {
						if !shadowed[n] && !sc.lex[n] {
							cand = append(cand, n)
						}
					}
				}
				for n := range sc.lex {
					shadowed[n] = true
				}
				for n := range sc.vars {
					shadowed[n] = true
				}
			}
			if len(cand) == 0 {
				continue
			}
			sort.Strings(cand)
			an := cand[g.r.Intn(len(cand))]
			if !c.sc.refOK(an) {
				continue
			}
			g.features["assignment"]++
			return fmt.Sprintf("%s$q(%d, () => %s = %s);\n", ind, g.newTag(), an, g.newID())
		case 14: // function in block (read inside the block only)
			if deep {
				continue
			}
			n := g.name()
			bs := newScope(c.sc, false)
			// in sloppy mode the name may also be var-hoisted (Annex B): remember it as a var when that is possible
			if !c.strict && !g.module {
				if g.noFnInBlock || c.inWith {
					continue
				}
				if t := c.sc.varTarget(); t.parent == nil && t.script && scriptTopExclude[n] {
					continue
				}
				if !c.sc.canVar(n) {
					continue // an enclosing block (catch parameter, let, class) binds the name: Annex B corner, recorded finding
				}
				if c.sc.varTarget().params[n] {
					continue // see above
				}
				if c.sc.canVar(n) {
					c.sc.addVar(n)
				}
			}
			bs.addLex(n)
			g.features["function-in-block"]++
			bc := &jctx{sc: bs, labels: c.labels, strict: c.strict, inClass: c.inClass}
			return fmt.Sprintf("%s{\n%s  function %s() {}\n%s  $s(%s, %s);\n%s%s}\n", ind, ind, n, ind, n, g.newID(), g.body(bc, depth+1, ind+"  ", 1), ind)
		case 15: // sibling functions with direct eval (nested placement)
			if deep || g.module || !g.evalSibs || c.inClass || c.inWith || g.sib > 3 {
				continue
			}
			return g.evalSiblings(c, ind)
		default:
			return g.probe(c, ind)
		}
	}
	return g.probe(c, ind)
}

// Two or three sibling functions that each contain a direct eval; the later ones have
// parameters with the short names a minifier hands out first (pinned by their eval) and a
// nested helper WITHOUT eval whose own parameters are renamable and which reads the pinned
// outer names: if a pinned name of a later sibling is not reserved, the helper's parameter
// captures it.
var evalShort = []string{"e", "t", "n", "a", "i", "o", "r", "s", "l", "c", "u", "d"}

func (g *jsgen) evalSiblings(c *jctx, ind string) string {
	g.features["direct-eval-siblings"]++
	var sb strings.Builder
	g.sib++
	nsib := g.r.Range(2, 3)
	var calls []string
	for k := 0; k < nsib; k++ {
		fname := fmt.Sprintf("sibling%d_%d", g.sib, k)
		if c.sc.isFunc {
			c.sc.addVar(fname)
		} else {
			c.sc.addLex(fname)
		}
		// pinned short parameter names
		np := g.r.Range(3, 8)
		perm := append([]string{}, evalShort...)
		for i := len(perm) - 1; i > 0; i-- {
			j := g.r.Intn(i + 1)
			perm[i], perm[j] = perm[j], perm[i]
		}
		ps := perm[:np]
		var args []string
		for range ps {
			args = append(args, g.newID())
		}
		fmt.Fprintf(&sb, "%sfunction %s(%s) {\n", ind, fname, strings.Join(ps, ", "))
		if k > 0 || g.r.Bool() {
			// helper without eval: renamable parameters, reads the pinned outer names
			hname := fmt.Sprintf("helper%d_%d", g.sib, k)
			hp := []string{"valueArg", "extraArg", "thirdArg", "fourthArg"}[:g.r.Range(2, 4)]
			var hargs []string
			for range hp {
				hargs = append(hargs, g.newID())
			}
			fmt.Fprintf(&sb, "%s  function %s(%s) {\n", ind, hname, strings.Join(hp, ", "))
			for _, p := range hp {
				fmt.Fprintf(&sb, "%s    $q(%d, () => $v(%s));\n", ind, g.newTag(), p)
			}
			for _, p := range ps {
				fmt.Fprintf(&sb, "%s    $q(%d, () => $v(%s));\n", ind, g.newTag(), p)
			}
			fmt.Fprintf(&sb, "%s  }\n", ind)
			if g.r.Bool() {
				fmt.Fprintf(&sb, "%s  %s(%s);\n", ind, hname, strings.Join(hargs, ", "))
			} else {
				fmt.Fprintf(&sb, "%s  eval(\"%s(%s)\");\n", ind, hname, strings.ReplaceAll(strings.Join(hargs, ", "), "\"", "'"))
			}
		}
		fmt.Fprintf(&sb, "%s  $q(%d, () => eval(\"$v(%s)\"));\n%s}\n", ind, g.newTag(), ps[g.r.Intn(len(ps))], ind)
		calls = append(calls, fmt.Sprintf("%s%s(%s);\n", ind, fname, strings.Join(args, ", ")))
	}
	for _, cl := range calls {
		sb.WriteString(cl)
	}
	return sb.String()
}

// A sloppy-mode function declared in a block inside a function (its Annex B.3.3 var lives in
// the function scope) followed by sibling scopes - a block and a closure - that declare more
// locals than the block has and READ the block function by name: if the hoisted var and a
// sibling's local end up in one nested slot, the sibling reads its own local instead.
// Fresh long names only (no parameter/catch/with interplay: those are recorded findings).
func (g *jsgen) annexSiblings(c *jctx, ind string) string {
	g.features["annexb-block-function-with-sibling-locals"]++
	g.sib++
	k := g.sib
	fn := fmt.Sprintf("outerFn%d", k)
	blk := fmt.Sprintf("blockFn%d", k)
	if c.sc.isFunc {
		c.sc.addVar(fn)
	} else {
		c.sc.addLex(fn)
	}
	var sb strings.Builder
	fmt.Fprintf(&sb, "%sfunction %s(paramA%d) {\n", ind, fn, k)
	nb := g.r.Intn(3)
	fmt.Fprintf(&sb, "%s  {\n%s    function %s() {}\n%s    $s(%s, %s);\n", ind, ind, blk, ind, blk, g.newID())
	for j := 0; j < nb; j++ {
		fmt.Fprintf(&sb, "%s    let inBlock%d_%d = %s;\n%s    $q(%d, () => $v(inBlock%d_%d));\n", ind, k, j, g.newID(), ind, g.newTag(), k, j)
	}
	fmt.Fprintf(&sb, "%s    $q(%d, () => $v(%s));\n%s  }\n", ind, g.newTag(), blk, ind)
	// sibling block
	ns := nb + g.r.Range(1, 3)
	fmt.Fprintf(&sb, "%s  {\n", ind)
	for j := 0; j < ns; j++ {
		fmt.Fprintf(&sb, "%s    let sibLocal%d_%d = %s;\n", ind, k, j, g.newID())
	}
	fmt.Fprintf(&sb, "%s    $q(%d, () => $v(%s));\n", ind, g.newTag(), blk)
	for j := 0; j < ns; j++ {
		fmt.Fprintf(&sb, "%s    $q(%d, () => $v(sibLocal%d_%d));\n", ind, g.newTag(), k, j)
	}
	fmt.Fprintf(&sb, "%s  }\n", ind)
	// sibling closure
	nc := nb + g.r.Range(1, 3)
	fmt.Fprintf(&sb, "%s  (function (closArg%d) {\n", ind, k)
	for j := 0; j < nc; j++ {
		fmt.Fprintf(&sb, "%s    let closLocal%d_%d = %s;\n", ind, k, j, g.newID())
	}
	fmt.Fprintf(&sb, "%s    $q(%d, () => $v(%s));\n%s    $q(%d, () => typeof %s === \"function\" ? $v(%s) : \"none\");\n", ind, g.newTag(), blk, ind, g.newTag(), blk, blk)
	for j := 0; j < nc; j++ {
		fmt.Fprintf(&sb, "%s    $q(%d, () => $v(closLocal%d_%d));\n", ind, g.newTag(), k, j)
	}
	fmt.Fprintf(&sb, "%s  })(%s);\n%s  $q(%d, () => $v(%s));\n%s}\n%s%s(%s);\n", ind, g.newID(), ind, g.newTag(), blk, ind, ind, fn, g.newID())
	return sb.String()
}

// a whole script (classic script: runs in a vm context)
func (g *jsgen) script(nstmts int) (src string, top []string) {
	ts := newScope(nil, true)
	ts.script = true
	c := &jctx{sc: ts}
	g.budget = nstmts * 6
	var sb strings.Builder
	sb.WriteString(progPrelude)
	sb.WriteString(globalsPrelude())
	if g.props {
		fmt.Fprintf(&sb, "$g.$o = { foo_: %s, bar_: %s, a_: %s, x2_: %s, baz_: %s, a: \"pa\", b: \"pb\", e: \"pe\" };\n", g.newID(), g.newID(), g.newID(), g.newID(), g.newID())
	}
	if g.evalSibs && g.r.Bool() {
		sb.WriteString(g.evalSiblings(c, ""))
	}
	if g.annexSibs {
		sb.WriteString(g.annexSiblings(c, ""))
	}
	sb.WriteString(g.body(c, 0, "", nstmts))
	if g.evalSibs {
		sb.WriteString(g.evalSiblings(c, ""))
	}
	return sb.String(), ts.all
}

// ---- ES module graphs for bundling: every file declares the same few
// top-level names; file i imports from files j > i (no cycles)

type modFile struct {
	name    string
	src     string
	exports []string // export aliases
}

func (g *jsgen) moduleFiles(nfiles int) []modFile {
	files := make([]modFile, nfiles)
	for idx := nfiles - 1; idx >= 0; idx-- {
		ts := newScope(nil, true)
		c := &jctx{sc: ts, strict: true}
		var sb strings.Builder
		// imports
		for j := idx + 1; j < nfiles; j++ {
			if len(files[j].exports) == 0 || g.r.Chance(25) {
				if g.r.Chance(50) {
					fmt.Fprintf(&sb, "import \"./%s\";\n", files[j].name)
				}
				continue
			}
			if g.r.Chance(25) {
				ns := g.name()
				if ts.canLex(ns) {
					ts.lex[ns] = true
					g.features["import-namespace"]++
					fmt.Fprintf(&sb, "import * as %s from \"./%s\";\n", ns, files[j].name)
					ex := files[j].exports[g.r.Intn(len(files[j].exports))]
					fmt.Fprintf(&sb, "$q(%d, () => $v(%s.%s));\n", g.newTag(), ns, ex)
					continue
				}
			}
			var items []string
			for _, ex := range files[j].exports {
				local := ex
				if g.r.Chance(50) {
					local = g.name()
				}
				if !ts.canLex(local) || g.r.Chance(30) {
					continue
				}
				ts.addLex(local)
				if local == ex {
					items = append(items, ex)
				} else {
					items = append(items, ex+" as "+local)
				}
			}
			g.features["import-named"]++
			fmt.Fprintf(&sb, "import { %s } from \"./%s\";\n", strings.Join(items, ", "), files[j].name)
		}
		// declaration prefix: the same pool names in every file
		var own []string
		for k := g.r.Range(2, 4); k > 0; k-- {
			n := jsPool[g.r.Intn(7)]
			if !ts.canLex(n) || !ts.canVar(n) {
				continue
			}
			own = append(own, n)
			switch g.r.Intn(5) {
			case 0:
				ts.addVar(n)
				fmt.Fprintf(&sb, "var %s = %s;\n", n, g.newID())
			case 1:
				ts.addLex(n)
				fmt.Fprintf(&sb, "let %s = %s;\n", n, g.newID())
			case 2:
				ts.addLex(n)
				fmt.Fprintf(&sb, "const %s = %s;\n", n, g.newID())
			case 3:
				ts.addVar(n)
				fmt.Fprintf(&sb, "function %s() { return %d; }\n$s(%s, %s);\n", n, g.newTag(), n, g.newID())
			default:
				ts.addLex(n)
				fmt.Fprintf(&sb, "class %s { static $id = %s; }\n", n, g.newID())
			}
		}
		ts.frozen = true
		g.budget = 14
		sb.WriteString(g.body(c, 0, "", g.r.Range(2, 4)))
		// exports
		var exps, aliases []string
		used := map[string]bool{}
		for _, n := range own {
			if g.r.Chance(70) {
				alias := n
				if g.r.Chance(40) {
					alias = g.name()
				}
				if used[alias] {
					continue
				}
				used[alias] = true
				aliases = append(aliases, alias)
				if alias == n {
					exps = append(exps, n)
				} else {
					exps = append(exps, n+" as "+alias)
				}
			}
		}
		if len(exps) > 0 {
			g.features["export"]++
			fmt.Fprintf(&sb, "export { %s };\n", strings.Join(exps, ", "))
		}
		files[idx] = modFile{name: fmt.Sprintf("f%d.mjs", idx), src: sb.String(), exports: aliases}
	}
	return files
}
