package main

// Correspondence side of C15: random scope trees + symbol tables are built as
// real js_ast.Scope / ast.SymbolMap values, the real renamers are run on them,
// and (input, observed output) pairs are emitted for the Coq model. The
// property's own predicate (no two visible symbols share a name / slot, no
// reserved name) is also evaluated here on the observed output.

import (
	"fmt"
	"sort"
	"strings"

	"github.com/evanw/esbuild/internal/ast"
	"github.com/evanw/esbuild/internal/config"
	"github.com/evanw/esbuild/internal/js_ast"
	"github.com/evanw/esbuild/internal/js_lexer"
	"github.com/evanw/esbuild/internal/js_parser"
	"github.com/evanw/esbuild/internal/logger"
	"github.com/evanw/esbuild/internal/renamer"
	. "github.com/evanw/esbuild/verifharness/hlib"
)

type gsym struct {
	name       string
	kind       ast.SymbolKind
	flags      ast.SymbolFlags
	link       int // global id or -1
	src, inner int
}

type gscope struct {
	members    []int
	generated  []int
	label      int
	directEval bool
	children   []*gscope
	parent     *gscope
}

type world struct {
	source  string // the program js_parser built this world from (parsed worlds)
	syms    []gsym
	base    []int // first global id of every source
	modules []*gscope
	wfBreak bool
}

var namePool = []string{"x", "y", "a", "b", "e", "t", "x2", "x3", "a2", "$", "_", "foo", "foo2", "x22", "n", "i", "C", "A", "require", "Promise", "exports", "module", "arguments", "let", "x1", "x02"}
var oddNames = []string{"a-b", "1x", "x.y", "./a.js", "import_a-b", "x y", "", "-", "9", "a/b/c", "foo$", "_2"}
var privNames = []string{"#p", "#q", "#x", "#a-b", "#1", "#x2", "#p2"}

func (w *world) pinned(id int) bool {
	s := w.syms[id]
	return s.kind == ast.SymbolUnbound || s.flags.Has(ast.MustNotBeRenamed)
}

func (w *world) ns(id int) int {
	s := w.syms[id]
	switch {
	case w.pinned(id):
		return 4
	case s.kind.IsPrivate():
		return 2
	case s.kind == ast.SymbolLabel:
		return 1
	case s.kind == ast.SymbolMangledProp:
		return 3
	}
	return 0
}

func (w *world) follow(id int) int {
	for w.syms[id].link >= 0 {
		id = w.syms[id].link
	}
	return id
}

func genWorld(r *Rng, maxSources int) *world {
	w := &world{}
	nsrc := r.Range(1, maxSources)
	var topOfEarlier []int
	for si := 0; si < nsrc; si++ {
		w.base = append(w.base, len(w.syms))
		newSym := func(name string, kind ast.SymbolKind, flags ast.SymbolFlags) int {
			id := len(w.syms)
			w.syms = append(w.syms, gsym{name: name, kind: kind, flags: flags, link: -1, src: si, inner: id - w.base[si]})
			return id
		}
		pickName := func() string {
			if r.Chance(8) {
				return oddNames[r.Intn(len(oddNames))]
			}
			if r.Chance(60) {
				return namePool[r.Intn(9)]
			}
			return namePool[r.Intn(len(namePool))]
		}
		freshMember := func() int {
			name := pickName()
			kind := ast.SymbolOther
			var flags ast.SymbolFlags
			switch r.Intn(14) {
			case 0:
				kind = ast.SymbolHoisted
			case 1:
				kind = ast.SymbolPrivateField
				name = privNames[r.Intn(len(privNames))]
			case 2:
				flags |= ast.MustNotBeRenamed
			case 3:
				flags |= ast.MustStartWithCapitalLetterForJSX
			case 4:
				kind = ast.SymbolHoistedFunction
			case 5:
				if r.Chance(30) {
					kind = ast.SymbolMangledProp
				}
			}
			if name == "" && kind != ast.SymbolPrivateField {
				name = "_"
			}
			return newSym(name, kind, flags)
		}
		mod := &gscope{label: -1}
		w.modules = append(w.modules, mod)
		for k := r.Range(0, 5); k > 0; k-- {
			id := freshMember()
			if r.Chance(25) {
				w.syms[id].kind = ast.SymbolUnbound
				w.syms[id].flags = 0
				if w.syms[id].name == "" || strings.HasPrefix(w.syms[id].name, "#") {
					w.syms[id].name = "g"
				}
			}
			mod.members = append(mod.members, id)
			if len(topOfEarlier) > 0 && r.Chance(12) && w.syms[id].kind != ast.SymbolUnbound {
				w.syms[id].link = topOfEarlier[r.Intn(len(topOfEarlier))]
			}
		}
		if r.Chance(30) {
			mod.generated = append(mod.generated, newSym(oddNames[r.Intn(len(oddNames)-1)]+"z", ast.SymbolOther, 0))
		}
		var all []*gscope
		var gen func(parent *gscope, depth int)
		gen = func(parent *gscope, depth int) {
			nch := r.Range(0, 2)
			if depth == 0 {
				nch = r.Range(1, 3)
			}
			if depth >= 3 || len(w.syms)-w.base[si] > 25 {
				nch = 0
			}
			for c := 0; c < nch; c++ {
				sc := &gscope{label: -1, parent: parent}
				parent.children = append(parent.children, sc)
				all = append(all, sc)
				if r.Chance(12) {
					// label scope: no members, a fresh label symbol
					sc.label = newSym(namePool[r.Intn(8)], ast.SymbolLabel, 0)
				} else {
					for k := r.Range(0, 3); k > 0; k-- {
						sc.members = append(sc.members, freshMember())
					}
					if r.Chance(15) {
						sc.generated = append(sc.generated, newSym(pickName(), ast.SymbolOther, 0))
					}
					if r.Chance(15) {
						// the shape of a sloppy-mode function in a block (Annex B.3.3): a generated
						// hoisted symbol listed in this scope's Generated AND a member of the parent
						// scope, followed by a sibling scope with more locals than this scope has
						id := newSym(pickName(), ast.SymbolHoisted, 0)
						if w.syms[id].name == "" {
							w.syms[id].name = "h"
						}
						parent.members = append(parent.members, id)
						sc.generated = append(sc.generated, id)
						sib := &gscope{label: -1, parent: parent}
						parent.children = append(parent.children, sib)
						all = append(all, sib)
						for k := len(sc.members) + r.Range(1, 3); k > 0; k-- {
							sib.members = append(sib.members, newSym(pickName(), ast.SymbolOther, 0))
						}
					}
					if r.Chance(25) {
						// hoisted var: member of this scope and of a run of ancestors
						id := newSym(pickName(), ast.SymbolHoisted, 0)
						if w.syms[id].name == "" {
							w.syms[id].name = "v"
						}
						sc.members = append(sc.members, id)
						up := r.Intn(4)
						for p := sc.parent; p != nil && up > 0; p, up = p.parent, up-1 {
							p.members = append(p.members, id)
						}
					}
				}
				gen(sc, depth+1)
			}
		}
		gen(mod, 0)
		// direct eval in one to three scopes (often siblings, so that a scope has several
		// direct-eval children): flag each scope and its ancestors, pin most symbols on the
		// chains, and give the pinned symbols of the eval scopes themselves the short names
		// the minifier generates first
		if len(all) > 0 && r.Chance(35) {
			k := r.Range(1, 3)
			var picked []*gscope
			first := all[r.Intn(len(all))]
			picked = append(picked, first)
			for len(picked) < k {
				var cand []*gscope
				if first.parent != nil && r.Chance(70) {
					for _, sib := range first.parent.children {
						if sib != first {
							cand = append(cand, sib)
						}
					}
				}
				if len(cand) == 0 {
					cand = all
				}
				picked = append(picked, cand[r.Intn(len(cand))])
			}
			short := []string{"a", "b", "e", "t", "n", "i", "o", "r", "s", "c"}
			for _, sc := range picked {
				if sc.label >= 0 {
					continue
				}
				for k := r.Range(0, 2); k > 0; k-- { // extra pinned short names in the eval scope itself
					sc.members = append(sc.members, newSym(short[r.Intn(len(short))], ast.SymbolOther, ast.MustNotBeRenamed))
				}
				for p := sc; p != nil; p = p.parent {
					p.directEval = true
					for _, id := range p.members {
						if r.Chance(85) && w.syms[id].kind != ast.SymbolLabel {
							w.syms[id].flags |= ast.MustNotBeRenamed
						}
					}
				}
				// a renamable symbol in a non-eval scope below the eval scope
				if r.Chance(60) {
					child := &gscope{label: -1, parent: sc}
					sc.children = append(sc.children, child)
					all = append(all, child)
					for k := r.Range(1, 3); k > 0; k-- {
						child.members = append(child.members, newSym(namePool[r.Intn(len(namePool))], ast.SymbolOther, 0))
					}
				}
			}
		}
		// nested links inside the same source (to a smaller id; never for labels)
		if r.Chance(15) && len(w.syms)-w.base[si] > 3 {
			a := w.base[si] + 1 + r.Intn(len(w.syms)-w.base[si]-1)
			b := w.base[si] + r.Intn(a-w.base[si])
			if w.syms[a].kind != ast.SymbolLabel && w.syms[b].kind != ast.SymbolLabel && w.syms[b].link < 0 {
				w.syms[a].link = b
			}
		}
		// occasionally break well-formedness: a symbol reused in an unrelated scope
		if len(all) > 1 && r.Chance(10) {
			a, b := all[r.Intn(len(all))], all[r.Intn(len(all))]
			if len(a.members) > 0 && a != b && b.label < 0 {
				b.members = append(b.members, a.members[r.Intn(len(a.members))])
				w.wfBreak = true
			}
		}
		for _, id := range mod.members {
			if w.syms[id].link < 0 {
				topOfEarlier = append(topOfEarlier, id)
			}
		}
	}
	return w
}

// ---- conversion to the real data structures

func (w *world) ref(id int) ast.Ref {
	s := w.syms[id]
	return ast.Ref{SourceIndex: uint32(s.src), InnerIndex: uint32(s.inner)}
}

func (w *world) symbolMap() ast.SymbolMap {
	sm := ast.NewSymbolMap(len(w.base))
	for si := range w.base {
		end := len(w.syms)
		if si+1 < len(w.base) {
			end = w.base[si+1]
		}
		arr := make([]ast.Symbol, end-w.base[si])
		for id := w.base[si]; id < end; id++ {
			s := w.syms[id]
			link := ast.InvalidRef
			if s.link >= 0 {
				link = w.ref(s.link)
			}
			arr[id-w.base[si]] = ast.Symbol{OriginalName: s.name, Kind: s.kind, Flags: s.flags, Link: link}
		}
		sm.SymbolsForSource[si] = arr
	}
	return sm
}

func (w *world) realScope(g *gscope, parent *js_ast.Scope, r *Rng) *js_ast.Scope {
	sc := &js_ast.Scope{Parent: parent, Members: map[string]js_ast.ScopeMember{}, ContainsDirectEval: g.directEval}
	sc.Label.Ref = ast.InvalidRef
	order := append([]int{}, g.members...)
	for i := len(order) - 1; i > 0; i-- { // insertion order is irrelevant for a map; shuffle anyway
		j := r.Intn(i + 1)
		order[i], order[j] = order[j], order[i]
	}
	for k, id := range order {
		sc.Members[fmt.Sprintf("%s#%d#%d", w.syms[id].name, id, k)] = js_ast.ScopeMember{Ref: w.ref(id)}
	}
	for _, id := range g.generated {
		sc.Generated = append(sc.Generated, w.ref(id))
	}
	if g.label >= 0 {
		sc.Label.Ref = w.ref(g.label)
		sc.Kind = js_ast.ScopeLabel
	}
	for _, c := range g.children {
		sc.Children = append(sc.Children, w.realScope(c, sc, r))
	}
	return sc
}

// ---- Coq printing

func (w *world) coqSyms() string {
	var l []string
	for id, s := range w.syms {
		l = append(l, fmt.Sprintf("(%s,%d,%d,%s,%d,%d)", cname(s.name), w.ns(id), s.link, CBool(s.flags.Has(ast.MustStartWithCapitalLetterForJSX)), s.src, s.inner))
	}
	return "[" + strings.Join(l, ";") + "]"
}

func coqInts(l []int) string {
	var p []string
	for _, v := range l {
		p = append(p, fmt.Sprint(v))
	}
	return "[" + strings.Join(p, ";") + "]"
}

func coqScope(g *gscope) string {
	var ch []string
	for _, c := range g.children {
		ch = append(ch, coqScope(c))
	}
	return fmt.Sprintf("(ZS %s %s (%d) %s [%s])", coqInts(g.members), coqInts(g.generated), g.label, CBool(g.directEval), strings.Join(ch, ";"))
}

func coqScopes(gs []*gscope) string {
	var l []string
	for _, g := range gs {
		l = append(l, coqScope(g))
	}
	return "[" + strings.Join(l, ";") + "]"
}

func coqNames(l []string) string {
	var p []string
	for _, s := range l {
		p = append(p, cname(s))
	}
	return "[" + strings.Join(p, ";") + "]"
}

func (w *world) describe() map[string]interface{} {
	var syms []string
	for id, s := range w.syms {
		syms = append(syms, fmt.Sprintf("%d:%q ns=%d link=%d jsx=%v", id, s.name, w.ns(id), s.link, s.flags.Has(ast.MustStartWithCapitalLetterForJSX)))
	}
	d := map[string]interface{}{"symbols": syms, "module_scopes": coqScopes(w.modules)}
	if w.source != "" {
		d["program"] = w.source
		d["api"] = "js_parser.Parse + renamer.AssignNestedScopeSlots"
	}
	return d
}

// ---- harness-side oracle helpers (mirror Spec.v)

func sortedInts(l []int) []int {
	o := append([]int{}, l...)
	sort.Ints(o)
	return o
}

func (w *world) canonDecls(g *gscope) []int {
	var o []int
	for _, id := range sortedInts(g.members) {
		o = append(o, w.follow(id))
	}
	for _, id := range g.generated {
		o = append(o, w.follow(id))
	}
	return o
}

func contains(l []int, x int) bool {
	for _, v := range l {
		if v == x {
			return true
		}
	}
	return false
}

// well-formedness + visibility sets for the number renamer input
func (w *world) visNumber(top []int, nested []*gscope) (sets [][]int, wf bool) {
	wf = true
	seen := map[int]bool{}
	var vis []int
	add := func(vis []int, refs []int) []int {
		for _, r := range refs {
			if seen[r] && !contains(vis, r) {
				wf = false
			}
			vis = append(vis, r)
			seen[r] = true
		}
		return vis
	}
	var ct []int
	for _, id := range top {
		ct = append(ct, w.follow(id))
	}
	vis = add(vis, ct)
	var walk func(g *gscope, vis []int)
	walk = func(g *gscope, vis []int) {
		v := add(append([]int{}, vis...), w.canonDecls(g))
		sets = append(sets, v)
		for _, c := range g.children {
			walk(c, v)
		}
	}
	for _, g := range nested {
		walk(g, vis)
	}
	return
}

func sameSpace(a, b int) bool { return a == b && (a == 0 || a == 2) }

// harness-side statement of what must be reserved: the pinned names of every scope of the
// module scope trees (free names, eval-visible names, names referenced in `with`, arguments)
func (w *world) evalPinnedNames() map[string]bool {
	out := map[string]bool{}
	var walk func(g *gscope)
	walk = func(g *gscope) {
		for _, id := range append(append([]int{}, g.members...), g.generated...) {
			if w.pinned(id) {
				out[w.syms[id].name] = true
			}
		}
		for _, c := range g.children {
			walk(c)
		}
	}
	for _, m := range w.modules {
		walk(m)
	}
	return out
}

// ---- the correspondence families

// reserved names are emitted as (number of keyword/strict-mode keys present, other keys):
// the Coq side prepends its regenerated keyword tables
func splitReserved(m map[string]uint32) (int, []string) {
	nbase := 0
	var extra []string
	for k := range m {
		_, kw := js_lexer.Keywords[k]
		if kw || js_lexer.StrictModeReservedWords[k] {
			nbase++
		} else {
			extra = append(extra, k)
		}
	}
	sort.Strings(extra)
	return nbase, extra
}

func coqReserved(m map[string]uint32) string {
	nb, extra := splitReserved(m)
	return fmt.Sprintf("(%d,%s)", nb, coqNames(extra))
}

func genRenamerCases(r *Rng, n int, st *Stats, cf *caseSink) {
	var resItems, numItems, slotItems, minItems []string
	nw := n / 6
	if nw < 20 {
		nw = 20
	}
	// worlds taken from the REAL parser: scope trees and symbol tables that js_parser builds
	// for generated programs (these must be well-formed in the sense of Spec.v), followed by
	// random worlds
	worlds := parsedWorlds(r, nw/2, st)
	var wfItems []string
	nparsed := len(worlds)
	for len(worlds) < nparsed+nw {
		worlds = append(worlds, genWorld(r, 3))
	}
	for i, w := range worlds {
		symsCoq := fmt.Sprintf("w%d_syms", i)
		if i < nparsed {
			wfItems = append(wfItems, fmt.Sprintf("(%s,%s)", symsCoq, coqScope(w.modules[0])))
			st.Note("parsed-forest", symsCoq+coqScope(w.modules[0]), len(w.syms) > 4)
		}
		fmt.Fprintf(&cf.preamble, "Definition %s : list zsym := %s.\n", symsCoq, w.coqSyms())

		// (a) ComputeReservedNames
		symbols := w.symbolMap()
		var mods []*js_ast.Scope
		for _, m := range w.modules {
			mods = append(mods, w.realScope(m, nil, r))
		}
		reservedMap := renamer.ComputeReservedNames(mods, symbols)
		var reserved []string
		for k := range reservedMap {
			reserved = append(reserved, k)
		}
		sort.Strings(reserved)
		reservedCoq := coqReserved(reservedMap)
		resItems = append(resItems, fmt.Sprintf("(%s,%s,%s)", symsCoq, coqScopes(w.modules), reservedCoq))
		st.Note("reserved", symsCoq+coqScopes(w.modules), len(reserved) > 45)

		// (b) NumberRenamer
		{
			nr := renamer.NewNumberRenamer(symbols, reservedMap) // mutates reservedMap (it is the root scope)
			var top []int
			var nested []*gscope
			nestedReal := map[uint32][]*js_ast.Scope{}
			// a wrapped file's module scope is renamed concurrently with the other files: the files
			// must then touch disjoint symbols (no links across files), as in the linker
			crossLinks := false
			for _, sy := range w.syms {
				if sy.link >= 0 && w.syms[sy.link].src != sy.src {
					crossLinks = true
				}
			}
			for si, m := range w.modules {
				if !crossLinks && r.Chance(20) && len(m.members) > 0 {
					// "wrapped" file: only one top-level symbol, the module scope itself is nested
					id := m.members[r.Intn(len(m.members))]
					top = append(top, id)
					nr.AddTopLevelSymbol(w.ref(id))
					nested = append(nested, m)
					nestedReal[uint32(si)] = []*js_ast.Scope{mods[si]}
					continue
				}
				order := append(append([]int{}, m.members...), m.generated...)
				for a := len(order) - 1; a > 0; a-- {
					b := r.Intn(a + 1)
					order[a], order[b] = order[b], order[a]
				}
				for _, id := range order {
					top = append(top, id)
					nr.AddTopLevelSymbol(w.ref(id))
				}
				nested = append(nested, m.children...)
				nestedReal[uint32(si)] = mods[si].Children
			}
			nr.AssignNamesByScope(nestedReal)
			var got []string
			for id := range w.syms {
				got = append(got, nr.NameForSymbol(w.ref(id)))
			}
			numItems = append(numItems, fmt.Sprintf("(%s,%s,%s,%s,%s)", symsCoq, reservedCoq, coqInts(top), coqScopes(nested), coqNames(got)))
			st.Note("number", symsCoq+coqScopes(nested)+coqInts(top), len(w.syms) > 3)
			// the property's predicate on the observed names
			sets, wf := w.visNumber(top, nested)
			if wf {
				st.Histogram["number-wf"]++
				resSet := map[string]bool{}
				for _, k := range reserved {
					resSet[k] = true
				}
				bad := ""
				for _, v := range sets {
					for a := 0; a < len(v) && bad == ""; a++ {
						for b := a + 1; b < len(v); b++ {
							if v[a] != v[b] && sameSpace(w.ns(v[a]), w.ns(v[b])) && got[v[a]] == got[v[b]] {
								bad = fmt.Sprintf("symbols %d and %d are visible in one scope and both named %q", v[a], v[b], got[v[a]])
								break
							}
						}
					}
				}
				mustKeep := w.evalPinnedNames()
				for id := range w.syms {
					if c := w.follow(id); c == id && (w.ns(id) == 0 || w.ns(id) == 2) && got[id] != w.syms[id].name && (resSet[got[id]] || mustKeep[got[id]]) {
						bad = fmt.Sprintf("symbol %d renamed to the reserved (pinned / free) name %q", id, got[id])
					}
				}
				if bad != "" {
					d := w.describe()
					d["toplevel"] = top
					d["nested"] = coqScopes(nested)
					d["names"] = got
					st.Fail("number-renamer-collision", d, bad, "distinct names for distinct visible symbols; no reserved names")
				}
			}
		}

		// (c) AssignNestedScopeSlots per source, (d) MinifyRenamer
		func() {
			defer func() {
				if e := recover(); e != nil {
					d := w.describe()
					st.Fail("renamer-panic", d, fmt.Sprint(e), "no panic in AssignNestedScopeSlots / MinifyRenamer on a scope forest")
				}
			}()
			symbols2 := w.symbolMap()
			var mods2 []*js_ast.Scope
			for _, m := range w.modules {
				mods2 = append(mods2, w.realScope(m, nil, r))
			}
			var first ast.SlotCounts
			slotOf := make([]int64, len(w.syms))
			for si, m := range w.modules {
				counts := renamer.AssignNestedScopeSlots(mods2[si], symbols2.SymbolsForSource[si])
				first.UnionMax(counts)
				per := make([]int64, len(w.syms))
				for id := range w.syms {
					per[id] = -1
					if w.syms[id].src == si {
						if s := symbols2.SymbolsForSource[si][w.syms[id].inner].NestedScopeSlot; s.IsValid() {
							per[id] = int64(s.GetIndex())
						}
					}
				}
				for id := range w.syms {
					if w.syms[id].src == si {
						slotOf[id] = per[id]
					}
				}
				slotItems = append(slotItems, fmt.Sprintf("(%s,%s,%s,[%d;%d;%d;%d])", symsCoq, coqScope(m), CZList(per), counts[0], counts[1], counts[2], counts[3]))
				st.Note("slots", symsCoq+coqScope(m), counts[0] > 1)
				w.checkSlots(m, per, st)
			}
			reservedMap2 := renamer.ComputeReservedNames(mods2, symbols2)
			mr := renamer.NewMinifyRenamer(symbols2, first, reservedMap2)
			stable := make([]uint32, len(w.base))
			perm := make([]int, len(w.base))
			for a := range perm {
				perm[a] = a
			}
			for a := len(perm) - 1; a > 0; a-- {
				b := r.Intn(a + 1)
				perm[a], perm[b] = perm[b], perm[a]
			}
			var stableL []int64
			for a := range stable {
				stable[a] = uint32(perm[a])
				stableL = append(stableL, int64(perm[a]))
			}
			useStr := func(u [][2]int) string {
				var l []string
				for _, p := range u {
					l = append(l, fmt.Sprintf("(%d,%d)", p[0], p[1]))
				}
				return "[" + strings.Join(l, ";") + "]"
			}
			randCount := func() int {
				switch r.Intn(4) {
				case 0:
					return 1
				case 1:
					return r.Intn(3)
				default:
					return r.Intn(12)
				}
			}
			var pre [][2]int
			usedTop := map[int]bool{}
			counted := map[int]bool{}
			var allTop renamer.StableSymbolCountArray
			for k := r.Intn(3); k > 0 && len(w.syms) > 0; k-- {
				id := r.Intn(len(w.syms))
				pre = append(pre, [2]int{id, 1})
				usedTop[w.follow(id)] = true
				counted[w.follow(id)] = true
				mr.AccumulateSymbolCount(&allTop, w.ref(id), 1, stable)
			}
			var groups []string
			for si := range w.base {
				var g [][2]int
				var arr renamer.StableSymbolCountArray
				end := len(w.syms)
				if si+1 < len(w.base) {
					end = w.base[si+1]
				}
				for id := w.base[si]; id < end; id++ {
					if w.syms[id].kind == ast.SymbolLabel && w.syms[id].link >= 0 {
						continue
					}
					for k := r.Range(0, 2); k > 0; k-- {
						c := randCount()
						g = append(g, [2]int{id, c})
						usedTop[w.follow(id)] = true
						counted[w.follow(id)] = true
						mr.AccumulateSymbolCount(&arr, w.ref(id), uint32(c), stable)
					}
				}
				sort.Sort(&arr)
				allTop = append(allTop, arr...)
				groups = append(groups, useStr(g))
			}
			mr.AllocateTopLevelSymbolSlots(allTop)
			var freq ast.CharFreq
			var fl []int64
			for a := range freq {
				if r.Chance(60) {
					freq[a] = int32(r.Intn(50))
				}
				fl = append(fl, int64(freq[a]))
			}
			minifier := ast.DefaultNameMinifierJS.ShuffleByCharFreq(freq)
			mr.AssignNamesByFrequency(&minifier)
			var got []string
			for id := range w.syms {
				got = append(got, mr.NameForSymbol(w.ref(id)))
			}
			minItems = append(minItems, fmt.Sprintf("(%s,%s,[%d;%d;%d;%d],%s,%s,%s,%s,[%s],%s)", symsCoq, CZList(slotOf), first[0], first[1], first[2], first[3],
				CZList(stableL), coqReserved(reservedMap2), CZList(fl), useStr(pre), strings.Join(groups, ";"), coqNames(got)))
			st.Note("minify", symsCoq+CZList(fl)+strings.Join(groups, ";"), len(w.syms) > 3)
			w.checkMinify(slotOf, usedTop, counted, got, reservedMap2, st)
		}()
	}
	cf.add("parsedwf_cases", "list zsym * zscope", "check_parsedwf", wfItems)
	cf.add("reserved_cases", "list zsym * list zscope * (Z * list name)", "check_reserved", resItems)
	cf.add("number_cases", "list zsym * (Z * list name) * list Z * list zscope * list name", "check_number", numItems)
	cf.add("slots_cases", "list zsym * zscope * list Z * list Z", "check_slots", slotItems)
	cf.add("minify_cases", "list zsym * list Z * list Z * list Z * (Z * list name) * list Z * list (Z * Z) * list (list (Z * Z)) * list name", "check_minify", minItems)
}

// slots: two distinct symbols of one name space visible in one scope must not share a slot
func (w *world) checkSlots(mod *gscope, slot []int64, st *Stats) {
	wf := true
	seen := map[int]bool{}
	top := append(append([]int{}, mod.members...), mod.generated...)
	for _, id := range top {
		seen[id] = true
	}
	var sets [][]int
	var walk func(g *gscope, vis []int)
	walk = func(g *gscope, vis []int) {
		v := append([]int{}, vis...)
		for _, id := range append(sortedInts(g.members), g.generated...) {
			if seen[id] && !contains(v, id) {
				wf = false
			}
			v = append(v, id)
			seen[id] = true
		}
		if g.label >= 0 {
			if seen[g.label] {
				wf = false
			}
			v = append(v, g.label)
			seen[g.label] = true
		}
		sets = append(sets, v)
		for _, c := range g.children {
			walk(c, v)
		}
	}
	for _, c := range mod.children {
		walk(c, top)
	}
	if !wf {
		return
	}
	st.Histogram["slots-wf"]++
	for _, v := range sets {
		for a := 0; a < len(v); a++ {
			for b := a + 1; b < len(v); b++ {
				if v[a] != v[b] && slot[v[a]] >= 0 && slot[v[b]] >= 0 && w.ns(v[a]) == w.ns(v[b]) && slot[v[a]] == slot[v[b]] {
					d := w.describe()
					d["module_scope"] = coqScope(mod)
					st.Fail("nested-slot-collision", d, fmt.Sprintf("symbols %d and %d share slot %d", v[a], v[b], slot[v[a]]), "distinct slots on a scope chain")
					return
				}
			}
		}
	}
}

// minified names: symbols of one name space in different slots get different
// names (same slot: same name, by design, for symbols never visible together);
// a top-level symbol differs from every other symbol of its name space;
// default names are never reserved; JSX names are capitalised; pinned symbols
// keep their names
func (w *world) checkMinify(slotOf []int64, usedTop, counted map[int]bool, got []string, reserved map[string]uint32, st *Stats) {
	fail := func(kind, msg, expect string) {
		d := w.describe()
		d["names"] = got
		d["nested_slots"] = slotOf
		st.Fail(kind, d, msg, expect)
	}
	named := func(id int) bool { return slotOf[id] >= 0 || usedTop[id] }
	mustKeep := w.evalPinnedNames()
	for id := range w.syms {
		if w.follow(id) != id {
			continue
		}
		nsid := w.ns(id)
		if nsid == 4 {
			if got[id] != w.syms[id].name {
				fail("pinned-symbol-renamed", got[id], w.syms[id].name)
				return
			}
			continue
		}
		if !named(id) {
			continue
		}
		if nsid == 0 && reserved[got[id]] != 0 {
			fail("minified-name-reserved", fmt.Sprintf("symbol %d got the reserved name %q", id, got[id]), "a name outside the reserved set")
			return
		}
		if nsid == 0 && mustKeep[got[id]] {
			fail("minified-name-captures-pinned-name", fmt.Sprintf("symbol %d got the name %q of a pinned symbol (module scope or direct-eval chain)", id, got[id]), "a name different from every pinned name of the module scopes and their direct-eval chains")
			return
		}
		if nsid == 0 && counted[id] && w.syms[id].flags.Has(ast.MustStartWithCapitalLetterForJSX) && got[id] != "" && got[id][0] >= 'a' && got[id][0] <= 'z' {
			fail("jsx-name-not-capitalised", got[id], "first character not in a-z")
			return
		}
	}
	for a := range w.syms {
		if w.follow(a) != a || w.ns(a) == 4 || !named(a) {
			continue
		}
		for b := a + 1; b < len(w.syms); b++ {
			if w.follow(b) != b || w.ns(b) != w.ns(a) || !named(b) {
				continue
			}
			bothNested := slotOf[a] >= 0 && slotOf[b] >= 0
			if bothNested && (slotOf[a] == slotOf[b]) != (got[a] == got[b]) {
				fail("minified-slot-name-mismatch", fmt.Sprintf("symbols %d (slot %d, %q) and %d (slot %d, %q)", a, slotOf[a], got[a], b, slotOf[b], got[b]), "same slot <=> same name inside one name space")
				return
			}
			if !bothNested && got[a] == got[b] {
				fail("minified-top-level-collision", fmt.Sprintf("symbols %d and %d both named %q", a, b, got[a]), "a top-level name differs from every other name of its name space")
				return
			}
		}
	}
}

// ---- ExportRenamer
func genExportCases(r *Rng, n int, st *Stats, cf *caseSink) {
	var items []string
	pool := []string{"x", "x2", "x3", "y", "default", "x22", "a", "a2", "x1", "x02", "y2"}
	for i := 0; i < n/4+10; i++ {
		var er renamer.ExportRenamer
		var req, got []string
		seen := map[string]bool{}
		for k := r.Range(1, 14); k > 0; k-- {
			nm := pool[r.Intn(len(pool))]
			if r.Chance(50) {
				nm = pool[r.Intn(3)]
			}
			g := er.NextRenamedName(nm)
			if seen[g] {
				st.Fail("export-alias-collision", req, g, "pairwise distinct export aliases")
			}
			seen[g] = true
			req = append(req, nm)
			got = append(got, g)
		}
		items = append(items, fmt.Sprintf("(%s,%s)", coqNames(req), coqNames(got)))
		st.Note("export", strings.Join(req, ","), len(req) > 2)
	}
	cf.add("export_cases", "list name * list name", "check_export", items)
	var er renamer.ExportRenamer
	var got []string
	for i := 0; i < 130; i++ {
		got = append(got, er.NextMinifiedName())
	}
	cf.add("exportmin_cases", "list name", "check_exportmin", []string{coqNames(got)})
	st.Note("exportmin", "130", true)
}

// ---- worlds built by the real parser

func worldFromSource(src string, jsx bool) *world {
	log := logger.NewDeferLog(logger.DeferLogNoVerboseOrDebug, nil)
	opts := js_parser.OptionsFromConfig(&config.Options{})
	tree, ok := js_parser.Parse(log, logger.Source{Index: 0, KeyPath: logger.Path{Text: "a.js"}, PrettyPaths: logger.PrettyPaths{Rel: "a.js"}, Contents: src}, opts)
	if !ok || log.HasErrors() || tree.ModuleScope == nil {
		return nil
	}
	w := &world{base: []int{0}}
	for i, s := range tree.Symbols {
		link := -1
		if s.Link != ast.InvalidRef {
			link = int(s.Link.InnerIndex)
		}
		for _, c := range []byte(s.OriginalName) {
			if c >= 0x80 {
				return nil
			}
		}
		if s.OriginalName == "" {
			return nil
		}
		w.syms = append(w.syms, gsym{name: s.OriginalName, kind: s.Kind, flags: s.Flags, link: link, src: 0, inner: i})
	}
	var conv func(sc *js_ast.Scope, parent *gscope) *gscope
	conv = func(sc *js_ast.Scope, parent *gscope) *gscope {
		g := &gscope{label: -1, parent: parent, directEval: sc.ContainsDirectEval}
		for _, m := range sc.Members {
			g.members = append(g.members, int(m.Ref.InnerIndex))
		}
		sort.Ints(g.members)
		for _, ref := range sc.Generated {
			g.generated = append(g.generated, int(ref.InnerIndex))
		}
		if sc.Label.Ref != ast.InvalidRef && sc.Kind == js_ast.ScopeLabel {
			g.label = int(sc.Label.Ref.InnerIndex)
		}
		for _, c := range sc.Children {
			g.children = append(g.children, conv(c, g))
		}
		return g
	}
	w.modules = []*gscope{conv(tree.ModuleScope, nil)}
	return w
}

func parsedWorlds(r *Rng, n int, st *Stats) []*world {
	var out []*world
	feat := map[string]int{}
	for tries := 0; len(out) < n && tries < 4*n; tries++ {
		g := &jsgen{r: r, features: feat}
		g.noEval = r.Chance(50)
		g.noWith = r.Bool()
		g.noFnInBlock = !g.noWith
		g.evalSibs = r.Chance(25)
		g.annexSibs = r.Chance(40)
		var src string
		if r.Chance(35) {
			g.module = true
			g.noEval = true
			files := g.moduleFiles(1)
			src = files[0].src
		} else {
			src, _ = g.script(r.Range(2, 4))
			if k := strings.Index(src, "$p(\"globals\""); k >= 0 {
				src = src[k:] // the prelude adds nothing of interest to the scope tree
			}
		}
		w := worldFromSource(src, false)
		if w != nil {
			w.source = src
		}
		if w == nil || len(w.syms) > 90 {
			st.Histogram["parsed-forest-skipped"]++
			continue
		}
		out = append(out, w)
	}
	return out
}
