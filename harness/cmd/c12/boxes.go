package main

// Box-family stream of the cascade oracle: one rule with a shorthand and
// interleaved longhands of the same box family (margin, padding, inset,
// border-radius) in every order x !important combinations x unit classes,
// crossed with targets that lower the shorthand (inset) and minify on/off.
// This is what exercises boxTracker / borderRadiusTracker bookkeeping
// (mangleSide, mangleSides, updateSide, compactRules, the rule indices) and
// lowerInset.

import (
	"fmt"
	"strings"

	"github.com/evanw/esbuild/pkg/api"
	. "github.com/evanw/esbuild/verifharness/hlib"
)

type boxFamily struct {
	short string
	longs [4]string
	auto  bool
}

var boxFamilies = []boxFamily{
	{"margin", [4]string{"margin-top", "margin-right", "margin-bottom", "margin-left"}, true},
	{"padding", [4]string{"padding-top", "padding-right", "padding-bottom", "padding-left"}, false},
	{"inset", [4]string{"top", "right", "bottom", "left"}, true},
	{"border-radius", [4]string{"border-top-left-radius", "border-top-right-radius", "border-bottom-right-radius", "border-bottom-left-radius"}, false},
}

func boxTargets() []glueOpts {
	mk := func(desc string, minify bool, sup map[string]bool, eng []api.Engine) glueOpts {
		return glueOpts{loader: api.LoaderCSS, minifySyntax: minify, supported: sup, engines: eng, desc: fmt.Sprintf("loader=css minify-syntax=%v %s", minify, desc)}
	}
	var out []glueOpts
	for _, m := range []bool{true, true, false} {
		out = append(out,
			mk("target=default", m, nil, nil),
			mk("unsupported=[inset-property]", m, map[string]bool{"inset-property": false}, nil),
			mk("target=chrome86", m, nil, []api.Engine{{Name: api.EngineChrome, Version: "86"}}),
			mk("target=safari14.0", m, nil, []api.Engine{{Name: api.EngineSafari, Version: "14.0"}}),
			mk("target=firefox65", m, nil, []api.Engine{{Name: api.EngineFirefox, Version: "65"}}),
		)
	}
	return out
}

func boxDOM() *dom {
	d := &dom{}
	mk := func(tag string, parent int, classes ...string) {
		d.nodes = append(d.nodes, node{tag: tag, parent: parent, classes: classes, attrs: map[string]string{}, flags: map[string]bool{}})
	}
	mk("div", -1)
	mk("a", 0)
	mk("a", 0, "c1")
	count := map[int]int{}
	for i := range d.nodes {
		d.nodes[i].index = count[d.nodes[i].parent]
		count[d.nodes[i].parent]++
	}
	for i := range d.nodes {
		d.nodes[i].nsib = count[d.nodes[i].parent]
	}
	return d
}

func boxValue(r *Rng, f boxFamily, class int) string {
	switch class {
	case 0: // safe
		return []string{"0", "1px", "2px", "3px", "4px", "9px", "0px", "1em", "10%", "0.50px"}[r.Intn(10)]
	case 1: // one unsafe unit
		return []string{"1vw", "2vw", "0vw"}[r.Intn(3)]
	case 2: // mixed unsafe
		return []string{"1vw", "2vh", "3Q", "1rem"}[r.Intn(4)]
	case 3:
		if f.auto {
			return "auto"
		}
		return "5px"
	case 4:
		return []string{"calc(1px + 1px)", "calc(100% - 2px)"}[r.Intn(2)]
	}
	return "var(--v)"
}

func genBoxRule(r *Rng, hist map[string]int) string {
	f := boxFamilies[r.Intn(len(boxFamilies))]
	hist["boxfam-"+f.short]++
	// mostly safe values so that the trackers actually collapse / replace
	class := func() int {
		if r.Chance(70) {
			return 0
		}
		return r.Range(1, 5)
	}
	var decls []string
	n := r.Range(2, 6)
	shortAt := -1
	if r.Chance(85) {
		shortAt = r.Intn(n)
	}
	for i := 0; i < n; i++ {
		imp := ""
		if r.Chance(18) {
			imp = " !important"
			hist["boxfam-important"]++
		}
		if i == shortAt || r.Chance(12) {
			var vs []string
			for k := r.Range(1, 4); k > 0; k-- {
				vs = append(vs, boxValue(r, f, class()))
			}
			v := strings.Join(vs, " ")
			if f.short == "border-radius" && r.Chance(25) {
				v += " / " + boxValue(r, f, 0)
			}
			decls = append(decls, f.short+": "+v+imp)
			hist["boxfam-shorthand"]++
		} else {
			v := boxValue(r, f, class())
			if f.short == "border-radius" && r.Chance(45) {
				v += " " + boxValue(r, f, 0)
			}
			decls = append(decls, f.longs[r.Intn(4)]+": "+v+imp)
			hist["boxfam-longhand"]++
		}
		if r.Chance(8) {
			decls = append(decls, "color: red")
		}
	}
	// a competitor with higher specificity so that lost importance is visible
	comp := fmt.Sprintf("a.c1 { %s: 7px }", f.longs[r.Intn(4)])
	if r.Chance(50) {
		return "a { " + strings.Join(decls, "; ") + " }\n" + comp + "\n"
	}
	return comp + "\na { " + strings.Join(decls, "; ") + " }\n"
}

func glueBoxFamilies(r *Rng, n int, st *Stats) {
	hist := map[string]int{}
	d := boxDOM()
	targets := boxTargets()
	// fixed must-pass probes first (every order of a lowered inset and a later side)
	probes := []string{
		"a { inset: 1px 2px 3px 4px; top: 9px }",
		"a { inset: 1px 2px 3px 4px; right: 9px }",
		"a { inset: 1px 2px 3px 4px; bottom: 9px; left: 8px }",
		"a { top: 9px; inset: 1px 2px; left: 0 }",
		"a { inset: 1px !important; top: 9px; bottom: 2px !important }",
		"a { inset: auto 2px; right: 9px; inset: 3px }",
		"a { margin: 1px 2px 3px 4px; margin-top: 9px } a.c1 { margin-left: 7px }",
		"a { border-radius: 1px 2px 3px 4px; border-top-right-radius: 9px }",
		// corners with two radii (horizontal vertical), with and without a slash list before
		"a { border-radius: 1px 2px / 3px; border-top-left-radius: 4px 5px }",
		"a { border-radius: 1px; border-bottom-right-radius: 0px 2px; border-top-left-radius: 0px }",
		"a { border-top-left-radius: 1px 2px; border-top-right-radius: 1px 2px; border-bottom-right-radius: 3px 2px; border-bottom-left-radius: 1px 4px }",
	}
	for _, p := range probes {
		for _, o := range targets {
			glueTransformCase(r, st, p, d, o, "")
			st.Histogram["boxfam-probe"]++
		}
	}
	for i := 0; i < n; i++ {
		src := genBoxRule(r, hist)
		o := targets[r.Intn(len(targets))]
		glueTransformCase(r, st, src, d, o, "")
		st.Note("glue-boxfam", src+o.desc, true)
	}
	for k, v := range hist {
		st.Histogram["gen:"+k] += v
	}
}
