package main

// Independent CSS rule-tree parser (CSS Syntax 3 section 5 with CSS Nesting),
// selector parser (Selectors 4) and boolean condition evaluator for
// @media / @supports / @container / @import conditions.

import (
	"fmt"
	"sort"
	"strings"
)

type pdecl struct {
	name      string // lowercased unless custom property
	value     []cv
	important bool
}

type bodyItem struct {
	decl *pdecl
	rule *prule
}

type prule struct {
	isAt     bool
	at       string // lowercased at-rule name
	prelude  []tok  // trimmed
	hasBlock bool
	body     []bodyItem // declarations and nested rules in order
	opaque   bool       // block not interpreted (@keyframes, @font-face, unknown)
}

type sheetParser struct {
	toks []tok
	i    int
}

func (p *sheetParser) cur() tok { return p.toks[p.i] }
func (p *sheetParser) skipWS() {
	for p.cur().kind == tWhitespace {
		p.i++
	}
}

func parseSheet(src string) []*prule {
	p := &sheetParser{toks: tokenize(src)}
	return p.ruleList(true, false)
}

func trimToks(t []tok) []tok {
	for len(t) > 0 && t[0].kind == tWhitespace {
		t = t[1:]
	}
	for len(t) > 0 && t[len(t)-1].kind == tWhitespace {
		t = t[:len(t)-1]
	}
	return t
}

// consume a balanced run until one of the stop kinds at depth 0; returns tokens (stop token not consumed)
func (p *sheetParser) until(stops ...tkind) []tok {
	var out []tok
	var stack []tkind
	for {
		t := p.cur()
		if t.kind == tEOF {
			return out
		}
		if len(stack) == 0 {
			for _, s := range stops {
				if t.kind == s {
					return out
				}
			}
		}
		switch t.kind {
		case tFunction, tOpenParen, tOpenBracket, tOpenBrace:
			stack = append(stack, closerOf(t.kind))
		case tCloseParen, tCloseBracket, tCloseBrace:
			if len(stack) > 0 && stack[len(stack)-1] == t.kind {
				stack = stack[:len(stack)-1]
			} else if len(stack) == 0 && t.kind == tCloseBrace {
				return out // unmatched close brace ends the enclosing block
			}
		}
		out = append(out, t)
		p.i++
	}
}

var ruleListAts = map[string]bool{"media": true, "supports": true, "container": true, "layer": true, "scope": true, "starting-style": true, "document": true}

func (p *sheetParser) ruleList(top bool, inStyle bool) []*prule {
	var out []*prule
	for {
		p.skipWS()
		t := p.cur()
		switch t.kind {
		case tEOF:
			return out
		case tCloseBrace:
			if !top {
				return out
			}
			if r := p.qualifiedRule(true); r != nil {
				out = append(out, r)
			}
			continue
		case tCDO, tCDC:
			p.i++
			continue
		case tSemicolon:
			p.i++
			continue
		case tAtKeyword:
			if r := p.atRule(inStyle); r != nil {
				out = append(out, r)
			}
		default:
			if r := p.qualifiedRule(top); r != nil {
				out = append(out, r)
			}
		}
	}
}

func (p *sheetParser) atRule(inStyle bool) *prule {
	r := &prule{isAt: true, at: strings.ToLower(p.cur().text)}
	p.i++
	r.prelude = trimToks(p.until(tSemicolon, tOpenBrace))
	switch p.cur().kind {
	case tSemicolon:
		p.i++
		return r
	case tOpenBrace:
		p.i++
		r.hasBlock = true
		switch {
		case ruleListAts[r.at]:
			if inStyle {
				r.body = p.styleBody()
			} else {
				for _, k := range p.ruleList(false, false) {
					r.body = append(r.body, bodyItem{rule: k})
				}
			}
		default:
			r.opaque = true
			p.until(tCloseBrace)
		}
		if p.cur().kind == tCloseBrace {
			p.i++
		}
		return r
	}
	return r // EOF
}

func (p *sheetParser) qualifiedRule(top bool) *prule {
	r := &prule{}
	var pre []tok
	for {
		pre = append(pre, p.until(tOpenBrace)...)
		if top && p.cur().kind == tCloseBrace {
			// at the top level a stray "}" is just part of the prelude (CSS Syntax 5.4.3)
			pre = append(pre, p.cur())
			p.i++
			continue
		}
		break
	}
	r.prelude = trimToks(pre)
	if p.cur().kind != tOpenBrace {
		return nil // EOF (or the end of the enclosing block): parse error, nothing produced
	}
	p.i++
	r.hasBlock = true
	r.body = p.styleBody()
	if p.cur().kind == tCloseBrace {
		p.i++
	}
	return r
}

// contents of a style rule's block: declarations and nested rules
func (p *sheetParser) styleBody() []bodyItem {
	var out []bodyItem
	for {
		p.skipWS()
		t := p.cur()
		switch t.kind {
		case tEOF, tCloseBrace:
			return out
		case tSemicolon:
			p.i++
			continue
		case tAtKeyword:
			if r := p.atRule(true); r != nil {
				out = append(out, bodyItem{rule: r})
			}
			continue
		}
		// declaration or nested rule?
		save := p.i
		isCustom := t.kind == tIdent && strings.HasPrefix(t.text, "--")
		p.until(tSemicolon, tOpenBrace)
		hitBrace := p.cur().kind == tOpenBrace
		p.i = save
		if hitBrace && !isCustom {
			if r := p.qualifiedRule(false); r != nil {
				out = append(out, bodyItem{rule: r})
			}
			continue
		}
		toks := p.until(tSemicolon)
		if d := parseDeclaration(toks); d != nil {
			out = append(out, bodyItem{decl: d})
		}
	}
}

func parseDeclaration(toks []tok) *pdecl {
	toks = trimToks(toks)
	if len(toks) < 2 || toks[0].kind != tIdent {
		return nil
	}
	i := 1
	for i < len(toks) && toks[i].kind == tWhitespace {
		i++
	}
	if i >= len(toks) || toks[i].kind != tColon {
		return nil
	}
	val := trimToks(toks[i+1:])
	d := &pdecl{name: toks[0].text}
	if !strings.HasPrefix(d.name, "--") {
		d.name = strings.ToLower(d.name)
	}
	// !important
	n := len(val)
	if n >= 2 && val[n-1].kind == tIdent && strings.EqualFold(val[n-1].text, "important") {
		j := n - 2
		for j >= 0 && val[j].kind == tWhitespace {
			j--
		}
		if j >= 0 && val[j].kind == tDelim && val[j].text == "!" {
			d.important = true
			val = trimToks(val[:j])
		}
	}
	d.value = parseCVs(val)
	if len(d.value) == 0 && !strings.HasPrefix(d.name, "--") {
		return nil
	}
	return d
}

// ---------------------------------------------------------------------------
// selectors

type simpleSel struct {
	kind string // type universal id class attr pclass pelement nesting
	name string
	op   string // attr operator
	val  string // attr value
	flag string // attr i/s flag
	args []*complexSel
	nthA int
	nthB int
	raw  string // unparsed functional argument
	// namespace of a type/universal/attribute selector: nsMode 0 = none written,
	// 1 = prefix "ns|", 2 = any "*|", 3 = no namespace "|"; nsURI is filled in by
	// resolveNamespaces (nsMode 4 = resolved to "exactly nsURI", 5 = unknown prefix)
	nsPrefix string
	nsMode   int
	nsURI    string
}

type compoundSel struct{ parts []simpleSel }

type complexSel struct {
	compounds []compoundSel
	combs     []string // combs[i] joins compounds[i] and compounds[i+1]
	leadComb  string   // relative selector "> b" in a nested rule
	invalid   bool
}

type selParser struct {
	t []tok
	i int
}

func (p *selParser) cur() tok {
	if p.i < len(p.t) {
		return p.t[p.i]
	}
	return tok{kind: tEOF}
}

func splitTopLevelCommas(t []tok) [][]tok {
	var out [][]tok
	var cur []tok
	depth := 0
	for _, x := range t {
		switch x.kind {
		case tFunction, tOpenParen, tOpenBracket, tOpenBrace:
			depth++
		case tCloseParen, tCloseBracket, tCloseBrace:
			depth--
		}
		if x.kind == tComma && depth == 0 {
			out = append(out, cur)
			cur = nil
			continue
		}
		if x.kind == tEOF {
			continue
		}
		cur = append(cur, x)
	}
	out = append(out, cur)
	return out
}

func parseSelectorList(t []tok) []*complexSel {
	var out []*complexSel
	t = trimToks(t)
	if len(t) == 0 {
		return nil
	}
	for _, part := range splitTopLevelCommas(t) {
		out = append(out, parseComplex(trimToks(part)))
	}
	return out
}

func parseComplex(t []tok) *complexSel {
	p := &selParser{t: t}
	c := &complexSel{}
	if len(t) == 0 {
		c.invalid = true
		return c
	}
	// leading combinator (relative selector)
	if x := p.cur(); x.kind == tDelim && (x.text == ">" || x.text == "+" || x.text == "~") {
		c.leadComb = x.text
		p.i++
		for p.cur().kind == tWhitespace {
			p.i++
		}
	}
	for {
		cp, ok := p.compound()
		if !ok {
			c.invalid = true
			return c
		}
		c.compounds = append(c.compounds, cp)
		// combinator
		sawWS := false
		for p.cur().kind == tWhitespace {
			sawWS = true
			p.i++
		}
		x := p.cur()
		if x.kind == tEOF {
			return c
		}
		if x.kind == tDelim && (x.text == ">" || x.text == "+" || x.text == "~") {
			c.combs = append(c.combs, x.text)
			p.i++
			for p.cur().kind == tWhitespace {
				p.i++
			}
			continue
		}
		if sawWS {
			c.combs = append(c.combs, " ")
			continue
		}
		c.invalid = true
		return c
	}
}

func closeIndex(t []tok, open int) int {
	depth := 0
	for j := open; j < len(t); j++ {
		switch t[j].kind {
		case tFunction, tOpenParen, tOpenBracket, tOpenBrace:
			depth++
		case tCloseParen, tCloseBracket, tCloseBrace:
			depth--
			if depth == 0 {
				return j
			}
		}
	}
	return len(t)
}

// is the compound at the cursor of the form [ident|*]? "|" (ident|*) ?
func (p *selParser) nsAhead() bool {
	j := p.i
	if j < len(p.t) && (p.t[j].kind == tIdent || (p.t[j].kind == tDelim && p.t[j].text == "*")) {
		j++
	}
	if !(j < len(p.t) && p.t[j].kind == tDelim && p.t[j].text == "|") {
		return false
	}
	j++
	return j < len(p.t) && (p.t[j].kind == tIdent || (p.t[j].kind == tDelim && p.t[j].text == "*"))
}

func (p *selParser) compound() (compoundSel, bool) {
	var c compoundSel
	for {
		x := p.cur()
		switch {
		case (x.kind == tIdent || (x.kind == tDelim && (x.text == "*" || x.text == "|"))) && len(c.parts) == 0 && p.nsAhead():
			// [ident | "*" | empty] "|" (ident | "*")
			s := simpleSel{}
			switch {
			case x.kind == tIdent:
				s.nsMode, s.nsPrefix = 1, x.text
				p.i++
			case x.text == "*":
				s.nsMode = 2
				p.i++
			default:
				s.nsMode = 3
			}
			p.i++ // the "|"
			y := p.cur()
			if y.kind == tIdent {
				s.kind, s.name = "type", strings.ToLower(y.text)
			} else {
				s.kind = "universal"
			}
			p.i++
			c.parts = append(c.parts, s)
		case x.kind == tIdent:
			if len(c.parts) > 0 {
				return c, false
			}
			c.parts = append(c.parts, simpleSel{kind: "type", name: strings.ToLower(x.text)})
			p.i++
		case x.kind == tDelim && x.text == "*":
			if len(c.parts) > 0 {
				return c, false
			}
			c.parts = append(c.parts, simpleSel{kind: "universal"})
			p.i++
		case x.kind == tDelim && x.text == "&":
			c.parts = append(c.parts, simpleSel{kind: "nesting"})
			p.i++
		case x.kind == tHash:
			c.parts = append(c.parts, simpleSel{kind: "id", name: x.text})
			p.i++
		case x.kind == tDelim && x.text == ".":
			p.i++
			if p.cur().kind != tIdent {
				return c, false
			}
			c.parts = append(c.parts, simpleSel{kind: "class", name: p.cur().text})
			p.i++
		case x.kind == tOpenBracket:
			end := closeIndex(p.t, p.i)
			inner := trimToks(p.t[p.i+1 : min(end, len(p.t))])
			p.i = end + 1
			s := simpleSel{kind: "attr"}
			k := 0
			// optional namespace: ns|attr  *|attr  |attr   (but not the "|=" operator)
			isBar := func(j int) bool {
				return j < len(inner) && inner[j].kind == tDelim && inner[j].text == "|" && !(j+1 < len(inner) && inner[j+1].kind == tDelim && inner[j+1].text == "=")
			}
			switch {
			case k < len(inner) && inner[k].kind == tIdent && isBar(k+1):
				s.nsMode, s.nsPrefix = 1, inner[k].text
				k += 2
			case k < len(inner) && inner[k].kind == tDelim && inner[k].text == "*" && isBar(k+1):
				s.nsMode = 2
				k += 2
			case isBar(k):
				s.nsMode = 3
				k++
			}
			if k < len(inner) && inner[k].kind == tIdent {
				s.name = strings.ToLower(inner[k].text)
				k++
			} else {
				return c, false
			}
			for k < len(inner) && inner[k].kind == tWhitespace {
				k++
			}
			if k < len(inner) {
				for k < len(inner) && inner[k].kind == tDelim {
					s.op += inner[k].text
					k++
				}
				for k < len(inner) && inner[k].kind == tWhitespace {
					k++
				}
				if k < len(inner) && (inner[k].kind == tIdent || inner[k].kind == tString) {
					s.val = inner[k].text
					k++
				} else {
					return c, false
				}
				for k < len(inner) && inner[k].kind == tWhitespace {
					k++
				}
				if k < len(inner) && inner[k].kind == tIdent {
					s.flag = strings.ToLower(inner[k].text)
					k++
				}
				if k != len(inner) || s.op == "" {
					return c, false
				}
			}
			c.parts = append(c.parts, s)
		case x.kind == tColon:
			p.i++
			isElem := false
			if p.cur().kind == tColon {
				isElem = true
				p.i++
			}
			y := p.cur()
			switch y.kind {
			case tIdent:
				name := strings.ToLower(y.text)
				p.i++
				if isElem || name == "before" || name == "after" || name == "first-line" || name == "first-letter" {
					c.parts = append(c.parts, simpleSel{kind: "pelement", name: name})
				} else {
					c.parts = append(c.parts, simpleSel{kind: "pclass", name: name})
				}
			case tFunction:
				name := strings.ToLower(y.text)
				end := closeIndex(p.t, p.i)
				inner := p.t[p.i+1 : min(end, len(p.t))]
				p.i = end + 1
				s := simpleSel{kind: "pclass", name: name + "()"}
				if isElem {
					s.kind = "pelement"
				}
				switch name {
				case "is", "where", "not", "has", "matches", "-webkit-any", "-moz-any":
					s.args = parseSelectorList(inner)
				default:
					var sb strings.Builder
					for _, q := range trimToks(inner) {
						sb.WriteString(tokText(q))
					}
					s.raw = strings.ToLower(strings.Join(strings.Fields(sb.String()), " "))
				}
				c.parts = append(c.parts, s)
			default:
				return c, false
			}
		default:
			return c, len(c.parts) > 0
		}
	}
}

func min(a, b int) int {
	if a < b {
		return a
	}
	return b
}

func tokText(t tok) string {
	switch t.kind {
	case tIdent:
		return t.text
	case tFunction:
		return t.text + "("
	case tAtKeyword:
		return "@" + t.text
	case tHash:
		return "#" + t.text
	case tString:
		return fmt.Sprintf("%q", t.text)
	case tURL:
		return "url(" + t.text + ")"
	case tDelim:
		return t.text
	case tNumber:
		return t.text
	case tPercentage:
		return t.text + "%"
	case tDimension:
		return t.text + t.unit
	case tWhitespace:
		return " "
	case tColon:
		return ":"
	case tSemicolon:
		return ";"
	case tComma:
		return ","
	case tOpenBracket:
		return "["
	case tCloseBracket:
		return "]"
	case tOpenParen:
		return "("
	case tCloseParen:
		return ")"
	case tOpenBrace:
		return "{"
	case tCloseBrace:
		return "}"
	}
	return ""
}

// ---------------------------------------------------------------------------
// boolean conditions: media query lists, supports conditions, container conditions

type condExpr struct {
	op   string // "atom" "not" "and" "or" "true"
	atom string
	kids []*condExpr
}

func (c *condExpr) eval(truth map[string]bool) bool {
	switch c.op {
	case "true":
		return true
	case "atom":
		return truth[c.atom]
	case "not":
		return !c.kids[0].eval(truth)
	case "and":
		for _, k := range c.kids {
			if !k.eval(truth) {
				return false
			}
		}
		return true
	case "or":
		for _, k := range c.kids {
			if k.eval(truth) {
				return true
			}
		}
		return false
	}
	return false
}

func (c *condExpr) atoms(into map[string]bool) {
	if c.op == "atom" {
		into[c.atom] = true
	}
	for _, k := range c.kids {
		k.atoms(into)
	}
}

func normText(cvs []cv) string {
	var sb strings.Builder
	for _, c := range cvs {
		sb.WriteString(canonLeaf(c, pkLength))
		sb.WriteString(" ")
	}
	return strings.Join(strings.Fields(sb.String()), " ")
}

// parse a list of component values as a boolean condition.  prefix tags the
// atom namespace ("m:" media, "s:" supports, "c:" container)
func parseCond(cvs []cv, prefix string) *condExpr {
	// comma = or (media query lists)
	var parts [][]cv
	var cur []cv
	for _, c := range cvs {
		if c.t.kind == tComma {
			parts = append(parts, cur)
			cur = nil
		} else {
			cur = append(cur, c)
		}
	}
	parts = append(parts, cur)
	if len(parts) > 1 {
		e := &condExpr{op: "or"}
		for _, p := range parts {
			e.kids = append(e.kids, parseCondNoComma(noWS(p), prefix))
		}
		return e
	}
	return parseCondNoComma(noWS(cvs), prefix)
}

func parseCondNoComma(l []cv, prefix string) *condExpr {
	if len(l) == 0 {
		return &condExpr{op: "true"}
	}
	// [not|only]? term (and|or term)*
	neg := false
	if l[0].t.kind == tIdent && strings.EqualFold(l[0].t.text, "not") {
		neg = true
		l = l[1:]
	} else if l[0].t.kind == tIdent && strings.EqualFold(l[0].t.text, "only") {
		l = l[1:]
	}
	var terms []*condExpr
	op := ""
	for i := 0; i < len(l); i++ {
		c := l[i]
		if c.t.kind == tIdent && (strings.EqualFold(c.t.text, "and") || strings.EqualFold(c.t.text, "or")) && len(terms) > 0 {
			op = strings.ToLower(c.t.text)
			continue
		}
		if c.t.kind == tIdent && strings.EqualFold(c.t.text, "not") && i+1 < len(l) {
			i++
			terms = append(terms, &condExpr{op: "not", kids: []*condExpr{condTerm(l[i], prefix)}})
			continue
		}
		terms = append(terms, condTerm(c, prefix))
	}
	var e *condExpr
	switch {
	case len(terms) == 0:
		e = &condExpr{op: "true"}
	case len(terms) == 1:
		e = terms[0]
	case op == "or":
		e = &condExpr{op: "or", kids: terms}
	default:
		e = &condExpr{op: "and", kids: terms}
	}
	if neg {
		// "not screen and (color)" negates the whole media query
		return &condExpr{op: "not", kids: []*condExpr{e}}
	}
	return e
}

func condTerm(c cv, prefix string) *condExpr {
	switch c.t.kind {
	case tIdent:
		name := strings.ToLower(c.t.text)
		if name == "all" {
			return &condExpr{op: "true"}
		}
		return &condExpr{op: "atom", atom: prefix + name}
	case tOpenParen:
		k := noWS(c.kids)
		if len(k) > 0 && (k[0].t.kind == tOpenParen || (k[0].t.kind == tIdent && strings.EqualFold(k[0].t.text, "not")) || k[0].t.kind == tFunction && len(k) > 1) {
			return parseCondNoComma(k, prefix)
		}
		return &condExpr{op: "atom", atom: prefix + "(" + normText(c.kids) + ")"}
	case tFunction:
		return &condExpr{op: "atom", atom: prefix + strings.ToLower(c.t.text) + "(" + normText(c.kids) + ")"}
	}
	return &condExpr{op: "atom", atom: prefix + canonLeaf(c, pkOpaque)}
}

func sortedKeys(m map[string]bool) []string {
	var ks []string
	for k := range m {
		ks = append(ks, k)
	}
	sort.Strings(ks)
	return ks
}
