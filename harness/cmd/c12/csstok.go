package main

// An independent CSS tokenizer (CSS Syntax Level 3, section 4), written from
// the standard; it shares no code with esbuild's css_lexer.

import (
	"strings"
	"unicode/utf8"
)

type tkind int

const (
	tIdent tkind = iota
	tFunction
	tAtKeyword
	tHash
	tString
	tBadString
	tURL
	tBadURL
	tDelim
	tNumber
	tPercentage
	tDimension
	tWhitespace
	tColon
	tSemicolon
	tComma
	tOpenBracket
	tCloseBracket
	tOpenParen
	tCloseParen
	tOpenBrace
	tCloseBrace
	tCDO
	tCDC
	tEOF
)

type tok struct {
	kind tkind
	text string // ident name / function name / at-keyword name / hash name / string value / url value / delim char / number repr
	unit string // dimension unit
	idty bool   // hash token of type "id"
}

func isNameStart(c rune) bool {
	return (c >= 'a' && c <= 'z') || (c >= 'A' && c <= 'Z') || c == '_' || c >= 0x80
}
func isNameChar(c rune) bool { return isNameStart(c) || (c >= '0' && c <= '9') || c == '-' }
func isDigitR(c rune) bool   { return c >= '0' && c <= '9' }
func isHexR(c rune) bool {
	return isDigitR(c) || (c >= 'a' && c <= 'f') || (c >= 'A' && c <= 'F')
}
func isWS(c rune) bool { return c == ' ' || c == '\t' || c == '\n' }

type tokenizer struct {
	s []rune
	i int
}

func (t *tokenizer) peek(k int) rune {
	if t.i+k < len(t.s) {
		return t.s[t.i+k]
	}
	return -1
}

func validEscape(a, b rune) bool { return a == '\\' && b != '\n' && b != -1 }

func (t *tokenizer) wouldStartIdent(k int) bool {
	a, b, c := t.peek(k), t.peek(k+1), t.peek(k+2)
	switch {
	case a == '-':
		return isNameStart(b) || b == '-' || validEscape(b, c)
	case a == '\\':
		return validEscape(a, b)
	}
	return a != -1 && isNameStart(a)
}

func (t *tokenizer) wouldStartNumber(k int) bool {
	a, b, c := t.peek(k), t.peek(k+1), t.peek(k+2)
	if a == '+' || a == '-' {
		if isDigitR(b) {
			return true
		}
		return b == '.' && isDigitR(c)
	}
	if a == '.' {
		return isDigitR(b)
	}
	return isDigitR(a)
}

func (t *tokenizer) consumeEscape() rune {
	// after the backslash
	c := t.peek(0)
	if c == -1 {
		return 0xFFFD
	}
	if isHexR(c) {
		v := 0
		n := 0
		for n < 6 && isHexR(t.peek(0)) {
			d := t.peek(0)
			switch {
			case d >= '0' && d <= '9':
				v = v*16 + int(d-'0')
			case d >= 'a' && d <= 'f':
				v = v*16 + int(d-'a') + 10
			default:
				v = v*16 + int(d-'A') + 10
			}
			t.i++
			n++
		}
		if isWS(t.peek(0)) {
			t.i++
		}
		if v == 0 || v > 0x10FFFF || (v >= 0xD800 && v <= 0xDFFF) {
			return 0xFFFD
		}
		return rune(v)
	}
	t.i++
	return c
}

func (t *tokenizer) consumeName() string {
	var sb strings.Builder
	for {
		c := t.peek(0)
		if c != -1 && isNameChar(c) {
			sb.WriteRune(c)
			t.i++
		} else if validEscape(c, t.peek(1)) {
			t.i++
			sb.WriteRune(t.consumeEscape())
		} else {
			return sb.String()
		}
	}
}

func (t *tokenizer) consumeNumber() string {
	start := t.i
	if c := t.peek(0); c == '+' || c == '-' {
		t.i++
	}
	for isDigitR(t.peek(0)) {
		t.i++
	}
	if t.peek(0) == '.' && isDigitR(t.peek(1)) {
		t.i += 2
		for isDigitR(t.peek(0)) {
			t.i++
		}
	}
	if c := t.peek(0); c == 'e' || c == 'E' {
		if isDigitR(t.peek(1)) {
			t.i += 2
			for isDigitR(t.peek(0)) {
				t.i++
			}
		} else if (t.peek(1) == '+' || t.peek(1) == '-') && isDigitR(t.peek(2)) {
			t.i += 3
			for isDigitR(t.peek(0)) {
				t.i++
			}
		}
	}
	return string(t.s[start:t.i])
}

func (t *tokenizer) consumeString(q rune) tok {
	var sb strings.Builder
	for {
		c := t.peek(0)
		switch {
		case c == -1:
			return tok{kind: tString, text: sb.String()}
		case c == q:
			t.i++
			return tok{kind: tString, text: sb.String()}
		case c == '\n':
			return tok{kind: tBadString}
		case c == '\\':
			if t.peek(1) == -1 {
				t.i++
			} else if t.peek(1) == '\n' {
				t.i += 2
			} else {
				t.i++
				sb.WriteRune(t.consumeEscape())
			}
		default:
			sb.WriteRune(c)
			t.i++
		}
	}
}

func (t *tokenizer) consumeURL() tok {
	for isWS(t.peek(0)) {
		t.i++
	}
	var sb strings.Builder
	for {
		c := t.peek(0)
		switch {
		case c == ')':
			t.i++
			return tok{kind: tURL, text: sb.String()}
		case c == -1:
			return tok{kind: tURL, text: sb.String()}
		case isWS(c):
			for isWS(t.peek(0)) {
				t.i++
			}
			if t.peek(0) == ')' || t.peek(0) == -1 {
				if t.peek(0) == ')' {
					t.i++
				}
				return tok{kind: tURL, text: sb.String()}
			}
			t.badURLRemnants()
			return tok{kind: tBadURL}
		case c == '"' || c == '\'' || c == '(' || (c >= 0 && c <= 8) || c == 0xB || (c >= 0xE && c <= 0x1F) || c == 0x7F:
			t.badURLRemnants()
			return tok{kind: tBadURL}
		case c == '\\':
			if validEscape(c, t.peek(1)) {
				t.i++
				sb.WriteRune(t.consumeEscape())
			} else {
				t.badURLRemnants()
				return tok{kind: tBadURL}
			}
		default:
			sb.WriteRune(c)
			t.i++
		}
	}
}

func (t *tokenizer) badURLRemnants() {
	for {
		c := t.peek(0)
		if c == ')' || c == -1 {
			if c == ')' {
				t.i++
			}
			return
		}
		if validEscape(c, t.peek(1)) {
			t.i++
			t.consumeEscape()
		} else {
			t.i++
		}
	}
}

func (t *tokenizer) consumeIdentLike() tok {
	name := t.consumeName()
	if strings.EqualFold(name, "url") && t.peek(0) == '(' {
		t.i++
		k := 0
		for isWS(t.peek(k)) {
			k++
		}
		if c := t.peek(k); c == '"' || c == '\'' {
			return tok{kind: tFunction, text: name}
		}
		return t.consumeURL()
	}
	if t.peek(0) == '(' {
		t.i++
		return tok{kind: tFunction, text: name}
	}
	return tok{kind: tIdent, text: name}
}

func preprocess(src string) []rune {
	// CSS Syntax 3.3: CRLF, CR, FF -> LF; NUL and surrogates -> U+FFFD
	var out []rune
	b := []byte(src)
	for len(b) > 0 {
		c, w := utf8.DecodeRune(b)
		b = b[w:]
		switch {
		case c == '\r':
			if len(b) > 0 && b[0] == '\n' {
				b = b[1:]
			}
			out = append(out, '\n')
		case c == '\f':
			out = append(out, '\n')
		case c == 0:
			out = append(out, 0xFFFD)
		default:
			out = append(out, c)
		}
	}
	return out
}

func tokenize(src string) []tok {
	t := &tokenizer{s: preprocess(src)}
	var out []tok
	for {
		// comments
		for t.peek(0) == '/' && t.peek(1) == '*' {
			t.i += 2
			for t.peek(0) != -1 && !(t.peek(0) == '*' && t.peek(1) == '/') {
				t.i++
			}
			if t.peek(0) != -1 {
				t.i += 2
			}
		}
		c := t.peek(0)
		if c == -1 {
			out = append(out, tok{kind: tEOF})
			return out
		}
		switch {
		case isWS(c):
			for isWS(t.peek(0)) {
				t.i++
			}
			out = append(out, tok{kind: tWhitespace})
		case c == '"' || c == '\'':
			t.i++
			out = append(out, t.consumeString(c))
		case c == '#':
			if (t.peek(1) != -1 && isNameChar(t.peek(1))) || validEscape(t.peek(1), t.peek(2)) {
				t.i++
				id := t.wouldStartIdent(0)
				out = append(out, tok{kind: tHash, text: t.consumeName(), idty: id})
			} else {
				t.i++
				out = append(out, tok{kind: tDelim, text: "#"})
			}
		case c == '(':
			t.i++
			out = append(out, tok{kind: tOpenParen})
		case c == ')':
			t.i++
			out = append(out, tok{kind: tCloseParen})
		case c == '+' || c == '.':
			if t.wouldStartNumber(0) {
				out = append(out, t.numeric())
			} else {
				t.i++
				out = append(out, tok{kind: tDelim, text: string(c)})
			}
		case c == ',':
			t.i++
			out = append(out, tok{kind: tComma})
		case c == '-':
			if t.wouldStartNumber(0) {
				out = append(out, t.numeric())
			} else if t.peek(1) == '-' && t.peek(2) == '>' {
				t.i += 3
				out = append(out, tok{kind: tCDC})
			} else if t.wouldStartIdent(0) {
				out = append(out, t.consumeIdentLike())
			} else {
				t.i++
				out = append(out, tok{kind: tDelim, text: "-"})
			}
		case c == ':':
			t.i++
			out = append(out, tok{kind: tColon})
		case c == ';':
			t.i++
			out = append(out, tok{kind: tSemicolon})
		case c == '<':
			if t.peek(1) == '!' && t.peek(2) == '-' && t.peek(3) == '-' {
				t.i += 4
				out = append(out, tok{kind: tCDO})
			} else {
				t.i++
				out = append(out, tok{kind: tDelim, text: "<"})
			}
		case c == '@':
			if t.wouldStartIdent(1) {
				t.i++
				out = append(out, tok{kind: tAtKeyword, text: t.consumeName()})
			} else {
				t.i++
				out = append(out, tok{kind: tDelim, text: "@"})
			}
		case c == '[':
			t.i++
			out = append(out, tok{kind: tOpenBracket})
		case c == ']':
			t.i++
			out = append(out, tok{kind: tCloseBracket})
		case c == '{':
			t.i++
			out = append(out, tok{kind: tOpenBrace})
		case c == '}':
			t.i++
			out = append(out, tok{kind: tCloseBrace})
		case c == '\\':
			if validEscape(c, t.peek(1)) {
				out = append(out, t.consumeIdentLike())
			} else {
				t.i++
				out = append(out, tok{kind: tDelim, text: "\\"})
			}
		case isDigitR(c):
			out = append(out, t.numeric())
		case isNameStart(c):
			out = append(out, t.consumeIdentLike())
		default:
			t.i++
			out = append(out, tok{kind: tDelim, text: string(c)})
		}
	}
}

func (t *tokenizer) numeric() tok {
	num := t.consumeNumber()
	if t.wouldStartIdent(0) {
		return tok{kind: tDimension, text: num, unit: t.consumeName()}
	}
	if t.peek(0) == '%' {
		t.i++
		return tok{kind: tPercentage, text: num}
	}
	return tok{kind: tNumber, text: num}
}
