package main

// The cascade evaluator of the harness: a Go mirror of coq/C12/Cascade.v
// (validated against it on every run through the `casc_cases` of the cases
// file), applied to style sheets parsed by the independent parser, over a small
// DOM and an enumerated set of browser environments.

import (
	"fmt"
	"sort"
	"strconv"
	"strings"
)

// ---------------------------------------------------------------------------
// DOM

type node struct {
	tag     string
	id      string
	classes []string
	attrs   map[string]string
	parent  int // -1 for the root
	index   int // position among siblings (0-based)
	nsib    int
	flags   map[string]bool // hover, focus, ... and exotic pseudo-class names
	ns      string          // namespace URI of the element ("" = no namespace)
}

type target struct {
	n      int
	pseudo string // "" or a pseudo-element name
}

type dom struct{ nodes []node }

func (d *dom) prevSibling(i int) int {
	n := d.nodes[i]
	if n.index == 0 {
		return -1
	}
	for j := range d.nodes {
		if d.nodes[j].parent == n.parent && d.nodes[j].index == n.index-1 {
			return j
		}
	}
	return -1
}

// ---------------------------------------------------------------------------
// environments

type env struct {
	truth      map[string]bool // condition atoms
	variable   map[string]bool // features that may be missing in some browser
	understood map[string]bool // which of the variable features this browser has
}

func (e *env) has(f string) bool { return !e.variable[f] || e.understood[f] }

// ---------------------------------------------------------------------------
// flattened sheet

type selCtx struct {
	sels   []*complexSel
	parent *selCtx
}

type fitem struct {
	stmt   bool
	conds  []*condExpr
	layer  []string
	sels   []*complexSel
	ctx    *selCtx // enclosing style rule's selectors (for &)
	nested bool    // written as a nested rule: needs the nesting feature
	encl   *selCtx // all enclosing style rules (an invalid ancestor selector list drops everything inside it)
	decls  []*pdecl
}

type flattener struct {
	items     []fitem
	anon      int
	nsPrefix  map[string]string // @namespace prefix url(...)
	nsDefault *string           // @namespace url(...)
}

// resolve the namespace prefixes of a selector against the sheet's @namespace rules
func (f *flattener) resolveNamespaces(c *complexSel) {
	for ci := range c.compounds {
		for pi := range c.compounds[ci].parts {
			s := &c.compounds[ci].parts[pi]
			for _, a := range s.args {
				f.resolveNamespaces(a)
			}
			if s.kind != "type" && s.kind != "universal" && s.kind != "attr" {
				continue
			}
			switch s.nsMode {
			case 0:
				// an unprefixed type selector is in the default namespace, if one is declared
				if s.kind != "attr" && f.nsDefault != nil {
					s.nsMode, s.nsURI = 4, *f.nsDefault
				}
			case 1:
				if uri, ok := f.nsPrefix[s.nsPrefix]; ok {
					s.nsMode, s.nsURI = 4, uri
				} else {
					s.nsMode = 5
					c.invalid = true
				}
			}
		}
	}
}

func nsMatches(s simpleSel, elemNS string) bool {
	switch s.nsMode {
	case 3:
		return elemNS == ""
	case 4:
		return elemNS == s.nsURI
	case 5:
		return false
	}
	return true
}

func layerNames(prelude []tok) [][]string {
	var out [][]string
	for _, part := range splitTopLevelCommas(prelude) {
		var path []string
		for _, t := range trimToks(part) {
			if t.kind == tIdent {
				path = append(path, t.text)
			}
		}
		if len(path) > 0 {
			out = append(out, path)
		}
	}
	return out
}

func appendPath(a []string, b ...string) []string {
	out := append([]string{}, a...)
	return append(out, b...)
}

func hasNesting(c *complexSel) bool {
	for _, cp := range c.compounds {
		for _, s := range cp.parts {
			if s.kind == "nesting" {
				return true
			}
			for _, a := range s.args {
				if hasNesting(a) {
					return true
				}
			}
		}
	}
	return false
}

// a nested selector without & is relative to the parent: "& <comb> sel"
func relativize(c *complexSel) *complexSel {
	if c.invalid {
		return c
	}
	if c.leadComb == "" && hasNesting(c) {
		return c
	}
	comb := c.leadComb
	if comb == "" {
		comb = " "
	}
	out := &complexSel{}
	out.compounds = append([]compoundSel{{parts: []simpleSel{{kind: "nesting"}}}}, c.compounds...)
	out.combs = append([]string{comb}, c.combs...)
	return out
}

func (f *flattener) rules(rs []*prule, conds []*condExpr, layer []string, ctx *selCtx) {
	for _, r := range rs {
		f.rule(r, conds, layer, ctx)
	}
}

func addCond(conds []*condExpr, c *condExpr) []*condExpr {
	out := append([]*condExpr{}, conds...)
	return append(out, c)
}

func (f *flattener) body(body []bodyItem, conds []*condExpr, layer []string, ctx *selCtx, ownSels []*complexSel, ownCtx *selCtx, nested bool) {
	// declarations of the block first (as one item), then the nested rules in order
	var decls []*pdecl
	for _, b := range body {
		if b.decl != nil {
			decls = append(decls, b.decl)
		}
	}
	if ownSels != nil {
		f.items = append(f.items, fitem{conds: conds, layer: layer, sels: ownSels, ctx: ownCtx, nested: nested, encl: ctx, decls: decls})
	}
	for _, b := range body {
		if b.rule != nil {
			f.rule(b.rule, conds, layer, ctx)
		}
	}
}

func (f *flattener) rule(r *prule, conds []*condExpr, layer []string, ctx *selCtx) {
	if !r.isAt {
		sels := parseSelectorList(r.prelude)
		for _, sl := range sels {
			f.resolveNamespaces(sl)
		}
		if ctx != nil {
			for i := range sels {
				sels[i] = relativize(sels[i])
			}
		}
		inner := &selCtx{sels: sels, parent: ctx}
		f.body(r.body, conds, layer, inner, sels, ctx, ctx != nil)
		return
	}
	switch r.at {
	case "namespace":
		var prefix, uri string
		hasPrefix := false
		for _, t := range r.prelude {
			switch t.kind {
			case tIdent:
				prefix, hasPrefix = t.text, true
			case tURL, tString:
				uri = t.text
			case tFunction:
			}
		}
		if uri == "" {
			for _, c := range parseCVs(r.prelude) {
				if c.t.kind == tFunction && strings.EqualFold(c.t.text, "url") {
					for _, k := range c.kids {
						if k.t.kind == tString {
							uri = k.t.text
						}
					}
				}
			}
		}
		if hasPrefix {
			if f.nsPrefix == nil {
				f.nsPrefix = map[string]string{}
			}
			f.nsPrefix[prefix] = uri
		} else {
			u := uri
			f.nsDefault = &u
		}
	case "media", "supports", "container":
		prefix := map[string]string{"media": "m:", "supports": "s:", "container": "c:"}[r.at]
		c := parseCond(parseCVs(r.prelude), prefix)
		nc := addCond(conds, c)
		if ctx != nil {
			// conditional group rule nested in a style rule: its declarations apply to the parent's elements
			// (a nested declarations rule matches exactly what the parent rule matches,
			// pseudo-elements included, with the parent's specificity)
			f.body(r.body, nc, layer, ctx, ctx.sels, ctx.parent, true)
		} else {
			f.body(r.body, nc, layer, ctx, nil, nil, false)
		}
	case "layer":
		names := layerNames(r.prelude)
		if !r.hasBlock {
			for _, n := range names {
				f.items = append(f.items, fitem{stmt: true, conds: conds, layer: appendPath(layer, n...)})
			}
			return
		}
		var nl []string
		if len(names) == 0 {
			f.anon++
			nl = appendPath(layer, fmt.Sprintf("<anon%d>", f.anon))
		} else {
			nl = appendPath(layer, names[0]...)
		}
		f.items = append(f.items, fitem{stmt: true, conds: conds, layer: nl})
		if ctx != nil {
			f.body(r.body, conds, nl, ctx, ctx.sels, ctx.parent, true)
		} else {
			f.body(r.body, conds, nl, ctx, nil, nil, false)
		}
	}
}

func flattenSheet(rs []*prule) []fitem {
	f := &flattener{}
	f.rules(rs, nil, nil, nil)
	return f.items
}

// ---------------------------------------------------------------------------
// selector features, validity, matching, specificity

func isVendor(name string) bool {
	return strings.HasPrefix(name, "-moz-") || strings.HasPrefix(name, "-webkit-") || strings.HasPrefix(name, "-ms-") || strings.HasPrefix(name, "-o-")
}

func simpleFeature(s simpleSel) string {
	switch s.kind {
	case "nesting":
		return "nesting"
	case "pclass", "pelement":
		n := strings.TrimSuffix(s.name, "()")
		if isVendor(n) {
			return "sel:" + n
		}
		switch n {
		case "is", "where", "has", "focus-visible", "focus-within", "any-link", "placeholder-shown":
			return "sel:" + n
		}
	case "attr":
		if s.flag != "" {
			return "sel:attr-flag"
		}
	}
	return ""
}

func selFeatures(c *complexSel, into map[string]bool) {
	for _, cp := range c.compounds {
		for _, s := range cp.parts {
			if f := simpleFeature(s); f != "" {
				into[f] = true
			}
			for _, a := range s.args {
				selFeatures(a, into)
			}
		}
	}
}

func selValid(c *complexSel, e *env) bool {
	if c.invalid {
		return false
	}
	for _, cp := range c.compounds {
		for _, s := range cp.parts {
			if f := simpleFeature(s); f != "" && !e.has(f) {
				return false
			}
			n := strings.TrimSuffix(s.name, "()")
			if s.kind == "pclass" && (n == "not" || n == "has") {
				for _, a := range s.args {
					if !selValid(a, e) {
						return false
					}
				}
			}
			// :is() / :where() take forgiving lists: invalid arguments are dropped
		}
	}
	return true
}

func nthMatches(raw string, pos int) bool {
	raw = strings.ReplaceAll(raw, " ", "")
	switch raw {
	case "odd":
		return pos%2 == 1
	case "even":
		return pos%2 == 0
	}
	a, b := 0, 0
	if i := strings.Index(raw, "n"); i >= 0 {
		as := raw[:i]
		switch as {
		case "", "+":
			a = 1
		case "-":
			a = -1
		default:
			a, _ = strconv.Atoi(as)
		}
		if rest := raw[i+1:]; rest != "" {
			b, _ = strconv.Atoi(strings.TrimPrefix(rest, "+"))
		}
	} else {
		b, _ = strconv.Atoi(raw)
	}
	if a == 0 {
		return pos == b
	}
	d := pos - b
	return d%a == 0 && d/a >= 0
}

func (d *dom) matchSimple(s simpleSel, ni int, ctx *selCtx, e *env) bool {
	n := &d.nodes[ni]
	switch s.kind {
	case "universal":
		return nsMatches(s, n.ns)
	case "type":
		return n.tag == s.name && nsMatches(s, n.ns)
	case "id":
		return n.id == s.name
	case "class":
		for _, c := range n.classes {
			if c == s.name {
				return true
			}
		}
		return false
	case "attr":
		v, ok := n.attrs[s.name]
		if !ok {
			return false
		}
		// the DOM's attributes are in no namespace
		if s.nsMode == 4 || s.nsMode == 5 {
			return false
		}
		a, b := v, s.val
		if s.flag == "i" {
			a, b = strings.ToLower(a), strings.ToLower(b)
		}
		switch s.op {
		case "":
			return true
		case "=":
			return a == b
		case "^=":
			return b != "" && strings.HasPrefix(a, b)
		case "$=":
			return b != "" && strings.HasSuffix(a, b)
		case "*=":
			return b != "" && strings.Contains(a, b)
		case "~=":
			for _, w := range strings.Fields(a) {
				if w == b {
					return true
				}
			}
			return false
		case "|=":
			return a == b || strings.HasPrefix(a, b+"-")
		}
		return false
	case "nesting":
		if ctx == nil {
			return false // top-level & matches :scope; no element of our DOM is the scoping root
		}
		for _, ps := range ctx.sels {
			if selValid(ps, e) && d.matchComplex(ps, target{ni, ""}, ctx.parent, e) {
				return true
			}
		}
		return false
	case "pclass":
		name := strings.TrimSuffix(s.name, "()")
		switch name {
		case "is", "where", "matches", "-webkit-any", "-moz-any":
			for _, a := range s.args {
				if selValid(a, e) && d.matchComplex(a, target{ni, ""}, ctx, e) {
					return true
				}
			}
			return false
		case "not":
			for _, a := range s.args {
				if d.matchComplex(a, target{ni, ""}, ctx, e) {
					return false
				}
			}
			return true
		case "first-child":
			return n.index == 0
		case "last-child":
			return n.index == n.nsib-1
		case "only-child":
			return n.nsib == 1
		case "nth-child":
			return nthMatches(s.raw, n.index+1)
		case "root":
			return n.parent == -1
		}
		return n.flags[name]
	}
	return false
}

func (d *dom) matchCompound(cp compoundSel, t target, subject bool, ctx *selCtx, e *env) bool {
	pe := ""
	for _, s := range cp.parts {
		if s.kind == "pelement" {
			pe = s.name
		}
	}
	if subject {
		if pe != t.pseudo {
			return false
		}
	} else if pe != "" {
		return false
	}
	for _, s := range cp.parts {
		if s.kind == "pelement" {
			continue
		}
		if !d.matchSimple(s, t.n, ctx, e) {
			return false
		}
	}
	return true
}

func (d *dom) matchComplex(c *complexSel, t target, ctx *selCtx, e *env) bool {
	if c.invalid || len(c.compounds) == 0 {
		return false
	}
	var rec func(ci int, ni int) bool
	rec = func(ci int, ni int) bool {
		// compound ci is matched at node ni; go left
		if ci == 0 {
			return true
		}
		comb := c.combs[ci-1]
		left := c.compounds[ci-1]
		switch comb {
		case ">":
			p := d.nodes[ni].parent
			return p >= 0 && d.matchCompound(left, target{p, ""}, false, ctx, e) && rec(ci-1, p)
		case " ":
			for p := d.nodes[ni].parent; p >= 0; p = d.nodes[p].parent {
				if d.matchCompound(left, target{p, ""}, false, ctx, e) && rec(ci-1, p) {
					return true
				}
			}
			return false
		case "+":
			p := d.prevSibling(ni)
			return p >= 0 && d.matchCompound(left, target{p, ""}, false, ctx, e) && rec(ci-1, p)
		case "~":
			for p := d.prevSibling(ni); p >= 0; p = d.prevSibling(p) {
				if d.matchCompound(left, target{p, ""}, false, ctx, e) && rec(ci-1, p) {
					return true
				}
			}
			return false
		}
		return false
	}
	last := len(c.compounds) - 1
	return d.matchCompound(c.compounds[last], t, true, ctx, e) && rec(last, t.n)
}

type spec3 [3]int

func (a spec3) less(b spec3) bool {
	for i := 0; i < 3; i++ {
		if a[i] != b[i] {
			return a[i] < b[i]
		}
	}
	return false
}
func (a spec3) add(b spec3) spec3 { return spec3{a[0] + b[0], a[1] + b[1], a[2] + b[2]} }
func (a spec3) packed() int64     { return int64(a[0])*1000000 + int64(a[1])*1000 + int64(a[2]) }

func specificity(c *complexSel, ctx *selCtx, e *env) spec3 {
	var sp spec3
	maxOf := func(args []*complexSel, actx *selCtx, forgiving bool) spec3 {
		var m spec3
		for _, a := range args {
			if forgiving && !selValid(a, e) {
				continue
			}
			if s := specificity(a, actx, e); m.less(s) {
				m = s
			}
		}
		return m
	}
	for _, cp := range c.compounds {
		for _, s := range cp.parts {
			switch s.kind {
			case "id":
				sp[0]++
			case "class", "attr":
				sp[1]++
			case "type", "pelement":
				sp[2]++
			case "nesting":
				if ctx != nil {
					sp = sp.add(maxOf(ctx.sels, ctx.parent, true))
				}
			case "pclass":
				n := strings.TrimSuffix(s.name, "()")
				switch n {
				case "where":
				case "is", "matches", "-webkit-any", "-moz-any":
					sp = sp.add(maxOf(s.args, ctx, true))
				case "not", "has":
					sp = sp.add(maxOf(s.args, ctx, false))
				default:
					sp[1]++
				}
			}
		}
	}
	return sp
}

// ---------------------------------------------------------------------------
// declarations -> longhand candidates

var colorProps = map[string]bool{"color": true, "background-color": true, "border-color": true, "outline-color": true, "fill": true, "stroke": true,
	"border-top-color": true, "border-bottom-color": true, "border-left-color": true, "border-right-color": true, "caret-color": true,
	"text-decoration-color": true, "background": true, "box-shadow": true, "column-rule-color": true, "flood-color": true, "stop-color": true}

var lengthProps = map[string]bool{"width": true, "height": true, "min-width": true, "max-width": true, "top": true, "right": true, "bottom": true, "left": true,
	"margin-top": true, "margin-right": true, "margin-bottom": true, "margin-left": true, "padding-top": true, "padding-right": true, "padding-bottom": true, "padding-left": true,
	"border-top-left-radius": true, "border-top-right-radius": true, "border-bottom-right-radius": true, "border-bottom-left-radius": true,
	"margin": true, "padding": true, "inset": true, "border-radius": true, "gap": true, "text-indent": true, "letter-spacing": true, "border-width": true}

func kindOfProp(name string) pkind {
	switch {
	case colorProps[name]:
		return pkColor
	case lengthProps[name]:
		return pkLength
	case name == "font-weight":
		return pkFontWeight
	}
	return pkOpaque
}

var boxShorthands = map[string][4]string{
	"margin":  {"margin-top", "margin-right", "margin-bottom", "margin-left"},
	"padding": {"padding-top", "padding-right", "padding-bottom", "padding-left"},
	"inset":   {"top", "right", "bottom", "left"},
}

var radiusCorners = [4]string{"border-top-left-radius", "border-top-right-radius", "border-bottom-right-radius", "border-bottom-left-radius"}

type longhand struct {
	prop  string
	value string // canonical
}

func isPlainBoxValue(c cv) bool {
	switch c.t.kind {
	case tNumber, tPercentage, tDimension:
		return true
	case tIdent:
		return strings.EqualFold(c.t.text, "auto")
	case tFunction:
		n := strings.ToLower(c.t.text)
		return n == "calc" || n == "min" || n == "max" || n == "clamp"
	}
	return false
}

func expand4(v []cv) ([4]cv, bool) {
	var out [4]cv
	switch len(v) {
	case 1:
		out = [4]cv{v[0], v[0], v[0], v[0]}
	case 2:
		out = [4]cv{v[0], v[1], v[0], v[1]}
	case 3:
		out = [4]cv{v[0], v[1], v[2], v[1]}
	case 4:
		out = [4]cv{v[0], v[1], v[2], v[3]}
	default:
		return out, false
	}
	return out, true
}

// longhands of one declaration
func expandDecl(d *pdecl) []longhand {
	if sides, ok := boxShorthands[d.name]; ok {
		vals := noWS(d.value)
		plain := true
		for _, v := range vals {
			if !isPlainBoxValue(v) {
				plain = false
			}
		}
		if q, ok := expand4(vals); ok && plain {
			var out []longhand
			for i, s := range sides {
				out = append(out, longhand{s, canonLeaf(q[i], pkLength)})
			}
			return out
		}
		var out []longhand
		whole := canonList(d.value, pkLength)
		for i, s := range sides {
			out = append(out, longhand{s, fmt.Sprintf("whole[%d]:%s", i, whole)})
		}
		return out
	}
	if d.name == "border-radius" {
		// horizontal radii [ / vertical radii ]
		var h, v []cv
		cur := &h
		plain := true
		for _, c := range noWS(d.value) {
			if c.t.kind == tDelim && c.t.text == "/" {
				cur = &v
				continue
			}
			if !isPlainBoxValue(c) {
				plain = false
			}
			*cur = append(*cur, c)
		}
		qh, ok1 := expand4(h)
		qv := qh
		ok2 := true
		if len(v) > 0 {
			qv, ok2 = expand4(v)
		}
		var out []longhand
		if ok1 && ok2 && plain {
			for i, s := range radiusCorners {
				out = append(out, longhand{s, canonLeaf(qh[i], pkLength) + "/" + canonLeaf(qv[i], pkLength)})
			}
			return out
		}
		whole := canonList(d.value, pkLength)
		for i, s := range radiusCorners {
			out = append(out, longhand{s, fmt.Sprintf("whole[%d]:%s", i, whole)})
		}
		return out
	}
	for _, s := range radiusCorners {
		if d.name == s {
			vals := noWS(d.value)
			if len(vals) == 1 {
				return []longhand{{s, canonLeaf(vals[0], pkLength) + "/" + canonLeaf(vals[0], pkLength)}}
			}
			if len(vals) == 2 {
				return []longhand{{s, canonLeaf(vals[0], pkLength) + "/" + canonLeaf(vals[1], pkLength)}}
			}
		}
	}
	return []longhand{{d.name, canonValue(d.name, d.value)}}
}

// value syntax features a declaration needs
var exoticFunctions = map[string]bool{"lab": true, "lch": true, "oklab": true, "oklch": true, "color": true, "hwb": true, "color-mix": true,
	"clamp": true, "min": true, "max": true, "env": true, "image-set": true}
var safeUnits = map[string]bool{"cm": true, "em": true, "in": true, "mm": true, "pc": true, "pt": true, "px": true, "s": true, "ms": true, "deg": true, "%": true,
	"rad": true, "grad": true, "turn": true}

func valueFeatures(d *pdecl, into map[string]bool) {
	if d.name == "inset" {
		into["inset-property"] = true
	}
	var walk func(l []cv)
	walk = func(l []cv) {
		for _, c := range l {
			switch c.t.kind {
			case tFunction:
				n := strings.ToLower(c.t.text)
				if exoticFunctions[n] {
					into["fn:"+n] = true
				}
				if n == "rgb" || n == "rgba" || n == "hsl" || n == "hsla" {
					hasComma := false
					for _, k := range c.kids {
						if k.t.kind == tComma {
							hasComma = true
						}
					}
					if !hasComma {
						into["modern-rgb-hsl"] = true
					}
				}
			case tDimension:
				if u := strings.ToLower(c.t.unit); !safeUnits[u] {
					into["unit:"+u] = true
				}
			case tHash:
				if colorishLen(c.t.text) && (len(c.t.text) == 4 || len(c.t.text) == 8) {
					into["hex-rgba"] = true
				}
			case tIdent:
				if strings.EqualFold(c.t.text, "rebeccapurple") {
					into["rebecca-purple"] = true
				}
			}
			walk(c.kids)
		}
	}
	walk(d.value)
}

func colorishLen(s string) bool {
	for i := 0; i < len(s); i++ {
		if _, ok := hexNibble(s[i]); !ok {
			return false
		}
	}
	return true
}

func declUnderstood(d *pdecl, e *env) bool {
	f := map[string]bool{}
	valueFeatures(d, f)
	for k := range f {
		if !e.has(k) {
			return false
		}
	}
	return true
}

// ---------------------------------------------------------------------------
// the cascade

// layer order: tree of layers in first-declaration order among the active statements
type layerTree struct {
	kids  map[string]*layerTree
	order map[string]int
}

func newLayerTree() *layerTree { return &layerTree{kids: map[string]*layerTree{}, order: map[string]int{}} }

func (t *layerTree) declare(path []string) {
	cur := t
	for _, n := range path {
		if _, ok := cur.kids[n]; !ok {
			cur.order[n] = len(cur.order)
			cur.kids[n] = newLayerTree()
		}
		cur = cur.kids[n]
	}
}

// cmpLayer returns >0 if layer p is later (stronger for normal declarations) than q
func (t *layerTree) cmpLayer(p, q []string) int {
	cur := t
	for i := 0; ; i++ {
		if i == len(p) && i == len(q) {
			return 0
		}
		if i == len(p) {
			return 1 // p's own rules come after its sub-layers (and unlayered after everything)
		}
		if i == len(q) {
			return -1
		}
		if p[i] != q[i] {
			op, ok1 := cur.order[p[i]]
			oq, ok2 := cur.order[q[i]]
			if !ok1 {
				op = 1 << 30
			}
			if !ok2 {
				oq = 1 << 30
			}
			return op - oq
		}
		nxt, ok := cur.kids[p[i]]
		if !ok {
			// undeclared common prefix: compare the rest by name for determinism
			return strings.Compare(strings.Join(p[i+1:], "."), strings.Join(q[i+1:], "."))
		}
		cur = nxt
	}
}

func condsHold(cs []*condExpr, e *env) bool {
	for _, c := range cs {
		if !c.eval(e.truth) {
			return false
		}
	}
	return true
}

type candidate struct {
	imp   bool
	layer []string
	spec  spec3
	value string
}

func itemActive(it *fitem, e *env) bool {
	if it.stmt || !condsHold(it.conds, e) {
		return false
	}
	if it.nested && !e.has("nesting") {
		return false
	}
	if len(it.sels) == 0 {
		return false
	}
	for _, s := range it.sels {
		if !selValid(s, e) {
			return false
		}
	}
	return ancestorsValid(it, e)
}

func ancestorsValid(it *fitem, e *env) bool {
	for c := it.encl; c != nil; c = c.parent {
		for _, s := range c.sels {
			if !selValid(s, e) {
				return false
			}
		}
	}
	return true
}

func (d *dom) bestSpec(it *fitem, t target, e *env) (spec3, bool) {
	var best spec3
	found := false
	for _, s := range it.sels {
		if d.matchComplex(s, t, it.ctx, e) {
			sp := specificity(s, it.ctx, e)
			if !found || best.less(sp) {
				best = sp
			}
			found = true
		}
	}
	return best, found
}

// winner of (target, longhand property) in env; mirrors Cascade.winner
func (d *dom) winner(items []fitem, e *env, t target, prop string) (string, bool) {
	lt := newLayerTree()
	for i := range items {
		if items[i].stmt && condsHold(items[i].conds, e) {
			lt.declare(items[i].layer)
		}
	}
	var best *candidate
	for i := range items {
		it := &items[i]
		if !itemActive(it, e) {
			continue
		}
		sp, ok := d.bestSpec(it, t, e)
		if !ok {
			continue
		}
		for _, dc := range it.decls {
			if !declUnderstood(dc, e) {
				continue
			}
			for _, lh := range expandDecl(dc) {
				if lh.prop != prop {
					continue
				}
				c := &candidate{imp: dc.important, layer: it.layer, spec: sp, value: lh.value}
				if best == nil || !weaker(lt, c, best) {
					best = c
				}
			}
		}
	}
	if best == nil {
		return "", false
	}
	return best.value, true
}

// weaker reports whether the later candidate c is strictly weaker than b
func weaker(lt *layerTree, c, b *candidate) bool {
	if c.imp != b.imp {
		return !c.imp
	}
	l := lt.cmpLayer(c.layer, b.layer)
	if c.imp {
		l = -l
	}
	if l != 0 {
		return l < 0
	}
	return c.spec.less(b.spec)
}

// all longhand properties set anywhere in the items
func allProps(items []fitem) []string {
	m := map[string]bool{}
	for i := range items {
		for _, d := range items[i].decls {
			for _, lh := range expandDecl(d) {
				m[lh.prop] = true
			}
		}
	}
	return sortedKeys(m)
}

func collectAtoms(items []fitem, into map[string]bool) {
	for i := range items {
		for _, c := range items[i].conds {
			c.atoms(into)
		}
	}
}

func collectFeatures(items []fitem, into map[string]bool) {
	for i := range items {
		if items[i].nested {
			into["nesting"] = true
		}
		for _, s := range items[i].sels {
			selFeatures(s, into)
		}
		for _, d := range items[i].decls {
			valueFeatures(d, into)
		}
	}
}

func subsets(keys []string, max int, r interface{ Intn(int) int }) []map[string]bool {
	keys = append([]string{}, keys...)
	sort.Strings(keys)
	if len(keys) > max {
		// keep a random subset of the keys variable; the rest stay fixed to true
		for len(keys) > max {
			i := r.Intn(len(keys))
			keys = append(keys[:i], keys[i+1:]...)
		}
	}
	var out []map[string]bool
	for m := 0; m < 1<<uint(len(keys)); m++ {
		s := map[string]bool{}
		for i, k := range keys {
			s[k] = m&(1<<uint(i)) != 0
		}
		out = append(out, s)
	}
	return out
}
