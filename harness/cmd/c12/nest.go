package main

// nest_cases: the Coq model of nesting lowering (coq/C12/Nesting.v lower_is /
// lower_expand) against the real lowering: a nested rule is sent through
// api.Transform with nesting unsupported, the selectors of the emitted rule are
// re-read by the harness's own selector parser and compared structurally.

import (
	"fmt"
	"strings"

	"github.com/evanw/esbuild/pkg/api"
	. "github.com/evanw/esbuild/verifharness/hlib"
)

type nSub struct {
	class string
	isPc  bool
	neg   bool
	args  [][]nCp
}
type nCp struct {
	comb int // 0 none/descendant 1 > 2 + 3 ~
	amp  bool
	ty   string
	subs []nSub
}

var nestTypes = []string{"a", "b", "div", "span"}
var nestClasses = []string{"c1", "c2", "c3", "c4"}
var nestCombText = []string{" ", " > ", " + ", " ~ "}

func idOf(list []string, s string) int {
	for i, x := range list {
		if x == s {
			return i + 1
		}
	}
	return 0
}

func nestCpCSS(c nCp) string {
	var sb strings.Builder
	// a type selector has to come first in a compound selector ("div&", not "&div")
	sb.WriteString(c.ty)
	if c.amp {
		sb.WriteString("&")
	}
	for _, s := range c.subs {
		if !s.isPc {
			sb.WriteString("." + s.class)
			continue
		}
		if s.neg {
			sb.WriteString(":not(")
		} else {
			sb.WriteString(":is(")
		}
		for i, a := range s.args {
			if i > 0 {
				sb.WriteString(", ")
			}
			sb.WriteString(nestComplexCSS(a))
		}
		sb.WriteString(")")
	}
	return sb.String()
}

func nestComplexCSS(cx []nCp) string {
	var sb strings.Builder
	for i, c := range cx {
		if i > 0 {
			sb.WriteString(nestCombText[c.comb])
		} else if c.comb != 0 {
			sb.WriteString(strings.TrimLeft(nestCombText[c.comb], " "))
		}
		sb.WriteString(nestCpCSS(c))
	}
	return sb.String()
}

func nestListCSS(l [][]nCp) string {
	var parts []string
	for _, cx := range l {
		parts = append(parts, nestComplexCSS(cx))
	}
	return strings.Join(parts, ", ")
}

func nestCpCoq(c nCp) string {
	ty := "None"
	if c.ty != "" {
		ty = fmt.Sprintf("(Some %d)", idOf(nestTypes, c.ty))
	}
	subs := "SNil"
	for i := len(c.subs) - 1; i >= 0; i-- {
		s := c.subs[i]
		if s.isPc {
			subs = fmt.Sprintf("(SPc %v %s %s)", s.neg, nestListCoq(s.args), subs)
		} else {
			subs = fmt.Sprintf("(SClass %d %s)", idOf(nestClasses, s.class), subs)
		}
	}
	return fmt.Sprintf("(Cp %d %v %s %s)", c.comb, c.amp, ty, subs)
}

func nestComplexCoq(cx []nCp) string {
	out := "XNil"
	for i := len(cx) - 1; i >= 0; i-- {
		out = fmt.Sprintf("(XCons %s %s)", nestCpCoq(cx[i]), out)
	}
	return out
}

func nestListCoq(l [][]nCp) string {
	out := "LNil"
	for i := len(l) - 1; i >= 0; i-- {
		out = fmt.Sprintf("(LCons %s %s)", nestComplexCoq(l[i]), out)
	}
	return out
}

// the harness parser's selector -> the fragment; ok=false outside the fragment
func nestFromParsed(c *complexSel) ([]nCp, bool) {
	if c == nil || c.invalid {
		return nil, false
	}
	combOf := func(s string) int {
		switch s {
		case ">":
			return 1
		case "+":
			return 2
		case "~":
			return 3
		}
		return 0
	}
	var out []nCp
	for i, cp := range c.compounds {
		n := nCp{}
		if i == 0 {
			n.comb = combOf(c.leadComb)
		} else {
			n.comb = combOf(c.combs[i-1])
		}
		for _, p := range cp.parts {
			switch p.kind {
			case "nesting":
				n.amp = true
			case "type":
				if idOf(nestTypes, p.name) == 0 || n.ty != "" {
					return nil, false
				}
				n.ty = p.name
			case "class":
				if idOf(nestClasses, p.name) == 0 {
					return nil, false
				}
				n.subs = append(n.subs, nSub{class: p.name})
			case "pclass":
				if p.name != "is()" && p.name != "not()" {
					return nil, false
				}
				s := nSub{isPc: true, neg: p.name == "not()"}
				for _, a := range p.args {
					x, ok := nestFromParsed(a)
					if !ok {
						return nil, false
					}
					s.args = append(s.args, x)
				}
				n.subs = append(n.subs, s)
			default:
				return nil, false
			}
		}
		out = append(out, n)
	}
	return out, true
}

type nestGen struct{ r *Rng }

// ampPct: chance (per compound) of an "&"; inside pseudo-class arguments of a child selector too
func (g *nestGen) complex(depth int, _ bool, n int, ampPct int, lead bool) []nCp {
	r := g.r
	var cx []nCp
	for i := 0; i < n; i++ {
		c := g.compoundAmp(depth, ampPct)
		if i > 0 {
			c.comb = []int{0, 0, 1, 1, 2, 3}[r.Intn(6)]
		} else if lead {
			c.comb = r.Range(1, 3)
		}
		cx = append(cx, c)
	}
	return cx
}

func (g *nestGen) compoundAmp(depth int, ampPct int) nCp {
	r := g.r
	c := nCp{amp: ampPct > 0 && r.Chance(ampPct)}
	if r.Chance(45) {
		c.ty = nestTypes[r.Intn(len(nestTypes))]
	}
	for k := r.Intn(3); k > 0; k-- {
		if depth < 2 && r.Chance(25) {
			s := nSub{isPc: true, neg: r.Chance(40)}
			for j := r.Range(1, 2); j > 0; j-- {
				s.args = append(s.args, g.complex(depth+1, false, r.Range(1, 2), ampPct, false))
			}
			c.subs = append(c.subs, s)
		} else {
			c.subs = append(c.subs, nSub{class: nestClasses[r.Intn(len(nestClasses))]})
		}
	}
	if !c.amp && c.ty == "" && len(c.subs) == 0 {
		c.subs = append(c.subs, nSub{class: nestClasses[r.Intn(len(nestClasses))]})
	}
	return c
}

func nestLower(src string, engines []api.Engine) ([][]nCp, string, string) {
	res := api.Transform(src, api.TransformOptions{Loader: api.LoaderCSS, Engines: engines, LogLevel: api.LogLevelSilent})
	if len(res.Errors) > 0 {
		return nil, "", "error: " + res.Errors[0].Text
	}
	out := strings.TrimSpace(string(res.Code))
	rs := parseSheet(out)
	if len(rs) != 1 || rs[0].isAt {
		return nil, out, "not one style rule"
	}
	var l [][]nCp
	for _, c := range parseSelectorList(rs[0].prelude) {
		x, ok := nestFromParsed(c)
		if !ok {
			return nil, out, "selector outside the fragment"
		}
		l = append(l, x)
	}
	return l, out, ""
}

func nestCases(r *Rng, n int, cf *CoqFile, st *Stats) {
	g := &nestGen{r: r}
	var items []string
	isEngines := []api.Engine{{Name: api.EngineChrome, Version: "100"}}
	for i := 0; i < n; i++ {
		var parents [][]nCp
		np := []int{1, 1, 2, 2, 3}[r.Intn(5)]
		for k := 0; k < np; k++ {
			parents = append(parents, g.complex(0, false, []int{1, 1, 2, 3}[r.Intn(4)], 0, false))
		}
		var child [][]nCp
		for k := []int{1, 1, 1, 2}[r.Intn(4)]; k > 0; k-- {
			mode := r.Intn(10)
			switch {
			case mode < 2: // no "&" at all: implicit descendant
				child = append(child, g.complex(0, false, r.Range(1, 2), 0, false))
			case mode < 4: // leading combinator
				child = append(child, g.complex(0, false, r.Range(1, 2), 20, true))
			default:
				child = append(child, g.complex(0, false, r.Range(1, 3), 55, false))
			}
		}
		src := nestListCSS(parents) + " { " + nestListCSS(child) + " { color: red } }"
		got, out, why := nestLower(src, isEngines)
		if why != "" {
			failC12(st, "nest-lowering-unreadable", src, why+" | "+out, "one lowered style rule in the fragment")
			continue
		}
		items = append(items, fmt.Sprintf("(%s, %s, %s)", nestListCoq(parents), nestListCoq(child), nestListCoq(got)))
		st.Histogram[fmt.Sprintf("nest-parents-%d", np)]++
		st.Note("nest-is", src, out != "")
	}
	cf.AddCases("nest_cases", "sellist * sellist * sellist", "check_nest", items)
}

func nestCountAmp(cx []nCp) int {
	n := 0
	for _, c := range cx {
		if c.amp {
			n++
		}
		for _, s := range c.subs {
			for _, a := range s.args {
				n += nestCountAmp(a)
			}
		}
	}
	return n
}

// number of "&" after the implicit one of a relative selector has been added
func nestDims(cx []nCp) int {
	n := nestCountAmp(cx)
	if !(cx[0].comb == 0 && n > 0) {
		n++
	}
	return n
}

// the cross-product branch: several parents and a target without :is()
func nestExpandCases(r *Rng, n int, cf *CoqFile, st *Stats) {
	g := &nestGen{r: r}
	var items []string
	engines := []api.Engine{{Name: api.EngineChrome, Version: "60"}}
	for i := 0; i < n; i++ {
		var parents [][]nCp
		np := r.Range(2, 3)
		for k := 0; k < np; k++ {
			parents = append(parents, g.complex(0, false, []int{1, 1, 2}[r.Intn(3)], 0, false))
		}
		var child [][]nCp
		for k := []int{1, 1, 2}[r.Intn(3)]; k > 0; k-- {
			var cx []nCp
			for try := 0; ; try++ {
				mode := r.Intn(10)
				switch {
				case mode < 2:
					cx = g.complex(0, false, r.Range(1, 2), 0, false)
				case mode < 4:
					cx = g.complex(0, false, r.Range(1, 2), 20, true)
				default:
					cx = g.complex(0, false, r.Range(1, 3), 50, false)
				}
				if nestDims(cx) <= 3 || try > 50 {
					break
				}
			}
			child = append(child, cx)
		}
		src := nestListCSS(parents) + " { " + nestListCSS(child) + " { color: red } }"
		got, out, why := nestLower(src, engines)
		if why != "" {
			failC12(st, "nest-expansion-unreadable", src, why+" | "+out, "one lowered style rule in the fragment")
			continue
		}
		items = append(items, fmt.Sprintf("(%s, %s, %s)", nestListCoq(parents), nestListCoq(child), nestListCoq(got)))
		inPc := false
		for _, cx := range child {
			top := 0
			for _, c := range cx {
				if c.amp {
					top++
				}
			}
			if nestCountAmp(cx) > top {
				inPc = true
			}
		}
		if inPc {
			st.Histogram["nest-expand-amp-in-pseudo-arg"]++
		}
		st.Note("nest-expand", src, len(got) > len(child))
	}
	cf.AddCases("nestx_cases", "sellist * sellist * sellist", "check_nestx", items)
}

// nestsem_cases: the Coq selector semantics (Nesting.v matches over tree_dom,
// left-to-right over tabulated sets) against the cascade oracle's matcher
// (right-to-left backtracking, cascade.go), on random trees; nested selectors
// with "&" are matched by the oracle through its own nesting context.
func nestSemCases(r *Rng, n int, cf *CoqFile, st *Stats) {
	g := &nestGen{r: r}
	var items []string
	e := &env{truth: map[string]bool{}, variable: map[string]bool{}, understood: map[string]bool{}}
	for i := 0; i < n; i++ {
		d := genDOM(r)
		for k := range d.nodes {
			d.nodes[k].ns = ""
		}
		var parents [][]nCp
		var cx []nCp
		var ctx *selCtx
		if r.Chance(50) {
			for k := r.Range(1, 3); k > 0; k-- {
				parents = append(parents, g.complex(0, false, r.Range(1, 2), 0, false))
			}
			for try := 0; ; try++ {
				cx = g.complex(0, false, r.Range(1, 3), 60, false)
				if nestCountAmp(cx) > 0 || try > 50 {
					break
				}
			}
			if nestCountAmp(cx) == 0 {
				cx[0].amp = true
			}
			ctx = &selCtx{sels: parseSelectorList(tokenize(nestListCSS(parents)))}
		} else {
			cx = g.complex(0, false, r.Range(1, 4), 0, false)
		}
		parsed := parseSelectorList(tokenize(nestComplexCSS(cx)))
		if len(parsed) != 1 || parsed[0].invalid {
			failC12(st, "nestsem-unparsed", nestComplexCSS(cx), "invalid", "a valid selector")
			continue
		}
		var nodes, want []string
		any := false
		for k := range d.nodes {
			nd := d.nodes[k]
			var cls []string
			for _, c := range nd.classes {
				cls = append(cls, fmt.Sprint(idOf(nestClasses, c)))
			}
			par, prev := "None", "None"
			if nd.parent >= 0 {
				par = fmt.Sprintf("(Some %d%%nat)", nd.parent)
			}
			if p := d.prevSibling(k); p >= 0 {
				prev = fmt.Sprintf("(Some %d%%nat)", p)
			}
			nodes = append(nodes, fmt.Sprintf("mkN %d [%s] %s %s", idOf(nestTypes, nd.tag), strings.Join(cls, ";"), par, prev))
			m := d.matchComplex(parsed[0], target{k, ""}, ctx, e)
			any = any || m
			want = append(want, fmt.Sprint(m))
		}
		items = append(items, fmt.Sprintf("([%s], %s, %s, [%s])", strings.Join(nodes, ";"), nestListCoq(parents), nestComplexCoq(cx), strings.Join(want, ";")))
		st.Note("nestsem", nestListCSS(parents)+"|"+nestComplexCSS(cx), any)
	}
	cf.AddCases("nestsem_cases", "list node * sellist * complex * list bool", "check_nestsem", items)
}
