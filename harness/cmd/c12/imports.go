package main

// Correspondence for ImportOrder.v: linker.isConditionalImportRedundant on
// condition chains built from real parsed @import rules.

import (
	"fmt"
	"strings"

	"github.com/evanw/esbuild/internal/config"
	"github.com/evanw/esbuild/internal/css_ast"
	"github.com/evanw/esbuild/internal/css_parser"
	"github.com/evanw/esbuild/internal/linker"
	"github.com/evanw/esbuild/internal/logger"
	. "github.com/evanw/esbuild/verifharness/hlib"
)

var icLayers = []string{"", "layer", "layer(a)", "layer(b)"}
var icSupports = []string{"", "supports(display: grid)", "supports(gap: 1px)"}
var icMedia = []string{"", "screen", "print"}

func redundantCases(r *Rng, n int, cf *CoqFile, st *Stats) {
	// parse every combination once
	type key [3]int
	var keys []key
	var sb strings.Builder
	for l := range icLayers {
		for s := range icSupports {
			for m := range icMedia {
				if l == 0 && s == 0 && m == 0 {
					continue
				}
				keys = append(keys, key{l, s, m})
				// vary whitespace: the comparison ignores it
				sep := []string{" ", "  ", " /**/ "}[r.Intn(3)]
				fmt.Fprintf(&sb, "@import \"x.css\"%s%s %s %s;\n", sep, icLayers[l], icSupports[s], icMedia[m])
			}
		}
	}
	log := logger.NewDeferLog(logger.DeferLogNoVerboseOrDebug, nil)
	tree := css_parser.Parse(log, logger.Source{Contents: sb.String()}, css_parser.OptionsFromConfig(config.LoaderCSS, &config.Options{}))
	conds := map[key]css_ast.ImportConditions{}
	i := 0
	for _, rule := range tree.Rules {
		if imp, ok := rule.Data.(*css_ast.RAtImport); ok && imp.ImportConditions != nil && i < len(keys) {
			conds[keys[i]] = *imp.ImportConditions
			i++
		}
	}
	if i != len(keys) {
		failC12(st, "import-conditions-parse", sb.String(), i, len(keys))
		return
	}
	chain := func(k int) ([]css_ast.ImportConditions, string, []key) {
		var out []css_ast.ImportConditions
		var parts []string
		var ks []key
		for j := 0; j < k; j++ {
			q := keys[r.Intn(len(keys))]
			ks = append(ks, q)
			out = append(out, conds[q])
			parts = append(parts, fmt.Sprintf("[%d;%d;%d]", q[0], q[1], q[2]))
		}
		return out, "[" + strings.Join(parts, ";") + "]", ks
	}
	var items []string
	for c := 0; c < n; c++ {
		e, es, ek := chain(r.Intn(4))
		var l []css_ast.ImportConditions
		var ls string
		if r.Chance(60) && len(ek) > 0 {
			// related chains: a prefix of the earlier one with small edits
			k := r.Intn(len(ek) + 1)
			var parts []string
			for j := 0; j < k; j++ {
				q := ek[j]
				switch r.Intn(5) {
				case 0:
					q[1] = 0
				case 1:
					q[2] = 0
				case 2:
					q[r.Intn(3)] = r.Intn(3)
				}
				if q == (key{0, 0, 0}) {
					q = ek[j]
				}
				l = append(l, conds[q])
				parts = append(parts, fmt.Sprintf("[%d;%d;%d]", q[0], q[1], q[2]))
			}
			ls = "[" + strings.Join(parts, ";") + "]"
		} else {
			l, ls, _ = chain(r.Intn(4))
		}
		res := linker.VerifIsConditionalImportRedundant(e, l)
		items = append(items, fmt.Sprintf("(%s,%s,%s)", es, ls, CBool(res)))
		st.Note("redundant", es+ls, res && len(l) > 0)
	}
	cf.AddCases("red_cases", "list (list Z) * list (list Z) * bool", "check_red", items)
}
