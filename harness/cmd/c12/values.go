package main

// Independent interpretation of CSS values (CSS Color 4 for colours, CSS
// Values 4 for numbers/lengths/times and calc()), used by the oracle to decide
// whether two declaration values mean the same thing.

import (
	"fmt"
	"math"
	"math/big"
	"regexp"
	"sort"
	"strconv"
	"strings"
)

// component value tree
type cv struct {
	t    tok
	kids []cv // for tFunction, tOpenParen, tOpenBracket, tOpenBrace
}

func closerOf(k tkind) tkind {
	switch k {
	case tFunction, tOpenParen:
		return tCloseParen
	case tOpenBracket:
		return tCloseBracket
	case tOpenBrace:
		return tCloseBrace
	}
	return tEOF
}

// parse a flat token list into component values (blocks grouped)
func parseCVs(toks []tok) []cv {
	var rec func(i int, closer tkind) ([]cv, int)
	rec = func(i int, closer tkind) ([]cv, int) {
		var out []cv
		for i < len(toks) {
			t := toks[i]
			if t.kind == tEOF {
				return out, i
			}
			if closer != tEOF && t.kind == closer {
				return out, i + 1
			}
			switch t.kind {
			case tFunction, tOpenParen, tOpenBracket, tOpenBrace:
				kids, j := rec(i+1, closerOf(t.kind))
				out = append(out, cv{t: t, kids: kids})
				i = j
			default:
				out = append(out, cv{t: t})
				i++
			}
		}
		return out, i
	}
	out, _ := rec(0, tEOF)
	return out
}

func trimWS(l []cv) []cv {
	for len(l) > 0 && l[0].t.kind == tWhitespace {
		l = l[1:]
	}
	for len(l) > 0 && l[len(l)-1].t.kind == tWhitespace {
		l = l[:len(l)-1]
	}
	return l
}

func noWS(l []cv) []cv {
	var out []cv
	for _, c := range l {
		if c.t.kind != tWhitespace {
			out = append(out, c)
		}
	}
	return out
}

// ---------------------------------------------------------------------------
// colours

type col struct {
	r, g, b, a float64 // r,g,b on the 0..255 scale, a in 0..1
	any        bool    // a colour outside the sRGB gamut: the oracle does not model gamut mapping, it compares equal to anything
}

func rgbaOfHex(h uint32) col {
	return col{r: float64(h >> 24), g: float64((h >> 16) & 255), b: float64((h >> 8) & 255), a: float64(h&255) / 255}
}

func sameColor(x, y col) bool {
	if x.any || y.any {
		return true
	}
	return math.Abs(x.r-y.r) <= 0.501 && math.Abs(x.g-y.g) <= 0.501 && math.Abs(x.b-y.b) <= 0.501 && math.Abs(x.a-y.a) <= 0.0026
}

// CSS Color 4 section 6.1 named colours (and the basic 16)
var namedColors = map[string]uint32{
	"aliceblue": 0xf0f8ff, "antiquewhite": 0xfaebd7, "aqua": 0x00ffff, "aquamarine": 0x7fffd4, "azure": 0xf0ffff,
	"beige": 0xf5f5dc, "bisque": 0xffe4c4, "black": 0x000000, "blanchedalmond": 0xffebcd, "blue": 0x0000ff,
	"blueviolet": 0x8a2be2, "brown": 0xa52a2a, "burlywood": 0xdeb887, "cadetblue": 0x5f9ea0, "chartreuse": 0x7fff00,
	"chocolate": 0xd2691e, "coral": 0xff7f50, "cornflowerblue": 0x6495ed, "cornsilk": 0xfff8dc, "crimson": 0xdc143c,
	"cyan": 0x00ffff, "darkblue": 0x00008b, "darkcyan": 0x008b8b, "darkgoldenrod": 0xb8860b, "darkgray": 0xa9a9a9,
	"darkgreen": 0x006400, "darkgrey": 0xa9a9a9, "darkkhaki": 0xbdb76b, "darkmagenta": 0x8b008b, "darkolivegreen": 0x556b2f,
	"darkorange": 0xff8c00, "darkorchid": 0x9932cc, "darkred": 0x8b0000, "darksalmon": 0xe9967a, "darkseagreen": 0x8fbc8f,
	"darkslateblue": 0x483d8b, "darkslategray": 0x2f4f4f, "darkslategrey": 0x2f4f4f, "darkturquoise": 0x00ced1, "darkviolet": 0x9400d3,
	"deeppink": 0xff1493, "deepskyblue": 0x00bfff, "dimgray": 0x696969, "dimgrey": 0x696969, "dodgerblue": 0x1e90ff,
	"firebrick": 0xb22222, "floralwhite": 0xfffaf0, "forestgreen": 0x228b22, "fuchsia": 0xff00ff, "gainsboro": 0xdcdcdc,
	"ghostwhite": 0xf8f8ff, "gold": 0xffd700, "goldenrod": 0xdaa520, "gray": 0x808080, "green": 0x008000,
	"greenyellow": 0xadff2f, "grey": 0x808080, "honeydew": 0xf0fff0, "hotpink": 0xff69b4, "indianred": 0xcd5c5c,
	"indigo": 0x4b0082, "ivory": 0xfffff0, "khaki": 0xf0e68c, "lavender": 0xe6e6fa, "lavenderblush": 0xfff0f5,
	"lawngreen": 0x7cfc00, "lemonchiffon": 0xfffacd, "lightblue": 0xadd8e6, "lightcoral": 0xf08080, "lightcyan": 0xe0ffff,
	"lightgoldenrodyellow": 0xfafad2, "lightgray": 0xd3d3d3, "lightgreen": 0x90ee90, "lightgrey": 0xd3d3d3, "lightpink": 0xffb6c1,
	"lightsalmon": 0xffa07a, "lightseagreen": 0x20b2aa, "lightskyblue": 0x87cefa, "lightslategray": 0x778899, "lightslategrey": 0x778899,
	"lightsteelblue": 0xb0c4de, "lightyellow": 0xffffe0, "lime": 0x00ff00, "limegreen": 0x32cd32, "linen": 0xfaf0e6,
	"magenta": 0xff00ff, "maroon": 0x800000, "mediumaquamarine": 0x66cdaa, "mediumblue": 0x0000cd, "mediumorchid": 0xba55d3,
	"mediumpurple": 0x9370db, "mediumseagreen": 0x3cb371, "mediumslateblue": 0x7b68ee, "mediumspringgreen": 0x00fa9a, "mediumturquoise": 0x48d1cc,
	"mediumvioletred": 0xc71585, "midnightblue": 0x191970, "mintcream": 0xf5fffa, "mistyrose": 0xffe4e1, "moccasin": 0xffe4b5,
	"navajowhite": 0xffdead, "navy": 0x000080, "oldlace": 0xfdf5e6, "olive": 0x808000, "olivedrab": 0x6b8e23,
	"orange": 0xffa500, "orangered": 0xff4500, "orchid": 0xda70d6, "palegoldenrod": 0xeee8aa, "palegreen": 0x98fb98,
	"paleturquoise": 0xafeeee, "palevioletred": 0xdb7093, "papayawhip": 0xffefd5, "peachpuff": 0xffdab9, "peru": 0xcd853f,
	"pink": 0xffc0cb, "plum": 0xdda0dd, "powderblue": 0xb0e0e6, "purple": 0x800080, "rebeccapurple": 0x663399,
	"red": 0xff0000, "rosybrown": 0xbc8f8f, "royalblue": 0x4169e1, "saddlebrown": 0x8b4513, "salmon": 0xfa8072,
	"sandybrown": 0xf4a460, "seagreen": 0x2e8b57, "seashell": 0xfff5ee, "sienna": 0xa0522d, "silver": 0xc0c0c0,
	"skyblue": 0x87ceeb, "slateblue": 0x6a5acd, "slategray": 0x708090, "slategrey": 0x708090, "snow": 0xfffafa,
	"springgreen": 0x00ff7f, "steelblue": 0x4682b4, "tan": 0xd2b48c, "teal": 0x008080, "thistle": 0xd8bfd8,
	"tomato": 0xff6347, "turquoise": 0x40e0d0, "violet": 0xee82ee, "wheat": 0xf5deb3, "white": 0xffffff,
	"whitesmoke": 0xf5f5f5, "yellow": 0xffff00, "yellowgreen": 0x9acd32,
}

func hexNibble(c byte) (int, bool) {
	switch {
	case c >= '0' && c <= '9':
		return int(c - '0'), true
	case c >= 'a' && c <= 'f':
		return int(c-'a') + 10, true
	case c >= 'A' && c <= 'F':
		return int(c-'A') + 10, true
	}
	return 0, false
}

func clamp(x, lo, hi float64) float64 {
	if x < lo {
		return lo
	}
	if x > hi {
		return hi
	}
	return x
}

func numOf(c cv) (float64, bool) {
	if c.t.kind != tNumber {
		return 0, false
	}
	v, err := strconv.ParseFloat(c.t.text, 64)
	return v, err == nil
}
func pctOf(c cv) (float64, bool) {
	if c.t.kind != tPercentage {
		return 0, false
	}
	v, err := strconv.ParseFloat(c.t.text, 64)
	return v, err == nil
}

func hueOf(c cv) (float64, bool) {
	switch c.t.kind {
	case tNumber:
		return numOf(c)
	case tDimension:
		v, err := strconv.ParseFloat(c.t.text, 64)
		if err != nil {
			return 0, false
		}
		switch strings.ToLower(c.t.unit) {
		case "deg":
			return v, true
		case "grad":
			return v * 0.9, true
		case "rad":
			return v * 180 / math.Pi, true
		case "turn":
			return v * 360, true
		}
	case tIdent:
		if strings.EqualFold(c.t.text, "none") {
			return 0, true
		}
	}
	return 0, false
}

func alphaOf(c cv) (float64, bool) {
	if v, ok := numOf(c); ok {
		return clamp(v, 0, 1), true
	}
	if v, ok := pctOf(c); ok {
		return clamp(v/100, 0, 1), true
	}
	if c.t.kind == tIdent && strings.EqualFold(c.t.text, "none") {
		return 0, true
	}
	return 0, false
}

// splits function arguments into (three components, optional alpha)
func colorArgs(kids []cv) (args []cv, alpha *cv, ok bool) {
	k := noWS(kids)
	hasComma := false
	for _, c := range k {
		if c.t.kind == tComma {
			hasComma = true
		}
	}
	if hasComma {
		// legacy: a , b , c [, alpha]
		if len(k) == 5 && k[1].t.kind == tComma && k[3].t.kind == tComma {
			return []cv{k[0], k[2], k[4]}, nil, true
		}
		if len(k) == 7 && k[1].t.kind == tComma && k[3].t.kind == tComma && k[5].t.kind == tComma {
			return []cv{k[0], k[2], k[4]}, &k[6], true
		}
		return nil, nil, false
	}
	if len(k) == 3 {
		return k, nil, true
	}
	if len(k) == 5 && k[3].t.kind == tDelim && k[3].t.text == "/" {
		return k[:3], &k[4], true
	}
	return nil, nil, false
}

func hslToRGB(h, s, l float64) (float64, float64, float64) {
	// CSS Color 4, section 7.1
	h = math.Mod(h, 360)
	if h < 0 {
		h += 360
	}
	f := func(n float64) float64 {
		k := math.Mod(n+h/30, 12)
		a := s * math.Min(l, 1-l)
		return l - a*math.Max(-1, math.Min(math.Min(k-3, 9-k), 1))
	}
	return f(0), f(8), f(4)
}

func colorOfCV(c cv) (col, bool) {
	switch c.t.kind {
	case tIdent:
		name := strings.ToLower(c.t.text)
		if name == "transparent" {
			return col{r: 0, g: 0, b: 0, a: 0}, true
		}
		if v, ok := namedColors[name]; ok {
			return rgbaOfHex(v<<8 | 0xFF), true
		}
	case tHash:
		s := c.t.text
		var d []int
		for i := 0; i < len(s); i++ {
			n, ok := hexNibble(s[i])
			if !ok {
				return col{}, false
			}
			d = append(d, n)
		}
		switch len(d) {
		case 3:
			return col{r: float64(d[0] * 17), g: float64(d[1] * 17), b: float64(d[2] * 17), a: 1}, true
		case 4:
			return col{r: float64(d[0] * 17), g: float64(d[1] * 17), b: float64(d[2] * 17), a: float64(d[3]*17) / 255}, true
		case 6:
			return col{r: float64(d[0]*16 + d[1]), g: float64(d[2]*16 + d[3]), b: float64(d[4]*16 + d[5]), a: 1}, true
		case 8:
			return col{r: float64(d[0]*16 + d[1]), g: float64(d[2]*16 + d[3]), b: float64(d[4]*16 + d[5]), a: float64(d[6]*16+d[7]) / 255}, true
		}
	case tFunction:
		name := strings.ToLower(c.t.text)
		args, alpha, ok := colorArgs(c.kids)
		if !ok {
			return col{}, false
		}
		a := 1.0
		if alpha != nil {
			if a, ok = alphaOf(*alpha); !ok {
				return col{}, false
			}
		}
		switch name {
		case "rgb", "rgba":
			var ch [3]float64
			for i, x := range args {
				if v, ok := numOf(x); ok {
					ch[i] = clamp(v, 0, 255)
				} else if v, ok := pctOf(x); ok {
					ch[i] = clamp(v*255/100, 0, 255)
				} else if x.t.kind == tIdent && strings.EqualFold(x.t.text, "none") {
					ch[i] = 0
				} else {
					return col{}, false
				}
			}
			return col{r: ch[0], g: ch[1], b: ch[2], a: a}, true
		case "hsl", "hsla":
			h, ok1 := hueOf(args[0])
			s, ok2 := pctOrNum(args[1])
			l, ok3 := pctOrNum(args[2])
			if !ok1 || !ok2 || !ok3 {
				return col{}, false
			}
			r, g, b := hslToRGB(h, clamp(s/100, 0, 1), clamp(l/100, 0, 1))
			return col{r: r * 255, g: g * 255, b: b * 255, a: a}, true
		case "lab", "lch", "oklab", "oklch":
			// CSS Color 4, sections 9 and 10; percentage reference ranges: L 100% = 100 (1 for
			// ok*), a/b 100% = 125 (0.4), chroma 100% = 150 (0.4)
			ok := name == "oklab" || name == "oklch"
			polar := name == "lch" || name == "oklch"
			comp := func(x cv, ref float64) (float64, bool) {
				if v, k := numOf(x); k {
					return v, true
				}
				if v, k := pctOf(x); k {
					return v * ref / 100, true
				}
				if x.t.kind == tIdent && strings.EqualFold(x.t.text, "none") {
					return 0, true
				}
				return 0, false
			}
			lref, abref, cref := 100.0, 125.0, 150.0
			if ok {
				lref, abref, cref = 1, 0.4, 0.4
			}
			L, k1 := comp(args[0], lref)
			var A, B float64
			k2, k3 := true, true
			if polar {
				var C, H float64
				C, k2 = comp(args[1], cref)
				H, k3 = hueOf(args[2])
				if C < 0 {
					C = 0
				}
				A, B = C*math.Cos(H*math.Pi/180), C*math.Sin(H*math.Pi/180)
			} else {
				A, k2 = comp(args[1], abref)
				B, k3 = comp(args[2], abref)
			}
			if !k1 || !k2 || !k3 {
				return col{}, false
			}
			if L < 0 {
				L = 0
			}
			var x, y, z float64
			if ok {
				if L > 1 {
					L = 1
				}
				x, y, z = oklabToXYZ(L, A, B)
			} else {
				if L > 100 {
					L = 100
				}
				x, y, z = d50ToD65(labToXYZ(L, A, B))
			}
			r, g, b := xyzToSRGB(x, y, z)
			eps := 0.5 / 255
			if r < -eps || r > 1+eps || g < -eps || g > 1+eps || b < -eps || b > 1+eps {
				return col{a: a, any: true}, true
			}
			return col{r: clamp(r, 0, 1) * 255, g: clamp(g, 0, 1) * 255, b: clamp(b, 0, 1) * 255, a: a}, true
		case "hwb":
			h, ok1 := hueOf(args[0])
			w, ok2 := pctOrNum(args[1])
			bk, ok3 := pctOrNum(args[2])
			if !ok1 || !ok2 || !ok3 {
				return col{}, false
			}
			w, bk = clamp(w/100, 0, 1), clamp(bk/100, 0, 1)
			if w+bk >= 1 {
				g := w / (w + bk)
				return col{r: g * 255, g: g * 255, b: g * 255, a: a}, true
			}
			r, g, b := hslToRGB(h, 1, 0.5)
			f := func(x float64) float64 { return (x*(1-w-bk) + w) * 255 }
			return col{r: f(r), g: f(g), b: f(b), a: a}, true
		}
	}
	return col{}, false
}

func pctOrNum(c cv) (float64, bool) {
	if v, ok := pctOf(c); ok {
		return v, true
	}
	if v, ok := numOf(c); ok {
		return v, true
	}
	if c.t.kind == tIdent && strings.EqualFold(c.t.text, "none") {
		return 0, true
	}
	return 0, false
}

// colorValue parses a whole value text as one colour
func colorValue(text string) (col, bool) {
	cvs := trimWS(parseCVs(tokenize(text)))
	if len(cvs) != 1 {
		return col{}, false
	}
	return colorOfCV(cvs[0])
}

// ---------------------------------------------------------------------------
// exact decimal numbers

// ratOfNumber parses a CSS number token representation exactly
func ratOfNumber(s string) (*big.Rat, bool) {
	if s == "" {
		return nil, false
	}
	mant := s
	exp := 0
	if i := strings.IndexAny(s, "eE"); i >= 0 {
		mant = s[:i]
		e, err := strconv.Atoi(strings.TrimPrefix(s[i+1:], "+"))
		if err != nil || e > 400 || e < -400 {
			return nil, false
		}
		exp = e
	}
	neg := false
	if mant == "" {
		return nil, false
	}
	if mant[0] == '+' || mant[0] == '-' {
		neg = mant[0] == '-'
		mant = mant[1:]
	}
	ip, fp := mant, ""
	if i := strings.IndexByte(mant, '.'); i >= 0 {
		ip, fp = mant[:i], mant[i+1:]
	}
	if ip == "" && fp == "" {
		return nil, false
	}
	for _, c := range ip + fp {
		if c < '0' || c > '9' {
			return nil, false
		}
	}
	n := new(big.Int)
	if _, ok := n.SetString("0"+ip+fp, 10); !ok {
		return nil, false
	}
	r := new(big.Rat).SetInt(n)
	ten := big.NewInt(10)
	scale := exp - len(fp)
	p := new(big.Int).Exp(ten, big.NewInt(int64(abs(scale))), nil)
	if scale >= 0 {
		r.Mul(r, new(big.Rat).SetInt(p))
	} else {
		r.Quo(r, new(big.Rat).SetInt(p))
	}
	if neg {
		r.Neg(r)
	}
	return r, true
}

func abs(x int) int {
	if x < 0 {
		return -x
	}
	return x
}

var lengthUnits = map[string]bool{"px": true, "cm": true, "mm": true, "q": true, "in": true, "pt": true, "pc": true,
	"em": true, "rem": true, "ex": true, "rex": true, "cap": true, "rcap": true, "ch": true, "rch": true, "ic": true, "ric": true,
	"lh": true, "rlh": true, "vw": true, "vh": true, "vi": true, "vb": true, "vmin": true, "vmax": true,
	"svw": true, "svh": true, "lvw": true, "lvh": true, "dvw": true, "dvh": true, "cqw": true, "cqh": true}

// ---------------------------------------------------------------------------
// calc(): linear forms  sum_u coeff_u * u   (u = "" for plain numbers, "%" for percentages)

type linform map[string]*big.Rat

func (l linform) key() string {
	var ks []string
	for k, v := range l {
		if v.Sign() != 0 {
			ks = append(ks, k+"="+v.RatString())
		}
	}
	sort.Strings(ks)
	return strings.Join(ks, ",")
}

func linOfLeaf(c cv) (linform, bool) {
	switch c.t.kind {
	case tNumber:
		r, ok := ratOfNumber(c.t.text)
		return linform{"": r}, ok
	case tPercentage:
		r, ok := ratOfNumber(c.t.text)
		return linform{"%": r}, ok
	case tDimension:
		r, ok := ratOfNumber(c.t.text)
		if !ok {
			return nil, false
		}
		u := strings.ToLower(c.t.unit)
		// canonical units inside a type (CSS Values 4: absolute lengths, times, angles)
		switch u {
		case "ms":
			return linform{"s": r.Quo(r, big.NewRat(1000, 1))}, true
		}
		return linform{u: r}, true
	case tFunction:
		if strings.EqualFold(c.t.text, "calc") {
			return linOfSum(c.kids)
		}
	case tOpenParen:
		return linOfSum(c.kids)
	}
	return nil, false
}

func linScale(a linform, k *big.Rat) linform {
	out := linform{}
	for u, v := range a {
		out[u] = new(big.Rat).Mul(v, k)
	}
	return out
}

func linIsNumber(a linform) (*big.Rat, bool) {
	for u, v := range a {
		if u != "" && v.Sign() != 0 {
			return nil, false
		}
	}
	if v, ok := a[""]; ok {
		return v, true
	}
	return new(big.Rat), true
}

func linOfProduct(l []cv) (linform, bool) {
	// l has no whitespace; operators * and /
	if len(l) == 0 {
		return nil, false
	}
	acc, ok := linOfLeaf(l[0])
	if !ok {
		return nil, false
	}
	i := 1
	for i+1 < len(l) {
		op := l[i]
		rhs, ok := linOfLeaf(l[i+1])
		if !ok || op.t.kind != tDelim {
			return nil, false
		}
		switch op.t.text {
		case "*":
			if k, ok := linIsNumber(rhs); ok {
				acc = linScale(acc, k)
			} else if k, ok := linIsNumber(acc); ok {
				acc = linScale(rhs, k)
			} else {
				return nil, false
			}
		case "/":
			k, ok := linIsNumber(rhs)
			if !ok || k.Sign() == 0 {
				return nil, false
			}
			acc = linScale(acc, new(big.Rat).Inv(k))
		default:
			return nil, false
		}
		i += 2
	}
	if i != len(l) {
		return nil, false
	}
	return acc, true
}

func linOfSum(kids []cv) (linform, bool) {
	// split on whitespace-delimited + and -
	l := trimWS(kids)
	var terms [][]cv
	var signs []int
	cur := []cv{}
	sign := 1
	for i := 0; i < len(l); i++ {
		c := l[i]
		if c.t.kind == tDelim && (c.t.text == "+" || c.t.text == "-") && i > 0 && l[i-1].t.kind == tWhitespace && i+1 < len(l) && l[i+1].t.kind == tWhitespace {
			terms = append(terms, noWS(cur))
			signs = append(signs, sign)
			cur = []cv{}
			if c.t.text == "-" {
				sign = -1
			} else {
				sign = 1
			}
			continue
		}
		cur = append(cur, c)
	}
	terms = append(terms, noWS(cur))
	signs = append(signs, sign)
	acc := linform{}
	for i, t := range terms {
		p, ok := linOfProduct(t)
		if !ok {
			return nil, false
		}
		for u, v := range p {
			if _, ok := acc[u]; !ok {
				acc[u] = new(big.Rat)
			}
			if signs[i] < 0 {
				acc[u].Sub(acc[u], v)
			} else {
				acc[u].Add(acc[u], v)
			}
		}
	}
	return acc, true
}

// ---------------------------------------------------------------------------
// canonical text of a declaration value, by property kind

type pkind int

const (
	pkOpaque pkind = iota // compare token streams (whitespace-insensitive)
	pkColor
	pkLength // lengths, percentages, numbers, calc(), keywords; zero length == 0
	pkTime
	pkNumber
	pkFontWeight
)

func canonLeaf(c cv, kind pkind) string {
	switch c.t.kind {
	case tWhitespace:
		return " "
	case tIdent:
		if kind == pkColor {
			if v, ok := colorOfCV(c); ok {
				return canonColor(v)
			}
		}
		if kind == pkFontWeight {
			switch strings.ToLower(c.t.text) {
			case "normal":
				return "N400"
			case "bold":
				return "N700"
			}
		}
		if strings.HasPrefix(c.t.text, "--") {
			return "I" + c.t.text
		}
		return "I" + strings.ToLower(c.t.text)
	case tHash:
		if kind == pkColor {
			if v, ok := colorOfCV(c); ok {
				return canonColor(v)
			}
		}
		return "#" + c.t.text
	case tNumber:
		if r, ok := ratOfNumber(c.t.text); ok {
			return "N" + r.RatString()
		}
		return "N?" + c.t.text
	case tPercentage:
		if r, ok := ratOfNumber(c.t.text); ok {
			return "P" + r.RatString()
		}
		return "P?" + c.t.text
	case tDimension:
		r, ok := ratOfNumber(c.t.text)
		if !ok {
			return "D?" + c.t.text + c.t.unit
		}
		u := strings.ToLower(c.t.unit)
		if u == "ms" {
			r = new(big.Rat).Quo(r, big.NewRat(1000, 1))
			u = "s"
		}
		if r.Sign() == 0 && lengthUnits[u] && kind == pkLength {
			return "N0"
		}
		return "D" + r.RatString() + u
	case tString:
		return "S" + strconv.Quote(c.t.text)
	case tURL:
		return "U" + strconv.Quote(c.t.text)
	case tFunction:
		if kind == pkColor {
			if v, ok := colorOfCV(c); ok {
				return canonColor(v)
			}
		}
		if strings.EqualFold(c.t.text, "calc") {
			if lf, ok := linOfSum(c.kids); ok {
				// a calc() that reduces to a single term is that plain value
				var units []string
				for u, v := range lf {
					if v.Sign() != 0 {
						units = append(units, u)
					}
				}
				if len(units) <= 1 {
					u := ""
					if len(units) == 1 {
						u = units[0]
					} else {
						for k := range lf {
							if k > u {
								u = k
							}
						}
					}
					r := lf[u]
					if r == nil {
						r = new(big.Rat)
					}
					switch {
					case u == "":
						return "N" + r.RatString()
					case u == "%":
						return "P" + r.RatString()
					case r.Sign() == 0 && lengthUnits[u] && kind == pkLength:
						return "N0"
					}
					return "D" + r.RatString() + u
				}
				return "calc{" + lf.key() + "}"
			}
		}
		if strings.EqualFold(c.t.text, "url") {
			k := noWS(c.kids)
			if len(k) == 1 && k[0].t.kind == tString {
				return "U" + strconv.Quote(k[0].t.text)
			}
		}
		name := strings.ToLower(c.t.text)
		if strings.HasPrefix(c.t.text, "--") {
			name = c.t.text
		}
		return "F" + name + "(" + canonList(c.kids, kind) + ")"
	case tOpenParen:
		return "(" + canonList(c.kids, kind) + ")"
	case tOpenBracket:
		return "[" + canonList(c.kids, kind) + "]"
	case tOpenBrace:
		return "{" + canonList(c.kids, kind) + "}"
	case tComma:
		return ","
	case tColon:
		return ":"
	case tSemicolon:
		return ";"
	case tDelim:
		return "d" + c.t.text
	}
	return fmt.Sprintf("?%d:%s", c.t.kind, c.t.text)
}

func canonColor(v col) string {
	if v.any {
		return "C(-1,-1,-1,-1)"
	}
	// quantised: bytes for rgb, alpha in 1/255 steps (tolerances are applied by sameCanon)
	return fmt.Sprintf("C(%.4f,%.4f,%.4f,%.5f)", v.r, v.g, v.b, v.a)
}

func canonList(l []cv, kind pkind) string {
	l = trimWS(l)
	var parts []string
	for i, c := range l {
		if c.t.kind == tWhitespace {
			// whitespace only matters between two non-punctuation values
			if i > 0 && i+1 < len(l) && !isPunct(l[i-1]) && !isPunct(l[i+1]) {
				parts = append(parts, " ")
			}
			continue
		}
		parts = append(parts, canonLeaf(c, kind))
	}
	return strings.Join(parts, "\x1f")
}

func isPunct(c cv) bool {
	switch c.t.kind {
	case tComma, tColon, tSemicolon:
		return true
	case tDelim:
		return c.t.text == "/"
	}
	return false
}

// sameCanon compares two canonical texts; colour leaves are compared with the
// byte-quantisation tolerance, everything else exactly
var canonColorRe = regexp.MustCompile(`C\(([-0-9.]+),([-0-9.]+),([-0-9.]+),([-0-9.]+)\)`)

func sameCanon(a, b string) bool {
	if a == b {
		return true
	}
	if canonColorRe.ReplaceAllString(a, "C") != canonColorRe.ReplaceAllString(b, "C") {
		return false
	}
	ma, mb := canonColorRe.FindAllStringSubmatch(a, -1), canonColorRe.FindAllStringSubmatch(b, -1)
	if len(ma) != len(mb) {
		return false
	}
	f := func(s string) float64 { v, _ := strconv.ParseFloat(s, 64); return v }
	for i := range ma {
		x := col{r: f(ma[i][1]), g: f(ma[i][2]), b: f(ma[i][3]), a: f(ma[i][4])}
		y := col{r: f(mb[i][1]), g: f(mb[i][2]), b: f(mb[i][3]), a: f(mb[i][4])}
		// C(-1,-1,-1,-1) is a colour outside the sRGB gamut (canonColor): gamut mapping is not modelled
		x.any, y.any = x.r < 0, y.r < 0
		if !sameColor(x, y) {
			return false
		}
	}
	return true
}

// ---------------------------------------------------------------------------
// property-specific canonical forms (CSS Transforms 1/2, CSS Backgrounds 3
// box-shadow, CSS Fonts 4 font-family)

func lenCanon(c cv) string { return canonLeaf(c, pkLength) }

func splitArgs(kids []cv) [][]cv {
	var out [][]cv
	var cur []cv
	for _, k := range kids {
		if k.t.kind == tComma {
			out = append(out, trimWS(cur))
			cur = nil
			continue
		}
		cur = append(cur, k)
	}
	return append(out, trimWS(cur))
}

func angleCanon(c cv) string {
	if h, ok := hueOf(c); ok && c.t.kind != tIdent {
		if c.t.kind == tNumber && h != 0 {
			return lenCanon(c)
		}
		return fmt.Sprintf("A%.6f", h)
	}
	return lenCanon(c)
}

func canonTransform(value []cv) string {
	var parts []string
	for _, c := range noWS(value) {
		if c.t.kind != tFunction {
			parts = append(parts, canonLeaf(c, pkOpaque))
			continue
		}
		name := strings.ToLower(c.t.text)
		args := splitArgs(c.kids)
		one := func(i int) (cv, bool) {
			if i < len(args) && len(args[i]) == 1 {
				return args[i][0], true
			}
			return cv{}, false
		}
		simple := true
		for _, a := range args {
			if len(a) != 1 {
				simple = false
			}
		}
		zero, oneN := "N0", "N1"
		switch {
		case !simple:
			parts = append(parts, canonLeaf(c, pkLength))
		case name == "translate" && (len(args) == 1 || len(args) == 2):
			x, _ := one(0)
			y := zero
			if len(args) == 2 {
				yy, _ := one(1)
				y = lenCanon(yy)
			}
			parts = append(parts, "T2("+lenCanon(x)+","+y+")")
		case name == "translatex" && len(args) == 1:
			x, _ := one(0)
			parts = append(parts, "T2("+lenCanon(x)+","+zero+")")
		case name == "translatey" && len(args) == 1:
			y, _ := one(0)
			parts = append(parts, "T2("+zero+","+lenCanon(y)+")")
		case name == "translatez" && len(args) == 1:
			z, _ := one(0)
			parts = append(parts, "T3("+zero+","+zero+","+lenCanon(z)+")")
		case name == "translate3d" && len(args) == 3:
			x, _ := one(0)
			y, _ := one(1)
			z, _ := one(2)
			parts = append(parts, "T3("+lenCanon(x)+","+lenCanon(y)+","+lenCanon(z)+")")
		case name == "scale" && (len(args) == 1 || len(args) == 2):
			x, _ := one(0)
			y := lenCanon(x)
			if len(args) == 2 {
				yy, _ := one(1)
				y = lenCanon(yy)
			}
			parts = append(parts, "S2("+lenCanon(x)+","+y+")")
		case name == "scalex" && len(args) == 1:
			x, _ := one(0)
			parts = append(parts, "S2("+lenCanon(x)+","+oneN+")")
		case name == "scaley" && len(args) == 1:
			y, _ := one(0)
			parts = append(parts, "S2("+oneN+","+lenCanon(y)+")")
		case name == "scalez" && len(args) == 1:
			z, _ := one(0)
			parts = append(parts, "S3("+oneN+","+oneN+","+lenCanon(z)+")")
		case name == "scale3d" && len(args) == 3:
			x, _ := one(0)
			y, _ := one(1)
			z, _ := one(2)
			parts = append(parts, "S3("+lenCanon(x)+","+lenCanon(y)+","+lenCanon(z)+")")
		case (name == "rotate" || name == "rotatez") && len(args) == 1:
			a, _ := one(0)
			tag := "R2("
			if name == "rotatez" {
				tag = "R3("
			}
			parts = append(parts, tag+angleCanon(a)+")")
		default:
			parts = append(parts, canonLeaf(c, pkLength))
		}
	}
	return strings.Join(parts, " ")
}

func canonShadow(value []cv) string {
	var shadows []string
	for _, sh := range splitArgs(value) {
		var lens []string
		color := ""
		inset := false
		bad := false
		for _, c := range noWS(sh) {
			switch {
			case c.t.kind == tIdent && strings.EqualFold(c.t.text, "inset"):
				inset = true
			case c.t.kind == tNumber || c.t.kind == tDimension || (c.t.kind == tFunction && strings.EqualFold(c.t.text, "calc")):
				lens = append(lens, lenCanon(c))
			default:
				if _, ok := colorOfCV(c); ok && color == "" {
					color = canonLeaf(c, pkColor)
				} else if c.t.kind == tIdent && color == "" {
					color = canonLeaf(c, pkColor)
				} else {
					bad = true
				}
			}
		}
		if bad || len(lens) < 2 || len(lens) > 4 {
			shadows = append(shadows, canonList(sh, pkColor))
			continue
		}
		for len(lens) < 4 {
			lens = append(lens, "N0")
		}
		shadows = append(shadows, fmt.Sprintf("shadow(inset=%v,%s,%s)", inset, strings.Join(lens, ","), color))
	}
	return strings.Join(shadows, " , ")
}

var genericFamilies = map[string]bool{"serif": true, "sans-serif": true, "monospace": true, "cursive": true, "fantasy": true, "system-ui": true,
	"ui-serif": true, "ui-sans-serif": true, "ui-monospace": true, "ui-rounded": true, "emoji": true, "math": true, "fangsong": true,
	"inherit": true, "initial": true, "unset": true, "revert": true, "revert-layer": true, "default": true}

func canonFontFamily(value []cv) string {
	var fams []string
	for _, f := range splitArgs(value) {
		l := noWS(f)
		if len(l) == 1 && l[0].t.kind == tString {
			fams = append(fams, "fam:"+l[0].t.text)
			continue
		}
		allIdent := len(l) > 0
		var words []string
		for _, c := range l {
			if c.t.kind != tIdent {
				allIdent = false
			}
			words = append(words, c.t.text)
		}
		if !allIdent {
			fams = append(fams, canonList(f, pkOpaque))
			continue
		}
		if len(words) == 1 && genericFamilies[strings.ToLower(words[0])] {
			fams = append(fams, "generic:"+strings.ToLower(words[0]))
			continue
		}
		fams = append(fams, "fam:"+strings.Join(words, " "))
	}
	return strings.Join(fams, " , ")
}

func canonValue(name string, value []cv) string {
	switch name {
	case "transform":
		return canonTransform(value)
	case "box-shadow":
		return canonShadow(value)
	case "font-family":
		return canonFontFamily(value)
	}
	return canonList(value, kindOfProp(name))
}

type bigRat = big.Rat

func newRat(n int64) *big.Rat { return big.NewRat(n, 1) }

// ---------------------------------------------------------------------------
// CSS Color 4 sample code (section 10.2 / 18): Lab and Oklab to XYZ, chromatic
// adaptation, XYZ to gamma-encoded sRGB

func labToXYZ(L, a, b float64) (float64, float64, float64) {
	const k = 24389.0 / 27
	const e = 216.0 / 24389
	f1 := (L + 16) / 116
	f0 := a/500 + f1
	f2 := f1 - b/200
	var x, y, z float64
	if f0*f0*f0 > e {
		x = f0 * f0 * f0
	} else {
		x = (116*f0 - 16) / k
	}
	if L > k*e {
		y = math.Pow((L+16)/116, 3)
	} else {
		y = L / k
	}
	if f2*f2*f2 > e {
		z = f2 * f2 * f2
	} else {
		z = (116*f2 - 16) / k
	}
	// D50 white
	return x * (0.3457 / 0.3585), y, z * ((1.0 - 0.3457 - 0.3585) / 0.3585)
}

func d50ToD65(x, y, z float64) (float64, float64, float64) {
	return 0.955473421488075*x - 0.02309845494876471*y + 0.06325924320057072*z,
		-0.0283697093338637*x + 1.0099953980813041*y + 0.021041441191917323*z,
		0.012314014864481998*x - 0.020507649298898964*y + 1.330365926242124*z
}

func oklabToXYZ(L, a, b float64) (float64, float64, float64) {
	l := L + 0.3963377773761749*a + 0.2158037573099136*b
	m := L - 0.1055613458156586*a - 0.0638541728258133*b
	s := L - 0.0894841775298119*a - 1.2914855480194092*b
	l, m, s = l*l*l, m*m*m, s*s*s
	return 1.2268798758459243*l - 0.5578149944602171*m + 0.2813910456659647*s,
		-0.0405757452148008*l + 1.1122868032803170*m - 0.0717110580655164*s,
		-0.0763729366746601*l - 0.4214933324022432*m + 1.5869240198367816*s
}

func xyzToSRGB(x, y, z float64) (float64, float64, float64) {
	lr := (12831.0/3959)*x + (-329.0/214)*y + (-1974.0/3959)*z
	lg := (-851781.0/878810)*x + (1648619.0/878810)*y + (36519.0/878810)*z
	lb := (705.0/12673)*x + (-2585.0/12673)*y + (705.0/667)*z
	gam := func(v float64) float64 {
		sign := 1.0
		if v < 0 {
			sign, v = -1, -v
		}
		if v > 0.0031308 {
			return sign * (1.055*math.Pow(v, 1/2.4) - 0.055)
		}
		return sign * 12.92 * v
	}
	return gam(lr), gam(lg), gam(lb)
}
