package main

// Glue stream for CSS modules (loader local-css): local class names must be
// renamed consistently between the emitted CSS and the names exported to
// JavaScript, without collisions between files or with global names.

import (
	"encoding/json"
	"fmt"
	"os"
	"os/exec"
	"path/filepath"
	"regexp"
	"strings"

	"github.com/evanw/esbuild/pkg/api"
	. "github.com/evanw/esbuild/verifharness/hlib"
)

var markerRuleRe = regexp.MustCompile(`([^{}]*)\{[^{}]*order:\s*(\d+)[^{}]*\}`)

func glueLocal(r *Rng, n int, st *Stats) {
	names := []string{"a", "b", "foo", "bar", "a1", "_x", "B"}
	for i := 0; i < n; i++ {
		dir, err := os.MkdirTemp("", "verif-c12-")
		if err != nil {
			panic(err)
		}
		nfiles := r.Range(1, 3)
		marker := 100
		type loc struct {
			file int
			name string
		}
		markerOf := map[loc]int{}
		globals := map[string]bool{}
		files := map[string]string{}
		var js strings.Builder
		for f := 0; f < nfiles; f++ {
			var sb strings.Builder
			used := map[string]bool{}
			for k := r.Range(1, 4); k > 0; k-- {
				nm := names[r.Intn(len(names))]
				if used[nm] {
					continue
				}
				used[nm] = true
				marker++
				markerOf[loc{f, nm}] = marker
				switch r.Intn(4) {
				case 0:
					fmt.Fprintf(&sb, ".%s { order: %d }\n", nm, marker)
				case 1:
					fmt.Fprintf(&sb, "div.%s:hover { order: %d; color: red }\n", nm, marker)
				case 2:
					fmt.Fprintf(&sb, "@media screen { .%s { order: %d } }\n", nm, marker)
				default:
					fmt.Fprintf(&sb, ":local(.%s) { order: %d }\n", nm, marker)
				}
				if r.Chance(30) {
					// a second use of the same local name: must get the same new name
					fmt.Fprintf(&sb, ".%s > span { color: blue }\n", nm)
				}
			}
			if r.Chance(50) {
				g := names[r.Intn(len(names))]
				globals[g] = true
				fmt.Fprintf(&sb, ":global(.%s) { color: green }\n", g)
			}
			name := fmt.Sprintf("m%d.module.css", f)
			files[name] = sb.String()
			if err := os.WriteFile(filepath.Join(dir, name), []byte(sb.String()), 0o644); err != nil {
				panic(err)
			}
			fmt.Fprintf(&js, "import s%d from \"./%s\";\n", f, name)
		}
		js.WriteString("console.log(JSON.stringify([")
		for f := 0; f < nfiles; f++ {
			if f > 0 {
				js.WriteString(", ")
			}
			fmt.Fprintf(&js, "s%d", f)
		}
		js.WriteString("]));\n")
		files["entry.js"] = js.String()
		os.WriteFile(filepath.Join(dir, "entry.js"), []byte(js.String()), 0o644)
		minify := r.Chance(50)
		res := api.Build(api.BuildOptions{
			AbsWorkingDir:     dir,
			EntryPoints:       []string{"entry.js"},
			Bundle:            true,
			Outdir:            filepath.Join(dir, "out"),
			Write:             true,
			MinifyIdentifiers: minify,
			MinifySyntax:      r.Chance(50),
			Format:            api.FormatCommonJS,
			LogLevel:          api.LogLevelSilent,
		})
		desc := map[string]interface{}{"files": files, "minify-identifiers": minify}
		st.Note("glue-local", fmt.Sprint(files), true)
		if len(res.Errors) > 0 {
			st.Histogram["glue-local-error"]++
			os.RemoveAll(dir)
			continue
		}
		cssBytes, err1 := os.ReadFile(filepath.Join(dir, "out", "entry.css"))
		out, err2 := exec.Command("node", filepath.Join(dir, "out", "entry.js")).Output()
		os.RemoveAll(dir)
		if err1 != nil || err2 != nil {
			st.Fail("local-names-build-shape", desc, fmt.Sprint(err1, err2), "entry.css and a runnable entry.js")
			continue
		}
		var exports []map[string]string
		if err := json.Unmarshal(out, &exports); err != nil || len(exports) != nfiles {
			st.Fail("local-names-exports-shape", desc, string(out), "one export map per css module")
			continue
		}
		css := string(cssBytes)
		desc["css"] = css
		desc["exports"] = exports
		// marker -> class name in the emitted CSS
		classOfMarker := map[int]string{}
		for _, m := range markerRuleRe.FindAllStringSubmatch(css, -1) {
			var mk int
			fmt.Sscanf(m[2], "%d", &mk)
			sel := m[1]
			if j := strings.LastIndex(sel, "."); j >= 0 {
				cls := sel[j+1:]
				cls = strings.TrimSpace(cls)
				if k := strings.IndexAny(cls, ":> {"); k >= 0 {
					cls = cls[:k]
				}
				classOfMarker[mk] = cls
			}
		}
		seen := map[string]loc{}
		for l, mk := range markerOf {
			cls, ok := classOfMarker[mk]
			if !ok {
				st.Fail("local-names-rule-missing", desc, fmt.Sprintf("marker %d (.%s of file %d)", mk, l.name, l.file), "rule present in the emitted css")
				continue
			}
			exp := exports[l.file][l.name]
			if exp != cls {
				st.Fail("local-names-export-differs-from-css", desc, map[string]string{"exported": exp, "css": cls, "local": l.name}, "same name")
			}
			if other, dup := seen[cls]; dup && other != l {
				st.Fail("local-names-collision", desc, cls, "distinct names for distinct (file, local name)")
			}
			seen[cls] = l
			if globals[cls] {
				st.Fail("local-names-collide-with-global", desc, cls, "a name different from every :global() class")
			}
		}
	}
}
