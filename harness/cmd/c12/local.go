package main

// Glue stream for CSS modules (loader local-css): local class names must be
// renamed consistently between the emitted CSS and the names exported to
// JavaScript, without collisions between files or with global names.

import (
	"encoding/json"
	"fmt"
	"os"
	"os/exec"
	"path/filepath"
	"regexp"
	"strings"

	"github.com/evanw/esbuild/pkg/api"
	. "github.com/evanw/esbuild/verifharness/hlib"
)

var markerRuleRe = regexp.MustCompile(`([^{}]*)\{[^{}]*order:\s*(\d+)[^{}]*\}`)

func glueLocal(r *Rng, n int, st *Stats) {
	names := []string{"a", "b", "foo", "bar", "a1", "_x", "B"}
	for i := 0; i < n; i++ {
		dir, err := os.MkdirTemp("", "verif-c12-")
		if err != nil {
			panic(err)
		}
		nfiles := r.Range(1, 3)
		marker := 100
		type loc struct {
			file int
			name string
		}
		markerOf := map[loc]int{}
		globals := map[string]bool{}
		files := map[string]string{}
		var js strings.Builder
		for f := 0; f < nfiles; f++ {
			var sb strings.Builder
			used := map[string]bool{}
			for k := r.Range(1, 4); k > 0; k-- {
				nm := names[r.Intn(len(names))]
				if used[nm] {
					continue
				}
				used[nm] = true
				marker++
				markerOf[loc{f, nm}] = marker
				switch r.Intn(4) {
				case 0:
					fmt.Fprintf(&sb, ".%s { order: %d }\n", nm, marker)
				case 1:
					fmt.Fprintf(&sb, "div.%s:hover { order: %d; color: red }\n", nm, marker)
				case 2:
					fmt.Fprintf(&sb, "@media screen { .%s { order: %d } }\n", nm, marker)
				default:
					fmt.Fprintf(&sb, ":local(.%s) { order: %d }\n", nm, marker)
				}
				if r.Chance(30) {
					// a second use of the same local name: must get the same new name
					fmt.Fprintf(&sb, ".%s > span { color: blue }\n", nm)
				}
			}
			if r.Chance(50) {
				g := names[r.Intn(len(names))]
				globals[g] = true
				fmt.Fprintf(&sb, ":global(.%s) { color: green }\n", g)
			}
			name := fmt.Sprintf("m%d.module.css", f)
			files[name] = sb.String()
			if err := os.WriteFile(filepath.Join(dir, name), []byte(sb.String()), 0o644); err != nil {
				panic(err)
			}
			fmt.Fprintf(&js, "import s%d from \"./%s\";\n", f, name)
		}
		js.WriteString("console.log(JSON.stringify([")
		for f := 0; f < nfiles; f++ {
			if f > 0 {
				js.WriteString(", ")
			}
			fmt.Fprintf(&js, "s%d", f)
		}
		js.WriteString("]));\n")
		files["entry.js"] = js.String()
		os.WriteFile(filepath.Join(dir, "entry.js"), []byte(js.String()), 0o644)
		minify := r.Chance(50)
		res := api.Build(api.BuildOptions{
			AbsWorkingDir:     dir,
			EntryPoints:       []string{"entry.js"},
			Bundle:            true,
			Outdir:            filepath.Join(dir, "out"),
			Write:             true,
			MinifyIdentifiers: minify,
			MinifySyntax:      r.Chance(50),
			Format:            api.FormatCommonJS,
			LogLevel:          api.LogLevelSilent,
		})
		desc := map[string]interface{}{"files": files, "minify-identifiers": minify}
		st.Note("glue-local", fmt.Sprint(files), true)
		if len(res.Errors) > 0 {
			st.Histogram["glue-local-error"]++
			os.RemoveAll(dir)
			continue
		}
		cssBytes, err1 := os.ReadFile(filepath.Join(dir, "out", "entry.css"))
		out, err2 := exec.Command("node", filepath.Join(dir, "out", "entry.js")).Output()
		os.RemoveAll(dir)
		if err1 != nil || err2 != nil {
			failC12(st, "local-names-build-shape", desc, fmt.Sprint(err1, err2), "entry.css and a runnable entry.js")
			continue
		}
		var exports []map[string]string
		if err := json.Unmarshal(out, &exports); err != nil || len(exports) != nfiles {
			failC12(st, "local-names-exports-shape", desc, string(out), "one export map per css module")
			continue
		}
		css := string(cssBytes)
		desc["css"] = css
		desc["exports"] = exports
		// marker -> class name in the emitted CSS
		classOfMarker := map[int]string{}
		for _, m := range markerRuleRe.FindAllStringSubmatch(css, -1) {
			var mk int
			fmt.Sscanf(m[2], "%d", &mk)
			sel := m[1]
			if j := strings.LastIndex(sel, "."); j >= 0 {
				cls := sel[j+1:]
				cls = strings.TrimSpace(cls)
				if k := strings.IndexAny(cls, ":> {"); k >= 0 {
					cls = cls[:k]
				}
				classOfMarker[mk] = cls
			}
		}
		seen := map[string]loc{}
		for l, mk := range markerOf {
			cls, ok := classOfMarker[mk]
			if !ok {
				failC12(st, "local-names-rule-missing", desc, fmt.Sprintf("marker %d (.%s of file %d)", mk, l.name, l.file), "rule present in the emitted css")
				continue
			}
			exp := exports[l.file][l.name]
			if exp != cls {
				failC12(st, "local-names-export-differs-from-css", desc, map[string]string{"exported": exp, "css": cls, "local": l.name}, "same name")
			}
			if other, dup := seen[cls]; dup && other != l {
				failC12(st, "local-names-collision", desc, cls, "distinct names for distinct (file, local name)")
			}
			seen[cls] = l
			if globals[cls] {
				failC12(st, "local-names-collide-with-global", desc, cls, "a name different from every :global() class")
			}
		}
	}
}

// glueLocalGlobal: global-css and local-css files with token-identical rules
// over same-spelled class names, imported in both orders from a JS entry,
// bundled with minify-syntax (cross-file duplicate removal).  The cascade is
// evaluated for an element carrying the global class and for one carrying the
// exported local name: the expected sheet is the concatenation of the files in
// import order with every local name replaced by the name exported to JS.
func glueLocalGlobal(r *Rng, n int, st *Stats) {
	names := []string{"foo", "bar", "a1"}
	colors := []string{"red", "green", "blue", "tan"}
	for i := 0; i < n; i++ {
		dir, err := os.MkdirTemp("", "verif-c12-")
		if err != nil {
			panic(err)
		}
		nf := r.Range(2, 4)
		type frule struct {
			name, color string
			second      bool // ".x > span" form
		}
		type ffile struct {
			local bool
			rules []frule
		}
		var files []ffile
		pool := []frule{{names[r.Intn(len(names))], colors[r.Intn(len(colors))], false}}
		for f := 0; f < nf; f++ {
			ff := ffile{local: r.Bool()}
			if i == 0 {
				// fixed corpus: a global rule first, the same-spelled local one later, and the reverse
				ff.local = f%2 == 1
			}
			for k := r.Range(1, 3); k > 0; k-- {
				if r.Chance(60) {
					ff.rules = append(ff.rules, pool[r.Intn(len(pool))]) // token-identical to a rule elsewhere
				} else {
					fr := frule{names[r.Intn(len(names))], colors[r.Intn(len(colors))], r.Chance(20)}
					pool = append(pool, fr)
					ff.rules = append(ff.rules, fr)
				}
			}
			files = append(files, ff)
		}
		fm := map[string]string{}
		var js strings.Builder
		text := func(ff ffile, rename func(string) string) string {
			var sb strings.Builder
			for _, fr := range ff.rules {
				if fr.second {
					fmt.Fprintf(&sb, ".%s > span { color: %s }\n", rename(fr.name), fr.color)
				} else {
					fmt.Fprintf(&sb, ".%s { color: %s }\n", rename(fr.name), fr.color)
				}
			}
			return sb.String()
		}
		id := func(s string) string { return s }
		for f, ff := range files {
			ext := "gcss"
			if ff.local {
				ext = "lcss"
			}
			name := fmt.Sprintf("m%d.%s", f, ext)
			fm[name] = text(ff, id)
			os.WriteFile(filepath.Join(dir, name), []byte(fm[name]), 0o644)
			fmt.Fprintf(&js, "import s%d from \"./%s\";\n", f, name)
		}
		js.WriteString("console.log(JSON.stringify([")
		for f := range files {
			if f > 0 {
				js.WriteString(", ")
			}
			fmt.Fprintf(&js, "s%d", f)
		}
		js.WriteString("]));\n")
		fm["entry.js"] = js.String()
		os.WriteFile(filepath.Join(dir, "entry.js"), []byte(js.String()), 0o644)
		res := api.Build(api.BuildOptions{
			AbsWorkingDir: dir, EntryPoints: []string{"entry.js"}, Bundle: true, Outdir: filepath.Join(dir, "out"), Write: true,
			MinifySyntax: true, Format: api.FormatCommonJS, LogLevel: api.LogLevelSilent,
			Loader: map[string]api.Loader{".gcss": api.LoaderGlobalCSS, ".lcss": api.LoaderLocalCSS},
		})
		desc := map[string]interface{}{"files": fm, "options": "bundle minify-syntax loaders .gcss=global-css .lcss=local-css"}
		st.Note("glue-local-global", fmt.Sprint(fm), true)
		if len(res.Errors) > 0 {
			st.Histogram["glue-local-global-error"]++
			os.RemoveAll(dir)
			continue
		}
		cssBytes, err1 := os.ReadFile(filepath.Join(dir, "out", "entry.css"))
		out, err2 := exec.Command("node", filepath.Join(dir, "out", "entry.js")).Output()
		os.RemoveAll(dir)
		var exports []map[string]string
		if err1 != nil || err2 != nil || json.Unmarshal(out, &exports) != nil || len(exports) != len(files) {
			failC12(st, "local-global-build-shape", desc, fmt.Sprint(err1, err2, string(out)), "entry.css and one export map per file")
			continue
		}
		// expected sheet: files in import order, local names replaced by what JS sees
		var exp strings.Builder
		classes := map[string]bool{}
		bad := false
		for f, ff := range files {
			f := f
			rename := id
			if ff.local {
				rename = func(s string) string {
					v, ok := exports[f][s]
					if !ok {
						bad = true
					}
					return v
				}
			}
			for _, fr := range ff.rules {
				classes[rename(fr.name)] = true
			}
			exp.WriteString(text(ff, rename))
		}
		desc["exports"] = exports
		desc["output"] = string(cssBytes)
		desc["expected_inlined"] = exp.String()
		if bad {
			failC12(st, "local-global-missing-export", desc, exports, "every local class exported")
			continue
		}
		// DOM: one element per class name (global spelling and exported local spelling), each with a span child
		d := &dom{}
		for _, c := range sortedKeys(classes) {
			d.nodes = append(d.nodes, node{tag: "div", parent: -1, classes: []string{c}, attrs: map[string]string{}, flags: map[string]bool{}, nsib: 1})
			d.nodes = append(d.nodes, node{tag: "span", parent: len(d.nodes) - 1, attrs: map[string]string{}, flags: map[string]bool{}, nsib: 1})
		}
		inItems := flattenSheet(parseSheet(exp.String()))
		outItems := flattenSheet(parseSheet(string(cssBytes)))
		if what, detail := compareCascade(d, inItems, outItems, nil, r, st); what != "" {
			for k, v := range detail {
				desc[k] = v
			}
			failC12(st, "local-global-cascade-winner-changed", desc, detail["output_winner"], detail["input_winner"])
		}
	}
}
