package main

// C12: CSS transformations preserve the cascade.
// Correspondence cases for the modelled cores (hex colours, numbers, rule
// dedupe/merge, box shorthands, import order) and the glue stream through
// api.Transform / api.Build with an independent cascade evaluator as oracle.

import (
	"fmt"
	"os"
	"path/filepath"
	"strings"

	"github.com/evanw/esbuild/internal/css_parser"
	"github.com/evanw/esbuild/pkg/api"
	. "github.com/evanw/esbuild/verifharness/hlib"
)

func main() { Main("c12", runC12) }

func runes(s string) []int64 {
	var out []int64
	for _, c := range s {
		out = append(out, int64(c))
	}
	return out
}

// transformCSS runs api.Transform with loader css; returns trimmed output.
func transformCSS(src string, minifySyntax, minifyWS bool, supported map[string]bool) (string, error) {
	res := api.Transform(src, api.TransformOptions{
		Loader:           api.LoaderCSS,
		MinifySyntax:     minifySyntax,
		MinifyWhitespace: minifyWS,
		Supported:        supported,
		LogLevel:         api.LogLevelSilent,
	})
	if len(res.Errors) > 0 {
		return "", fmt.Errorf("%s", res.Errors[0].Text)
	}
	return strings.TrimSpace(string(res.Code)), nil
}

func runC12(seed uint64, n int, tier string, outDir string) []*Stats {
	r := NewRng(seed)
	cf := NewCoqFile("From V Require Import Common.Base C12.Text C12.Hex C12.ColorSpec gen.ColorTablesGen C12.Cascade C12.NumberCss C12.Mangle C12.ImportOrder C12.BoxTracker C12.RadiusTracker C12.Nesting C12.HslSpec C12.Harness.")
	st := NewStats("c12", seed)

	glueCorpus(r, st)
	hexCases(r, n, cf, st)
	numberCases(r, n, cf, st)
	redundantCases(r, n, cf, st)
	pctRefCases(r, cf, st)
	hslRgbCases(r, n, cf, st)
	boxModelCases(r, n+n/2, cf, st)
	radiusModelCases(r, n, cf, st)
	// the nesting families are evaluated by vm_compute over whole selector trees / element sets: bounded volume
	nn := n
	if nn > 600 {
		nn = 600
	}
	nestCases(r, nn, cf, st)
	nestExpandCases(r, nn/2, cf, st)
	nestSemCases(r, nn, cf, st)
	mangleCases(r, n/2, cf, st)
	glueTransform(r, n/2, st, cf)
	glueBoxFamilies(r, n/2+20, st)
	glueBundle(r, n/3, st)
	glueLocal(r, n/25, st)
	glueLocalGlobal(r, n/12, st)

	flushFailures(st)
	st.Finish("seeded generator (splitmix64 from VERIF_SEED); distinct_nontrivial = distinct (family,input) pairs that exercise a non-identity path")
	if err := os.WriteFile(filepath.Join(outDir, "c12_cases.v"), []byte(cf.String()), 0o644); err != nil {
		panic(err)
	}
	return []*Stats{st}
}

// ---------------------------------------------------------------------------
// hex colours

const hexAlphabet = "0123456789abcdefABCDEF"

func hexCases(r *Rng, n int, cf *CoqFile, st *Stats) {
	var items []string
	for i := 0; i < n; i++ {
		k := []int{0, 1, 3, 4, 6, 8, 8, 8, 9, 12}[r.Intn(10)]
		var sb strings.Builder
		for j := 0; j < k; j++ {
			if r.Chance(4) {
				sb.WriteString([]string{"g", "G", "/", ":", "@", "`", "é", "x", " "}[r.Intn(9)])
			} else {
				sb.WriteByte(hexAlphabet[r.Intn(len(hexAlphabet))])
			}
		}
		t := sb.String()
		v, ok := css_parser.VerifParseHex(t)
		items = append(items, fmt.Sprintf("(%s,%s,%d)", CZList(runes(t)), CBool(ok), v))
		st.Note("parseHex", t, ok && len(t) > 0)
	}
	cf.AddCases("hex_cases", "list Z * bool * Z", "check_hex", items)

	items = nil
	for i := 0; i < n; i++ {
		v := uint32(r.U64())
		if r.Chance(30) {
			// compactable values
			v = css_parser.VerifExpandHex(uint32(r.Intn(1 << 16)))
		}
		w := uint32(r.Intn(1 << 16))
		if r.Chance(10) {
			w = uint32(r.U64())
		}
		items = append(items, fmt.Sprintf("(%d,%d,%d,%d)", v, css_parser.VerifCompactHex(v), w, css_parser.VerifExpandHex(w)))
		st.Note("hexops", fmt.Sprint(v, w), true)
		if w < 1<<16 && css_parser.VerifCompactHex(css_parser.VerifExpandHex(w)) != w {
			failC12(st, "hex-compact-roundtrip", w, css_parser.VerifCompactHex(css_parser.VerifExpandHex(w)), w)
		}
	}
	cf.AddCases("hexops_cases", "Z * Z * Z * Z", "check_hexops", items)

	// tryToGenerateColor through the public API
	items = nil
	shortNames := css_parser.VerifShortColorName()
	var shortKeys []uint32
	for k := range shortNames {
		shortKeys = append(shortKeys, k)
	}
	// deterministic order
	for i := 0; i < len(shortKeys); i++ {
		for j := i + 1; j < len(shortKeys); j++ {
			if shortKeys[j] < shortKeys[i] {
				shortKeys[i], shortKeys[j] = shortKeys[j], shortKeys[i]
			}
		}
	}
	for i := 0; i < n; i++ {
		var hex uint32
		switch r.Intn(6) {
		case 0:
			hex = shortKeys[r.Intn(len(shortKeys))]
		case 1:
			hex = css_parser.VerifExpandHex(uint32(r.Intn(1 << 16)))
		case 2:
			hex = css_parser.VerifExpandHex(uint32(r.Intn(1<<16)))&0xFFFFFF00 | 0xFF
		case 3:
			hex = uint32(r.U64()) | 0xFF
		case 4:
			hex = shortKeys[r.Intn(len(shortKeys))] ^ uint32(1<<uint(r.Intn(32)))
		default:
			hex = uint32(r.U64())
		}
		minify := r.Bool()
		unsup := r.Bool()
		if !minify && !unsup {
			minify = true
		}
		var sup map[string]bool
		if unsup {
			sup = map[string]bool{"hex-rgba": false}
		}
		src := fmt.Sprintf("a{color:#%08x}", hex)
		out, err := transformCSS(src, minify, true, sup)
		if err != nil || !strings.HasPrefix(out, "a{color:") || !strings.HasSuffix(out, "}") {
			failC12(st, "hex-transform-shape", src, out, "a{color:...}")
			continue
		}
		val := out[len("a{color:") : len(out)-1]
		items = append(items, fmt.Sprintf("(%d,%s,%s,%s)", hex, CBool(minify), CBool(unsup), CBytes([]byte(val))))
		st.Note("gencolor", fmt.Sprint(hex, minify, unsup), val != fmt.Sprintf("#%08x", hex))
		// the property's predicate on the real output: same RGBA value
		if got, ok := colorValue(val); !ok || !sameColor(got, rgbaOfHex(hex)) {
			failC12(st, "color-value-changed", map[string]interface{}{"css": src, "minify": minify, "hex-rgba-unsupported": unsup}, val, fmt.Sprintf("#%08x", hex))
		}
		st.Sample(map[string]interface{}{"css": src, "out": out})
	}
	cf.AddCases("gen_cases", "Z * bool * bool * list Z", "check_gen", items)
}

// ---------------------------------------------------------------------------
// Failure buffering: hlib keeps at most 20 failures per run.  Replays of known
// findings (inputs carrying a "scenario" tag) must never crowd out a failure
// that is not known, so failures are buffered and flushed at the end: every
// untagged failure first, then at most two per known scenario.

type bufferedFailure struct {
	what             string
	input, got, want interface{}
}

var failureBuffer []bufferedFailure

func failC12(st *Stats, what string, input, got, expect interface{}) {
	failureBuffer = append(failureBuffer, bufferedFailure{what, input, got, expect})
	st.Histogram["seen:"+what]++
}

func scenarioOf(input interface{}) string {
	if m, ok := input.(map[string]interface{}); ok {
		if s, ok := m["scenario"].(string); ok {
			return s
		}
	}
	return ""
}

func flushFailures(st *Stats) {
	untagged := 0
	for _, f := range failureBuffer {
		if scenarioOf(f.input) == "" {
			st.Fail(f.what, f.input, f.got, f.want)
			untagged++
		}
	}
	st.Histogram["untagged-failures"] = untagged
	per := map[string]int{}
	for _, f := range failureBuffer {
		if s := scenarioOf(f.input); s != "" {
			per[s]++
			st.Histogram["known-scenario:"+s]++
			if per[s] <= 1 {
				st.Fail(f.what, f.input, f.got, f.want)
			}
		}
	}
	failureBuffer = nil
}
