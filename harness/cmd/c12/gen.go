package main

// Style sheet and DOM generators for the glue stream.

import (
	"fmt"
	"strings"

	. "github.com/evanw/esbuild/verifharness/hlib"
)

type genOpts struct {
	namespaces bool // @namespace rules and ns|el selectors
	nesting    bool // CSS nesting in the input
	wideColors bool // lab()/oklch()/color() values (only when they are not lowered)
	layers     bool
	imports    bool
	localNames bool
}

type sheetGen struct {
	r    *Rng
	o    genOpts
	hist map[string]int
}

func (g *sheetGen) note(k string) { g.hist[k]++ }

var genTags = []string{"a", "b", "div", "span", "p", "x-el"}
var genClasses = []string{"c1", "c2", "c3"}
var genIDs = []string{"i1", "i2"}

func genDOM(r *Rng) *dom {
	d := &dom{}
	n := r.Range(6, 10)
	for i := 0; i < n; i++ {
		nd := node{tag: genTags[r.Intn(len(genTags))], parent: -1, attrs: map[string]string{}, flags: map[string]bool{}}
		if i > 0 {
			nd.parent = r.Intn(i)
		}
		if r.Chance(30) {
			nd.id = genIDs[r.Intn(len(genIDs))]
		}
		nd.ns = []string{"", "", "http://a", "http://b"}[r.Intn(4)]
		for _, c := range genClasses {
			if r.Chance(35) {
				nd.classes = append(nd.classes, c)
			}
		}
		if r.Chance(40) {
			nd.attrs["data-x"] = []string{"v", "V", "w", "v-1"}[r.Intn(4)]
		}
		for _, f := range []string{"hover", "focus", "focus-visible", "-moz-foo", "-webkit-bar", "active", "link"} {
			if r.Chance(40) {
				nd.flags[f] = true
			}
		}
		d.nodes = append(d.nodes, nd)
	}
	// sibling indices
	count := map[int]int{}
	for i := range d.nodes {
		p := d.nodes[i].parent
		d.nodes[i].index = count[p]
		count[p]++
	}
	for i := range d.nodes {
		d.nodes[i].nsib = count[d.nodes[i].parent]
	}
	return d
}

func domTargets(d *dom) []target {
	var out []target
	for i := range d.nodes {
		out = append(out, target{i, ""})
	}
	for i := range d.nodes {
		if i%3 == 0 {
			out = append(out, target{i, "before"})
		}
		if i%4 == 1 {
			out = append(out, target{i, "-moz-x"})
		}
	}
	return out
}

func (d *dom) describe(t target) string {
	var parts []string
	for i := t.n; i >= 0; i = d.nodes[i].parent {
		n := d.nodes[i]
		s := n.tag
		if n.id != "" {
			s += "#" + n.id
		}
		for _, c := range n.classes {
			s += "." + c
		}
		if v, ok := n.attrs["data-x"]; ok {
			s += "[data-x=" + v + "]"
		}
		for _, f := range sortedKeys(n.flags) {
			s += ":" + f
		}
		if n.ns != "" {
			s += "{ns=" + n.ns + "}"
		}
		s += fmt.Sprintf("@%d/%d", n.index, n.nsib)
		parts = append([]string{s}, parts...)
	}
	out := strings.Join(parts, " > ")
	if t.pseudo != "" {
		out += "::" + t.pseudo
	}
	return out
}

// ---- selectors

func (g *sheetGen) simplePart(depth int) string {
	r := g.r
	switch r.Intn(16) {
	case 0, 1, 2:
		return "." + r.Pick(genClasses)
	case 3:
		return "#" + r.Pick(genIDs)
	case 4:
		return []string{"[data-x]", "[data-x=v]", "[data-x=\"v\" i]", "[data-x^=v]", "[data-x|=v]", "[data-x~=w]"}[r.Intn(6)]
	case 5, 6:
		return ":hover"
	case 7:
		return []string{":first-child", ":last-child", ":nth-child(2n+1)", ":nth-child(even)", ":only-child"}[r.Intn(5)]
	case 8:
		return []string{":focus", ":active", ":link"}[r.Intn(3)]
	case 9:
		g.note("sel-exotic")
		return []string{":focus-visible", ":-moz-foo", ":-webkit-bar"}[r.Intn(3)]
	case 10:
		if depth < 2 {
			return ":not(" + g.compound(depth+1, false) + ")"
		}
	case 11:
		if depth < 2 {
			g.note("sel-is")
			return ":is(" + g.selList(depth+1, r.Range(1, 3)) + ")"
		}
	case 12:
		if depth < 2 {
			g.note("sel-where")
			return ":where(" + g.selList(depth+1, r.Range(1, 2)) + ")"
		}
	}
	return "." + r.Pick(genClasses)
}

func (g *sheetGen) compound(depth int, allowPE bool) string {
	r := g.r
	var sb strings.Builder
	if g.o.namespaces && r.Chance(35) {
		g.note("sel-namespace")
		sb.WriteString([]string{"a|", "b|", "*|", "|"}[r.Intn(4)])
		sb.WriteString([]string{"a", "div", "p", "*", "span"}[r.Intn(5)])
		if r.Chance(30) {
			sb.WriteString([]string{"[a|data-x]", "[*|data-x=v]", "[|data-x]"}[r.Intn(3)])
		}
		for i := r.Intn(2); i > 0; i-- {
			sb.WriteString(g.simplePart(depth))
		}
		return sb.String()
	}
	switch r.Intn(5) {
	case 0, 1, 2:
		sb.WriteString(r.Pick(genTags))
	case 3:
		sb.WriteString("*")
	}
	k := r.Intn(3)
	if sb.Len() == 0 && k == 0 {
		k = 1
	}
	for i := 0; i < k; i++ {
		sb.WriteString(g.simplePart(depth))
	}
	if allowPE && r.Chance(10) {
		g.note("sel-pseudo-element")
		sb.WriteString([]string{"::before", "::-moz-x", ":before"}[r.Intn(3)])
	}
	return sb.String()
}

func (g *sheetGen) complex(depth int) string {
	r := g.r
	n := 1
	if r.Chance(40) {
		n = r.Range(2, 3)
	}
	var sb strings.Builder
	for i := 0; i < n; i++ {
		if i > 0 {
			sb.WriteString([]string{" ", " ", " > ", " + ", " ~ ", ">"}[r.Intn(6)])
		}
		sb.WriteString(g.compound(depth, i == n-1 && depth == 0))
	}
	return sb.String()
}

func (g *sheetGen) selList(depth int, n int) string {
	var parts []string
	for i := 0; i < n; i++ {
		parts = append(parts, g.complex(depth))
	}
	return strings.Join(parts, ", ")
}

// a nested selector with & in assorted positions
func (g *sheetGen) nestedSel() string {
	r := g.r
	c := g.compound(1, false)
	switch r.Intn(12) {
	case 0:
		return "&"
	case 1:
		return "& " + c
	case 2:
		return c + " &"
	case 3:
		return "&" + g.simplePart(1)
	case 4:
		return "& > " + c
	case 5:
		return "> " + c
	case 6:
		return c
	case 7:
		return "& + &"
	case 8:
		return ":is(&, " + c + ")"
	case 9:
		return ":not(&)" + g.simplePart(1)
	case 10:
		return c + " > & " + g.compound(1, false)
	}
	return "&:hover"
}

// ---- values

func (g *sheetGen) color() string {
	r := g.r
	hx := func(n int) string {
		var sb strings.Builder
		for i := 0; i < n; i++ {
			sb.WriteByte("0123456789abcdefABCDEF"[r.Intn(22)])
		}
		return sb.String()
	}
	rep := func() string { // compactable
		var sb strings.Builder
		for i := 0; i < 3; i++ {
			c := "0123456789abcdef"[r.Intn(16)]
			sb.WriteByte(c)
			sb.WriteByte(c)
		}
		return sb.String()
	}
	b := func() int { return []int{0, 1, 127, 128, 254, 255, r.Intn(256)}[r.Intn(7)] }
	al := func() string { return []string{"0", "1", ".5", "0.50", "50%", ".004", "0.996", "25%", ".25"}[r.Intn(9)] }
	switch r.Intn(16) {
	case 0:
		return []string{"red", "RED", "blue", "black", "white", "fuchsia", "magenta", "gray", "grey", "rebeccapurple", "transparent", "tan", "gold", "aqua", "cyan"}[r.Intn(15)]
	case 1:
		return "#" + hx(3)
	case 2:
		return "#" + hx(6)
	case 3:
		return "#" + rep()
	case 4:
		return "#" + hx(4)
	case 5:
		return "#" + hx(8)
	case 6:
		return "#" + rep() + []string{"ff", "FF", "00", "88", "80"}[r.Intn(5)]
	case 7:
		return fmt.Sprintf("rgb(%d, %d, %d)", b(), b(), b())
	case 8:
		return fmt.Sprintf("rgba(%d, %d, %d, %s)", b(), b(), b(), al())
	case 9:
		return fmt.Sprintf("rgb(%d %d %d / %s)", b(), b(), b(), al())
	case 10:
		return fmt.Sprintf("rgb(%d%% %d%% %d%%)", r.Intn(101), r.Intn(101), r.Intn(101))
	case 11:
		return fmt.Sprintf("hsl(%s, %d%%, %d%%)", wideHueNumber(r), edgePct(r), edgePct(r))
	case 12:
		return fmt.Sprintf("hsl(%s %d%% %d%% / %s)", wideHue(r), edgePct(r), edgePct(r), al())
	case 13:
		if r.Chance(30) {
			return fmt.Sprintf("hwb(%s %d%% %d%% / %s)", wideHue(r), edgePct(r), edgePct(r), al())
		}
		return fmt.Sprintf("hwb(%s %d%% %d%%)", wideHue(r), edgePct(r), edgePct(r))
	case 14:
		if g.o.wideColors {
			g.note("val-wide-color")
			return []string{"lab(50% 20 -30)", "lab(60 10% -15%)", "lab(40% -20% 10 / .5)", "oklab(60% 0.05 -0.05)", "oklab(.7 10% -20%)",
				"oklch(60% 0.08 50)", "oklch(70% 20% 200deg)", "lch(50 30 120 / .5)", "lch(60% 25 40)", "lch(70 20 0.5turn)",
				"lch(60% 20% 120)", "lch(50 30% 40)", "lab(120% 0 0)", "oklch(.5 .5 30)"}[r.Intn(14)]
		}
		return "currentColor"
	}
	return fmt.Sprintf("hsla(%s, %d%%, %d%%, %s)", wideHueNumber(r), edgePct(r), edgePct(r), al())
}

// hues over many turns, negative, in every angle unit
func wideHueNumber(r *Rng) string {
	if r.Chance(35) {
		return fmt.Sprint([]int{0, 360, 720, -360, 600, -240, 1080, -720, 361, 1000, -1000}[r.Intn(11)])
	}
	return fmt.Sprint(r.Intn(3001) - 1500)
}

func wideHue(r *Rng) string {
	switch r.Intn(6) {
	case 0:
		return wideHueNumber(r)
	case 1:
		return wideHueNumber(r) + "deg"
	case 2:
		return fmt.Sprintf("%dgrad", r.Intn(3401)-1700)
	case 3:
		return []string{"2turn", "-1turn", "0.5turn", "1.75turn", "-2.25turn", "3turn", "-0.25turn", "1turn"}[r.Intn(8)]
	case 4:
		return []string{"3.14rad", "-7.5rad", "12.6rad", "1rad", "-20rad", "31.4rad"}[r.Intn(6)]
	}
	return []string{"120deg", "0.5turn", "200grad", "90", "-30deg"}[r.Intn(5)]
}

// percentages with the boundaries over-represented
func edgePct(r *Rng) int {
	switch r.Intn(8) {
	case 0:
		return 0
	case 1:
		return 100
	}
	return r.Intn(101)
}

func (g *sheetGen) length(allowAuto bool) string {
	r := g.r
	switch r.Intn(16) {
	case 0:
		return "0"
	case 1:
		return []string{"0px", "0em", "0.0px", "-0px", "0vw", "0%"}[r.Intn(6)]
	case 2, 3:
		return fmt.Sprintf("%dpx", r.Intn(20))
	case 4:
		return []string{"1.50px", "0.5em", ".5em", "+1.0px", "-0.25em", "010px", "1.0e1px", "1.5e2px", "2.50e-1em"}[r.Intn(9)]
	case 5:
		return fmt.Sprintf("%d%%", r.Intn(101))
	case 6:
		if allowAuto {
			return "auto"
		}
		return "1em"
	case 7:
		g.note("val-unsafe-unit")
		return []string{"1vw", "2vh", "3Q", "1vw", "2rem", "1ch"}[r.Intn(6)]
	case 8:
		g.note("val-calc")
		return []string{"calc(1px + 2px)", "calc(100% - 10px)", "calc(2 * 3px)", "calc(10px / 2)", "calc(1px + (2px * 3))", "calc(1em + 2px - 1em)", "calc(50% + 1.50px)", "calc(1px - -2px)", "calc((1px + 2px) * 2)"}[r.Intn(9)]
	case 9:
		return "var(--v)"
	}
	return fmt.Sprintf("%dpx", r.Intn(5))
}

func (g *sheetGen) number() string {
	return []string{"1", "1.0", "0.50", ".5", "+.5", "-0.5", "0", "0.0", "10", "1e3", "1.5e10", "1.50e+2", "100", "00.5", "1.250"}[g.r.Intn(15)]
}

func (g *sheetGen) time() string {
	return []string{"100ms", ".1s", "0.1s", "1500ms", "1.5s", "1s", "1000ms", "0s", "0ms", "50ms", ".05s", "10000ms", "0.5e3ms", "1.0s"}[g.r.Intn(14)]
}

func (g *sheetGen) declaration() string {
	r := g.r
	var name, val string
	switch r.Intn(22) {
	case 0, 1, 2:
		name, val = []string{"color", "background-color", "border-color", "outline-color", "fill"}[r.Intn(5)], g.color()
		g.note("decl-color")
	case 3, 4:
		box := []string{"margin", "padding", "inset"}[r.Intn(3)]
		n := r.Range(1, 4)
		var vs []string
		for i := 0; i < n; i++ {
			vs = append(vs, g.length(box != "padding"))
		}
		name, val = box, strings.Join(vs, " ")
		g.note("decl-box-shorthand")
	case 5, 6, 7:
		box := []string{"margin", "padding", ""}[r.Intn(3)]
		side := []string{"top", "right", "bottom", "left"}[r.Intn(4)]
		if box == "" {
			name = side
		} else {
			name = box + "-" + side
		}
		val = g.length(box != "padding")
		g.note("decl-box-side")
	case 8:
		n := r.Range(1, 4)
		var vs []string
		for i := 0; i < n; i++ {
			vs = append(vs, g.length(false))
		}
		name, val = "border-radius", strings.Join(vs, " ")
		if r.Chance(30) {
			val += " / " + g.length(false)
		}
		g.note("decl-border-radius")
	case 9:
		name = []string{"border-top-left-radius", "border-top-right-radius", "border-bottom-right-radius", "border-bottom-left-radius"}[r.Intn(4)]
		val = g.length(false)
		if r.Chance(30) {
			val += " " + g.length(false)
		}
		g.note("decl-border-radius")
	case 10:
		name, val = []string{"transition-duration", "animation-duration", "transition-delay"}[r.Intn(3)], g.time()
		g.note("decl-time")
	case 11:
		name, val = []string{"width", "height", "min-width", "gap"}[r.Intn(4)], g.length(false)
	case 12:
		name, val = []string{"opacity", "z-index", "line-height", "flex-grow", "order"}[r.Intn(5)], g.number()
		g.note("decl-number")
	case 13:
		name, val = "font-weight", []string{"normal", "bold", "400", "700", "bolder", "NORMAL", "100"}[r.Intn(7)]
	case 14:
		name = []string{"--v", "--x", "--Y"}[r.Intn(3)]
		val = []string{"1px", " red", "{a:b}", "1.0", "0.50 auto", "#ABCDEF", "calc(1px + 2px)", "a b  c", "\"s\""}[r.Intn(9)]
		g.note("decl-custom")
	case 15:
		name, val = "content", []string{`"a"`, `'b'`, `"\41 b"`, `"é"`, `"a\"b"`, `"\\"`, `'it''s'`}[r.Intn(7)]
	case 16:
		name, val = "display", []string{"block", "none", "flex", "grid", "inline", "BLOCK"}[r.Intn(6)]
	case 17:
		name, val = "transform", []string{"translate(0, 0)", "translateX(10px)", "scale(1, 1)", "scale(2)", "rotate(90deg)", "translate3d(0, 0, 0)", "scale3d(1, 1, 1)", "rotate(0.25turn)", "translate(10px, 0)", "translateY(0px)"}[r.Intn(10)]
		g.note("decl-transform")
	case 18:
		name, val = "font-family", []string{`"Arial"`, `'Times New Roman', serif`, `"serif"`, `a b, "c d"`, `system-ui`, `"a-b"`, `"1a"`}[r.Intn(7)]
	case 19:
		name, val = "box-shadow", []string{"0 0 0 red", "1px 2px #000", "inset 0px 0px 1px rgba(0,0,0,.5)", "0 0 0 0 #ff0000, 1px 1px blue", "none"}[r.Intn(5)]
	case 20:
		name, val = "background", []string{"red", "#ff0000 url(x.png)", "linear-gradient(red, blue)", "linear-gradient(to right, #ff0000, #0000ff 50%)", "none"}[r.Intn(5)]
	default:
		name, val = "color", g.color()
	}
	if r.Chance(8) {
		name = strings.ToUpper(name[:1]) + name[1:]
		if strings.HasPrefix(name, "-") {
			name = strings.ToLower(name)
		}
	}
	imp := ""
	if r.Chance(15) {
		imp = []string{" !important", "!important", " ! important", " !IMPORTANT"}[r.Intn(4)]
		g.note("decl-important")
	}
	return name + ":" + []string{" ", "", "  "}[r.Intn(3)] + val + imp
}

// a run of declarations of one box family (shorthand and sides interleaved)
func (g *sheetGen) boxCluster(indent string) string {
	r := g.r
	var sb strings.Builder
	fam := []string{"margin", "padding", "inset", "radius"}[r.Intn(4)]
	vals := []string{"0", "1px", "2px", "0px", "1em", "10%", "1vw", "auto", "2vw", "calc(1px + 1px)", "var(--v)", "3Q"}
	val := func() string {
		v := vals[r.Intn(len(vals))]
		if v == "auto" && (fam == "padding" || fam == "radius") {
			v = "3px"
		}
		return v
	}
	g.note("box-cluster")
	for k := r.Range(2, 6); k > 0; k-- {
		imp := ""
		if r.Chance(12) {
			imp = " !important"
		}
		switch fam {
		case "radius":
			if r.Chance(35) {
				var vs []string
				for j := r.Range(1, 4); j > 0; j-- {
					vs = append(vs, val())
				}
				v := strings.Join(vs, " ")
				if r.Chance(25) {
					v += " / " + val()
				}
				sb.WriteString(indent + "border-radius: " + v + imp + ";\n")
			} else {
				c := []string{"top-left", "top-right", "bottom-right", "bottom-left"}[r.Intn(4)]
				v := val()
				if r.Chance(25) {
					v += " " + val()
				}
				sb.WriteString(indent + "border-" + c + "-radius: " + v + imp + ";\n")
			}
		default:
			if r.Chance(35) {
				var vs []string
				for j := r.Range(1, 4); j > 0; j-- {
					vs = append(vs, val())
				}
				sb.WriteString(indent + fam + ": " + strings.Join(vs, " ") + imp + ";\n")
			} else {
				side := []string{"top", "right", "bottom", "left"}[r.Intn(4)]
				name := fam + "-" + side
				if fam == "inset" {
					name = side
				}
				sb.WriteString(indent + name + ": " + val() + imp + ";\n")
			}
		}
		if r.Chance(10) {
			sb.WriteString(indent + "color: red;\n")
		}
	}
	return sb.String()
}

func (g *sheetGen) declBlock(nestDepth int, indent string) string {
	r := g.r
	var sb strings.Builder
	if r.Chance(22) {
		sb.WriteString(g.boxCluster(indent))
	}
	n := r.Range(0, 5)
	if r.Chance(25) {
		n += 3
	}
	var prev string
	for i := 0; i < n; i++ {
		d := g.declaration()
		if prev != "" && r.Chance(12) {
			d = prev // exact duplicate declaration
			g.note("dup-decl")
		} else if prev != "" && r.Chance(8) {
			// the same declaration with the other importance
			g.note("dup-decl-other-importance")
			if i := strings.Index(prev, "!"); i >= 0 {
				d = strings.TrimRight(prev[:i], " ")
			} else {
				// important copy followed by the normal one again
				d = prev + " !important;\n" + indent + prev
			}
		}
		prev = d
		sb.WriteString(indent + d)
		last := i+1 == n
		if !last || r.Chance(60) {
			sb.WriteString(";")
		}
		sb.WriteString("\n")
		if last {
			break
		}
		if r.Chance(3) {
			sb.WriteString(indent + []string{"color red;", "*x: 1;", "1px: 2;", "foo;", "color: ;"}[r.Intn(5)] + "\n")
			g.note("bad-decl")
		}
		if g.o.nesting && nestDepth < 2 && r.Chance(18) {
			g.note("nested-rule")
			if r.Chance(20) {
				sb.WriteString(indent + g.condPrelude() + " {\n" + g.declBlock(2, indent+"  ") + indent + "}\n")
			} else {
				var sels []string
				for k := r.Range(1, 2); k > 0; k-- {
					sels = append(sels, g.nestedSel())
				}
				sb.WriteString(indent + strings.Join(sels, ", ") + " {\n" + g.declBlock(nestDepth+1, indent+"  ") + indent + "}\n")
			}
		}
	}
	return sb.String()
}

var mediaAtoms = []string{"screen", "print", "(color)", "(min-width: 100px)", "(hover)"}

func (g *sheetGen) condPrelude() string {
	r := g.r
	switch r.Intn(8) {
	case 0, 1, 2:
		return "@media " + r.Pick(mediaAtoms)
	case 3:
		return "@media " + []string{"screen", "print"}[r.Intn(2)] + " and " + []string{"(color)", "(hover)"}[r.Intn(2)]
	case 4:
		return "@media " + []string{"not print", "not screen", "screen, print", "(color) and (hover)", "not (color)"}[r.Intn(5)]
	case 5, 6:
		return "@supports " + []string{"(display: grid)", "not (display: grid)", "(display: grid) and (gap: 1px)", "(gap: 1px)"}[r.Intn(4)]
	}
	return "@container " + []string{"(min-width: 100px)", "side (min-width: 100px)"}[r.Intn(2)]
}

var layerNamesGen = []string{"la", "lb", "lc"}

func (g *sheetGen) styleRule(indent string, dupPool *[]string) string {
	r := g.r
	if len(*dupPool) > 0 && r.Chance(18) {
		g.note("dup-rule")
		return (*dupPool)[r.Intn(len(*dupPool))]
	}
	sel := g.selList(0, []int{1, 1, 1, 2, 3}[r.Intn(5)])
	body := g.declBlock(0, indent+"  ")
	if len(*dupPool) > 0 && r.Chance(25) {
		// same body as an earlier rule, different selector: candidate for adjacent merging
		prev := (*dupPool)[r.Intn(len(*dupPool))]
		if i := strings.Index(prev, "{"); i >= 0 {
			g.note("same-body-rule")
			s := indent + sel + " " + strings.TrimLeft(prev[i:], " ")
			*dupPool = append(*dupPool, s)
			return s
		}
	}
	s := indent + sel + " {\n" + body + indent + "}\n"
	*dupPool = append(*dupPool, s)
	return s
}

func (g *sheetGen) ruleList(depth int, indent string, n int) string {
	r := g.r
	var sb strings.Builder
	var pool []string
	for i := 0; i < n; i++ {
		switch k := r.Intn(20); {
		case k < 11:
			sb.WriteString(g.styleRule(indent, &pool))
		case k < 14 && depth < 2:
			g.note("at-cond")
			pre := g.condPrelude()
			inner := g.ruleList(depth+1, indent+"  ", r.Range(0, 3))
			s := indent + pre + " {\n" + inner + indent + "}\n"
			if depth > 0 && r.Chance(30) {
				g.note("at-media-nested-same")
			}
			sb.WriteString(s)
			if r.Chance(15) {
				sb.WriteString(s) // duplicate conditional block
				g.note("dup-at-rule")
			}
		case k < 16 && g.o.layers:
			g.note("at-layer")
			switch r.Intn(5) {
			case 0:
				sb.WriteString(indent + "@layer " + r.Pick(layerNamesGen) + ", " + r.Pick(layerNamesGen) + ";\n")
			case 1:
				sb.WriteString(indent + "@layer " + r.Pick(layerNamesGen) + "." + r.Pick(layerNamesGen) + ";\n")
			case 2:
				if depth < 2 {
					sb.WriteString(indent + "@layer {\n" + g.ruleList(depth+1, indent+"  ", r.Range(0, 2)) + indent + "}\n")
				}
			default:
				if depth < 2 {
					sb.WriteString(indent + "@layer " + r.Pick(layerNamesGen) + " {\n" + g.ruleList(depth+1, indent+"  ", r.Range(0, 3)) + indent + "}\n")
				}
			}
		case k == 16:
			g.note("at-keyframes")
			sb.WriteString(indent + "@keyframes kf" + fmt.Sprint(r.Intn(2)) + " { from { opacity: 0.0 } 50.0% { opacity: .50 } to { opacity: 1 } }\n")
		case k == 17:
			g.note("at-font-face")
			sb.WriteString(indent + "@font-face { font-family: \"F\"; src: url(f.woff2); src: url(\"g.woff\") }\n")
		case k == 18:
			sb.WriteString(indent + "/* comment */\n")
			if r.Chance(30) {
				sb.WriteString(indent + "/*! legal */\n")
			}
		default:
			// empty rules and recovery fodder
			g.note("odd-rule")
			sb.WriteString(indent + []string{"a {}\n", ".c1 { ; }\n", "@media screen {}\n", "b { color: red; } }\n", "@unknown x { y: z }\n", ":is() { color: red }\n", "@supports (display: grid) {}\n"}[r.Intn(7)])
		}
	}
	return sb.String()
}

func (g *sheetGen) sheet() string {
	pre := ""
	if g.o.namespaces {
		pre = "@namespace a url(http://a);\n@namespace b url(http://b);\n"
		if g.r.Chance(25) {
			pre = "@namespace url(http://a);\n" + pre
		}
	}
	return pre + g.ruleList(0, "", g.r.Range(2, 7))
}
