package main

// Glue stream: generated style sheets through api.Transform (loader css /
// global-css, minify on/off, targets) with the cascade oracle: for every
// element, property and browser environment the winner computed from esbuild's
// output must equal the winner computed from the input in that environment or
// in one that understands more of the input's syntax, must exist whenever the
// input's exists, and must be equal outright in the environment that
// understands everything.

import (
	"fmt"
	"regexp"
	"sort"
	"strings"

	"github.com/evanw/esbuild/pkg/api"
	. "github.com/evanw/esbuild/verifharness/hlib"
)

type glueOpts struct {
	minifySyntax bool
	minifyWS     bool
	loader       api.Loader
	supported    map[string]bool
	engines      []api.Engine
	desc         string
}

// features the target says are unavailable -> oracle feature keys that become variable
var unsupportedToFeature = map[string][]string{
	"nesting":        {"nesting"},
	"hex-rgba":       {"hex-rgba"},
	"modern-rgb-hsl": {"modern-rgb-hsl"},
	"hwb":            {"fn:hwb"},
	"inset-property": {"inset-property"},
	"rebecca-purple": {"rebecca-purple"},
	"is-pseudo-class": {"sel:is"},
	"color-functions": {"fn:lab", "fn:lch", "fn:oklab", "fn:oklch", "fn:color"},
}

func randGlueOpts(r *Rng) glueOpts {
	o := glueOpts{loader: api.LoaderCSS}
	o.minifySyntax = r.Chance(70)
	o.minifyWS = r.Chance(40)
	if r.Chance(15) {
		o.loader = api.LoaderGlobalCSS
	}
	var names []string
	if r.Chance(45) {
		o.supported = map[string]bool{}
		for _, f := range []string{"nesting", "hex-rgba", "modern-rgb-hsl", "hwb", "inset-property", "rebecca-purple", "color-functions"} {
			if r.Chance(40) {
				o.supported[f] = false
				names = append(names, f)
			}
		}
		if r.Chance(30) && !o.supported["nesting"] == false {
		}
	} else if r.Chance(25) {
		o.engines = [][]api.Engine{
			{{Name: api.EngineChrome, Version: "60"}},
			{{Name: api.EngineSafari, Version: "11"}},
			{{Name: api.EngineFirefox, Version: "70"}},
			{{Name: api.EngineChrome, Version: "100"}, {Name: api.EngineSafari, Version: "15"}},
		}[r.Intn(4)]
		names = append(names, fmt.Sprint(o.engines))
	}
	o.desc = fmt.Sprintf("loader=%d minify-syntax=%v minify-whitespace=%v unsupported=%v", o.loader, o.minifySyntax, o.minifyWS, names)
	return o
}

func (o glueOpts) transform(src string) (string, []string, error) {
	res := api.Transform(src, api.TransformOptions{
		Loader:           o.loader,
		MinifySyntax:     o.minifySyntax,
		MinifyWhitespace: o.minifyWS,
		Supported:        o.supported,
		Engines:          o.engines,
		LogLevel:         api.LogLevelSilent,
	})
	var warns []string
	for _, w := range res.Warnings {
		warns = append(warns, w.Text)
	}
	if len(res.Errors) > 0 {
		return "", warns, fmt.Errorf("%s", res.Errors[0].Text)
	}
	return string(res.Code), warns, nil
}

// features that some browser may lack, given the target: everything exotic in
// the input plus whatever the target declares unsupported
func variableFeatures(inFeat map[string]bool, o glueOpts) []string {
	var out []string
	lowered := map[string]bool{}
	for f, ok := range o.supported {
		if !ok {
			for _, k := range unsupportedToFeature[f] {
				lowered[k] = true
			}
		}
	}
	engineLowered := len(o.engines) > 0
	for f := range inFeat {
		switch {
		case strings.HasPrefix(f, "sel:") && f != "sel:is" && f != "sel:where":
			out = append(out, f)
		case strings.HasPrefix(f, "unit:"):
			out = append(out, f)
		case lowered[f]:
			out = append(out, f)
		case engineLowered && f == "nesting":
			// every engine list the generator uses predates CSS nesting; the other
			// lowerable features are left to esbuild's compat table (property C14)
			out = append(out, f)
		}
	}
	sort.Strings(out)
	return out
}

type cascadeCheck struct {
	d       *dom
	targets []target
	inItems []fitem
	props   []string
}

// compareCascade evaluates the property's predicate. Returns a description of the first failure or "".
func compareCascade(d *dom, inItems, outItems []fitem, vars []string, r *Rng, st *Stats) (string, map[string]interface{}) {
	atoms := map[string]bool{}
	collectAtoms(inItems, atoms)
	collectAtoms(outItems, atoms)
	truths := subsets(sortedKeys(atoms), 4, r)
	featSets := subsets(vars, 4, r)
	varSet := map[string]bool{}
	if len(featSets) > 0 {
		for k := range featSets[0] {
			varSet[k] = true
		}
	}
	props := allProps(inItems)
	targets := domTargets(d)
	type key struct {
		ti, fi int
		t      target
		p      string
	}
	inCache := map[key][2]string{}
	inWinner := func(ti, fi int, t target, p string) (string, bool) {
		k := key{ti, fi, t, p}
		if v, ok := inCache[k]; ok {
			return v[0], v[1] == "1"
		}
		e := &env{truth: truths[ti], variable: varSet, understood: featSets[fi]}
		v, ok := d.winner(inItems, e, t, p)
		b := "0"
		if ok {
			b = "1"
		}
		inCache[k] = [2]string{v, b}
		return v, ok
	}
	superset := func(a, b map[string]bool) bool { // b ⊇ a
		for k, v := range a {
			if v && !b[k] {
				return false
			}
		}
		return true
	}
	for ti := range truths {
		for fi := range featSets {
			e := &env{truth: truths[ti], variable: varSet, understood: featSets[fi]}
			full := true
			for _, v := range featSets[fi] {
				if !v {
					full = false
				}
			}
			for _, t := range targets {
				for _, p := range props {
					st.Histogram["oracle-evaluations"]++
					ov, ook := d.winner(outItems, e, t, p)
					iv, iok := inWinner(ti, fi, t, p)
					same := func(v string, ok bool) bool { return ok == ook && (!ok || sameCanon(v, ov)) }
					okHere := same(iv, iok)
					if !okHere && !full && !(iok && !ook) {
						for fj := range featSets {
							if fj != fi && superset(featSets[fi], featSets[fj]) {
								if v2, ok2 := inWinner(ti, fj, t, p); same(v2, ok2) {
									okHere = true
									break
								}
							}
						}
					}
					if !okHere {
						return "winner differs", map[string]interface{}{
							"element": d.describe(t), "property": p,
							"true_conditions": trueKeys(truths[ti]), "understood": trueKeys(featSets[fi]), "variable_features": vars,
							"input_winner": optStr(iv, iok), "output_winner": optStr(ov, ook)}
					}
				}
			}
		}
	}
	return "", nil
}

var boxLonghandRe = regexp.MustCompile(`^(margin-(top|right|bottom|left)|padding-(top|right|bottom|left)|top|right|bottom|left|border-(top|bottom)-(left|right)-radius)$`)

var lchPctChromaRe = regexp.MustCompile(`(?i)\blch\(\s*[^\s,)]+\s+[0-9.]+%`)
var ampInPseudoArgRe = regexp.MustCompile(`:(is|not|where)\([^{}]*&`)

// a nested rule whose whole selector (list) is "&" ("&, &" is deduplicated to "&" first)
var bareAmpRuleRe = regexp.MustCompile(`(^|[{};])\s*&(\s*,\s*&)*\s*\{`)

func insetLowered(o glueOpts) bool {
	if ok, set := o.supported["inset-property"]; set && !ok {
		return true
	}
	return len(o.engines) > 0
}

func nestingLowered(o glueOpts) bool {
	if ok, set := o.supported["nesting"]; set && !ok {
		return true
	}
	return len(o.engines) > 0
}

func trueKeys(m map[string]bool) []string {
	var out []string
	for k, v := range m {
		if v {
			out = append(out, k)
		}
	}
	sort.Strings(out)
	return out
}

func optStr(v string, ok bool) string {
	if !ok {
		return "<none>"
	}
	return strings.ReplaceAll(v, "\x1f", " ")
}

func glueTransformCase(r *Rng, st *Stats, src string, d *dom, o glueOpts, scenario string) (inItems []fitem, ok bool) {
	out, _, err := o.transform(src)
	st.Evaluations++
	st.Histogram["glue-transform"]++
	if err != nil {
		st.Histogram["glue-transform-error"]++
		return nil, false
	}
	inItems = flattenSheet(parseSheet(src))
	outItems := flattenSheet(parseSheet(out))
	feat := map[string]bool{}
	collectFeatures(inItems, feat)
	vars := variableFeatures(feat, o)
	what, detail := compareCascade(d, inItems, outItems, vars, r, st)
	if what != "" {
		// re-run: only deterministic failures are reported
		out2, _, err2 := o.transform(src)
		if err2 == nil && out2 == out {
			input := map[string]interface{}{"css": src, "options": o.desc, "output": out}
			if scenario == "" {
				// known limitation: "inset" with a value that cannot be split (var()) is
				// left alone while other "inset" declarations are lowered to the four sides
				if ok, lowered := o.supported["inset-property"]; lowered && !ok && strings.Contains(strings.ToLower(out), "inset:") {
					switch detail["property"] {
					case "top", "right", "bottom", "left":
						scenario = "inset-lowering-skips-unsplittable-value"
					}
				}
			}
			if scenario == "" && insetLowered(o) && strings.Contains(src, "inset") && boxLonghandRe.MatchString(fmt.Sprint(detail["property"])) {
				// known limitation: lowering "inset" to four longhands changes what a
				// browser that rejects ONE of the values (unit it does not know) throws
				// away: the whole shorthand before, only that side after
				und := map[string]bool{}
				if u, ok := detail["understood"].([]string); ok {
					for _, k := range u {
						und[k] = true
					}
				}
				for _, v := range vars {
					if strings.HasPrefix(v, "unit:") && !und[v] {
						scenario = "inset-lowering-splits-value-invalidation"
					}
				}
			}
			if scenario == "" && lchPctChromaRe.MatchString(src) && colorProps[fmt.Sprint(detail["property"])] {
				// known finding C12-Q: lch() chroma percentages are resolved against 125 instead of 150
				scenario = "lch-chroma-percentage-reference-range"
			}
			if scenario == "" && len(o.engines) > 0 && o.engines[0].Version != "100" && ampInPseudoArgRe.MatchString(src) {
				// known finding C12-N: without :is(), "&" inside a pseudo-class argument under a
				// multi-selector parent is substituted by the FIRST parent selector in every copy
				scenario = "nesting-amp-in-pseudo-arg-without-is"
			}
			if scenario == "" && len(o.engines) > 0 && o.engines[0].Version != "100" && strings.Contains(fmt.Sprint(vars), "nesting") && !strings.Contains(out, ":is(") {
				// known limitation: for engines without :is() a multi-selector parent is
				// expanded into the cross product, which gives every branch its own
				// specificity instead of the maximum that "&" has
				scenario = "nesting-expansion-without-is-changes-specificity"
			}
			if scenario == "" && o.minifySyntax && bareAmpRuleRe.MatchString(src) {
				// known finding C12-R: the minifier moves the declarations of a nested "& { }"
				// rule into the parent rule; natively "&" has the specificity of :is(parent
				// list) (its most specific member), the parent's own declarations only that
				// of the selector that matched
				scenario = "nested-amp-rule-inlined-loses-list-specificity"
			}
			if scenario == "" && nestingLowered(o) && strings.Contains(out, ":is(") {
				// known limitation: the parent selector list is wrapped in the forgiving
				// :is(), so a parent selector this browser cannot parse no longer
				// invalidates the (lowered) nested rule
				missingSel := false
				und := map[string]bool{}
				if u, ok := detail["understood"].([]string); ok {
					for _, k := range u {
						und[k] = true
					}
				}
				for _, v := range vars {
					if strings.HasPrefix(v, "sel:") && !und[v] {
						missingSel = true
					}
				}
				if missingSel {
					scenario = "nesting-lowering-wraps-parent-in-forgiving-is"
				}
			}
			if scenario != "" {
				input["scenario"] = scenario
			}
			for k, v := range detail {
				input[k] = v
			}
			failC12(st, "cascade-winner-changed", input, detail["output_winner"], detail["input_winner"])
		}
	}
	return inItems, true
}

func glueTransform(r *Rng, n int, st *Stats, cf *CoqFile) {
	hist := map[string]int{}
	var cascItems []string
	for i := 0; i < n; i++ {
		o := randGlueOpts(r)
		g := &sheetGen{r: r, hist: hist}
		g.o.nesting = r.Chance(45)
		g.o.namespaces = r.Chance(25)
		g.o.layers = r.Chance(60)
		// wide-gamut colours only when nothing lowers them
		g.o.wideColors = r.Chance(40)
		src := g.sheet()
		d := genDOM(r)
		inItems, ok := glueTransformCase(r, st, src, d, o, "")
		if !ok {
			continue
		}
		st.Note("glue-cascade", src+o.desc, len(inItems) > 1)
		if len(st.Samples) < 6 && len(src) < 400 {
			st.Sample(map[string]interface{}{"glue_css": src, "options": o.desc})
		}
		// validate the Go evaluator against Cascade.v on this sheet
		if i%3 == 0 {
			if c := coqCascadeCase(r, d, inItems); c != "" {
				cascItems = append(cascItems, c)
			}
		}
	}
	for k, v := range hist {
		st.Histogram["gen:"+k] += v
	}
	cf.AddCases("casc_cases", "list (bool * list Z * list Z * list Z * list (Z * Z * bool * Z)) * list Z * list Z * list Z * list (Z * Z) * Z * Z", "check_casc", cascItems)
}

// coqCascadeCase renders one (sheet, environment, element, property) with the
// winner the Go evaluator computed, in the vocabulary of Cascade.v.
func coqCascadeCase(r *Rng, d *dom, items []fitem) string {
	if len(items) == 0 {
		return ""
	}
	atoms := map[string]bool{}
	collectAtoms(items, atoms)
	feat := map[string]bool{}
	collectFeatures(items, feat)
	truth := map[string]bool{}
	for _, a := range sortedKeys(atoms) {
		truth[a] = r.Chance(65)
	}
	vars := map[string]bool{}
	und := map[string]bool{}
	for _, f := range sortedKeys(feat) {
		vars[f] = true
		und[f] = r.Chance(75)
	}
	e := &env{truth: truth, variable: vars, understood: und}
	targets := domTargets(d)
	t := targets[r.Intn(len(targets))]
	props := allProps(items)
	if len(props) == 0 {
		return ""
	}
	p := props[r.Intn(len(props))]
	// prefer a (target, prop) with a winner
	for try := 0; try < 12; try++ {
		if _, ok := d.winner(items, e, t, p); ok {
			break
		}
		t = targets[r.Intn(len(targets))]
		p = props[r.Intn(len(props))]
	}
	wv, wok := d.winner(items, e, t, p)

	condID := map[*condExpr]int{}
	layerID := map[string]int{}
	valID := map[string]int{}
	propID := map[string]int{}
	id := func(m map[string]int, k string) int {
		if v, ok := m[k]; ok {
			return v
		}
		m[k] = len(m) + 1
		return m[k]
	}
	var trueConds, understoodSels, matching []string
	var specs []string
	var itemStrs []string
	selCounter := 0
	for i := range items {
		it := &items[i]
		var conds []string
		for _, c := range it.conds {
			if _, ok := condID[c]; !ok {
				condID[c] = len(condID) + 1
				if c.eval(truth) {
					trueConds = append(trueConds, fmt.Sprint(condID[c]))
				}
			}
			conds = append(conds, fmt.Sprint(condID[c]))
		}
		var layer []string
		for _, l := range it.layer {
			layer = append(layer, fmt.Sprint(id(layerID, l)))
		}
		var sels []string
		for _, s := range it.sels {
			selCounter++
			sid := selCounter
			sels = append(sels, fmt.Sprint(sid))
			valid := selValid(s, e) && (!it.nested || e.has("nesting")) && ancestorsValid(it, e)
			if valid {
				understoodSels = append(understoodSels, fmt.Sprint(sid))
			}
			if valid && d.matchComplex(s, t, it.ctx, e) {
				matching = append(matching, fmt.Sprint(sid))
			}
			specs = append(specs, fmt.Sprintf("(%d,%d)", sid, specificity(s, it.ctx, e).packed()))
		}
		if !it.stmt && len(it.sels) == 0 {
			// a rule without any selector can never apply: give it a selector nobody understands
			selCounter++
			sels = append(sels, fmt.Sprint(selCounter))
		}
		var decls []string
		for _, dc := range it.decls {
			syn := 0
			if !declUnderstood(dc, e) {
				syn = 1
			}
			for _, lh := range expandDecl(dc) {
				decls = append(decls, fmt.Sprintf("(%d,%d,%s,%d)", id(propID, lh.prop), id(valID, lh.value), CBool(dc.important), syn))
			}
		}
		itemStrs = append(itemStrs, fmt.Sprintf("(%s,[%s],[%s],[%s],[%s])", CBool(it.stmt), strings.Join(conds, ";"), strings.Join(layer, ";"), strings.Join(sels, ";"), strings.Join(decls, ";")))
	}
	w := -1
	if wok {
		w = id(valID, wv)
	}
	return fmt.Sprintf("([%s],[%s],[%s],[%s],[%s],%d,%s)", strings.Join(itemStrs, ";"), strings.Join(trueConds, ";"), strings.Join(understoodSels, ";"),
		strings.Join(matching, ";"), strings.Join(specs, ";"), id(propID, p), CZi(w))
}

// Fixed corpus, run first on every check: witnesses of defects that were found
// by this check (now fixed in /repo; they must pass) and of the recorded known
// limitation (expected to fail; matched by known_findings.d/C12.json).
func glueCorpus(r *Rng, st *Stats) {
	d := &dom{}
	mk := func(tag string, parent int, classes ...string) {
		d.nodes = append(d.nodes, node{tag: tag, parent: parent, classes: classes, attrs: map[string]string{}, flags: map[string]bool{"hover": true}})
	}
	mk("div", -1)
	mk("a", 0, "c1")
	mk("b", 0)
	mk("b", 1, "c2")
	mk("a", 3)
	mk("span", 0)
	mk("b", 4)
	mk("a", 0)
	d.nodes[len(d.nodes)-1].ns = "http://a"
	count := map[int]int{}
	for i := range d.nodes {
		d.nodes[i].index = count[d.nodes[i].parent]
		count[d.nodes[i].parent]++
	}
	for i := range d.nodes {
		d.nodes[i].nsib = count[d.nodes[i].parent]
	}
	min := glueOpts{minifySyntax: true, loader: api.LoaderCSS, desc: "loader=css minify-syntax=true"}
	noNest := glueOpts{loader: api.LoaderCSS, supported: map[string]bool{"nesting": false}, desc: "loader=css unsupported=[nesting]"}
	noInset := glueOpts{minifySyntax: true, loader: api.LoaderCSS, supported: map[string]bool{"inset-property": false}, desc: "loader=css minify-syntax=true unsupported=[inset-property]"}
	cases := []struct {
		css      string
		o        glueOpts
		scenario string
	}{
		{"@media screen { a{color:red} @media screen { b{color:blue} } b{color:red} }", min, "media-unwrap-stale-prev-merge"},
		{"@media screen { a{color:red} @media screen { b{color:blue} /* c */ } b{color:red} }", min, "media-unwrap-stale-prev-merge"},
		{"a{width:1.5e10px;order:1.0e10;height:1.50e2px;z-index:10.0e0}", min, "mangle-number-strips-exponent-zeros"},
		{"b{inset:1px 2px 3px 4px} b.c2{inset:var(--v) 0 0 0}", noInset, "inset-lowering-skips-unsplittable-value"},
		{"*, a:-moz-foo { color: red !important; > b { color: blue } }", noNest, "nesting-lowering-wraps-parent-in-forgiving-is"},
		{"a{color:lch(60% 40% 120)}", min, "lch-chroma-percentage-reference-range"},
		// must pass: the other percentage reference ranges (lab a/b 125, oklab a/b 0.4, oklch C 0.4, L 100 / 1)
		{"a{color:lab(60 10% -15%)} b{color:oklab(.7 10% -20%)} div{color:oklch(70% 20% 200deg)} span{color:lch(60% 25 40)}", min, ""},
		{"a { & b { color: red } } .c1 { & b { color: red } } a b { color: blue }", min, ""},
		{"a { :not(&) > b { color: red } } span { :not(&) > b { color: red } }", min, ""},
		{"div, a { :not(&).c1 { color: red } } .c1 { order: 1 }", glueOpts{loader: api.LoaderCSS, engines: []api.Engine{{Name: api.EngineFirefox, Version: "70"}}, desc: "loader=css target=firefox70"}, "nesting-amp-in-pseudo-arg-without-is"},
		{"div, #i9 { > a { color: red } } div > a.c1 { color: blue }", glueOpts{loader: api.LoaderCSS, engines: []api.Engine{{Name: api.EngineChrome, Version: "60"}}, desc: "loader=css target=chrome60"}, "nesting-expansion-without-is-changes-specificity"},
		{"a, #i9 { & { color: red } } a.c1 { color: blue }", min, "nested-amp-rule-inlined-loses-list-specificity"},
		// must pass: with one parent selector the inlining is exact
		{"a { & { color: red } } a.c1 { color: blue } #i9 { & { order: 1 } }", min, ""},
		{"a{margin:1px;margin-left:2px;margin-top:1vw;margin-left:3px} b{padding:1em 9px;padding-left:0;padding-bottom:1vw;padding-left:1em}", min, ""},
		{"a{border-radius:1px;border-top-left-radius:2px;border-top-right-radius:1vw;border-top-left-radius:3px}", min, ""},
		{"a{bottom:3px;inset:2vw 1em 10% 0px;bottom:1vw}", glueOpts{loader: api.LoaderCSS, engines: []api.Engine{{Name: api.EngineFirefox, Version: "65"}}, desc: "loader=css target=firefox65"}, "inset-lowering-splits-value-invalidation"},
		{"div > a { :is(&, span) { color: red } } div > b { color: blue; :not(&) { order: 1 } }", noNest, ""},
		{"a ~ b { :is(&, span) { color: red } } a + b { :not(&) { order: 2 } }", noNest, ""},
		// must pass (fix a469678): rules that differ only in the namespace prefix are not duplicates
		{"@namespace a url(http://a);@namespace b url(http://b);a|a{color:red}p{color:blue}b|a{color:red}", min, ""},
		// directed probes (must pass): importance is part of a declaration's identity; layers keep first-declaration order
		{"a{color:red!important;color:red} a.c1{color:blue}", min, ""},
		{"a{color:red!important} a.c1{color:blue} a{color:red}", min, ""},
		{"@layer la{b{color:red}} @layer lb{b{color:blue}} @layer la{b{color:red}}", min, ""},
		{"a{color:red} a::-moz-x{color:red} .c1{color:blue} a{order:1}", min, ""},
		{"a{margin:0 2px;margin-top:1px} b{padding:1px 2px 3px 4px;padding-left:5px;top:1px;inset:2px 3px;left:0}", min, ""},
		{"a{margin:1px;margin-left:2px!important} a.c1{margin-left:5px;padding-top:9px} a{padding:1px!important;padding-top:2px}", min, ""},
		{"a{color:red} b:focus-visible{color:red} a{order:1} b::-moz-x{order:1} div{order:2} x-el{order:2}", min, ""},
		{"a{margin-top:1px!important;margin:2px;margin-left:3px!important} b{border-radius:1px 2px;border-top-left-radius:3px}", min, ""},
		{"a{margin:1px;margin-top:1vw;margin-top:0} b{border-radius:1px;border-top-left-radius:1vw;border-top-left-radius:0}", min, "box-shorthand-placed-before-kept-declaration"},
	}
	for _, c := range cases {
		glueTransformCase(r, st, c.css, d, c.o, c.scenario)
		st.Histogram["corpus"]++
	}
}
