package main

// Correspondence cases for Mangle.v (rule trees through api.Transform with
// minify-syntax, output re-read by the independent parser) and NumberCss.v.

import (
	"fmt"
	"os"
	"strings"

	"github.com/evanw/esbuild/internal/css_parser"
	"github.com/evanw/esbuild/pkg/api"
	. "github.com/evanw/esbuild/verifharness/hlib"
)

type mSel struct {
	id         int
	text       string
	safe, dead bool
}

var mSels = []mSel{
	{1, "a", true, false}, {2, "b", true, false}, {3, "div", true, false}, {4, ".c1", true, false}, {5, "a:hover", true, false},
	{6, "x-el", false, false}, {7, "a>b", false, false}, {8, "b:focus", false, false}, {9, ":is()", false, true}, {10, "a:is()", false, true},
	{11, "#i1", true, false}, {12, "a::before", false, false}, {13, "a b", true, false}, {14, "a[x=y i]", false, false}, {15, "a:first-child", true, false}, {16, "b:focus-visible", false, false}, {17, "b:hover", true, false}, {18, "b:first-child:hover", true, false}, {19, "a:nth-child(2)", false, false},
}
var mProps = []string{"", "color", "order", "z-index"}
var mVals = []string{"", "red", "tan", "1", "2"}
var mMedia = []string{"", "screen", "print", "(color)"}
var mSupports = []string{"", "(display: grid)", "(gap: 1px)"}
var mLayers = []string{"", "la", "lb", "lc"}

type mDecl struct {
	prop, val int
	imp       bool
}

type mRule struct {
	kind  string // sel media cond layer opaque comment
	sels  []int
	decls []mDecl
	q     int // media
	tok   int // cond: 1 supports 2 container
	pre   int
	names [][]int
	aid   int
	okind int
	oid   int
	body  []*mRule
}

type treeGen struct {
	r   *Rng
	aid int
}

func (g *treeGen) decls() []mDecl {
	n := []int{0, 1, 1, 2, 2, 3}[g.r.Intn(6)]
	var out []mDecl
	for i := 0; i < n; i++ {
		p := g.r.Range(1, 3)
		v := g.r.Range(1, 2)
		if p > 1 {
			v = g.r.Range(3, 4)
		}
		out = append(out, mDecl{p, v, g.r.Chance(15)})
	}
	if len(out) > 0 && g.r.Chance(20) {
		out = append(out, out[g.r.Intn(len(out))])
	}
	return out
}

func (g *treeGen) selRule(pool *[]*mRule) *mRule {
	r := g.r
	if len(*pool) > 0 && r.Chance(20) {
		c := *(*pool)[r.Intn(len(*pool))]
		return &c
	}
	var sels []int
	for k := []int{1, 1, 1, 2, 3}[r.Intn(5)]; k > 0; k-- {
		sels = append(sels, mSels[r.Intn(len(mSels))].id)
	}
	rule := &mRule{kind: "sel", sels: sels, decls: g.decls()}
	if len(*pool) > 0 && r.Chance(35) {
		rule.decls = (*pool)[r.Intn(len(*pool))].decls
	}
	*pool = append(*pool, rule)
	return rule
}

func (g *treeGen) list(depth, n int) []*mRule {
	r := g.r
	var out []*mRule
	var pool []*mRule
	for i := 0; i < n; i++ {
		switch k := r.Intn(20); {
		case k < 11:
			out = append(out, g.selRule(&pool))
		case k < 14 && depth < 3:
			m := &mRule{kind: "media", q: r.Range(1, 3), body: g.list(depth+1, r.Range(0, 3))}
			out = append(out, m)
			if r.Chance(20) {
				c := *m
				out = append(out, &c)
			}
		case k < 16 && depth < 3:
			tok := 1
			pre := r.Range(1, 2)
			if r.Chance(30) {
				tok, pre = 2, 3
			}
			out = append(out, &mRule{kind: "cond", tok: tok, pre: pre, body: g.list(depth+1, r.Range(0, 2))})
		case k < 18 && depth < 3:
			switch r.Intn(4) {
			case 0:
				out = append(out, &mRule{kind: "layer", names: [][]int{{r.Range(1, 3)}, {r.Range(1, 3)}}})
			case 1:
				g.aid++
				out = append(out, &mRule{kind: "layer", aid: -g.aid, body: g.list(depth+1, r.Range(0, 2))})
			case 2:
				out = append(out, &mRule{kind: "layer", names: [][]int{{r.Range(1, 3), r.Range(1, 3)}}, body: g.list(depth+1, r.Range(0, 2))})
			default:
				out = append(out, &mRule{kind: "layer", names: [][]int{{r.Range(1, 3)}}, body: g.list(depth+1, r.Range(0, 2))})
			}
		case k == 18:
			out = append(out, &mRule{kind: "opaque", okind: r.Range(1, 2), oid: r.Range(1, 2)})
		default:
			out = append(out, &mRule{kind: "comment", oid: r.Range(1, 2)})
		}
	}
	return out
}

func selByID(id int) mSel {
	for _, s := range mSels {
		if s.id == id {
			return s
		}
	}
	return mSel{}
}

func (m *mRule) css(ind string, sb *strings.Builder) {
	switch m.kind {
	case "sel":
		var ss []string
		for _, s := range m.sels {
			ss = append(ss, selByID(s).text)
		}
		sb.WriteString(ind + strings.Join(ss, ", ") + " {")
		for _, d := range m.decls {
			imp := ""
			if d.imp {
				imp = " !important"
			}
			sb.WriteString(" " + mProps[d.prop] + ": " + mVals[d.val] + imp + ";")
		}
		sb.WriteString(" }\n")
	case "media":
		sb.WriteString(ind + "@media " + mMedia[m.q] + " {\n")
		cssList(m.body, ind+"  ", sb)
		sb.WriteString(ind + "}\n")
	case "cond":
		if m.tok == 1 {
			sb.WriteString(ind + "@supports " + mSupports[m.pre] + " {\n")
		} else {
			sb.WriteString(ind + "@container (min-width: 100px) {\n")
		}
		cssList(m.body, ind+"  ", sb)
		sb.WriteString(ind + "}\n")
	case "layer":
		var ns []string
		for _, n := range m.names {
			var parts []string
			for _, p := range n {
				parts = append(parts, mLayers[p])
			}
			ns = append(ns, strings.Join(parts, "."))
		}
		if len(m.names) > 1 {
			sb.WriteString(ind + "@layer " + strings.Join(ns, ", ") + ";\n")
			return
		}
		sb.WriteString(ind + "@layer " + strings.Join(ns, "") + " {\n")
		cssList(m.body, ind+"  ", sb)
		sb.WriteString(ind + "}\n")
	case "opaque":
		if m.okind == 1 {
			fmt.Fprintf(sb, "%s@keyframes k%d { from { opacity: 0 } }\n", ind, m.oid)
		} else {
			fmt.Fprintf(sb, "%s@font-face { font-family: f%d }\n", ind, m.oid)
		}
	case "comment":
		fmt.Fprintf(sb, "%s/*! c%d */\n", ind, m.oid)
	}
}

func cssList(l []*mRule, ind string, sb *strings.Builder) {
	for _, m := range l {
		m.css(ind, sb)
	}
}

func (m *mRule) coq() string {
	switch m.kind {
	case "sel":
		var ss, ds []string
		for _, s := range m.sels {
			x := selByID(s)
			ss = append(ss, fmt.Sprintf("mkSel %d %s %s", x.id, CBool(x.safe), CBool(x.dead)))
		}
		for _, d := range m.decls {
			ds = append(ds, fmt.Sprintf("mkDecl %d %d %s 0", d.prop, d.val, CBool(d.imp)))
		}
		return fmt.Sprintf("RSel [%s] [%s]", strings.Join(ss, ";"), strings.Join(ds, ";"))
	case "media":
		return fmt.Sprintf("RMedia %d %s", m.q, coqList(m.body))
	case "cond":
		return fmt.Sprintf("RCond %d %d %s", m.tok, m.pre, coqList(m.body))
	case "layer":
		var ns []string
		for _, n := range m.names {
			var parts []string
			for _, p := range n {
				parts = append(parts, fmt.Sprint(p))
			}
			ns = append(ns, "["+strings.Join(parts, ";")+"]")
		}
		return fmt.Sprintf("RLayer [%s] %s %s", strings.Join(ns, ";"), CZi(m.aid), coqList(m.body))
	case "opaque":
		return fmt.Sprintf("ROpaque %d %d", m.okind, m.oid)
	case "comment":
		return fmt.Sprintf("RComment %d", m.oid)
	}
	return "RImport 0"
}

func coqList(l []*mRule) string {
	var parts []string
	for _, m := range l {
		parts = append(parts, m.coq())
	}
	return "[" + strings.Join(parts, ";") + "]"
}

func squash(s string) string { return strings.Join(strings.Fields(s), "") }

func toksText(t []tok) string {
	var sb strings.Builder
	for _, x := range t {
		sb.WriteString(tokText(x))
	}
	return sb.String()
}

func indexOf(l []string, s string) int {
	for i, x := range l {
		if i > 0 && squash(x) == squash(s) {
			return i
		}
	}
	return -1
}

// output rule tree -> model tree; anonymous layers get ids that are ignored by the checker
func modelOfOutput(rs []*prule, src string) ([]*mRule, bool) {
	var out []*mRule
	for _, r := range rs {
		if !r.isAt {
			m := &mRule{kind: "sel"}
			for _, part := range splitTopLevelCommas(r.prelude) {
				txt := squash(toksText(trimToks(part)))
				found := false
				for _, s := range mSels {
					if squash(s.text) == txt || squash(strings.ReplaceAll(s.text, "::", ":")) == txt {
						m.sels = append(m.sels, s.id)
						found = true
						break
					}
				}
				if !found {
					return nil, false
				}
			}
			for _, b := range r.body {
				if b.decl == nil {
					return nil, false
				}
				var vb strings.Builder
				for _, c := range b.decl.value {
					vb.WriteString(tokText(c.t))
				}
				p, v := indexOf(mProps, b.decl.name), indexOf(mVals, vb.String())
				if p < 0 || v < 0 {
					return nil, false
				}
				m.decls = append(m.decls, mDecl{p, v, b.decl.important})
			}
			out = append(out, m)
			continue
		}
		var kids []*prule
		for _, b := range r.body {
			if b.rule == nil {
				return nil, false
			}
			kids = append(kids, b.rule)
		}
		body, ok := modelOfOutput(kids, src)
		if !ok {
			return nil, false
		}
		pre := toksText(r.prelude)
		switch r.at {
		case "media":
			q := indexOf(mMedia, pre)
			if q < 0 {
				return nil, false
			}
			out = append(out, &mRule{kind: "media", q: q, body: body})
		case "supports":
			p := indexOf(mSupports, pre)
			if p < 0 {
				return nil, false
			}
			out = append(out, &mRule{kind: "cond", tok: 1, pre: p, body: body})
		case "container":
			out = append(out, &mRule{kind: "cond", tok: 2, pre: 3, body: body})
		case "layer":
			m := &mRule{kind: "layer", body: body}
			for _, n := range layerNames(r.prelude) {
				var path []int
				for _, s := range n {
					k := indexOf(mLayers, s)
					if k < 0 {
						return nil, false
					}
					path = append(path, k)
				}
				m.names = append(m.names, path)
			}
			out = append(out, m)
		case "legal":
			var id int
			fmt.Sscanf(squash(pre), "legalcomment%d", &id)
			out = append(out, &mRule{kind: "comment", oid: id})
		case "keyframes":
			var id int
			fmt.Sscanf(squash(pre), "k%d", &id)
			out = append(out, &mRule{kind: "opaque", okind: 1, oid: id})
		case "font-face":
			out = append(out, &mRule{kind: "opaque", okind: 2, oid: 1})
		default:
			return nil, false
		}
	}
	return out, true
}

func mangleCases(r *Rng, n int, cf *CoqFile, st *Stats) {
	var items []string
	g := &treeGen{r: r}
	for i := 0; i < n; i++ {
		tree := g.list(0, r.Range(1, 6))
		// font-face ids cannot be recovered from an opaque block: use one id
		var fix func(l []*mRule)
		fix = func(l []*mRule) {
			for _, m := range l {
				if m.kind == "opaque" && m.okind == 2 {
					m.oid = 1
				}
				fix(m.body)
			}
		}
		fix(tree)
		var sb strings.Builder
		cssList(tree, "", &sb)
		src := sb.String()
		res := api.Transform(src, api.TransformOptions{Loader: api.LoaderCSS, MinifySyntax: true, LogLevel: api.LogLevelSilent})
		if len(res.Errors) > 0 {
			failC12(st, "mangle-transform-error", src, res.Errors[0].Text, "no error")
			continue
		}
		out := string(res.Code)
		// legal comments are printed in place; our parser drops comments, so re-insert them as rules
		om, ok := modelOfOutput(parseSheetKeepLegal(out), out)
		outCoq := "[ROpaque 99 99]"
		if ok {
			outCoq = coqList(om)
		}
		items = append(items, fmt.Sprintf("(%s,\n  %s)", coqList(tree), outCoq))
		if dbg := os.Getenv("C12_DEBUG"); dbg != "" {
			f, _ := os.OpenFile(dbg, os.O_APPEND|os.O_CREATE|os.O_WRONLY, 0o644)
			fmt.Fprintf(f, "### %d ok=%v\n%s--- out\n%s\n", len(items)-1, ok, src, out)
			f.Close()
		}
		st.Note("mangle-tree", src, out != src)
		if i < 2 {
			st.Sample(map[string]interface{}{"mangle_in": src, "mangle_out": out})
		}
	}
	cf.AddCases("mangle_cases", "list rule * list rule", "check_mangle", items)
}

// legal comments "/*! cN */" become at-rules "@legal-comment cN;" before parsing
func parseSheetKeepLegal(src string) []*prule {
	var sb strings.Builder
	for {
		i := strings.Index(src, "/*! c")
		if i < 0 {
			break
		}
		j := strings.Index(src[i:], "*/")
		sb.WriteString(src[:i])
		sb.WriteString("@keyframes legalcomment" + strings.TrimSpace(src[i+5:i+j]) + " {}\n")
		src = src[i+j+2:]
	}
	sb.WriteString(src)
	rs := parseSheet(sb.String())
	var conv func(l []*prule)
	conv = func(l []*prule) {
		for _, r := range l {
			if r.isAt && r.at == "keyframes" && strings.HasPrefix(toksText(r.prelude), "legalcomment") {
				r.at = "legal"
			}
			var kids []*prule
			for _, b := range r.body {
				if b.rule != nil {
					kids = append(kids, b.rule)
				}
			}
			conv(kids)
		}
	}
	conv(rs)
	return rs
}

// ---------------------------------------------------------------------------
// numbers

func numberCases(r *Rng, n int, cf *CoqFile, st *Stats) {
	grid := []string{"0", "0.0", ".0", "0.", "-.0", "+.0", "-0.0", "+0.50", "0.5", "00.5", "-0.5", "+0.5", "1.0", "1.50", "10", "10.0", "100", "1.5e10", "1.0e10", "1.50e2", "1e3", ".5e-1", "1.",
		"", "+", "-", ".", "1.2.0", "0.0.0", "001.100", "-00.10", "1.0E0", "5", "0.05", "1000", "0.001", "1500", "0.10", "123.4500", "-.50", "+1.0"}
	gen := func() string {
		if r.Chance(25) {
			return grid[r.Intn(len(grid))]
		}
		var sb strings.Builder
		if r.Chance(30) {
			sb.WriteByte("+-"[r.Intn(2)])
		}
		for k := r.Intn(4); k > 0; k-- {
			sb.WriteByte("0012345009"[r.Intn(10)])
		}
		if r.Chance(75) {
			sb.WriteByte('.')
			for k := r.Intn(5); k > 0; k-- {
				sb.WriteByte("0001203450"[r.Intn(10)])
			}
		}
		if r.Chance(12) {
			sb.WriteString([]string{"e1", "e10", "E+20", "e-3", "e0", "e100"}[r.Intn(6)])
		}
		if r.Chance(3) {
			sb.WriteString([]string{"x", ".", "-", " "}[r.Intn(4)])
		}
		return sb.String()
	}
	var items []string
	for i := 0; i < n; i++ {
		t := gen()
		out, changed := css_parser.VerifMangleNumber(t)
		items = append(items, fmt.Sprintf("(%s,%s,%s)", CBytes([]byte(t)), CBytes([]byte(out)), CBool(changed)))
		st.Note("mangleNumber", t, changed)
		// the property's own predicate: same exact value
		a, ok1 := ratOfNumber(t)
		b, ok2 := ratOfNumber(out)
		if ok1 && (!ok2 || a.Cmp(b) != 0) {
			failC12(st, "number-value-changed", map[string]interface{}{"number": t}, out, t)
		}
	}
	cf.AddCases("num_cases", "list Z * list Z * bool", "check_num", items)

	items = nil
	for i := 0; i < n; i++ {
		t := gen()
		off := []int{-3, 3, -3, 3, 0, 1, -1, 2, -5, 6}[r.Intn(10)]
		out, ok := css_parser.VerifShiftDot(t, off)
		items = append(items, fmt.Sprintf("(%s,%s,%s,%s)", CBytes([]byte(t)), CZi(off), CBool(ok), CBytes([]byte(out))))
		st.Note("shiftDot", fmt.Sprint(t, off), ok)
	}
	cf.AddCases("shift_cases", "list Z * Z * bool * list Z", "check_shift", items)

	items = nil
	for i := 0; i < n+3; i++ {
		t := gen()
		unit := []string{"ms", "s", "MS", "S", "Ms", "px", "s", "ms", "", "sec"}[r.Intn(10)]
		if i < 3 {
			// fixed corpus: the all-zero witnesses
			t, unit = []string{"000", "0000", "000.0"}[i], "ms"
		}
		v1, _ := css_parser.VerifMangleNumber(t)
		ov, ou := v1, unit
		if v2, u2, ok := css_parser.VerifMangleDimension(v1, unit); ok {
			ov, ou = v2, u2
		}
		items = append(items, fmt.Sprintf("(%s,%s,%s,%s)", CBytes([]byte(t)), CBytes([]byte(unit)), CBytes([]byte(ov)), CBytes([]byte(ou))))
		st.Note("mangleDimension", t+unit, ov != t || ou != unit)
		a, ok1 := ratOfNumber(t)
		b, ok2 := ratOfNumber(ov)
		if ok1 && (strings.EqualFold(unit, "ms") || strings.EqualFold(unit, "s")) {
			scale := func(x *bigRat, u string) *bigRat {
				if strings.EqualFold(u, "ms") {
					return new(bigRat).Quo(x, newRat(1000))
				}
				return x
			}
			if !ok2 || scale(a, unit).Cmp(scale(b, ou)) != 0 {
				in := map[string]interface{}{"value": t, "unit": unit}
				if ov == "" || ov == "+" || ov == "-" {
					in["scenario"] = "shift-dot-drops-all-digits"
				}
				failC12(st, "time-value-changed", in, ov+ou, t+unit)
			}
		}
	}
	cf.AddCases("dim_cases", "list Z * list Z * list Z * list Z", "check_dim", items)
}

// ---------------------------------------------------------------------------
// percentage reference ranges of lab()/lch()/oklab()/oklch()/color(): observed
// through the public API.  For a function and a component, "p%" stands for
// p/100 * ref; the ref esbuild uses is the candidate for which the percentage
// form and the number form minify to the same hex colour.

func pctRefCases(r *Rng, cf *CoqFile, st *Stats) {
	type cand struct {
		n, d int64
	}
	cands := []cand{{100, 1}, {125, 1}, {150, 1}, {2, 5}, {1, 1}}
	type fnSpec struct {
		id   int
		name string
		base [3]string // in-gamut base values
		pre  string    // e.g. "srgb " for color()
		comps []int
	}
	fns := []fnSpec{
		{1, "lab", [3]string{"50", "10", "10"}, "", []int{0, 1, 2}},
		{2, "lch", [3]string{"50", "20", "40"}, "", []int{0, 1}},
		{3, "oklab", [3]string{"0.5", "0.05", "0.05"}, "", []int{0, 1, 2}},
		{4, "oklch", [3]string{"0.5", "0.08", "40"}, "", []int{0, 1}},
		{5, "color", [3]string{"0.5", "0.4", "0.3"}, "srgb ", []int{0, 1, 2}},
	}
	minify := func(v string) (string, bool) {
		out, err := transformCSS("a{color:"+v+"}", true, true, nil)
		if err != nil || !strings.HasPrefix(out, "a{color:") {
			return "", false
		}
		return out[len("a{color:") : len(out)-1], true
	}
	var items []string
	for _, f := range fns {
		for _, comp := range f.comps {
			// pick a percentage for which the colour is inside sRGB (then minification prints a hex colour)
			ps := []int64{40, 50, 60, 45, 55}
			if comp != 0 {
				ps = []int64{10, 15, 20, 12, 8}
			}
			start := r.Intn(len(ps))
			var p int64
			var pctOut string
			found := false
			for k := 0; k < len(ps) && !found; k++ {
				p = ps[(start+k)%len(ps)]
				args := f.base
				args[comp] = fmt.Sprintf("%d%%", p)
				out, ok := minify(f.name + "(" + f.pre + strings.Join(args[:], " ") + ")")
				if ok && strings.HasPrefix(out, "#") {
					pctOut, found = out, true
				}
			}
			if !found {
				items = append(items, fmt.Sprintf("(%d,%d,0,1)", f.id, comp)) // shows up as a correspondence mismatch
				continue
			}
			var matches []cand
			for _, c := range cands {
				num := new(bigRat).SetFrac64(p*c.n, 100*c.d)
				args2 := f.base
				args2[comp] = num.FloatString(6)
				numOut, ok := minify(f.name + "(" + f.pre + strings.Join(args2[:], " ") + ")")
				if ok && numOut == pctOut {
					matches = append(matches, c)
				}
			}
			n, d := int64(0), int64(1)
			if len(matches) == 1 {
				n, d = matches[0].n, matches[0].d
			}
			items = append(items, fmt.Sprintf("(%d,%d,%d,%d)", f.id, comp, n, d))
			st.Note("pct-reference", fmt.Sprint(f.name, comp, p), true)
		}
	}
	cf.AddCases("pctref_cases", "Z * Z * Z * Z", "check_pctref", items)
}
