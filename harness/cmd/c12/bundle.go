package main

// Glue stream for @import graphs: api.Build with Bundle, compared by the cascade
// oracle with the sheet obtained by inlining every @import where it appears
// (conditions wrap the imported subtree, a file in its own import chain is
// skipped as browsers do).

import (
	"fmt"
	"os"
	"path/filepath"
	"strings"

	"github.com/evanw/esbuild/pkg/api"
	. "github.com/evanw/esbuild/verifharness/hlib"
)

type impFile struct {
	imports []impRef
	pre     string // "@layer a, b;" statements before the imports
	body    string
}

type impRef struct {
	target int
	layer  string // "", "layer", "layer(la)"
	supp   string // "", "(display: grid)"
	media  string
}

func (f *impFile) text(idx int) string {
	var sb strings.Builder
	sb.WriteString(f.pre)
	for _, im := range f.imports {
		fmt.Fprintf(&sb, "@import \"./f%d.css\"", im.target)
		if im.layer != "" {
			sb.WriteString(" " + im.layer)
		}
		if im.supp != "" {
			sb.WriteString(" supports(" + im.supp + ")")
		}
		if im.media != "" {
			sb.WriteString(" " + im.media)
		}
		sb.WriteString(";\n")
	}
	sb.WriteString(f.body)
	return sb.String()
}

var anonLayerCounter int

// inline file i; chain = files currently being imported (cycle bail)
func inlineImports(files []impFile, i int, chain []int) string {
	for _, c := range chain {
		if c == i {
			return ""
		}
	}
	chain = append(append([]int{}, chain...), i)
	f := files[i]
	var sb strings.Builder
	sb.WriteString(f.pre)
	for _, im := range f.imports {
		cyclic := false
		for _, c := range chain {
			if c == im.target {
				cyclic = true
			}
		}
		if cyclic {
			// "If we encounter a stylesheet in our parent chain with the same URL,
			// then just bail" (WebKit; the specification is silent): the import
			// contributes nothing, not even the layer its layer() would name
			continue
		}
		inner := inlineImports(files, im.target, chain)
		switch {
		case im.layer == "layer":
			inner = "@layer {\n" + inner + "}\n"
		case strings.HasPrefix(im.layer, "layer("):
			inner = "@layer " + im.layer[6:len(im.layer)-1] + " {\n" + inner + "}\n"
		}
		if im.supp != "" {
			inner = "@supports (" + im.supp + ") {\n" + inner + "}\n"
		}
		if im.media != "" {
			inner = "@media " + im.media + " {\n" + inner + "}\n"
		}
		sb.WriteString(inner)
	}
	sb.WriteString(f.body)
	return sb.String()
}

func genImportGraph(r *Rng, hist map[string]int) []impFile {
	n := r.Range(2, 5)
	files := make([]impFile, n)
	colors := []string{"red", "blue", "green", "tan", "gold", "navy", "teal"}
	sels := []string{"a", "b", ".c1", "div", "a.c1", "span"}
	shared := []string{"a { color: red }\n", "b { color: blue; order: 1 }\n", ".c1 { color: tan }\n"}
	for i := range files {
		f := &files[i]
		if r.Chance(25) {
			f.pre = "@layer " + r.Pick(layerNamesGen) + ", " + r.Pick(layerNamesGen) + ";\n"
			hist["imp-pre-layer"]++
		}
		ni := r.Intn(3)
		if i == 0 && ni == 0 {
			ni = 2
		}
		for k := 0; k < ni; k++ {
			t := r.Intn(n)
			if i == 0 && t == 0 {
				t = 1
			}
			if t <= i {
				hist["imp-back-edge"]++
			}
			im := impRef{target: t}
			if r.Chance(30) {
				im.layer = []string{"layer", "layer(la)", "layer(lb)", "layer(la.lb)"}[r.Intn(4)]
				hist["imp-layer"]++
			}
			if r.Chance(25) {
				im.supp = []string{"display: grid", "gap: 1px"}[r.Intn(2)]
				hist["imp-supports"]++
			}
			if r.Chance(30) {
				im.media = []string{"screen", "print", "(color)", "screen and (color)"}[r.Intn(4)]
				hist["imp-media"]++
			}
			f.imports = append(f.imports, im)
			if r.Chance(35) {
				// the same file again with related conditions (a different file may sit in between)
				hist["imp-related-double"]++
				if r.Chance(50) {
					f.imports = append(f.imports, impRef{target: r.Intn(n)})
				}
				im2 := im
				switch r.Intn(6) {
				case 0:
					im2.supp = ""
				case 1:
					im2.media = ""
				case 2:
					im2.supp = []string{"display: grid", "gap: 1px"}[r.Intn(2)]
				case 3:
					im2.media = []string{"screen", "print"}[r.Intn(2)]
				case 4:
					im2.layer = ""
				}
				f.imports = append(f.imports, im2)
			}
		}
		var sb strings.Builder
		for k := r.Range(1, 4); k > 0; k-- {
			switch r.Intn(8) {
			case 0, 1:
				sb.WriteString(shared[r.Intn(len(shared))])
			case 2, 5:
				sb.WriteString("@layer " + r.Pick(layerNamesGen) + " { " + []string{"a", "b", ".c1"}[r.Intn(3)] + " { color: " + r.Pick(colors) + " } }\n")
			case 3:
				sb.WriteString("@media " + []string{"screen", "print", "(color)"}[r.Intn(3)] + " { " + r.Pick(sels) + " { color: " + r.Pick(colors) + " } }\n")
			case 4:
				sb.WriteString("@layer " + r.Pick(layerNamesGen) + ";\n")
			default:
				imp := ""
				if r.Chance(15) {
					imp = " !important"
				}
				sb.WriteString(r.Pick(sels) + " { color: " + r.Pick(colors) + imp + "; order: " + fmt.Sprint(r.Intn(3)) + " }\n")
			}
		}
		f.body = sb.String()
	}
	// clone files: identical content in several files (cross-file duplicate removal)
	for i := 1; i < n; i++ {
		if r.Chance(35) {
			j := r.Intn(n)
			if j != i && j != 0 {
				files[i].body = files[j].body
				files[i].pre = ""
				files[i].imports = nil
				files[j].imports = nil
				hist["imp-clone-file"]++
			}
		}
	}
	// layer sandwich in the entry: X layer(L1), Y layer(L2), X-or-clone layer(L1) (also anonymous / conditional)
	if n >= 3 && r.Chance(45) {
		hist["imp-layer-sandwich"]++
		l1 := []string{"layer(la)", "layer(lb)", "layer(la.lb)", "layer"}[r.Intn(4)]
		l2 := []string{"layer(lb)", "layer(lc)", "layer(la)", "layer", ""}[r.Intn(5)]
		a, b, c := r.Range(1, n-1), r.Range(1, n-1), r.Range(1, n-1)
		// the sandwiched files disagree about one element
		sel := []string{"a", "b", ".c1", "div", "span"}[r.Intn(5)]
		if a != b {
			files[a].body = sel + " { color: red }\n" + files[a].body
			files[b].body = sel + " { color: green }\n" + files[b].body
		}
		if r.Chance(60) && c != b {
			files[c].body = files[a].body
			files[c].pre, files[c].imports, files[a].imports = "", nil, nil
		}
		cond := func(im impRef) impRef {
			if r.Chance(25) {
				im.supp = "display: grid"
			}
			if r.Chance(25) {
				im.media = []string{"screen", "print"}[r.Intn(2)]
			}
			return im
		}
		files[0].imports = []impRef{cond(impRef{target: a, layer: l1}), cond(impRef{target: b, layer: l2}), cond(impRef{target: c, layer: l1})}
		// break cycles through the entry
		for i := 1; i < n; i++ {
			var keep []impRef
			for _, im := range files[i].imports {
				if im.target != 0 {
					keep = append(keep, im)
				}
			}
			files[i].imports = keep
		}
	}
	return files
}

func glueBundle(r *Rng, n int, st *Stats) {
	hist := map[string]int{}
	for i := 0; i < n; i++ {
		files := genImportGraph(r, hist)
		if i == 2 {
			// fixed corpus: the known finding C12-O (layered import treated as redundant)
			files = []impFile{
				{pre: "@layer lc, la;\n", imports: []impRef{{target: 1, layer: "layer(la)"}, {target: 1}}, body: "@layer lc { a { color: gold } }\n"},
				{body: "@layer lc { a { color: blue } }\n"},
			}
		}
		if i == 1 {
			// fixed corpus (must pass): cross-file duplicate removal must keep the first "@layer a{}" wrapper
			files = []impFile{
				{imports: []impRef{{target: 1, layer: "layer(la)"}, {target: 2, layer: "layer(lb)"}, {target: 3, layer: "layer(la)"}}},
				{body: "a { color: red }\n"}, {body: "a { color: green }\n"}, {body: "a { color: red }\n"},
			}
		}
		if i == 0 {
			// fixed corpus: the known finding C12-H (anonymous layer import split per file)
			files = []impFile{
				{imports: []impRef{{target: 1, layer: "layer"}}},
				{imports: []impRef{{target: 2}}, body: "@layer lc { a { color: teal } }\n"},
				{body: "a { color: tan }\n"},
			}
		}
		dir, err := os.MkdirTemp("", "verif-c12-")
		if err != nil {
			panic(err)
		}
		desc := map[string]interface{}{}
		fm := map[string]string{}
		for k := range files {
			name := fmt.Sprintf("f%d.css", k)
			fm[name] = files[k].text(k)
			if err := os.WriteFile(filepath.Join(dir, name), []byte(fm[name]), 0o644); err != nil {
				panic(err)
			}
		}
		minify := r.Chance(60) || i == 1
		build := func() (string, error) {
			res := api.Build(api.BuildOptions{
				AbsWorkingDir: dir,
				EntryPoints:   []string{"f0.css"},
				Bundle:        true,
				Outdir:        filepath.Join(dir, "out"),
				Write:         false,
				MinifySyntax:  minify,
				LogLevel:      api.LogLevelSilent,
			})
			if len(res.Errors) > 0 {
				return "", fmt.Errorf("%s", res.Errors[0].Text)
			}
			for _, f := range res.OutputFiles {
				if strings.HasSuffix(f.Path, ".css") {
					return string(f.Contents), nil
				}
			}
			return "", fmt.Errorf("no css output")
		}
		out, err := build()
		st.Histogram["glue-bundle"]++
		if err != nil {
			st.Histogram["glue-bundle-error"]++
			os.RemoveAll(dir)
			continue
		}
		desc["files"] = fm
		desc["options"] = fmt.Sprintf("bundle minify-syntax=%v", minify)
		desc["output"] = out
		inlined := inlineImports(files, 0, nil)
		desc["inlined"] = inlined
		inItems := flattenSheet(parseSheet(inlined))
		outItems := flattenSheet(parseSheet(out))
		d := genDOM(r)
		if i < 3 {
			d = boxDOM()
		}
		what, detail := compareCascade(d, inItems, outItems, nil, r, st)
		if what != "" {
			out2, err2 := build()
			if err2 == nil && out2 == out {
				for k, v := range detail {
					desc[k] = v
				}
				// known finding: "@import x layer;" (anonymous) whose target has imports of
				// its own is emitted as one separate anonymous @layer block per file
				for _, f := range files {
					for _, im := range f.imports {
						if im.layer == "layer" && len(files[im.target].imports) > 0 {
							desc["scenario"] = "anonymous-layer-import-split-per-file"
						}
					}
				}
				// known finding C12-O: an earlier import under layer(...) is treated as redundant to a
				// later copy without that layer although the file's own @layer rules then live in other layers
				if _, tagged := desc["scenario"]; !tagged {
					count := map[int]int{}
					layered := map[int]bool{}
					for _, f := range files {
						for _, im := range f.imports {
							count[im.target]++
							if im.layer != "" {
								layered[im.target] = true
							}
						}
					}
					for t, c := range count {
						if c >= 2 && layered[t] && strings.Contains(inlineImports(files, t, nil), "@layer") {
							desc["scenario"] = "layered-import-treated-as-redundant"
						}
					}
				}
				failC12(st, "bundle-cascade-winner-changed", desc, detail["output_winner"], detail["input_winner"])
			}
		}
		st.Note("glue-bundle-cascade", inlined, len(inItems) > 2)
		if i < 2 {
			st.Sample(map[string]interface{}{"bundle_files": fm, "bundle_out": out})
		}
		os.RemoveAll(dir)
	}
	for k, v := range hist {
		st.Histogram["gen:"+k] += v
	}
}
