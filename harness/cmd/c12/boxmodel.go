package main

// Correspondence for BoxTracker.v: random declaration lists of one box family
// through api.Transform (minify-syntax; inset with and without the inset
// property), the printed declarations re-read by the independent parser.

import (
	"fmt"
	"strings"

	"github.com/evanw/esbuild/pkg/api"
	. "github.com/evanw/esbuild/verifharness/hlib"
)

type mTok struct {
	coq  string
	text string
}

var boxToks = []mTok{
	{"TNum 0", "0"}, {"TNum 1", "1"}, {"TNum 2", "2"},
	{"TPct 0", "0%"}, {"TPct 1", "10%"}, {"TPct 2", "5%"},
	{"TDim 0 7", "0px"}, {"TDim 1 7", "1px"}, {"TDim 2 7", "2px"}, {"TDim 3 7", "3px"},
	{"TDim 0 2", "0em"}, {"TDim 1 2", "1em"}, {"TDim 1 8", "1PX"}, {"TDim 0 8", "0PX"},
	{"TDim 0 20", "0vw"}, {"TDim 1 20", "1vw"}, {"TDim 2 20", "2vw"}, {"TDim 1 21", "1vh"}, {"TDim 3 22", "3Q"},
	{"TAuto true", "auto"}, {"TAuto false", "AUTO"},
	{"TOther 1", "var(--v)"}, {"TOther 2", "inherit"}, {"TOther 3", "calc(1px + 2vw)"},
}

type mBDecl struct {
	key  string // "short", "0".."3", "o1", "o2"
	toks []int
	imp  bool
}

type boxFam struct {
	name       string
	short      string
	sides      [4]string
	aa, cc, lo bool
	supported  map[string]bool
}

var boxFams = []boxFam{
	{"margin", "margin", [4]string{"margin-top", "margin-right", "margin-bottom", "margin-left"}, true, true, false, nil},
	{"padding", "padding", [4]string{"padding-top", "padding-right", "padding-bottom", "padding-left"}, false, true, false, nil},
	{"inset", "inset", [4]string{"top", "right", "bottom", "left"}, true, true, false, nil},
	{"inset-lowered", "inset", [4]string{"top", "right", "bottom", "left"}, true, false, true, map[string]bool{"inset-property": false}},
}

func (d mBDecl) coq() string {
	key := "KShort"
	switch {
	case d.key == "short":
	case strings.HasPrefix(d.key, "o"):
		key = "KOther " + d.key[1:]
	default:
		key = "KSide " + d.key
	}
	var ts []string
	for _, t := range d.toks {
		ts = append(ts, boxToks[t].coq)
	}
	return fmt.Sprintf("mkB (%s) [%s] %s", key, strings.Join(ts, ";"), CBool(d.imp))
}

func (d mBDecl) css(f boxFam) string {
	var name, val string
	switch {
	case d.key == "short":
		name = f.short
	case d.key == "o1":
		name, val = "color", "red"
	case d.key == "o2":
		name, val = "order", "1"
	default:
		name = f.sides[d.key[0]-'0']
	}
	if val == "" {
		var ts []string
		for _, t := range d.toks {
			ts = append(ts, boxToks[t].text)
		}
		val = strings.Join(ts, " ")
	}
	if d.imp {
		val += " !important"
	}
	return name + ":" + val
}

func cvText(c cv) string {
	if c.t.kind == tFunction {
		var sb strings.Builder
		sb.WriteString(c.t.text + "(")
		for _, k := range c.kids {
			sb.WriteString(cvText(k))
		}
		sb.WriteString(")")
		return sb.String()
	}
	return tokText(c.t)
}

func boxDeclOfOutput(f boxFam, d *pdecl) (mBDecl, bool) {
	out := mBDecl{imp: d.important}
	switch d.name {
	case "color":
		out.key = "o1"
		return out, true
	case "order":
		out.key = "o2"
		return out, true
	case f.short:
		out.key = "short"
	default:
		found := false
		for i, s := range f.sides {
			if s == d.name {
				out.key = fmt.Sprint(i)
				found = true
			}
		}
		if !found {
			return out, false
		}
	}
	for _, c := range noWS(d.value) {
		txt := cvText(c)
		idx := -1
		for i, t := range boxToks {
			if strings.Join(strings.Fields(t.text), "") == strings.Join(strings.Fields(txt), "") {
				idx = i
			}
		}
		if idx < 0 {
			return out, false
		}
		out.toks = append(out.toks, idx)
	}
	return out, true
}

func boxModelCases(r *Rng, n int, cf *CoqFile, st *Stats) {
	var items []string
	safeToks := []int{0, 3, 6, 7, 8, 9, 10, 11, 4}
	pick := func() int {
		if r.Chance(65) {
			return safeToks[r.Intn(len(safeToks))]
		}
		return r.Intn(len(boxToks))
	}
	for i := 0; i < n; i++ {
		f := boxFams[r.Intn(len(boxFams))]
		var decls []mBDecl
		for k := r.Range(1, 7); k > 0; k-- {
			d := mBDecl{imp: r.Chance(15)}
			switch x := r.Intn(10); {
			case x < 3:
				d.key = "short"
				for j := r.Range(1, 4); j > 0; j-- {
					d.toks = append(d.toks, pick())
				}
				if r.Chance(4) {
					d.toks = append(d.toks, pick()) // five values: not a quad
				}
			case x < 9:
				d.key = fmt.Sprint(r.Intn(4))
				d.toks = []int{pick()}
				if r.Chance(5) {
					d.toks = append(d.toks, pick())
				}
			default:
				d.key = []string{"o1", "o2"}[r.Intn(2)]
			}
			decls = append(decls, d)
		}
		var parts, coqIn []string
		for _, d := range decls {
			parts = append(parts, d.css(f))
			coqIn = append(coqIn, d.coq())
		}
		src := "a{" + strings.Join(parts, ";") + "}"
		res := api.Transform(src, api.TransformOptions{Loader: api.LoaderCSS, MinifySyntax: true, MinifyWhitespace: true, Supported: f.supported, LogLevel: api.LogLevelSilent})
		if len(res.Errors) > 0 {
			failC12(st, "box-transform-error", src, res.Errors[0].Text, "no error")
			continue
		}
		out := strings.TrimSpace(string(res.Code))
		var coqOut []string
		ok := true
		rs := parseSheet(out)
		if len(rs) > 1 {
			ok = false
		}
		for _, rule := range rs {
			for _, b := range rule.body {
				if b.decl == nil {
					ok = false
					continue
				}
				d, good := boxDeclOfOutput(f, b.decl)
				if !good {
					ok = false
				}
				coqOut = append(coqOut, d.coq())
			}
		}
		if !ok {
			coqOut = []string{"mkB (KOther 99) [] false"}
		}
		items = append(items, fmt.Sprintf("(%s,%s,%s,[%s],\n  [%s])", CBool(f.aa), CBool(f.cc), CBool(f.lo), strings.Join(coqIn, ";"), strings.Join(coqOut, ";")))
		st.Note("box-model:"+f.name, src, out != src)
		if i < 2 {
			st.Sample(map[string]interface{}{"box_in": src, "box_out": out})
		}
	}
	cf.AddCases("box_cases", "bool * bool * bool * list bdecl * list bdecl", "check_box", items)
}

// ---------------------------------------------------------------------------
// border-radius tracker correspondence (RadiusTracker.v)

var radiusFam = boxFam{"border-radius", "border-radius", [4]string{"border-top-left-radius", "border-top-right-radius", "border-bottom-right-radius", "border-bottom-left-radius"}, false, true, false, nil}

const slashTok = -1 // pseudo index: the "/" of border-radius (TOther 0)

func (d mBDecl) coqR() string {
	key := "KShort"
	switch {
	case d.key == "short":
	case strings.HasPrefix(d.key, "o"):
		key = "KOther " + d.key[1:]
	default:
		key = "KSide " + d.key
	}
	var ts []string
	for _, t := range d.toks {
		if t == slashTok {
			ts = append(ts, "TOther 0")
		} else {
			ts = append(ts, boxToks[t].coq)
		}
	}
	return fmt.Sprintf("mkB (%s) [%s] %s", key, strings.Join(ts, ";"), CBool(d.imp))
}

func (d mBDecl) cssR() string {
	if strings.HasPrefix(d.key, "o") {
		return d.css(radiusFam)
	}
	name := radiusFam.short
	if d.key != "short" {
		name = radiusFam.sides[d.key[0]-'0']
	}
	var ts []string
	for _, t := range d.toks {
		if t == slashTok {
			ts = append(ts, "/")
		} else {
			ts = append(ts, boxToks[t].text)
		}
	}
	val := strings.Join(ts, " ")
	if d.imp {
		val += " !important"
	}
	return name + ":" + val
}

func radiusModelCases(r *Rng, n int, cf *CoqFile, st *Stats) {
	var items []string
	// numeric tokens only (no auto for radii), mostly safe
	safeToks := []int{0, 3, 6, 7, 8, 9, 10, 11, 4}
	allToks := []int{0, 1, 3, 4, 6, 7, 8, 9, 10, 11, 12, 14, 15, 16, 17, 18, 21, 23}
	pick := func() int {
		if r.Chance(70) {
			return safeToks[r.Intn(len(safeToks))]
		}
		return allToks[r.Intn(len(allToks))]
	}
	for i := 0; i < n; i++ {
		var decls []mBDecl
		for k := r.Range(1, 7); k > 0; k-- {
			d := mBDecl{imp: r.Chance(12)}
			switch x := r.Intn(10); {
			case x < 3:
				d.key = "short"
				for j := r.Range(1, 4); j > 0; j-- {
					d.toks = append(d.toks, pick())
				}
				if r.Chance(35) {
					d.toks = append(d.toks, slashTok)
					for j := r.Range(1, 4); j > 0; j-- {
						d.toks = append(d.toks, pick())
					}
					if r.Chance(5) {
						d.toks = append(d.toks, slashTok, pick())
					}
				}
			case x < 9:
				d.key = fmt.Sprint(r.Intn(4))
				d.toks = []int{pick()}
				if r.Chance(35) {
					d.toks = append(d.toks, pick())
				}
				if r.Chance(20) && len(d.toks) == 2 {
					d.toks[1] = d.toks[0]
				}
			default:
				d.key = []string{"o1", "o2"}[r.Intn(2)]
			}
			decls = append(decls, d)
		}
		var parts, coqIn []string
		for _, d := range decls {
			parts = append(parts, d.cssR())
			coqIn = append(coqIn, d.coqR())
		}
		src := "a{" + strings.Join(parts, ";") + "}"
		res := api.Transform(src, api.TransformOptions{Loader: api.LoaderCSS, MinifySyntax: true, MinifyWhitespace: true, LogLevel: api.LogLevelSilent})
		if len(res.Errors) > 0 {
			failC12(st, "radius-transform-error", src, res.Errors[0].Text, "no error")
			continue
		}
		out := strings.TrimSpace(string(res.Code))
		var coqOut []string
		ok := true
		rs := parseSheet(out)
		if len(rs) > 1 {
			ok = false
		}
		for _, rule := range rs {
			for _, b := range rule.body {
				if b.decl == nil {
					ok = false
					continue
				}
				// re-read with "/" as its own token
				d := mBDecl{imp: b.decl.important}
				switch b.decl.name {
				case "color":
					d.key = "o1"
				case "order":
					d.key = "o2"
				case "border-radius":
					d.key = "short"
				default:
					found := false
					for k, s := range radiusFam.sides {
						if s == b.decl.name {
							d.key = fmt.Sprint(k)
							found = true
						}
					}
					if !found {
						ok = false
					}
				}
				if !strings.HasPrefix(d.key, "o") {
					for _, c := range noWS(b.decl.value) {
						if c.t.kind == tDelim && c.t.text == "/" {
							d.toks = append(d.toks, slashTok)
							continue
						}
						txt := cvText(c)
						idx := -1
						for k, t := range boxToks {
							if strings.Join(strings.Fields(t.text), "") == strings.Join(strings.Fields(txt), "") {
								idx = k
							}
						}
						if idx < 0 {
							ok = false
							idx = 0
						}
						d.toks = append(d.toks, idx)
					}
				}
				coqOut = append(coqOut, d.coqR())
			}
		}
		if !ok {
			coqOut = []string{"mkB (KOther 99) [] false"}
		}
		items = append(items, fmt.Sprintf("([%s],\n  [%s])", strings.Join(coqIn, ";"), strings.Join(coqOut, ";")))
		st.Note("radius-model", src, out != src)
	}
	cf.AddCases("radius_cases", "list bdecl * list bdecl", "check_radius", items)
}
