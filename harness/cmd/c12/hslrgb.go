package main

// hslrgb_cases: the CSS Color 4 hsl()/hwb() -> sRGB conversion (coq/C12/HslSpec.v,
// exact rationals) against the colour esbuild prints for the same value through
// api.Transform with minify-syntax: hues over many turns, negative, in number /
// deg / grad / turn form; percentages at and beyond the 0%..100% boundaries.

import (
	"fmt"
	"math"
	"strings"

	. "github.com/evanw/esbuild/verifharness/hlib"
)

// a hue: the text and its exact value as unit (0 deg/number, 1 grad, 2 turn), num/den
func genHue(r *Rng) (text string, unit int, num, den int64) {
	special := []int64{0, 360, 720, -360, 600, -240, 599, -241, 1080, -720, 359, 361, 1000, -1000, 240, 120}
	switch r.Intn(6) {
	case 0: // plain number of degrees
		num = int64(r.Intn(4001)) - 2000
		if r.Chance(40) {
			num = special[r.Intn(len(special))]
		}
		return fmt.Sprint(num), 0, num, 1
	case 1:
		num = int64(r.Intn(4001)) - 2000
		if r.Chance(40) {
			num = special[r.Intn(len(special))]
		}
		return fmt.Sprintf("%ddeg", num), 0, num, 1
	case 2: // half degrees
		num = int64(r.Intn(4001)) - 2000
		return fmt.Sprintf("%d.5deg", num/2), 0, signedHalf(num / 2), 2
	case 3:
		num = int64(r.Intn(4401)) - 2200
		if r.Chance(30) {
			num = []int64{400, 800, 1000, -400, -1000, 667, -267}[r.Intn(7)]
		}
		return fmt.Sprintf("%dgrad", num), 1, num, 1
	case 4: // quarter turns
		q := int64(r.Intn(41)) - 20
		return fmt.Sprintf("%sturn", quarter(q)), 2, q, 4
	}
	t := int64(r.Intn(13)) - 6
	return fmt.Sprintf("%dturn", t), 2, t, 1
}

// "N.5" for N >= 0 is N + 1/2; for the text "-N.5" it is -(N + 1/2)
func signedHalf(n int64) int64 {
	if n < 0 {
		return 2*n - 1
	}
	return 2*n + 1
}

func quarter(q int64) string {
	s := ""
	if q < 0 {
		s = "-"
		q = -q
	}
	return fmt.Sprintf("%s%d%s", s, q/4, []string{"", ".25", ".5", ".75"}[q%4])
}

func genPct(r *Rng) int64 {
	switch r.Intn(8) {
	case 0:
		return 0
	case 1:
		return 100
	case 2:
		return []int64{-10, -1, 101, 150, 200}[r.Intn(5)]
	}
	return int64(r.Intn(101))
}

func hslRgbCases(r *Rng, n int, cf *CoqFile, st *Stats) {
	var items []string
	for i := 0; i < n; i++ {
		ht, unit, num, den := genHue(r)
		p1, p2 := genPct(r), genPct(r)
		fn := r.Intn(2)
		var v string
		switch {
		case fn == 0 && r.Chance(50) && !strings.HasSuffix(ht, "grad") && !strings.HasSuffix(ht, "turn"):
			v = fmt.Sprintf("hsl(%s, %d%%, %d%%)", ht, p1, p2)
		case fn == 0:
			v = fmt.Sprintf("hsl(%s %d%% %d%%)", ht, p1, p2)
		default:
			v = fmt.Sprintf("hwb(%s %d%% %d%%)", ht, p1, p2)
		}
		out, err := transformCSS("a{color:"+v+"}", true, true, nil)
		if err != nil || !strings.HasPrefix(out, "a{color:") {
			failC12(st, "hslrgb-not-converted", v, out, "a{color:<colour>}")
			continue
		}
		c, ok := colorValue(out[len("a{color:") : len(out)-1])
		if !ok || c.any {
			failC12(st, "hslrgb-not-converted", v, out, "an sRGB colour")
			continue
		}
		items = append(items, fmt.Sprintf("(%d, %d, %d, %d, %d, %d, (%d, %d, %d))", fn, unit, num, den, p1, p2,
			int64(math.Round(c.r)), int64(math.Round(c.g)), int64(math.Round(c.b))))
		far := false
		switch unit {
		case 0:
			far = num >= 600*den || num < -240*den
		case 1:
			far = num*9 >= 6000 || num*9 < -2400
		case 2:
			far = num*360 >= 600*den || num*360 < -240*den
		}
		if far {
			st.Histogram["hslrgb-hue-beyond-one-turn"]++
		}
		st.Note("hslrgb", v, far)
	}
	cf.AddCases("hslrgb_cases", "Z * Z * Z * Z * Z * Z * (Z * Z * Z)", "check_hslrgb", items)
}
