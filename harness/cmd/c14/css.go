package main

// CSS side of C14 (the property itself speaks of the emitted JavaScript; the CSS
// feature table and lowering gates are modelled in coq/C14/Css.v and tied here by
// correspondence; what the detector and the re-transform oracle see is evidence).

import (
	"fmt"
	"regexp"
	"sort"
	"strings"

	"github.com/evanw/esbuild/internal/compat"
	"github.com/evanw/esbuild/pkg/api"
	. "github.com/evanw/esbuild/verifharness/hlib"
)

var cssFeatByName = map[string]compat.CSSFeature{}
var cssKeyByName = map[string]string{}
var cssNames []string

func cssCamel(k string) string {
	if k == "modern-rgb-hsl" {
		return "Modern_RGB_HSL"
	}
	if k == "hwb" {
		return "HWB"
	}
	if k == "hex-rgba" {
		return "HexRGBA"
	}
	return camel(k)
}

func init() {
	for k, f := range compat.StringToCSSFeature {
		n := cssCamel(k)
		cssFeatByName[n] = f
		cssKeyByName[n] = k
		cssNames = append(cssNames, n)
	}
	sort.Strings(cssNames)
}

func coqCssList(names []string) string {
	xs := make([]string, len(names))
	for i, n := range names {
		xs[i] = "C" + n
	}
	return "[" + strings.Join(xs, ";") + "]"
}

type cssProbe struct {
	name     string
	features []string
	src      string
}

var cssProbes = []cssProbe{
	{"hex-rgba", []string{"HexRGBA"}, "a { color: #11223380; background: #abcd }"},
	{"rebeccapurple", []string{"RebeccaPurple"}, "a { color: rebeccapurple; border-color: RebeccaPurple }"},
	{"modern-rgb", []string{"Modern_RGB_HSL"}, "a { color: rgb(1 2 3 / 50%); background: hsl(120deg 50% 50%); outline-color: rgba(10 20 30 / .25) }"},
	{"hwb", []string{"HWB"}, "a { color: hwb(120 10% 20%); background: hwb(200deg 20% 30% / 50%) }"},
	{"color-functions", []string{"ColorFunctions"}, "a { color: lab(50% 10 10); background: color(srgb 0.1 0.2 0.3 / 0.5); border-color: oklch(60% 0.05 120); outline-color: lch(50% 20 80 / 40%) }"},
	{"inset", []string{"InsetProperty"}, "a { position: absolute; inset: 1px 2px } b { inset: 0 }"},
	{"nesting-single", []string{"Nesting"}, "a { color: red; & b { color: blue } .c & { color: green } > d { margin: 0 } &:hover { color: tan } }"},
	{"nesting-multi", []string{"Nesting", "IsPseudoClass"}, "a, b { & c { color: red } .x & { color: blue } & + & { color: green } }"},
	{"nesting-media", []string{"Nesting"}, "a { @media (min-width: 1px) { color: red; b & { color: blue } } }"},
	{"is-pseudo", []string{"IsPseudoClass"}, ":is(a, b) c { color: red } d:is(.e) { color: blue }"},
	{"media-range", []string{"MediaRange"}, "@media (width >= 600px) and (400px <= height <= 800px) { a { color: red } }"},
	{"gradient-double", []string{"GradientDoublePosition"}, "a { background: linear-gradient(red 10% 20%, blue 30% 40%) }"},
	{"gradient-midpoint", []string{"GradientMidpoints"}, "a { background: linear-gradient(red, 30%, blue) }"},
	{"gradient-interp", []string{"GradientInterpolation"}, "a { background: linear-gradient(in oklch, red, blue); border-image: radial-gradient(in hsl longer hue, red, blue) }"},
	{"colors-in-gradient", []string{"ColorFunctions", "GradientInterpolation", "HWB", "Modern_RGB_HSL", "HexRGBA"}, "a { background: linear-gradient(in srgb, hwb(10 20% 30% / 50%), lab(50% 10 10), rgb(1 2 3 / 25%), #0008) }"},
	{"mixed", []string{"Nesting", "InsetProperty", "HexRGBA", "RebeccaPurple", "IsPseudoClass", "MediaRange"}, "@media (width < 500px) { a, b { inset: 0; color: rebeccapurple; & :is(c, d) { color: #12345678 } } }"},
}

var cssDetectors = []struct {
	feature string
	re      *regexp.Regexp
}{
	{"HexRGBA", regexp.MustCompile(`(?i):[^;{}]*#(?:[0-9a-f]{4}|[0-9a-f]{8})\b`)},
	{"RebeccaPurple", regexp.MustCompile(`(?i)\brebeccapurple\b`)},
	{"Modern_RGB_HSL", regexp.MustCompile(`(?i)\b(?:rgb|hsl)a?\(\s*[^,()]+\s+[^,()]+\s+[^,()]+\)`)},
	{"HWB", regexp.MustCompile(`(?i)\bhwb\(`)},
	{"ColorFunctions", regexp.MustCompile(`(?i)\b(?:color|lab|lch|oklab|oklch)\(`)},
	{"InsetProperty", regexp.MustCompile(`(?i)(?:^|[;{\s])inset\s*:`)},
	{"IsPseudoClass", regexp.MustCompile(`(?i):is\(`)},
	{"MediaRange", regexp.MustCompile(`(?i)@media[^{]*[<>]`)},
	{"GradientInterpolation", regexp.MustCompile(`(?i)gradient\(\s*in\s`)},
}

func detectCSS(text string) []string {
	var out []string
	for _, d := range cssDetectors {
		if d.re.MatchString(text) {
			out = append(out, d.feature)
		}
	}
	// nesting: "&", or a "{" opened inside a style rule (prelude not starting with "@")
	nest := strings.Contains(text, "&")
	var stack []bool // is the open block a style rule?
	prelude := ""
	for i := 0; i < len(text); i++ {
		switch text[i] {
		case '{':
			p := strings.TrimSpace(prelude)
			isStyle := !strings.HasPrefix(p, "@")
			if isStyle {
				for _, s := range stack {
					if s {
						nest = true
					}
				}
			}
			stack = append(stack, isStyle)
			prelude = ""
		case '}':
			if len(stack) > 0 {
				stack = stack[:len(stack)-1]
			}
			prelude = ""
		case ';':
			prelude = ""
		default:
			prelude += string(text[i])
		}
	}
	if nest {
		out = append(out, "Nesting")
	}
	sort.Strings(out)
	return out
}

type cssCfg struct {
	Engines   []string        `json:"engines,omitempty"`
	Supported map[string]bool `json:"supported,omitempty"`
	Minify    bool            `json:"minify,omitempty"`
	engines   []api.Engine
}

func (c *cssCfg) unsupported() compat.CSSFeature {
	cons := map[compat.Engine]compat.Semver{}
	for _, e := range c.engines {
		var parts []int
		for _, p := range strings.Split(e.Version, ".") {
			var v int
			fmt.Sscan(p, &v)
			parts = append(parts, v)
		}
		for k, en := range engineNames {
			if en == e.Name {
				cons[engineCompat[k]] = compat.Semver{Parts: parts}
			}
		}
	}
	u := compat.UnsupportedCSSFeatures(cons)
	var ov, mask compat.CSSFeature
	for k, v := range c.Supported {
		bit := compat.StringToCSSFeature[k]
		mask |= bit
		if !v {
			ov |= bit
		}
	}
	return u.ApplyOverrides(ov, mask)
}

func runCSS(src string, c *cssCfg) result {
	r := api.Transform(src, api.TransformOptions{Loader: api.LoaderCSS, Engines: c.engines, Supported: c.Supported,
		MinifySyntax: c.Minify, MinifyWhitespace: c.Minify, LogLevel: api.LogLevelSilent})
	return result{ok: len(r.Errors) == 0, code: string(r.Code), errors: r.Errors, warnings: r.Warnings}
}

func cssSide(r *Rng, st *Stats, cf *CoqFile, n int) {
	// 1. compat.UnsupportedCSSFeatures against the model
	var items []string
	allEng := append([]compat.Engine{compat.ES}, engineCompat...)
	for i := 0; i < n+20; i++ {
		k := 1 + r.Intn(3)
		cs := map[compat.Engine]compat.Semver{}
		var keys []compat.Engine
		for j := 0; j < k; j++ {
			e := allEng[r.Intn(len(allEng))]
			if _, ok := cs[e]; ok {
				continue
			}
			cs[e] = randSemver(r, e)
			keys = append(keys, e)
		}
		u := compat.UnsupportedCSSFeatures(cs)
		items = append(items, fmt.Sprintf("(%s, %d)", coqConstraints(keys, cs), uint64(u)))
		st.Note("css-unsupported", coqConstraints(keys, cs), u != 0)
	}
	cf.AddCases("css_uns_cases", "list constraint * Z", "check_css_unsupported", items)

	// 2. probes x browser versions / single overrides: observed features against the model
	var lower []string
	versions := map[api.EngineName][]string{
		api.EngineChrome:  {"49", "62", "72", "87", "88", "98", "104", "110", "111", "119", "120"},
		api.EngineSafari:  {"9", "10", "12.1", "13.1", "14", "14.1", "15", "15.4", "16.2", "16.4", "17.2"},
		api.EngineFirefox: {"36", "48", "70", "78", "96", "112", "113", "117", "137"},
		api.EngineEdge:    {"12", "79", "88", "111", "120"},
		api.EngineIOS:     {"9", "12.2", "14", "15.4", "17.2"},
		api.EngineOpera:   {"36", "60", "75", "97", "106"},
	}
	var cfgs []*cssCfg
	cfgs = append(cfgs, &cssCfg{})
	for _, e := range []api.EngineName{api.EngineChrome, api.EngineSafari, api.EngineFirefox, api.EngineEdge, api.EngineIOS, api.EngineOpera} {
		for _, v := range versions[e] {
			cfgs = append(cfgs, &cssCfg{Engines: []string{engineLabels[e] + v}, engines: []api.Engine{{Name: e, Version: v}}})
		}
	}
	for _, nme := range cssNames {
		cfgs = append(cfgs, &cssCfg{Supported: map[string]bool{cssKeyByName[nme]: false}})
	}
	for i := 0; i < n/2; i++ {
		c := &cssCfg{Minify: r.Chance(40)}
		e := []api.EngineName{api.EngineChrome, api.EngineSafari, api.EngineFirefox}[r.Intn(3)]
		v := versions[e][r.Intn(len(versions[e]))]
		c.Engines, c.engines = []string{engineLabels[e] + v}, []api.Engine{{Name: e, Version: v}}
		if r.Chance(50) {
			c.Supported = map[string]bool{cssKeyByName[cssNames[r.Intn(len(cssNames))]]: r.Bool()}
		}
		cfgs = append(cfgs, c)
	}
	for _, c := range cfgs {
		u := c.unsupported()
		var ul []string
		for _, nme := range cssNames {
			if u.Has(cssFeatByName[nme]) && nme != "InlineStyle" {
				ul = append(ul, nme)
			}
		}
		for _, p := range cssProbes {
			res := runCSS(p.src, c)
			st.Note("css-probe", p.name+jsonStr(c), len(ul) > 0)
			if !res.ok {
				st.Histogram["css-probe:rejected"]++
				continue
			}
			det := detectCSS(res.code)
			for _, f := range det {
				if u.Has(cssFeatByName[f]) {
					st.Histogram["evidence:css-unsupported-syntax-in-output:"+f]++
				}
			}
			// re-transform oracle (evidence): the output for the same target changes nothing
			a := runCSS(res.code, &cssCfg{engines: c.engines, Supported: c.Supported})
			b := runCSS(res.code, &cssCfg{})
			if a.ok && b.ok && a.code != b.code {
				st.Histogram["evidence:css-second-pass-lowers"]++
			}
			if !c.Minify {
				lower = append(lower, fmt.Sprintf("(%s, %s, %s)", coqCssList(ul), coqCssList(p.features), coqCssList(det)))
			}
		}
	}
	cf.AddCases("css_lower_cases", "list css_feature * list css_feature * list css_feature", "check_css_lower", lower)
}
