package main

// C14: the emitted JavaScript only uses syntax available in the configured
// target.
//
//  * table correspondence: compat.UnsupportedJSFeatures, JSFeature.ApplyOverrides,
//    the validateFeatures/validateSupported/applyOptionDefaults pipeline (hooks
//    export_verif_c14.go) against the Coq model coq/C14/Compat.v;
//  * lowering-graph correspondence: for single-feature probes and unsupported
//    sets U, the outcome (ok / error / warning) and the features observed in
//    the output by the independent detector (detect.go) against coq/C14/LowerGraph.v;
//  * glue stream: feature probes, nested combinations and minifier baits through
//    api.Transform and api.Build (bundle, formats, minify, engines, supported
//    overrides) with the property's own predicate as oracle:
//      P1  no token of a feature that is unsupported in the target occurs in the
//          output (detector; ES-year targets use the hand-written ECMA-262
//          edition table, mirrored in coq/C14/Spec.v and checked there);
//      P2  transforming the OUTPUT again for the same target gives no error and
//          the same text as transforming it for ESNext (esbuild's own parser used
//          adversarially: anything it would still lower or reject has leaked);
//      P3  supported:true overrides keep the feature's syntax.

import (
	"encoding/json"
	"fmt"
	"os"
	"path/filepath"
	"sort"
	"strings"

	"github.com/evanw/esbuild/internal/bundler"
	"github.com/evanw/esbuild/internal/compat"
	"github.com/evanw/esbuild/internal/config"
	"github.com/evanw/esbuild/internal/logger"
	"github.com/evanw/esbuild/pkg/api"
	. "github.com/evanw/esbuild/verifharness/hlib"
)

func main() {
	// debugging aid: C14_DETECT=<file> prints the detector's verdict for a file
	if f := os.Getenv("C14_DETECT"); f != "" {
		b, err := os.ReadFile(f)
		if err != nil {
			panic(err)
		}
		d, notes := DetectWithNotes(string(b))
		fmt.Println(d, notes)
		return
	}
	Main("c14", runC14)
}

// ---------- feature names ----------

var featByName = map[string]compat.JSFeature{} // Go identifier -> bit
var keyByName = map[string]string{}            // Go identifier -> "supported" key
var allNames []string

func camel(k string) string {
	var sb strings.Builder
	for _, p := range strings.Split(k, "-") {
		sb.WriteString(strings.ToUpper(p[:1]) + p[1:])
	}
	return sb.String()
}

func init() {
	for k, f := range compat.StringToJSFeature {
		n := camel(k)
		featByName[n] = f
		keyByName[n] = k
		allNames = append(allNames, n)
	}
	sort.Strings(allNames)
}

func namesOf(f compat.JSFeature) []string {
	var out []string
	for _, n := range allNames {
		if f.Has(featByName[n]) {
			out = append(out, n)
		}
	}
	return out
}

func coqFeatList(names []string) string {
	xs := make([]string, len(names))
	for i, n := range names {
		xs[i] = "F" + n
	}
	return "[" + strings.Join(xs, ";") + "]"
}

var engineNames = []api.EngineName{api.EngineChrome, api.EngineDeno, api.EngineEdge, api.EngineFirefox, api.EngineHermes,
	api.EngineIE, api.EngineIOS, api.EngineNode, api.EngineOpera, api.EngineRhino, api.EngineSafari}
var engineCompat = []compat.Engine{compat.Chrome, compat.Deno, compat.Edge, compat.Firefox, compat.Hermes,
	compat.IE, compat.IOS, compat.Node, compat.Opera, compat.Rhino, compat.Safari}
var engineCoq = []string{"EChrome", "EDeno", "EEdge", "EFirefox", "EHermes", "EIE", "EIOS", "ENode", "EOpera", "ERhino", "ESafari"}

func coqEngine(e compat.Engine) string {
	if e == compat.ES {
		return "EES"
	}
	for i, c := range engineCompat {
		if c == e {
			return engineCoq[i]
		}
	}
	panic("engine")
}

// ---------- the hand-written ECMA-262 edition table (mirror of coq/C14/Spec.v) ----------
// 0 = syntax that is in no ratified edition (always newer than any ES-year target);
// features that are not syntax are absent.
var ecmaEdition = map[string]int{
	"ObjectAccessors": 5,
	"ArraySpread":     2015, "Arrow": 2015, "Class": 2015, "ConstAndLet": 2015, "DefaultArgument": 2015, "Destructuring": 2015,
	"ForOf": 2015, "Generator": 2015, "NewTarget": 2015, "ObjectExtensions": 2015, "RegexpStickyAndUnicodeFlags": 2015,
	"RestArgument": 2015, "TemplateLiteral": 2015, "UnicodeEscapes": 2015,
	"ExponentOperator": 2016, "NestedRestBinding": 2016,
	"AsyncAwait":     2017,
	"AsyncGenerator": 2018, "ForAwait": 2018, "ObjectRestSpread": 2018, "RegexpDotAllFlag": 2018, "RegexpLookbehindAssertions": 2018,
	"RegexpNamedCaptureGroups": 2018, "RegexpUnicodePropertyEscapes": 2018,
	"OptionalCatchBinding": 2019,
	"Bigint":               2020, "DynamicImport": 2020, "ExportStarAs": 2020, "ImportMeta": 2020, "NullishCoalescing": 2020, "OptionalChain": 2020,
	"LogicalAssignment": 2021, "NumericSeparator": 2021,
	"ArbitraryModuleNamespaceNames": 2022, "ClassField": 2022, "ClassPrivateAccessor": 2022, "ClassPrivateBrandCheck": 2022,
	"ClassPrivateField": 2022, "ClassPrivateMethod": 2022, "ClassPrivateStaticAccessor": 2022, "ClassPrivateStaticField": 2022,
	"ClassPrivateStaticMethod": 2022, "ClassStaticBlocks": 2022, "ClassStaticField": 2022, "RegexpMatchIndices": 2022, "TopLevelAwait": 2022,
	"Hashbang":          2023,
	"RegexpSetNotation": 2024,
	"ImportAttributes":  2025,
	"Decorators":        0, "ImportAssertions": 0, "ImportDefer": 0, "ImportSource": 0, "Using": 0,
}

func specUnsupportedAt(year int, f string) (bool, bool) {
	e, ok := ecmaEdition[f]
	if !ok {
		return false, false
	}
	return e == 0 || e > year, true
}

// ---------- configurations ----------

type cfg struct {
	Target    string          `json:"target"`
	Engines   []string        `json:"engines,omitempty"`
	Supported map[string]bool `json:"supported,omitempty"`
	Format    string          `json:"format,omitempty"`
	Minify    bool            `json:"minify,omitempty"`
	Bundle    bool            `json:"bundle,omitempty"`
	Loader    string          `json:"loader,omitempty"`
	KeepNames bool            `json:"keepNames,omitempty"`
	JSX       string          `json:"jsx,omitempty"`      // "", "automatic", "automatic-dev", "preserve" (loader jsx/tsx)
	Tsconfig  string          `json:"tsconfig,omitempty"` // TsconfigRaw
	year      int
	target    api.Target
	engines   []api.Engine
}

var esTargets = []struct {
	name string
	t    api.Target
	year int
}{
	{"es5", api.ES5, 5}, {"es2015", api.ES2015, 2015}, {"es2016", api.ES2016, 2016}, {"es2017", api.ES2017, 2017}, {"es2018", api.ES2018, 2018},
	{"es2019", api.ES2019, 2019}, {"es2020", api.ES2020, 2020}, {"es2021", api.ES2021, 2021}, {"es2022", api.ES2022, 2022},
	{"es2023", api.ES2023, 2023}, {"es2024", api.ES2024, 2024}, {"es2025", api.ES2025, 2025}, {"es2026", api.ES2026, 2026}, {"esnext", api.ESNext, 0},
}

func (c *cfg) setTarget(name string) {
	for _, t := range esTargets {
		if t.name == name {
			c.Target, c.target, c.year = t.name, t.t, t.year
			return
		}
	}
	panic("target " + name)
}

func (c *cfg) addEngine(name api.EngineName, label, version string) {
	c.engines = append(c.engines, api.Engine{Name: name, Version: version})
	c.Engines = append(c.Engines, label+version)
}

func (c *cfg) format() api.Format {
	switch c.Format {
	case "esm":
		return api.FormatESModule
	case "cjs":
		return api.FormatCommonJS
	case "iife":
		return api.FormatIIFE
	}
	return api.FormatDefault
}

func (c *cfg) loader() api.Loader {
	switch c.Loader {
	case "ts":
		return api.LoaderTS
	case "jsx":
		return api.LoaderJSX
	case "tsx":
		return api.LoaderTSX
	}
	return api.LoaderJS
}

func (c *cfg) jsx() (api.JSX, bool) {
	switch c.JSX {
	case "automatic":
		return api.JSXAutomatic, false
	case "automatic-dev":
		return api.JSXAutomatic, true
	case "preserve":
		return api.JSXPreserve, false
	}
	return api.JSXTransform, false
}

func (c *cfg) ext() string {
	if c.Loader != "" {
		return "." + c.Loader
	}
	return ".js"
}

// what esbuild itself computes for this configuration (through the hooks)
func (c *cfg) goOptions() config.Options {
	log := logger.NewDeferLog(logger.DeferLogAll, nil)
	js, env := api.VerifC14ValidateFeatures(log, c.target, c.engines)
	ov, mask := api.VerifC14ValidateSupported(log, c.Supported)
	o := config.Options{
		UnsupportedJSFeatures:             js.ApplyOverrides(ov, mask),
		UnsupportedJSFeatureOverrides:     ov,
		UnsupportedJSFeatureOverridesMask: mask,
		OriginalTargetEnv:                 env,
		Platform:                          config.PlatformBrowser,
	}
	bundler.VerifC14ApplyOptionDefaults(&o)
	return o
}

// the unsupported set the property's predicate uses: for ES-year targets the
// hand-written ECMA table decides (so a wrong table entry is visible), explicit
// and implied `supported` overrides win; for engine lists esbuild's own table.
func (c *cfg) predicateUnsupported() map[string]bool {
	o := c.goOptions()
	out := map[string]bool{}
	for _, n := range allNames {
		bit := featByName[n]
		switch {
		case o.UnsupportedJSFeatureOverridesMask.Has(bit):
			out[n] = o.UnsupportedJSFeatureOverrides.Has(bit)
		case len(c.engines) == 0 && c.target != api.ESNext && c.target != api.DefaultTarget:
			if u, ok := specUnsupportedAt(c.year, n); ok {
				out[n] = u
			} else {
				out[n] = o.UnsupportedJSFeatures.Has(bit)
			}
		default:
			out[n] = o.UnsupportedJSFeatures.Has(bit)
		}
	}
	if len(c.engines) == 0 && c.target != api.ESNext && c.target != api.DefaultTarget {
		out["NumericSeparator"] = c.year < 2021
	}
	return out
}

// ---------- running esbuild ----------

type result struct {
	ok       bool
	code     string
	errors   []api.Message
	warnings []api.Message
}

func msgTexts(ms []api.Message) []string {
	var out []string
	for _, m := range ms {
		out = append(out, m.Text)
	}
	return out
}

func runTransform(src string, c *cfg) result {
	jsx, dev := c.jsx()
	r := api.Transform(src, api.TransformOptions{
		JSX: jsx, JSXDev: dev, TsconfigRaw: c.Tsconfig, Sourcefile: "probe" + c.ext(),
		Target: c.target, Engines: c.engines, Supported: c.Supported, Format: c.format(), Loader: c.loader(),
		MinifySyntax: c.Minify, MinifyWhitespace: c.Minify, MinifyIdentifiers: c.Minify, KeepNames: c.KeepNames,
		LogLevel: api.LogLevelSilent, Platform: api.PlatformBrowser,
	})
	return result{ok: len(r.Errors) == 0, code: string(r.Code), errors: r.Errors, warnings: r.Warnings}
}

// a small module graph around the probe: ESM entry, an ESM module that is also
// require()d (forces __esm), a CommonJS module (forces __commonJS/__toESM), a
// re-export (forces __reExport/__export) and a dynamic import.
func runBuild(dir string, src string, c *cfg) result {
	ext := c.ext()
	files := map[string]string{
		"entry" + ext: "import { probe } from './probe" + ext + "'\nimport cj from './cj.js'\nexport * from './re.js'\nexport { probe, cj }\n" +
			"export const lazy = () => import('./dyn.js')\nexport const viaRequire = () => require('./esm2.js')\n",
		"probe" + ext: src + "\nexport function probe() { return typeof $probe === 'undefined' ? 0 : $probe }\n",
		"cj.js":       "exports.a = 1\nmodule.exports.b = function () { return this }\n",
		"re.js":       "export * from './cj.js'\nexport var reexported = 1\n",
		"dyn.js":      "export default 1\n",
		"esm2.js":     "export var e2 = 2\nexport default function () {}\n",
	}
	for name, text := range files {
		if err := os.WriteFile(filepath.Join(dir, name), []byte(text), 0o644); err != nil {
			panic(err)
		}
	}
	jsx, dev := c.jsx()
	opts := api.BuildOptions{
		JSX: jsx, JSXDev: dev, TsconfigRaw: c.Tsconfig, External: []string{"react", "react/*"},
		EntryPoints: []string{"entry" + ext}, AbsWorkingDir: dir, Bundle: true, Write: false, Outfile: "out.js",
		Target: c.target, Engines: c.engines, Supported: c.Supported, Format: c.format(),
		MinifySyntax: c.Minify, MinifyWhitespace: c.Minify, MinifyIdentifiers: c.Minify, KeepNames: c.KeepNames,
		LogLevel: api.LogLevelSilent, Platform: api.PlatformBrowser,
	}
	if c.Format == "iife" {
		opts.GlobalName = "ns.sub.name"
	}
	r := api.Build(opts)
	res := result{ok: len(r.Errors) == 0, errors: r.Errors, warnings: r.Warnings}
	for _, f := range r.OutputFiles {
		if strings.HasSuffix(f.Path, ".js") {
			res.code += string(f.Contents)
		}
	}
	return res
}

// ---------- the predicate ----------

type verdict struct {
	detected []string
	leaks    []string
}

var reported = map[string]int{}

func failOnce(st *Stats, what string, input, got, expect interface{}) {
	key, limit := what, 2
	if m, ok := input.(map[string]interface{}); ok {
		if s, ok := m["scenario"].(string); ok {
			key += "|" + s
			if s != "leak" && s != "second-pass" && s != "reparse" {
				limit = 1 // a tagged (known-finding) scenario: one replay is enough
			}
		}
	}
	reported[key]++
	if reported[key] <= limit {
		st.Fail(what, input, got, expect)
	} else {
		st.Histogram["FAIL:"+what]++
	}
}

func hasWarning(ws []api.Message, id string) bool {
	for _, w := range ws {
		if w.ID == id {
			return true
		}
	}
	return false
}

// a `supported: {Y: true}` entry whose prerequisites stay unsupported
func (c *cfg) contradiction() string {
	o := c.goOptions()
	keys := make([]string, 0, len(c.Supported))
	for k := range c.Supported {
		keys = append(keys, k)
	}
	sort.Strings(keys)
	for _, k := range keys {
		if !c.Supported[k] {
			continue
		}
		for _, x := range impliedBy[camel(k)] {
			if o.UnsupportedJSFeatures.Has(featByName[x]) {
				return k
			}
		}
	}
	return ""
}

func scenarioFor(f string, c *cfg, notes map[string]bool, code string) string {
	if k := c.contradiction(); k != "" {
		return "contradictory-supported-override:" + k
	}
	switch f {
	case "ArraySpread":
		if v, ok := c.Supported["array-spread"]; ok && !v && strings.Contains(code, "super(...arguments)") {
			return "generated-super-spread"
		}
		return "leak"
	case "UnicodeEscapes":
		// the raw text of a TAGGED template cannot be re-escaped without changing
		// strings.raw; esbuild keeps it unless template literals themselves are lowered
		if notes["unicode-escape-in-tagged-template-raw"] && !notes["unicode-escape-elsewhere"] && !c.goOptions().UnsupportedJSFeatures.Has(compat.TemplateLiteral) {
			return "unicode-escape-in-tagged-template-raw"
		}
		return "leak"
	case "RegexpUnicodePropertyEscapes":
		// which shape of regular expression carried the \p{..} into the output
		switch {
		case notes["unicode-property-escape-plain"]:
			return "leak"
		case notes["unicode-property-escape-inside-character-class"] && !notes["unicode-property-escape-with-v-flag"]:
			return "unicode-property-escape-inside-character-class"
		case notes["unicode-property-escape-with-v-flag"] && !notes["unicode-property-escape-inside-character-class"]:
			if v, ok := c.Supported["regexp-set-notation"]; ok && v {
				return "unicode-property-escape-with-v-flag-override"
			}
		}
		return "leak"
	case "Hashbang":
		if v, ok := c.Supported["hashbang"]; ok && !v {
			return "hashbang-passthrough-explicit-override"
		}
		return "hashbang-passthrough-target"
	case "DynamicImport":
		_, overridden := c.Supported["dynamic-import"]
		o := c.goOptions()
		if !overridden && len(c.engines) == 0 && c.year >= 2015 && c.year <= 2019 && !o.UnsupportedJSFeatures.Has(compat.DynamicImport) {
			return "dynamic-import-tabled-es2015"
		}
		return "dynamic-import-leak"
	}
	return "leak"
}

// checkOutput evaluates P1 and P2 on a successful result.
func checkOutput(st *Stats, kind string, src string, c *cfg, r result) verdict {
	preserve := c.JSX == "preserve"
	detText := r.code
	if preserve {
		// the output still holds JSX elements: look at the plain JavaScript esbuild
		// itself makes of them for ESNext (a spread attribute then shows as an object
		// spread, which is an artefact of this view and ignored below)
		cj := cfg{Loader: "jsx"}
		cj.setTarget("esnext")
		if x := runTransform(r.code, &cj); x.ok {
			detText = x.code
		}
	}
	det, notes := DetectWithNotes(detText)
	if preserve {
		var d2 []string
		for _, f := range det {
			if f != "ObjectRestSpread" {
				d2 = append(d2, f)
			}
		}
		det = d2
	}
	v := verdict{detected: det}
	uns := c.predicateUnsupported()
	for _, f := range v.detected {
		if !uns[f] {
			continue
		}
		if f == "Bigint" && hasWarning(r.warnings, "bigint") {
			continue // deliberately passed through with a warning
		}
		if f == "ImportMeta" && hasWarning(r.warnings, "empty-import-meta") {
			continue
		}
		v.leaks = append(v.leaks, f)
		input := map[string]interface{}{"kind": kind, "source": src, "config": c, "scenario": scenarioFor(f, c, notes, r.code)}
		what := "syntax-leak:" + f
		if c.Loader == "" && !contains(Detect(src), f) {
			// the input does not use the feature at all: esbuild's own rewrite (minifier,
			// generated code) introduced syntax the target does not have
			what = "syntax-introduced:" + f
			input["input_features"] = Detect(src)
		}
		failOnce(st, what, input,
			map[string]interface{}{"output": clip(r.code, 1500), "detected": v.detected, "warnings": msgTexts(r.warnings)},
			"no "+f+" syntax in the output for this target")
	}
	// P2: second pass over the output.  Not applicable when the output has a
	// `yield*` and async generators are unsupported: esbuild wraps the operand of
	// EVERY generator's yield* in __yieldStar (js_parser.go visitExprInOut EYield does
	// not look at isAsync), so its own lowered async generators are rewritten again.
	if strings.Contains(r.code, "yield*") && c.goOptions().UnsupportedJSFeatures.Has(compat.AsyncGenerator) {
		st.Note("p2-skipped-yield-star", src+jsonStr(c), false)
		return v
	}
	c2 := *c
	c2.Minify, c2.Bundle, c2.Format, c2.Loader, c2.KeepNames, c2.JSX, c2.Tsconfig = false, false, "", "", false, "", ""
	if preserve {
		c2.Loader, c2.JSX = "jsx", "preserve"
	}
	a := runTransform(r.code, &c2)
	c3 := cfg{}
	c3.setTarget("esnext")
	// printer-level choices (how a code point is escaped) follow the target in
	// both passes, otherwise the ESNext pass "un-lowers" \uD83D\uDE00 to \u{1F600}
	c3.Supported = map[string]bool{}
	if c.goOptions().UnsupportedJSFeatures.Has(compat.UnicodeEscapes) {
		c3.Supported["unicode-escapes"] = false
	}
	if c.goOptions().UnsupportedJSFeatures.Has(compat.InlineScript) {
		c3.Supported["inline-script"] = false // whether "</script" is escaped, a printer choice
	}
	if c.goOptions().UnsupportedJSFeatures.Has(compat.FunctionOrClassPropertyAccess) {
		c3.Supported["function-or-class-property-access"] = false // parenthesises (class{}).p, a printer choice
	}
	if preserve {
		c3.Loader, c3.JSX = "jsx", "preserve"
	}
	b := runTransform(r.code, &c3)
	if b.ok {
		input := map[string]interface{}{"kind": kind, "source": src, "config": c, "scenario": "second-pass"}
		if !a.ok {
			// the known pass-through findings do not error; anything else here has leaked
			failOnce(st, "second-pass-error", input, map[string]interface{}{"output": clip(r.code, 1500), "errors": msgTexts(a.errors)},
				"re-transforming the output for the same target reports no error")
		} else if a.code != b.code {
			failOnce(st, "second-pass-lowers", input, map[string]interface{}{"output": clip(r.code, 1500), "same_target": clip(a.code, 800), "esnext": clip(b.code, 800)},
				"re-transforming the output for the same target changes nothing that ESNext would not change")
		} else if len(a.warnings) > len(b.warnings) {
			failOnce(st, "second-pass-warns", input, map[string]interface{}{"output": clip(r.code, 1500), "warnings": msgTexts(a.warnings)},
				"re-transforming the output for the same target gives no target warning")
		}
	} else {
		sc := "reparse"
		if k := c.contradiction(); k != "" {
			sc = "contradictory-supported-override:" + k
		} else if len(b.errors) > 0 && strings.Contains(b.errors[0].Text, "Cannot use \"new.target\" here") && strings.Contains(src, "new.target") {
			sc = "new-target-in-lowered-static-initializer"
		} else if len(b.errors) > 0 && strings.Contains(b.errors[0].Text, "Unexpected \"super\"") && strings.Contains(src, "super") &&
			strings.Contains(r.code, "__asyncGenerator(") && !c.goOptions().UnsupportedJSFeatures.Has(compat.AsyncAwait) {
			sc = "super-in-lowered-async-generator"
		}
		failOnce(st, "output-does-not-parse", map[string]interface{}{"kind": kind, "source": src, "config": c, "scenario": sc},
			map[string]interface{}{"output": clip(r.code, 1500), "errors": msgTexts(b.errors)}, "output parses")
	}
	return v
}

func clip(s string, n int) string {
	if len(s) > n {
		return s[:n] + "…"
	}
	return s
}

func contains(xs []string, x string) bool {
	for _, y := range xs {
		if y == x {
			return true
		}
	}
	return false
}

// ---------- table correspondence ----------

func randSemver(r *Rng, e compat.Engine) compat.Semver {
	var s compat.Semver
	n := 1 + r.Intn(3)
	if e == compat.ES {
		switch r.Intn(4) {
		case 0:
			s.Parts = []int{5}
		case 1:
			s.Parts = []int{2014 + r.Intn(14)}
		case 2:
			s.Parts = []int{2015 + r.Intn(11), r.Intn(2)}
		default:
			s.Parts = []int{2015 + r.Intn(11)}
		}
	} else {
		majors := []int{0, 1, 4, 7, 8, 9, 10, 11, 12, 13, 14, 15, 16, 18, 20, 22, 25, 36, 45, 49, 50, 55, 60, 63, 67, 73, 79, 80, 84, 85, 90, 91, 94, 100, 108, 120, 141, 200}
		for i := 0; i < n; i++ {
			if i == 0 {
				s.Parts = append(s.Parts, majors[r.Intn(len(majors))])
			} else {
				s.Parts = append(s.Parts, []int{0, 0, 1, 2, 4, 5, 6, 9, 10, 13, 14, 18, 20, 21}[r.Intn(14)])
			}
		}
	}
	if r.Chance(10) {
		s.PreRelease = "-beta.1"
	}
	return s
}

func coqConstraints(keys []compat.Engine, cs map[compat.Engine]compat.Semver) string {
	var items []string
	for _, e := range keys {
		s := cs[e]
		parts := make([]int64, len(s.Parts))
		for i, p := range s.Parts {
			parts[i] = int64(p)
		}
		items = append(items, fmt.Sprintf("(%s, mkSemver %s %s)", coqEngine(e), CZList(parts), CBool(s.PreRelease != "")))
	}
	return "[" + strings.Join(items, "; ") + "]"
}

func tableCases(r *Rng, st *Stats, cf *CoqFile, n int) {
	// 1. compat.UnsupportedJSFeatures
	var items []string
	allEng := append([]compat.Engine{compat.ES}, engineCompat...)
	add := func(keys []compat.Engine, cs map[compat.Engine]compat.Semver, kind string) {
		u := compat.UnsupportedJSFeatures(cs)
		items = append(items, fmt.Sprintf("(%s, %d)", coqConstraints(keys, cs), uint64(u)))
		st.Note(kind, coqConstraints(keys, cs), u != 0)
	}
	for y := 2012; y <= 2028; y++ { // every ES year around the table's range
		add([]compat.Engine{compat.ES}, map[compat.Engine]compat.Semver{compat.ES: {Parts: []int{y}}}, "unsupported-es-year")
	}
	add([]compat.Engine{compat.ES}, map[compat.Engine]compat.Semver{compat.ES: {Parts: []int{5}}}, "unsupported-es-year")
	add(nil, map[compat.Engine]compat.Semver{}, "unsupported-empty")
	for i := 0; i < n; i++ {
		k := 1 + r.Intn(3)
		cs := map[compat.Engine]compat.Semver{}
		var keys []compat.Engine
		for j := 0; j < k; j++ {
			e := allEng[r.Intn(len(allEng))]
			if _, ok := cs[e]; ok {
				continue
			}
			cs[e] = randSemver(r, e)
			keys = append(keys, e)
		}
		add(keys, cs, "unsupported-random")
	}
	cf.AddCases("uns_cases", "list constraint * Z", "check_unsupported", items)

	// 2. ApplyOverrides
	items = nil
	for i := 0; i < n/2+8; i++ {
		var f, o, m uint64
		switch i % 4 {
		case 0:
			f, o, m = r.U64(), r.U64(), r.U64()
		case 1:
			f, o, m = r.U64(), r.U64(), 1<<uint(r.Intn(61))
		case 2:
			f, o, m = r.U64()&r.U64(), r.U64()&r.U64(), r.U64()&r.U64()&r.U64()
		default:
			f, o, m = ^uint64(0), 0, r.U64()
		}
		got := compat.JSFeature(f).ApplyOverrides(compat.JSFeature(o), compat.JSFeature(m))
		items = append(items, fmt.Sprintf("(%d, %d, %d, %d)", f, o, m, uint64(got)))
		st.Note("apply-overrides", fmt.Sprint(f, o, m), m != 0)
		// the property's own reading: masked bits come from the override, the rest from the table
		for b := uint(0); b < 64; b++ {
			want := f >> b & 1
			if m>>b&1 == 1 {
				want = o >> b & 1
			}
			if uint64(got)>>b&1 != want {
				failOnce(st, "apply-overrides-bit", map[string]interface{}{"features": f, "overrides": o, "mask": m, "bit": b, "scenario": "apply-overrides"}, uint64(got)>>b&1, want)
				break
			}
		}
	}
	cf.AddCases("ov_cases", "Z * Z * Z * Z", "check_overrides", items)

	// 3. the configuration pipeline: target/engines + supported -> options after applyOptionDefaults
	items = nil
	for i := 0; i < n; i++ {
		c := randomConfig(r, true)
		o := c.goOptions()
		// constraints as validateFeatures builds them (numeric versions only here)
		var cons []string
		if c.target != api.ESNext && c.target != api.DefaultTarget {
			cons = append(cons, fmt.Sprintf("(EES, mkSemver [%d] false)", c.year))
		}
		seen := map[api.EngineName]bool{}
		dup := false
		for _, e := range c.engines {
			if seen[e.Name] {
				dup = true
			}
			seen[e.Name] = true
		}
		if dup {
			continue // duplicate engines go through CompareSemver, which is not modelled
		}
		for _, e := range c.engines {
			var parts []int64
			for _, p := range strings.Split(e.Version, ".") {
				var v int64
				fmt.Sscan(p, &v)
				parts = append(parts, v)
			}
			for k, en := range engineNames {
				if en == e.Name {
					cons = append(cons, fmt.Sprintf("(%s, mkSemver %s false)", engineCoq[k], CZList(parts)))
				}
			}
		}
		var sup []string
		keys := make([]string, 0, len(c.Supported))
		for k := range c.Supported {
			keys = append(keys, k)
		}
		sort.Strings(keys)
		for _, k := range keys {
			sup = append(sup, fmt.Sprintf("(F%s, %s)", camel(k), CBool(c.Supported[k])))
		}
		items = append(items, fmt.Sprintf("([%s], [%s], %d, %d, %d)", strings.Join(cons, "; "), strings.Join(sup, "; "),
			uint64(o.UnsupportedJSFeatures), uint64(o.UnsupportedJSFeatureOverrides), uint64(o.UnsupportedJSFeatureOverridesMask)))
		st.Note("config-pipeline", fmt.Sprint(c.Target, c.Engines, c.Supported), len(c.Supported) > 0 || len(c.engines) > 0)
		// the property's own reading of `supported`: an explicit entry wins in both directions
		for k, v := range c.Supported {
			bit := compat.StringToJSFeature[k]
			if o.UnsupportedJSFeatures.Has(bit) == v {
				// v == true must end up supported unless an implication forces it off
				forced := o.UnsupportedJSFeatureOverrides.Has(bit) && v
				if !forced {
					failOnce(st, "supported-override-not-honoured", map[string]interface{}{"config": c, "key": k, "scenario": "config-pipeline"}, o.UnsupportedJSFeatures.Has(bit), !v)
				}
			}
		}
	}
	cf.AddCases("cfg_cases", "list constraint * list (feature * bool) * Z * Z * Z", "check_config", items)
}

var engineVersionPool = map[api.EngineName][]string{
	api.EngineChrome:  {"49", "51", "55", "60", "63", "67", "73", "79", "80", "84", "85", "90", "91", "94", "120"},
	api.EngineNode:    {"6", "7.6", "8", "8.10", "10", "10.4", "12", "12.20", "13", "13.2", "14", "14.6", "14.18", "15", "16", "16.14", "18", "18.20", "20", "22", "25"},
	api.EngineSafari:  {"10", "10.1", "11", "11.1", "12", "13", "13.1", "14", "14.1", "15", "16", "16.4", "17"},
	api.EngineFirefox: {"45", "52", "53", "55", "60", "67", "72", "74", "78", "79", "90", "93", "120"},
	api.EngineEdge:    {"13", "15", "16", "18", "79", "80", "85", "91", "120"},
	api.EngineIOS:     {"10", "11", "12", "13", "13.4", "14", "14.5", "15", "16.4"},
	api.EngineOpera:   {"36", "42", "50", "60", "70", "77", "100"},
	api.EngineDeno:    {"1", "1.9", "1.31"},
	api.EngineHermes:  {"0.7", "0.12"},
	api.EngineRhino:   {"1.7.13", "1.7.15"},
	api.EngineIE:      {"9", "11"},
}

var engineLabels = map[api.EngineName]string{api.EngineChrome: "chrome", api.EngineNode: "node", api.EngineSafari: "safari", api.EngineFirefox: "firefox",
	api.EngineEdge: "edge", api.EngineIOS: "ios", api.EngineOpera: "opera", api.EngineDeno: "deno", api.EngineHermes: "hermes", api.EngineRhino: "rhino", api.EngineIE: "ie"}

func randomConfig(r *Rng, wide bool) *cfg {
	c := &cfg{}
	switch {
	case r.Chance(60):
		c.setTarget(esTargets[1+r.Intn(len(esTargets)-1)].name) // es2015..esnext
	case wide && r.Chance(20):
		c.setTarget("es5")
	default:
		c.setTarget("esnext")
		c.target, c.Target = api.DefaultTarget, "default"
	}
	if r.Chance(35) || c.target == api.DefaultTarget && r.Chance(70) {
		k := 1 + r.Intn(2)
		pool := []api.EngineName{api.EngineChrome, api.EngineNode, api.EngineSafari, api.EngineFirefox, api.EngineEdge, api.EngineIOS, api.EngineOpera}
		if wide {
			pool = engineNames
		}
		for i := 0; i < k; i++ {
			e := pool[r.Intn(len(pool))]
			dup := false
			for _, x := range c.engines {
				if x.Name == e {
					dup = true
				}
			}
			if dup {
				continue
			}
			vs := engineVersionPool[e]
			c.addEngine(e, engineLabels[e], vs[r.Intn(len(vs))])
		}
	}
	if r.Chance(35) {
		c.Supported = map[string]bool{}
		k := 1 + r.Intn(3)
		for i := 0; i < k; i++ {
			n := allNames[r.Intn(len(allNames))]
			v := r.Bool()
			if !wide && !v && notTransformable[n] {
				// esbuild cannot transform these (they are rejected with "not supported yet") and its
				// own scaffolding (wrappers, helpers, lowered code) assumes them: switching one off is
				// outside "features esbuild documents as transformable".  They are still covered by the
				// per-probe supported:false loop, the table/pipeline correspondence and the corpus replay
				// of the lowering_closed_refuted witness.
				v = true
			}
			c.Supported[keyByName[n]] = v
		}
		if !wide {
			c.makeCoherent()
		}
	}
	return c
}

var notTransformable = map[string]bool{"ArraySpread": true, "Class": true, "ConstAndLet": true, "DefaultArgument": true, "Destructuring": true,
	"ForOf": true, "Generator": true, "NewTarget": true, "ObjectAccessors": true, "ObjectExtensions": true, "RestArgument": true, "NestedRestBinding": true}

// impliedBy[Y] = the features X such that esbuild treats "X unsupported" as
// implying "Y unsupported" (discovered from the real applyOptionDefaults).
var impliedBy = map[string][]string{}

func init() {
	for _, x := range allNames {
		c := &cfg{Supported: map[string]bool{keyByName[x]: false}}
		c.setTarget("esnext")
		o := c.goOptions()
		for _, y := range namesOf(o.UnsupportedJSFeatures) {
			if y != x && y != "InlineScript" {
				impliedBy[y] = append(impliedBy[y], x)
			}
		}
	}
}

// A `supported: {Y: true}` entry is only meaningful when everything Y's syntax
// is built on is supported as well (for-await needs async functions, private
// fields need classes ...): force those prerequisites on too.  Contradictory
// override sets are exercised separately, from the fixed corpus.
func (c *cfg) makeCoherent() {
	for changed := true; changed; {
		changed = false
		o := c.goOptions()
		for k, v := range c.Supported {
			if !v {
				continue
			}
			for _, x := range impliedBy[camel(k)] {
				if o.UnsupportedJSFeatures.Has(featByName[x]) {
					c.Supported[keyByName[x]] = true
					changed = true
				}
			}
		}
	}
}

// ---------- main ----------

func runC14(seed uint64, n int, tier string, outDir string) []*Stats {
	r := NewRng(seed)
	st := NewStats("c14", seed)
	cf := NewCoqFile("From V Require Import Common.Base C14.Compat C14.Spec C14.LowerGraph C14.Css C14.Sites C14.Harness.")

	tableCases(r, st, cf, n)
	selfTest(st)
	corpus(st)
	glue(r, st, cf, n, tier)
	cssSide(r, st, cf, n)

	st.Finish("seeded generator (splitmix64 from VERIF_SEED): every ES year 2012..2028 + random engine/version constraint maps for UnsupportedJSFeatures; random 64-bit triples for ApplyOverrides; random target/engine/supported configurations through the validateFeatures/validateSupported/applyOptionDefaults hooks; one probe per feature and syntactic position, nested wrapper/expression combinations and minifier baits through api.Transform and api.Build (bundle with ESM+CommonJS graph, esm/cjs/iife, minify, keep-names, TypeScript), each evaluated with the detector and the second-pass oracle. distinct_nontrivial = distinct (kind,input,configuration) whose configuration leaves at least one feature unsupported or overridden")
	if err := os.WriteFile(filepath.Join(outDir, "c14_cases.v"), []byte(cf.String()), 0o644); err != nil {
		panic(err)
	}
	return []*Stats{st}
}

func jsonStr(v interface{}) string {
	b, _ := json.Marshal(v)
	return string(b)
}
