package main

import (
	"fmt"
	"os"
	"sort"
	"strings"

	"github.com/evanw/esbuild/pkg/api"
	. "github.com/evanw/esbuild/verifharness/hlib"
)

// A probe is a small program whose newest syntax is `feature` (plus the
// features listed in `also`, which it cannot avoid using).
type probe struct {
	name    string
	feature string
	also    []string
	src     string
	esm     bool   // uses import/export syntax (not usable with format cjs/iife through Transform of a script)
	loader  string // "" = js, "ts", "jsx", "tsx"
	noKeep  bool   // P3 (supported:true keeps the syntax) not applicable
	jsx     string // JSX mode for loader jsx/tsx ("" = classic transform)
	keep    bool   // keep-names
	tsconf  string // TsconfigRaw
	format  string // output format the construct needs to show up
}

func (p *probe) apply(c *cfg) {
	c.Loader, c.JSX, c.Tsconfig = p.loader, p.jsx, p.tsconf
	if p.keep {
		c.KeepNames = true
	}
	if p.format != "" && c.Format == "" {
		c.Format = p.format
	}
}

// JSX elements are not a compat feature, but their translation writes an object
// literal for the props: a spread attribute or spread child becomes an object
// spread (ObjectRestSpread), lowered by lowerObjectSpread in every JSX mode.
var jsxSources = []struct{ name, src string }{
	{"spread-only", "x = <div {...props} />"},
	{"spread-first", "x = <div {...props} a=\"1\" b={c} />"},
	{"spread-last", "x = <div a=\"1\" {...props} />"},
	{"spread-middle", "x = <div a {...p} b {...q}>text{child}</div>"},
	{"key-before-spread", "x = <div key={k} {...props} />"},
	{"key-after-spread", "x = <div {...props} key={k} />"},
	{"children-spread", "x = <ul {...p}>{...items}<li {...q} /></ul>"},
	{"fragment", "x = <><a {...p} /><b.c.d {...q}>{y}</b.c.d></>"},
	{"member-tag", "x = <ns.Comp {...f()} {...g(...h)} a={{...i}} />"},
	{"call-spread", "x = <Comp {...make(1)} on={() => <i {...p} />}>{[1].map(n => <b key={n} {...p} />)}</Comp>"},
}

func init() {
	for _, mode := range []string{"", "automatic", "automatic-dev", "preserve"} {
		for _, s := range jsxSources {
			for _, loader := range []string{"jsx", "tsx"} {
				if loader == "tsx" && s.name != "spread-only" && s.name != "key-after-spread" && s.name != "children-spread" {
					continue
				}
				name := "jsx-" + s.name + "-" + loader
				if mode != "" {
					name += "-" + mode
				}
				also := []string{"Arrow", "ArraySpread"}
				probes = append(probes, probe{name: name, feature: "ObjectRestSpread", also: also, src: s.src, loader: loader, jsx: mode,
					noKeep: true, esm: mode == "automatic" || mode == "automatic-dev"})
			}
		}
	}
	// generated code that only appears in particular modes
	probes = append(probes,
		probe{name: "keep-names-fn", feature: "Arrow", keep: true, noKeep: true, src: "function f() {}\nx = function () {}; y = () => {}; z = async () => {}; var { a = function () {} } = o; f()", also: []string{"AsyncAwait", "Destructuring", "DefaultArgument"}},
		probe{name: "keep-names-class", feature: "ClassStaticBlocks", keep: true, noKeep: true, src: "class C { static x = 1; m() {} static { C.y = 2 } #p = 1 }\nx = class { static z = class {} }; y = class D extends C { f = () => {} }; new C", also: []string{"Class", "ClassStaticField", "ClassField", "ClassPrivateField", "Arrow"}},
		probe{name: "keep-names-ts-class", feature: "ClassStaticField", keep: true, noKeep: true, loader: "ts", src: "class C { static x = 1; constructor(public p = 1) {} }\nexport default class { static y = C.x }", also: []string{"Class", "DefaultArgument"}, esm: true},
		probe{name: "ts-exp-decorators", feature: "Class", loader: "ts", noKeep: true, tsconf: `{"compilerOptions":{"experimentalDecorators":true}}`, src: "@dec class C { @dec m(@dec p: number) {} @dec f = 1; @dec static s = 2; #q = 3 }\nnew C", also: []string{"Decorators", "ClassField", "ClassStaticField", "ClassPrivateField"}},
		probe{name: "ts-no-define-fields", feature: "ClassField", loader: "ts", noKeep: true, tsconf: `{"compilerOptions":{"useDefineForClassFields":false}}`, src: "class C extends D { f = 1; static s = 2; declare g: number; constructor(public h: number) { super() } static { C.s++ } }\nnew C(1)", also: []string{"Class", "ClassStaticField", "ClassStaticBlocks"}},
		probe{name: "ts-enum-namespace-merge", feature: "ExponentOperator", loader: "ts", noKeep: true, src: "export enum E { A = 1 << 2, B = `a${A}`.length ** 2 }\nexport namespace E { export const f = (x?: E) => x ?? E.A; export namespace N { export let g = E?.A } }\nconst enum K { Z = 1n as any }", also: []string{"TemplateLiteral", "NullishCoalescing", "OptionalChain", "ConstAndLet", "Arrow", "Bigint"}, esm: true},
		probe{name: "tagged-template-script", feature: "TemplateLiteral", noKeep: true, src: "x = tag`<script></script>${a}`; y = String.raw`\\u{1F600}${b}`; z = tag`\\unicode`"},
		probe{name: "import-meta-cjs", feature: "ImportMeta", noKeep: true, format: "cjs", src: "x = import.meta.url; y = import.meta.env?.MODE ?? 1", also: []string{"OptionalChain", "NullishCoalescing"}, esm: true},
		probe{name: "import-meta-iife", feature: "ImportMeta", noKeep: true, format: "iife", src: "export const x = import.meta.url", esm: true},
		probe{name: "dyn-import-cjs", feature: "DynamicImport", noKeep: true, format: "cjs", src: "export const x = () => import('./other.js'); import(y).then(z => z?.default)", also: []string{"Arrow", "OptionalChain"}, esm: true},
		probe{name: "dyn-import-iife", feature: "DynamicImport", noKeep: true, format: "iife", src: "x = import('./other.js')"},
		probe{name: "tla-esm-bundle", feature: "TopLevelAwait", noKeep: true, format: "esm", src: "export const v = await f(); for await (const q of g()) h(q)", also: []string{"AsyncAwait", "ForAwait", "ForOf", "ConstAndLet"}, esm: true},
		probe{name: "await-using-top", feature: "Using", noKeep: true, format: "esm", src: "await using r = f(); using s = g(); export { r, s }", also: []string{"TopLevelAwait", "AsyncAwait"}, esm: true},
		probe{name: "using-in-switch-class", feature: "Using", noKeep: true, src: "switch (a) { case 1: { using r = f(); break } }\nclass C { static { using s = g() } async *m() { await using t = h(); yield t } }\nnew C", also: []string{"Class", "ClassStaticBlocks", "AsyncGenerator", "AsyncAwait", "Generator"}},
	)
}

var probes = []probe{
	// ES2016
	{name: "exp", feature: "ExponentOperator", src: "x = a ** b; y **= 2; z.w **= k; q[i()] **= 2; x = (-a) ** b ** c"},
	{name: "nested-rest", feature: "NestedRestBinding", also: []string{"Destructuring", "ArraySpread"}, src: "var [a, ...[b, c]] = d; f(a, b, c)", noKeep: true},
	// ES2017
	{name: "async-fn", feature: "AsyncAwait", src: "async function f(a) { await a; return 1 }\nf()"},
	{name: "async-arrow", feature: "AsyncAwait", also: []string{"Arrow"}, src: "x = async (a) => { await a; return this }; y = async b => await b"},
	{name: "async-arrow-args", feature: "AsyncAwait", also: []string{"Arrow"}, src: "function g() { return async () => { await arguments[0]; return this.x } }\ng()"},
	{name: "async-method", feature: "AsyncAwait", also: []string{"Class", "ObjectExtensions"}, src: "o = { async m() { await 1 } }; class C extends D { async m() { await super.m(); return super.x } static async s() { await this } }\nnew C"},
	// ES2018
	{name: "async-gen", feature: "AsyncGenerator", also: []string{"AsyncAwait", "Generator"}, src: "async function* g() { yield 1; yield* h(); await x; return 2 }\ng()"},
	{name: "async-gen-method", feature: "AsyncGenerator", also: []string{"AsyncAwait", "Generator", "Class", "ObjectExtensions"}, src: "o = { async *m() { yield await 1 } }; class C { async *m() { yield* this.n() } }\nnew C"},
	{name: "for-await", feature: "ForAwait", also: []string{"AsyncAwait", "ConstAndLet", "ForOf"}, src: "async function f() { for await (const x of y) z(x) }\nf()"},
	{name: "for-await-gen", feature: "ForAwait", also: []string{"AsyncAwait", "AsyncGenerator", "Generator", "ForOf"}, src: "async function* f() { for await (var x of y) yield x }\nf()"},
	{name: "obj-spread", feature: "ObjectRestSpread", src: "x = {...a, b: 1, ...c}; f({...d})"},
	{name: "obj-rest", feature: "ObjectRestSpread", also: []string{"Destructuring"}, src: "var {c, ...d} = e; ({i, ...j} = k); f(c, d, i, j)"},
	{name: "obj-rest-param", feature: "ObjectRestSpread", also: []string{"Destructuring"}, src: "function f({g, ...h}, [{...m}]) { return [g, h, m] }\nf(1); for (var {p, ...q} of r) s(p, q); try { t() } catch ({u, ...v}) { w(u, v) }"},
	{name: "re-dotall", feature: "RegexpDotAllFlag", src: "x = /a.b/s"},
	{name: "re-lookbehind", feature: "RegexpLookbehindAssertions", src: "x = /(?<=a)b/; y = /(?<!a)b/"},
	{name: "re-named", feature: "RegexpNamedCaptureGroups", src: "x = /(?<year>a)\\k<year>/"},
	{name: "re-unicode-prop", feature: "RegexpUnicodePropertyEscapes", also: []string{"RegexpStickyAndUnicodeFlags"}, src: "x = /\\p{L}\\P{Lu}/u"},
	// ES2019
	{name: "catch-binding", feature: "OptionalCatchBinding", src: "try { x() } catch { y() }"},
	// ES2020
	{name: "bigint", feature: "Bigint", src: "x = 123n; y = 0x1Fn + x"},
	{name: "dyn-import", feature: "DynamicImport", src: "x = import('./other.js')"},
	{name: "export-star-as", feature: "ExportStarAs", src: "export * as ns from './other.js'", esm: true},
	{name: "import-meta", feature: "ImportMeta", src: "x = import.meta.url; y = import.meta", esm: true},
	{name: "nullish", feature: "NullishCoalescing", src: "x = a ?? b; y = a.b ?? (c || d); z = f() ?? g()"},
	{name: "opt-chain", feature: "OptionalChain", src: "x = a?.b; y = a?.[b]; z = a?.(b); delete a?.b; w = a?.b.c(d)?.e; v = a.b?.(c); (a?.b)()"},
	{name: "opt-chain-this", feature: "OptionalChain", src: "function f() { return this?.a.b?.(c)?.[d] }\nf()"},
	// ES2021
	{name: "logical-assign", feature: "LogicalAssignment", src: "a ||= b; a &&= b; a.b ||= c; a[b()] &&= c"},
	{name: "nullish-assign", feature: "LogicalAssignment", src: "a ??= b; a.b ??= c; a[b()] ??= c"},
	// ES2022
	{name: "arbitrary-export-name", feature: "ArbitraryModuleNamespaceNames", src: "var x = 1; export { x as 'a b' }", esm: true},
	{name: "arbitrary-import-name", feature: "ArbitraryModuleNamespaceNames", src: "import { 'a b' as c } from './other.js'; c()", esm: true},
	{name: "class-field", feature: "ClassField", also: []string{"Class"}, src: "class C { x = 1; y; [k] = 2; 'z' = this.x }\nnew C"},
	{name: "class-static-field", feature: "ClassStaticField", also: []string{"Class"}, src: "class C { static x = 1; static y; static [k] = C.x }\nnew C"},
	{name: "class-private-field", feature: "ClassPrivateField", also: []string{"Class"}, src: "class C { #x = 1; get() { return this.#x } set(v) { this.#x = v; this.#x++; this.#x += 2; [this.#x] = v } }\nnew C"},
	{name: "class-private-method", feature: "ClassPrivateMethod", also: []string{"Class"}, src: "class C { #m() { return 1 } n() { return this.#m() } }\nnew C"},
	{name: "class-private-accessor", feature: "ClassPrivateAccessor", also: []string{"Class"}, src: "class C { get #a() { return 1 } set #a(v) {} n() { this.#a = this.#a + 1 } }\nnew C"},
	{name: "class-private-static-field", feature: "ClassPrivateStaticField", also: []string{"Class"}, src: "class C { static #x = 1; static n() { return C.#x++ } }\nnew C"},
	{name: "class-private-static-method", feature: "ClassPrivateStaticMethod", also: []string{"Class"}, src: "class C { static #m() { return 1 } static n() { return C.#m() } }\nnew C"},
	{name: "class-private-static-accessor", feature: "ClassPrivateStaticAccessor", also: []string{"Class"}, src: "class C { static get #a() { return 1 } static set #a(v) {} static n() { C.#a = C.#a + 1 } }\nnew C"},
	{name: "class-brand-check", feature: "ClassPrivateBrandCheck", also: []string{"Class", "ClassPrivateField"}, src: "class C { #x; static is(o) { return #x in o } }\nnew C"},
	{name: "class-static-block", feature: "ClassStaticBlocks", also: []string{"Class"}, src: "class C { static { C.x = 1 } static { this.y = 2 } }\nnew C"},
	{name: "class-expr-fields", feature: "ClassField", also: []string{"Class", "ClassStaticField"}, src: "x = class { a = 1; static b = 2 }; y = class Z extends x { c = () => this.a; static d = Z.b }"},
	{name: "tla", feature: "TopLevelAwait", also: []string{"AsyncAwait"}, src: "await x; export {}", esm: true},
	{name: "tla-for-await", feature: "TopLevelAwait", also: []string{"AsyncAwait", "ForAwait", "ForOf"}, src: "for await (var x of y) z(x); export {}", esm: true},
	{name: "re-indices", feature: "RegexpMatchIndices", src: "x = /a/d"},
	// ES2023
	{name: "hashbang", feature: "Hashbang", src: "#!/usr/bin/env node\nx()"},
	// ES2024
	{name: "re-set-notation", feature: "RegexpSetNotation", src: "x = /[\\p{L}--[a-z]]/v", also: []string{"RegexpUnicodePropertyEscapes"}},
	// ES2025 and later / proposals
	{name: "import-attributes", feature: "ImportAttributes", src: "import x from './other.json' with { type: 'json' }; f(x)", esm: true},
	{name: "import-attributes-dyn", feature: "DynamicImport", src: "x = import('./other.json', { with: { type: 'json' } })", noKeep: true},
	{name: "import-assertions", feature: "ImportAssertions", src: "import x from './other.json' assert { type: 'json' }; f(x)", esm: true},
	{name: "using", feature: "Using", src: "{ using x = y(); z(x) }"},
	{name: "await-using", feature: "Using", also: []string{"AsyncAwait"}, src: "async function f() { await using x = y(); z(x) }\nf()"},
	{name: "using-for", feature: "Using", also: []string{"ForOf"}, src: "for (using x of y) z(x)"},
	{name: "decorators", feature: "Decorators", also: []string{"Class"}, src: "@dec class C { @dec m() {} @dec static s() {} }\nnew C"},
	{name: "decorators-accessor", feature: "Decorators", also: []string{"Class"}, src: "class C { @dec accessor x = 1; accessor y }\nnew C", noKeep: true},
	{name: "import-defer", feature: "ImportDefer", src: "import defer * as ns from './other.js'; f(ns)", esm: true},
	{name: "import-source", feature: "ImportSource", src: "import source x from './other.js'; f(x)", esm: true},
	// ES2015 (engine lists and supported:false overrides)
	{name: "arrow", feature: "Arrow", src: "x = (a) => a + 1; y = () => { return this }; z = b => ({ b })", also: []string{"ObjectExtensions"}},
	{name: "arrow-args", feature: "Arrow", src: "function f() { return () => [this, arguments] }\nf()"},
	{name: "class", feature: "Class", src: "class C extends D { constructor() { super() } m() { return super.m() } static s() {} get g() { return 1 } }\nnew C"},
	{name: "const-let", feature: "ConstAndLet", src: "{ let a = 1; const b = 2; f(a, b) } for (let i = 0; i < 1; i++) g(() => i)", also: []string{"Arrow"}},
	{name: "default-arg", feature: "DefaultArgument", src: "function f(a = 1, b = a) { return a + b }\nf()"},
	{name: "destructuring", feature: "Destructuring", src: "var [a, { b }] = c; ({ d, e: [f] } = g); function h([i], { j }) { return i + j }\nh(a, b, d, f)", also: []string{"ObjectExtensions"}},
	{name: "for-of", feature: "ForOf", src: "for (var x of y) z(x)"},
	{name: "generator", feature: "Generator", src: "function* g() { yield 1; yield* h() }\ng()"},
	{name: "new-target", feature: "NewTarget", src: "function F() { return new.target }\nnew F"},
	{name: "object-extensions", feature: "ObjectExtensions", src: "x = { a, [b]: 1, c() { return 1 } }"},
	{name: "object-accessors", feature: "ObjectAccessors", src: "x = { get a() { return 1 }, set a(v) {} }"},
	{name: "rest-arg", feature: "RestArgument", src: "function f(a, ...b) { return b }\nf()"},
	{name: "array-spread", feature: "ArraySpread", src: "f(...a); x = [...b, 1]; new G(...c)"},
	{name: "template", feature: "TemplateLiteral", src: "x = `a${b}c`; y = tag`c${d}`; z = `plain`"},
	{name: "unicode-escapes", feature: "UnicodeEscapes", src: "x = '\\u{1F600}'; var \\u{61}b = 1"},
	{name: "re-sticky", feature: "RegexpStickyAndUnicodeFlags", src: "x = /a/y; y = /b/u"},
	// TypeScript-only constructs whose lowering templates write syntax of their own
	{name: "ts-enum", feature: "ExponentOperator", loader: "ts", src: "enum E { A = 2, B = A ** 3, C = `x`.length }\nf(E)", also: []string{"TemplateLiteral"}, noKeep: true},
	{name: "ts-namespace", feature: "ConstAndLet", loader: "ts", src: "namespace N { export const x = a ?? b; export let y = x?.z }\nf(N)", also: []string{"NullishCoalescing", "OptionalChain"}, noKeep: true},
	{name: "ts-param-props", feature: "Class", loader: "ts", src: "class C { constructor(private x: number, public y = x ** 2) {} f = this.x }\nnew C(1)", also: []string{"ClassField", "ExponentOperator", "DefaultArgument"}, noKeep: true},
	{name: "ts-decorators", feature: "Class", loader: "ts", src: "@dec class C { @dec m(p: number) {} @dec f = 1 }\nnew C", also: []string{"Decorators", "ClassField"}, noKeep: true},
}

// statements whose minified form may use newer syntax than their source
var minifyBaits = []string{
	"x = a === null || a === undefined ? undefined : a.b",
	"x = a == null ? void 0 : a.b.c",
	"x = a != null ? a : b",
	"x = a !== null && a !== undefined ? a : b()",
	"a == null && (a = b)",
	"if (a == null) a = b",
	"a || (a = b)",
	"a && (a = b)",
	"if (!a) a = b",
	"a.b == null && (a.b = c)",
	"x = 'a' + b + 'c' + d",
	"x = a + 'b' + `c${d}`",
	"x = function () { return 1 }; y = function (a) { return a + 1 }.bind(this)",
	"x = a ? a.b : undefined; y = a && a.b && a.b.c",
	"x = typeof y === 'undefined' ? z : y",
	"if (a) { b = c } else { b = d } if (e) f(); else g()",
	"x = a === void 0 ? b : a",
	"var o = { 'a': a, 'b': function () { return 1 }, c: c }",
	"x = Math.pow(a, b); y = a * a",
	"x = Object.assign({}, a, { b: 1 })",
	"function f(a) { if (a === undefined) a = 1; return a }\nf()",
	"x = [a].concat(b); y = f.apply(null, c)",
	"try { f() } catch (e) { }",
	"x = 1000000; y = 0.000001; z = 1e21",
	"x = a !== undefined && a !== null ? a.b : undefined",
	"var t = this == null ? void 0 : this.x",
}

// programs in OLD syntax whose minified / generated form could use a NEWER feature
var oldSyntaxBaits = []struct{ src, loader string }{
	{"export function f(x, y) { return x != null ? x.a.b : undefined }", ""},
	{"export function f(x) { return x == null ? void 0 : x.a[0](1) }", ""},
	{"export function f(x, y) { if (x === null || x === undefined) return undefined; return x.title }", ""},
	{"export function f(x, y) { return x != null ? x : y }", ""},
	{"export function f(x, y) { return x !== null && x !== undefined ? x : y() }", ""},
	{"export function f(x, y) { if (x == null) return y; else return x }", ""},
	{"export function f(x) { x != null && x.b(); x == null || x.c.d() }", ""},
	{"export function f(x, y) { var t = x; return t === null || t === void 0 ? void 0 : t.p.q }", ""},
	{"export function f(x, y) { x == null && (x = y); x || (x = y); x && (x = y); return x }", ""},
	{"export function f(x, y) { if (x == null) x = y; if (!x) x = y; x = x || y; x = x != null ? x : y; return x }", ""},
	{"export function f(o, y) { o.p == null && (o.p = y); o.q = o.q || y; return o }", ""},
	{"export function f(a, b) { return Math.pow(a, b) + a * a * a }", ""},
	{"export function f(a, b) { return 'x' + a + 'y' + b + 'z' }", ""},
	{"export function f(a) { return function (b) { return a + b } }\nexport var g = function () { return 1 }", ""},
	{"export function f(a) { try { return a() } catch (e) { return 0 } }", ""},
	{"export function f(a) { try { a() } catch (e) {} }", ""},
	{"export function f(a, b) { return Object.assign({}, a, { c: b }) }", ""},
	{"export function f(a) { return typeof a === 'undefined' ? 1 : typeof a == 'object' ? 2 : 3 }", ""},
	{"export function f(a, b) { var o = { a: a, b: b, 'c': function () { return 1 } }; return o }", ""},
	{"export function f(a) { return a === void 0 ? 1 : a }\nexport function g(a) { return a === undefined || a === null }", ""},
	{"export function f(a) { return 1000000 * a + 1e21 + 0.0000001 }", ""},
	{"export function f(a, b) { return [a].concat(b), f.apply(null, b) }", ""},
	{"export function f(p) { return new Promise(function (r) { r(p) }).then(function (v) { return v }) }", ""},
	{"export function f(x) { return x && x.a && x.a.b && x.a.b.c }", ""},
	{"export function f(x) { return x ? x.a : undefined }\nexport function g(x) { return x ? x : 0 }", ""},
	{"export enum E { A = 1, B = A * 2 }\nexport namespace N { export var x = 1 }\nnamespace N { export var y = x }", "ts"},
	{"enum E { A }\nenum E { B = 2 }\nexport function f(e: E, d?: number) { return d != null ? d : e }", "ts"},
	{"export class C { constructor(public a: number, private b = a) {} m(x?: C) { return x != null ? x.a : undefined } }", "ts"},
}

// wrappers (statement level, with a HOLE for an expression) and expression
// fragments (with holes for sub-expressions): combinations put each feature in
// many syntactic positions
var wrappers = []string{
	"x = HOLE",
	"x = async () => { return HOLE }",
	"x = async () => HOLE",
	"async function f() { await HOLE }\nf()",
	"async function* g() { yield HOLE; yield* HOLE }\ng()",
	"function* g() { yield HOLE }\ng()",
	"class C { f = HOLE }\nnew C",
	"class C { static f = HOLE }\nnew C",
	"class C { static { x = HOLE } }\nnew C",
	"class C { #p = HOLE; m() { return this.#p } }\nnew C",
	"class C { static #p = HOLE; static m() { return C.#p } }\nnew C",
	"class C { [HOLE] = 1; static [HOLE]() {} }\nnew C",
	"class C extends (HOLE) { constructor() { super(HOLE) } m() { return super.m(HOLE) } }\nnew C",
	"x = class { m() { return HOLE } get g() { return HOLE } static async s() { return HOLE } }",
	"function f(a = HOLE) { return a }\nf()",
	"x = ({ a = HOLE }) => a",
	"var { a = HOLE, ...r } = HOLE",
	"x = `t${HOLE}u`",
	"x = tag`t${HOLE}u`",
	"x ??= HOLE",
	"x.y ||= HOLE",
	"x = o?.[HOLE]",
	"x = o?.m(HOLE)",
	"x = { ...HOLE, k: HOLE }",
	"x = [...HOLE]",
	"try { x = HOLE } catch { y = HOLE }",
	"{ using r = HOLE; f(r) }",
	"async function f() { await using r = HOLE; for await (const q of HOLE) g(q) }\nf()",
	"for (const k of HOLE) f(k)",
	"x = (HOLE) ** 2",
	"x = (HOLE) ?? 1",
	"label: for (;;) { if (HOLE) break label }",
	"x = { get a() { return HOLE }, set a(v) { y = HOLE }, async *b() { yield HOLE } }",
	"x = function () { return HOLE }",
	"x = () => HOLE",
	"export default HOLE",
	"export const v = HOLE",
	"if (HOLE) x = HOLE; else y = HOLE",
	"switch (HOLE) { case HOLE: x = HOLE }",
	"x = new (HOLE)(HOLE)",
	"delete (HOLE).p",
	"x = typeof HOLE",
}

var fragments = []string{
	"a", "this", "1n", "a ** b", "a ?? b", "a?.b", "a?.[b]?.(c)", "(a ||= b)", "(a ??= b)", "(a.b &&= c)", "`q${HOLE}`", "{ ...HOLE }", "[...HOLE]",
	"async () => { await HOLE }", "async function () { await HOLE }", "async function* () { yield HOLE }", "function* () { yield HOLE }",
	"() => HOLE", "function () { return HOLE }", "class { f = HOLE }", "class { static f = HOLE }", "class { #p = HOLE; g() { return this.#p } }",
	"class { static { HOLE } }", "class { static #s = HOLE; static g() { return this.#s } }", "class { #m() { return HOLE } g() { return this.#m() } }",
	"class { get #a() { return HOLE } g() { return this.#a } }", "class { #x; static h(o) { return #x in o } }",
	"import('./other.js')", "import.meta.url", "/x(?<n>y)/s", "/(?<=a)b/u", "/a/v", "/a/d", "new.target", "super.x", "arguments",
	"(HOLE, HOLE)", "f(HOLE)", "HOLE ? HOLE : HOLE", "HOLE === null || HOLE === undefined ? undefined : a.b", "HOLE != null ? a : b", "'s' + HOLE + 't'",
	"a === null || a === undefined ? undefined : a[HOLE]", "{ k: HOLE, [HOLE]: 1, m() { return HOLE } }", "(({ p, ...q }) => q)(HOLE)", "a?.b ?? (c ||= HOLE)",
	"function ({ p = HOLE, ...q }, ...r) { return [p, q, r] }", "o.p?.q.r ?? s", "a ** -b", "(a **= HOLE)", "0x10n * 2n", "1_000_000", "typeof a === 'undefined'",
}

func fill(r *Rng, tmpl string, depth int) string {
	for strings.Contains(tmpl, "HOLE") {
		var sub string
		if depth <= 0 {
			sub = []string{"a", "b", "1", "this.c", "d()"}[r.Intn(5)]
		} else {
			sub = fill(r, fragments[r.Intn(len(fragments))], depth-1-r.Intn(2))
		}
		tmpl = strings.Replace(tmpl, "HOLE", sub, 1)
	}
	return tmpl
}

func genCombo(r *Rng) string {
	k := 1 + r.Intn(3)
	var parts []string
	for i := 0; i < k; i++ {
		parts = append(parts, fill(r, wrappers[r.Intn(len(wrappers))], 1+r.Intn(3)))
	}
	return strings.Join(parts, "\n")
}

// ---------- detector self test ----------

func selfTest(st *Stats) {
	for _, p := range probes {
		if p.loader == "jsx" || p.loader == "tsx" {
			continue // not plain JavaScript: the detector reads outputs, not JSX sources
		}
		d := Detect(p.src)
		st.Note("detector-selftest", p.name, true)
		want := append([]string{p.feature}, p.also...)
		for _, f := range want {
			if _, known := detectable[f]; known && !contains(d, f) {
				failOnce(st, "detector-selftest", map[string]interface{}{"probe": p.name, "source": p.src, "scenario": "harness-self-test:" + p.name}, d, "detector sees "+f)
			}
		}
		// nothing newer than ES2015 may be reported that the probe does not declare
		for _, f := range d {
			if e := ecmaEdition[f]; (e > 2015 || e == 0) && !contains(want, f) {
				failOnce(st, "detector-selftest", map[string]interface{}{"probe": p.name, "source": p.src, "scenario": "harness-self-test:" + p.name}, d, "detector does not report "+f)
			}
		}
	}
}

// features the detector can see in a text
var detectable = map[string]bool{}

func init() {
	for _, f := range []string{"ArbitraryModuleNamespaceNames", "ArraySpread", "Arrow", "AsyncAwait", "AsyncGenerator", "Bigint", "Class", "ClassField",
		"ClassPrivateAccessor", "ClassPrivateBrandCheck", "ClassPrivateField", "ClassPrivateMethod", "ClassPrivateStaticAccessor", "ClassPrivateStaticField",
		"ClassPrivateStaticMethod", "ClassStaticBlocks", "ClassStaticField", "ConstAndLet", "Decorators", "DynamicImport", "ExponentOperator", "ExportStarAs",
		"ForAwait", "ForOf", "Generator", "Hashbang", "ImportAssertions", "ImportAttributes", "ImportDefer", "ImportMeta", "ImportSource", "LogicalAssignment",
		"NewTarget", "NullishCoalescing", "ObjectRestSpread", "OptionalCatchBinding", "OptionalChain", "RegexpDotAllFlag", "RegexpLookbehindAssertions",
		"RegexpMatchIndices", "RegexpNamedCaptureGroups", "RegexpSetNotation", "RegexpStickyAndUnicodeFlags", "RegexpUnicodePropertyEscapes", "RestArgument",
		"TemplateLiteral", "TopLevelAwait", "UnicodeEscapes", "Using"} {
		detectable[f] = true
	}
}

// ---------- fixed corpus: replays of the known findings (run first, every run) ----------

func corpus(st *Stats) {
	run := func(src string, c *cfg) {
		r := runTransform(src, c)
		st.Note("corpus", src+jsonStr(c), true)
		if r.ok {
			checkOutput(st, "transform", src, c, r)
		} else {
			failOnce(st, "corpus-input-rejected", map[string]interface{}{"kind": "transform", "source": src, "config": c, "scenario": "corpus"}, msgTexts(r.errors), "the corpus input is accepted")
		}
	}
	mk := func(target string, sup map[string]bool) *cfg {
		c := &cfg{Supported: sup}
		c.setTarget(target)
		return c
	}
	// (1) replays of the KNOWN findings (still reproduce; matched by known_findings.d/C14.json)
	run("#!/usr/bin/env node\nx()", mk("es2015", nil))
	run("#!/usr/bin/env node\nx()", mk("esnext", map[string]bool{"hashbang": false}))
	run("x = import('./y.js')", mk("es2019", nil))
	// contradictory overrides: the syntax forced on needs a feature that stays off
	run("async function f() { for await (const x of y) z(x) }\nf()", mk("es2015", map[string]bool{"for-await": true}))
	run("await x; export {}", mk("es2015", map[string]bool{"top-level-await": true}))
	// the refuted witness of lowering_closed: class-field lowering writes array spread
	run("class A extends B { x = 1 }\nnew A", mk("esnext", map[string]bool{"class-field": false, "array-spread": false}))

	// (2) MUST PASS: witnesses of findings that were repaired by fix: commits in /repo; a revert
	// of the fix makes the detector / re-parse oracle fail on exactly these inputs
	// fix 0b230bb: unicode property escapes inside a character class, and with the v flag
	run("x = /[\\p{L}]/u", mk("es2017", nil))
	run("x = /[^\\P{Lu}a-z]+(?:[\\p{Nd}])/u; y = /a[\\]\\p{L}]/u", mk("es2017", nil))
	run("x = /\\p{L}/v", mk("es2017", map[string]bool{"regexp-set-notation": true}))
	run("x = /[\\p{L}--[a-z]]/v", mk("es2017", map[string]bool{"regexp-set-notation": true}))
	// fix 376c1b1: new.target in a static initializer that is moved out of the class
	run("class C { static p = new.target }\nnew C", mk("es2021", nil))
	run("x = class { static #q = [new.target, () => new.target]; static { y = new.target } }", mk("es2021", nil))
	// fix 9c91e2a: super in an async generator when only async generators are unsupported
	run("class C extends D { async *m() { yield super.x } }\nnew C", mk("es2017", nil))
	run("x = { async *b() { yield super.x; super.y = 1; yield* super.z() } }", mk("es2017", nil))
	// fix 0b95f51: \u{...} in the raw text of a tagged template with unicode-escapes unsupported
	run("y = String.raw`\\u{1F600}${b}`", mk("esnext", map[string]bool{"unicode-escapes": false}))
	run("z = tag`a\\u{62}c`; w = f()`\\u{1F600}${x}\\u{1F601}`", mk("esnext", map[string]bool{"unicode-escapes": false}))
}

// ---------- glue ----------

func glue(r *Rng, st *Stats, cf *CoqFile, n int, tier string) {
	dir, err := os.MkdirTemp("", "verif-c14-")
	if err != nil {
		panic(err)
	}
	defer os.RemoveAll(dir)
	os.WriteFile(dir+"/other.js", []byte("export var o = 1\nexport default 2\n"), 0o644)
	os.WriteFile(dir+"/other.json", []byte("{\"a\": 1}\n"), 0o644)

	var specItems, lowerItems, introItems []string
	dump := os.Getenv("C14_DUMP") != ""
	realOnly := func(xs []string) []string {
		var out []string
		for _, f := range xs {
			if _, ok := featByName[f]; ok {
				out = append(out, f)
			}
		}
		return out
	}
	lowerCase := func(kind string, c *cfg, p *probe, res result, detected []string) {
		if p == nil || c.Bundle || c.Minify || c.Format != "" || c.KeepNames || !strings.HasPrefix(kind, "probe-") || strings.Contains(kind, "random") {
			return
		}
		if c.contradiction() != "" {
			return
		}
		var ul []string
		for _, f := range namesOf(c.goOptions().UnsupportedJSFeatures) {
			if f != "InlineScript" {
				ul = append(ul, f)
			}
		}
		prog := append([]string{p.feature}, p.also...)
		lowerItems = append(lowerItems, fmt.Sprintf("(%s, %s, %s, %s)", coqFeatList(ul), coqFeatList(prog), CBool(res.ok), coqFeatList(realOnly(detected))))
		st.Note("lower-graph", p.name+jsonStr(c), len(ul) > 0)
	}

	runOne := func(kind string, src string, esm bool, c *cfg, p *probe) {
		var res result
		if c.Bundle {
			res = runBuild(dir, src, c)
		} else {
			if esm && (c.Format == "cjs" || c.Format == "iife") && false {
				return
			}
			res = runTransform(src, c)
		}
		uns := c.predicateUnsupported()
		nontrivial := false
		for _, v := range uns {
			if v {
				nontrivial = true
			}
		}
		st.Note(kind, src+"|"+jsonStr(c), nontrivial)
		if !res.ok {
			st.Note(kind+":rejected", src+"|"+jsonStr(c), false)
			if dump {
				fmt.Printf("DUMP %s %s [%s] ERROR %v\n", kind, nameOf(p), jsonStr(c), msgTexts(res.errors))
			}
			lowerCase(kind, c, p, res, nil)
			// P3: the `supported` overrides / the target are honoured in the other direction
			// too: when every feature the probe uses is available in the target (per the
			// ECMA table for ES years, overrides winning) esbuild must not reject the probe
			// with a target error.  Errors that also occur for ESNext with the same format,
			// loader and JSX mode are not target errors.
			if p != nil && c.contradiction() == "" && !c.KeepNames {
				all := append([]string{p.feature}, p.also...)
				clean := true
				for _, f := range all {
					if uns[f] {
						clean = false
					}
				}
				// overrides that concern other features, or a target that lacks part of the ES2015
				// baseline the probes and the bundle scaffolding are written in, can be rejected
				// for reasons that have nothing to do with the probe's features
				for k := range c.Supported {
					if !contains(all, camel(k)) {
						clean = false
					}
				}
				for n := range notTransformable {
					if c.goOptions().UnsupportedJSFeatures.Has(featByName[n]) && n != "NestedRestBinding" {
						clean = false
					}
				}
				if clean {
					cx := *c
					cx.Supported, cx.engines, cx.Engines = nil, nil, nil
					cx.setTarget("esnext")
					var rx result
					if cx.Bundle {
						rx = runBuild(dir, src, &cx)
					} else {
						rx = runTransform(src, &cx)
					}
					if rx.ok {
						failOnce(st, "error-for-supported-feature", map[string]interface{}{"kind": kind, "source": src, "config": c, "scenario": "rejected:" + p.feature},
							map[string]interface{}{"errors": msgTexts(res.errors)}, "no target error: every feature the program uses is available in this target")
					}
				}
			}
			return
		}
		v := checkOutput(st, kind, src, c, res)
		lowerCase(kind, c, p, res, v.detected)
		if (kind == "introduced-syntax" || kind == "minify-bait") && c.Loader == "" && c.contradiction() == "" {
			var ul []string
			for _, f := range namesOf(c.goOptions().UnsupportedJSFeatures) {
				if f != "InlineScript" {
					ul = append(ul, f)
				}
			}
			introItems = append(introItems, fmt.Sprintf("(%s, %s, %s)", coqFeatList(ul), coqFeatList(realOnly(Detect(src))), coqFeatList(realOnly(v.detected))))
		}
		if dump {
			fmt.Printf("DUMP %s %s [%s] ok detected=%v warnings=%d\n", kind, nameOf(p), jsonStr(c), v.detected, len(res.warnings))
		}
		// spec-side cross-check in Coq (ES-year targets without overrides): the detected
		// set must contain nothing newer than the year per Spec.ecma_edition
		if len(c.engines) == 0 && len(c.Supported) == 0 && c.year >= 2015 {
			var det []string
			for _, f := range v.detected {
				if _, ok := featByName[f]; ok {
					det = append(det, f)
				}
			}
			var leaks []string
			for _, f := range v.leaks {
				if _, ok := featByName[f]; ok {
					leaks = append(leaks, f)
				}
			}
			sort.Strings(leaks)
			specItems = append(specItems, fmt.Sprintf("(%d, %s, %s)", c.year, coqFeatList(det), coqFeatList(leaks)))
		}
		// evidence only (NOT part of the property): with everything the probe uses
		// supported, is the probe's own syntax still there?  esbuild may rewrite a
		// supported feature into older syntax (export * as ns -> import + export).
		if p != nil && !p.noKeep && !c.Minify && detectable[p.feature] && !c.Bundle {
			clean := true
			for _, f := range append([]string{p.feature}, p.also...) {
				if uns[f] {
					clean = false
				}
			}
			if p.esm && (c.Format == "cjs" || c.Format == "iife") {
				clean = false
			}
			if clean && !contains(v.detected, p.feature) {
				st.Histogram["evidence:supported-syntax-rewritten:"+p.feature]++
			}
		}
	}

	// (a) every probe x every ES target, plain transform
	for i := range probes {
		p := &probes[i]
		for _, t := range esTargets {
			if t.name == "es5" {
				continue
			}
			c := &cfg{}
			p.apply(c)
			c.setTarget(t.name)
			runOne("probe-transform", p.src, p.esm, c, p)
		}
	}
	// (b) every probe with its own feature switched off / on by `supported`
	for i := range probes {
		p := &probes[i]
		key, ok := keyByName[p.feature]
		if !ok {
			continue
		}
		c := &cfg{Supported: map[string]bool{key: false}}
		p.apply(c)
		c.setTarget("esnext")
		runOne("probe-supported-false", p.src, p.esm, c, p)
		c = &cfg{Supported: map[string]bool{key: true}}
		p.apply(c)
		c.setTarget("es2015")
		c.makeCoherent()
		runOne("probe-supported-true", p.src, p.esm, c, p)
	}
	// (c) random probe x random configuration (formats, minify, bundle, engines, overrides)
	formats := []string{"", "esm", "cjs", "iife"}
	count := n
	for i := 0; i < count; i++ {
		p := &probes[r.Intn(len(probes))]
		c := randomConfig(r, false)
		c.Minify = r.Chance(40)
		c.KeepNames = r.Chance(15)
		c.Bundle = r.Chance(35)
		c.Format = formats[r.Intn(len(formats))]
		p.apply(c)
		if c.Bundle && c.Format == "" {
			c.Format = "esm"
		}
		kind := "probe-random-transform"
		if c.Bundle {
			kind = "probe-random-bundle"
		}
		runOne(kind, p.src, p.esm, c, p)
	}
	// (d) minifier baits x targets
	for _, b := range minifyBaits {
		for _, tn := range []string{"es2015", "es2016", "es2019", "es2020", "es2021", "esnext"} {
			c := &cfg{Minify: true}
			c.setTarget(tn)
			runOne("minify-bait", b, false, c, nil)
		}
	}
	for i := 0; i < count/3; i++ {
		b := minifyBaits[r.Intn(len(minifyBaits))] + "\n" + minifyBaits[r.Intn(len(minifyBaits))]
		c := randomConfig(r, false)
		c.Minify = true
		c.Bundle = r.Chance(25)
		if c.Bundle {
			c.Format = formats[1+r.Intn(3)]
		}
		runOne("minify-bait-random", b, false, c, nil)
	}
	// (d') syntax INTRODUCED by esbuild's own rewrites: inputs written in old syntax (locals, so
	// that reads are side-effect free) whose minified or generated form may use a newer
	// operator, under every configuration that takes ONE candidate feature away while its
	// siblings stay: single supported:false overrides, and the real engine rows that split
	// ES2020/ES2021 (?? from node14.0/chrome80/firefox72 but ?. from node16.9/chrome91/firefox74,
	// ||= from node15/chrome85/firefox79, ...)
	var splits []*cfg
	for _, f := range []string{"OptionalChain", "NullishCoalescing", "LogicalAssignment", "OptionalCatchBinding", "TemplateLiteral", "Arrow",
		"ExponentOperator", "ObjectRestSpread", "AsyncAwait", "Bigint", "ClassField", "ClassStaticBlocks", "UnicodeEscapes"} {
		c := &cfg{Supported: map[string]bool{keyByName[f]: false}}
		c.setTarget("esnext")
		splits = append(splits, c)
	}
	for _, ev := range [][2]string{{"node", "14"}, {"node", "14.5"}, {"node", "15"}, {"node", "16.8"}, {"chrome", "80"}, {"chrome", "84"}, {"chrome", "85"},
		{"chrome", "90"}, {"edge", "80"}, {"edge", "90"}, {"firefox", "72"}, {"firefox", "73"}, {"firefox", "78"}, {"opera", "67"}, {"opera", "76"},
		{"safari", "13"}, {"safari", "13.1"}, {"ios", "13.4"}, {"deno", "1"}} {
		c := &cfg{}
		c.setTarget("esnext")
		c.target, c.Target = api.DefaultTarget, "default"
		for en, label := range engineLabels {
			if label == ev[0] {
				c.addEngine(en, label, ev[1])
			}
		}
		splits = append(splits, c)
	}
	for bi, b := range oldSyntaxBaits {
		for si, s := range splits {
			c := *s
			c.Minify = true
			c.Loader = b.loader
			if (bi+si)%4 == 0 {
				c.Bundle, c.Format = true, formats[1+(bi+si)%3]
			}
			runOne("introduced-syntax", b.src, false, &c, nil)
		}
	}
	// (e) nested combinations
	for i := 0; i < count; i++ {
		src := genCombo(r)
		c := randomConfig(r, false)
		c.Minify = r.Chance(35)
		c.Bundle = r.Chance(20)
		c.Format = formats[r.Intn(len(formats))]
		if c.Bundle && c.Format == "" {
			c.Format = "esm"
		}
		runOne("combo", src, strings.Contains(src, "export "), c, nil)
	}
	// (f) bundles with no probe at all: runtime helpers and wrappers only
	for _, t := range esTargets[1:] {
		for _, f := range formats[1:] {
			for _, m := range []bool{false, true} {
				c := &cfg{Bundle: true, Format: f, Minify: m}
				c.setTarget(t.name)
				runOne("bundle-wrappers", "export var plain = 1", true, c, nil)
			}
		}
	}
	cf.AddCases("spec_cases", "Z * list feature * list feature", "check_spec_leaks", specItems)
	cf.AddCases("lower_cases", "list feature * list feature * bool * list feature", "check_lower", lowerItems)
	cf.AddCases("intro_cases", "list feature * list feature * list feature", "check_intro", introItems)
}

func nameOf(p *probe) string {
	if p == nil {
		return "-"
	}
	return p.name
}
