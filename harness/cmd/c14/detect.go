package main

// A small, independent syntax-feature detector for JavaScript text printed by
// esbuild. It has its own tokenizer (strings, templates, comments, regular
// expressions, numbers, punctuators) and a bracket-context pass. It does not
// use esbuild's lexer or parser. Feature names are the identifiers of
// internal/compat/js_table.go (plus the pseudo feature "NumericSeparator").
//
// It is validated positively on every run: each probe's INPUT must be detected
// as using the probe's feature (detector self-test in main.go).

import (
	"sort"
	"strings"
)

type tokKind uint8

const (
	tEOF tokKind = iota
	tIdent
	tPrivate
	tNumber
	tString
	tTemplate // whole template literal (features inside are scanned recursively)
	tRegex
	tPunct
)

type tok struct {
	k        tokKind
	s        string
	nlBefore bool
}

type detector struct {
	src      string
	feats    map[string]bool
	notes    map[string]bool // finer observations used to tag scenarios
	subDepth int
}

func isIDStart(c byte) bool {
	return c == '_' || c == '$' || (c >= 'a' && c <= 'z') || (c >= 'A' && c <= 'Z') || c >= 0x80 || c == '\\'
}
func isIDPart(c byte) bool { return isIDStart(c) || (c >= '0' && c <= '9') }
func isDigit(c byte) bool  { return c >= '0' && c <= '9' }

var puncts = []string{
	">>>=", "...", "===", "!==", "**=", "<<=", ">>=", ">>>", "&&=", "||=", "??=",
	"=>", "==", "!=", "<=", ">=", "&&", "||", "??", "?.", "**", "++", "--", "+=", "-=", "*=", "/=", "%=",
	"&=", "|=", "^=", "<<", ">>",
}

var regexPrevKeywords = map[string]bool{
	"return": true, "typeof": true, "instanceof": true, "in": true, "of": true, "new": true, "delete": true,
	"void": true, "throw": true, "case": true, "do": true, "else": true, "yield": true, "await": true,
}

func (d *detector) add(f string) { d.feats[f] = true }

// tokenize returns the tokens of src[from:] up to the matching close of a
// template substitution when inTemplate is true (returns the index after '}').
func (d *detector) tokenize(i int, inTemplate bool) ([]tok, int) {
	src := d.src
	var out []tok
	depth := 0
	nl := false
	prevAllowsRegex := func() bool {
		if len(out) == 0 {
			return true
		}
		p := out[len(out)-1]
		switch p.k {
		case tIdent:
			return regexPrevKeywords[p.s]
		case tPunct:
			return p.s != ")" && p.s != "]" && p.s != "}" && p.s != "++" && p.s != "--"
		}
		return false
	}
	for i < len(src) {
		c := src[i]
		switch {
		case c == '\n':
			nl = true
			i++
			continue
		case c == ' ' || c == '\t' || c == '\r':
			i++
			continue
		case c == 0xE2 && i+2 < len(src) && src[i+1] == 0x80 && (src[i+2] == 0xA8 || src[i+2] == 0xA9):
			nl = true
			i += 3
			continue
		case c == '/' && i+1 < len(src) && src[i+1] == '/':
			for i < len(src) && src[i] != '\n' {
				i++
			}
			continue
		case c == '/' && i+1 < len(src) && src[i+1] == '*':
			j := strings.Index(src[i+2:], "*/")
			if j < 0 {
				i = len(src)
			} else {
				if strings.Contains(src[i:i+2+j], "\n") {
					nl = true
				}
				i += j + 4
			}
			continue
		case c == '#' && i == 0 && i+1 < len(src) && src[1] == '!':
			d.add("Hashbang")
			for i < len(src) && src[i] != '\n' {
				i++
			}
			continue
		}
		t := tok{nlBefore: nl}
		nl = false
		switch {
		case c == '"' || c == '\'':
			j := i + 1
			for j < len(src) && src[j] != c {
				if src[j] == '\\' {
					if j+2 < len(src) && src[j+1] == 'u' && src[j+2] == '{' {
						d.add("UnicodeEscapes")
						d.notes["unicode-escape-elsewhere"] = true
					}
					j++
				}
				j++
			}
			t.k, t.s = tString, src[i:min(j+1, len(src))]
			i = j + 1
		case c == '`':
			d.add("TemplateLiteral")
			// tagged: the template directly follows an expression (identifier, member, call, template)
			tagged := false
			if len(out) > 0 {
				pt := out[len(out)-1]
				tagged = (pt.k == tIdent && !regexPrevKeywords[pt.s]) || pt.k == tTemplate || pt.k == tPrivate ||
					(pt.k == tPunct && (pt.s == ")" || pt.s == "]"))
			}
			j := i + 1
			for j < len(src) && src[j] != '`' {
				if src[j] == '\\' {
					if j+2 < len(src) && src[j+1] == 'u' && src[j+2] == '{' {
						d.add("UnicodeEscapes")
						if tagged {
							d.notes["unicode-escape-in-tagged-template-raw"] = true
						} else {
							d.notes["unicode-escape-elsewhere"] = true
						}
					}
					j += 2
					continue
				}
				if src[j] == '$' && j+1 < len(src) && src[j+1] == '{' {
					_, j = d.scanSub(j + 2)
					continue
				}
				j++
			}
			t.k, t.s = tTemplate, "`"
			i = j + 1
		case isDigit(c) || (c == '.' && i+1 < len(src) && isDigit(src[i+1])):
			j := i
			for j < len(src) && (isIDPart(src[j]) || src[j] == '.' ||
				((src[j] == '+' || src[j] == '-') && (src[j-1] == 'e' || src[j-1] == 'E') && !strings.HasPrefix(src[i:], "0x") && !strings.HasPrefix(src[i:], "0X"))) {
				// stop at ".." / ".identifier" after an integer like 1..toString or 1.e
				if src[j] == '.' && j+1 < len(src) && (src[j+1] == '.' || (isIDStart(src[j+1]) && src[j+1] != 'e' && src[j+1] != 'E')) && j > i {
					if strings.Contains(src[i:j], ".") || src[j+1] == '.' {
						break
					}
				}
				j++
			}
			num := src[i:j]
			if strings.HasSuffix(num, "n") && !strings.HasPrefix(num, "0x") || (strings.HasPrefix(num, "0x") && strings.HasSuffix(num, "n")) {
				d.add("Bigint")
			}
			if strings.Contains(num, "_") {
				d.add("NumericSeparator")
			}
			t.k, t.s = tNumber, num
			i = j
		case c == '#' && i+1 < len(src) && isIDStart(src[i+1]):
			j := i + 1
			for j < len(src) && isIDPart(src[j]) {
				j++
			}
			t.k, t.s = tPrivate, src[i:j]
			i = j
		case isIDStart(c):
			j := i
			for j < len(src) && isIDPart(src[j]) {
				if src[j] == '\\' && j+2 < len(src) && src[j+1] == 'u' && src[j+2] == '{' {
					d.add("UnicodeEscapes")
					d.notes["unicode-escape-elsewhere"] = true
					for j < len(src) && src[j] != '}' {
						j++
					}
				}
				j++
			}
			t.k, t.s = tIdent, src[i:j]
			i = j
		case c == '/' && prevAllowsRegex():
			j := i + 1
			inClass := false
			for j < len(src) && (src[j] != '/' || inClass) && src[j] != '\n' {
				if src[j] == '\\' {
					j++
				} else if src[j] == '[' {
					inClass = true
				} else if src[j] == ']' {
					inClass = false
				}
				j++
			}
			body := src[i+1 : min(j, len(src))]
			j++
			k := j
			for k < len(src) && isIDPart(src[k]) {
				k++
			}
			flags := src[min(j, len(src)):k]
			d.regexFeatures(body, flags)
			t.k, t.s = tRegex, src[i:k]
			i = k
		default:
			t.k = tPunct
			t.s = string(c)
			for _, p := range puncts {
				if strings.HasPrefix(src[i:], p) {
					if p == "?." && i+2 < len(src) && isDigit(src[i+2]) {
						continue
					}
					t.s = p
					break
				}
			}
			i += len(t.s)
			if inTemplate {
				if t.s == "{" {
					depth++
				} else if t.s == "}" {
					if depth == 0 {
						return out, i
					}
					depth--
				}
			}
		}
		out = append(out, t)
	}
	return out, i
}

// scanSub scans a `${ ... }` substitution starting after "${": its tokens are
// analysed as an expression of their own.
func (d *detector) scanSub(i int) ([]tok, int) {
	toks, j := d.tokenize(i, true)
	d.subDepth++ // the enclosing function context is unknown here: no top-level-await verdicts
	d.analyse(toks)
	d.subDepth--
	return toks, j
}

func (d *detector) regexFeatures(body, flags string) {
	for _, f := range flags {
		switch f {
		case 's':
			d.add("RegexpDotAllFlag")
		case 'y', 'u':
			d.add("RegexpStickyAndUnicodeFlags")
		case 'd':
			d.add("RegexpMatchIndices")
		case 'v':
			d.add("RegexpSetNotation")
		}
	}
	classDepth := 0
	for i := 0; i < len(body); i++ {
		switch {
		case body[i] == '\\':
			if i+2 < len(body) && (body[i+1] == 'p' || body[i+1] == 'P') && body[i+2] == '{' && strings.ContainsAny(flags, "uv") {
				d.add("RegexpUnicodePropertyEscapes")
				switch {
				case strings.Contains(flags, "v"):
					d.notes["unicode-property-escape-with-v-flag"] = true
				case classDepth > 0:
					d.notes["unicode-property-escape-inside-character-class"] = true
				default:
					d.notes["unicode-property-escape-plain"] = true
				}
			}
			i++
		case body[i] == '[':
			classDepth++
			if !strings.Contains(flags, "v") {
				classDepth = 1
			}
		case body[i] == ']':
			if classDepth > 0 {
				classDepth--
			}
		case classDepth == 0 && body[i] == '(' && i+3 < len(body) && body[i+1] == '?' && body[i+2] == '<':
			if body[i+3] == '=' || body[i+3] == '!' {
				d.add("RegexpLookbehindAssertions")
			} else {
				d.add("RegexpNamedCaptureGroups")
			}
		}
	}
}

type frameKind uint8

const (
	fTop frameKind = iota
	fParen
	fBracket
	fBlock
	fObject
	fClass
	fClause // import/export { ... }
)

type frame struct {
	kind     frameKind
	pre      string // token text before the opener (for parens: what precedes "(")
	ternary  int
	isFn     bool  // block that is a function body
	member   []tok // class body: tokens of the current member so far
	sawArrow bool  // an "=>" was seen in the current statement of this frame
	openIdx  int   // index of the opening token
}

var notFnParenKeywords = map[string]bool{"if": true, "for": true, "while": true, "switch": true, "catch": true, "with": true, "await": true}

func (d *detector) analyse(toks []tok) {
	stack := []*frame{{kind: fTop}}
	top := func() *frame { return stack[len(stack)-1] }
	get := func(i int) tok {
		if i < 0 || i >= len(toks) {
			return tok{}
		}
		return toks[i]
	}
	inFunction := func() bool {
		if d.subDepth > 0 {
			return true
		}
		for _, f := range stack {
			if f.isFn {
				return true
			}
		}
		return false
	}
	pendingClass := false
	pendingClassDepth := 0
	var lastParenPre string // pre of the most recently closed paren frame
	privKinds := map[string]string{}
	// pre-pass: private declarations inside class bodies are classified below; usages
	// are mapped afterwards
	var privUses []string

	finishMember := func(f *frame, terminator string) {
		m := f.member
		f.member = nil
		if len(m) == 0 {
			return
		}
		static := false
		idx := 0
		if m[0].k == tIdent && m[0].s == "static" && len(m) > 1 {
			static = true
			idx = 1
		}
		if static && terminator == "{" && len(m) == 1 {
			return
		}
		accessor := false
		for idx < len(m) && m[idx].k == tIdent && (m[idx].s == "get" || m[idx].s == "set" || m[idx].s == "async" || m[idx].s == "accessor") && idx+1 < len(m) {
			if m[idx].s == "get" || m[idx].s == "set" {
				accessor = true
			}
			if m[idx].s == "accessor" {
				d.add("Decorators")
			}
			idx++
		}
		for idx < len(m) && m[idx].k == tPunct && m[idx].s == "*" {
			idx++
		}
		if idx >= len(m) {
			return
		}
		key := m[idx]
		isMethod := terminator == "("
		if key.k == tPrivate {
			var kind string
			switch {
			case isMethod && accessor && static:
				kind = "ClassPrivateStaticAccessor"
			case isMethod && accessor:
				kind = "ClassPrivateAccessor"
			case isMethod && static:
				kind = "ClassPrivateStaticMethod"
			case isMethod:
				kind = "ClassPrivateMethod"
			case static:
				kind = "ClassPrivateStaticField"
			default:
				kind = "ClassPrivateField"
			}
			d.add(kind)
			privKinds[key.s] = kind
			return
		}
		autoAccessor := false
		for _, x := range m[:idx] {
			if x.k == tIdent && x.s == "accessor" {
				autoAccessor = true
			}
		}
		if !isMethod && !autoAccessor {
			if static {
				d.add("ClassStaticField")
			} else {
				d.add("ClassField")
			}
		}
	}

	for i := 0; i < len(toks); i++ {
		t := toks[i]
		prev := get(i - 1)
		next := get(i + 1)
		f := top()
		atClassLevel := f.kind == fClass
		switch t.k {
		case tPrivate:
			if atClassLevel && prev.s != "." && prev.s != "?." && !(next.k == tIdent && next.s == "in" && len(f.member) > 0 && f.member[len(f.member)-1].s == "=") {
				// declaration position (handled by finishMember) unless inside an initializer
				inInit := false
				for _, m := range f.member {
					if m.k == tPunct && m.s == "=" {
						inInit = true
					}
				}
				if !inInit {
					f.member = append(f.member, t)
					continue
				}
			}
			if next.k == tIdent && next.s == "in" && prev.s != "." && prev.s != "?." {
				d.add("ClassPrivateBrandCheck")
			} else {
				privUses = append(privUses, t.s)
			}
		case tIdent:
			if prev.k == tPunct && (prev.s == "." || prev.s == "?.") {
				// property name: never a keyword
				if prev.s == "." && get(i-2).k == tIdent {
					if get(i-2).s == "import" && t.s == "meta" {
						d.add("ImportMeta")
					}
					if get(i-2).s == "new" && t.s == "target" {
						d.add("NewTarget")
					}
				}
				break
			}
			isKey := next.k == tPunct && next.s == ":" && (f.kind == fObject) && f.ternary == 0
			if isKey {
				break
			}
			if atClassLevel {
				inInit := false
				for _, m := range f.member {
					if m.k == tPunct && m.s == "=" {
						inInit = true
					}
				}
				if !inInit {
					f.member = append(f.member, t)
					if t.s == "async" && next.k != tPunct || (t.s == "async" && next.s == "*") || (t.s == "async" && next.s == "[") {
						d.add("AsyncAwait")
						if next.s == "*" {
							d.add("AsyncGenerator")
						}
					}
					continue
				}
			}
			switch t.s {
			case "class":
				d.add("Class")
				pendingClass = true
				pendingClassDepth = len(stack)
			case "async":
				if !next.nlBefore && (next.k == tIdent && next.s != "in" && next.s != "of" && next.s != "instanceof" || next.s == "(" && d.arrowFollows(toks, i+1) || next.s == "*" || next.k == tPrivate ||
					((f.kind == fObject) && (next.s == "[" || next.k == tString || next.k == tNumber))) {
					d.add("AsyncAwait")
					if next.s == "*" || (next.s == "function" && get(i+2).s == "*") {
						d.add("AsyncGenerator")
					}
				}
			case "await":
				if prev.k == tIdent && prev.s == "for" {
					d.add("ForAwait")
					d.add("AsyncAwait")
					if !inFunction() && !d.anyArrow(stack) {
						d.add("TopLevelAwait")
					}
					break
				}
				if next.k == tIdent && next.s == "using" && get(i+2).k == tIdent && !get(i+2).nlBefore {
					// await using x = ...: handled by "using"; at the top level it is also top-level await
					d.add("AsyncAwait")
					if !inFunction() && !d.anyArrow(stack) {
						d.add("TopLevelAwait")
					}
					break
				}
				if next.k == tEOF || (next.k == tPunct && (next.s == ")" || next.s == "," || next.s == ";" || next.s == "=" || next.s == "]" || next.s == "." || next.s == ":" || next.s == "=>")) {
					break // plain identifier
				}
				d.add("AsyncAwait")
				if !inFunction() && !top().sawArrow && !d.anyArrow(stack) {
					d.add("TopLevelAwait")
				}
			case "let", "const":
				if next.k == tIdent && next.s != "in" && next.s != "of" && next.s != "instanceof" || next.s == "{" || next.s == "[" {
					d.add("ConstAndLet")
				}
			case "using":
				if next.k == tIdent && !next.nlBefore && next.s != "in" && next.s != "of" && next.s != "instanceof" &&
					(prev.k == tEOF || prev.s == ";" || prev.s == "{" || prev.s == "}" || prev.s == "(" || prev.s == ")" || (prev.k == tIdent && prev.s == "await")) {
					d.add("Using")
				}
			case "of":
				if f.kind == fParen && (f.pre == "for" || f.pre == "await") && prev.k != tEOF && prev.s != "(" {
					d.add("ForOf")
				}
			case "function":
				if next.s == "*" {
					d.add("Generator")
				}
			case "yield":
				d.add("Generator")
			case "catch":
				if next.s == "{" {
					d.add("OptionalCatchBinding")
				}
			case "import":
				if next.s == "(" {
					d.add("DynamicImport")
				}
				if next.k == tIdent && (next.s == "defer" || next.s == "source") && get(i+2).k != tIdent || (next.k == tIdent && (next.s == "defer" || next.s == "source") && get(i+2).s != "from" && get(i+2).k == tIdent) {
					if next.s == "defer" {
						d.add("ImportDefer")
					} else {
						d.add("ImportSource")
					}
				}
			case "export":
				if next.s == "*" && get(i+2).k == tIdent && get(i+2).s == "as" {
					d.add("ExportStarAs")
					if get(i+3).k == tString {
						d.add("ArbitraryModuleNamespaceNames")
					}
				}
			case "as":
				if f.kind == fClause && (prev.k == tString || next.k == tString) {
					d.add("ArbitraryModuleNamespaceNames")
				}
			case "with", "assert":
				if prev.k == tString && next.s == "{" && !t.nlBefore {
					// import ... from "x" with { ... }  /  export ... from "x" with {...}
					if t.s == "with" {
						d.add("ImportAttributes")
					} else {
						d.add("ImportAssertions")
					}
				}
			}
		case tPunct:
			switch t.s {
			case "=>":
				d.add("Arrow")
				f.sawArrow = true
			case "?.":
				d.add("OptionalChain")
			case "??":
				d.add("NullishCoalescing")
			case "??=", "||=", "&&=":
				d.add("LogicalAssignment")
			case "**", "**=":
				d.add("ExponentOperator")
			case "@":
				d.add("Decorators")
				// skip the decorator expression: @a.b.c or @a.b(args)
				j := i + 1
				for get(j).k == tIdent && get(j+1).k == tPunct && get(j+1).s == "." {
					j += 2
				}
				if get(j).k == tIdent {
					j++
				}
				if get(j).k == tPunct && get(j).s == "(" {
					depth := 0
					for ; j < len(toks); j++ {
						if toks[j].k == tPunct && (toks[j].s == "(" || toks[j].s == "[" || toks[j].s == "{") {
							depth++
						} else if toks[j].k == tPunct && (toks[j].s == ")" || toks[j].s == "]" || toks[j].s == "}") {
							depth--
							if depth == 0 {
								j++
								break
							}
						}
					}
				}
				i = j - 1
			case "...":
				switch f.kind {
				case fObject:
					d.add("ObjectRestSpread")
				case fBracket:
					d.add("ArraySpread")
				case fParen:
					// parameter list (followed by "{" or "=>") or call arguments
					if d.closerFollowedBy(toks, f.openIdx, "{") || d.closerFollowedBy(toks, f.openIdx, "=>") {
						d.add("RestArgument")
					} else {
						d.add("ArraySpread")
					}
				}
			case "?":
				f.ternary++
			case ":":
				if f.ternary > 0 {
					f.ternary--
				}
			case ";":
				f.sawArrow = false
				if atClassLevel {
					finishMember(f, ";")
				}
			case "=":
				if atClassLevel {
					hasEq := false
					for _, m := range f.member {
						if m.k == tPunct && m.s == "=" {
							hasEq = true
						}
					}
					if !hasEq {
						saved := append([]tok{}, f.member...)
						finishMember(f, "=")
						f.member = append(saved, t) // remember we are inside an initializer until ";"
					}
				}
			case "*":
				if atClassLevel {
					f.member = append(f.member, t)
				}
			case "(":
				nf := &frame{kind: fParen, pre: prev.s, openIdx: i}
				if prev.k != tIdent && prev.k != tPrivate {
					nf.pre = ""
				}
				if atClassLevel {
					inInit := false
					for _, m := range f.member {
						if m.k == tPunct && m.s == "=" {
							inInit = true
						}
					}
					if !inInit {
						finishMember(f, "(")
						nf.pre = "#method"
					}
				}
				stack = append(stack, nf)
			case "[":
				if atClassLevel {
					f.member = append(f.member, tok{k: tIdent, s: "[computed]"})
				}
				stack = append(stack, &frame{kind: fBracket})
			case "{":
				nf := &frame{kind: fBlock}
				switch {
				case pendingClass && prev.k == tIdent && prev.s == "extends":
					nf.kind = fObject // class C extends { ...b } { }: the heritage is an object literal
				case pendingClass && len(stack) == pendingClassDepth:
					nf.kind = fClass
					pendingClass = false
				case atClassLevel && len(f.member) == 1 && f.member[0].s == "static":
					d.add("ClassStaticBlocks")
					f.member = nil
					nf.isFn = true
				case prev.k == tPunct && prev.s == ")":
					nf.kind = fBlock
					nf.isFn = !notFnParenKeywords[lastParenPre]
				case prev.k == tPunct && prev.s == "=>":
					nf.isFn = true
				case prev.k == tIdent && (prev.s == "import" || prev.s == "export") || (prev.s == "," && get(i-3).k == tIdent && get(i-3).s == "import"):
					nf.kind = fClause
				case prev.k == tIdent && (prev.s == "with" || prev.s == "assert") && get(i-2).k == tString:
					nf.kind = fObject
				case prev.k == tIdent && (prev.s == "var" || prev.s == "let" || prev.s == "const" || prev.s == "return" || prev.s == "typeof" || prev.s == "in" || prev.s == "of" || prev.s == "new" || prev.s == "void" || prev.s == "delete" || prev.s == "throw" || prev.s == "yield" || prev.s == "await" || prev.s == "case" || prev.s == "default" && get(i-2).s == "export"):
					nf.kind = fObject
				case prev.k == tPunct && prev.s == ":":
					if (f.kind == fBlock || f.kind == fTop) && f.ternary == 0 {
						nf.kind = fBlock
					} else {
						nf.kind = fObject
					}
				case prev.k == tPunct && (prev.s == "(" || prev.s == "[" || prev.s == "," || prev.s == "=" || prev.s == "?" || prev.s == "..." ||
					prev.s == "&&" || prev.s == "||" || prev.s == "??" || prev.s == "+" || prev.s == "-" || prev.s == "!" || prev.s == "==" || prev.s == "===" || prev.s == "!=" || prev.s == "!==" ||
					prev.s == "<" || prev.s == ">" || prev.s == "<=" || prev.s == ">=" || prev.s == "|" || prev.s == "&" || prev.s == "^" || prev.s == "*" || prev.s == "/" || prev.s == "%" ||
					strings.HasSuffix(prev.s, "=") && prev.s != "=>"):
					nf.kind = fObject
				}
				if pendingClass && nf.kind == fClass {
					pendingClass = false
				}
				stack = append(stack, nf)
			case ")", "]", "}":
				if len(stack) > 1 {
					closed := stack[len(stack)-1]
					stack = stack[:len(stack)-1]
					if closed.kind == fParen {
						lastParenPre = closed.pre
					}
					if closed.kind == fClass {
						finishMember(closed, "}")
					}
					nt := top()
					if t.s == "}" && nt.kind == fClass && closed.kind != fObject {
						// end of a method body / static block: member boundary
						hasEq := false
						for _, m := range nt.member {
							if m.k == tPunct && m.s == "=" {
								hasEq = true
							}
						}
						if !hasEq {
							nt.member = nil
						}
					}
					if t.s == "}" && (nt.kind == fBlock || nt.kind == fTop) && closed.kind == fBlock {
						nt.sawArrow = false
					}
				}
			}
		}
	}
	for _, u := range privUses {
		if k, ok := privKinds[u]; ok {
			d.add(k)
		} else {
			d.add("ClassPrivateField") // unknown declaration: some private-name feature
		}
	}
}

func (d *detector) anyArrow(stack []*frame) bool {
	for _, f := range stack {
		if f.sawArrow {
			return true
		}
	}
	return false
}

func (d *detector) closerFollowedBy(toks []tok, i int, what string) bool {
	depth := 0
	for j := i; j < len(toks); j++ {
		if toks[j].k == tPunct {
			switch toks[j].s {
			case "(", "[", "{":
				depth++
			case ")", "]", "}":
				depth--
				if depth == 0 {
					return j+1 < len(toks) && toks[j+1].k == tPunct && toks[j+1].s == what
				}
			}
		}
	}
	return false
}

// does "=>" follow the parenthesised group starting at toks[i] == "(" ?
func (d *detector) arrowFollows(toks []tok, i int) bool {
	depth := 0
	for j := i; j < len(toks); j++ {
		if toks[j].k == tPunct {
			switch toks[j].s {
			case "(", "[", "{":
				depth++
			case ")", "]", "}":
				depth--
				if depth == 0 {
					return j+1 < len(toks) && toks[j+1].s == "=>"
				}
			}
		}
	}
	return false
}

// Detect returns the sorted list of features whose syntax occurs in src.
func Detect(src string) []string {
	out, _ := DetectWithNotes(src)
	return out
}

func DetectWithNotes(src string) ([]string, map[string]bool) {
	d := &detector{src: src, feats: map[string]bool{}, notes: map[string]bool{}}
	toks, _ := d.tokenize(0, false)
	d.analyse(toks)
	out := make([]string, 0, len(d.feats))
	for f := range d.feats {
		out = append(out, f)
	}
	sort.Strings(out)
	return out, d.notes
}

func min(a, b int) int {
	if a < b {
		return a
	}
	return b
}
